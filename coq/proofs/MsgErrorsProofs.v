(* ERROR and EVENT messages (model/MsgErrors.v): round trip with an arbitrary suffix, length, totality of the decoders,
   closure of validity under the normal form, non-vacuity examples; then the same for the whole group through the
   dispatch functions enc_error_group / len_error_group / dec_error_group. *)
From Coq Require Import String.
From Coq Require Import ZArith List Bool Lia.
From Coq Require Import ZifyBool ZifyNat.
From GCNP Require Import base.GoInt base.Bytes base.StrBytes base.Codec gen.Constants_gen model.Prim model.DataType
  model.MsgTypes model.Frame model.MsgErrors proofs.PrimProofs proofs.PrimTotal.
Import ListNotations.
Open Scope Z_scope.
Ltac Zify.zify_post_hook ::= Z.div_mod_to_equations.

(* ---------- bridges from the boolean validity tests to the side conditions of PrimProofs ---------- *)
Lemma str16_ok s : str16 s = true -> zlen s <= 65535.
Proof. unfold str16. lia. Qed.
Lemma i32b_ok x : i32b x = true -> in_i32 x.
Proof. unfold i32b, in_i, in_i32. change (2 ^ (32 - 1)) with 2147483648. lia. Qed.
Lemma u16b_ok x : u16b x = true -> in_u16 x.
Proof. unfold u16b, in_u, in_u16. change (2 ^ 16) with 65536. lia. Qed.
Lemma strs16_ok l : strs16 l = true -> zlen l <= 65535 /\ strings_small l.
Proof.
  unfold strs16. intro H. apply andb_prop in H. destruct H as [H1 H2]. split; [lia|].
  unfold strings_small. rewrite Forall_forall. rewrite forallb_forall in H2. intros x Hx. apply str16_ok, H2, Hx.
Qed.
Lemma is_nil_ok {A} (l : list A) : is_nil l = true -> l = [].
Proof. destruct l; [reflexivity|discriminate]. Qed.
Lemma ip_okb_ok ip : ip_okb ip = true -> ip_ok ip.
Proof. destruct ip as [b|]; cbn [ip_okb ip_ok]; [lia|discriminate]. Qed.
Lemma norm_ip16_eq ip : norm_ip16 ip = norm_ip ip.
Proof. reflexivity. Qed.
Lemma inet_okb_ok i : inet_okb i = true -> inet_ok i.
Proof.
  destruct i as [i|]; cbn [inet_okb inet_ok]; [|discriminate]. intro H. apply andb_prop in H. destruct H as [H1 H2].
  split; [apply ip_okb_ok; exact H1|apply i32b_ok; exact H2].
Qed.
Lemma norm_oinet_eq i : norm_oinet (Some i) = Some (norm_inet i).
Proof. reflexivity. Qed.
Lemma bool_byte_range b : in_u8 (bool_byte b).
Proof. destruct b; unfold in_u8, bool_byte; lia. Qed.
Lemma bool_byte_gtb b : Z.gtb (bool_byte b) 0 = b.
Proof. destruct b; reflexivity. Qed.

(* split a conjunction of boolean tests into hypotheses *)
Ltac split_okb H :=
  repeat match type of H with
  | (_ && _) = true => let H' := fresh "Hok" in apply andb_prop in H; destruct H as [H H']
  end.

(* closed boolean tests are evaluated *)
Ltac eval_closed :=
  repeat match goal with
  | |- context [Z.eqb ?a ?b] =>
      let v := eval vm_compute in (Z.eqb a b) in
      match v with
      | true => change (Z.eqb a b) with true
      | false => change (Z.eqb a b) with false
      end
  | |- context [String.eqb ?a ?b] =>
      let v := eval vm_compute in (String.eqb a b) in
      match v with
      | true => change (String.eqb a b) with true
      | false => change (String.eqb a b) with false
      end
  end.

(* side conditions of the read_X_app lemmas *)
Ltac side :=
  first [ assumption
        | apply str16_ok; assumption
        | apply i32b_ok; assumption
        | apply u16b_ok; assumption
        | apply bool_byte_range
        | apply inet_okb_ok; assumption
        | (unfold in_i32, in_u16, in_u8; lia) ].

(* one decoding step: expose the first reader of the decoder and rewrite it with its round-trip lemma *)
Ltac rd :=
  rewrite <- ?app_assoc; unfold bind at 1;
  first [ rewrite read_int_app by side
        | rewrite read_short_app by side
        | rewrite read_byte_app by side
        | rewrite read_string_app by side
        | rewrite read_string_list_app by side
        | rewrite read_short_bytes_app by side
        | rewrite read_inet_app by side ].

(* ====================== the prefix: error code and message ====================== *)
Definition bytes_error_prefix (code : Z) (msg : bytes) : bytes := be_bytes 4 code ++ enc_string msg.

Definition error_codes : list Z :=
  [ErrorCodeServerError; ErrorCodeProtocolError; ErrorCodeAuthenticationError; ErrorCodeOverloaded; ErrorCodeIsBootstrapping;
   ErrorCodeTruncateError; ErrorCodeSyntaxError; ErrorCodeUnauthorized; ErrorCodeInvalid; ErrorCodeConfigError;
   ErrorCodeUnavailable; ErrorCodeReadTimeout; ErrorCodeWriteTimeout; ErrorCodeReadFailure; ErrorCodeWriteFailure;
   ErrorCodeFunctionFailure; ErrorCodeAlreadyExists; ErrorCodeUnprepared].

Lemma error_code_fix code : In code error_codes -> wrap_i 32 code = code /\ in_i32 code /\ wrap_u 32 code = code.
Proof.
  intro H. cbv [error_codes In] in H.
  repeat (destruct H as [<-|H]; [vm_compute; repeat split; intros; discriminate|]). destruct H.
Qed.

Lemma enc_error_prefix_ok code msg : In code error_codes -> zlen msg <= 65535 ->
  enc_error_prefix code msg = Ok (bytes_error_prefix code msg).
Proof.
  intros Hc Hm. destruct (error_code_fix code Hc) as (E & _ & _).
  unfold enc_error_prefix, bytes_error_prefix, write_int. rewrite E, write_string_ok by exact Hm. reflexivity.
Qed.

Lemma len_error_prefix_ok msg code : len_error_prefix msg = Ok (zlen (bytes_error_prefix code msg)).
Proof.
  unfold len_error_prefix, bytes_error_prefix, LengthOfInt. rewrite zlen_app, be_bytes_zlen, enc_string_len. reflexivity.
Qed.

(* the decoder after the prefix: the continuation selected by the code *)
Lemma dec_error_prefix version code msg tail : In code error_codes -> zlen msg <= 65535 ->
  dec_error version (bytes_error_prefix code msg ++ tail) =
  (let code := code in
   if code =? ErrorCodeServerError then ret (M_ServerError msg)
   else if code =? ErrorCodeProtocolError then ret (M_ProtocolError msg)
   else if code =? ErrorCodeAuthenticationError then ret (M_AuthenticationError msg)
   else if code =? ErrorCodeOverloaded then ret (M_Overloaded msg)
   else if code =? ErrorCodeIsBootstrapping then ret (M_IsBootstrapping msg)
   else if code =? ErrorCodeTruncateError then ret (M_TruncateError msg)
   else if code =? ErrorCodeSyntaxError then ret (M_SyntaxError msg)
   else if code =? ErrorCodeUnauthorized then ret (M_Unauthorized msg)
   else if code =? ErrorCodeInvalid then ret (M_Invalid msg)
   else if code =? ErrorCodeConfigError then ret (M_ConfigError msg)
   else if code =? ErrorCodeUnavailable then rmap M_Unavailable (dec_Unavailable version msg)
   else if code =? ErrorCodeReadTimeout then rmap M_ReadTimeout (dec_ReadTimeout version msg)
   else if code =? ErrorCodeWriteTimeout then rmap M_WriteTimeout (dec_WriteTimeout version msg)
   else if code =? ErrorCodeReadFailure then rmap M_ReadFailure (dec_ReadFailure version msg)
   else if code =? ErrorCodeWriteFailure then rmap M_WriteFailure (dec_WriteFailure version msg)
   else if code =? ErrorCodeFunctionFailure then rmap M_FunctionFailure (dec_FunctionFailure version msg)
   else if code =? ErrorCodeAlreadyExists then rmap M_AlreadyExists (dec_AlreadyExists version msg)
   else if code =? ErrorCodeUnprepared then rmap M_Unprepared (dec_Unprepared version msg)
   else rfail) tail.
Proof.
  intros Hc Hm. destruct (error_code_fix code Hc) as (_ & Hr & Eu).
  unfold dec_error, bytes_error_prefix. rewrite <- app_assoc.
  unfold bind at 1. rewrite read_int_app by exact Hr.
  unfold bind at 1. rewrite read_string_app by exact Hm.
  cbv zeta. rewrite Eu. reflexivity.
Qed.

(* ====================== the ten kinds that carry only the message ====================== *)
Definition simple_table : list (Z * (bytes -> Message)) :=
  [(ErrorCodeServerError, M_ServerError); (ErrorCodeProtocolError, M_ProtocolError);
   (ErrorCodeAuthenticationError, M_AuthenticationError); (ErrorCodeOverloaded, M_Overloaded);
   (ErrorCodeIsBootstrapping, M_IsBootstrapping); (ErrorCodeTruncateError, M_TruncateError);
   (ErrorCodeSyntaxError, M_SyntaxError); (ErrorCodeUnauthorized, M_Unauthorized);
   (ErrorCodeInvalid, M_Invalid); (ErrorCodeConfigError, M_ConfigError)].

Ltac in_codes := cbv [error_codes In]; tauto.

Lemma simple_table_codes code ctor : In (code, ctor) simple_table -> In code error_codes.
Proof.
  intro H. cbv [simple_table In] in H.
  repeat (destruct H as [H|H]; [assert (E : code = fst (code, ctor)) by reflexivity; rewrite <- H in E; cbn [fst] in E; subst code; in_codes|]).
  destruct H.
Qed.

(* generic lemma for the ten message-only errors *)
Lemma simple_error_roundtrip version code ctor msg : In (code, ctor) simple_table -> simple_error_okb msg = true ->
  exists b, enc_simple_error code msg = Ok b /\ forall rest, dec_error version (b ++ rest) = DOk (ctor msg) rest.
Proof.
  intros Hin Hok. pose proof (simple_table_codes _ _ Hin) as Hc. apply str16_ok in Hok.
  exists (bytes_error_prefix code msg). split; [apply enc_error_prefix_ok; assumption|].
  intro rest. rewrite dec_error_prefix by assumption.
  cbv [simple_table In] in Hin.
  repeat (destruct Hin as [Hin|Hin];
          [assert (E1 : code = fst (code, ctor)) by reflexivity; assert (E2 : ctor = snd (code, ctor)) by reflexivity;
           rewrite <- Hin in E1, E2; cbn [fst snd] in E1, E2; subst code ctor; cbv zeta; eval_closed; reflexivity|]).
  destruct Hin.
Qed.

Lemma simple_error_length code msg b : In code error_codes -> simple_error_okb msg = true ->
  enc_simple_error code msg = Ok b -> len_simple_error msg = Ok (zlen b).
Proof.
  intros Hc Hok E. apply str16_ok in Hok. unfold enc_simple_error in E. rewrite enc_error_prefix_ok in E by assumption.
  assert (b = bytes_error_prefix code msg) by congruence. subst b. apply len_error_prefix_ok.
Qed.

Example simple_error_nonvacuous : simple_error_okb (bytes_of_string "unconfigured table t") = true.
Proof. vm_compute. reflexivity. Qed.

(* ====================== shapes shared by all per-message theorems ====================== *)
Lemma roundtrip_of {A} (enc : W) (bs : bytes) (dec : R A) (m' : A) :
  enc = Ok bs -> (forall rest, dec (bs ++ rest) = DOk m' rest) ->
  exists b, enc = Ok b /\ forall rest, dec (b ++ rest) = DOk m' rest.
Proof. intros H1 H2. exists bs. split; assumption. Qed.
Lemma rmap_dok {A B} (f : A -> B) (r : R A) bs a rest : r bs = DOk a rest -> rmap f r bs = DOk (f a) rest.
Proof. intro H. unfold rmap, bind. rewrite H. reflexivity. Qed.
Lemma length_of (enc : W) (bs : bytes) (len : L) b : enc = Ok bs -> len = Ok (zlen bs) -> enc = Ok b -> len = Ok (zlen b).
Proof. intros H1 H2 H3. assert (b = bs) by congruence. subst b. exact H2. Qed.

(* after the prefix has been rewritten: select the branch of the error code *)
Ltac dec_prefix := rewrite <- ?app_assoc; rewrite dec_error_prefix by (first [in_codes|side]); cbv zeta; eval_closed.
(* the writers with a fixed layout *)
Ltac wr := unfold write_short, write_int, write_byte; rewrite ?write_string_ok by side;
  rewrite ?write_string_list_ok by side; rewrite ?write_short_bytes_ok by side; cbn [wapp].
Ltac len_tac := rewrite ?zlen_app, ?be_bytes_zlen, ?enc_string_len, ?enc_string_list_len, ?enc_short_bytes_len;
  unfold LengthOfByte, LengthOfShort, LengthOfInt; try (f_equal; lia).

(* ====================== UNAVAILABLE ====================== *)
Definition bytes_Unavailable (m : Unavailable) : bytes :=
  bytes_error_prefix ErrorCodeUnavailable (un_ErrorMessage m) ++
  be_bytes 2 (un_Consistency m) ++ be_bytes 4 (un_Required m) ++ be_bytes 4 (un_Alive m).

Lemma enc_Unavailable_ok version m : Unavailable_okb version m = true -> enc_Unavailable version m = Ok (bytes_Unavailable m).
Proof.
  intro H. unfold Unavailable_okb in H. split_okb H. unfold enc_Unavailable, bytes_Unavailable.
  rewrite enc_error_prefix_ok by (first [in_codes|side]). wr. reflexivity.
Qed.
Lemma dec_Unavailable_app version m rest : Unavailable_okb version m = true ->
  dec_error version (bytes_Unavailable m ++ rest) = DOk (M_Unavailable (norm_Unavailable version m)) rest.
Proof.
  intro H. unfold Unavailable_okb in H. split_okb H. destruct m as [msg c r a]. cbn [un_ErrorMessage un_Consistency un_Required un_Alive] in *.
  unfold bytes_Unavailable, norm_Unavailable. cbn [un_ErrorMessage un_Consistency un_Required un_Alive]. dec_prefix.
  apply rmap_dok. unfold dec_Unavailable. repeat rd. reflexivity.
Qed.
Theorem Unavailable_roundtrip version m : Unavailable_okb version m = true ->
  exists b, enc_Unavailable version m = Ok b /\
  forall rest, dec_error version (b ++ rest) = DOk (M_Unavailable (norm_Unavailable version m)) rest.
Proof. intro H. eapply roundtrip_of; [apply enc_Unavailable_ok; exact H|intro; apply dec_Unavailable_app; exact H]. Qed.
Theorem Unavailable_length version m b : Unavailable_okb version m = true ->
  enc_Unavailable version m = Ok b -> len_Unavailable version m = Ok (zlen b).
Proof.
  intro H. eapply length_of; [apply enc_Unavailable_ok; exact H|].
  unfold len_Unavailable, bytes_Unavailable. rewrite (len_error_prefix_ok _ ErrorCodeUnavailable). cbn [ladd]. len_tac.
Qed.
Theorem norm_Unavailable_ok version m : Unavailable_okb version m = true ->
  Unavailable_okb version (norm_Unavailable version m) = true /\
  norm_Unavailable version (norm_Unavailable version m) = norm_Unavailable version m.
Proof. intro H. split; [exact H|reflexivity]. Qed.
Example Unavailable_nonvacuous :
  Unavailable_okb 4 {| un_ErrorMessage := bytes_of_string "Cannot achieve consistency level QUORUM"; un_Consistency := 4;
                       un_Required := 2; un_Alive := 1 |} = true.
Proof. vm_compute. reflexivity. Qed.

(* ====================== READ TIMEOUT ====================== *)
Definition bytes_ReadTimeout (m : ReadTimeout) : bytes :=
  bytes_error_prefix ErrorCodeReadTimeout (rt_ErrorMessage m) ++
  be_bytes 2 (rt_Consistency m) ++ be_bytes 4 (rt_Received m) ++ be_bytes 4 (rt_BlockFor m) ++
  be_bytes 1 (bool_byte (rt_DataPresent m)).

Lemma enc_ReadTimeout_ok version m : ReadTimeout_okb version m = true -> enc_ReadTimeout version m = Ok (bytes_ReadTimeout m).
Proof.
  intro H. unfold ReadTimeout_okb in H. split_okb H. unfold enc_ReadTimeout, bytes_ReadTimeout.
  rewrite enc_error_prefix_ok by (first [in_codes|side]). wr. reflexivity.
Qed.
Lemma dec_ReadTimeout_app version m rest : ReadTimeout_okb version m = true ->
  dec_error version (bytes_ReadTimeout m ++ rest) = DOk (M_ReadTimeout (norm_ReadTimeout version m)) rest.
Proof.
  intro H. unfold ReadTimeout_okb in H. split_okb H. destruct m as [msg c r bf dp].
  cbn [rt_ErrorMessage rt_Consistency rt_Received rt_BlockFor rt_DataPresent] in *.
  unfold bytes_ReadTimeout, norm_ReadTimeout. cbn [rt_ErrorMessage rt_Consistency rt_Received rt_BlockFor rt_DataPresent]. dec_prefix.
  apply rmap_dok. unfold dec_ReadTimeout. repeat rd. rewrite bool_byte_gtb. reflexivity.
Qed.
Theorem ReadTimeout_roundtrip version m : ReadTimeout_okb version m = true ->
  exists b, enc_ReadTimeout version m = Ok b /\
  forall rest, dec_error version (b ++ rest) = DOk (M_ReadTimeout (norm_ReadTimeout version m)) rest.
Proof. intro H. eapply roundtrip_of; [apply enc_ReadTimeout_ok; exact H|intro; apply dec_ReadTimeout_app; exact H]. Qed.
Theorem ReadTimeout_length version m b : ReadTimeout_okb version m = true ->
  enc_ReadTimeout version m = Ok b -> len_ReadTimeout version m = Ok (zlen b).
Proof.
  intro H. eapply length_of; [apply enc_ReadTimeout_ok; exact H|].
  unfold len_ReadTimeout, bytes_ReadTimeout. rewrite (len_error_prefix_ok _ ErrorCodeReadTimeout). cbn [ladd]. len_tac.
Qed.
Theorem norm_ReadTimeout_ok version m : ReadTimeout_okb version m = true ->
  ReadTimeout_okb version (norm_ReadTimeout version m) = true /\
  norm_ReadTimeout version (norm_ReadTimeout version m) = norm_ReadTimeout version m.
Proof. intro H. split; [exact H|reflexivity]. Qed.
Example ReadTimeout_nonvacuous :
  ReadTimeout_okb 3 {| rt_ErrorMessage := bytes_of_string "Operation timed out"; rt_Consistency := 6;
                       rt_Received := 1; rt_BlockFor := 2; rt_DataPresent := true |} = true.
Proof. vm_compute. reflexivity. Qed.

(* ====================== WRITE TIMEOUT ====================== *)
Definition bytes_WriteTimeout (version : Z) (m : WriteTimeout) : bytes :=
  bytes_error_prefix ErrorCodeWriteTimeout (wt_ErrorMessage m) ++
  be_bytes 2 (wt_Consistency m) ++ be_bytes 4 (wt_Received m) ++ be_bytes 4 (wt_BlockFor m) ++
  enc_string (wt_WriteType m) ++
  (if wt_has_contentions version (wt_WriteType m) then be_bytes 2 (wt_Contentions m) else []).

Lemma enc_WriteTimeout_ok version m : WriteTimeout_okb version m = true -> enc_WriteTimeout version m = Ok (bytes_WriteTimeout version m).
Proof.
  intro H. unfold WriteTimeout_okb in H. split_okb H. unfold enc_WriteTimeout, bytes_WriteTimeout.
  rewrite enc_error_prefix_ok by (first [in_codes|side]).
  destruct (wt_has_contentions version (wt_WriteType m)); wr; reflexivity.
Qed.
Lemma dec_WriteTimeout_app version m rest : WriteTimeout_okb version m = true ->
  dec_error version (bytes_WriteTimeout version m ++ rest) = DOk (M_WriteTimeout (norm_WriteTimeout version m)) rest.
Proof.
  intro H. unfold WriteTimeout_okb in H. split_okb H. destruct m as [msg c r bf wt ct].
  cbn [wt_ErrorMessage wt_Consistency wt_Received wt_BlockFor wt_WriteType wt_Contentions] in *.
  unfold bytes_WriteTimeout, norm_WriteTimeout. cbn [wt_ErrorMessage wt_Consistency wt_Received wt_BlockFor wt_WriteType wt_Contentions]. dec_prefix.
  apply rmap_dok. unfold dec_WriteTimeout. repeat rd.
  unfold wt_has_contentions in *. rewrite (andb_comm (str_is wt WriteTypeCas)).
  destruct (ProtocolVersion_SupportsWriteTimeoutContentions version && str_is wt WriteTypeCas).
  - rd. reflexivity.
  - unfold bind at 1, ret at 1. assert (ct = 0) by lia. subst ct. reflexivity.
Qed.
Theorem WriteTimeout_roundtrip version m : WriteTimeout_okb version m = true ->
  exists b, enc_WriteTimeout version m = Ok b /\
  forall rest, dec_error version (b ++ rest) = DOk (M_WriteTimeout (norm_WriteTimeout version m)) rest.
Proof. intro H. eapply roundtrip_of; [apply enc_WriteTimeout_ok; exact H|intro; apply dec_WriteTimeout_app; exact H]. Qed.
Theorem WriteTimeout_length version m b : WriteTimeout_okb version m = true ->
  enc_WriteTimeout version m = Ok b -> len_WriteTimeout version m = Ok (zlen b).
Proof.
  intro H. eapply length_of; [apply enc_WriteTimeout_ok; exact H|].
  unfold len_WriteTimeout, bytes_WriteTimeout. rewrite (len_error_prefix_ok _ ErrorCodeWriteTimeout).
  destruct (wt_has_contentions version (wt_WriteType m)); cbn [ladd]; len_tac.
Qed.
Theorem norm_WriteTimeout_ok version m : WriteTimeout_okb version m = true ->
  WriteTimeout_okb version (norm_WriteTimeout version m) = true /\
  norm_WriteTimeout version (norm_WriteTimeout version m) = norm_WriteTimeout version m.
Proof. intro H. split; [exact H|reflexivity]. Qed.
(* contentions are carried in v5 for CAS, and must be zero in DSE v2 *)
Example WriteTimeout_nonvacuous :
  WriteTimeout_okb 5 {| wt_ErrorMessage := bytes_of_string "CAS operation timed out"; wt_Consistency := 8;
                        wt_Received := 1; wt_BlockFor := 2; wt_WriteType := bytes_of_string WriteTypeCas; wt_Contentions := 3 |} = true /\
  WriteTimeout_okb 66 {| wt_ErrorMessage := bytes_of_string "CAS operation timed out"; wt_Consistency := 8;
                         wt_Received := 1; wt_BlockFor := 2; wt_WriteType := bytes_of_string WriteTypeCas; wt_Contentions := 3 |} = false.
Proof. vm_compute. split; reflexivity. Qed.

(* ====================== ALREADY EXISTS ====================== *)
Definition bytes_AlreadyExists (m : AlreadyExists) : bytes :=
  bytes_error_prefix ErrorCodeAlreadyExists (ae_ErrorMessage m) ++ enc_string (ae_Keyspace m) ++ enc_string (ae_Table m).

Lemma enc_AlreadyExists_ok version m : AlreadyExists_okb version m = true -> enc_AlreadyExists version m = Ok (bytes_AlreadyExists m).
Proof.
  intro H. unfold AlreadyExists_okb in H. split_okb H. unfold enc_AlreadyExists, bytes_AlreadyExists.
  rewrite enc_error_prefix_ok by (first [in_codes|side]). wr. reflexivity.
Qed.
Lemma dec_AlreadyExists_app version m rest : AlreadyExists_okb version m = true ->
  dec_error version (bytes_AlreadyExists m ++ rest) = DOk (M_AlreadyExists (norm_AlreadyExists version m)) rest.
Proof.
  intro H. unfold AlreadyExists_okb in H. split_okb H. destruct m as [msg ks t]. cbn [ae_ErrorMessage ae_Keyspace ae_Table] in *.
  unfold bytes_AlreadyExists, norm_AlreadyExists. cbn [ae_ErrorMessage ae_Keyspace ae_Table]. dec_prefix.
  apply rmap_dok. unfold dec_AlreadyExists. repeat rd. reflexivity.
Qed.
Theorem AlreadyExists_roundtrip version m : AlreadyExists_okb version m = true ->
  exists b, enc_AlreadyExists version m = Ok b /\
  forall rest, dec_error version (b ++ rest) = DOk (M_AlreadyExists (norm_AlreadyExists version m)) rest.
Proof. intro H. eapply roundtrip_of; [apply enc_AlreadyExists_ok; exact H|intro; apply dec_AlreadyExists_app; exact H]. Qed.
Theorem AlreadyExists_length version m b : AlreadyExists_okb version m = true ->
  enc_AlreadyExists version m = Ok b -> len_AlreadyExists version m = Ok (zlen b).
Proof.
  intro H. eapply length_of; [apply enc_AlreadyExists_ok; exact H|].
  unfold len_AlreadyExists, bytes_AlreadyExists. rewrite (len_error_prefix_ok _ ErrorCodeAlreadyExists). cbn [ladd]. len_tac.
Qed.
Theorem norm_AlreadyExists_ok version m : AlreadyExists_okb version m = true ->
  AlreadyExists_okb version (norm_AlreadyExists version m) = true /\
  norm_AlreadyExists version (norm_AlreadyExists version m) = norm_AlreadyExists version m.
Proof. intro H. split; [exact H|reflexivity]. Qed.
Example AlreadyExists_nonvacuous :
  AlreadyExists_okb 4 {| ae_ErrorMessage := bytes_of_string "Table ks.t already exists"; ae_Keyspace := bytes_of_string "ks";
                         ae_Table := bytes_of_string "t" |} = true.
Proof. vm_compute. reflexivity. Qed.

(* ====================== UNPREPARED ====================== *)
Definition bytes_Unprepared (m : Unprepared) : bytes :=
  bytes_error_prefix ErrorCodeUnprepared (up_ErrorMessage m) ++ enc_short_bytes (up_Id m).

Lemma enc_Unprepared_ok version m : Unprepared_okb version m = true -> enc_Unprepared version m = Ok (bytes_Unprepared m).
Proof.
  intro H. unfold Unprepared_okb in H. split_okb H. unfold enc_Unprepared, bytes_Unprepared.
  rewrite enc_error_prefix_ok by (first [in_codes|side]). wr. reflexivity.
Qed.
Lemma dec_Unprepared_app version m rest : Unprepared_okb version m = true ->
  dec_error version (bytes_Unprepared m ++ rest) = DOk (M_Unprepared (norm_Unprepared version m)) rest.
Proof.
  intro H. unfold Unprepared_okb in H. split_okb H. destruct m as [msg id]. cbn [up_ErrorMessage up_Id] in *.
  unfold bytes_Unprepared, norm_Unprepared. cbn [up_ErrorMessage up_Id]. dec_prefix.
  apply rmap_dok. unfold dec_Unprepared. repeat rd. reflexivity.
Qed.
Theorem Unprepared_roundtrip version m : Unprepared_okb version m = true ->
  exists b, enc_Unprepared version m = Ok b /\
  forall rest, dec_error version (b ++ rest) = DOk (M_Unprepared (norm_Unprepared version m)) rest.
Proof. intro H. eapply roundtrip_of; [apply enc_Unprepared_ok; exact H|intro; apply dec_Unprepared_app; exact H]. Qed.
Theorem Unprepared_length version m b : Unprepared_okb version m = true ->
  enc_Unprepared version m = Ok b -> len_Unprepared version m = Ok (zlen b).
Proof.
  intro H. eapply length_of; [apply enc_Unprepared_ok; exact H|].
  unfold len_Unprepared, bytes_Unprepared. rewrite (len_error_prefix_ok _ ErrorCodeUnprepared). cbn [ladd]. len_tac.
Qed.
Theorem norm_Unprepared_ok version m : Unprepared_okb version m = true ->
  Unprepared_okb version (norm_Unprepared version m) = true /\
  norm_Unprepared version (norm_Unprepared version m) = norm_Unprepared version m.
Proof. intro H. split; [exact H|reflexivity]. Qed.
(* a nil id is valid and decodes as the empty id *)
Example Unprepared_nonvacuous :
  Unprepared_okb 4 {| up_ErrorMessage := bytes_of_string "Prepared query not found"; up_Id := Some [202; 254; 186; 190] |} = true /\
  Unprepared_okb 4 {| up_ErrorMessage := []; up_Id := None |} = true.
Proof. vm_compute. split; reflexivity. Qed.

(* ====================== FUNCTION FAILURE ====================== *)
Definition bytes_FunctionFailure (m : FunctionFailure) : bytes :=
  bytes_error_prefix ErrorCodeFunctionFailure (ff_ErrorMessage m) ++
  enc_string (ff_Keyspace m) ++ enc_string (ff_Function m) ++ enc_string_list (ff_Arguments m).

Lemma enc_FunctionFailure_ok version m : FunctionFailure_okb version m = true -> enc_FunctionFailure version m = Ok (bytes_FunctionFailure m).
Proof.
  intro H. unfold FunctionFailure_okb in H. split_okb H. apply strs16_ok in Hok. destruct Hok.
  unfold enc_FunctionFailure, bytes_FunctionFailure.
  rewrite enc_error_prefix_ok by (first [in_codes|side]). wr. reflexivity.
Qed.
Lemma dec_FunctionFailure_app version m rest : FunctionFailure_okb version m = true ->
  dec_error version (bytes_FunctionFailure m ++ rest) = DOk (M_FunctionFailure (norm_FunctionFailure version m)) rest.
Proof.
  intro H. unfold FunctionFailure_okb in H. split_okb H. apply strs16_ok in Hok. destruct Hok.
  destruct m as [msg ks fn args]. cbn [ff_ErrorMessage ff_Keyspace ff_Function ff_Arguments] in *.
  unfold bytes_FunctionFailure, norm_FunctionFailure. cbn [ff_ErrorMessage ff_Keyspace ff_Function ff_Arguments]. dec_prefix.
  apply rmap_dok. unfold dec_FunctionFailure. repeat rd. reflexivity.
Qed.
Theorem FunctionFailure_roundtrip version m : FunctionFailure_okb version m = true ->
  exists b, enc_FunctionFailure version m = Ok b /\
  forall rest, dec_error version (b ++ rest) = DOk (M_FunctionFailure (norm_FunctionFailure version m)) rest.
Proof. intro H. eapply roundtrip_of; [apply enc_FunctionFailure_ok; exact H|intro; apply dec_FunctionFailure_app; exact H]. Qed.
Theorem FunctionFailure_length version m b : FunctionFailure_okb version m = true ->
  enc_FunctionFailure version m = Ok b -> len_FunctionFailure version m = Ok (zlen b).
Proof.
  intro H. eapply length_of; [apply enc_FunctionFailure_ok; exact H|].
  unfold len_FunctionFailure, bytes_FunctionFailure. rewrite (len_error_prefix_ok _ ErrorCodeFunctionFailure). cbn [ladd]. len_tac.
Qed.
Theorem norm_FunctionFailure_ok version m : FunctionFailure_okb version m = true ->
  FunctionFailure_okb version (norm_FunctionFailure version m) = true /\
  norm_FunctionFailure version (norm_FunctionFailure version m) = norm_FunctionFailure version m.
Proof. intro H. split; [exact H|reflexivity]. Qed.
Example FunctionFailure_nonvacuous :
  FunctionFailure_okb 4 {| ff_ErrorMessage := bytes_of_string "execution of ks.f failed"; ff_Keyspace := bytes_of_string "ks";
                           ff_Function := bytes_of_string "f"; ff_Arguments := [bytes_of_string "int"; bytes_of_string "text"] |} = true.
Proof. vm_compute. reflexivity. Qed.

(* ====================== <reasonmap> (model/Prim.v write_reason_map / read_reason_map / len_reason_map) ====================== *)
Definition enc_reason (r : option FailureReason) : bytes :=
  match r with Some r => enc_inet_addr (fr_endpoint r) ++ be_bytes 2 (fr_code r) | None => [] end.
Definition enc_reason_map (m : list (option FailureReason)) : bytes := be_bytes 4 (zlen m) ++ concat (map enc_reason m).

Lemma failure_code_range c : FailureCode_IsValid c = true -> in_u16 c.
Proof.
  intro H. unfold FailureCode_IsValid in H.
  repeat match type of H with
         | (if ?x =? ?k then _ else _) = true =>
             let E := fresh "E" in
             destruct (Z.eqb_spec x k) as [E|_]; [rewrite E; unfold in_u16; vm_compute; split; [discriminate|reflexivity]|]
         end.
  discriminate.
Qed.

Lemma reasons_okb_inv m : reasons_okb m = true ->
  zlen m <= 2147483647 /\
  forall x, In x m -> exists r, x = Some r /\ ip_ok (fr_endpoint r) /\ FailureCode_IsValid (fr_code r) = true.
Proof.
  unfold reasons_okb. intro H. apply andb_prop in H. destruct H as [Hl Hall]. split; [lia|].
  intros x Hx. rewrite forallb_forall in Hall. specialize (Hall x Hx). destruct x as [r|]; [|discriminate].
  cbn [reason_okb] in Hall. apply andb_prop in Hall. destruct Hall as [Hip Hc]. exists r. repeat split; [apply ip_okb_ok; exact Hip|exact Hc].
Qed.

Lemma reason_map_write_ok m : reasons_okb m = true -> write_reason_map m = Ok (enc_reason_map m).
Proof.
  intro H. destruct (reasons_okb_inv m H) as [Hl Hall].
  unfold write_reason_map, enc_reason_map, write_int. pose proof (zlen_nonneg m). rewrite wrap_i32_small by lia.
  rewrite (wlist_ok _ enc_reason); [reflexivity|].
  intros x Hx. destruct (Hall x Hx) as (r & -> & Hip & Hc). cbn [enc_reason].
  rewrite write_inet_addr_ok by exact Hip. rewrite Hc. unfold write_short. cbn [wguard wapp app]. reflexivity.
Qed.

Lemma reason_map_read_app m rest : reasons_okb m = true ->
  read_reason_map (enc_reason_map m ++ rest) = DOk (map norm_reason m) rest.
Proof.
  intro H. destruct (reasons_okb_inv m H) as [Hl Hall]. pose proof (zlen_nonneg m).
  unfold read_reason_map, enc_reason_map. rewrite <- app_assoc.
  unfold bind at 1. rewrite read_int_app by (unfold in_i32; lia).
  destruct (Z.ltb_spec (zlen m) 0); [lia|]. unfold bind at 1, rmake. destruct (Z.ltb_spec (zlen m) 0); [lia|]. unfold ret at 1.
  apply (read_count_app enc_reason _ norm_reason).
  - intros x rest' Hx. destruct (Hall x Hx) as (r & -> & Hip & Hc). cbn [enc_reason norm_reason]. rewrite <- app_assoc.
    unfold bind at 1. rewrite read_inet_addr_app by exact Hip.
    unfold bind at 1. rewrite read_short_app by (apply failure_code_range; exact Hc).
    rewrite Hc. cbn [rguard]. unfold bind at 1, ret at 1. reflexivity.
  - intros x Hx. destruct (Hall x Hx) as (r & -> & _ & _). cbn [enc_reason]. rewrite app_length, be_bytes_length. lia.
Qed.

Lemma len_inet_addr_ok ip : ip_ok ip -> len_inet_addr ip = Ok (zlen (enc_inet_addr ip)).
Proof.
  intro H. destruct (len_inet_addr ip) as [l|] eqn:E.
  - rewrite (enc_inet_addr_len ip l H E). reflexivity.
  - destruct ip as [b|]; [|destruct H]. cbn [len_inet_addr] in E. destruct (ip_to4 b); discriminate.
Qed.

Lemma llist_ok {A} (f : A -> L) (enc : A -> bytes) l :
  (forall x, In x l -> f x = Ok (zlen (enc x))) -> llist f l = Ok (zlen (concat (map enc l))).
Proof.
  induction l as [|x l IH]; intro H; cbn [llist map concat]; [reflexivity|].
  rewrite H by (left; reflexivity). rewrite IH by (intros; apply H; right; assumption). cbn [ladd]. rewrite zlen_app. reflexivity.
Qed.

Lemma reason_map_len m : reasons_okb m = true -> len_reason_map m = Ok (zlen (enc_reason_map m)).
Proof.
  intro H. destruct (reasons_okb_inv m H) as [Hl Hall].
  unfold len_reason_map, enc_reason_map. rewrite (llist_ok _ enc_reason).
  - cbn [ladd]. rewrite zlen_app, be_bytes_zlen. reflexivity.
  - intros x Hx. destruct (Hall x Hx) as (r & -> & Hip & _). cbn [enc_reason]. rewrite len_inet_addr_ok by exact Hip.
    cbn [ladd]. rewrite zlen_app, be_bytes_zlen. reflexivity.
Qed.

(* normal form of the entries: closure *)
Lemma ip_okb_norm ip : ip_okb ip = true -> ip_okb (norm_ip16 ip) = true /\ norm_ip16 (norm_ip16 ip) = norm_ip16 ip.
Proof.
  intro H. pose proof (norm_ip_idem ip (ip_okb_ok ip H)) as [H1 H2]. split; [|exact H2].
  change (norm_ip16 ip) with (norm_ip ip). destruct (norm_ip ip) as [c|]; [|destruct H1]. cbn [ip_ok] in H1. cbn [ip_okb]. lia.
Qed.
Lemma reasons_okb_norm m : reasons_okb m = true ->
  reasons_okb (map norm_reason m) = true /\ map norm_reason (map norm_reason m) = map norm_reason m.
Proof.
  unfold reasons_okb. intro H. apply andb_prop in H. destruct H as [Hl Hall]. rewrite forallb_forall in Hall. split.
  - apply andb_true_intro. split; [unfold zlen in *; rewrite map_length; exact Hl|].
    apply forallb_forall. intros y Hy. apply in_map_iff in Hy. destruct Hy as (x & <- & Hx). specialize (Hall x Hx).
    destruct x as [r|]; [|discriminate]. cbn [reason_okb norm_reason fr_endpoint fr_code] in *.
    apply andb_prop in Hall. destruct Hall as [Hip Hc]. destruct (ip_okb_norm _ Hip) as [H1 _]. rewrite H1, Hc. reflexivity.
  - rewrite map_map. apply map_ext_in. intros x Hx. specialize (Hall x Hx). destruct x as [r|]; [|discriminate].
    cbn [reason_okb norm_reason fr_endpoint fr_code] in *. apply andb_prop in Hall. destruct Hall as [Hip Hc].
    destruct (ip_okb_norm _ Hip) as [_ H2]. rewrite H2. reflexivity.
Qed.

(* the part of READ_FAILURE / WRITE_FAILURE that depends on the version *)
Definition bytes_failures (version : Z) (numFailures : Z) (reasons : list (option FailureReason)) : bytes :=
  if ProtocolVersion_SupportsReadWriteFailureReasonMap version then enc_reason_map reasons else be_bytes 4 numFailures.

(* ====================== READ FAILURE ====================== *)
Definition bytes_ReadFailure (version : Z) (m : ReadFailure) : bytes :=
  bytes_error_prefix ErrorCodeReadFailure (rf_ErrorMessage m) ++
  be_bytes 2 (rf_Consistency m) ++ be_bytes 4 (rf_Received m) ++ be_bytes 4 (rf_BlockFor m) ++
  bytes_failures version (rf_NumFailures m) (rf_FailureReasons m) ++
  be_bytes 1 (bool_byte (rf_DataPresent m)).

Lemma enc_ReadFailure_ok version m : ReadFailure_okb version m = true -> enc_ReadFailure version m = Ok (bytes_ReadFailure version m).
Proof.
  intro H. unfold ReadFailure_okb, failures_okb in H. split_okb H. unfold enc_ReadFailure, bytes_ReadFailure, bytes_failures.
  rewrite enc_error_prefix_ok by (first [in_codes|side]).
  destruct (ProtocolVersion_SupportsReadWriteFailureReasonMap version).
  - split_okb Hok. rewrite reason_map_write_ok by assumption. wr. reflexivity.
  - wr. reflexivity.
Qed.
Lemma dec_ReadFailure_app version m rest : ReadFailure_okb version m = true ->
  dec_error version (bytes_ReadFailure version m ++ rest) = DOk (M_ReadFailure (norm_ReadFailure version m)) rest.
Proof.
  intro H. unfold ReadFailure_okb, failures_okb in H. split_okb H. destruct m as [msg c r bf nf fr dp].
  cbn [rf_ErrorMessage rf_Consistency rf_Received rf_BlockFor rf_NumFailures rf_FailureReasons rf_DataPresent] in *.
  unfold bytes_ReadFailure, norm_ReadFailure, bytes_failures.
  cbn [rf_ErrorMessage rf_Consistency rf_Received rf_BlockFor rf_NumFailures rf_FailureReasons rf_DataPresent]. dec_prefix.
  apply rmap_dok. unfold dec_ReadFailure. rd. rd. rd.
  destruct (ProtocolVersion_SupportsReadWriteFailureReasonMap version).
  - split_okb Hok. rewrite <- ?app_assoc. unfold bind at 1. unfold bind at 1. rewrite reason_map_read_app by assumption.
    unfold ret at 1. rd. cbn [fst snd]. rewrite bool_byte_gtb. assert (nf = 0) by lia. subst nf. reflexivity.
  - split_okb Hok. rewrite <- ?app_assoc. unfold bind at 1. unfold bind at 1. rewrite read_int_app by side.
    unfold ret at 1. rd. cbn [fst snd]. rewrite bool_byte_gtb. apply is_nil_ok in Hok3. subst fr. reflexivity.
Qed.
Theorem ReadFailure_roundtrip version m : ReadFailure_okb version m = true ->
  exists b, enc_ReadFailure version m = Ok b /\
  forall rest, dec_error version (b ++ rest) = DOk (M_ReadFailure (norm_ReadFailure version m)) rest.
Proof. intro H. eapply roundtrip_of; [apply enc_ReadFailure_ok; exact H|intro; apply dec_ReadFailure_app; exact H]. Qed.
Theorem ReadFailure_length version m b : ReadFailure_okb version m = true ->
  enc_ReadFailure version m = Ok b -> len_ReadFailure version m = Ok (zlen b).
Proof.
  intro H. eapply length_of; [apply enc_ReadFailure_ok; exact H|].
  unfold ReadFailure_okb, failures_okb in H. split_okb H.
  unfold len_ReadFailure, bytes_ReadFailure, bytes_failures. rewrite (len_error_prefix_ok _ ErrorCodeReadFailure).
  destruct (ProtocolVersion_SupportsReadWriteFailureReasonMap version).
  - split_okb Hok. rewrite reason_map_len by assumption. cbn [ladd]. len_tac.
  - cbn [ladd]. len_tac.
Qed.
Theorem norm_ReadFailure_ok version m : ReadFailure_okb version m = true ->
  ReadFailure_okb version (norm_ReadFailure version m) = true /\
  norm_ReadFailure version (norm_ReadFailure version m) = norm_ReadFailure version m.
Proof.
  intro H. unfold ReadFailure_okb, failures_okb in *. split_okb H. destruct m as [msg c r bf nf fr dp].
  unfold norm_ReadFailure.
  cbn [rf_ErrorMessage rf_Consistency rf_Received rf_BlockFor rf_NumFailures rf_FailureReasons rf_DataPresent] in *.
  rewrite H, Hok2, Hok1, Hok0. cbn [andb].
  destruct (ProtocolVersion_SupportsReadWriteFailureReasonMap version).
  - split_okb Hok. destruct (reasons_okb_norm fr Hok3) as [H1 H2]. rewrite Hok, H1, H2. split; reflexivity.
  - split_okb Hok. apply is_nil_ok in Hok3. subst fr. cbn [map is_nil]. rewrite Hok. split; reflexivity.
Qed.
(* v5 with a reason map (IPv4 endpoint in 4-byte form, IPv6 endpoint), v4 with the failure count *)
Example ReadFailure_nonvacuous :
  ReadFailure_okb 5 {| rf_ErrorMessage := bytes_of_string "Operation failed"; rf_Consistency := 1; rf_Received := 0; rf_BlockFor := 1;
                       rf_NumFailures := 0;
                       rf_FailureReasons := [Some {| fr_endpoint := Some [127;0;0;1]; fr_code := FailureCodeTooManyTombstonesRead |};
                                             Some {| fr_endpoint := Some [0;0;0;0;0;0;0;0;0;0;0;0;0;0;0;1]; fr_code := FailureCodeUnknown |}];
                       rf_DataPresent := false |} = true /\
  ReadFailure_okb 4 {| rf_ErrorMessage := bytes_of_string "Operation failed"; rf_Consistency := 1; rf_Received := 0; rf_BlockFor := 1;
                       rf_NumFailures := 1; rf_FailureReasons := []; rf_DataPresent := true |} = true.
Proof. vm_compute. split; reflexivity. Qed.

(* ====================== WRITE FAILURE ====================== *)
Definition bytes_WriteFailure (version : Z) (m : WriteFailure) : bytes :=
  bytes_error_prefix ErrorCodeWriteFailure (wf_ErrorMessage m) ++
  be_bytes 2 (wf_Consistency m) ++ be_bytes 4 (wf_Received m) ++ be_bytes 4 (wf_BlockFor m) ++
  bytes_failures version (wf_NumFailures m) (wf_FailureReasons m) ++
  enc_string (wf_WriteType m).

Lemma check_write_type_ok t : WriteType_IsValid t = true -> is_ok (CheckValidWriteType t) = true.
Proof. intro H. unfold CheckValidWriteType. rewrite H. reflexivity. Qed.

Lemma enc_WriteFailure_ok version m : WriteFailure_okb version m = true -> enc_WriteFailure version m = Ok (bytes_WriteFailure version m).
Proof.
  intro H. unfold WriteFailure_okb, failures_okb in H. split_okb H. unfold enc_WriteFailure, bytes_WriteFailure, bytes_failures.
  rewrite enc_error_prefix_ok by (first [in_codes|side]).
  destruct (ProtocolVersion_SupportsReadWriteFailureReasonMap version).
  - split_okb Hok1. rewrite reason_map_write_ok by assumption. wr. reflexivity.
  - wr. reflexivity.
Qed.
Lemma dec_WriteFailure_app version m rest : WriteFailure_okb version m = true ->
  dec_error version (bytes_WriteFailure version m ++ rest) = DOk (M_WriteFailure (norm_WriteFailure version m)) rest.
Proof.
  intro H. unfold WriteFailure_okb, failures_okb in H. split_okb H. destruct m as [msg c r bf nf fr wt].
  cbn [wf_ErrorMessage wf_Consistency wf_Received wf_BlockFor wf_NumFailures wf_FailureReasons wf_WriteType] in *.
  unfold bytes_WriteFailure, norm_WriteFailure, bytes_failures.
  cbn [wf_ErrorMessage wf_Consistency wf_Received wf_BlockFor wf_NumFailures wf_FailureReasons wf_WriteType]. dec_prefix.
  apply rmap_dok. unfold dec_WriteFailure. rd. rd. rd.
  destruct (ProtocolVersion_SupportsReadWriteFailureReasonMap version).
  - split_okb Hok1. rewrite <- ?app_assoc. unfold bind at 1. unfold bind at 1. rewrite reason_map_read_app by assumption.
    unfold ret at 1. rd. rewrite check_write_type_ok by assumption. cbn [rguard]. unfold bind at 1, ret at 1.
    cbn [fst snd]. assert (nf = 0) by lia. subst nf. reflexivity.
  - split_okb Hok1. rewrite <- ?app_assoc. unfold bind at 1. unfold bind at 1. rewrite read_int_app by side.
    unfold ret at 1. rd. rewrite check_write_type_ok by assumption. cbn [rguard]. unfold bind at 1, ret at 1.
    cbn [fst snd]. match goal with Hn : is_nil fr = true |- _ => apply is_nil_ok in Hn; subst fr end. reflexivity.
Qed.
Theorem WriteFailure_roundtrip version m : WriteFailure_okb version m = true ->
  exists b, enc_WriteFailure version m = Ok b /\
  forall rest, dec_error version (b ++ rest) = DOk (M_WriteFailure (norm_WriteFailure version m)) rest.
Proof. intro H. eapply roundtrip_of; [apply enc_WriteFailure_ok; exact H|intro; apply dec_WriteFailure_app; exact H]. Qed.
Theorem WriteFailure_length version m b : WriteFailure_okb version m = true ->
  enc_WriteFailure version m = Ok b -> len_WriteFailure version m = Ok (zlen b).
Proof.
  intro H. eapply length_of; [apply enc_WriteFailure_ok; exact H|].
  unfold WriteFailure_okb, failures_okb in H. split_okb H.
  unfold len_WriteFailure, bytes_WriteFailure, bytes_failures. rewrite (len_error_prefix_ok _ ErrorCodeWriteFailure).
  destruct (ProtocolVersion_SupportsReadWriteFailureReasonMap version).
  - split_okb Hok1. rewrite reason_map_len by assumption. cbn [ladd]. len_tac.
  - cbn [ladd]. len_tac.
Qed.
Theorem norm_WriteFailure_ok version m : WriteFailure_okb version m = true ->
  WriteFailure_okb version (norm_WriteFailure version m) = true /\
  norm_WriteFailure version (norm_WriteFailure version m) = norm_WriteFailure version m.
Proof.
  intro H. unfold WriteFailure_okb, failures_okb in *. split_okb H. destruct m as [msg c r bf nf fr wt].
  unfold norm_WriteFailure.
  cbn [wf_ErrorMessage wf_Consistency wf_Received wf_BlockFor wf_NumFailures wf_FailureReasons wf_WriteType] in *.
  rewrite H, Hok4, Hok3, Hok2, Hok0, Hok. cbn [andb]. rewrite !andb_true_r.
  destruct (ProtocolVersion_SupportsReadWriteFailureReasonMap version).
  - split_okb Hok1. match goal with Hr : reasons_okb fr = true |- _ => destruct (reasons_okb_norm fr Hr) as [H1 H2] end.
    rewrite Hok1, H1, H2. split; reflexivity.
  - split_okb Hok1. match goal with Hn : is_nil fr = true |- _ => apply is_nil_ok in Hn; subst fr end.
    cbn [map is_nil]. rewrite Hok1. split; reflexivity.
Qed.
(* every write type incl. CAS is accepted (v4: count; DSE v2: reason map) *)
Example WriteFailure_nonvacuous :
  WriteFailure_okb 4 {| wf_ErrorMessage := bytes_of_string "Operation failed"; wf_Consistency := 1; wf_Received := 0; wf_BlockFor := 1;
                        wf_NumFailures := 1; wf_FailureReasons := []; wf_WriteType := bytes_of_string WriteTypeCas |} = true /\
  WriteFailure_okb 66 {| wf_ErrorMessage := bytes_of_string "Operation failed"; wf_Consistency := 1; wf_Received := 0; wf_BlockFor := 1;
                         wf_NumFailures := 0;
                         wf_FailureReasons := [Some {| fr_endpoint := Some [10;0;0;1]; fr_code := FailureCodeCounterWrite |}];
                         wf_WriteType := bytes_of_string WriteTypeCounter |} = true.
Proof. vm_compute. split; reflexivity. Qed.

(* ====================== totality of errorCodec.Decode: no panic, no fuel, on ALL inputs ====================== *)
Lemma total_dec_Unavailable version msg : total (dec_Unavailable version msg).
Proof. unfold dec_Unavailable. total_tac. Qed.
Lemma total_dec_ReadTimeout version msg : total (dec_ReadTimeout version msg).
Proof. unfold dec_ReadTimeout. total_tac. Qed.
Lemma total_dec_WriteTimeout version msg : total (dec_WriteTimeout version msg).
Proof. unfold dec_WriteTimeout. total_tac. Qed.
Lemma total_dec_ReadFailure version msg : total (dec_ReadFailure version msg).
Proof. unfold dec_ReadFailure. total_tac. Qed.
Lemma total_dec_WriteFailure version msg : total (dec_WriteFailure version msg).
Proof. unfold dec_WriteFailure. total_tac. Qed.
Lemma total_dec_FunctionFailure version msg : total (dec_FunctionFailure version msg).
Proof. unfold dec_FunctionFailure. total_tac. Qed.
Lemma total_dec_AlreadyExists version msg : total (dec_AlreadyExists version msg).
Proof. unfold dec_AlreadyExists. total_tac. Qed.
Lemma total_dec_Unprepared version msg : total (dec_Unprepared version msg).
Proof. unfold dec_Unprepared. total_tac. Qed.
#[export] Hint Resolve total_dec_Unavailable total_dec_ReadTimeout total_dec_WriteTimeout total_dec_ReadFailure
  total_dec_WriteFailure total_dec_FunctionFailure total_dec_AlreadyExists total_dec_Unprepared : total.

Theorem dec_error_total version : total (dec_error version).
Proof. unfold dec_error. total_tac. Qed.

(* the form of the style guide; covers all 18 kinds and every unknown code *)
Theorem error_total version bs : dec_error version bs <> DPanic /\ dec_error version bs <> DFuel.
Proof. apply dec_error_total. Qed.

(* ================================================ EVENT ================================================ *)
Definition bytes_event_prefix (eventType : string) : bytes := enc_string (bytes_of_string eventType).

Definition event_types : list string := [EventTypeSchemaChange; EventTypeStatusChange; EventTypeTopologyChange].

Lemma event_type_fix et : In et event_types ->
  is_ok (CheckValidEventType et) = true /\ zlen (bytes_of_string et) <= 65535.
Proof.
  intro H. cbv [event_types In] in H.
  repeat (destruct H as [<-|H]; [split; [vm_compute; reflexivity|vm_compute; discriminate]|]). destruct H.
Qed.
Ltac in_events := cbv [event_types In]; tauto.

Lemma enc_event_prefix_ok et : In et event_types -> enc_event_prefix et = Ok (bytes_event_prefix et).
Proof.
  intro H. destruct (event_type_fix et H) as [H1 H2]. unfold enc_event_prefix, bytes_event_prefix.
  rewrite H1, write_string_ok by exact H2. reflexivity.
Qed.
Lemma len_event_prefix_ok et : len_event_prefix et = Ok (zlen (bytes_event_prefix et)).
Proof. unfold len_event_prefix, bytes_event_prefix. rewrite enc_string_len. reflexivity. Qed.

Lemma dec_event_prefix version et tail : In et event_types ->
  dec_event version (bytes_event_prefix et ++ tail) =
  (if String.eqb et EventTypeSchemaChange then rmap M_SchemaChangeEvent (dec_SchemaChangeEvent version)
   else if String.eqb et EventTypeStatusChange then rmap M_StatusChangeEvent (dec_StatusChangeEvent version)
   else if String.eqb et EventTypeTopologyChange then rmap M_TopologyChangeEvent (dec_TopologyChangeEvent version)
   else rfail) tail.
Proof.
  intro H. destruct (event_type_fix et H) as [_ H2]. unfold dec_event, bytes_event_prefix.
  unfold bind at 1. rewrite read_string_app by exact H2. unfold str_is. rewrite string_of_bytes_of_string. reflexivity.
Qed.
Ltac dec_ev_prefix := rewrite <- ?app_assoc; rewrite dec_event_prefix by in_events; eval_closed.

(* string-typed codes: a valid code is one of the declared constants, hence short *)
Ltac valid_code_len H :=
  repeat match type of H with
         | (if String.eqb ?s ?k then _ else _) = true =>
             let E := fresh "E" in
             destruct (String.eqb_spec s k) as [E|_]; [rewrite (string_of_bytes_zlen _ _ E); vm_compute; discriminate|]
         end;
  discriminate.
Lemma status_change_type_len b : StatusChangeType_IsValid (string_of_bytes b) = true -> zlen b <= 65535.
Proof. intro H. unfold StatusChangeType_IsValid in H. valid_code_len H. Qed.
Lemma topology_change_type_len b : TopologyChangeType_IsValid (string_of_bytes b) = true -> zlen b <= 65535.
Proof. intro H. unfold TopologyChangeType_IsValid in H. valid_code_len H. Qed.
Lemma schema_change_type_len b : SchemaChangeType_IsValid (string_of_bytes b) = true -> zlen b <= 65535.
Proof. intro H. unfold SchemaChangeType_IsValid in H. valid_code_len H. Qed.
Lemma schema_change_target_len b : SchemaChangeTarget_IsValid (string_of_bytes b) = true -> zlen b <= 65535.
Proof. intro H. unfold SchemaChangeTarget_IsValid in H. valid_code_len H. Qed.

Lemma check_status_ok t : StatusChangeType_IsValid t = true -> is_ok (CheckValidStatusChangeType t) = true.
Proof. intro H. unfold CheckValidStatusChangeType. rewrite H. reflexivity. Qed.
Lemma check_schema_type_ok t : SchemaChangeType_IsValid t = true -> is_ok (CheckValidSchemaChangeType t) = true.
Proof. intro H. unfold CheckValidSchemaChangeType. rewrite H. reflexivity. Qed.
Lemma check_topology_valid t v : is_ok (CheckValidTopologyChangeType t v) = true -> TopologyChangeType_IsValid t = true.
Proof. unfold CheckValidTopologyChangeType. destruct (TopologyChangeType_IsValid t); [reflexivity|cbn; discriminate]. Qed.
Lemma check_target_valid t v : is_ok (CheckValidSchemaChangeTarget t v) = true -> SchemaChangeTarget_IsValid t = true.
Proof. unfold CheckValidSchemaChangeTarget. destruct (SchemaChangeTarget_IsValid t); [reflexivity|cbn; discriminate]. Qed.

Lemma len_inet_ok i : inet_ok i -> len_inet i = Ok (zlen (enc_inet i)).
Proof.
  intro H. destruct i as [i|]; [|destruct H]. destruct H as [H1 H2]. cbn [len_inet enc_inet].
  rewrite len_inet_addr_ok by exact H1. cbn [ladd]. rewrite zlen_app, be_bytes_zlen. reflexivity.
Qed.
Lemma inet_okb_norm i : inet_okb i = true -> inet_okb (norm_oinet i) = true /\ norm_oinet (norm_oinet i) = norm_oinet i.
Proof.
  destruct i as [[a p]|]; [|discriminate]. cbn [inet_okb norm_oinet inet_addr inet_port]. intro H.
  apply andb_prop in H. destruct H as [H1 H2]. destruct (ip_okb_norm a H1) as [H3 H4]. rewrite H3, H2, H4. split; reflexivity.
Qed.

(* ====================== STATUS CHANGE ====================== *)
Definition bytes_StatusChangeEvent (m : StatusChangeEvent) : bytes :=
  bytes_event_prefix EventTypeStatusChange ++ enc_string (ste_ChangeType m) ++ enc_inet (ste_Address m).

Lemma enc_StatusChangeEvent_ok version m : StatusChangeEvent_okb version m = true ->
  enc_StatusChangeEvent version m = Ok (bytes_StatusChangeEvent m).
Proof.
  intro H. unfold StatusChangeEvent_okb in H. split_okb H. pose proof (status_change_type_len _ H) as Hl.
  unfold enc_StatusChangeEvent, bytes_StatusChangeEvent. rewrite enc_event_prefix_ok by in_events.
  rewrite check_status_ok by exact H. rewrite write_string_ok by exact Hl. rewrite write_inet_ok by side.
  cbn [wguard wapp app]. reflexivity.
Qed.
Lemma dec_StatusChangeEvent_app version m rest : StatusChangeEvent_okb version m = true ->
  dec_event version (bytes_StatusChangeEvent m ++ rest) = DOk (M_StatusChangeEvent (norm_StatusChangeEvent version m)) rest.
Proof.
  intro H. unfold StatusChangeEvent_okb in H. split_okb H. pose proof (status_change_type_len _ H) as Hl.
  destruct m as [ct [i|]]; cbn [ste_ChangeType ste_Address] in *; [|discriminate].
  unfold bytes_StatusChangeEvent, norm_StatusChangeEvent. cbn [ste_ChangeType ste_Address]. dec_ev_prefix.
  apply rmap_dok. unfold dec_StatusChangeEvent. repeat rd. reflexivity.
Qed.
Theorem StatusChangeEvent_roundtrip version m : StatusChangeEvent_okb version m = true ->
  exists b, enc_StatusChangeEvent version m = Ok b /\
  forall rest, dec_event version (b ++ rest) = DOk (M_StatusChangeEvent (norm_StatusChangeEvent version m)) rest.
Proof. intro H. eapply roundtrip_of; [apply enc_StatusChangeEvent_ok; exact H|intro; apply dec_StatusChangeEvent_app; exact H]. Qed.
Theorem StatusChangeEvent_length version m b : StatusChangeEvent_okb version m = true ->
  enc_StatusChangeEvent version m = Ok b -> len_StatusChangeEvent version m = Ok (zlen b).
Proof.
  intro H. eapply length_of; [apply enc_StatusChangeEvent_ok; exact H|].
  unfold StatusChangeEvent_okb in H. split_okb H.
  unfold len_StatusChangeEvent, bytes_StatusChangeEvent. rewrite len_event_prefix_ok. rewrite len_inet_ok by side.
  cbn [ladd]. len_tac.
Qed.
Theorem norm_StatusChangeEvent_ok version m : StatusChangeEvent_okb version m = true ->
  StatusChangeEvent_okb version (norm_StatusChangeEvent version m) = true /\
  norm_StatusChangeEvent version (norm_StatusChangeEvent version m) = norm_StatusChangeEvent version m.
Proof.
  intro H. unfold StatusChangeEvent_okb in *. split_okb H. destruct m as [ct a]. unfold norm_StatusChangeEvent.
  cbn [ste_ChangeType ste_Address] in *. destruct (inet_okb_norm a Hok) as [H1 H2]. rewrite H, H1, H2. split; reflexivity.
Qed.
Example StatusChangeEvent_nonvacuous :
  StatusChangeEvent_okb 3 {| ste_ChangeType := bytes_of_string StatusChangeTypeDown;
                             ste_Address := Some {| inet_addr := Some [192;168;1;7]; inet_port := 9042 |} |} = true.
Proof. vm_compute. reflexivity. Qed.

(* ====================== TOPOLOGY CHANGE ====================== *)
Definition bytes_TopologyChangeEvent (m : TopologyChangeEvent) : bytes :=
  bytes_event_prefix EventTypeTopologyChange ++ enc_string (tce_ChangeType m) ++ enc_inet (tce_Address m).

Lemma enc_TopologyChangeEvent_ok version m : TopologyChangeEvent_okb version m = true ->
  enc_TopologyChangeEvent version m = Ok (bytes_TopologyChangeEvent m).
Proof.
  intro H. unfold TopologyChangeEvent_okb in H. split_okb H.
  pose proof (topology_change_type_len _ (check_topology_valid _ _ H)) as Hl.
  unfold enc_TopologyChangeEvent, bytes_TopologyChangeEvent. rewrite enc_event_prefix_ok by in_events.
  rewrite H. rewrite write_string_ok by exact Hl. rewrite write_inet_ok by side.
  cbn [wguard wapp app]. reflexivity.
Qed.
Lemma dec_TopologyChangeEvent_app version m rest : TopologyChangeEvent_okb version m = true ->
  dec_event version (bytes_TopologyChangeEvent m ++ rest) = DOk (M_TopologyChangeEvent (norm_TopologyChangeEvent version m)) rest.
Proof.
  intro H. unfold TopologyChangeEvent_okb in H. split_okb H.
  pose proof (topology_change_type_len _ (check_topology_valid _ _ H)) as Hl.
  destruct m as [ct [i|]]; cbn [tce_ChangeType tce_Address] in *; [|discriminate].
  unfold bytes_TopologyChangeEvent, norm_TopologyChangeEvent. cbn [tce_ChangeType tce_Address]. dec_ev_prefix.
  apply rmap_dok. unfold dec_TopologyChangeEvent. repeat rd. reflexivity.
Qed.
Theorem TopologyChangeEvent_roundtrip version m : TopologyChangeEvent_okb version m = true ->
  exists b, enc_TopologyChangeEvent version m = Ok b /\
  forall rest, dec_event version (b ++ rest) = DOk (M_TopologyChangeEvent (norm_TopologyChangeEvent version m)) rest.
Proof. intro H. eapply roundtrip_of; [apply enc_TopologyChangeEvent_ok; exact H|intro; apply dec_TopologyChangeEvent_app; exact H]. Qed.
Theorem TopologyChangeEvent_length version m b : TopologyChangeEvent_okb version m = true ->
  enc_TopologyChangeEvent version m = Ok b -> len_TopologyChangeEvent version m = Ok (zlen b).
Proof.
  intro H. eapply length_of; [apply enc_TopologyChangeEvent_ok; exact H|].
  unfold TopologyChangeEvent_okb in H. split_okb H.
  unfold len_TopologyChangeEvent, bytes_TopologyChangeEvent. rewrite len_event_prefix_ok. rewrite len_inet_ok by side.
  cbn [ladd]. len_tac.
Qed.
Theorem norm_TopologyChangeEvent_ok version m : TopologyChangeEvent_okb version m = true ->
  TopologyChangeEvent_okb version (norm_TopologyChangeEvent version m) = true /\
  norm_TopologyChangeEvent version (norm_TopologyChangeEvent version m) = norm_TopologyChangeEvent version m.
Proof.
  intro H. unfold TopologyChangeEvent_okb in *. split_okb H. destruct m as [ct a]. unfold norm_TopologyChangeEvent.
  cbn [tce_ChangeType tce_Address] in *. destruct (inet_okb_norm a Hok) as [H1 H2]. rewrite H, H1, H2. split; reflexivity.
Qed.
(* MOVED_NODE exists from v3 on *)
Example TopologyChangeEvent_nonvacuous :
  TopologyChangeEvent_okb 3 {| tce_ChangeType := bytes_of_string TopologyChangeTypeMovedNode;
                               tce_Address := Some {| inet_addr := Some [10;0;0;1]; inet_port := 9042 |} |} = true /\
  TopologyChangeEvent_okb 2 {| tce_ChangeType := bytes_of_string TopologyChangeTypeMovedNode;
                               tce_Address := Some {| inet_addr := Some [10;0;0;1]; inet_port := 9042 |} |} = false.
Proof. vm_compute. split; reflexivity. Qed.

(* ====================== SCHEMA CHANGE ====================== *)
Definition bytes_SchemaChangeEvent (version : Z) (m : SchemaChangeEvent) : bytes :=
  bytes_event_prefix EventTypeSchemaChange ++ enc_string (sce_ChangeType m) ++
  (if Z.geb version ProtocolVersion3 then
     enc_string (sce_Target m) ++ enc_string (sce_Keyspace m) ++
     (if str_is (sce_Target m) SchemaChangeTargetKeyspace then []
      else if str_is (sce_Target m) SchemaChangeTargetTable || str_is (sce_Target m) SchemaChangeTargetType then enc_string (sce_Object m)
      else enc_string (sce_Object m) ++ enc_string_list (sce_Arguments m))
   else enc_string (sce_Keyspace m) ++ enc_string (sce_Object m)).

Lemma schema_target_cases t : SchemaChangeTarget_IsValid t = true ->
  t = SchemaChangeTargetKeyspace \/ t = SchemaChangeTargetTable \/ t = SchemaChangeTargetType \/
  t = SchemaChangeTargetFunction \/ t = SchemaChangeTargetAggregate.
Proof.
  intro H. unfold SchemaChangeTarget_IsValid in H.
  repeat match type of H with
         | (if String.eqb ?s ?k then _ else _) = true =>
             let E := fresh "E" in destruct (String.eqb_spec s k) as [E|_]; [rewrite E; auto 10|]
         end.
  discriminate.
Qed.

Ltac check_target_tac :=
  unfold CheckValidSchemaChangeTarget, SchemaChangeTarget_IsValid, ProtocolVersion_SupportsSchemaChangeTarget;
  eval_closed; cbn [negb orb]; try reflexivity.
Lemma check_target_keyspace v : is_ok (CheckValidSchemaChangeTarget SchemaChangeTargetKeyspace v) = true.
Proof. check_target_tac. Qed.
Lemma check_target_table v : is_ok (CheckValidSchemaChangeTarget SchemaChangeTargetTable v) = true.
Proof. check_target_tac. Qed.
Lemma check_target_type v : is_ok (CheckValidSchemaChangeTarget SchemaChangeTargetType v) = Z.geb v ProtocolVersion3.
Proof. check_target_tac. destruct (Z.geb v ProtocolVersion3); reflexivity. Qed.
Lemma check_target_function v : is_ok (CheckValidSchemaChangeTarget SchemaChangeTargetFunction v) = Z.geb v ProtocolVersion4.
Proof. check_target_tac. destruct (Z.geb v ProtocolVersion4); reflexivity. Qed.
Lemma check_target_aggregate v : is_ok (CheckValidSchemaChangeTarget SchemaChangeTargetAggregate v) = Z.geb v ProtocolVersion4.
Proof. check_target_tac. destruct (Z.geb v ProtocolVersion4); reflexivity. Qed.

Lemma sce_okb_inv version ct tgt ks obj args :
  SchemaChangeEvent_okb version {| sce_ChangeType := ct; sce_Target := tgt; sce_Keyspace := ks; sce_Object := obj; sce_Arguments := args |} = true ->
  SchemaChangeType_IsValid (string_of_bytes ct) = true /\ zlen ct <= 65535 /\
  bytes_ok tgt /\ zlen tgt <= 65535 /\
  is_ok (CheckValidSchemaChangeTarget (string_of_bytes tgt) version) = true /\
  bytes_is_empty ks = false /\ zlen ks <= 65535 /\
  (if str_is tgt SchemaChangeTargetKeyspace then bytes_is_empty obj && is_nil args
   else if str_is tgt SchemaChangeTargetTable || str_is tgt SchemaChangeTargetType then
     negb (bytes_is_empty obj) && str16 obj && is_nil args
   else str16 obj && strs16 args) = true.
Proof.
  unfold SchemaChangeEvent_okb, target_is. cbn [sce_ChangeType sce_Target sce_Keyspace sce_Object sce_Arguments]. cbv zeta.
  intro H. apply andb_prop in H. destruct H as [H H6]. apply andb_prop in H. destruct H as [H H5]. apply andb_prop in H. destruct H as [H H4].
  apply andb_prop in H. destruct H as [H H3]. apply andb_prop in H. destruct H as [H1 H2].
  repeat split; try assumption.
  - apply schema_change_type_len. exact H1.
  - apply bytes_okb_ok. exact H2.
  - apply schema_change_target_len. eapply check_target_valid. exact H3.
  - destruct (bytes_is_empty ks); [discriminate|reflexivity].
  - apply str16_ok. exact H5.
Qed.

(* common setup: the facts of validity, the five target cases *)
Ltac sce_setup H :=
  match type of H with
  | SchemaChangeEvent_okb ?version {| sce_ChangeType := ?ct; sce_Target := ?tgt; sce_Keyspace := ?ks; sce_Object := ?obj; sce_Arguments := ?args |} = true =>
      destruct (sce_okb_inv version ct tgt ks obj args H) as (Hct & Hctl & Hb & Htl & Hchk & Hks & Hksl & Hcase);
      pose proof (schema_target_cases _ (check_target_valid _ _ Hchk)) as Hcases;
      unfold target_is, str_is in *
  end.
(* the facts about the object and the arguments, per target class *)
Ltac sce_case_keyspace Hcase obj args :=
  let Ho := fresh "Ho" in let Ha := fresh "Ha" in
  apply andb_prop in Hcase; destruct Hcase as [Ho Ha]; apply bytes_is_empty_iff in Ho; apply is_nil_ok in Ha; subst obj args.
Ltac sce_case_table Hcase obj args :=
  let Ho := fresh "Ho" in let Hol := fresh "Hol" in let Ha := fresh "Ha" in
  apply andb_prop in Hcase; destruct Hcase as [Hcase Ha]; apply andb_prop in Hcase; destruct Hcase as [Ho Hol];
  apply is_nil_ok in Ha; subst args; apply str16_ok in Hol;
  assert (Hoe : bytes_is_empty obj = false) by (destruct (bytes_is_empty obj); [discriminate|reflexivity]); clear Ho.
Ltac sce_case_function Hcase :=
  let Hol := fresh "Hol" in let Ha := fresh "Ha" in let Ha1 := fresh "Ha1" in let Ha2 := fresh "Ha2" in
  apply andb_prop in Hcase; destruct Hcase as [Hol Ha]; apply str16_ok in Hol; apply strs16_ok in Ha; destruct Ha as [Ha1 Ha2].
Lemma geb4_geb3 v : Z.geb v ProtocolVersion4 = true -> Z.geb v ProtocolVersion3 = true.
Proof. unfold ProtocolVersion3, ProtocolVersion4. lia. Qed.
Lemma zlen_nil_small : zlen (@nil Z) <= 65535.
Proof. rewrite zlen_nil. lia. Qed.

Lemma enc_SchemaChangeEvent_ok version m : SchemaChangeEvent_okb version m = true ->
  enc_SchemaChangeEvent version m = Ok (bytes_SchemaChangeEvent version m).
Proof.
  destruct m as [ct tgt ks obj args]. intro H. sce_setup H.
  unfold enc_SchemaChangeEvent, bytes_SchemaChangeEvent, target_is, str_is.
  cbn [sce_ChangeType sce_Target sce_Keyspace sce_Object sce_Arguments]. cbv zeta.
  rewrite enc_event_prefix_ok by in_events. rewrite (check_schema_type_ok _ Hct), Hchk, Hks.
  rewrite !(write_string_ok ct), !(write_string_ok tgt), !(write_string_ok ks) by assumption.
  revert Hcase Hchk.
  destruct Hcases as [E|[E|[E|[E|E]]]]; rewrite !E; eval_closed; cbn [orb negb]; intros Hcase Hchk.
  - sce_case_keyspace Hcase obj args. rewrite (write_string_ok []) by apply zlen_nil_small.
    destruct (Z.geb version ProtocolVersion3); cbn [bytes_is_empty wguard wapp app]; reflexivity.
  - sce_case_table Hcase obj args. rewrite Hoe, (write_string_ok obj) by assumption.
    destruct (Z.geb version ProtocolVersion3); cbn [negb wguard wapp app]; reflexivity.
  - sce_case_table Hcase obj args. rewrite check_target_type in Hchk. rewrite Hchk, Hoe, (write_string_ok obj) by assumption.
    cbn [negb wguard wapp app]. reflexivity.
  - sce_case_function Hcase. rewrite check_target_function in Hchk. rewrite (geb4_geb3 _ Hchk).
    rewrite (write_string_ok obj), write_string_list_ok by assumption. cbn [wguard wapp app]. reflexivity.
  - sce_case_function Hcase. rewrite check_target_aggregate in Hchk. rewrite (geb4_geb3 _ Hchk).
    rewrite (write_string_ok obj), write_string_list_ok by assumption. cbn [wguard wapp app]. reflexivity.
Qed.

(* reading the target back: the guard of the decoder is the one validity gave *)
Ltac sce_rd_target E Hchk := rd; rewrite !E, Hchk; cbn [rguard]; unfold bind at 1, ret at 1; rd; eval_closed; cbn [orb].

Lemma dec_SchemaChangeEvent_app version m rest : SchemaChangeEvent_okb version m = true ->
  dec_event version (bytes_SchemaChangeEvent version m ++ rest) = DOk (M_SchemaChangeEvent (norm_SchemaChangeEvent version m)) rest.
Proof.
  destruct m as [ct tgt ks obj args]. intro H. sce_setup H.
  unfold bytes_SchemaChangeEvent, norm_SchemaChangeEvent, str_is.
  cbn [sce_ChangeType sce_Target sce_Keyspace sce_Object sce_Arguments]. dec_ev_prefix.
  apply rmap_dok. unfold dec_SchemaChangeEvent, target_is, str_is. rd.
  revert Hcase Hchk.
  destruct Hcases as [E|[E|[E|[E|E]]]]; rewrite !E; eval_closed; cbn [orb negb]; intros Hcase Hchk.
  - sce_case_keyspace Hcase obj args. destruct (Z.geb version ProtocolVersion3).
    + sce_rd_target E Hchk. reflexivity.
    + rd. rewrite <- ?app_assoc. unfold bind at 1. rewrite read_string_app by apply zlen_nil_small.
      cbn [bytes_is_empty]. rewrite <- (string_of_bytes_eq_const tgt _ Hb E). reflexivity.
  - sce_case_table Hcase obj args. destruct (Z.geb version ProtocolVersion3).
    + sce_rd_target E Hchk. rd. reflexivity.
    + rd. rd. rewrite Hoe. rewrite <- (string_of_bytes_eq_const tgt _ Hb E). reflexivity.
  - sce_case_table Hcase obj args. rewrite check_target_type in Hchk. rewrite Hchk.
    rewrite <- check_target_type in Hchk. sce_rd_target E Hchk. rd. reflexivity.
  - sce_case_function Hcase. pose proof Hchk as Hg. rewrite check_target_function in Hg. rewrite (geb4_geb3 _ Hg).
    sce_rd_target E Hchk. rd. rd. reflexivity.
  - sce_case_function Hcase. pose proof Hchk as Hg. rewrite check_target_aggregate in Hg. rewrite (geb4_geb3 _ Hg).
    sce_rd_target E Hchk. rd. rd. reflexivity.
Qed.
Theorem SchemaChangeEvent_roundtrip version m : SchemaChangeEvent_okb version m = true ->
  exists b, enc_SchemaChangeEvent version m = Ok b /\
  forall rest, dec_event version (b ++ rest) = DOk (M_SchemaChangeEvent (norm_SchemaChangeEvent version m)) rest.
Proof. intro H. eapply roundtrip_of; [apply enc_SchemaChangeEvent_ok; exact H|intro; apply dec_SchemaChangeEvent_app; exact H]. Qed.

Theorem SchemaChangeEvent_length version m b : SchemaChangeEvent_okb version m = true ->
  enc_SchemaChangeEvent version m = Ok b -> len_SchemaChangeEvent version m = Ok (zlen b).
Proof.
  intro H. eapply length_of; [apply enc_SchemaChangeEvent_ok; exact H|].
  destruct m as [ct tgt ks obj args]. sce_setup H.
  unfold len_SchemaChangeEvent, bytes_SchemaChangeEvent, target_is, str_is.
  cbn [sce_ChangeType sce_Target sce_Keyspace sce_Object sce_Arguments]. cbv zeta.
  rewrite len_event_prefix_ok, Hchk.
  revert Hcase Hchk.
  destruct Hcases as [E|[E|[E|[E|E]]]]; rewrite !E; eval_closed; cbn [orb negb]; intros Hcase Hchk.
  - destruct (Z.geb version ProtocolVersion3); cbn [ladd]; rewrite ?zlen_app, ?zlen_nil; len_tac.
  - destruct (Z.geb version ProtocolVersion3); cbn [ladd]; len_tac.
  - rewrite check_target_type in Hchk. rewrite Hchk. cbn [ladd]. len_tac.
  - rewrite check_target_function in Hchk. rewrite (geb4_geb3 _ Hchk). cbn [ladd]. len_tac.
  - rewrite check_target_aggregate in Hchk. rewrite (geb4_geb3 _ Hchk). cbn [ladd]. len_tac.
Qed.
Theorem norm_SchemaChangeEvent_ok version m : SchemaChangeEvent_okb version m = true ->
  SchemaChangeEvent_okb version (norm_SchemaChangeEvent version m) = true /\
  norm_SchemaChangeEvent version (norm_SchemaChangeEvent version m) = norm_SchemaChangeEvent version m.
Proof. intro H. split; [exact H|reflexivity]. Qed.

(* a FUNCTION target with arguments (v4), a TABLE target in the v2 layout, and targets the version does not define *)
Example SchemaChangeEvent_nonvacuous :
  SchemaChangeEvent_okb 4 {| sce_ChangeType := bytes_of_string SchemaChangeTypeCreated; sce_Target := bytes_of_string SchemaChangeTargetFunction;
                             sce_Keyspace := bytes_of_string "ks"; sce_Object := bytes_of_string "f";
                             sce_Arguments := [bytes_of_string "int"; bytes_of_string "text"] |} = true /\
  SchemaChangeEvent_okb 2 {| sce_ChangeType := bytes_of_string SchemaChangeTypeDropped; sce_Target := bytes_of_string SchemaChangeTargetTable;
                             sce_Keyspace := bytes_of_string "ks"; sce_Object := bytes_of_string "t"; sce_Arguments := [] |} = true /\
  SchemaChangeEvent_okb 3 {| sce_ChangeType := bytes_of_string SchemaChangeTypeCreated; sce_Target := bytes_of_string SchemaChangeTargetFunction;
                             sce_Keyspace := bytes_of_string "ks"; sce_Object := bytes_of_string "f"; sce_Arguments := [] |} = false /\
  SchemaChangeEvent_okb 2 {| sce_ChangeType := bytes_of_string SchemaChangeTypeCreated; sce_Target := bytes_of_string SchemaChangeTargetType;
                             sce_Keyspace := bytes_of_string "ks"; sce_Object := bytes_of_string "t"; sce_Arguments := [] |} = false.
Proof. vm_compute. repeat split; reflexivity. Qed.

(* ====================== totality of eventCodec.Decode ====================== *)
Lemma total_dec_SchemaChangeEvent version : total (dec_SchemaChangeEvent version).
Proof. unfold dec_SchemaChangeEvent. total_tac. Qed.
Lemma total_dec_StatusChangeEvent version : total (dec_StatusChangeEvent version).
Proof. unfold dec_StatusChangeEvent. total_tac. Qed.
Lemma total_dec_TopologyChangeEvent version : total (dec_TopologyChangeEvent version).
Proof. unfold dec_TopologyChangeEvent. total_tac. Qed.
#[export] Hint Resolve total_dec_SchemaChangeEvent total_dec_StatusChangeEvent total_dec_TopologyChangeEvent : total.

Theorem dec_event_total version : total (dec_event version).
Proof. unfold dec_event. total_tac. Qed.
Theorem event_total version bs : dec_event version bs <> DPanic /\ dec_event version bs <> DFuel.
Proof. apply dec_event_total. Qed.

(* ================================================ the group ================================================
   Theorems quantified over the whole group through the dispatch functions, for the frame-level proofs. *)
Definition in_error_group (m : Message) : bool :=
  match m with
  | M_ServerError _ | M_ProtocolError _ | M_AuthenticationError _ | M_Overloaded _ | M_IsBootstrapping _
  | M_TruncateError _ | M_SyntaxError _ | M_Unauthorized _ | M_Invalid _ | M_ConfigError _
  | M_Unavailable _ | M_ReadTimeout _ | M_WriteTimeout _ | M_ReadFailure _ | M_WriteFailure _
  | M_FunctionFailure _ | M_Unprepared _ | M_AlreadyExists _
  | M_SchemaChangeEvent _ | M_StatusChangeEvent _ | M_TopologyChangeEvent _ => true
  | _ => false
  end.

(* the five dispatch functions are defined on exactly the 21 constructors of the group *)
Lemma error_group_domain version m :
  if in_error_group m
  then (exists w, enc_error_group version m = Some w) /\ (exists l, len_error_group version m = Some l) /\
       (exists b, error_group_okb version m = Some b) /\
       (exists m', norm_error_group version m = Some m' /\ in_error_group m' = true /\ msg_opcode m' = msg_opcode m) /\
       (exists r, dec_error_group version (msg_opcode m) = Some r)
  else enc_error_group version m = None /\ len_error_group version m = None /\
       error_group_okb version m = None /\ norm_error_group version m = None.
Proof.
  destruct m; cbn [in_error_group enc_error_group len_error_group error_group_okb norm_error_group];
    try (repeat split; reflexivity);
    (split; [eexists; reflexivity|]); (split; [eexists; reflexivity|]); (split; [eexists; reflexivity|]);
    (split; [eexists; repeat split; reflexivity|]); eexists; reflexivity.
Qed.
Lemma dec_error_group_domain version opcode :
  dec_error_group version opcode = if (opcode =? OpCodeError) || (opcode =? OpCodeEvent) then dec_error_group version opcode else None.
Proof. unfold dec_error_group. destruct (opcode =? OpCodeError); [reflexivity|]. destruct (opcode =? OpCodeEvent); reflexivity. Qed.

Ltac in_simple := cbv [simple_table In]; tauto.

Theorem error_group_roundtrip version m w :
  enc_error_group version m = Some w -> error_group_okb version m = Some true ->
  exists b m' r, w = Ok b /\ norm_error_group version m = Some m' /\
                 dec_error_group version (msg_opcode m) = Some r /\
                 forall rest, r (b ++ rest) = DOk m' rest.
Proof.
  intros Henc Hok.
  destruct m; cbn [enc_error_group error_group_okb norm_error_group msg_opcode] in *; try discriminate;
    assert (Hw : Some w = Some w) by reflexivity;
    match type of Henc with Some ?e = Some _ => assert (Ew : w = e) by congruence end; subst w; clear Henc Hw;
    match type of Hok with Some ?e = Some true => assert (Hok' : e = true) by congruence end; clear Hok.
  (* the ten message-only kinds *)
  1-10: match goal with
        | |- exists b m' r, enc_simple_error ?code ?msg = Ok b /\ Some (?ctor ?msg) = Some m' /\ _ =>
            destruct (simple_error_roundtrip version code ctor msg ltac:(in_simple) Hok') as (b & Hb & Hd);
            exists b, (ctor msg), (dec_error version); repeat split; assumption
        end.
  - destruct (Unavailable_roundtrip _ _ Hok') as (b & Hb & Hd). exists b. do 2 eexists. repeat split; [exact Hb|exact Hd].
  - destruct (ReadTimeout_roundtrip _ _ Hok') as (b & Hb & Hd). exists b. do 2 eexists. repeat split; [exact Hb|exact Hd].
  - destruct (WriteTimeout_roundtrip _ _ Hok') as (b & Hb & Hd). exists b. do 2 eexists. repeat split; [exact Hb|exact Hd].
  - destruct (ReadFailure_roundtrip _ _ Hok') as (b & Hb & Hd). exists b. do 2 eexists. repeat split; [exact Hb|exact Hd].
  - destruct (WriteFailure_roundtrip _ _ Hok') as (b & Hb & Hd). exists b. do 2 eexists. repeat split; [exact Hb|exact Hd].
  - destruct (FunctionFailure_roundtrip _ _ Hok') as (b & Hb & Hd). exists b. do 2 eexists. repeat split; [exact Hb|exact Hd].
  - destruct (Unprepared_roundtrip _ _ Hok') as (b & Hb & Hd). exists b. do 2 eexists. repeat split; [exact Hb|exact Hd].
  - destruct (AlreadyExists_roundtrip _ _ Hok') as (b & Hb & Hd). exists b. do 2 eexists. repeat split; [exact Hb|exact Hd].
  - destruct (SchemaChangeEvent_roundtrip _ _ Hok') as (b & Hb & Hd). exists b. do 2 eexists. repeat split; [exact Hb|exact Hd].
  - destruct (StatusChangeEvent_roundtrip _ _ Hok') as (b & Hb & Hd). exists b. do 2 eexists. repeat split; [exact Hb|exact Hd].
  - destruct (TopologyChangeEvent_roundtrip _ _ Hok') as (b & Hb & Hd). exists b. do 2 eexists. repeat split; [exact Hb|exact Hd].
Qed.

Lemma simple_codes_in : forall code ctor, In (code, ctor) simple_table -> In code error_codes.
Proof. exact simple_table_codes. Qed.

Theorem error_group_length version m b :
  enc_error_group version m = Some (Ok b) -> error_group_okb version m = Some true ->
  len_error_group version m = Some (Ok (zlen b)).
Proof.
  intros Henc Hok.
  destruct m; cbn [enc_error_group error_group_okb len_error_group] in *; try discriminate;
    match type of Henc with Some ?e = Some _ => assert (Ew : e = Ok b) by congruence end; clear Henc;
    match type of Hok with Some ?e = Some true => assert (Hok' : e = true) by congruence end; clear Hok; f_equal.
  1-10: match type of Ew with enc_simple_error ?code ?msg = _ => apply (simple_error_length code msg b); [in_codes|assumption|assumption] end.
  - apply Unavailable_length; assumption.
  - apply ReadTimeout_length; assumption.
  - apply WriteTimeout_length; assumption.
  - apply ReadFailure_length; assumption.
  - apply WriteFailure_length; assumption.
  - apply FunctionFailure_length; assumption.
  - apply Unprepared_length; assumption.
  - apply AlreadyExists_length; assumption.
  - apply SchemaChangeEvent_length; assumption.
  - apply StatusChangeEvent_length; assumption.
  - apply TopologyChangeEvent_length; assumption.
Qed.

(* every decoder of the group, every version, every opcode, ALL inputs *)
Theorem error_group_total version opcode r bs :
  dec_error_group version opcode = Some r -> r bs <> DPanic /\ r bs <> DFuel.
Proof.
  unfold dec_error_group. destruct (opcode =? OpCodeError).
  - intro E. assert (r = dec_error version) by congruence. subst r. apply dec_error_total.
  - destruct (opcode =? OpCodeEvent); [|discriminate].
    intro E. assert (r = dec_event version) by congruence. subst r. apply dec_event_total.
Qed.

Theorem norm_error_group_ok version m m' :
  error_group_okb version m = Some true -> norm_error_group version m = Some m' ->
  error_group_okb version m' = Some true /\ norm_error_group version m' = Some m'.
Proof.
  intros Hok Hn.
  destruct m; cbn [error_group_okb norm_error_group] in *; try discriminate;
    match type of Hn with Some ?e = Some _ => assert (Em : m' = e) by congruence end; subst m'; clear Hn;
    match type of Hok with Some ?e = Some true => assert (Hok' : e = true) by congruence end; clear Hok;
    cbn [error_group_okb norm_error_group].
  1-10: (split; [rewrite Hok'|]; reflexivity).
  - destruct (norm_Unavailable_ok _ _ Hok') as [H1 H2]. rewrite H1, H2. split; reflexivity.
  - destruct (norm_ReadTimeout_ok _ _ Hok') as [H1 H2]. rewrite H1, H2. split; reflexivity.
  - destruct (norm_WriteTimeout_ok _ _ Hok') as [H1 H2]. rewrite H1, H2. split; reflexivity.
  - destruct (norm_ReadFailure_ok _ _ Hok') as [H1 H2]. rewrite H1, H2. split; reflexivity.
  - destruct (norm_WriteFailure_ok _ _ Hok') as [H1 H2]. rewrite H1, H2. split; reflexivity.
  - destruct (norm_FunctionFailure_ok _ _ Hok') as [H1 H2]. rewrite H1, H2. split; reflexivity.
  - destruct (norm_Unprepared_ok _ _ Hok') as [H1 H2]. rewrite H1, H2. split; reflexivity.
  - destruct (norm_AlreadyExists_ok _ _ Hok') as [H1 H2]. rewrite H1, H2. split; reflexivity.
  - destruct (norm_SchemaChangeEvent_ok _ _ Hok') as [H1 H2]. rewrite H1, H2. split; reflexivity.
  - destruct (norm_StatusChangeEvent_ok _ _ Hok') as [H1 H2]. rewrite H1, H2. split; reflexivity.
  - destruct (norm_TopologyChangeEvent_ok _ _ Hok') as [H1 H2]. rewrite H1, H2. split; reflexivity.
Qed.

(* non-vacuity of the group theorems: one ERROR and one EVENT satisfying all hypotheses *)
Example error_group_nonvacuous :
  let m1 := M_WriteTimeout {| wt_ErrorMessage := bytes_of_string "timeout"; wt_Consistency := 6; wt_Received := 1; wt_BlockFor := 2;
                              wt_WriteType := bytes_of_string WriteTypeCas; wt_Contentions := 2 |} in
  let m2 := M_SchemaChangeEvent {| sce_ChangeType := bytes_of_string SchemaChangeTypeUpdated; sce_Target := bytes_of_string SchemaChangeTargetAggregate;
                                   sce_Keyspace := bytes_of_string "ks"; sce_Object := bytes_of_string "agg";
                                   sce_Arguments := [bytes_of_string "int"] |} in
  error_group_okb 5 m1 = Some true /\ (exists b, enc_error_group 5 m1 = Some (Ok b)) /\
  error_group_okb 4 m2 = Some true /\ (exists b, enc_error_group 4 m2 = Some (Ok b)).
Proof. vm_compute. repeat split; try reflexivity; eexists; reflexivity. Qed.

Print Assumptions error_group_roundtrip.
Print Assumptions error_group_length.
Print Assumptions error_group_total.
Print Assumptions norm_error_group_ok.
