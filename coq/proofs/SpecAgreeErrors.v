(* C02, body clause for ERROR and EVENT messages (model/MsgErrors.v, pure encodings of proofs/MsgErrorsProofs.v). *)
From Coq Require Import String.
From Coq Require Import ZArith List Bool Lia.
From Coq Require Import ZifyBool ZifyNat.
From GCNP Require Import base.GoInt base.Bytes base.StrBytes base.Codec gen.Constants_gen spec.SpecTables model.Prim model.DataType
  model.MsgTypes model.Frame model.MsgRequests model.MsgErrors proofs.PrimProofs proofs.CqlBytesLemmas proofs.FrameProofs
  proofs.MsgRequestsLib proofs.MsgErrorsProofs spec.SpecNotation spec.SpecMsg spec.SpecFrame proofs.SpecAgreeLib.
Import ListNotations.
Open Scope Z_scope.
Ltac Zify.zify_post_hook ::= Z.div_mod_to_equations.

Ltac raw_head Hv := unfold spec_body_raw; rewrite (supported_is_version _ Hv); cbn [negb].

Lemma str16_sok s : str16 s = true -> string_ok s = true.
Proof. intro H. apply string_ok_le, str16_ok, H. Qed.
Lemma i32b_f x : i32b x = true -> fits_any 32 x = true.
Proof. intro H. apply i32b_ok in H. unfold in_i32 in H. apply fits_any32. lia. Qed.
Lemma u16b_f x : u16b x = true -> fits_u 16 x = true.
Proof. intro H. apply u16b_ok in H. unfold in_u16 in H. apply fits_u16. lia. Qed.
Lemma strs16_nok l : strs16 l = true -> notation_ok (NStringList l) = true.
Proof. intro H. apply strs16_ok in H. destruct H. apply string_list_nok; assumption. Qed.

Lemma bool_byte_spec b : ser (spec_bool_byte b) = be_bytes 1 (bool_byte b).
Proof. destruct b; reflexivity. Qed.
Lemma bool_byte_nok b : notation_ok (spec_bool_byte b) = true.
Proof. destruct b; reflexivity. Qed.
Lemma nok_string s : str16 s = true -> notation_ok (NString s) = true. Proof. exact (str16_sok s). Qed.
Lemma nok_int x : i32b x = true -> notation_ok (NInt x) = true. Proof. exact (i32b_f x). Qed.
Lemma nok_consistency x : u16b x = true -> notation_ok (NConsistency x) = true. Proof. exact (u16b_f x). Qed.
Lemma nok_short x : u16b x = true -> notation_ok (NShort x) = true. Proof. exact (u16b_f x). Qed.
(* discharge [forallb notation_ok [...] = true] from the hypotheses left by split_okb *)
Ltac nok :=
  cbn [forallb app];
  repeat match goal with
  | H : str16 ?s = true |- context [notation_ok (NString ?s)] => rewrite (nok_string s H)
  | H : i32b ?x = true |- context [notation_ok (NInt ?x)] => rewrite (nok_int x H)
  | H : u16b ?x = true |- context [notation_ok (NConsistency ?x)] => rewrite (nok_consistency x H)
  | H : u16b ?x = true |- context [notation_ok (NShort ?x)] => rewrite (nok_short x H)
  | H : strs16 ?l = true |- context [notation_ok (NStringList ?l)] => rewrite (strs16_nok l H)
  | |- context [notation_ok (spec_bool_byte ?b)] => rewrite (bool_byte_nok b)
  end;
  try reflexivity.
Ltac sers := rewrite ?ser_all_app, ?ser_all_cons, ?ser_all_nil, ?app_nil_r.

(* ---------- the ten kinds that carry only the message ---------- *)
Lemma agree_simple_error v code msg m :
  supported v -> simple_error_okb msg = true -> -2147483648 <= code < 4294967296 ->
  spec_body_raw v m = spec_error code msg [] ->
  spec_body_bytes v m = Some (bytes_error_prefix code msg).
Proof.
  intros Hv H Hc Hr. unfold simple_error_okb in H.
  apply spec_bytes_intro with (l := [NInt code; NString msg]).
  - rewrite Hr. reflexivity.
  - cbn [forallb notation_ok]. rewrite (str16_sok _ H), fits_any32 by exact Hc. reflexivity.
  - sers. reflexivity.
Qed.

Ltac simple_err Hv H := apply agree_simple_error; [exact Hv|exact H|vm_compute; split; [discriminate|reflexivity]|raw_head Hv; reflexivity].
Lemma agree_ServerError v msg : supported v -> simple_error_okb msg = true ->
  spec_body_bytes v (M_ServerError msg) = Some (bytes_error_prefix ErrorCodeServerError msg).
Proof. intros Hv H. simple_err Hv H. Qed.
Lemma agree_ProtocolError v msg : supported v -> simple_error_okb msg = true ->
  spec_body_bytes v (M_ProtocolError msg) = Some (bytes_error_prefix ErrorCodeProtocolError msg).
Proof. intros Hv H. simple_err Hv H. Qed.
Lemma agree_AuthenticationError v msg : supported v -> simple_error_okb msg = true ->
  spec_body_bytes v (M_AuthenticationError msg) = Some (bytes_error_prefix ErrorCodeAuthenticationError msg).
Proof. intros Hv H. simple_err Hv H. Qed.
Lemma agree_Overloaded v msg : supported v -> simple_error_okb msg = true ->
  spec_body_bytes v (M_Overloaded msg) = Some (bytes_error_prefix ErrorCodeOverloaded msg).
Proof. intros Hv H. simple_err Hv H. Qed.
Lemma agree_IsBootstrapping v msg : supported v -> simple_error_okb msg = true ->
  spec_body_bytes v (M_IsBootstrapping msg) = Some (bytes_error_prefix ErrorCodeIsBootstrapping msg).
Proof. intros Hv H. simple_err Hv H. Qed.
Lemma agree_TruncateError v msg : supported v -> simple_error_okb msg = true ->
  spec_body_bytes v (M_TruncateError msg) = Some (bytes_error_prefix ErrorCodeTruncateError msg).
Proof. intros Hv H. simple_err Hv H. Qed.
Lemma agree_SyntaxError v msg : supported v -> simple_error_okb msg = true ->
  spec_body_bytes v (M_SyntaxError msg) = Some (bytes_error_prefix ErrorCodeSyntaxError msg).
Proof. intros Hv H. simple_err Hv H. Qed.
Lemma agree_Unauthorized v msg : supported v -> simple_error_okb msg = true ->
  spec_body_bytes v (M_Unauthorized msg) = Some (bytes_error_prefix ErrorCodeUnauthorized msg).
Proof. intros Hv H. simple_err Hv H. Qed.
Lemma agree_Invalid v msg : supported v -> simple_error_okb msg = true ->
  spec_body_bytes v (M_Invalid msg) = Some (bytes_error_prefix ErrorCodeInvalid msg).
Proof. intros Hv H. simple_err Hv H. Qed.
Lemma agree_ConfigError v msg : supported v -> simple_error_okb msg = true ->
  spec_body_bytes v (M_ConfigError msg) = Some (bytes_error_prefix ErrorCodeConfigError msg).
Proof. intros Hv H. simple_err Hv H. Qed.

(* ---------- UNAVAILABLE, READ_TIMEOUT, ALREADY_EXISTS, FUNCTION_FAILURE ---------- *)
Lemma agree_Unavailable v m : supported v -> Unavailable_okb v m = true ->
  spec_body_bytes v (M_Unavailable m) = Some (bytes_Unavailable m).
Proof.
  intros Hv H. unfold Unavailable_okb in H. split_okb H.
  apply spec_bytes_intro with (l := [NInt 4096; NString (un_ErrorMessage m)] ++
                                   [NConsistency (un_Consistency m); NInt (un_Required m); NInt (un_Alive m)]).
  - raw_head Hv. reflexivity.
  - nok.
  - sers. reflexivity.
Qed.


Lemma agree_ReadTimeout v m : supported v -> ReadTimeout_okb v m = true ->
  spec_body_bytes v (M_ReadTimeout m) = Some (bytes_ReadTimeout m).
Proof.
  intros Hv H. unfold ReadTimeout_okb in H. split_okb H.
  apply spec_bytes_intro with (l := [NInt 4608; NString (rt_ErrorMessage m)] ++
      [NConsistency (rt_Consistency m); NInt (rt_Received m); NInt (rt_BlockFor m); spec_bool_byte (rt_DataPresent m)]).
  - raw_head Hv. reflexivity.
  - nok.
  - sers. rewrite bool_byte_spec. reflexivity.
Qed.

Lemma agree_AlreadyExists v m : supported v -> AlreadyExists_okb v m = true ->
  spec_body_bytes v (M_AlreadyExists m) = Some (bytes_AlreadyExists m).
Proof.
  intros Hv H. unfold AlreadyExists_okb in H. split_okb H.
  apply spec_bytes_intro with (l := [NInt 9216; NString (ae_ErrorMessage m)] ++ [NString (ae_Keyspace m); NString (ae_Table m)]).
  - raw_head Hv. reflexivity.
  - nok.
  - sers. reflexivity.
Qed.

(* Function_failure is defined from v4 on (v4 9, v5 8, DSE 9); the Go encoder does not look at the version *)
Lemma agree_FunctionFailure v m : supported v -> spec_from_v4 v = true -> FunctionFailure_okb v m = true ->
  spec_body_bytes v (M_FunctionFailure m) = Some (bytes_FunctionFailure m).
Proof.
  intros Hv H4 H. unfold FunctionFailure_okb in H. split_okb H.
  apply spec_bytes_intro with (l := [NInt 5120; NString (ff_ErrorMessage m)] ++
      [NString (ff_Keyspace m); NString (ff_Function m); NStringList (ff_Arguments m)]).
  - raw_head Hv. unfold spec_function_failure. rewrite H4. reflexivity.
  - nok.
  - sers. reflexivity.
Qed.

(* ---------- UNPREPARED: a nil id has no specification layout; a present one is a [short bytes] ---------- *)
Lemma agree_Unprepared v m : supported v -> is_some (up_Id m) = true -> Unprepared_okb v m = true ->
  spec_body_bytes v (M_Unprepared m) = Some (bytes_Unprepared m).
Proof.
  intros Hv Hid H. unfold Unprepared_okb in H. split_okb H. destruct m as [msg [id|]]; [|discriminate]. cbn [up_ErrorMessage up_Id olist] in *.
  apply spec_bytes_intro with (l := [NInt 9472; NString msg] ++ [NShortBytes id]).
  - raw_head Hv. reflexivity.
  - nok. cbn [notation_ok]. rewrite string_ok_le by lia. reflexivity.
  - sers. reflexivity.
Qed.

(* ---------- string-typed codes: Go compares strings, the specification side compares byte lists ---------- *)
Lemma beq_eq a b : beq a b = true <-> a = b.
Proof. rewrite beq_bytes_eqb. apply bytes_eqb_eq. Qed.
Lemma str_is_beq s c : bytes_ok s -> str_is s c = beq s (bytes_of_string c).
Proof.
  intro H. unfold str_is. pose proof (string_eqb_const_iff s c H) as E. pose proof (beq_eq s (bytes_of_string c)) as F.
  destruct (String.eqb (string_of_bytes s) c); destruct (beq s (bytes_of_string c)); try reflexivity.
  - symmetry. apply F, E. reflexivity.
  - apply E, F. reflexivity.
Qed.

(* ---------- WRITE_TIMEOUT: <contentions> only in v5 and only for "CAS" (both sides) ---------- *)
Lemma contentions_version v : supported v -> ProtocolVersion_SupportsWriteTimeoutContentions v = (v =? 5).
Proof. intro H. destruct (supported_cases _ H) as [->|[->|[->|[->|[->| ->]]]]]; reflexivity. Qed.

(* [bytes_okb (wt_WriteType m)]: the write type is a Go string, its elements are bytes (representation invariant; the
   Go comparison  WriteType == WriteTypeCas  is modelled through string_of_bytes, which is injective on bytes only) *)
Lemma agree_WriteTimeout v m : supported v -> bytes_okb (wt_WriteType m) = true -> WriteTimeout_okb v m = true ->
  spec_body_bytes v (M_WriteTimeout m) = Some (bytes_WriteTimeout v m).
Proof.
  intros Hv Hb H. apply bytes_okb_ok in Hb. unfold WriteTimeout_okb in H. split_okb H.
  unfold bytes_WriteTimeout. unfold wt_has_contentions in *. rewrite contentions_version in * by exact Hv.
  rewrite (str_is_beq _ WriteTypeCas Hb) in *. change (bytes_of_string WriteTypeCas) with s_CAS in *.
  set (cas := (v =? 5) && beq (wt_WriteType m) s_CAS) in *.
  apply spec_bytes_intro with (l := [NInt 4352; NString (wt_ErrorMessage m)] ++
      ([NConsistency (wt_Consistency m); NInt (wt_Received m); NInt (wt_BlockFor m); NString (wt_WriteType m)]
       ++ (if cas then [NShort (wt_Contentions m)] else []))).
  - raw_head Hv. unfold spec_write_timeout. fold cas. destruct cas.
    + reflexivity.
    + cbn [orb]. match goal with Hc : (wt_Contentions m =? 0) = true |- _ => rewrite Hc end. reflexivity.
  - destruct cas; nok.
  - destruct cas; sers; reflexivity.
Qed.

(* ---------- the reason map of READ_FAILURE / WRITE_FAILURE (v5, DSE) ---------- *)
Lemma oall_concat {A} (f : A -> option (list notation)) (g : A -> bytes) l :
  (forall x, In x l -> exists ns, f x = Some ns /\ forallb notation_ok ns = true /\ ser_all ns = g x) ->
  exists nss, oall f l = Some nss /\ forallb notation_ok (concat nss) = true /\ ser_all (concat nss) = concat (map g l).
Proof.
  induction l as [|x l IH]; intro H.
  - exists []. repeat split.
  - destruct (H x (or_introl eq_refl)) as (ns & E1 & E2 & E3).
    destruct IH as (nss & F1 & F2 & F3); [intros y Hy; apply H; right; exact Hy|].
    exists (ns :: nss). cbn [oall obind]. rewrite E1. cbn [obind]. rewrite F1. cbn [obind concat map]. repeat split.
    + rewrite forallb_app, E2, F2. reflexivity.
    + rewrite ser_all_app, E3, F3. reflexivity.
Qed.

Lemma reason_map_spec l : reasons_okb l = true ->
  exists ns, spec_reason_map l = Some ns /\ forallb notation_ok ns = true /\ ser_all ns = enc_reason_map l.
Proof.
  unfold reasons_okb. intro H. apply andb_prop in H. destruct H as [Hn Hall].
  destruct (oall_concat (fun r => do x <- r; do a <- spec_ip (fr_endpoint x); Some [NInetAddr a; NShort (fr_code x)]) enc_reason l)
    as (nss & E1 & E2 & E3).
  { intros r Hr. rewrite forallb_forall in Hall. specialize (Hall r Hr). destruct r as [[ep code]|]; [|discriminate].
    cbn [reason_okb fr_endpoint fr_code] in Hall. apply andb_prop in Hall. destruct Hall as [Hip Hc].
    destruct (spec_ip_inetaddr ep (ip_okb_ok _ Hip)) as (a & Ha & Hok & Hser).
    exists [NInetAddr a; NShort code]. cbn [obind fr_endpoint fr_code]. rewrite Ha. cbn [obind]. repeat split.
    - cbn [forallb notation_ok]. rewrite Hok. pose proof (failure_code_range _ Hc) as Hr'. unfold in_u16 in Hr'.
      rewrite fits_u16 by lia. reflexivity.
    - sers. cbn [ser enc_reason fr_endpoint fr_code]. rewrite Hser. reflexivity. }
  exists (NInt (zlen l) :: concat nss). unfold spec_reason_map. rewrite E1. cbn [obind]. repeat split.
  - cbn [forallb notation_ok]. rewrite E2. rewrite fits_any32 by (split; [pose proof (zlen_nonneg l); lia|lia]). reflexivity.
  - rewrite ser_all_cons, E3. reflexivity.
Qed.

Lemma reason_map_version v : supported v -> spec_from_v4 v = true ->
  ProtocolVersion_SupportsReadWriteFailureReasonMap v = negb (v =? 4) /\ (negb (v =? 4) = true -> spec_v5_or_dse v = true).
Proof. intros H H4. destruct (supported_cases _ H) as [->|[->|[->|[->|[->| ->]]]]]; try discriminate H4; split; try reflexivity; intro; discriminate. Qed.

(* Read_failure / Write_failure are defined from v4 on (v4 9; v5 8; DSE 9); the Go encoder does not look at the version *)
Lemma agree_ReadFailure v m : supported v -> spec_from_v4 v = true -> ReadFailure_okb v m = true ->
  spec_body_bytes v (M_ReadFailure m) = Some (bytes_ReadFailure v m).
Proof.
  intros Hv H4 H. unfold ReadFailure_okb in H. split_okb H. unfold bytes_ReadFailure, bytes_failures.
  match goal with Hf : failures_okb _ _ _ = true |- _ => unfold failures_okb in Hf; rename Hf into Hfail end.
  destruct (reason_map_version v Hv H4) as [E5 E5']. rewrite E5 in *.
  destruct (Z.eqb_spec v 4) as [->|Hn4]; cbn [negb] in *.
  - apply andb_prop in Hfail. destruct Hfail as [Hnf Hnil]. apply is_nil_ok in Hnil.
    apply spec_bytes_intro with (l := [NInt 4864; NString (rf_ErrorMessage m)] ++
        ([NConsistency (rf_Consistency m); NInt (rf_Received m); NInt (rf_BlockFor m)] ++
         [NInt (rf_NumFailures m); spec_bool_byte (rf_DataPresent m)])).
    + unfold spec_body_raw. cbn [spec_is_version negb]. unfold spec_read_failure. cbn [Z.eqb Pos.eqb]. rewrite Hnil. reflexivity.
    + nok.
    + sers. rewrite bool_byte_spec. reflexivity.
  - apply andb_prop in Hfail. destruct Hfail as [_ Hrs].
    destruct (reason_map_spec _ Hrs) as (ns & E1 & E2 & E3).
    apply spec_bytes_intro with (l := [NInt 4864; NString (rf_ErrorMessage m)] ++
        ([NConsistency (rf_Consistency m); NInt (rf_Received m); NInt (rf_BlockFor m)] ++ ns ++ [spec_bool_byte (rf_DataPresent m)])).
    + raw_head Hv. unfold spec_read_failure. destruct (Z.eqb_spec v 4); [contradiction|]. rewrite (E5' eq_refl), E1. reflexivity.
    + cbn [app forallb]. rewrite forallb_app, E2. nok.
    + sers. rewrite E3, bool_byte_spec. reflexivity.
Qed.

Lemma agree_WriteFailure v m : supported v -> spec_from_v4 v = true -> WriteFailure_okb v m = true ->
  spec_body_bytes v (M_WriteFailure m) = Some (bytes_WriteFailure v m).
Proof.
  intros Hv H4 H. unfold WriteFailure_okb in H. split_okb H. unfold bytes_WriteFailure, bytes_failures.
  match goal with Hf : failures_okb _ _ _ = true |- _ => unfold failures_okb in Hf; rename Hf into Hfail end.
  destruct (reason_map_version v Hv H4) as [E5 E5']. rewrite E5 in *.
  destruct (Z.eqb_spec v 4) as [->|Hn4]; cbn [negb] in *.
  - apply andb_prop in Hfail. destruct Hfail as [Hnf Hnil]. apply is_nil_ok in Hnil.
    apply spec_bytes_intro with (l := [NInt 5376; NString (wf_ErrorMessage m)] ++
        ([NConsistency (wf_Consistency m); NInt (wf_Received m); NInt (wf_BlockFor m)] ++
         [NInt (wf_NumFailures m); NString (wf_WriteType m)])).
    + unfold spec_body_raw. cbn [spec_is_version negb]. unfold spec_write_failure. cbn [Z.eqb Pos.eqb]. rewrite Hnil. reflexivity.
    + nok.
    + sers. reflexivity.
  - apply andb_prop in Hfail. destruct Hfail as [_ Hrs].
    destruct (reason_map_spec _ Hrs) as (ns & E1 & E2 & E3).
    apply spec_bytes_intro with (l := [NInt 5376; NString (wf_ErrorMessage m)] ++
        ([NConsistency (wf_Consistency m); NInt (wf_Received m); NInt (wf_BlockFor m)] ++ ns ++ [NString (wf_WriteType m)])).
    + raw_head Hv. unfold spec_write_failure. destruct (Z.eqb_spec v 4); [contradiction|]. rewrite (E5' eq_refl), E1. reflexivity.
    + cbn [app forallb]. rewrite forallb_app, E2. nok.
    + sers. rewrite E3. reflexivity.
Qed.

(* ---------- EVENT: STATUS_CHANGE, TOPOLOGY_CHANGE ---------- *)
Lemma agree_StatusChangeEvent v m : supported v -> StatusChangeEvent_okb v m = true ->
  spec_body_bytes v (M_StatusChangeEvent m) = Some (bytes_StatusChangeEvent m).
Proof.
  intros Hv H. unfold StatusChangeEvent_okb in H. split_okb H. pose proof (status_change_type_len _ H) as Hl.
  destruct (spec_inet_enc _ (inet_okb_ok _ Hok)) as (n & E1 & E2 & E3).
  apply spec_bytes_intro with (l := [NString s_STATUS_CHANGE; NString (ste_ChangeType m); n]).
  - raw_head Hv. unfold spec_status_change_event. rewrite E1. reflexivity.
  - cbn [forallb notation_ok]. rewrite E2, (string_ok_le _ Hl). reflexivity.
  - sers. rewrite E3. reflexivity.
Qed.
Lemma agree_TopologyChangeEvent v m : supported v -> TopologyChangeEvent_okb v m = true ->
  spec_body_bytes v (M_TopologyChangeEvent m) = Some (bytes_TopologyChangeEvent m).
Proof.
  intros Hv H. unfold TopologyChangeEvent_okb in H. split_okb H.
  pose proof (topology_change_type_len _ (check_topology_valid _ _ H)) as Hl.
  destruct (spec_inet_enc _ (inet_okb_ok _ Hok)) as (n & E1 & E2 & E3).
  apply spec_bytes_intro with (l := [NString s_TOPOLOGY_CHANGE; NString (tce_ChangeType m); n]).
  - raw_head Hv. unfold spec_topology_change_event. rewrite E1. reflexivity.
  - cbn [forallb notation_ok]. rewrite E2, (string_ok_le _ Hl). reflexivity.
  - sers. rewrite E3. reflexivity.
Qed.

(* ---------- SCHEMA_CHANGE (event and result share the layout) ---------- *)
Definition sc_bytes (v : Z) (ct tgt ks obj : bytes) (args : list bytes) : bytes :=
  enc_string ct ++
  (if Z.geb v ProtocolVersion3 then
     enc_string tgt ++ enc_string ks ++
     (if str_is tgt SchemaChangeTargetKeyspace then []
      else if str_is tgt SchemaChangeTargetTable || str_is tgt SchemaChangeTargetType then enc_string obj
      else enc_string obj ++ enc_string_list args)
   else enc_string ks ++ enc_string obj).

(* evaluate closed boolean tests *)
Ltac eval_bool t :=
  let r := eval vm_compute in t in
  match r with
  | true => change t with true
  | false => change t with false
  end.
Ltac eval_tests :=
  repeat match goal with
  | |- context [beq ?a ?b] => eval_bool (beq a b)
  | |- context [str_is ?a ?b] => eval_bool (str_is a b)
  | |- context [Z.eqb ?a ?b] => eval_bool (Z.eqb a b)
  | |- context [String.eqb ?a ?b] => eval_bool (String.eqb a b)
  | |- context [Z.geb ?a ?b] => eval_bool (Z.geb a b)
  | |- context [spec_from_v3 ?a] => eval_bool (spec_from_v3 a)
  | |- context [spec_from_v4 ?a] => eval_bool (spec_from_v4 a)
  end.

Lemma schema_change_spec v ct tgt ks obj args :
  supported v -> bytes_ok tgt -> is_ok (CheckValidSchemaChangeTarget (string_of_bytes tgt) v) = true ->
  zlen ct <= 65535 -> zlen ks <= 65535 -> zlen obj <= 65535 ->
  (str_is tgt SchemaChangeTargetKeyspace = true -> obj = []) ->
  (str_is tgt SchemaChangeTargetFunction || str_is tgt SchemaChangeTargetAggregate = false -> args = []) ->
  zlen args <= 65535 -> strings_small args ->
  exists ns, spec_schema_change v ct tgt ks obj args = Some ns /\ forallb notation_ok ns = true /\
             ser_all ns = sc_bytes v ct tgt ks obj args.
Proof.
  intros Hv Hb Hchk Hct Hks Hobj Hk Hf Hna Hsa.
  pose proof (schema_target_cases _ (check_target_valid _ _ Hchk)) as Hcases.
  assert (Hnok : forall s, zlen s <= 65535 -> notation_ok (NString s) = true) by (intros; apply string_ok_le; assumption).
  assert (Hnl : notation_ok (NStringList args) = true) by (apply string_list_nok; assumption).
  assert (Hnil : notation_ok (NString []) = true) by reflexivity.
  unfold sc_bytes.
  destruct Hcases as [E|[E|[E|[E|E]]]]; apply (string_of_bytes_eq_const tgt _ Hb) in E; subst tgt;
    revert Hchk Hk Hf; unfold CheckValidSchemaChangeTarget, SchemaChangeTarget_IsValid, ProtocolVersion_SupportsSchemaChangeTarget;
    destruct (supported_cases _ Hv) as [->|[->|[->|[->|[->| ->]]]]]; unfold spec_schema_change; eval_tests;
    cbn [orb andb negb is_ok]; intros Hchk Hk Hf; try discriminate Hchk;
    try (rewrite (Hk eq_refl) in * ); try (rewrite (Hf eq_refl) in * ); cbn [SpecMsg.nonempty negb andb];
    eexists; (split; [reflexivity|]); (split; [cbn [forallb]; rewrite ?(Hnok ct Hct), ?(Hnok ks Hks), ?(Hnok obj Hobj), ?Hnl, ?Hnil; reflexivity|]);
    sers; reflexivity.
Qed.

Lemma agree_SchemaChangeEvent v m : supported v -> SchemaChangeEvent_okb v m = true ->
  spec_body_bytes v (M_SchemaChangeEvent m) = Some (bytes_SchemaChangeEvent v m).
Proof.
  intros Hv H. destruct m as [ct tgt ks obj args]. unfold SchemaChangeEvent_okb in H.
  cbn [sce_ChangeType sce_Target sce_Keyspace sce_Object sce_Arguments] in H. cbv zeta in H. split_okb H.
  match goal with Hx : bytes_okb tgt = true |- _ => apply bytes_okb_ok in Hx; rename Hx into Hb end.
  match goal with Hx : is_ok _ = true |- _ => rename Hx into Hchk end.
  match goal with Hx : (if target_is _ _ then _ else _) = true |- _ => rename Hx into Hcase end.
  pose proof (schema_change_type_len _ H) as Hct.
  unfold target_is in Hcase.
  destruct (schema_change_spec v ct tgt ks obj args Hv Hb Hchk Hct) as (ns & E1 & E2 & E3).
  - apply str16_ok; assumption.
  - destruct (str_is tgt SchemaChangeTargetKeyspace).
    + apply andb_prop in Hcase. destruct Hcase as [Ho _]. apply bytes_is_empty_iff in Ho. subst obj. apply zlen_nil_small.
    + destruct (str_is tgt SchemaChangeTargetTable || str_is tgt SchemaChangeTargetType); split_okb Hcase; apply str16_ok; assumption.
  - intro Ek. rewrite Ek in Hcase. apply andb_prop in Hcase. destruct Hcase as [Ho _]. apply bytes_is_empty_iff in Ho. exact Ho.
  - intro Ef.
    pose proof (schema_target_cases _ (check_target_valid _ _ Hchk)) as Hcases.
    destruct (str_is tgt SchemaChangeTargetKeyspace) eqn:Ek.
    + apply andb_prop in Hcase. destruct Hcase as [_ Ha]. apply is_nil_ok in Ha. exact Ha.
    + destruct (str_is tgt SchemaChangeTargetTable || str_is tgt SchemaChangeTargetType) eqn:Et.
      * split_okb Hcase. apply is_nil_ok. assumption.
      * exfalso. apply orb_false_elim in Ef. destruct Ef as [Ef1 Ef2]. apply orb_false_elim in Et. destruct Et as [Et1 Et2].
        unfold str_is in *.
        destruct Hcases as [E|[E|[E|[E|E]]]]; rewrite E in *;
          first [ rewrite String.eqb_refl in Ek; discriminate | rewrite String.eqb_refl in Et1; discriminate
                | rewrite String.eqb_refl in Et2; discriminate | rewrite String.eqb_refl in Ef1; discriminate
                | rewrite String.eqb_refl in Ef2; discriminate ].
  - destruct (str_is tgt SchemaChangeTargetKeyspace).
    + apply andb_prop in Hcase. destruct Hcase as [_ Ha]. apply is_nil_ok in Ha. subst args. discriminate.
    + destruct (str_is tgt SchemaChangeTargetTable || str_is tgt SchemaChangeTargetType).
      * split_okb Hcase. match goal with Hx : is_nil args = true |- _ => apply is_nil_ok in Hx; subst args end. discriminate.
      * split_okb Hcase. match goal with Hx : strs16 args = true |- _ => apply strs16_ok in Hx; destruct Hx; assumption end.
  - destruct (str_is tgt SchemaChangeTargetKeyspace).
    + apply andb_prop in Hcase. destruct Hcase as [_ Ha]. apply is_nil_ok in Ha. subst args. constructor.
    + destruct (str_is tgt SchemaChangeTargetTable || str_is tgt SchemaChangeTargetType).
      * split_okb Hcase. match goal with Hx : is_nil args = true |- _ => apply is_nil_ok in Hx; subst args end. constructor.
      * split_okb Hcase. match goal with Hx : strs16 args = true |- _ => apply strs16_ok in Hx; destruct Hx; assumption end.
  - apply spec_bytes_intro with (l := NString s_SCHEMA_CHANGE :: ns).
    + raw_head Hv. unfold spec_schema_change_event. cbn [sce_ChangeType sce_Target sce_Keyspace sce_Object sce_Arguments]. rewrite E1. reflexivity.
    + cbn [forallb]. rewrite E2. reflexivity.
    + rewrite ser_all_cons, E3. reflexivity.
Qed.
