(* The regenerated capability predicates agree with the hand-transcribed specification tables (C19). *)
From Coq Require Import ZArith List String Bool.
From GCNP Require Import base.GoInt base.CodeTypes gen.Constants_gen spec.SpecTables model.Capability.
Import ListNotations.
Open Scope Z_scope.

Lemma capability_tables_agree : forallb snd capability_checks = true.
Proof. vm_compute. reflexivity. Qed.

(* predicates are total on every version byte: every predicate is a Gallina function, so the only
   content is that unsupported version numbers are recognised as unsupported *)
Lemma unsupported_versions_rejected :
  forall v : Z, ProtocolVersion_IsSupported v = true -> In v spec_versions.
Proof.
  intros v H.
  assert (E : existsb (Z.eqb v) spec_versions = true).
  { revert H. cbv -[Z.eqb].
    repeat match goal with
    | |- context [Z.eqb v ?k] => destruct (Z.eqb_spec v k) as [->|?]; [ intros _; vm_compute; reflexivity | ]
    end.
    intro H; discriminate H. }
  apply existsb_exists in E. destruct E as [x [Hx He]]. apply Z.eqb_eq in He. subst. exact Hx.
Qed.
