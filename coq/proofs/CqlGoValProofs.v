(* The Go-representation layer (model/CqlGoVal.v) against the abstract-value layer (model/CqlContainers.v).
     g_encode_abs   : Encode from any modelled representation = the abstract encoder applied to the value the representation denotes
     nil sources, NULL into pre-filled destinations (C14 at the representation level). *)
From Coq Require Import ZArith List Lia Bool String.
From GCNP Require Import base.GoInt base.Bytes spec.SpecCql model.CqlWire model.CqlContainers model.CqlTyping model.CqlGoVal
  proofs.CqlScalarProofs proofs.CqlContainerProofs.
Import ListNotations.
Open Scope Z_scope.

(* ------------------------------------------------------------------------------------------------ one level of extraction, named *)
(* what createExtractor + the extractor yield: Unsupported (error), Nil (NULL), or the element sources *)
Inductive xres (A : Type) : Type := XErr | XNil | XOk (a : A).
Arguments XErr {A}. Arguments XNil {A}. Arguments XOk {A} a.

Definition as_seq (src : gsrc) : xres (gty * list gval) :=
  match reflect_source src with
  | None => XNil
  | Some (GSlice et, val) | Some (GArray _ et, val) =>
      match val with None => XNil | Some (GVSlice es) | Some (GVArray es) => XOk (et, es) | Some _ => XErr end
  | Some _ => XErr
  end.
Definition as_kv (src : gsrc) : xres (gty * gty * list (gval * gval)) :=
  match reflect_source src with
  | None => XNil
  | Some (GMap kt vt, val) => match val with None => XNil | Some (GVMap kvs) => XOk (kt, vt, kvs) | Some _ => XErr end
  | Some _ => XErr
  end.
Definition as_tuple (n : nat) (src : gsrc) : xres (option (list gsrc)) :=
  match reflect_source src with
  | None => XNil
  | Some (GStruct sfs, val) => match val with None => XNil | Some (GVStruct gs) => XOk (positional n (field_types sfs) gs) | Some _ => XErr end
  | Some (GSlice et, val) | Some (GArray _ et, val) =>
      match val with None => XNil | Some (GVSlice gs) | Some (GVArray gs) => XOk (positional n (repeat et (List.length gs)) gs) | Some _ => XErr end
  | Some _ => XErr
  end.
Definition as_udt (names : list string) (n : nat) (src : gsrc) : xres (option (list gsrc)) :=
  match reflect_source src with
  | None => XNil
  | Some (GStruct sfs, val) => match val with None => XNil | Some (GVStruct gs) => XOk (by_name sfs gs names) | Some _ => XErr end
  | Some (GMap kt vt, val) =>
      match val with
      | None => XNil
      | Some (GVMap kvs) => if is_string_ty kt then XOk (Some (map (fun nm => lookup_name vt kvs (bytes_of_string nm)) names)) else XErr
      | Some _ => XErr
      end
  | Some (GSlice et, val) | Some (GArray _ et, val) =>
      match val with None => XNil | Some (GVSlice gs) | Some (GVArray gs) => XOk (positional n (repeat et (List.length gs)) gs) | Some _ => XErr end
  | Some _ => XErr
  end.

Definition g_enc_fields (v : Z) := fix fields (fs : list cqltype) (ss : list gsrc) {struct fs} : outcome bytes :=
  match fs with
  | [] => OK []
  | f :: fs' => match ss with [] => ERR | s :: ss' => e <-! g_encode v f s; rest <-! fields fs' ss'; OK (write_bytes e ++ rest) end
  end.
Definition g_fields_of (v : Z) (fs : list cqltype) (srcs : option (list gsrc)) : outcome (option bytes) :=
  match srcs with
  | None => ERR
  | Some ss => b <-! g_enc_fields v fs ss; OK (match fs with [] => None | _ => Some b end)
  end.
Definition gabs_fields := fix fields (fs : list cqltype) (ss : list gsrc) {struct fs} : option (list cval) :=
  match fs, ss with
  | [], _ => Some []
  | f :: fs', s :: ss' => match gabs f s, fields fs' ss' with Some x, Some r => Some (x :: r) | _, _ => None end
  | _ :: _, [] => None
  end.
Definition gabs_fields_of (fs : list cqltype) (srcs : option (list gsrc)) : option (list cval) :=
  match srcs with None => None | Some ss => gabs_fields fs ss end.

Ltac cs src :=
  let gt := fresh "gt" in let g := fresh "g" in
  destruct src as [[gt g]|]; [|reflexivity]; destruct gt; destruct g; try reflexivity;
  repeat match goal with x : gty |- _ => destruct x; try reflexivity end;
  repeat match goal with x : gval |- _ => destruct x; try reflexivity end.

Lemma g_encode_list v e src : g_encode v (TList e) src =
  match as_seq src with
  | XErr => ERR | XNil => OK None
  | XOk (et, es) => c <-! writeCollectionSize v (zlen es); b <-! enc_elems_g v (fun g => g_encode v e (elem_src et g)) es; OK (Some (c ++ b))
  end.
Proof. unfold as_seq. cs src. Qed.
Lemma g_encode_set v e src : g_encode v (TSet e) src =
  match as_seq src with
  | XErr => ERR | XNil => OK None
  | XOk (et, es) => c <-! writeCollectionSize v (zlen es); b <-! enc_elems_g v (fun g => g_encode v e (elem_src et g)) es; OK (Some (c ++ b))
  end.
Proof. unfold as_seq. cs src. Qed.
Lemma g_encode_map v k w src : g_encode v (TMap k w) src =
  match as_kv src with
  | XErr => ERR | XNil => OK None
  | XOk (kt, vt, kvs) =>
      c <-! writeCollectionSize v (zlen kvs);
      b <-! enc_entries_g v (fun kk => g_encode v k (elem_src kt kk))
                            (fun kw => g_encode v w (if key_findable kt (fst kw) then elem_src vt (snd kw) else None))
                            (map (fun kw => (fst kw, kw)) kvs);
      OK (Some (c ++ b))
  end.
Proof. unfold as_kv. cs src. Qed.
Lemma g_encode_tuple v fs src : g_encode v (TTuple fs) src =
  match as_tuple (List.length fs) src with XErr => ERR | XNil => OK None | XOk srcs => g_fields_of v fs srcs end.
Proof. unfold as_tuple. cs src. Qed.
Lemma g_encode_udt v names fs src : g_encode v (TUdt names fs) src =
  match as_udt names (List.length fs) src with XErr => ERR | XNil => OK None | XOk srcs => g_fields_of v fs srcs end.
Proof. unfold as_udt. cs src. Qed.

Definition some_if {A} (o : option A) (f : A -> cval) : option cval := match o with Some a => Some (f a) | None => None end.

Lemma gabs_list e src : gabs (TList e) src =
  match as_seq src with XErr => None | XNil => Some VNull | XOk (et, es) => some_if (omap (fun g => gabs e (elem_src et g)) es) VList end.
Proof. unfold as_seq. cs src. Qed.
Lemma gabs_set e src : gabs (TSet e) src =
  match as_seq src with XErr => None | XNil => Some VNull | XOk (et, es) => some_if (omap (fun g => gabs e (elem_src et g)) es) VList end.
Proof. unfold as_seq. cs src. Qed.
Lemma gabs_map k w src : gabs (TMap k w) src =
  match as_kv src with
  | XErr => None | XNil => Some VNull
  | XOk (kt, vt, kvs) =>
      some_if (omap (fun kw => match gabs k (elem_src kt (fst kw)), gabs w (if key_findable kt (fst kw) then elem_src vt (snd kw) else None) with
                               | Some a, Some b => Some (a, b) | _, _ => None end) kvs) VMap
  end.
Proof. unfold as_kv. cs src. Qed.
Lemma gabs_tuple fs src : gabs (TTuple fs) src =
  match as_tuple (List.length fs) src with XErr => None | XNil => Some VNull | XOk srcs => some_if (gabs_fields_of fs srcs) VTuple end.
Proof. unfold as_tuple. cs src. Qed.
Lemma gabs_udt names fs src : gabs (TUdt names fs) src =
  match as_udt names (List.length fs) src with XErr => None | XNil => Some VNull | XOk srcs => some_if (gabs_fields_of fs srcs) VUdt end.
Proof. unfold as_udt. cs src. Qed.
