(* The Go-representation layer (model/CqlGoVal.v) against the abstract-value layer (model/CqlContainers.v).
     g_encode_abs   : Encode from any modelled representation = the abstract encoder applied to the value the representation denotes
     nil sources, NULL into pre-filled destinations (C14 at the representation level). *)
From Coq Require Import ZArith List Lia Bool String.
From GCNP Require Import base.GoInt base.Bytes spec.SpecCql model.CqlWire model.CqlContainers model.CqlTyping model.CqlGoVal
  proofs.CqlScalarProofs proofs.CqlContainerProofs.
Import ListNotations.
Open Scope Z_scope.

(* ------------------------------------------------------------------------------------------------ one level of extraction, named *)
(* what createExtractor + the extractor yield: Unsupported (error), Nil (NULL), or the element sources *)
Inductive xres (A : Type) : Type := XErr | XNil | XOk (a : A).
Arguments XErr {A}. Arguments XNil {A}. Arguments XOk {A} a.

Definition as_seq (src : gsrc) : xres (gty * list gval) :=
  match reflect_source src with
  | None => XNil
  | Some (GSlice et, val) | Some (GArray _ et, val) =>
      match val with None => XNil | Some (GVSlice es) | Some (GVArray es) => XOk (et, es) | Some _ => XErr end
  | Some _ => XErr
  end.
Definition as_kv (src : gsrc) : xres (gty * gty * list (gval * gval)) :=
  match reflect_source src with
  | None => XNil
  | Some (GMap kt vt, val) => match val with None => XNil | Some (GVMap kvs) => XOk (kt, vt, kvs) | Some _ => XErr end
  | Some _ => XErr
  end.
Definition as_tuple (n : nat) (src : gsrc) : xres (option (list gsrc)) :=
  match reflect_source src with
  | None => XNil
  | Some (GStruct sfs, val) => match val with None => XNil | Some (GVStruct gs) => XOk (positional n (field_types sfs) gs) | Some _ => XErr end
  | Some (GSlice et, val) | Some (GArray _ et, val) =>
      match val with None => XNil | Some (GVSlice gs) | Some (GVArray gs) => XOk (positional n (repeat et (List.length gs)) gs) | Some _ => XErr end
  | Some _ => XErr
  end.
Definition as_udt (names : list string) (n : nat) (src : gsrc) : xres (option (list gsrc)) :=
  match reflect_source src with
  | None => XNil
  | Some (GStruct sfs, val) => match val with None => XNil | Some (GVStruct gs) => XOk (by_name sfs gs names) | Some _ => XErr end
  | Some (GMap kt vt, val) =>
      match val with
      | None => XNil
      | Some (GVMap kvs) => if is_string_ty kt then XOk (Some (map (fun nm => lookup_name vt kvs (bytes_of_string nm)) names)) else XErr
      | Some _ => XErr
      end
  | Some (GSlice et, val) | Some (GArray _ et, val) =>
      match val with None => XNil | Some (GVSlice gs) | Some (GVArray gs) => XOk (positional n (repeat et (List.length gs)) gs) | Some _ => XErr end
  | Some _ => XErr
  end.

Definition g_enc_fields (v : Z) := fix fields (fs : list cqltype) (ss : list gsrc) {struct fs} : outcome bytes :=
  match fs with
  | [] => OK []
  | f :: fs' => match ss with [] => ERR | s :: ss' => e <-! g_encode v f s; rest <-! fields fs' ss'; OK (write_bytes e ++ rest) end
  end.
Definition g_fields_of (v : Z) (fs : list cqltype) (srcs : option (list gsrc)) : outcome (option bytes) :=
  match srcs with
  | None => ERR
  | Some ss => b <-! g_enc_fields v fs ss; OK (match fs with [] => None | _ => Some b end)
  end.
Definition gabs_fields := fix fields (fs : list cqltype) (ss : list gsrc) {struct fs} : option (list cval) :=
  match fs, ss with
  | [], _ => Some []
  | f :: fs', s :: ss' => match gabs f s, fields fs' ss' with Some x, Some r => Some (x :: r) | _, _ => None end
  | _ :: _, [] => None
  end.
Definition gabs_fields_of (fs : list cqltype) (srcs : option (list gsrc)) : option (list cval) :=
  match srcs with None => None | Some ss => gabs_fields fs ss end.

Ltac fin := first [reflexivity | (cbn; match goal with |- context [is_string_ty ?k] => destruct (is_string_ty k); reflexivity end)].
Ltac cs src :=
  let gt := fresh "gt" in let g := fresh "g" in let t0 := fresh "t0" in let p := fresh "p" in
  destruct src as [[gt g]|]; [|reflexivity];
  destruct gt as [? ?|t0|?|? ?|? ?|?| |?];
  [ destruct g; fin
  | destruct g as [?| |p|?|?|?| |?|?| |? ?]; try reflexivity;
    [ destruct t0; fin | destruct t0; destruct p; fin ]
  | destruct g; fin | destruct g; fin | destruct g; fin | destruct g; fin | destruct g; fin | destruct g; fin ].

Lemma g_encode_list v e src : g_encode v (TList e) src =
  match as_seq src with
  | XErr => ERR | XNil => OK None
  | XOk (et, es) => c <-! writeCollectionSize v (zlen es); b <-! enc_elems_g v (fun g => g_encode v e (elem_src et g)) es; OK (Some (c ++ b))
  end.
Proof. unfold as_seq. cs src. Qed.
Lemma g_encode_set v e src : g_encode v (TSet e) src =
  match as_seq src with
  | XErr => ERR | XNil => OK None
  | XOk (et, es) => c <-! writeCollectionSize v (zlen es); b <-! enc_elems_g v (fun g => g_encode v e (elem_src et g)) es; OK (Some (c ++ b))
  end.
Proof. unfold as_seq. cs src. Qed.
Lemma g_encode_map v k w src : g_encode v (TMap k w) src =
  match as_kv src with
  | XErr => ERR | XNil => OK None
  | XOk (kt, vt, kvs) =>
      c <-! writeCollectionSize v (zlen kvs);
      b <-! enc_entries_g v (fun kk => g_encode v k (elem_src kt kk))
                            (fun kw => g_encode v w (if key_findable kt (fst kw) then elem_src vt (snd kw) else None))
                            (map (fun kw => (fst kw, kw)) kvs);
      OK (Some (c ++ b))
  end.
Proof. unfold as_kv. cs src. Qed.
Lemma g_encode_tuple v fs src : g_encode v (TTuple fs) src =
  match as_tuple (List.length fs) src with XErr => ERR | XNil => OK None | XOk srcs => g_fields_of v fs srcs end.
Proof. unfold as_tuple. cs src. Qed.
Lemma g_encode_udt v names fs src : g_encode v (TUdt names fs) src =
  match as_udt names (List.length fs) src with XErr => ERR | XNil => OK None | XOk srcs => g_fields_of v fs srcs end.
Proof. unfold as_udt. cs src. Qed.

Definition some_if {A} (o : option A) (f : A -> cval) : option cval := match o with Some a => Some (f a) | None => None end.

Lemma gabs_list e src : gabs (TList e) src =
  match as_seq src with XErr => None | XNil => Some VNull | XOk (et, es) => some_if (omap (fun g => gabs e (elem_src et g)) es) VList end.
Proof. unfold as_seq. cs src. Qed.
Lemma gabs_set e src : gabs (TSet e) src =
  match as_seq src with XErr => None | XNil => Some VNull | XOk (et, es) => some_if (omap (fun g => gabs e (elem_src et g)) es) VList end.
Proof. unfold as_seq. cs src. Qed.
Lemma gabs_map k w src : gabs (TMap k w) src =
  match as_kv src with
  | XErr => None | XNil => Some VNull
  | XOk (kt, vt, kvs) =>
      some_if (omap (fun kw => match gabs k (elem_src kt (fst kw)), gabs w (if key_findable kt (fst kw) then elem_src vt (snd kw) else None) with
                               | Some a, Some b => Some (a, b) | _, _ => None end) kvs) VMap
  end.
Proof. unfold as_kv. cs src. Qed.
Lemma gabs_tuple fs src : gabs (TTuple fs) src =
  match as_tuple (List.length fs) src with XErr => None | XNil => Some VNull | XOk srcs => some_if (gabs_fields_of fs srcs) VTuple end.
Proof. unfold as_tuple. cs src. Qed.
Lemma gabs_udt names fs src : gabs (TUdt names fs) src =
  match as_udt names (List.length fs) src with XErr => None | XNil => Some VNull | XOk srcs => some_if (gabs_fields_of fs srcs) VUdt end.
Proof. unfold as_udt. cs src. Qed.

(* ------------------------------------------------------------------------------------------------ Encode from a representation *)
Lemma omap_cons {A B} (f : A -> option B) a l r : omap f (a :: l) = Some r -> exists b r', f a = Some b /\ omap f l = Some r' /\ r = b :: r'.
Proof.
  cbn. destruct (f a) as [b|]; [|discriminate]. fold (omap f l). destruct (omap f l) as [r'|]; [|discriminate].
  intro H. injection H as <-. eauto.
Qed.
Lemma omap_length {A B} (f : A -> option B) l : forall r, omap f l = Some r -> zlen r = zlen l.
Proof.
  induction l as [|a l IH]; intros r H.
  - cbn in H. injection H as <-. reflexivity.
  - apply omap_cons in H. destruct H as (b & r' & _ & Hr & ->). rewrite !zlen_cons, (IH r' Hr). reflexivity.
Qed.

Lemma enc_elems_g_omap {A} v (f : A -> option cval) (encg : A -> outcome (option bytes)) (enc : cval -> outcome (option bytes)) :
  (forall a x, f a = Some x -> encg a = enc x) ->
  forall l xs, omap f l = Some xs -> enc_elems_g v encg l = enc_elems v enc xs.
Proof.
  intros Hf l. induction l as [|a l IH]; intros xs H.
  - cbn in H. injection H as <-. reflexivity.
  - apply omap_cons in H. destruct H as (b & r' & Ha & Hr & ->). cbn [enc_elems_g enc_elems].
    rewrite (Hf a b Ha), (IH r' Hr). reflexivity.
Qed.

Lemma some_if_some {A} (o : option A) f x : some_if o f = Some x -> exists a, o = Some a /\ x = f a.
Proof. destruct o; cbn; intro H; [injection H as <-; eauto|discriminate]. Qed.

Definition EA (v : Z) (t : cqltype) : Prop := forall src x, gabs t src = Some x -> g_encode v t src = m_encode v t x.

Lemma ea_fields v fs : Forall (EA v) fs -> forall ss xs, gabs_fields fs ss = Some xs -> g_enc_fields v fs ss = enc_fields (m_encode v) fs xs.
Proof.
  intro H. induction H as [|f fs' Hf Hfs IH]; intros ss xs Hx.
  - destruct ss; cbn in Hx; injection Hx as <-; reflexivity.
  - destruct ss as [|s ss']; [discriminate|]. cbn [gabs_fields] in Hx.
    destruct (gabs f s) as [x|] eqn:Ex; [|discriminate]. destruct (gabs_fields fs' ss') as [r|] eqn:Er; [|discriminate].
    injection Hx as <-. cbn [g_enc_fields enc_fields]. rewrite (Hf s x Ex), (IH ss' r Er). reflexivity.
Qed.

Theorem g_encode_abs v t : forall src x, gabs t src = Some x -> g_encode v t src = m_encode v t x.
Proof.
  change (EA v t). induction t using cqltype_ind2; intros src x Hx.
  - (* scalar *)
    rewrite m_encode_scalar. destruct src as [[gt g]|]; [|cbn in Hx; injection Hx as <-; reflexivity].
    destruct gt as [s0 k|t0|?|? ?|? ?|?| |?]; try discriminate Hx.
    + destruct g; try discriminate Hx. cbn in Hx |- *. destruct (scalar_eqb s s0); [|discriminate]. injection Hx as <-. reflexivity.
    + destruct t0; try discriminate Hx. destruct g as [?| |p|?|?|?| |?|?| |? ?]; try discriminate Hx.
      * cbn in Hx |- *. destruct (scalar_eqb s s0); [|discriminate]. injection Hx as <-. reflexivity.
      * destruct p; try discriminate Hx. cbn in Hx |- *. destruct (scalar_eqb s s0); [|discriminate]. injection Hx as <-. reflexivity.
  - (* list *)
    rewrite gabs_list in Hx. rewrite g_encode_list. destruct (as_seq src) as [| |[et es]]; [discriminate|injection Hx as <-; reflexivity|].
    apply some_if_some in Hx. destruct Hx as (xs & Hxs & ->).
    change (m_encode v (TList t) (VList xs)) with (c <-! writeCollectionSize v (zlen xs); b <-! enc_elems v (m_encode v t) xs; OK (Some (c ++ b))).
    rewrite (omap_length _ _ _ Hxs).
    rewrite (enc_elems_g_omap v (fun g => gabs t (elem_src et g)) _ (m_encode v t) (fun a y => IHt (elem_src et a) y) es xs Hxs). reflexivity.
  - (* set *)
    rewrite gabs_set in Hx. rewrite g_encode_set. destruct (as_seq src) as [| |[et es]]; [discriminate|injection Hx as <-; reflexivity|].
    apply some_if_some in Hx. destruct Hx as (xs & Hxs & ->).
    change (m_encode v (TSet t) (VList xs)) with (c <-! writeCollectionSize v (zlen xs); b <-! enc_elems v (m_encode v t) xs; OK (Some (c ++ b))).
    rewrite (omap_length _ _ _ Hxs).
    rewrite (enc_elems_g_omap v (fun g => gabs t (elem_src et g)) _ (m_encode v t) (fun a y => IHt (elem_src et a) y) es xs Hxs). reflexivity.
  - (* map *)
    rewrite gabs_map in Hx. rewrite g_encode_map. destruct (as_kv src) as [| |[[kt vt] kvs]]; [discriminate|injection Hx as <-; reflexivity|].
    apply some_if_some in Hx. destruct Hx as (ps & Hps & ->).
    change (m_encode v (TMap t1 t2) (VMap ps)) with
      (c <-! writeCollectionSize v (zlen ps); b <-! enc_entries v (m_encode v t1) (m_encode v t2) ps; OK (Some (c ++ b))).
    rewrite (omap_length _ _ _ Hps). f_equal.
    assert (E: enc_entries_g v (fun kk => g_encode v t1 (elem_src kt kk))
                 (fun kw => g_encode v t2 (if key_findable kt (fst kw) then elem_src vt (snd kw) else None))
                 (map (fun kw => (fst kw, kw)) kvs) = enc_entries v (m_encode v t1) (m_encode v t2) ps).
    { clear -IHt1 IHt2 Hps. revert ps Hps. induction kvs as [|[kk ww] r IHr]; intros ps Hps.
      - cbn in Hps. injection Hps as <-. reflexivity.
      - apply omap_cons in Hps. destruct Hps as (b & r' & Ha & Hr & ->). cbn [fst snd] in Ha.
        destruct (gabs t1 (elem_src kt kk)) as [a|] eqn:Ea; [|discriminate].
        destruct (gabs t2 (if key_findable kt kk then elem_src vt ww else None)) as [c|] eqn:Ec; [|discriminate].
        injection Ha as <-. cbn [map enc_entries_g enc_entries fst snd].
        rewrite (IHt1 _ _ Ea), (IHt2 _ _ Ec), (IHr r' Hr). reflexivity. }
    rewrite E. reflexivity.
  - (* tuple *)
    rewrite gabs_tuple in Hx. rewrite g_encode_tuple. destruct (as_tuple (List.length fs) src) as [| |srcs]; [discriminate|injection Hx as <-; reflexivity|].
    apply some_if_some in Hx. destruct Hx as (xs & Hxs & ->). destruct srcs as [ss|]; [|discriminate]. cbn [gabs_fields_of] in Hxs.
    rewrite m_encode_tuple. cbn [g_fields_of]. rewrite (ea_fields v fs H ss xs Hxs). reflexivity.
  - (* udt *)
    rewrite gabs_udt in Hx. rewrite g_encode_udt. destruct (as_udt names (List.length fs) src) as [| |srcs]; [discriminate|injection Hx as <-; reflexivity|].
    apply some_if_some in Hx. destruct Hx as (xs & Hxs & ->). destruct srcs as [ss|]; [|discriminate]. cbn [gabs_fields_of] in Hxs.
    rewrite m_encode_udt. cbn [g_fields_of]. rewrite (ea_fields v fs H ss xs Hxs). reflexivity.
Qed.

(* ------------------------------------------------------------------------------------------------ C14 at the representation level *)
(* the Go kinds the codec of a CQL type accepts (createExtractor / createInjector kind switches; leaf types of the scalar's codec) *)
Definition accepts (t : cqltype) (gt : gty) : bool :=
  match t, gt with
  | TScalar s, GLeaf s' _ => scalar_eqb s s'
  | TList _, GSlice _ | TList _, GArray _ _ | TSet _, GSlice _ | TSet _, GArray _ _ => true
  | TMap _ _, GMap _ _ => true
  | TTuple _, GStruct _ | TTuple _, GSlice _ | TTuple _, GArray _ _ => true
  | TUdt _ _, GStruct _ | TUdt _ _, GSlice _ | TUdt _ _, GArray _ _ | TUdt _ _, GMap _ _ => true
  | _, _ => false
  end.
Definition accepts_dest (t : cqltype) (gt : gty) : bool := match gt with GIface => true | _ => accepts t gt end.

(* every nil a modelled source type has: untyped nil, nil pointer, nil slice, nil map, pointer to a nil slice / map, nil slice-kind leaf *)
Definition nil_forms (gt : gty) : list gsrc :=
  [None; Some (GPtr gt, GVNilPtr)] ++
  match gt with
  | GSlice _ => [Some (gt, GVNilSlice); Some (GPtr gt, GVPtr GVNilSlice)]
  | GMap _ _ => [Some (gt, GVNilMap); Some (GPtr gt, GVPtr GVNilMap)]
  | GLeaf _ LSlice => [Some (gt, GVLeaf VNull); Some (GPtr gt, GVPtr (GVLeaf VNull))]
  | _ => []
  end.

Theorem nil_sources_encode_null v t gt : accepts t gt = true -> Forall (fun src => g_encode v t src = OK None) (nil_forms gt).
Proof.
  intro H. destruct t; destruct gt; try discriminate H; unfold nil_forms; cbn [app];
    repeat (constructor; try reflexivity);
    try (cbn in H |- *; rewrite H; try reflexivity).
  all: try (destruct k; repeat (constructor; try reflexivity); cbn in H |- *; rewrite H; reflexivity).
Qed.

Lemma scalar_eqb_refl s : scalar_eqb s s = true. Proof. destruct s; reflexivity. Qed.

Theorem null_into_prefilled v t gt d : accepts_dest t gt = true -> g_decode v t gt d None = OK (true, gzero gt).
Proof.
  intro H. unfold g_decode. destruct t; destruct gt; try discriminate H; try reflexivity.
  - cbn in H |- *. rewrite H, dec_scalar_none. reflexivity.
  - cbn. rewrite dec_scalar_none. reflexivity.
Qed.

Theorem empty_into_prefilled v t gt d : accepts_dest t gt = true -> string_type t = false -> g_decode v t gt d (Some []) = OK (true, gzero gt).
Proof.
  intros H Hs. unfold g_decode. destruct t; destruct gt; try discriminate H; try reflexivity.
  - cbn in H |- *. rewrite H, dec_scalar_empty. cbn in Hs. rewrite Hs. reflexivity.
  - cbn. rewrite dec_scalar_empty. cbn in Hs. rewrite Hs. reflexivity.
Qed.

(* ------------------------------------------------------------------------------------------------ Decode into a representation *)
Definition isnull (x : cval) : bool := match x with VNull => true | _ => false end.
(* static types whose zero value denotes NULL *)
Definition nilable (t : gty) : bool := match t with GSlice _ | GMap _ _ | GIface | GLeaf _ LSlice => true | _ => false end.

(* [fits t gt x]: the non-null abstract value x of CQL type t can be held by a destination variable of Go type gt, for the
   destination kinds covered by the decode theorem below: every scalar leaf, slices, arrays, []interface{} / interface{} (preferred
   types), structs and slices / arrays for tuples, slices / arrays for UDTs.  Not covered here (correspondence run only): map destinations, UDT into struct-by-name or map[string]V. *)
Definition fits_el (e : cqltype) (fit : gty -> cval -> Prop) (et : gty) (x : cval) : Prop :=
  match et with
  | GPtr t' => if isnull x then accepts e t' = true else (accepts e t' = true /\ fit t' x)
  | _ => if isnull x then (nilable et = true /\ accepts_dest e et = true) else fit et x
  end.

Fixpoint fits (t : cqltype) (gt : gty) (x : cval) {struct t} : Prop :=
  let fits_fields (fs : list cqltype) (ets : list gty) (xs : list cval) : Prop :=
    (fix go (fs : list cqltype) (ets : list gty) (xs : list cval) {struct fs} : Prop :=
       match fs, ets, xs with
       | [], _, [] => True
       | f :: fs', et :: ets', x :: xs' => fits_el f (fits f) et x /\ go fs' ets' xs'
       | _, _, _ => False
       end) fs ets xs in
  match t with
  | TScalar s =>
      match x with VList _ | VMap _ | VTuple _ | VUdt _ | VNull => False | _ => True end /\
      match gt with GLeaf s' _ => scalar_eqb s s' = true | GIface => True | _ => False end
  | TList e | TSet e =>
      match x with
      | VList xs =>
          match gt with
          | GSlice et => Forall (fits_el e (fits e) et) xs
          | GArray n et => List.length xs = n /\ Forall (fits_el e (fits e) et) xs
          | GIface => Forall (fits_el e (fits e) (ensure_nillable (pref e))) xs
          | _ => False
          end
      | _ => False
      end
  | TMap _ _ => False                                                 (* map destinations: covered by the correspondence run only *)
  | TTuple fs =>
      match x with
      | VTuple xs =>
          match gt with
          | GStruct sfs => fits_fields fs (field_types sfs) xs
          | GSlice et => fits_fields fs (repeat et (List.length fs)) xs
          | GArray m et => (List.length fs <= m)%nat /\ fits_fields fs (repeat et m) xs
          | GIface => fits_fields fs (repeat GIface (List.length fs)) xs
          | _ => False
          end
      | _ => False
      end
  | TUdt names fs =>
      match x with
      | VUdt xs =>
          match gt with
          | GSlice et => fits_fields fs (repeat et (List.length fs)) xs
          | GArray m et => (List.length fs <= m)%nat /\ fits_fields fs (repeat et m) xs
          | _ => False
          end
      | _ => False
      end
  end.


(* named nested loops of dec_var *)
Definition dec_fields_g (v : Z) (udt : bool) := fix go (fs : list cqltype) (ets : list gty) (src : bytes) {struct fs} : outcome (list gval * bytes) :=
  match fs with
  | [] => OK ([], src)
  | f :: fs' =>
      match ets with
      | [] => ERR
      | et :: ets' =>
          e <-! (match udt, src with true, [] => OK (None, []) | _, _ => read_bytes src end);
          y <-! dec_elem_with (dec_var v f) et (fst e);
          rest <-! go fs' ets' (snd e); OK (y :: fst rest, snd rest)
      end
  end.
Definition g_fields (v : Z) (udt : bool) (fs : list cqltype) (ets : list gty) (src : bytes) : outcome (list gval) :=
  r <-! dec_fields_g v udt fs ets src; all_read r.
Definition seq_body (v : Z) (e : cqltype) (et : gty) (src : option bytes) : outcome (Z * list gval) :=
  r <-! readCollectionSize v (src_bytes src);
  let (size, rest) := r in
  if size <? 0 then ERR
  else es <-! dec_elems_g v (dec_elem_with (dec_var v e) et) (S (List.length rest)) size rest; ys <-! all_read es; OK (size, ys).

Lemma dec_var_list v e gt d src : dec_var v (TList e) gt d src =
  let wasNull := src_len src =? 0 in
  match gt with
  | GSlice et => if wasNull then OK (true, GVNilSlice) else r <-! seq_body v e et src; OK (false, GVSlice (snd r))
  | GArray n et => if wasNull then OK (true, gzero gt)
                   else r <-! seq_body v e et src; if Z.of_nat n <? fst r then ERR else OK (false, GVArray (snd r ++ skipn (List.length (snd r)) (arr_elems d)))
  | GIfaceN true => if wasNull then OK (true, GVNilIface) else ERR
  | GIface | GIfaceN false => if wasNull then OK (true, GVNilIface)
              else let et := ensure_nillable (pref e) in r <-! seq_body v e et src; OK (false, GVIface (GSlice et) (GVSlice (snd r)))
  | _ => ERR
  end.
Proof. destruct gt; try (match goal with m : bool |- _ => destruct m end); reflexivity. Qed.
Lemma dec_var_set v e gt d src : dec_var v (TSet e) gt d src = dec_var v (TList e) gt d src.
Proof. destruct gt; try (match goal with m : bool |- _ => destruct m end); reflexivity. Qed.
Lemma dec_var_tuple v fs gt d src : dec_var v (TTuple fs) gt d src =
  let wasNull := src_len src =? 0 in let n := List.length fs in
  match gt with
  | GStruct sfs => if wasNull then OK (true, gzero gt)
                   else ys <-! g_fields v false fs (field_types sfs) (src_bytes src); OK (false, GVStruct (ys ++ skipn n (arr_elems d)))
  | GSlice et => if wasNull then OK (true, GVNilSlice) else ys <-! g_fields v false fs (repeat et n) (src_bytes src); OK (false, GVSlice ys)
  | GArray m et => if wasNull then OK (true, gzero gt)
                   else ys <-! g_fields v false fs (repeat et m) (src_bytes src); OK (false, GVArray (ys ++ skipn n (arr_elems d)))
  | GIfaceN true => if wasNull then OK (true, GVNilIface) else ERR
  | GIface | GIfaceN false => if wasNull then OK (true, GVNilIface)
              else ys <-! g_fields v false fs (repeat GIface n) (src_bytes src); OK (false, GVIface (GSlice GIface) (GVSlice ys))
  | _ => ERR
  end.
Proof. destruct gt; try (match goal with m : bool |- _ => destruct m end); reflexivity. Qed.
Lemma dec_var_udt_seq v names fs gt d src : dec_var v (TUdt names fs) gt d src =
  let wasNull := src_len src =? 0 in let n := List.length fs in
  match gt with
  | GSlice et => if wasNull then OK (true, GVNilSlice) else ys <-! g_fields v true fs (repeat et n) (src_bytes src); OK (false, GVSlice ys)
  | GArray m et => if wasNull then OK (true, gzero gt)
                   else ys <-! g_fields v true fs (repeat et m) (src_bytes src); OK (false, GVArray (ys ++ skipn n (arr_elems d)))
  | _ => dec_var v (TUdt names fs) gt d src
  end.
Proof. destruct gt; reflexivity. Qed.

Ltac invb H := let a := fresh "a" in let Ha := fresh "Ha" in apply bindo_ok in H; destruct H as (a & Ha & H).

Lemma src_len_zero o : (src_len o =? 0) = true -> o = None \/ o = Some [].
Proof. destruct o as [b|]; [|auto]. cbn. intro H. right. f_equal. apply zlen_0_nil. lia. Qed.

Lemma m_decode_null_inv v t o : m_decode v t o = OK VNull -> match t with TScalar _ => True | _ => (src_len o =? 0) = true end.
Proof.
  intro H. destruct t; [trivial| | | | |].
  - cbn [m_decode] in H. destruct (src_len o =? 0); [reflexivity|exfalso]. invb H. destruct a as [size rest]. destruct (size <? 0); [discriminate|]. invb H. invb H. discriminate.
  - cbn [m_decode] in H. destruct (src_len o =? 0); [reflexivity|exfalso]. invb H. destruct a as [size rest]. destruct (size <? 0); [discriminate|]. invb H. invb H. discriminate.
  - cbn [m_decode] in H. destruct (src_len o =? 0); [reflexivity|exfalso]. invb H. destruct a as [size rest]. destruct (size <? 0); [discriminate|]. invb H. invb H. discriminate.
  - rewrite m_decode_tuple in H. destruct (src_len o =? 0); [reflexivity|exfalso]. invb H. invb H. discriminate.
  - rewrite m_decode_udt in H. destruct (src_len o =? 0); [reflexivity|exfalso]. invb H. invb H. discriminate.
Qed.

Lemma accepts_imp_dest t gt : accepts t gt = true -> accepts_dest t gt = true.
Proof. destruct gt; cbn; auto. Qed.
Lemma gabs_none t : gabs t None = Some VNull.
Proof. destruct t; reflexivity. Qed.
Lemma elem_src_accepts e t' g : accepts e t' = true -> elem_src t' g = Some (t', g).
Proof. destruct t'; try reflexivity; destruct e; discriminate. Qed.

Lemma gabs_nilptr e t' : accepts e t' = true -> gabs e (Some (GPtr t', GVNilPtr)) = Some VNull.
Proof. intro H. destruct e; destruct t'; try discriminate H; try reflexivity. cbn in H |- *. rewrite H. reflexivity. Qed.

Lemma gabs_ptr e t' g' : accepts e t' = true -> gabs e (Some (GPtr t', GVPtr g')) = gabs e (Some (t', g')).
Proof.
  intro H. destruct e.
  - destruct t'; try discriminate H. destruct g'; reflexivity.
  - rewrite !gabs_list. destruct t'; try discriminate H; destruct g'; reflexivity.
  - rewrite !gabs_set. destruct t'; try discriminate H; destruct g'; reflexivity.
  - rewrite !gabs_map. destruct t'; try discriminate H; destruct g'; reflexivity.
  - rewrite !gabs_tuple. destruct t'; try discriminate H; destruct g'; reflexivity.
  - rewrite !gabs_udt. destruct t'; try discriminate H; destruct g'; reflexivity.
Qed.

Lemma gabs_zero_nilable e et : nilable et = true -> accepts_dest e et = true -> gabs e (elem_src et (gzero et)) = Some VNull.
Proof.
  intros Hn Ha. destruct et; try discriminate Hn.
  - destruct k; [discriminate|]. destruct e; try discriminate Ha. cbn in Ha |- *. rewrite Ha. reflexivity.
  - destruct e; try discriminate Ha; reflexivity.
  - destruct e; try discriminate Ha; reflexivity.
  - cbn. apply gabs_none.
Qed.

Definition DD (v : Z) (t : cqltype) : Prop :=
  (forall gt d o, m_decode v t o = OK VNull -> accepts_dest t gt = true -> dec_var v t gt d o = OK (true, gzero gt)) /\
  (forall gt o x, m_decode v t o = OK x -> isnull x = false -> fits t gt x ->
     exists g', dec_var v t gt (gzero gt) o = OK (false, g') /\ gabs t (elem_src gt g') = Some x).

(* one element / field through zeroElem - Decode - setElem *)
Lemma elem_fit v e et o x : DD v e -> m_decode v e o = OK x -> fits_el e (fits e) et x ->
  exists y, dec_elem_with (dec_var v e) et o = OK y /\ gabs e (elem_src et y) = Some x.
Proof.
  intros (Dn & Dv) Hm Hf. unfold fits_el in Hf.
  assert (Hcase: forall t', et = GPtr t' \/ (forall t'', et <> GPtr t'') -> True) by trivial.
  destruct (isnull x) eqn:Hx.
  - destruct x; try discriminate Hx.
    destruct et as [s k|t'|t'|n t'|kt vt|sfs| |mm].
    2:{ exists GVNilPtr. cbn [dec_elem_with]. rewrite (Dn t' (gzero t') o Hm (accepts_imp_dest _ _ Hf)). cbn. split; [reflexivity|apply gabs_nilptr; exact Hf]. }
    all: destruct Hf as (Hn & Ha); eexists; cbn [dec_elem_with]; rewrite (Dn _ _ o Hm Ha); cbn [bindo fst snd]; split; [reflexivity|apply gabs_zero_nilable; assumption].
  - destruct et as [s k|t'|t'|n t'|kt vt|sfs| |mm].
    2:{ destruct Hf as (Ha & Hf). destruct (Dv t' o x Hm Hx Hf) as (g' & Hd & Hg). exists (GVPtr g'). cbn [dec_elem_with]. rewrite Hd. cbn. split; [reflexivity|].
        rewrite (gabs_ptr e t' g' Ha). rewrite (elem_src_accepts e t' g' Ha) in Hg. exact Hg. }
    all: destruct (Dv _ o x Hm Hx Hf) as (g' & Hd & Hg); exists g'; cbn [dec_elem_with]; rewrite Hd; cbn [bindo fst snd]; split; [reflexivity|exact Hg].
Qed.

Lemma omap_snoc_some {A B} (f : A -> option B) a l b r : f a = Some b -> omap f l = Some r -> omap f (a :: l) = Some (b :: r).
Proof. intros Ha Hl. cbn. rewrite Ha. fold (omap f l). rewrite Hl. reflexivity. Qed.

Lemma dec_elems_fit v e et : DD v e -> forall fuel n src xs rest,
  dec_elems v (m_decode v e) fuel n src = OK (xs, rest) -> Forall (fits_el e (fits e) et) xs ->
  exists ys, dec_elems_g v (dec_elem_with (dec_var v e) et) fuel n src = OK (ys, rest) /\
             omap (fun g => gabs e (elem_src et g)) ys = Some xs /\ List.length ys = List.length xs /\ (0 <= n -> zlen xs = n).
Proof.
  intros HD fuel. induction fuel as [|f IH]; intros n src xs rest H HF.
  - cbn [dec_elems] in H. destruct (Z.leb_spec n 0); [|discriminate]. apply ok_inj in H. injection H as <- <-.
    exists []. cbn [dec_elems_g]. replace (n <=? 0) with true by lia. repeat split; try reflexivity. cbn. lia.
  - cbn [dec_elems] in H. cbn [dec_elems_g]. destruct (Z.leb_spec n 0).
    + apply ok_inj in H. injection H as <- <-. exists []. repeat split; try reflexivity. cbn. lia.
    + invb H. invb H. invb H. apply ok_inj in H. injection H as <- <-. destruct a1 as [xs' rest']. cbn [fst snd] in *.
      inversion HF as [|? ? Hx HF']; subst.
      destruct (elem_fit v e et (fst a) a0 HD Ha0 Hx) as (y & Hy & Gy).
      destruct (IH (n - 1) (snd a) xs' rest' Ha1 HF') as (ys & Hys & Gys & Hl & Hc).
      exists (y :: ys). rewrite Ha. cbn [bindo]. rewrite Hy. cbn [bindo]. rewrite Hys. cbn [bindo fst snd].
      repeat split; [apply omap_snoc_some; assumption|cbn; lia|intros _; rewrite zlen_cons; lia].
Qed.

Definition fits_fields := fix go (fs : list cqltype) (ets : list gty) (xs : list cval) {struct fs} : Prop :=
  match fs, ets, xs with
  | [], _, [] => True
  | f :: fs', et :: ets', x :: xs' => fits_el f (fits f) et x /\ go fs' ets' xs'
  | _, _, _ => False
  end.

Lemma dec_fields_fit v (udt : bool) fs : Forall (DD v) fs -> forall ets src xs rest,
  (if udt then dec_fields_udt (m_decode v) fs src else dec_fields (m_decode v) fs src) = OK (xs, rest) -> fits_fields fs ets xs ->
  exists ys, dec_fields_g v udt fs ets src = OK (ys, rest) /\ List.length ys = List.length fs /\
             forall tl, exists ss, positional (List.length fs) ets (ys ++ tl) = Some ss /\ gabs_fields fs ss = Some xs.
Proof.
  intro HF. induction HF as [|f fs' Hf Hfs IH]; intros ets src xs rest H Hfit.
  - assert (E: OK (@nil cval, src) = OK (xs, rest)) by (destruct udt; exact H). apply ok_inj in E. injection E as <- <-.
    exists []. cbn. repeat split. intro tl. exists []. split; reflexivity.
  - destruct ets as [|et ets']; [destruct xs; contradiction|]. destruct xs as [|x xs']; [contradiction|]. destruct Hfit as (Hx & Hrest).
    cbn [dec_fields_g].
    assert (Hinv: exists e y r, (match udt, src with true, [] => OK (None, []) | _, _ => read_bytes src end) = OK e /\ m_decode v f (fst e) = OK y /\
                   (if udt then dec_fields_udt (m_decode v) fs' (snd e) else dec_fields (m_decode v) fs' (snd e)) = OK r /\ (x :: xs', rest) = (y :: fst r, snd r)).
    { destruct udt; cbn [dec_fields dec_fields_udt] in H; invb H; invb H; invb H; apply ok_inj in H; exists a, a0, a1; repeat split; try assumption; try (symmetry; exact H); try exact Ha; try (destruct src; exact Ha). }
    destruct Hinv as (e & y & r & He & Hy & Hr & Heq). injection Heq as -> -> ->. destruct r as [xs'' rest'']. cbn [fst snd] in *.
    destruct (elem_fit v f et (fst e) y Hf Hy Hx) as (gy & Hgy & Ggy).
    destruct (IH ets' (snd e) xs'' rest'' Hr Hrest) as (ys & Hys & Hl & Hpos).
    exists (gy :: ys). rewrite He. cbn [bindo]. rewrite Hgy. cbn [bindo]. rewrite Hys. cbn [bindo fst snd].
    repeat split; [cbn; lia|]. intro tl. destruct (Hpos tl) as (ss & Hss & Gss).
    exists (elem_src et gy :: ss). cbn [List.length positional app]. rewrite Hss. split; [reflexivity|].
    cbn [gabs_fields]. rewrite Ggy, Gss. reflexivity.
Qed.

Lemma dn_container v t : (match t with TScalar _ => False | _ => True end) ->
  forall gt d o, m_decode v t o = OK VNull -> accepts_dest t gt = true -> dec_var v t gt d o = OK (true, gzero gt).
Proof.
  intros Ht gt d o H Ha. pose proof (m_decode_null_inv v t o H) as Hz.
  assert (Hs: string_type t = false) by (destruct t; try reflexivity; contradiction).
  destruct t; try contradiction; destruct (src_len_zero o Hz) as [->| ->];
    first [exact (null_into_prefilled v _ gt d Ha) | exact (empty_into_prefilled v _ gt d Ha Hs)].
Qed.

Lemma all_read_inv {A} (r : A * bytes) (x : A) : all_read r = OK x -> fst r = x /\ (zlen (snd r) =? 0) = true.
Proof. unfold all_read. destruct (zlen (snd r) =? 0); [|discriminate]. intro H. apply ok_inj in H. auto. Qed.

Lemma skipn_repeat_all {A} (z : A) n k : (n <= k)%nat -> skipn k (repeat z n) = [].
Proof. intro H. apply skipn_all2. rewrite repeat_length. exact H. Qed.

Lemma dd_list v e : DD v e -> DD v (TList e).
Proof.
  intro IH. split; [apply dn_container; exact I|].
  intros gt o x H Hx Hf. destruct x; try (cbn in Hf; contradiction).
  cbn [m_decode] in H. destruct (src_len o =? 0) eqn:E; [discriminate|].
  invb H. destruct a as [size rest]. destruct (size <? 0) eqn:Es; [discriminate|]. invb H. invb H. apply ok_inj in H. injection H as ->.
  destruct a as [xs0 rest0]. apply all_read_inv in Ha1. cbn [fst snd] in Ha1. destruct Ha1 as (-> & Er).
  rewrite dec_var_list. cbv zeta. rewrite E.
  destruct gt; try (cbn in Hf; contradiction).
  - (* slice *) cbn [fits] in Hf.
    destruct (dec_elems_fit v e gt IH _ _ _ _ _ Ha0 Hf) as (ys & Hys & Gys & Hl & Hc).
    unfold seq_body. rewrite Ha. cbn [bindo]. rewrite Es, Hys. cbn [bindo]. unfold all_read. cbn [fst snd]. rewrite Er. cbn [bindo fst snd].
    eexists. split; [reflexivity|]. cbn [elem_src]. rewrite gabs_list. change (as_seq (Some (GSlice gt, GVSlice ys))) with (XOk (gt, ys)). cbv iota beta. rewrite Gys. reflexivity.
  - (* array *) cbn [fits] in Hf. destruct Hf as (Hn & Hf).
    destruct (dec_elems_fit v e gt IH _ _ _ _ _ Ha0 Hf) as (ys & Hys & Gys & Hl & Hc).
    unfold seq_body. rewrite Ha. cbn [bindo]. rewrite Es, Hys. cbn [bindo]. unfold all_read. cbn [fst snd]. rewrite Er. cbn [bindo fst snd].
    assert (Hsz: zlen es = size) by (apply Hc; lia). unfold zlen in Hsz.
    replace (Z.of_nat n <? size) with false by lia.
    eexists. split; [reflexivity|]. cbn [gzero arr_elems]. rewrite skipn_repeat_all by lia. rewrite app_nil_r.
    cbn [elem_src]. rewrite gabs_list. change (as_seq (Some (GArray n gt, GVArray ys))) with (XOk (gt, ys)). cbv iota beta. rewrite Gys. reflexivity.
  - (* untyped *) cbn [fits] in Hf.
    destruct (dec_elems_fit v e _ IH _ _ _ _ _ Ha0 Hf) as (ys & Hys & Gys & Hl & Hc).
    unfold seq_body. rewrite Ha. cbn [bindo]. rewrite Es, Hys. cbn [bindo]. unfold all_read. cbn [fst snd]. rewrite Er. cbn [bindo fst snd].
    eexists. split; [reflexivity|]. cbn [elem_src]. rewrite gabs_list.
    change (as_seq (Some (GSlice (ensure_nillable (pref e)), GVSlice ys))) with (XOk (ensure_nillable (pref e), ys)). cbv iota beta. rewrite Gys. reflexivity.
Qed.

Lemma dd_set v e : DD v (TList e) -> DD v (TSet e).
Proof.
  intros (Dn & Dv). split.
  - intros gt d o H Ha. rewrite dec_var_set. apply Dn; [exact H|destruct gt; exact Ha].
  - intros gt o x H Hx Hf. destruct (Dv gt o x H Hx Hf) as (g' & Hd & Hg). exists g'. split; [rewrite dec_var_set; exact Hd|rewrite gabs_set, <- gabs_list; exact Hg].
Qed.

Lemma fits_tuple fs gt xs : fits (TTuple fs) gt (VTuple xs) =
  match gt with
  | GStruct sfs => fits_fields fs (field_types sfs) xs
  | GSlice et => fits_fields fs (repeat et (List.length fs)) xs
  | GArray m et => (List.length fs <= m)%nat /\ fits_fields fs (repeat et m) xs
  | GIface => fits_fields fs (repeat GIface (List.length fs)) xs
  | _ => False
  end.
Proof. destruct gt; reflexivity. Qed.
Lemma fits_udt names fs gt xs : fits (TUdt names fs) gt (VUdt xs) =
  match gt with
  | GSlice et => fits_fields fs (repeat et (List.length fs)) xs
  | GArray m et => (List.length fs <= m)%nat /\ fits_fields fs (repeat et m) xs
  | _ => False
  end.
Proof. destruct gt; reflexivity. Qed.

Lemma dd_tuple v fs : Forall (DD v) fs -> DD v (TTuple fs).
Proof.
  intro IH. split; [apply dn_container; exact I|].
  intros gt o x H Hx Hf. destruct x; try (cbn in Hf; contradiction). rename es into xs.
  rewrite fits_tuple in Hf. rewrite m_decode_tuple in H. destruct (src_len o =? 0) eqn:E; [discriminate|].
  invb H. invb H. apply ok_inj in H. injection H as ->. destruct a as [xs0 rest0]. apply all_read_inv in Ha0. cbn [fst snd] in Ha0. destruct Ha0 as (-> & Er).
  rewrite dec_var_tuple. cbv zeta. rewrite E.
  destruct gt; try contradiction.
  - (* slice *)
    destruct (dec_fields_fit v false fs IH _ _ _ _ Ha Hf) as (ys & Hys & Hl & Hpos).
    unfold g_fields. rewrite Hys. cbn [bindo]. unfold all_read. cbn [fst snd]. rewrite Er. cbn [bindo].
    eexists. split; [reflexivity|]. cbn [elem_src]. rewrite gabs_tuple.
    change (as_tuple (List.length fs) (Some (GSlice gt, GVSlice ys))) with (XOk (positional (List.length fs) (repeat gt (List.length ys)) ys)).
    destruct (Hpos []) as (ss & Hss & Gss). rewrite app_nil_r in Hss. rewrite Hl, Hss. cbn. rewrite Gss. reflexivity.
  - (* array *)
    destruct Hf as (Hm & Hf).
    destruct (dec_fields_fit v false fs IH _ _ _ _ Ha Hf) as (ys & Hys & Hl & Hpos).
    unfold g_fields. rewrite Hys. cbn [bindo]. unfold all_read. cbn [fst snd]. rewrite Er. cbn [bindo].
    eexists. split; [reflexivity|]. cbn [elem_src gzero arr_elems]. rewrite gabs_tuple.
    set (tl := skipn (List.length fs) (repeat (gzero gt) n)).
    change (as_tuple (List.length fs) (Some (GArray n gt, GVArray (ys ++ tl)))) with (XOk (positional (List.length fs) (repeat gt (List.length (ys ++ tl))) (ys ++ tl))).
    assert (Hlen: List.length (ys ++ tl) = n) by (unfold tl; rewrite app_length, skipn_length, repeat_length; lia).
    destruct (Hpos tl) as (ss & Hss & Gss). rewrite Hlen, Hss. cbn. rewrite Gss. reflexivity.
  - (* struct *)
    destruct (dec_fields_fit v false fs IH _ _ _ _ Ha Hf) as (ys & Hys & Hl & Hpos).
    unfold g_fields. rewrite Hys. cbn [bindo]. unfold all_read. cbn [fst snd]. rewrite Er. cbn [bindo].
    eexists. split; [reflexivity|]. cbn [elem_src]. rewrite gabs_tuple.
    set (tl := skipn (List.length fs) (arr_elems (gzero (GStruct fs0)))).
    change (as_tuple (List.length fs) (Some (GStruct fs0, GVStruct (ys ++ tl)))) with (XOk (positional (List.length fs) (field_types fs0) (ys ++ tl))).
    destruct (Hpos tl) as (ss & Hss & Gss). rewrite Hss. cbn. rewrite Gss. reflexivity.
  - (* untyped *)
    destruct (dec_fields_fit v false fs IH _ _ _ _ Ha Hf) as (ys & Hys & Hl & Hpos).
    unfold g_fields. rewrite Hys. cbn [bindo]. unfold all_read. cbn [fst snd]. rewrite Er. cbn [bindo].
    eexists. split; [reflexivity|]. cbn [elem_src]. rewrite gabs_tuple.
    change (as_tuple (List.length fs) (Some (GSlice GIface, GVSlice ys))) with (XOk (positional (List.length fs) (repeat GIface (List.length ys)) ys)).
    destruct (Hpos []) as (ss & Hss & Gss). rewrite app_nil_r in Hss. rewrite Hl, Hss. cbn. rewrite Gss. reflexivity.
Qed.

Lemma dd_udt v names fs : Forall (DD v) fs -> DD v (TUdt names fs).
Proof.
  intro IH. split; [apply dn_container; exact I|].
  intros gt o x H Hx Hf. destruct x; try (cbn in Hf; contradiction). rename es into xs.
  rewrite fits_udt in Hf. rewrite m_decode_udt in H. destruct (src_len o =? 0) eqn:E; [discriminate|].
  invb H. invb H. apply ok_inj in H. injection H as ->. destruct a as [xs0 rest0]. apply all_read_inv in Ha0. cbn [fst snd] in Ha0. destruct Ha0 as (-> & Er).
  rewrite dec_var_udt_seq. cbv zeta. rewrite E.
  destruct gt; try contradiction.
  - destruct (dec_fields_fit v true fs IH _ _ _ _ Ha Hf) as (ys & Hys & Hl & Hpos).
    unfold g_fields. rewrite Hys. cbn [bindo]. unfold all_read. cbn [fst snd]. rewrite Er. cbn [bindo].
    eexists. split; [reflexivity|]. cbn [elem_src]. rewrite gabs_udt.
    change (as_udt names (List.length fs) (Some (GSlice gt, GVSlice ys))) with (XOk (positional (List.length fs) (repeat gt (List.length ys)) ys)).
    destruct (Hpos []) as (ss & Hss & Gss). rewrite app_nil_r in Hss. rewrite Hl, Hss. cbn. rewrite Gss. reflexivity.
  - destruct Hf as (Hm & Hf).
    destruct (dec_fields_fit v true fs IH _ _ _ _ Ha Hf) as (ys & Hys & Hl & Hpos).
    unfold g_fields. rewrite Hys. cbn [bindo]. unfold all_read. cbn [fst snd]. rewrite Er. cbn [bindo].
    eexists. split; [reflexivity|]. cbn [elem_src gzero arr_elems]. rewrite gabs_udt.
    set (tl := skipn (List.length fs) (repeat (gzero gt) n)).
    change (as_udt names (List.length fs) (Some (GArray n gt, GVArray (ys ++ tl)))) with (XOk (positional (List.length fs) (repeat gt (List.length (ys ++ tl))) (ys ++ tl))).
    assert (Hlen: List.length (ys ++ tl) = n) by (unfold tl; rewrite app_length, skipn_length, repeat_length; lia).
    destruct (Hpos tl) as (ss & Hss & Gss). rewrite Hlen, Hss. cbn. rewrite Gss. reflexivity.
Qed.

Lemma dd_scalar v s : DD v (TScalar s).
Proof.
  split.
  - intros gt d o H Ha. change (dec_var v (TScalar s) gt d o) with (leaf_decode s gt o). cbn [m_decode] in H.
    destruct gt; try discriminate Ha; unfold leaf_decode.
    + cbn in Ha. rewrite Ha, H. reflexivity.
    + rewrite H. reflexivity.
  - intros gt o x H Hx (Hshape & Hgt). change (dec_var v (TScalar s) gt (gzero gt) o) with (leaf_decode s gt o). cbn [m_decode] in H.
    destruct gt; try contradiction; unfold leaf_decode.
    + rewrite Hgt, H. cbn [bindo]. destruct x; try discriminate Hx; try contradiction; (eexists; split; [reflexivity|cbn; rewrite Hgt; reflexivity]).
    + rewrite H. cbn [bindo]. destruct x; try discriminate Hx; try contradiction;
        (eexists; split; [reflexivity|destruct s; cbn; reflexivity]).
Qed.

Lemma dd_map v k w : DD v (TMap k w).
Proof. split; [apply dn_container; exact I|]. intros gt o x H Hx Hf. cbn in Hf. contradiction. Qed.

(* Decode into a representation: by induction on the type tree *)
Theorem decode_fits v t : DD v t.
Proof.
  induction t using cqltype_ind2.
  - apply dd_scalar.
  - apply dd_list. exact IHt.
  - apply dd_set. apply dd_list. exact IHt.
  - apply dd_map.
  - apply dd_tuple. exact H.
  - apply dd_udt. exact H.
Qed.

(* C11 at the representation level: encode from ANY modelled representation, decode into any destination type that can hold the value *)
Theorem representations_round_trip v t gt g x o gt' :
  wf_type t = true -> gabs t (Some (gt, g)) = Some x -> wt t x = true -> isnull x = false ->
  g_encode v t (Some (gt, g)) = OK o -> olen o < 2 ^ 31 -> fits t gt' x ->
  exists g', g_decode v t gt' (gzero gt') o = OK (false, g') /\ gabs t (elem_src gt' g') = Some x.
Proof.
  intros Hwf Ha Hwt Hx He Hs Hf. rewrite (g_encode_abs v t _ x Ha) in He.
  pose proof (round_trip v t Hwf x o Hwt He Hs) as Hd.
  exact (proj2 (decode_fits v t) gt' o x Hd Hx Hf).
Qed.

(* a NULL decoded through any representation-level destination is reported as NULL and leaves the zero value *)
Theorem representations_null v t gt g o gt' d :
  gabs t (Some (gt, g)) = Some VNull -> g_encode v t (Some (gt, g)) = OK o -> accepts_dest t gt' = true ->
  g_decode v t gt' d o = OK (true, gzero gt').
Proof.
  intros Ha He Hacc. rewrite (g_encode_abs v t _ VNull Ha), m_encode_null in He. apply ok_inj in He. subst o.
  apply null_into_prefilled. exact Hacc.
Qed.

(* ------------------------------------------------------------------------------------------------ C04 (datacodec half), typed destinations *)
(* Decode into a variable of ANY modelled Go type (maps keyed by interface{} / arrays / structs holding interfaces included), pre-filled
   with anything, from ANY bytes: ok or error, never a panic.  The map branch relies on the refusal of unhashable keys (ghashable,
   fix 280217e); with SetMapIndex reached unconditionally the branch would be PANIC for e.g. map<list<int>,int> into map[interface{}]int. *)
Definition map_body (v : Z) (k w : cqltype) (kt vt : gty) (old : list (gval * gval)) (src : option bytes) : outcome (list (gval * gval)) :=
  r <-! readCollectionSize v (src_bytes src);
  let (size, rest) := r in
  if size <? 0 then ERR
  else es <-! dec_entries_g v (dec_elem_with (dec_var v k) kt) (dec_elem_with (dec_var v w) vt) (S (List.length rest)) size rest;
       kvs <-! all_read es;
       if forallb (fun kw => ghashable (fst kw)) kvs
       then OK (fold_left (fun m kw => map_set m (fst kw) (snd kw)) kvs old) else ERR.

Lemma dec_var_map v k w gt d src : dec_var v (TMap k w) gt d src =
  let wasNull := src_len src =? 0 in
  match gt with
  | GMap kt vt => if wasNull then OK (true, GVNilMap) else m <-! map_body v k w kt vt (map_entries d) src; OK (false, GVMap m)
  | GIfaceN true => if wasNull then OK (true, GVNilIface) else ERR
  | GIface | GIfaceN false => if wasNull then OK (true, GVNilIface)
              else match pref (TMap k w) with
                   | GMap kt vt => m <-! map_body v k w kt vt [] src; OK (false, GVIface (GMap kt vt) (GVMap m))
                   | _ => ERR
                   end
  | _ => ERR
  end.
Proof. destruct gt; try (match goal with m : bool |- _ => destruct m end); reflexivity. Qed.

Lemma dec_var_udt v names fs gt d src : dec_var v (TUdt names fs) gt d src =
  let wasNull := src_len src =? 0 in let n := List.length fs in
  let name_key (nm : string) : gval := GVLeaf (VBytes (bytes_of_string nm)) in
  match gt with
  | GStruct sfs => if wasNull then OK (true, gzero gt)
                   else match by_name_types sfs names with
                        | Some targets => ys <-! g_fields v true fs (map snd targets) (src_bytes src); OK (false, GVStruct (store_at (arr_elems d) targets ys))
                        | None => ERR
                        end
  | GMap kt vt => if wasNull then OK (true, GVNilMap)
                  else if is_string_ty kt then
                         ys <-! g_fields v true fs (repeat vt n) (src_bytes src);
                         OK (false, GVMap (fold_left (fun m ny => map_set m (name_key (fst ny)) (snd ny)) (combine names ys) (map_entries d)))
                       else ERR
  | GSlice et => if wasNull then OK (true, GVNilSlice) else ys <-! g_fields v true fs (repeat et n) (src_bytes src); OK (false, GVSlice ys)
  | GArray m et => if wasNull then OK (true, gzero gt)
                   else ys <-! g_fields v true fs (repeat et m) (src_bytes src); OK (false, GVArray (ys ++ skipn n (arr_elems d)))
  | GIfaceN true => if wasNull then OK (true, GVNilIface) else ERR
  | GIface | GIfaceN false => if wasNull then OK (true, GVNilIface)
              else ys <-! g_fields v true fs (repeat GIface n) (src_bytes src);
                   OK (false, GVIface (GMap string_ty GIface) (GVMap (fold_left (fun m ny => map_set m (name_key (fst ny)) (snd ny)) (combine names ys) [])))
  | _ => ERR
  end.
Proof. destruct gt; try (match goal with m : bool |- _ => destruct m end); reflexivity. Qed.

Definition NPV (v : Z) (t : cqltype) : Prop := forall gt d src, dec_var v t gt d src <> PANIC.

Lemma leaf_decode_np s gt src : leaf_decode s gt src <> PANIC.
Proof.
  unfold leaf_decode. destruct gt; try discriminate.
  - destruct (scalar_eqb s s0); [|discriminate]. apply bindo_np; [apply dec_scalar_no_panic|discriminate].
  - apply bindo_np; [apply dec_scalar_no_panic|discriminate].
Qed.

Lemma dec_elem_with_np dv et src : (forall gt d s, dv gt d s <> PANIC) -> dec_elem_with dv et src <> PANIC.
Proof. intro H. unfold dec_elem_with. destruct et; (apply bindo_np; [apply H|discriminate]). Qed.

Lemma dec_elems_g_np {A} v (dec : option bytes -> outcome A) : (forall src, dec src <> PANIC) -> forall fuel n src, dec_elems_g v dec fuel n src <> PANIC.
Proof.
  intros Hd fuel. induction fuel as [|f IH]; intros n src; cbn [dec_elems_g]; destruct (n <=? 0); try discriminate.
  apply bindo_np; [apply read_elem_np|intro r]. apply bindo_np; [apply Hd|intro x]. apply bindo_np; [apply IH|discriminate].
Qed.

Lemma dec_entries_g_np {A B} v (dk : option bytes -> outcome A) (dw : option bytes -> outcome B) :
  (forall src, dk src <> PANIC) -> (forall src, dw src <> PANIC) -> forall fuel n src, dec_entries_g v dk dw fuel n src <> PANIC.
Proof.
  intros Hk Hw fuel. induction fuel as [|f IH]; intros n src; cbn [dec_entries_g]; destruct (n <=? 0); try discriminate.
  apply bindo_np; [apply read_elem_np|intro rk]. apply bindo_np; [apply read_elem_np|intro rv].
  apply bindo_np; [apply Hk|intro k]. apply bindo_np; [apply Hw|intro w]. apply bindo_np; [apply IH|discriminate].
Qed.

Lemma readCollectionSize_np v src : readCollectionSize v src <> PANIC.
Proof. unfold readCollectionSize. destruct (uses4 v); [apply read_int_np|apply read_short_np]. Qed.

Lemma seq_body_np v e et src : NPV v e -> seq_body v e et src <> PANIC.
Proof.
  intro IH. unfold seq_body. apply bindo_np; [apply readCollectionSize_np|]. intros [size rest]. destruct (size <? 0); [discriminate|].
  apply bindo_np; [apply dec_elems_g_np; intro s; apply dec_elem_with_np; exact IH|intro es]. apply bindo_np; [apply all_read_np|discriminate].
Qed.

Lemma map_body_np v k w kt vt old src : NPV v k -> NPV v w -> map_body v k w kt vt old src <> PANIC.
Proof.
  intros Hk Hw. unfold map_body. apply bindo_np; [apply readCollectionSize_np|]. intros [size rest]. destruct (size <? 0); [discriminate|].
  apply bindo_np; [apply dec_entries_g_np; intro s; apply dec_elem_with_np; assumption|intro es].
  apply bindo_np; [apply all_read_np|intro kvs]. destruct (forallb (fun kw => ghashable (fst kw)) kvs); discriminate.
Qed.

Lemma dec_fields_g_np v udt fs : Forall (NPV v) fs -> forall ets src, dec_fields_g v udt fs ets src <> PANIC.
Proof.
  intro H. induction H as [|f fs' Hf Hfs IH]; intros ets src; cbn [dec_fields_g]; [discriminate|].
  destruct ets as [|et ets']; [discriminate|].
  apply bindo_np; [destruct udt; [destruct src; [discriminate|apply read_bytes_np]|apply read_bytes_np]|intro e].
  apply bindo_np; [apply dec_elem_with_np; exact Hf|intro y]. apply bindo_np; [apply IH|discriminate].
Qed.

Lemma g_fields_np v udt fs ets src : Forall (NPV v) fs -> g_fields v udt fs ets src <> PANIC.
Proof. intro H. unfold g_fields. apply bindo_np; [apply dec_fields_g_np; exact H|intro r; apply all_read_np]. Qed.

Ltac np_step H :=
  repeat first
    [ discriminate
    | apply bindo_np; [first [apply seq_body_np; assumption | apply map_body_np; assumption | apply g_fields_np; exact H]|intro]
    | match goal with
      | |- (if ?c then _ else _) <> PANIC => destruct c
      | |- match ?c with _ => _ end <> PANIC => destruct c
      end ].

Theorem g_decode_no_panic v t : forall gt d src, g_decode v t gt d src <> PANIC.
Proof.
  unfold g_decode. change (NPV v t). induction t using cqltype_ind2; intros gt d src.
  - cbn [dec_var]. apply leaf_decode_np.
  - rewrite dec_var_list. cbv zeta. destruct gt; np_step I.
  - rewrite dec_var_set, dec_var_list. cbv zeta. destruct gt; np_step I.
  - rewrite dec_var_map. cbv zeta. destruct gt; np_step I.
  - rewrite dec_var_tuple. cbv zeta. destruct gt; np_step H.
  - rewrite dec_var_udt. cbv zeta. destruct gt; np_step H.
Qed.

(* the refusal is what stands between the decoder and the panic: an interface-typed key holding a slice is not hashable *)
Example unhashable_key_refused :
  g_decode 4 (TMap (TList (TScalar SInt)) (TScalar SInt)) (GMap GIface (GLeaf SInt LVal)) GVNilMap
           (Some [0;0;0;1; 0;0;0;12; 0;0;0;1; 0;0;0;4; 0;0;0;1; 0;0;0;4; 0;0;0;7]) = ERR /\
  g_decode 4 (TMap (TScalar SInt) (TScalar SInt)) (GMap GIface (GLeaf SInt LVal)) GVNilMap
           (Some [0;0;0;1; 0;0;0;4; 0;0;0;1; 0;0;0;4; 0;0;0;7]) = OK (false, GVMap [(GVIface (GLeaf SInt LVal) (GVLeaf (VInt 1)), GVLeaf (VInt 7))]).
Proof. split; vm_compute; reflexivity. Qed.
