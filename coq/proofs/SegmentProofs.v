(* Round trip, refusal and decoding facts for the segment model (C06); used again by C07 and C08. *)
From Coq Require Import ZArith NArith List Bool Lia.
From Coq Require Import ZifyBool ZifyN ZifyNat.
From GCNP Require Import base.GoInt base.Bytes gen.Crc_gen model.Crc model.Segment proofs.Crc24Proofs proofs.Crc32Proofs.
Import ListNotations.
Ltac Zify.zify_post_hook ::= Z.div_mod_to_equations.
Open Scope Z_scope.

(* ---------------------------------------------------------------- the literals of the hand-modelled functions
   (gen/Crc_gen.v lists every integer literal of the Go bodies; an edit of a shift, mask or loop bound breaks this) *)
Lemma literals_pinned :
  ChecksumKoopman_literals = [0; 16; 8; 0; 8; 1; 16777216; 0] /\
  encodeHeaderUncompressed_literals = [17; 1] /\
  encodeHeaderCompressed_literals = [34; 17; 1] /\
  writeHeaderDataAndCrc_literals = [0; 8; 0; 8] /\
  decodeSegmentHeader_literals = [0; 8; 0; 8; 0; 17; 0; 0; 17; 1; 1] /\
  encodeHeaderUncompressed_flagOffset = 17 /\ encodeHeaderCompressed_flagOffset = 34 /\
  encodeHeaderUncompressed_headerLength = UncompressedHeaderLength /\ encodeHeaderCompressed_headerLength = CompressedHeaderLength.
Proof. repeat split; reflexivity. Qed.

Lemma constants_pinned :
  MaxPayloadLength = 131071 /\ UncompressedHeaderLength = 3 /\ CompressedHeaderLength = 5 /\ Crc24Length = 3 /\ Crc32Length = 4.
Proof. repeat split; reflexivity. Qed.

(* ---------------------------------------------------------------- little-endian writer / reader *)
Lemma land255 v : N.land v 255 = (v mod 256)%N.
Proof. change 255%N with (N.ones 8). rewrite N.land_ones. reflexivity. Qed.

Lemma put_le_length n : forall v, length (put_le n v) = n.
Proof. induction n as [|k IH]; intro v; cbn [put_le length]; [reflexivity|]. rewrite IH. reflexivity. Qed.

Lemma put_le_ok n : forall v, bytes_ok (put_le n v).
Proof.
  induction n as [|k IH]; intro v; cbn [put_le]; constructor; [|apply IH].
  unfold byte_ok. rewrite land255. pose proof (N.mod_upper_bound v 256). lia.
Qed.

(* the model's shift/mask writer is the arithmetic little-endian encoding of base/Bytes.v *)
Lemma put_le_le_bytes n : forall v, put_le n v = le_bytes n (Z.of_N v).
Proof.
  induction n as [|k IH]; intro v; cbn [put_le le_bytes]; [reflexivity|].
  rewrite land255, IH, N.shiftr_div_pow2. change (2 ^ 8)%N with 256%N.
  rewrite N2Z.inj_mod, N2Z.inj_div. reflexivity.
Qed.

Lemma testbit_255 m : N.testbit 255 m = (m <? 8)%N.
Proof.
  change 255%N with (N.ones 8).
  destruct (N.ltb_spec m 8); [apply N.ones_spec_low | apply N.ones_spec_high]; assumption.
Qed.

Lemma byte_split v i :
  N.lor (N.shiftl (N.land v 255) (8 * i)) (N.shiftl (N.shiftr v 8) (8 * (i + 1))) = N.shiftl v (8 * i).
Proof.
  apply N.bits_inj. intro n. rewrite N.lor_spec.
  destruct (N.ltb_spec n (8 * i)) as [Hlo|Hhi].
  - rewrite !N.shiftl_spec_low by lia. reflexivity.
  - rewrite (N.shiftl_spec_high' v) by lia. rewrite (N.shiftl_spec_high' (N.land v 255)) by lia.
    rewrite N.land_spec, testbit_255.
    destruct (N.ltb_spec (n - 8 * i) 8) as [Hb|Hb].
    + rewrite N.shiftl_spec_low by lia. rewrite andb_true_r, orb_false_r. reflexivity.
    + rewrite N.shiftl_spec_high' by lia. rewrite N.shiftr_spec'. rewrite andb_false_r. cbn [orb].
      f_equal. lia.
Qed.

Lemma read_le_from_put_le n : forall v i acc rest, (v < 2 ^ (8 * N.of_nat n))%N ->
  read_le_from n i acc (put_le n v ++ rest) = Ok (N.lor acc (N.shiftl v (8 * i)), rest).
Proof.
  induction n as [|k IH]; intros v i acc rest Hv.
  - cbn in Hv. assert (v = 0%N) by lia. subst v. cbn [read_le_from put_le app]. rewrite N.shiftl_0_l, N.lor_0_r. reflexivity.
  - cbn [put_le app read_le_from]. rewrite N2Z.id, IH.
    + rewrite <- N.lor_assoc, byte_split. reflexivity.
    + rewrite N.shiftr_div_pow2. change (2 ^ 8)%N with 256%N.
      replace (8 * N.of_nat (S k))%N with (8 + 8 * N.of_nat k)%N in Hv by lia.
      rewrite N.pow_add_r in Hv. change (2 ^ 8)%N with 256%N in Hv.
      apply N.div_lt_upper_bound; lia.
Qed.

Lemma read_le_put_le n v rest : (v < 2 ^ (8 * N.of_nat n))%N -> read_le n (put_le n v ++ rest) = Ok (v, rest).
Proof.
  intro H. unfold read_le. rewrite read_le_from_put_le by exact H.
  rewrite N.mul_0_r, N.shiftl_0_r, N.lor_0_l. reflexivity.
Qed.

Lemma split_at_app a : forall rest, split_at (length a) (a ++ rest) = Ok (a, rest).
Proof. induction a as [|x a IH]; intro rest; cbn [length split_at app]; [reflexivity|]. rewrite IH. reflexivity. Qed.

(* ---------------------------------------------------------------- integer conversions that are the identity here *)
Lemma wrap_i32_small x : 0 <= x < 2147483648 -> wrap_i32 x = x.
Proof.
  intro H. unfold wrap_i32, wrap_i. change (2 ^ (32 - 1)) with 2147483648. change (2 ^ 32) with 4294967296.
  rewrite Z.mod_small by lia. lia.
Qed.

Lemma u64_of_i32_small x : 0 <= x < 2147483648 -> u64_of_i32 x = Z.to_N x.
Proof.
  intro H. unfold u64_of_i32, wrap_u64, wrap_u. change (2 ^ 64) with 18446744073709551616.
  rewrite Z.mod_small by lia. reflexivity.
Qed.

Lemma shl64_small x k : (x * 2 ^ k < 2 ^ 64)%N -> shl64 x k = (x * 2 ^ k)%N.
Proof.
  intro H. unfold shl64. change mask64 with (N.ones 64). rewrite N.land_ones, N.shiftl_mul_pow2.
  apply N.mod_small. exact H.
Qed.

(* disjoint or = sum *)
Lemma lor_add_disjoint a b k : (a < 2 ^ k)%N -> N.lor a (b * 2 ^ k) = (a + b * 2 ^ k)%N.
Proof.
  intro Ha. rewrite <- N.shiftl_mul_pow2.
  assert (D : N.land a (N.shiftl b k) = 0%N).
  { apply N.bits_inj. intro n. rewrite N.land_spec, N.bits_0.
    destruct (N.ltb_spec n k).
    - rewrite N.shiftl_spec_low by assumption. apply andb_false_r.
    - rewrite (testbit_high a k n Ha) by assumption. reflexivity. }
  rewrite <- N.lxor_lor by exact D. symmetry. apply N.add_nocarry_lxor. exact D.
Qed.

Definition b2n (b : bool) : N := if b then 1%N else 0%N.

(* header words in arithmetic form *)
Lemma header_data_uncompressed_arith sc ulen : 0 <= ulen <= 131071 ->
  header_data_uncompressed sc ulen = (Z.to_N ulen + 131072 * b2n sc)%N.
Proof.
  intro H. unfold header_data_uncompressed. rewrite u64_of_i32_small by lia.
  change (Z.to_N encodeHeaderUncompressed_flagOffset) with 17%N.
  destruct sc; cbn [b2n]; [|lia].
  rewrite shl64_small by (vm_compute; reflexivity). change (1 * 2 ^ 17)%N with (1 * 2 ^ 17)%N.
  rewrite lor_add_disjoint by (change (2 ^ 17)%N with 131072%N; lia). change (2 ^ 17)%N with 131072%N. lia.
Qed.

Lemma header_data_compressed_arith sc ulen clen : 0 <= ulen <= 131071 -> 0 <= clen <= 131071 ->
  header_data_compressed sc ulen clen = (Z.to_N clen + 131072 * Z.to_N ulen + 17179869184 * b2n sc)%N.
Proof.
  intros Hu Hc. unfold header_data_compressed. rewrite !u64_of_i32_small by lia.
  change (Z.to_N encodeHeaderCompressed_flagOffset) with 34%N.
  rewrite shl64_small by (change (2 ^ 17)%N with 131072%N; change (2 ^ 64)%N with 18446744073709551616%N; lia).
  rewrite lor_add_disjoint by (change (2 ^ 17)%N with 131072%N; lia).
  change (2 ^ 17)%N with 131072%N.
  destruct sc; cbn [b2n]; [|lia].
  rewrite shl64_small by (vm_compute; reflexivity).
  rewrite lor_add_disjoint by (change (2 ^ 34)%N with 17179869184%N; lia).
  change (2 ^ 34)%N with 17179869184%N. lia.
Qed.

(* ---------------------------------------------------------------- decoding an encoded header *)
Lemma land_max x : N.land x max_payload_N = (x mod 131072)%N.
Proof. change max_payload_N with (N.ones 17). rewrite N.land_ones. reflexivity. Qed.
Lemma land_1 x : N.land x 1 = (x mod 2)%N.
Proof. change 1%N with (N.ones 1). rewrite N.land_ones. reflexivity. Qed.
Lemma shiftr17 x : N.shiftr x 17 = (x / 131072)%N.
Proof. rewrite N.shiftr_div_pow2. reflexivity. Qed.

Lemma header_of_data_uncompressed sc ulen crc : 0 <= ulen <= 131071 ->
  header_of_data false (Z.to_N ulen + 131072 * b2n sc)%N crc = mkHeader sc ulen 0 crc.
Proof.
  intro H. unfold header_of_data. rewrite land_max, shiftr17, land_1.
  assert (E1 : ((Z.to_N ulen + 131072 * b2n sc) mod 131072 = Z.to_N ulen)%N) by (destruct sc; cbn [b2n]; lia).
  assert (E2 : (((Z.to_N ulen + 131072 * b2n sc) / 131072) mod 2 = b2n sc)%N) by (destruct sc; cbn [b2n]; lia).
  rewrite E1, E2. rewrite !wrap_i32_small by lia. rewrite Z2N.id by lia.
  destruct sc; reflexivity.
Qed.

Lemma header_of_data_compressed sc ulen clen crc : 0 <= ulen <= 131071 -> 0 <= clen <= 131071 ->
  header_of_data true (Z.to_N clen + 131072 * Z.to_N ulen + 17179869184 * b2n sc)%N crc =
  if ulen =? 0 then mkHeader sc clen 0 crc else mkHeader sc ulen clen crc.
Proof.
  intros Hu Hc. unfold header_of_data. rewrite !land_max, !shiftr17.
  set (hd := (Z.to_N clen + 131072 * Z.to_N ulen + 17179869184 * b2n sc)%N).
  assert (E1 : (hd mod 131072 = Z.to_N clen)%N) by (unfold hd; destruct sc; cbn [b2n]; lia).
  assert (E2 : ((hd / 131072) mod 131072 = Z.to_N ulen)%N) by (unfold hd; destruct sc; cbn [b2n]; lia).
  assert (E3 : ((hd / 131072 / 131072) mod 2 = b2n sc)%N) by (unfold hd; destruct sc; cbn [b2n]; lia).
  rewrite E1, E2.
  destruct (Z.eqb_spec ulen 0) as [->|Hnz].
  - change (Z.to_N 0 =? 0)%N with true. cbn iota beta. rewrite shiftr17, land_1, E3.
    rewrite !wrap_i32_small by lia. rewrite Z2N.id by lia. destruct sc; reflexivity.
  - replace (Z.to_N ulen =? 0)%N with false by (symmetry; apply N.eqb_neq; lia). cbn iota beta. rewrite shiftr17, land_1, E3.
    rewrite !wrap_i32_small by lia. rewrite !Z2N.id by lia. destruct sc; reflexivity.
Qed.

Lemma hod_u sc ulen crc : 0 <= ulen <= 131071 ->
  header_of_data false (header_data_uncompressed sc ulen) crc = mkHeader sc ulen 0 crc.
Proof. intro H. rewrite header_data_uncompressed_arith by lia. apply header_of_data_uncompressed. lia. Qed.

Lemma hod_c sc ulen clen crc : 0 <= ulen <= 131071 -> 0 <= clen <= 131071 ->
  header_of_data true (header_data_compressed sc ulen clen) crc =
  if ulen =? 0 then mkHeader sc clen 0 crc else mkHeader sc ulen clen crc.
Proof. intros H1 H2. rewrite header_data_compressed_arith by lia. apply header_of_data_compressed; lia. Qed.

Lemma crc24_len_eq : crc24_len = 3%nat. Proof. reflexivity. Qed.
Lemma crc32_len_eq : crc32_len = 4%nat. Proof. reflexivity. Qed.
Lemma hlen_u_eq : hlen_uncompressed = 3%nat. Proof. reflexivity. Qed.
Lemma hlen_c_eq : hlen_compressed = 5%nat. Proof. reflexivity. Qed.

Definition hlen_of (c : option compressor) : nat := match c with None => hlen_uncompressed | Some _ => hlen_compressed end.

(* a written header reads back: CRC-24 verified, fields extracted from the same word *)
Lemma decode_written_header c hd rest : (hd < 2 ^ (8 * N.of_nat (hlen_of c)))%N ->
  decode_segment_header c (write_header hd (hlen_of c) ++ rest) =
  Ok (header_of_data (is_some c) hd (checksum_koopman hd (hlen_of c)), rest).
Proof.
  intro H. unfold decode_segment_header, write_header. fold (hlen_of c).
  rewrite <- app_assoc, read_le_put_le by exact H.
  rewrite read_le_put_le by (rewrite crc24_len_eq; apply checksum_koopman_lt).
  rewrite N.eqb_refl. reflexivity.
Qed.

(* the payload part: [enc] as transmitted followed by its CRC-32 *)
Lemma decode_written_payload c h enc rest : bytes_ok enc ->
  (if match c with None => true | Some _ => compressed_len h =? 0 end then uncompressed_len h else compressed_len h) = Z.of_nat (length enc) ->
  decode_segment_payload c h (enc ++ write_crc32 (checksum_ieee enc) ++ rest) =
  match c with
  | None => Ok ((enc, checksum_ieee enc), rest)
  | Some k => if compressed_len h =? 0 then Ok ((enc, checksum_ieee enc), rest)
              else match dcmp k enc with Err => Err | Ok data => Ok ((data, checksum_ieee enc), rest) end
  end.
Proof.
  intros Hb Hl. unfold decode_segment_payload. rewrite Hl, Nat2Z.id, split_at_app.
  unfold write_crc32. rewrite read_le_put_le by (rewrite crc32_len_eq; apply checksum_ieee_lt; exact Hb).
  rewrite N.eqb_refl. cbn [negb]. destruct c as [k|]; reflexivity.
Qed.

(* ---------------------------------------------------------------- C06: refusal *)
Theorem encode_refuses_long c sc p : Z.of_nat (length p) > 131071 -> encode_segment c sc p = Err.
Proof.
  intro H. unfold encode_segment, encode_segment_full. change MaxPayloadLength with 131071.
  replace (Z.of_nat (length p) >? 131071) with true by lia. reflexivity.
Qed.

(* ---------------------------------------------------------------- C06: round trip, nil compressor *)
Definition decoded (sc : bool) (ulen clen : Z) (hd : N) (hlen : nat) (p : list Z) (transmitted : list Z) : segment :=
  mkSegment (mkHeader sc ulen clen (checksum_koopman hd hlen)) p (checksum_ieee transmitted).

Theorem roundtrip_none sc p rest : bytes_ok p -> Z.of_nat (length p) <= 131071 ->
  exists bs, encode_segment None sc p = Ok bs /\
    decode_segment None (bs ++ rest) =
    Ok (decoded sc (Z.of_nat (length p)) 0 (header_data_uncompressed sc (Z.of_nat (length p))) 3 p p, rest).
Proof.
  intros Hb Hl. unfold encode_segment, encode_segment_full. change MaxPayloadLength with 131071.
  replace (Z.of_nat (length p) >? 131071) with false by lia.
  rewrite wrap_i32_small by lia.
  eexists. split; [reflexivity|].
  unfold decode_segment. rewrite <- !app_assoc.
  pose proof (header_data_uncompressed_arith sc (Z.of_nat (length p)) ltac:(lia)) as Ha.
  rewrite (decode_written_header None).
  2:{ rewrite Ha. change (2 ^ (8 * N.of_nat (hlen_of None)))%N with 16777216%N. destruct sc; cbn [b2n]; lia. }
  cbn [is_some hlen_of]. rewrite hod_u by lia.
  rewrite (decode_written_payload None) by (try assumption; reflexivity).
  reflexivity.
Qed.

(* ---------------------------------------------------------------- C06: round trip with a compressor under its contract *)
(* what the segment codec needs from a PayloadCompressor on the payload p *)
Definition comp_contract (k : compressor) (p : list Z) : Prop :=
  exists cp, cmp k p = Ok cp /\ bytes_ok cp /\ Z.of_nat (length cp) < 2147483648 /\
             (p <> [] -> cp <> []) /\ dcmp k cp = Ok p.

Definition compressed_len_of (p cp : list Z) : Z :=
  if Z.of_nat (length cp) <=? Z.of_nat (length p) then Z.of_nat (length cp) else 0.

Theorem roundtrip_comp k sc p rest : bytes_ok p -> Z.of_nat (length p) <= 131071 -> comp_contract k p ->
  exists bs cp, cmp k p = Ok cp /\ encode_segment (Some k) sc p = Ok bs /\
    exists hd transmitted,
    decode_segment (Some k) (bs ++ rest) =
    Ok (decoded sc (Z.of_nat (length p)) (compressed_len_of p cp) hd 5 p transmitted, rest).
Proof.
  intros Hb Hl (cp & Hc & Hcb & Hcl & Hne & Hd).
  unfold encode_segment, encode_segment_full. change MaxPayloadLength with 131071.
  replace (Z.of_nat (length p) >? 131071) with false by lia.
  rewrite Hc. rewrite !wrap_i32_small by lia.
  unfold compressed_len_of.
  destruct (Z.leb_spec (Z.of_nat (length cp)) (Z.of_nat (length p))) as [Hle|Hgt].
  - (* the compressed payload is transmitted *)
    exists (write_header (header_data_compressed sc (Z.of_nat (length p)) (Z.of_nat (length cp))) hlen_compressed ++ cp ++ write_crc32 (checksum_ieee cp)), cp.
    split; [reflexivity|]. split; [reflexivity|].
    exists (header_data_compressed sc (Z.of_nat (length p)) (Z.of_nat (length cp))), cp.
    replace (Z.of_nat (length cp) <=? Z.of_nat (length p)) with true by lia.
    unfold decode_segment. rewrite <- !app_assoc.
    pose proof (header_data_compressed_arith sc (Z.of_nat (length p)) (Z.of_nat (length cp)) ltac:(lia) ltac:(lia)) as Ha.
    rewrite (decode_written_header (Some k)).
    2:{ rewrite Ha. change (2 ^ (8 * N.of_nat (hlen_of (Some k))))%N with 1099511627776%N. destruct sc; cbn [b2n]; lia. }
    cbn [is_some hlen_of]. rewrite hod_c by lia.
    destruct (Z.eqb_spec (Z.of_nat (length p)) 0) as [E0|Hnz].
    + (* empty payload whose compressed form is empty as well *)
      assert (Hp : p = []) by (destruct p; [reflexivity | cbn [length] in E0; lia]).
      assert (Hcp : cp = []) by (destruct cp; [reflexivity | subst p; cbn [length] in Hle; lia]).
      subst p cp.
      rewrite (decode_written_payload (Some k)) by (try assumption; reflexivity).
      cbn [compressed_len Z.eqb length Z.of_nat]. reflexivity.
    + assert (Hcp : cp <> []) by (apply Hne; intro; subst p; apply Hnz; reflexivity).
      assert (Hcl0 : Z.of_nat (length cp) <> 0) by (destruct cp; [contradiction | cbn [length]; lia]).
      rewrite (decode_written_payload (Some k)).
      2: assumption.
      2:{ cbn [compressed_len uncompressed_len]. replace (Z.of_nat (length cp) =? 0) with false by (symmetry; apply Z.eqb_neq; assumption). reflexivity. }
      cbn [compressed_len]. replace (Z.of_nat (length cp) =? 0) with false by (symmetry; apply Z.eqb_neq; assumption).
      rewrite Hd. reflexivity.
  - (* compression is not worth it: the payload itself is transmitted, uncompressed-length field 0 *)
    exists (write_header (header_data_compressed sc 0 (Z.of_nat (length p))) hlen_compressed ++ p ++ write_crc32 (checksum_ieee p)), cp.
    split; [reflexivity|]. split; [reflexivity|].
    exists (header_data_compressed sc 0 (Z.of_nat (length p))), p.
    replace (Z.of_nat (length cp) <=? Z.of_nat (length p)) with false by lia.
    unfold decode_segment. rewrite <- !app_assoc.
    pose proof (header_data_compressed_arith sc 0 (Z.of_nat (length p)) ltac:(lia) ltac:(lia)) as Ha.
    rewrite (decode_written_header (Some k)).
    2:{ rewrite Ha. change (2 ^ (8 * N.of_nat (hlen_of (Some k))))%N with 1099511627776%N. destruct sc; cbn [b2n]; lia. }
    cbn [is_some hlen_of]. rewrite hod_c by lia.
    change (0 =? 0) with true. cbn iota.
    rewrite (decode_written_payload (Some k)) by (try assumption; reflexivity).
    cbn [compressed_len Z.eqb]. reflexivity.
Qed.

(* ---------------------------------------------------------------- C04 support: totality of the segment decoder
   The model's result type has two outcomes only (Ok | Err): there is no Panic outcome because the Go decoder has no
   panic site - its only allocation [make([]byte, length)] takes a length read from a 17-bit field
   ([decoded_lengths_in_range]) - and no fuel, because every loop of the decoder is bounded by a constant or by
   that length (the Gallina functions are structurally recursive on it).  The decompressor is any total function. *)
Theorem decode_segment_total : forall (c : option compressor) (bs : list Z),
  (exists s rest, decode_segment c bs = Ok (s, rest)) \/ decode_segment c bs = Err.
Proof. intros c bs. destruct (decode_segment c bs) as [[s r]|]; [left; exists s, r; reflexivity | right; reflexivity]. Qed.

Lemma header_of_data_lengths compressed hd crc :
  0 <= uncompressed_len (header_of_data compressed hd crc) <= 131071 /\
  0 <= compressed_len (header_of_data compressed hd crc) <= 131071.
Proof.
  unfold header_of_data. destruct compressed.
  - rewrite !land_max, !shiftr17.
    pose proof (N.mod_upper_bound hd 131072 ltac:(lia)). pose proof (N.mod_upper_bound (hd / 131072) 131072 ltac:(lia)).
    destruct (N.eqb_spec ((hd / 131072) mod 131072) 0); cbn [uncompressed_len compressed_len];
      rewrite !wrap_i32_small by lia; lia.
  - rewrite land_max. pose proof (N.mod_upper_bound hd 131072 ltac:(lia)).
    cbn [uncompressed_len compressed_len]. rewrite !wrap_i32_small by lia. lia.
Qed.

(* the length handed to make([]byte, length) is never negative nor above 131071, for every input *)
Theorem decoded_lengths_in_range c bs h r : decode_segment_header c bs = Ok (h, r) ->
  0 <= uncompressed_len h <= 131071 /\ 0 <= compressed_len h <= 131071.
Proof.
  unfold decode_segment_header. intro H.
  destruct (read_le _ bs) as [[hd r1]|]; [|discriminate].
  destruct (read_le crc24_len r1) as [[ex r2]|]; [|discriminate].
  destruct (negb _); [discriminate|]. injection H as <- _. apply header_of_data_lengths.
Qed.
