(* Reuse of a stream id while the earlier request with that id is unanswered - in particular while it is DONE but
   unanswered (read timeout, too many pending pages): the last clause of C09 at history level, and C10's "id reuse
   racing with a late page": the frames that arrive late for that id reach no other request.
   Subject: coq/model/Inflight.v (onOutgoingFrameEnqueued / addInFlight test `found`, not `found && !done`). *)
From Coq Require Import ZArith List Bool Lia.
From GCNP Require Import model.Inflight proofs.Inflight proofs.InflightInv proofs.InflightC09 proofs.InflightC10.
Import ListNotations.
Open Scope Z_scope.

(* ------------------------------------------------------------------ registered until answered, over a history *)
Lemma stays_registered_run s ops k r :
  Inv s -> In (k, r) (inflight s) -> Forall (fun o => ~ removes o k) ops ->
  exists r', In (k, r') (inflight (run s ops)) /\ same_id r r'.
Proof.
  revert s r. induction ops as [|o ops IH]; intros s r HI Hin HF.
  - exists r. split; [exact Hin|apply same_id_refl].
  - inversion HF as [|? ? Ho HF']; subst. rewrite run_cons.
    destruct (stays_registered s o k r (inv_nodup s HI) Hin Ho) as (r1 & Hin1 & Hs1).
    destruct (IH (fst (step s o)) r1 (step_inv s o HI) Hin1 HF') as (r2 & Hin2 & Hs2).
    exists r2. split; [exact Hin2|eapply same_id_trans; eauto].
Qed.

(* an explicit send with the id of a registered request is refused by the `found` test (or by the capacity test that
   precedes it) and changes nothing; the handler cannot be closed, because a closed handler has an empty map *)
Lemma explicit_reuse_refused_open s k :
  Inv s -> k <> 0 -> In k (keys (inflight s)) ->
  exists e, step s (SendExplicit k) = (s, ORefused e) /\ (e = EInUse \/ e = ETooMany).
Proof.
  intros HI Hk Hin.
  assert (Hc : closed s = false).
  { destruct (closed s) eqn:Hc; [|reflexivity]. rewrite (inv_closed s HI Hc) in Hin. destruct Hin. }
  cbn [step SendExplicit]. unfold enqueue; rewrite ?check2_eq. rewrite Hc.
  destruct (Z.eqb_spec k 0); [contradiction|].
  unfold check. destruct (_ =? _); [exists ETooMany; auto|].
  apply memZ_true_iff in Hin. rewrite Hin. exists EInUse. auto.
Qed.

(* from the acceptance of a request under k until its final frame (or Close), whatever happens in between - timeouts
   (Tick), overflow (non-final pages nobody reads), other traffic - the same request stays registered under k and every
   explicit send with id k is refused, leaving the state as it is *)
Theorem reuse_refused_until_answered s ops k r :
  Inv s -> k <> 0 -> In (k, r) (inflight s) -> Forall (fun o => ~ removes o k) ops ->
  (exists r', In (k, r') (inflight (run s ops)) /\ same_id r r') /\
  exists e, step (run s ops) (SendExplicit k) = (run s ops, ORefused e) /\ (e = EInUse \/ e = ETooMany).
Proof.
  intros HI Hk Hin HF.
  destruct (stays_registered_run s ops k r HI Hin HF) as (r' & Hin' & Hs).
  split; [exists r'; auto|].
  apply explicit_reuse_refused_open; [now apply run_inv|exact Hk|eapply In_keys; eauto].
Qed.

(* ------------------------------------------------------------------ a failed request keeps its id, its pages, its error *)
Definition frozen (r r' : req) : Prop :=
  same_id r r' /\ done r' = true /\ queue r' = queue r /\ err r' = err r /\ chan_closed r' = chan_closed r.

Lemma frozen_refl r : done r = true -> frozen r r.
Proof. intros Hd. repeat split; auto. Qed.

Lemma frozen_trans a b c : frozen a b -> frozen b c -> frozen a c.
Proof.
  intros (Hs1 & Hd1 & Hq1 & He1 & Hc1) (Hs2 & Hd2 & Hq2 & He2 & Hc2).
  split; [eapply same_id_trans; eauto|]. repeat split; congruence.
Qed.

Theorem failed_request_is_frozen s o k r :
  NoDup (keys (inflight s)) -> In (k, r) (inflight s) -> done r = true -> ~ removes o k ->
  exists r', In (k, r') (inflight (fst (step s o))) /\ frozen r r'.
Proof.
  intros Hnd Hin Hd Hnr. destruct o; cbn [step].
  - exists r. split; [now apply enqueue_keeps|now apply frozen_refl].
  - exists r. split; [|now apply frozen_refl]. unfold csend.
    pose proof (enqueue_keeps s k0 k r Hin) as H. destruct (enqueue s k0) as [s1 o]. cbn [fst] in H.
    destruct o; try exact H. destruct (_ <? _); exact H.
  - exists r. split; [|now apply frozen_refl]. unfold ctake. destruct (outq s); exact Hin.
  - unfold deliver. destruct (closed s); [exists r; split; [assumption|now apply frozen_refl]|].
    destruct (lookup k0 (inflight s)) as [r0|] eqn:Hl; [|exists r; split; [assumption|now apply frozen_refl]].
    destruct (Z.eq_dec k0 k) as [->|Hne].
    + rewrite (In_lookup _ _ _ Hnd Hin) in Hl. inversion Hl; subst r0.
      destruct last; [exfalso; apply Hnr; left; now exists tag|].
      rewrite (on_frame_dead _ _ _ _ _ _ Hd). cbn [fst set_inflight inflight].
      exists r. split; [|now apply frozen_refl].
      apply lookup_Some_In. apply lookup_update_key_same. eapply In_keys; eauto.
    + exists r. split; [|now apply frozen_refl]. destruct last.
      * assert (Hin' : In (k, r) (remove_key k0 (inflight s))) by (apply In_remove_key; auto).
        destruct (managed r0).
        -- unfold release. cbn [set_inflight pool cfgN]. destruct (_ <? _).
           ++ destruct (on_frame _ _ _ _ _ _). exact Hin'.
           ++ destruct (on_frame _ _ _ _ _ _). exact Hin'.
        -- destruct (on_frame _ _ _ _ _ _). exact Hin'.
      * destruct (on_frame _ _ _ _ _ _) as [r' o]. cbn [fst set_inflight inflight].
        apply In_update_key_other; auto.
  - exists r. split; [exact Hin|now apply frozen_refl].
  - unfold recv. destruct (lookup k0 (inflight s)) as [r0|] eqn:Hl; [|exists r; split; [assumption|now apply frozen_refl]].
    destruct (nth_error _ _); [|exists r; split; [assumption|now apply frozen_refl]]. cbn [fst set_inflight inflight].
    destruct (Z.eq_dec k0 k) as [->|Hne].
    + rewrite (In_lookup _ _ _ Hnd Hin) in Hl. inversion Hl; subst r0.
      exists (req_take r). split; [|split; [apply req_take_same|repeat split; auto]].
      apply lookup_Some_In. apply lookup_update_key_same. eapply In_keys; eauto.
    + exists r. split; [|now apply frozen_refl]. apply In_update_key_other; auto.
  - unfold tick. cbn [fst inflight]. exists r. split; [|now apply frozen_refl].
    rewrite <- (fire_done (now s + d) r Hd) at 1.
    apply (In_map_vals (fire (now s + d))). now exists r.
  - exfalso. apply Hnr. now right.
Qed.

Lemma failed_request_is_frozen_run s ops k r :
  Inv s -> In (k, r) (inflight s) -> done r = true -> Forall (fun o => ~ removes o k) ops ->
  exists r', In (k, r') (inflight (run s ops)) /\ frozen r r'.
Proof.
  revert s r. induction ops as [|o ops IH]; intros s r HI Hin Hd HF.
  - exists r. split; [exact Hin|now apply frozen_refl].
  - inversion HF as [|? ? Ho HF']; subst. rewrite run_cons.
    destruct (failed_request_is_frozen s o k r (inv_nodup s HI) Hin Hd Ho) as (r1 & Hin1 & Hf1).
    assert (Hd1 : done r1 = true) by (destruct Hf1 as (_ & H & _); exact H).
    destruct (IH (fst (step s o)) r1 (step_inv s o HI) Hin1 Hd1 HF') as (r2 & Hin2 & Hf2).
    exists r2. split; [exact Hin2|eapply frozen_trans; eauto].
Qed.

(* C10, id reuse racing with a late page: request A (registered under k) has failed without its final frame. Over
   every continuation that does not contain A's final frame or Close,
     - the entry under k is still A (same creation number), done, with exactly the pages and the error it had: no frame
       sent for k in the meantime was delivered to anybody (a delivery goes to the entry under its id: C10_deliver_frame_condition);
     - no other request was registered under k: an explicit send with id k is refused and changes nothing
       (a managed send never yields a registered id in any state: C09_managed_send_never_duplicates);
     - the next frame for k, final or not, is refused with "request closed", changes no other entry of the map, and the
       final one unregisters A and nobody else. *)
Theorem late_frames_reach_no_later_request s ops k r last tag :
  Inv s -> k <> 0 -> In (k, r) (inflight s) -> done r = true -> Forall (fun o => ~ removes o k) ops ->
  let s1 := run s ops in
  exists r1, lookup k (inflight s1) = Some r1 /\ frozen r r1 /\
    (exists e, step s1 (SendExplicit k) = (s1, ORefused e) /\ (e = EInUse \/ e = ETooMany)) /\
    snd (step s1 (Deliver k last tag)) = ODeliverErr ERequestClosed /\
    (forall k', k' <> k -> lookup k' (inflight (fst (step s1 (Deliver k last tag)))) = lookup k' (inflight s1)) /\
    (if last then lookup k (inflight (fst (step s1 (Deliver k last tag)))) = None /\
                  finished (fst (step s1 (Deliver k last tag))) = finished s1 ++ [r1]
     else lookup k (inflight (fst (step s1 (Deliver k last tag)))) = Some r1 /\
          finished (fst (step s1 (Deliver k last tag))) = finished s1).
Proof.
  intros HI Hk Hin Hd HF s1.
  destruct (failed_request_is_frozen_run s ops k r HI Hin Hd HF) as (r1 & Hin1 & Hf1).
  fold s1 in Hin1.
  assert (HI1 : Inv s1) by (now apply run_inv).
  assert (Hl1 : lookup k (inflight s1) = Some r1) by (apply In_lookup; [apply (inv_nodup s1 HI1)|exact Hin1]).
  assert (Hd1 : done r1 = true) by (destruct Hf1 as (_ & H & _); exact H).
  assert (Hc1 : closed s1 = false).
  { destruct (closed s1) eqn:Hc; [|reflexivity]. rewrite (inv_closed s1 HI1 Hc) in Hin1. destruct Hin1. }
  exists r1. split; [exact Hl1|]. split; [exact Hf1|].
  split; [apply explicit_reuse_refused_open; [exact HI1|exact Hk|eapply In_keys; eauto]|].
  destruct (deliver_frame_condition s1 k last tag r1 HI1 Hc1 Hl1) as (Ho & Hother & Hpos & _).
  rewrite (on_frame_dead _ _ _ _ _ _ Hd1) in *. cbn [fst snd] in *.
  split; [exact Ho|]. split; [exact Hother|].
  destruct last.
  - destruct Hpos as (Hn & Hf & _). split; assumption.
  - destruct Hpos as (Hs & Hf & _). split; assumption.
Qed.
