(* Scalar codecs: for every value of the canonical intermediate type, the encoder's bytes are the specification's (C12),
   and the decoder returns the value (C11).  Uses CqlVarintProofs (writeBigInt) and CqlVintProofs (vints). *)
From Coq Require Import ZArith List Lia Bool.
From Coq Require Import ZifyBool ZifyNat.
From GCNP Require Import base.GoInt base.Bytes spec.SpecCql model.CqlWire model.CqlTyping
  proofs.CqlBytesLemmas proofs.CqlVarintProofs proofs.CqlVintProofs.
Import ListNotations.
Open Scope Z_scope.

Local Ltac Zify.zify_post_hook ::= Z.div_mod_to_equations.

Lemma spec_twos_be n z : (0 < n)%nat -> fits_twos n z = true -> spec_twos n z = Some (be_bytes n z).
Proof.
  intros Hn H. unfold spec_twos. rewrite H. f_equal.
  rewrite twos_mod by assumption. rewrite <- be_bytes_spec_uint. apply be_bytes_mod.
Qed.

Lemma spec_unsigned_be n z : fits_unsigned n z = true -> spec_unsigned n z = Some (be_bytes n z).
Proof. intro H. unfold spec_unsigned. rewrite H. rewrite <- be_bytes_spec_uint. reflexivity. Qed.

Lemma be_bytes_wrap_u n bits z : 2 ^ bits = 256 ^ Z.of_nat n -> be_bytes n (wrap_u bits z) = be_bytes n z.
Proof. intro E. unfold wrap_u. rewrite E. apply be_bytes_mod. Qed.

Lemma in_i_fits n bits z : bits = 8 * Z.of_nat n -> in_i bits z = fits_twos n z.
Proof. intros ->. reflexivity. Qed.

Lemma in_i_32_64 z : in_i 32 z = true -> in_i 64 z = true.
Proof. unfold in_i. change (2 ^ (32 - 1)) with 2147483648. change (2 ^ (64 - 1)) with 9223372036854775808. lia. Qed.

(* wrap_i inverts the residue of an in-range value *)
Lemma wrap_i_mod bits z : 0 < bits -> in_i bits z = true -> wrap_i bits (z mod 2 ^ bits) = z.
Proof.
  intros Hb H. unfold in_i in H. unfold wrap_i.
  assert (E: 2 ^ bits = 2 * 2 ^ (bits - 1)).
  { replace bits with (1 + (bits - 1)) at 1 by lia. rewrite Z.pow_add_r by lia. reflexivity. }
  assert (0 < 2 ^ (bits - 1)) by (apply Z.pow_pos_nonneg; lia).
  rewrite Zplus_mod_idemp_l. set (M := 2 ^ bits) in *. set (Hf := 2 ^ (bits - 1)) in *.
  rewrite (Z.mod_small (z + Hf) M) by lia. lia.
Qed.

Lemma readFixed_be n bits z :
  (0 < n)%nat -> 2 ^ bits = 256 ^ Z.of_nat n -> 0 < bits -> in_i bits z = true ->
  readFixed (Z.of_nat n) (wrap_i bits) (Some (be_bytes n z)) = OK (Some z).
Proof.
  intros Hn E Hb H. unfold readFixed. cbn [src_len src_bytes]. rewrite be_bytes_zlen.
  replace (Z.of_nat n =? 0) with false by lia. rewrite Z.eqb_refl. cbn [negb].
  rewrite be_val_be_bytes, <- E, wrap_i_mod by assumption. reflexivity.
Qed.

Lemma readFixed_unsigned n z :
  (0 < n)%nat -> fits_unsigned n z = true ->
  readFixed (Z.of_nat n) (fun x => x) (Some (be_bytes n z)) = OK (Some z).
Proof.
  intros Hn H. unfold readFixed. cbn [src_len src_bytes]. rewrite be_bytes_zlen.
  replace (Z.of_nat n =? 0) with false by lia. rewrite Z.eqb_refl. cbn [negb].
  rewrite be_val_be_bytes. unfold fits_unsigned in H. rewrite Z.mod_small by lia. reflexivity.
Qed.

Lemma all_bytes_okb bs : all_bytes bs = bytes_okb bs.
Proof. reflexivity. Qed.

Lemma length_eqb_zlen {A} (l : list A) n : (List.length l =? n)%nat = (zlen l =? Z.of_nat n).
Proof. unfold zlen. destruct (Nat.eqb_spec (List.length l) n); lia. Qed.

Lemma compactV4_canonical bs :
  ((zlen bs =? 4) || ((zlen bs =? 16) && negb (is_v4mapped bs))) = true -> compactV4 bs = bs.
Proof.
  intro H. unfold compactV4, ip_to4. unfold is_v4mapped in H.
  destruct (Z.eqb_spec (zlen bs) 4); [reflexivity|].
  destruct (Z.eqb_spec (zlen bs) 16); cbn [orb andb] in *; [|reflexivity].
  destruct (forallb (Z.eqb 0) (firstn 10 bs) && (nth 10 bs 0 =? 255) && (nth 11 bs 0 =? 255)); [discriminate|reflexivity].
Qed.

(* ------------------------------------------------------------------------------------------------------------------
   C12, scalars: well-typed value => the encoder succeeds with exactly the specification's bytes *)
Theorem enc_scalar_spec s x : wt_scalar s x = true ->
  exists b, enc_scalar s x = OK (Some b) /\ spec_scalar s x = Some b.
Proof.
  intro H. destruct s, x; try discriminate H; cbn [wt_scalar] in H; unfold enc_scalar, spec_scalar, guard.
  - (* ascii *) rewrite all_bytes_okb, H. eauto.
  - (* bigint *) rewrite H. eexists; split; [reflexivity|]. rewrite spec_twos_be by (try lia; rewrite <- H; reflexivity).
    unfold writeInt64, wrap_u64. rewrite be_bytes_wrap_u by reflexivity. reflexivity.
  - (* blob *) rewrite all_bytes_okb, H. eauto.
  - (* boolean *) eauto.
  - (* counter *) rewrite H. eexists; split; [reflexivity|]. rewrite spec_twos_be by (try lia; rewrite <- H; reflexivity).
    unfold writeInt64, wrap_u64. rewrite be_bytes_wrap_u by reflexivity. reflexivity.
  - (* date *) rewrite H. eexists; split; [reflexivity|].
    rewrite spec_unsigned_be.
    + unfold writeInt32, wrap_u32, wrap_i32. rewrite wrap_u_wrap_i by lia. rewrite be_bytes_wrap_u by reflexivity.
      repeat f_equal; lia.
    + unfold fits_unsigned, in_i in *. change (2 ^ (32 - 1)) with 2147483648 in H. change (256 ^ Z.of_nat 4) with 4294967296. change (2 ^ 31) with 2147483648. lia.
  - (* decimal *) rewrite H. eexists; split; [reflexivity|]. unfold spec_int.
    rewrite spec_twos_be by (try lia; rewrite <- H; reflexivity). cbn [obind].
    unfold wrap_u32. rewrite be_bytes_wrap_u by reflexivity. rewrite writeBigInt_spec. reflexivity.
  - (* double *) rewrite H. eexists; split; [reflexivity|]. apply spec_unsigned_be. rewrite <- H. reflexivity.
  - (* duration *) rewrite H. apply andb_true_iff in H. destruct H as (H & Hn). apply andb_true_iff in H. destruct H as (Hm & Hd).
    eexists; split; [reflexivity|].
    replace (fits_twos 4 months) with true by (rewrite <- Hm; reflexivity).
    replace (fits_twos 4 days) with true by (rewrite <- Hd; reflexivity). cbn [andb].
    rewrite !writeVint_spec by (first [assumption | apply in_i_32_64; assumption]). reflexivity.
  - (* float *) rewrite H. eexists; split; [reflexivity|]. apply spec_unsigned_be. rewrite <- H. reflexivity.
  - (* inet *) apply andb_true_iff in H. destruct H as (Hb & Hl). rewrite !(compactV4_canonical bs Hl).
    assert (Hlen: zlen bs = 4 \/ zlen bs = 16) by lia.
    replace (zlen bs =? 0) with false by lia. replace ((zlen bs =? 4) || (zlen bs =? 16)) with true by lia.
    eexists; split; [reflexivity|]. rewrite all_bytes_okb, Hb, !length_eqb_zlen. cbn [andb].
    replace ((zlen bs =? Z.of_nat 4) || (zlen bs =? Z.of_nat 16)) with true by lia. reflexivity.
  - (* int *) rewrite H. eexists; split; [reflexivity|]. rewrite spec_twos_be by (try lia; rewrite <- H; reflexivity).
    unfold writeInt32, wrap_u32. rewrite be_bytes_wrap_u by reflexivity. reflexivity.
  - (* smallint *) rewrite H. eexists; split; [reflexivity|]. rewrite spec_twos_be by (try lia; rewrite <- H; reflexivity).
    unfold writeInt16, wrap_u16. rewrite be_bytes_wrap_u by reflexivity. reflexivity.
  - (* time *)
    assert (Hi: in_i 64 z = true) by (unfold in_i; change (2 ^ (64 - 1)) with 9223372036854775808; lia).
    rewrite Hi. eexists; split; [reflexivity|]. rewrite spec_twos_be by (try lia; rewrite <- Hi; reflexivity).
    unfold writeInt64, wrap_u64. rewrite be_bytes_wrap_u by reflexivity. reflexivity.
  - (* timestamp *) rewrite H. eexists; split; [reflexivity|]. rewrite spec_twos_be by (try lia; rewrite <- H; reflexivity).
    unfold writeInt64, wrap_u64. rewrite be_bytes_wrap_u by reflexivity. reflexivity.
  - (* timeuuid *) apply andb_true_iff in H. destruct H as (Hb & Hl). rewrite Hl. eexists; split; [reflexivity|].
    rewrite all_bytes_okb, Hb, length_eqb_zlen. cbn [andb]. replace (zlen bs =? Z.of_nat 16) with true by lia. reflexivity.
  - (* tinyint *) rewrite H. eexists; split; [reflexivity|]. rewrite spec_twos_be by (try lia; rewrite <- H; reflexivity).
    unfold writeInt8, wrap_u8. change [wrap_u 8 z] with (be_bytes 1 z). reflexivity.
  - (* uuid *) apply andb_true_iff in H. destruct H as (Hb & Hl). rewrite Hl. eexists; split; [reflexivity|].
    rewrite all_bytes_okb, Hb, length_eqb_zlen. cbn [andb]. replace (zlen bs =? Z.of_nat 16) with true by lia. reflexivity.
  - (* varchar *) rewrite all_bytes_okb, H. eauto.
  - (* varint *) eexists; split; [reflexivity|]. rewrite writeBigInt_spec. reflexivity.
  - (* custom *) rewrite all_bytes_okb, H. eauto.
Qed.

(* ------------------------------------------------------------------------------------------------------------------
   C11, scalars: decoding the encoder's bytes returns the value *)
Lemma firstn_be n x r : firstn n (be_bytes n x ++ r) = be_bytes n x.
Proof. rewrite <- (be_bytes_length n x) at 1. apply firstn_app_exact. Qed.
Lemma skipn_be n x r : skipn n (be_bytes n x ++ r) = r.
Proof. rewrite <- (be_bytes_length n x) at 1. apply skipn_app_exact. Qed.

Lemma ok_some_inj {A} (a b : A) : OK (Some a) = OK (Some b) -> a = b.
Proof. intro H. congruence. Qed.

Theorem dec_enc_scalar s x b : wt_scalar s x = true -> enc_scalar s x = OK (Some b) -> dec_scalar s (Some b) = OK x.
Proof.
  intros H E. destruct s, x; try discriminate H; cbn [wt_scalar] in H; unfold enc_scalar, guard in E; unfold dec_scalar, lift_int.
  - (* ascii *) apply ok_some_inj in E; subst b. reflexivity.
  - (* bigint *) rewrite H in E. apply ok_some_inj in E; subst b. unfold writeInt64, wrap_u64. rewrite be_bytes_wrap_u by reflexivity.
    unfold readInt64, wrap_i64. rewrite (readFixed_be 8 64) by (reflexivity || lia || assumption). reflexivity.
  - (* blob *) apply ok_some_inj in E; subst b. reflexivity.
  - (* boolean *) apply ok_some_inj in E; subst b. destruct b0; reflexivity.
  - (* counter *) rewrite H in E. apply ok_some_inj in E; subst b. unfold writeInt64, wrap_u64. rewrite be_bytes_wrap_u by reflexivity.
    unfold readInt64, wrap_i64. rewrite (readFixed_be 8 64) by (reflexivity || lia || assumption). reflexivity.
  - (* date *) rewrite H in E. apply ok_some_inj in E; subst b. unfold writeInt32, wrap_u32, wrap_i32. rewrite wrap_u_wrap_i by lia.
    rewrite be_bytes_wrap_u by reflexivity.
    unfold readInt32, readFixed. cbn [src_len src_bytes]. rewrite be_bytes_zlen. cbn [Z.of_nat Z.eqb negb Pos.of_succ_nat Pos.succ Pos.eqb bindo].
    rewrite be_val_be_bytes. unfold in_i in H. change (2 ^ (32 - 1)) with 2147483648 in H.
    f_equal. f_equal. unfold wrap_i32, wrap_i. change (2 ^ 31) with 2147483648. change (2 ^ 32) with 4294967296. change (2 ^ (32 - 1)) with 2147483648.
    change (256 ^ Z.of_nat 4) with 4294967296. lia.
  - (* decimal *) rewrite H in E. apply ok_some_inj in E; subst b. cbn [src_len src_bytes].
    pose proof (writeBigInt_length_pos unscaled) as Hp.
    rewrite zlen_app, be_bytes_zlen.
    replace (Z.of_nat 4 + zlen (writeBigInt unscaled) =? 0) with false by lia.
    replace (Z.of_nat 4 + zlen (writeBigInt unscaled) <=? 4) with false by lia.
    rewrite firstn_be, skipn_be, readBigInt_writeBigInt.
    unfold wrap_u32. rewrite be_bytes_wrap_u by reflexivity. rewrite be_val_be_bytes.
    change (256 ^ Z.of_nat 4) with (2 ^ 32). unfold wrap_i32. rewrite wrap_i_mod by (lia || assumption). reflexivity.
  - (* double *) rewrite H in E. apply ok_some_inj in E; subst b. unfold readFloat64.
    rewrite (readFixed_unsigned 8) by (try lia; rewrite <- H; reflexivity). reflexivity.
  - (* duration *) rewrite H in E. apply ok_some_inj in E; subst b. apply andb_true_iff in H. destruct H as (H & Hn). apply andb_true_iff in H. destruct H as (Hm & Hd).
    unfold readDuration. cbn [src_len src_bytes].
    pose proof (writeVint_nonempty months (in_i_32_64 _ Hm)) as Hp.
    rewrite !zlen_app. pose proof (zlen_nonneg (writeVint days)). pose proof (zlen_nonneg (writeVint nanos)).
    replace (zlen (writeVint months) + (zlen (writeVint days) + zlen (writeVint nanos)) =? 0) with false by lia.
    rewrite readVint_writeVint by (apply in_i_32_64; assumption). cbn [bindo fst snd].
    rewrite readVint_writeVint by (apply in_i_32_64; assumption). cbn [bindo fst snd].
    rewrite <- (app_nil_r (writeVint nanos)). rewrite readVint_writeVint by assumption. cbn [bindo fst snd].
    unfold in_i in Hm, Hd. change (2 ^ (32 - 1)) with 2147483648 in Hm, Hd. change (2 ^ 31) with 2147483648.
    cbn [zlen List.length Z.of_nat Z.eqb].
    destruct ((months <? _) || (_ <? months)) eqn:C1; [lia|].
    destruct ((days <? _) || (_ <? days)) eqn:C2; [lia|].
    unfold wrap_i32, wrap_i. change (2 ^ 32) with 4294967296. change (2 ^ (32 - 1)) with 2147483648.
    f_equal. f_equal; lia.
  - (* float *) rewrite H in E. apply ok_some_inj in E; subst b. unfold readFloat32.
    rewrite (readFixed_unsigned 4) by (try lia; rewrite <- H; reflexivity). reflexivity.
  - (* inet *) apply andb_true_iff in H. destruct H as (Hb & Hl). rewrite !(compactV4_canonical bs Hl) in E.
    assert (Hlen: zlen bs = 4 \/ zlen bs = 16) by lia.
    replace (zlen bs =? 0) with false in E by lia. replace ((zlen bs =? 4) || (zlen bs =? 16)) with true in E by lia.
    apply ok_some_inj in E; subst b. cbn [src_len src_bytes].
    replace (zlen bs =? 0) with false by lia. replace ((zlen bs =? 4) || (zlen bs =? 16)) with true by lia.
    rewrite (compactV4_canonical bs Hl). reflexivity.
  - (* int *) rewrite H in E. apply ok_some_inj in E; subst b. unfold writeInt32, wrap_u32. rewrite be_bytes_wrap_u by reflexivity.
    unfold readInt32, wrap_i32. rewrite (readFixed_be 4 32) by (reflexivity || lia || assumption). reflexivity.
  - (* smallint *) rewrite H in E. apply ok_some_inj in E; subst b. unfold writeInt16, wrap_u16. rewrite be_bytes_wrap_u by reflexivity.
    unfold readInt16, wrap_i16. rewrite (readFixed_be 2 16) by (reflexivity || lia || assumption). reflexivity.
  - (* time *)
    assert (Hi: in_i 64 z = true) by (unfold in_i; change (2 ^ (64 - 1)) with 9223372036854775808; lia).
    rewrite Hi in E. apply ok_some_inj in E; subst b. unfold writeInt64, wrap_u64. rewrite be_bytes_wrap_u by reflexivity.
    unfold readInt64, wrap_i64. rewrite (readFixed_be 8 64) by (reflexivity || lia || assumption). cbn [bindo].
    replace ((z <? 0) || (86399999999999 <? z)) with false by lia. reflexivity.
  - (* timestamp *) rewrite H in E. apply ok_some_inj in E; subst b. unfold writeInt64, wrap_u64. rewrite be_bytes_wrap_u by reflexivity.
    unfold readInt64, wrap_i64. rewrite (readFixed_be 8 64) by (reflexivity || lia || assumption). reflexivity.
  - (* timeuuid *) apply andb_true_iff in H. destruct H as (Hb & Hl). rewrite Hl in E. apply ok_some_inj in E; subst b. cbn [src_len src_bytes].
    replace (zlen bs =? 0) with false by lia. rewrite Hl. reflexivity.
  - (* tinyint *) rewrite H in E. apply ok_some_inj in E; subst b. unfold writeInt8, wrap_u8. change [wrap_u 8 z] with (be_bytes 1 z).
    unfold readInt8, wrap_i8. rewrite (readFixed_be 1 8) by (reflexivity || lia || assumption). reflexivity.
  - (* uuid *) apply andb_true_iff in H. destruct H as (Hb & Hl). rewrite Hl in E. apply ok_some_inj in E; subst b. cbn [src_len src_bytes].
    replace (zlen bs =? 0) with false by lia. rewrite Hl. reflexivity.
  - (* varchar *) apply ok_some_inj in E; subst b. reflexivity.
  - (* varint *) apply ok_some_inj in E; subst b. rewrite readBigInt_writeBigInt. reflexivity.
  - (* custom *) apply ok_some_inj in E; subst b. reflexivity.
Qed.

(* NULL, scalars (C14): nil encodes to NULL; NULL and (for every type but the byte-string ones) the empty value decode to NULL *)
Lemma enc_scalar_null s : enc_scalar s VNull = OK None.
Proof. reflexivity. Qed.
Lemma dec_scalar_none s : dec_scalar s None = OK VNull.
Proof. destruct s; reflexivity. Qed.
Definition string_like (s : scalar) : bool := match s with SAscii | SVarchar | SBlob | SCustom => true | _ => false end.
Lemma dec_scalar_empty s : dec_scalar s (Some []) = OK (if string_like s then VBytes [] else VNull).
Proof. destruct s; reflexivity. Qed.
Lemma bindo_np {A B} (o : outcome A) (f : A -> outcome B) : o <> PANIC -> (forall a, f a <> PANIC) -> bindo o f <> PANIC.
Proof. intros Ho Hf. destruct o; cbn; [apply Hf|discriminate|congruence]. Qed.
Lemma readFixed_np w c src : readFixed w c src <> PANIC.
Proof. unfold readFixed. destruct (src_len src =? 0); [discriminate|]. destruct (negb (src_len src =? w)); discriminate. Qed.
Lemma lift_int_np r f : r <> PANIC -> lift_int r f <> PANIC.
Proof. intro H. unfold lift_int. apply bindo_np; [exact H|discriminate]. Qed.
Lemma readUnsignedVint_np src : readUnsignedVint src <> PANIC.
Proof.
  unfold readUnsignedVint. destruct src as [|fb rest]; [discriminate|].
  destruct (Z.land fb 128 =? 0); [discriminate|].
  destruct (zlen rest <? lz32 (wrap_u8 (255 - fb)) - 24); discriminate.
Qed.
Lemma readVint_np src : readVint src <> PANIC.
Proof. unfold readVint. apply bindo_np; [apply readUnsignedVint_np|discriminate]. Qed.
Lemma readDuration_np src : readDuration src <> PANIC.
Proof.
  unfold readDuration. destruct (src_len src =? 0); [discriminate|].
  apply bindo_np; [apply readVint_np|intro r1]. apply bindo_np; [apply readVint_np|intro r2]. apply bindo_np; [apply readVint_np|intro r3].
  repeat match goal with |- context [if ?c then _ else _] => destruct c end; discriminate.
Qed.

Lemma dec_scalar_no_panic s src : dec_scalar s src <> PANIC.
Proof.
  destruct s; unfold dec_scalar, readInt64, readInt32, readInt16, readInt8, readFloat32, readFloat64;
    try (apply lift_int_np; apply readFixed_np); try apply readDuration_np;
    try (repeat match goal with |- context [if ?c then _ else _] => destruct c end; discriminate).
  all: try discriminate.
  all: try (apply bindo_np; [apply readFixed_np|]; intros [z|]; [|discriminate]; destruct ((z <? 0) || (86399999999999 <? z)); discriminate).
Qed.
