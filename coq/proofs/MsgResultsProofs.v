(* RESULT messages (result.go): per message T the five obligations of notes/msg-style.md
     T_roundtrip, T_length, T_total, norm_T_ok, an Example of T_okb
   and the group theorems over enc/len/dec_result_group that the frame layer uses.
   Definitions of T_okb / norm_T / bytes_T: proofs/MsgResultsValid.v; metadata lemmas: proofs/MsgResultsMeta.v. *)
From Coq Require Import ZArith List Bool Lia.
From Coq Require Import ZifyBool ZifyNat.
From Coq Require String.
From GCNP Require Import base.GoInt base.Bytes base.Codec base.StrBytes gen.Constants_gen model.Prim model.DataType
  model.MsgTypes model.Frame model.MsgResults proofs.PrimProofs proofs.PrimTotal proofs.DataTypeProofs
  proofs.MsgResultsDataType proofs.MsgResultsValid proofs.MsgResultsMeta.
Import ListNotations.
Open Scope Z_scope.
Ltac Zify.zify_post_hook ::= Z.div_mod_to_equations.

Ltac eval_string_tests :=
  repeat match goal with
  | |- context [String.eqb ?a ?b] =>
      let v := eval vm_compute in (String.eqb a b) in
      match v with
      | true => change (String.eqb a b) with true
      | false => change (String.eqb a b) with false
      end
  end.
Ltac eval_string_tests_in H :=
  repeat match type of H with
  | context [String.eqb ?a ?b] =>
      let v := eval vm_compute in (String.eqb a b) in
      match v with
      | true => change (String.eqb a b) with true in H
      | false => change (String.eqb a b) with false in H
      end
  end.

(* ================= SET KEYSPACE ================= *)
Lemma enc_SetKeyspaceResult_ok version m : SetKeyspaceResult_okb version m = true ->
  enc_SetKeyspaceResult version m = Ok (bytes_SetKeyspaceResult m).
Proof.
  unfold SetKeyspaceResult_okb. rewrite nonempty_str_okb_iff. intro H.
  unfold enc_SetKeyspaceResult, bytes_SetKeyspaceResult. rewrite bytes_is_empty_false by lia.
  rewrite write_string_ok by lia. reflexivity.
Qed.
Lemma dec_SetKeyspaceResult_app version m rest : SetKeyspaceResult_okb version m = true ->
  dec_SetKeyspaceResult version (bytes_SetKeyspaceResult m ++ rest) = DOk (norm_SetKeyspaceResult version m) rest.
Proof.
  unfold SetKeyspaceResult_okb. rewrite nonempty_str_okb_iff. intro H.
  unfold dec_SetKeyspaceResult, bytes_SetKeyspaceResult, norm_SetKeyspaceResult.
  unfold bind. rewrite read_string_app by lia. destruct m. reflexivity.
Qed.
Lemma len_SetKeyspaceResult_ok version m : len_SetKeyspaceResult version m = Ok (zlen (bytes_SetKeyspaceResult m)).
Proof. unfold len_SetKeyspaceResult, bytes_SetKeyspaceResult. rewrite enc_string_len. reflexivity. Qed.

Theorem SetKeyspaceResult_roundtrip version m : SetKeyspaceResult_okb version m = true ->
  exists b, enc_SetKeyspaceResult version m = Ok b /\
            forall rest, dec_SetKeyspaceResult version (b ++ rest) = DOk (norm_SetKeyspaceResult version m) rest.
Proof. intro H. eexists. split; [apply enc_SetKeyspaceResult_ok; exact H|]. intro. apply dec_SetKeyspaceResult_app. exact H. Qed.
Theorem SetKeyspaceResult_length version m b : SetKeyspaceResult_okb version m = true ->
  enc_SetKeyspaceResult version m = Ok b -> len_SetKeyspaceResult version m = Ok (zlen b).
Proof. intros H E. rewrite (enc_SetKeyspaceResult_ok _ _ H) in E. assert (b = bytes_SetKeyspaceResult m) by congruence. subst. apply len_SetKeyspaceResult_ok. Qed.
Theorem SetKeyspaceResult_total version : total (dec_SetKeyspaceResult version).
Proof. unfold dec_SetKeyspaceResult. total_tac. Qed.
Theorem norm_SetKeyspaceResult_ok version m : SetKeyspaceResult_okb version m = true ->
  SetKeyspaceResult_okb version (norm_SetKeyspaceResult version m) = true /\
  norm_SetKeyspaceResult version (norm_SetKeyspaceResult version m) = norm_SetKeyspaceResult version m.
Proof. intro H. split; [exact H|reflexivity]. Qed.
Example SetKeyspaceResult_example : SetKeyspaceResult_okb 4 {| sk_Keyspace := [107; 115; 49] |} = true.
Proof. reflexivity. Qed.

(* ================= SCHEMA CHANGE ================= *)
Lemma target_cases s version : is_ok (CheckValidSchemaChangeTarget s version) = true ->
  s = SchemaChangeTargetKeyspace \/ s = SchemaChangeTargetTable \/
  (s = SchemaChangeTargetType /\ Z.geb version ProtocolVersion3 = true) \/
  (s = SchemaChangeTargetFunction /\ Z.geb version ProtocolVersion4 = true) \/
  (s = SchemaChangeTargetAggregate /\ Z.geb version ProtocolVersion4 = true).
Proof.
  unfold CheckValidSchemaChangeTarget, SchemaChangeTarget_IsValid, ProtocolVersion_SupportsSchemaChangeTarget.
  destruct (String.eqb_spec s SchemaChangeTargetKeyspace) as [->|_]; [auto|].
  destruct (String.eqb_spec s SchemaChangeTargetTable) as [->|_]; [auto|].
  destruct (String.eqb_spec s SchemaChangeTargetType) as [->|_].
  { destruct (Z.geb version ProtocolVersion3); [auto|discriminate]. }
  destruct (String.eqb_spec s SchemaChangeTargetFunction) as [->|_].
  { destruct (Z.geb version ProtocolVersion4); [auto 6|discriminate]. }
  destruct (String.eqb_spec s SchemaChangeTargetAggregate) as [->|_].
  { destruct (Z.geb version ProtocolVersion4); [auto 6|discriminate]. }
  discriminate.
Qed.

Lemma SchemaChangeResult_okb_spec version ct tg ks ob args :
  SchemaChangeResult_okb version {| scr_ChangeType := ct; scr_Target := tg; scr_Keyspace := ks; scr_Object := ob; scr_Arguments := args |} = true ->
  is_ok (CheckValidSchemaChangeType (string_of_bytes ct)) = true /\ zlen ct <= 65535 /\
  is_ok (CheckValidSchemaChangeTarget (string_of_bytes tg) version) = true /\ zlen tg <= 65535 /\ bytes_ok tg /\
  1 <= zlen ks <= 65535 /\
  (if Z.geb version ProtocolVersion3 then
     if target_is tg SchemaChangeTargetKeyspace then true
     else if target_is tg SchemaChangeTargetTable || target_is tg SchemaChangeTargetType then nonempty_str_okb ob
     else nonempty_str_okb ob && (zlen args <=? 65535) && forallb str_okb args
   else if target_is tg SchemaChangeTargetKeyspace then zlen ob =? 0 else nonempty_str_okb ob) = true.
Proof.
  unfold SchemaChangeResult_okb. cbn [scr_ChangeType scr_Target scr_Keyspace scr_Object scr_Arguments]. intro H.
  repeat (apply andb_prop in H; let H' := fresh "H" in destruct H as [H H']).
  rewrite str_okb_iff in *. rewrite nonempty_str_okb_iff in *. rewrite bytes_okb_ok in *. repeat split; try assumption; lia.
Qed.

Lemma string_list_ok_of args : (zlen args <=? 65535) = true -> forallb str_okb args = true -> string_list_ok args.
Proof.
  intros H1 H2. split; [lia|]. unfold strings_small. rewrite Forall_forall. rewrite forallb_forall in H2.
  intros x Hx. apply str_okb_iff. apply H2. exact Hx.
Qed.

(* the three facts about one valid message, proved together by the same case analysis on (version, target) *)
Ltac sc_fin Es :=
  do 3 (cbn [scr_ChangeType scr_Target scr_Keyspace scr_Object scr_Arguments orb]; rewrite ?Es; eval_string_tests).

Lemma SchemaChangeResult_main version m : SchemaChangeResult_okb version m = true ->
  enc_SchemaChangeResult version m = Ok (bytes_SchemaChangeResult version m) /\
  (forall rest, dec_SchemaChangeResult version (bytes_SchemaChangeResult version m ++ rest) = DOk (norm_SchemaChangeResult version m) rest) /\
  len_SchemaChangeResult version m = Ok (zlen (bytes_SchemaChangeResult version m)) /\
  SchemaChangeResult_okb version (norm_SchemaChangeResult version m) = true /\
  norm_SchemaChangeResult version (norm_SchemaChangeResult version m) = norm_SchemaChangeResult version m.
Proof.
  destruct m as [ct tg ks ob args]. intro Hok. pose proof Hok as Hok'.
  apply SchemaChangeResult_okb_spec in Hok. destruct Hok as (Hct & Hctl & Htg & Htgl & Htgb & Hks & Hrest).
  assert (Hkse : bytes_is_empty ks = false) by (apply bytes_is_empty_false; lia).
  unfold enc_SchemaChangeResult, dec_SchemaChangeResult, len_SchemaChangeResult, bytes_SchemaChangeResult, norm_SchemaChangeResult.
  unfold SchemaChangeResult_okb in *.
  cbn [scr_ChangeType scr_Target scr_Keyspace scr_Object scr_Arguments] in *. unfold target_is in *.
  rewrite Hct, Htg, Hkse. cbn [wguard negb].
  destruct (Z.geb version ProtocolVersion3) eqn:Ev.
  - (* v3 and later: the target is on the wire *)
    destruct (target_cases _ _ Htg) as [Es|[Es|[[Es _]|[[Es _]|[Es _]]]]]; rewrite Es in *;
      eval_string_tests; eval_string_tests_in Hrest; eval_string_tests_in Hok'; cbn [orb] in *; rewrite ?Es, ?Ev; eval_string_tests; cbn [orb].
    + (* KEYSPACE *)
      rewrite !write_string_ok by lia. split; [|split; [|split; [|split]]].
      * cbn [wapp]. rewrite <- ?app_assoc, ?app_nil_r. reflexivity.
      * intro rest. rewrite <- !app_assoc. unfold bind at 1. rewrite read_string_app by lia.
        unfold bind at 1. rewrite read_string_app by lia. rewrite Es, Htg. cbn [rguard]. unfold bind at 1, ret at 1.
        unfold bind at 1. rewrite read_string_app by lia. eval_string_tests. reflexivity.
      * cbn [ladd]. rewrite ?app_nil_r, !zlen_app, !enc_string_len. try (f_equal; lia).
      * sc_fin Es. rewrite ?Hct, ?Htg in *. exact Hok'.
      * sc_fin Es. reflexivity.
    + (* TABLE *)
      rewrite nonempty_str_okb_iff in Hrest. rewrite (bytes_is_empty_false ob) by lia. cbn [wguard negb].
      rewrite !write_string_ok by lia. split; [|split; [|split; [|split]]].
      * cbn [wapp]. rewrite <- ?app_assoc. reflexivity.
      * intro rest. rewrite <- !app_assoc. unfold bind at 1. rewrite read_string_app by lia.
        unfold bind at 1. rewrite read_string_app by lia. rewrite Es, Htg. cbn [rguard]. unfold bind at 1, ret at 1.
        unfold bind at 1. rewrite read_string_app by lia. eval_string_tests. cbn [orb].
        unfold bind at 1. rewrite read_string_app by lia. reflexivity.
      * cbn [ladd]. rewrite !zlen_app, !enc_string_len. try (f_equal; lia).
      * sc_fin Es. rewrite ?Hct, ?Htg in *. exact Hok'.
      * sc_fin Es. reflexivity.
    + (* TYPE *)
      rewrite nonempty_str_okb_iff in Hrest. rewrite (bytes_is_empty_false ob) by lia. cbn [wguard negb].
      rewrite !write_string_ok by lia. split; [|split; [|split; [|split]]].
      * cbn [wapp]. rewrite <- ?app_assoc. reflexivity.
      * intro rest. rewrite <- !app_assoc. unfold bind at 1. rewrite read_string_app by lia.
        unfold bind at 1. rewrite read_string_app by lia. rewrite Es, Htg. cbn [rguard]. unfold bind at 1, ret at 1.
        unfold bind at 1. rewrite read_string_app by lia. eval_string_tests. cbn [orb].
        unfold bind at 1. rewrite read_string_app by lia. reflexivity.
      * cbn [ladd]. rewrite !zlen_app, !enc_string_len. try (f_equal; lia).
      * sc_fin Es. rewrite ?Hct, ?Htg in *. exact Hok'.
      * sc_fin Es. reflexivity.
    + (* FUNCTION *)
      apply andb_prop in Hrest. destruct Hrest as [Hrest Hargs]. apply andb_prop in Hrest. destruct Hrest as [Hob Hargl].
      rewrite nonempty_str_okb_iff in Hob. rewrite (bytes_is_empty_false ob) by lia. cbn [wguard negb].
      pose proof (string_list_ok_of args Hargl Hargs) as Hsl.
      rewrite !write_string_ok by lia. rewrite (write_string_list_ok' args Hsl). split; [|split; [|split; [|split]]].
      * cbn [wapp]. rewrite <- ?app_assoc. reflexivity.
      * intro rest. rewrite <- !app_assoc. unfold bind at 1. rewrite read_string_app by lia.
        unfold bind at 1. rewrite read_string_app by lia. rewrite Es, Htg. cbn [rguard]. unfold bind at 1, ret at 1.
        unfold bind at 1. rewrite read_string_app by lia. eval_string_tests. cbn [orb].
        unfold bind at 1. rewrite read_string_app by lia.
        unfold bind at 1. rewrite (read_string_list_app' args _ Hsl). reflexivity.
      * cbn [ladd]. rewrite !zlen_app, !enc_string_len, enc_string_list_len. try (f_equal; lia).
      * sc_fin Es. rewrite ?Hct, ?Htg in *. exact Hok'.
      * sc_fin Es. reflexivity.
    + (* AGGREGATE *)
      apply andb_prop in Hrest. destruct Hrest as [Hrest Hargs]. apply andb_prop in Hrest. destruct Hrest as [Hob Hargl].
      rewrite nonempty_str_okb_iff in Hob. rewrite (bytes_is_empty_false ob) by lia. cbn [wguard negb].
      pose proof (string_list_ok_of args Hargl Hargs) as Hsl.
      rewrite !write_string_ok by lia. rewrite (write_string_list_ok' args Hsl). split; [|split; [|split; [|split]]].
      * cbn [wapp]. rewrite <- ?app_assoc. reflexivity.
      * intro rest. rewrite <- !app_assoc. unfold bind at 1. rewrite read_string_app by lia.
        unfold bind at 1. rewrite read_string_app by lia. rewrite Es, Htg. cbn [rguard]. unfold bind at 1, ret at 1.
        unfold bind at 1. rewrite read_string_app by lia. eval_string_tests. cbn [orb].
        unfold bind at 1. rewrite read_string_app by lia.
        unfold bind at 1. rewrite (read_string_list_app' args _ Hsl). reflexivity.
      * cbn [ladd]. rewrite !zlen_app, !enc_string_len, enc_string_list_len. try (f_equal; lia).
      * sc_fin Es. rewrite ?Hct, ?Htg in *. exact Hok'.
      * sc_fin Es. reflexivity.
  - (* v2: no target on the wire; KEYSPACE <-> empty object *)
    assert (Hv : version < 3) by (unfold ProtocolVersion3 in Ev; lia).
    destruct (target_cases _ _ Htg) as [Es|[Es|[[Es Hv']|[[Es Hv']|[Es Hv']]]]];
      try (exfalso; unfold ProtocolVersion3, ProtocolVersion4 in *; lia);
      pose proof (string_of_bytes_eq_const _ _ Htgb Es) as Etg; rewrite Es in *;
      eval_string_tests; eval_string_tests_in Hrest; eval_string_tests_in Hok'; rewrite ?Es, ?Ev; eval_string_tests.
    + (* KEYSPACE *)
      assert (Eob : ob = []) by (apply zlen_zero_nil; lia). subst ob. cbn [bytes_is_empty wguard].
      rewrite !write_string_ok by (cbn; lia). split; [|split; [|split; [|split]]].
      * cbn [wapp]. rewrite <- ?app_assoc. reflexivity.
      * intro rest. rewrite <- !app_assoc. unfold bind at 1. rewrite read_string_app by lia.
        unfold bind at 1. rewrite read_string_app by lia.
        unfold bind at 1. rewrite read_string_app by (cbn; lia). cbn [bytes_is_empty]. rewrite <- Etg. reflexivity.
      * cbn [ladd]. rewrite !zlen_app, !enc_string_len. try (f_equal; lia).
      * sc_fin Es. rewrite ?Hct, ?Htg in *. exact Hok'.
      * sc_fin Es. reflexivity.
    + (* TABLE *)
      rewrite nonempty_str_okb_iff in Hrest. rewrite (bytes_is_empty_false ob) by lia. cbn [wguard negb].
      rewrite !write_string_ok by lia. split; [|split; [|split; [|split]]].
      * cbn [wapp]. rewrite <- ?app_assoc. reflexivity.
      * intro rest. rewrite <- !app_assoc. unfold bind at 1. rewrite read_string_app by lia.
        unfold bind at 1. rewrite read_string_app by lia.
        unfold bind at 1. rewrite read_string_app by lia. rewrite (bytes_is_empty_false ob) by lia. rewrite <- Etg. reflexivity.
      * cbn [ladd]. rewrite !zlen_app, !enc_string_len. try (f_equal; lia).
      * sc_fin Es. rewrite ?Hct, ?Htg in *. exact Hok'.
      * sc_fin Es. reflexivity.
Qed.

Theorem SchemaChangeResult_roundtrip version m : SchemaChangeResult_okb version m = true ->
  exists b, enc_SchemaChangeResult version m = Ok b /\
            forall rest, dec_SchemaChangeResult version (b ++ rest) = DOk (norm_SchemaChangeResult version m) rest.
Proof. intro H. destruct (SchemaChangeResult_main _ _ H) as (H1 & H2 & _). eexists. split; [exact H1|exact H2]. Qed.
Theorem SchemaChangeResult_length version m b : SchemaChangeResult_okb version m = true ->
  enc_SchemaChangeResult version m = Ok b -> len_SchemaChangeResult version m = Ok (zlen b).
Proof.
  intros H E. destruct (SchemaChangeResult_main _ _ H) as (H1 & _ & H3 & _). rewrite H1 in E.
  assert (b = bytes_SchemaChangeResult version m) by congruence. subst. exact H3.
Qed.
Theorem SchemaChangeResult_total version : total (dec_SchemaChangeResult version).
Proof. unfold dec_SchemaChangeResult. total_tac. Qed.
Theorem norm_SchemaChangeResult_ok version m : SchemaChangeResult_okb version m = true ->
  SchemaChangeResult_okb version (norm_SchemaChangeResult version m) = true /\
  norm_SchemaChangeResult version (norm_SchemaChangeResult version m) = norm_SchemaChangeResult version m.
Proof. intro H. destruct (SchemaChangeResult_main _ _ H) as (_ & _ & _ & H4 & H5). split; assumption. Qed.
Example SchemaChangeResult_example :
  SchemaChangeResult_okb 4 {| scr_ChangeType := bytes_of_string SchemaChangeTypeCreated;
                              scr_Target := bytes_of_string SchemaChangeTargetFunction;
                              scr_Keyspace := [107; 115]; scr_Object := [102]; scr_Arguments := [[105; 110; 116]; []] |} = true
  /\ SchemaChangeResult_okb 2 {| scr_ChangeType := bytes_of_string SchemaChangeTypeDropped;
                                 scr_Target := bytes_of_string SchemaChangeTargetKeyspace;
                                 scr_Keyspace := [107; 115]; scr_Object := []; scr_Arguments := [] |} = true.
Proof. split; vm_compute; reflexivity. Qed.

(* ================= metadata behind an optional pointer (nil = empty) ================= *)
Lemma enc_ovariables_ok version om : VariablesMetadata_okb version (oVariablesMetadata om) = true ->
  enc_variables_metadata version om = Ok (bytes_VariablesMetadata version (oVariablesMetadata om)).
Proof. destruct om; cbn [oVariablesMetadata]; [|rewrite enc_variables_metadata_None]; apply enc_variables_metadata_ok. Qed.
Lemma len_ovariables_ok version om : VariablesMetadata_okb version (oVariablesMetadata om) = true ->
  len_variables_metadata version om = Ok (zlen (bytes_VariablesMetadata version (oVariablesMetadata om))).
Proof. destruct om; cbn [oVariablesMetadata]; [|rewrite len_variables_metadata_None]; apply len_variables_metadata_ok. Qed.
Lemma enc_orows_ok version om : RowsMetadata_okb version (oRowsMetadata om) = true ->
  enc_rows_metadata version om = Ok (bytes_RowsMetadata version (oRowsMetadata om)).
Proof. destruct om; cbn [oRowsMetadata]; [|rewrite enc_rows_metadata_None]; apply enc_rows_metadata_ok. Qed.
Lemma len_orows_ok version om : RowsMetadata_okb version (oRowsMetadata om) = true ->
  len_rows_metadata version om = Ok (zlen (bytes_RowsMetadata version (oRowsMetadata om))).
Proof. destruct om; cbn [oRowsMetadata]; [|rewrite len_rows_metadata_None]; apply len_rows_metadata_ok. Qed.

(* ================= PREPARED ================= *)
Lemma PreparedResult_okb_spec version m : PreparedResult_okb version m = true ->
  1 <= zlen (olist (pr_PreparedQueryId m)) <= 65535 /\
  (ProtocolVersion_SupportsResultMetadataId version = true -> 1 <= zlen (olist (pr_ResultMetadataId m)) <= 65535) /\
  VariablesMetadata_okb version (oVariablesMetadata (pr_VariablesMetadata m)) = true /\
  RowsMetadata_okb version (oRowsMetadata (pr_ResultMetadata m)) = true.
Proof.
  unfold PreparedResult_okb. intro H. apply andb_prop in H. destruct H as [H Hr]. apply andb_prop in H. destruct H as [H Hv].
  apply andb_prop in H. destruct H as [Hid Hm]. rewrite nonempty_str_okb_iff in Hid.
  split; [exact Hid|]. split; [|split; assumption]. intro E. rewrite E in Hm. apply nonempty_str_okb_iff. exact Hm.
Qed.

Lemma enc_PreparedResult_ok version m : PreparedResult_okb version m = true ->
  enc_PreparedResult version m = Ok (bytes_PreparedResult version m).
Proof.
  intro H. destruct (PreparedResult_okb_spec _ _ H) as (Hid & Hm & Hv & Hr).
  unfold enc_PreparedResult, bytes_PreparedResult.
  replace (negb (zlen (olist (pr_PreparedQueryId m)) =? 0)) with true by lia. cbn [wguard].
  rewrite write_short_bytes_ok by lia. rewrite (enc_ovariables_ok _ _ Hv), (enc_orows_ok _ _ Hr).
  destruct (ProtocolVersion_SupportsResultMetadataId version).
  - specialize (Hm eq_refl). replace (negb (zlen (olist (pr_ResultMetadataId m)) =? 0)) with true by lia. cbn [wguard].
    rewrite write_short_bytes_ok by lia. cbn [wapp app]. rewrite <- ?app_assoc. reflexivity.
  - cbn [wapp app]. rewrite <- ?app_assoc. reflexivity.
Qed.

Lemma len_PreparedResult_ok version m : PreparedResult_okb version m = true ->
  len_PreparedResult version m = Ok (zlen (bytes_PreparedResult version m)).
Proof.
  intro H. destruct (PreparedResult_okb_spec _ _ H) as (Hid & Hm & Hv & Hr).
  unfold len_PreparedResult, bytes_PreparedResult. rewrite (len_ovariables_ok _ _ Hv), (len_orows_ok _ _ Hr).
  destruct (ProtocolVersion_SupportsResultMetadataId version); cbn [ladd]; rewrite !zlen_app, !enc_short_bytes_len;
    first [reflexivity | f_equal; cbn [zlen length]; lia].
Qed.

Lemma dec_PreparedResult_app fuel version m rest : PreparedResult_okb version m = true ->
  (length (bytes_PreparedResult version m) <= fuel)%nat ->
  dec_PreparedResult fuel version (bytes_PreparedResult version m ++ rest) = DOk (norm_PreparedResult version m) rest.
Proof.
  intros H Hfuel. destruct (PreparedResult_okb_spec _ _ H) as (Hid & Hm & Hv & Hr).
  pose proof (columns_fuel_VariablesMetadata _ _ Hv) as Hf1. pose proof (columns_fuel_RowsMetadata _ _ Hr) as Hf2.
  unfold dec_PreparedResult, bytes_PreparedResult, norm_PreparedResult in *. rewrite !app_length in Hfuel. rewrite <- !app_assoc.
  unfold bind at 1. rewrite read_short_bytes_app by lia.
  unfold bind at 1.
  assert (E : forall r, (if ProtocolVersion_SupportsResultMetadataId version then read_short_bytes else ret None)
                ((if ProtocolVersion_SupportsResultMetadataId version then enc_short_bytes (pr_ResultMetadataId m) else []) ++ r)
              = DOk (if ProtocolVersion_SupportsResultMetadataId version then Some (olist (pr_ResultMetadataId m)) else None) r).
  { intro r. destruct (ProtocolVersion_SupportsResultMetadataId version); [|reflexivity].
    specialize (Hm eq_refl). apply read_short_bytes_app. lia. }
  rewrite E. clear E.
  unfold bind at 1. rewrite dec_variables_metadata_app; [|exact Hv|eapply columns_fuel_mono; [|exact Hf1]; lia].
  unfold bind at 1. rewrite dec_rows_metadata_app; [|exact Hr|eapply columns_fuel_mono; [|exact Hf2]; lia].
  reflexivity.
Qed.

Theorem PreparedResult_roundtrip version m : PreparedResult_okb version m = true ->
  exists b, enc_PreparedResult version m = Ok b /\
            forall rest fuel, (length b <= fuel)%nat ->
              dec_PreparedResult fuel version (b ++ rest) = DOk (norm_PreparedResult version m) rest.
Proof. intro H. eexists. split; [apply enc_PreparedResult_ok; exact H|]. intros. apply dec_PreparedResult_app; assumption. Qed.
Theorem PreparedResult_length version m b : PreparedResult_okb version m = true ->
  enc_PreparedResult version m = Ok b -> len_PreparedResult version m = Ok (zlen b).
Proof. intros H E. rewrite (enc_PreparedResult_ok _ _ H) in E. assert (b = bytes_PreparedResult version m) by congruence. subst. apply len_PreparedResult_ok. exact H. Qed.
Theorem norm_PreparedResult_ok version m : PreparedResult_okb version m = true ->
  PreparedResult_okb version (norm_PreparedResult version m) = true /\
  norm_PreparedResult version (norm_PreparedResult version m) = norm_PreparedResult version m.
Proof.
  intro H. destruct (PreparedResult_okb_spec _ _ H) as (Hid & Hm & Hv & Hr).
  destruct (norm_VariablesMetadata_ok _ _ Hv) as [Hv1 Hv2]. destruct (norm_RowsMetadata_ok _ _ Hr) as [Hr1 Hr2].
  unfold PreparedResult_okb, norm_PreparedResult.
  cbn [pr_PreparedQueryId pr_ResultMetadataId pr_VariablesMetadata pr_ResultMetadata oVariablesMetadata oRowsMetadata olist].
  rewrite Hv1, Hv2, Hr1, Hr2. split.
  - rewrite (proj2 (nonempty_str_okb_iff _) Hid).
    destruct (ProtocolVersion_SupportsResultMetadataId version); [|reflexivity].
    cbn [olist]. rewrite (proj2 (nonempty_str_okb_iff _) (Hm eq_refl)). reflexivity.
  - destruct (ProtocolVersion_SupportsResultMetadataId version); reflexivity.
Qed.

(* ================= ROWS ================= *)
Lemma RowsResult_okb_spec version m : RowsResult_okb version m = true ->
  exists md, rr_Metadata m = Some md /\ RowsMetadata_okb version md = true /\ zlen (rr_Data m) < 2147483648 /\
             forall row, In row (rr_Data m) -> zlen row = rm_ColumnCount md /\ Forall bytes_small row.
Proof.
  unfold RowsResult_okb. destruct (rr_Metadata m) as [md|]; [|discriminate]. intro H.
  apply andb_prop in H. destruct H as [H Hrows]. apply andb_prop in H. destruct H as [Hmd Hn].
  exists md. split; [reflexivity|]. split; [exact Hmd|]. split; [lia|].
  intros row Hrow. rewrite forallb_forall in Hrows. specialize (Hrows row Hrow). apply andb_prop in Hrows. destruct Hrows as [Hl Hc].
  split; [lia|]. rewrite Forall_forall. rewrite forallb_forall in Hc. intros c Hin. specialize (Hc c Hin).
  unfold bytes_small, cell_okb in *. lia.
Qed.

Lemma enc_row_ok row : Forall bytes_small row -> wlist write_bytes row = Ok (bytes_row row).
Proof. intro H. apply wlist_ok. intros x Hx. apply write_bytes_ok. rewrite Forall_forall in H. apply H. exact Hx. Qed.
Lemma len_row_ok (row : list (option bytes)) : llist (fun col => Ok (len_bytes col)) row = Ok (zlen (bytes_row row)).
Proof. apply (llist_ok _ enc_bytes). intros x _. rewrite enc_bytes_len. reflexivity. Qed.
Lemma enc_bytes_nonempty c : (4 <= length (enc_bytes c))%nat.
Proof. destruct c; cbn [enc_bytes]; rewrite ?app_length, be_bytes_length; lia. Qed.
Lemma dec_row_app row rest : Forall bytes_small row ->
  read_count (zlen row) read_bytes (bytes_row row ++ rest) = DOk row rest.
Proof.
  intro H. unfold bytes_row. rewrite (read_count_app enc_bytes read_bytes (fun c => c)).
  - rewrite map_id. reflexivity.
  - intros x r Hx. apply read_bytes_app. rewrite Forall_forall in H. apply H. exact Hx.
  - intros x _. pose proof (enc_bytes_nonempty x). lia.
Qed.
Lemma bytes_row_nonempty row : 1 <= zlen row -> (1 <= length (bytes_row row))%nat.
Proof.
  destruct row as [|c r]; [rewrite zlen_nil; lia|]. intros _. unfold bytes_row. cbn [map concat].
  rewrite app_length. pose proof (enc_bytes_nonempty c). lia.
Qed.

Lemma dec_rows_app data cc rest : 0 <= cc -> (forall row, In row data -> zlen row = cc /\ Forall bytes_small row) ->
  dec_rows (zlen data) cc (concat (map bytes_row data) ++ rest) = DOk data rest.
Proof.
  intros Hcc H. unfold dec_rows. destruct (Z.ltb_spec cc 0); [lia|].
  destruct (Z.eqb_spec cc 0) as [E|E].
  - (* rows without cells: nothing is read *)
    assert (Hd : data = repeat [] (Z.to_nat (zlen data)) /\ concat (map bytes_row data) = []).
    { unfold zlen. rewrite Nat2Z.id. clear -H E. induction data as [|row r IH]; [split; reflexivity|].
      destruct (H row (or_introl eq_refl)) as [Hl _]. assert (row = []) by (apply zlen_zero_nil; lia). subst row.
      destruct IH as [IH1 IH2]; [intros; apply H; right; assumption|].
      cbn [length repeat map concat bytes_row app]. rewrite <- IH1, IH2. split; reflexivity. }
    destruct Hd as [Hd1 Hd2]. rewrite Hd2, <- Hd1. reflexivity.
  - rewrite (read_count_app bytes_row (read_count cc read_bytes) (fun row => row)).
    + rewrite map_id. reflexivity.
    + intros row r Hrow. destruct (H row Hrow) as [Hl Hs]. rewrite <- Hl. apply dec_row_app. exact Hs.
    + intros row Hrow. destruct (H row Hrow) as [Hl _]. apply bytes_row_nonempty. lia.
Qed.

Lemma enc_RowsResult_ok version m : RowsResult_okb version m = true ->
  enc_RowsResult version m = Ok (bytes_RowsResult version m).
Proof.
  intro H. destruct (RowsResult_okb_spec _ _ H) as (md & Emd & Hmd & Hn & Hrows).
  unfold enc_RowsResult, bytes_RowsResult. rewrite Emd. cbn [oRowsMetadata].
  rewrite (enc_rows_metadata_ok _ _ Hmd). pose proof (zlen_nonneg (rr_Data m)).
  unfold write_int. rewrite wrap_i32_small by lia.
  rewrite (wlist_ok _ bytes_row) by (intros row Hrow; apply enc_row_ok; apply Hrows; exact Hrow).
  reflexivity.
Qed.
Lemma len_RowsResult_ok version m : RowsResult_okb version m = true ->
  len_RowsResult version m = Ok (zlen (bytes_RowsResult version m)).
Proof.
  intro H. destruct (RowsResult_okb_spec _ _ H) as (md & Emd & Hmd & Hn & Hrows).
  unfold len_RowsResult, bytes_RowsResult. rewrite Emd. cbn [oRowsMetadata].
  rewrite (len_rows_metadata_ok _ _ Hmd).
  rewrite (llist_ok _ bytes_row) by (intros row _; apply len_row_ok).
  cbn [ladd]. rewrite !zlen_app, be_bytes_zlen. reflexivity.
Qed.
Lemma dec_RowsResult_app fuel version m rest : RowsResult_okb version m = true ->
  (length (bytes_RowsResult version m) <= fuel)%nat ->
  dec_RowsResult fuel version (bytes_RowsResult version m ++ rest) = DOk (norm_RowsResult version m) rest.
Proof.
  intros H Hfuel. destruct (RowsResult_okb_spec _ _ H) as (md & Emd & Hmd & Hn & Hrows).
  pose proof (columns_fuel_RowsMetadata _ _ Hmd) as Hf.
  destruct (RowsMetadata_okb_spec _ _ Hmd) as (Hcc & _).
  unfold dec_RowsResult, bytes_RowsResult, norm_RowsResult in *. rewrite Emd in *. cbn [oRowsMetadata] in *.
  rewrite !app_length in Hfuel. rewrite <- !app_assoc. pose proof (zlen_nonneg (rr_Data m)).
  unfold bind at 1. rewrite dec_rows_metadata_app; [|exact Hmd|eapply columns_fuel_mono; [|exact Hf]; lia].
  unfold bind at 1. rewrite read_int_app by (unfold in_i32; lia).
  replace (negb (zlen (rr_Data m) <? 0)) with true by lia. cbn [rguard]. unfold bind at 1, ret at 1.
  unfold bind at 1. unfold rmake. destruct (Z.ltb_spec (zlen (rr_Data m)) 0); [lia|]. unfold ret at 1.
  unfold bind at 1. cbn [norm_RowsMetadata rm_ColumnCount].
  rewrite dec_rows_app; [reflexivity|lia|exact Hrows].
Qed.

Theorem RowsResult_roundtrip version m : RowsResult_okb version m = true ->
  exists b, enc_RowsResult version m = Ok b /\
            forall rest fuel, (length b <= fuel)%nat ->
              dec_RowsResult fuel version (b ++ rest) = DOk (norm_RowsResult version m) rest.
Proof. intro H. eexists. split; [apply enc_RowsResult_ok; exact H|]. intros. apply dec_RowsResult_app; assumption. Qed.
Theorem RowsResult_length version m b : RowsResult_okb version m = true ->
  enc_RowsResult version m = Ok b -> len_RowsResult version m = Ok (zlen b).
Proof. intros H E. rewrite (enc_RowsResult_ok _ _ H) in E. assert (b = bytes_RowsResult version m) by congruence. subst. apply len_RowsResult_ok. exact H. Qed.
Theorem norm_RowsResult_ok version m : RowsResult_okb version m = true ->
  RowsResult_okb version (norm_RowsResult version m) = true /\
  norm_RowsResult version (norm_RowsResult version m) = norm_RowsResult version m.
Proof.
  intro H. pose proof H as H'. destruct (RowsResult_okb_spec _ _ H) as (md & Emd & Hmd & Hn & Hrows).
  destruct (norm_RowsMetadata_ok _ _ Hmd) as [H1 H2].
  unfold RowsResult_okb, norm_RowsResult in *. rewrite Emd in *. cbn [rr_Metadata rr_Data oRowsMetadata] in *.
  rewrite H1, H2. split; [|reflexivity].
  apply andb_prop in H'. destruct H' as [H' Hr]. apply andb_prop in H'. destruct H' as [_ Hl].
  rewrite Hl. cbn [andb norm_RowsMetadata rm_ColumnCount]. exact Hr.
Qed.

(* ================= totality: no panic, no fuel exhaustion, on ALL inputs ================= *)
(* The decoders that contain ReadDataType are total on every input of fewer than 2*fuel bytes
   ([total_upto], proofs/MsgResultsDataType.v); the frame layer passes fuel = number of input bytes. *)
Lemma bind_inv {A B} (r : R A) (k : A -> R B) bs b rest :
  bind r k bs = DOk b rest -> exists a r1, r bs = DOk a r1 /\ k a r1 = DOk b rest.
Proof. unfold bind. destruct (r bs) as [a r1| | |]; try discriminate. eauto. Qed.

Lemma total_upto_guard {B} n b (k : R B) : (b = true -> total_upto n k) -> total_upto n (rguard b ;;; k).
Proof.
  intros H bs Hbs. destruct b; cbn [rguard]; unfold bind.
  - unfold ret. apply H; [reflexivity|exact Hbs].
  - unfold rfail. split; discriminate.
Qed.
Lemma total_upto_bind_P {A B} (P : A -> Prop) n (r : R A) (k : A -> R B) :
  total_upto n r -> consumes 0 r -> (forall bs a rest, r bs = DOk a rest -> P a) ->
  (forall a, P a -> total_upto n (k a)) -> total_upto n (bind r k).
Proof.
  intros Hr Hc HP Hk bs Hbs. unfold bind. destruct (Hr bs Hbs) as [H1 H2].
  destruct (r bs) as [a rest| | |] eqn:E; try congruence; [|split; discriminate].
  specialize (Hc bs a rest E). apply Hk; [eapply HP; exact E|lia].
Qed.

Section Totality.
  Variables (fuel : nat) (version : Z) (n : nat).
  Hypothesis Hn : (n < 2 * fuel)%nat.

  Let Hdt : total_upto n (read_data_type fuel version) := total_upto_read_data_type version fuel n Hn.

  Lemma consumes_dec_column g gk gt : consumes 4 (dec_column fuel g gk gt version).
  Proof.
    unfold dec_column. apply consumes_bind_r; [destruct g; consumes0_tac|intro].
    apply consumes_bind_r; [destruct g; consumes0_tac|intro].
    change 4%nat with (2 + 2)%nat. apply consumes_bind; [apply consumes_read_string|intro].
    apply consumes_bind_l; [apply consumes_read_data_type|intro; apply consumes_ret].
  Qed.
  Lemma total_upto_dec_column g gk gt : total_upto n (dec_column fuel g gk gt version).
  Proof. unfold dec_column. total_upto_tac. Qed.

  Lemma consumes0_dec_columns g count : consumes 0 (dec_columns_metadata fuel g count version).
  Proof.
    unfold dec_columns_metadata. consumes0_tac.
    eapply consumes_weaken; [|apply consumes_dec_column]. lia.
  Qed.
  Lemma total_upto_dec_columns g count : 0 <= count -> total_upto n (dec_columns_metadata fuel g count version).
  Proof.
    intro Hc. unfold dec_columns_metadata. total_upto_tac.
    all: apply total_upto_read_count; [apply total_upto_dec_column|].
    all: eapply consumes_weaken; [|apply consumes_dec_column]; lia.
  Qed.

  Lemma consumes0_dec_variables : consumes 0 (dec_variables_metadata fuel version).
  Proof.
    pose proof consumes0_dec_columns. unfold dec_variables_metadata. consumes0_tac.
  Qed.
  Lemma total_upto_dec_variables : total_upto n (dec_variables_metadata fuel version).
  Proof.
    unfold dec_variables_metadata.
    apply total_upto_bind; [total_upto_tac|consumes0_tac|intro f]. cbv zeta.
    apply total_upto_bind; [total_upto_tac|consumes0_tac|intro columnCount].
    apply total_upto_bind; [|consumes0_tac|intro pk].
    - destruct (Z.geb version ProtocolVersion4); [|total_upto_tac].
      apply total_upto_bind; [total_upto_tac|consumes0_tac|intro pkCount].
      destruct (Z.gtb_spec pkCount 0); [|total_upto_tac].
      apply total_upto_of_total. apply total_bind; [apply total_rmake; lia|intros _].
      apply total_read_count; [apply total_read_short|]. eapply consumes_weaken; [|apply consumes_read_short]. lia.
    - apply total_upto_bind; [| |intro; total_upto_tac].
      + destruct (Z.gtb_spec columnCount 0); [|total_upto_tac]. apply total_upto_dec_columns. lia.
      + destruct (columnCount >? 0); [apply consumes0_dec_columns|consumes0_tac].
  Qed.

  Lemma consumes0_dec_rows_metadata : consumes 0 (dec_rows_metadata fuel version).
  Proof.
    pose proof consumes0_dec_columns. unfold dec_rows_metadata. consumes0_tac.
  Qed.
  Lemma total_upto_dec_rows_metadata : total_upto n (dec_rows_metadata fuel version).
  Proof.
    pose proof consumes0_dec_columns as Hc0. unfold dec_rows_metadata.
    apply total_upto_bind; [total_upto_tac|consumes0_tac|intro f]. cbv zeta.
    apply total_upto_bind; [total_upto_tac|consumes0_tac|intro columnCount].
    apply total_upto_guard. intro Hg.
    apply total_upto_bind; [total_upto_tac|consumes0_tac|intro ps].
    apply total_upto_bind; [total_upto_tac|consumes0_tac|intro nid].
    apply total_upto_bind; [total_upto_tac|consumes0_tac|intro cp].
    apply total_upto_bind; [|consumes0_tac|intro; total_upto_tac].
    destruct (Z.land (wrap_u 32 f) RowsFlagNoMetadata =? 0); [|total_upto_tac].
    apply total_upto_dec_columns. lia.
  Qed.
  (* what the row loop relies on: a decoded column count is never negative *)
  Lemma dec_rows_metadata_count bs md rest : dec_rows_metadata fuel version bs = DOk md rest -> 0 <= rm_ColumnCount md.
  Proof.
    unfold dec_rows_metadata. intro E.
    apply bind_inv in E. destruct E as (f & r1 & _ & E). cbv beta zeta in E.
    apply bind_inv in E. destruct E as (cc & r2 & _ & E).
    apply bind_inv in E. destruct E as (u & r3 & Eg & E).
    destruct (Z.ltb_spec cc 0) as [Hlt|Hge]; [discriminate Eg|].
    apply bind_inv in E. destruct E as (ps & r4 & _ & E).
    apply bind_inv in E. destruct E as (nid & r5 & _ & E).
    apply bind_inv in E. destruct E as (cp & r6 & _ & E).
    apply bind_inv in E. destruct E as (cols & r7 & _ & E).
    unfold ret in E.
    assert (Emd : md = {| rm_ColumnCount := cc; rm_PagingState := ps; rm_NewResultMetadataId := nid;
                          rm_ContinuousPageNumber := fst cp; rm_LastContinuousPage := snd cp; rm_Columns := cols |}) by congruence.
    rewrite Emd. cbn [rm_ColumnCount]. exact Hge.
  Qed.

  Lemma total_dec_rows rowsCount cc : 0 <= cc -> total (dec_rows rowsCount cc).
  Proof.
    intro H. unfold dec_rows. destruct (Z.ltb_spec cc 0); [lia|]. destruct (Z.eqb_spec cc 0); [apply total_ret|].
    apply total_read_count.
    - apply total_read_count; [apply total_read_bytes|apply progress_read_bytes].
    - (* a row of cc >= 1 cells consumes at least one byte *)
      intros bs l rest E. unfold read_count in E.
      destruct (Z.leb_spec cc 0); [lia|].
      destruct (cc <=? zlen bs).
      + pose proof (consumes_read_rep read_bytes (Z.to_nat cc) progress_read_bytes bs l rest E). lia.
      + destruct (read_rep (length bs) read_bytes bs) as [l' rest'| | |]; try discriminate. destruct (read_bytes rest'); discriminate.
  Qed.
  Lemma consumes0_dec_rows rowsCount cc : consumes 0 (dec_rows rowsCount cc).
  Proof. unfold dec_rows. consumes0_tac. Qed.

  Lemma total_upto_dec_PreparedResult : total_upto n (dec_PreparedResult fuel version).
  Proof.
    unfold dec_PreparedResult.
    apply total_upto_bind; [total_upto_tac|consumes0_tac|intro id].
    apply total_upto_bind; [total_upto_tac|consumes0_tac|intro rmid].
    apply total_upto_bind; [apply total_upto_dec_variables|apply consumes0_dec_variables|intro vars].
    apply total_upto_bind; [apply total_upto_dec_rows_metadata|apply consumes0_dec_rows_metadata|intro rows].
    total_upto_tac.
  Qed.
  Lemma total_upto_dec_RowsResult : total_upto n (dec_RowsResult fuel version).
  Proof.
    unfold dec_RowsResult.
    apply (total_upto_bind_P (fun md => 0 <= rm_ColumnCount md));
      [apply total_upto_dec_rows_metadata|apply consumes0_dec_rows_metadata|apply dec_rows_metadata_count|intros md Hmd].
    apply total_upto_bind; [total_upto_tac|consumes0_tac|intro rowsCount].
    apply total_upto_guard. intro Hg.
    apply total_upto_bind; [apply total_upto_of_total, total_rmake; lia|consumes0_tac|intros _].
    apply total_upto_bind; [apply total_upto_of_total, total_dec_rows; exact Hmd|apply consumes0_dec_rows|intro].
    total_upto_tac.
  Qed.

  Lemma total_upto_dec_result : total_upto n (dec_result fuel version).
  Proof.
    unfold dec_result.
    apply total_upto_bind; [total_upto_tac|consumes0_tac|intro rt]. cbv zeta.
    destruct (wrap_u 32 rt =? ResultTypeVoid); [total_upto_tac|].
    destruct (wrap_u 32 rt =? ResultTypeSetKeyspace); [apply total_upto_of_total, total_rmap, SetKeyspaceResult_total|].
    destruct (wrap_u 32 rt =? ResultTypeSchemaChange); [apply total_upto_of_total, total_rmap, SchemaChangeResult_total|].
    destruct (wrap_u 32 rt =? ResultTypePrepared).
    { unfold rmap. apply total_upto_bind; [apply total_upto_dec_PreparedResult| |intro; total_upto_tac].
      pose proof consumes0_dec_variables. pose proof consumes0_dec_rows_metadata. unfold dec_PreparedResult. consumes0_tac. }
    destruct (wrap_u 32 rt =? ResultTypeRows); [|total_upto_tac].
    unfold rmap. apply total_upto_bind; [apply total_upto_dec_RowsResult| |intro; total_upto_tac].
    pose proof consumes0_dec_rows_metadata. pose proof consumes0_dec_rows. unfold dec_RowsResult. consumes0_tac.
  Qed.
End Totality.

Theorem PreparedResult_total fuel version bs : (length bs < 2 * fuel)%nat ->
  dec_PreparedResult fuel version bs <> DPanic /\ dec_PreparedResult fuel version bs <> DFuel.
Proof. intro H. apply (total_upto_dec_PreparedResult fuel version (length bs) H). lia. Qed.
Theorem RowsResult_total fuel version bs : (length bs < 2 * fuel)%nat ->
  dec_RowsResult fuel version bs <> DPanic /\ dec_RowsResult fuel version bs <> DFuel.
Proof. intro H. apply (total_upto_dec_RowsResult fuel version (length bs) H). lia. Qed.

(* the RESULT decoder as the frame layer calls it: fuel = (at least) the number of input bytes *)
Theorem dec_result_total fuel version bs : (length bs <= fuel)%nat ->
  dec_result fuel version bs <> DPanic /\ dec_result fuel version bs <> DFuel.
Proof.
  intro H. destruct bs as [|x bs'].
  - unfold dec_result, bind. split; discriminate.
  - apply (total_upto_dec_result fuel version (length (x :: bs'))); [cbn [length] in *; lia|lia].
Qed.

(* ================= the RESULT codec as a whole ================= *)
Lemma enc_result_ok version m : result_okb version m = true -> enc_result version m = Ok (bytes_result version m).
Proof.
  destruct m; try discriminate; cbn [result_okb]; intro H; unfold enc_result; cbn [result_type bytes_result]; unfold write_int.
  - reflexivity.
  - rewrite (enc_SetKeyspaceResult_ok _ _ H). reflexivity.
  - destruct (SchemaChangeResult_main _ _ H) as (E & _). rewrite E. reflexivity.
  - rewrite (enc_PreparedResult_ok _ _ H). reflexivity.
  - rewrite (enc_RowsResult_ok _ _ H). reflexivity.
Qed.

Lemma len_result_ok version m : result_okb version m = true -> len_result version m = Ok (zlen (bytes_result version m)).
Proof.
  destruct m; try discriminate; cbn [result_okb]; intro H; unfold len_result; cbn [result_type bytes_result].
  - reflexivity.
  - rewrite len_SetKeyspaceResult_ok. cbn [ladd]. rewrite zlen_app, be_bytes_zlen. reflexivity.
  - destruct (SchemaChangeResult_main _ _ H) as (_ & _ & E & _). rewrite E. cbn [ladd]. rewrite zlen_app, be_bytes_zlen. reflexivity.
  - rewrite (len_PreparedResult_ok _ _ H). cbn [ladd]. rewrite zlen_app, be_bytes_zlen. reflexivity.
  - rewrite (len_RowsResult_ok _ _ H). cbn [ladd]. rewrite zlen_app, be_bytes_zlen. reflexivity.
Qed.

Lemma dec_result_app fuel version m rest : result_okb version m = true -> (length (bytes_result version m) <= fuel)%nat ->
  dec_result fuel version (bytes_result version m ++ rest) = DOk (norm_result version m) rest.
Proof.
  destruct m; try discriminate; cbn [result_okb bytes_result norm_result]; intros H Hfuel; unfold dec_result;
    rewrite <- ?app_assoc; unfold bind at 1.
  - rewrite read_int_app by (vm_compute; split; congruence). reflexivity.
  - rewrite read_int_app by (vm_compute; split; congruence). cbv beta zeta.
    change (wrap_u 32 ResultTypeSetKeyspace) with ResultTypeSetKeyspace. eval_closed_tests.
    unfold rmap, bind. rewrite (dec_SetKeyspaceResult_app _ _ _ H). reflexivity.
  - rewrite read_int_app by (vm_compute; split; congruence). cbv beta zeta.
    change (wrap_u 32 ResultTypeSchemaChange) with ResultTypeSchemaChange. eval_closed_tests.
    destruct (SchemaChangeResult_main _ _ H) as (_ & E & _). unfold rmap, bind. rewrite E. reflexivity.
  - rewrite read_int_app by (vm_compute; split; congruence). cbv beta zeta.
    change (wrap_u 32 ResultTypePrepared) with ResultTypePrepared. eval_closed_tests.
    rewrite app_length in Hfuel. unfold rmap, bind. rewrite (dec_PreparedResult_app _ _ _ _ H) by lia. reflexivity.
  - rewrite read_int_app by (vm_compute; split; congruence). cbv beta zeta.
    change (wrap_u 32 ResultTypeRows) with ResultTypeRows. eval_closed_tests.
    rewrite app_length in Hfuel. unfold rmap, bind. rewrite (dec_RowsResult_app _ _ _ _ H) by lia. reflexivity.
Qed.

Lemma norm_result_ok version m : result_okb version m = true ->
  result_okb version (norm_result version m) = true /\ norm_result version (norm_result version m) = norm_result version m.
Proof.
  destruct m; try discriminate; cbn [result_okb norm_result]; intro H.
  - split; reflexivity.
  - destruct (norm_SetKeyspaceResult_ok _ _ H) as [H1 H2]. rewrite H2. split; [exact H1|reflexivity].
  - destruct (norm_SchemaChangeResult_ok _ _ H) as [H1 H2]. rewrite H2. split; [exact H1|reflexivity].
  - destruct (norm_PreparedResult_ok _ _ H) as [H1 H2]. rewrite H2. split; [exact H1|reflexivity].
  - destruct (norm_RowsResult_ok _ _ H) as [H1 H2]. rewrite H2. split; [exact H1|reflexivity].
Qed.

(* VOID has an empty body *)
Theorem VoidResult_roundtrip version : exists b, enc_result version M_VoidResult = Ok b /\
  forall rest fuel, dec_result fuel version (b ++ rest) = DOk (norm_result version M_VoidResult) rest.
Proof.
  exists (be_bytes 4 ResultTypeVoid). split; [reflexivity|]. intros rest fuel.
  unfold dec_result, bind. rewrite read_int_app by (vm_compute; split; congruence). reflexivity.
Qed.
Theorem VoidResult_length version b : enc_result version M_VoidResult = Ok b -> len_result version M_VoidResult = Ok (zlen b).
Proof. intro E. vm_compute in E. assert (b = [0; 0; 0; 1]) by congruence. subst b. reflexivity. Qed.
Example VoidResult_example : enc_result 4 M_VoidResult = Ok [0; 0; 0; 1] /\ len_result 4 M_VoidResult = Ok 4 /\
  dec_result 0 4 [0; 0; 0; 1; 99] = DOk M_VoidResult [99].
Proof. vm_compute. repeat split. Qed.

(* ---------------- group theorems (what the frame layer imports) ---------------- *)
Lemma is_result_opcode m : is_result m = true -> msg_opcode m = OpCodeResult.
Proof. destruct m; try discriminate; reflexivity. Qed.

Theorem result_group_roundtrip version m w :
  enc_result_group version m = Some w -> result_group_okb version m = Some true ->
  exists b m', w = Ok b /\ norm_result_group version m = Some m' /\
    forall rest fuel, (length (b ++ rest) <= fuel)%nat ->
      exists r, dec_result_group fuel version (msg_opcode m) = Some r /\ r (b ++ rest) = DOk m' rest.
Proof.
  unfold enc_result_group, result_group_okb, norm_result_group, dec_result_group.
  destruct (is_result m) eqn:Er; [|discriminate]. intros Ew Eok.
  assert (Hok : result_okb version m = true) by congruence.
  assert (w = enc_result version m) by congruence. subst w.
  exists (bytes_result version m), (norm_result version m). split; [apply enc_result_ok; exact Hok|]. split; [reflexivity|].
  intros rest fuel Hfuel. rewrite (is_result_opcode m Er). change (OpCodeResult =? OpCodeResult) with true.
  eexists. split; [reflexivity|]. apply dec_result_app; [exact Hok|]. rewrite app_length in Hfuel. lia.
Qed.

Theorem result_group_length version m b :
  enc_result_group version m = Some (Ok b) -> result_group_okb version m = Some true ->
  len_result_group version m = Some (Ok (zlen b)).
Proof.
  unfold enc_result_group, result_group_okb, len_result_group.
  destruct (is_result m) eqn:Er; [|discriminate]. intros Ew Eok.
  assert (Hok : result_okb version m = true) by congruence.
  rewrite (enc_result_ok _ _ Hok) in Ew. assert (b = bytes_result version m) by congruence. subst b.
  rewrite (len_result_ok _ _ Hok). reflexivity.
Qed.

Theorem result_group_total fuel version opcode r bs :
  dec_result_group fuel version opcode = Some r -> (length bs <= fuel)%nat -> r bs <> DPanic /\ r bs <> DFuel.
Proof.
  unfold dec_result_group. destruct (opcode =? OpCodeResult); [|discriminate]. intros E Hf.
  assert (r = dec_result fuel version) by congruence. subst r. apply dec_result_total. exact Hf.
Qed.

Theorem result_group_norm version m m' :
  result_group_okb version m = Some true -> norm_result_group version m = Some m' ->
  result_group_okb version m' = Some true /\ norm_result_group version m' = Some m'.
Proof.
  unfold result_group_okb, norm_result_group. destruct (is_result m) eqn:Er; [|discriminate]. intros Eok En.
  assert (Hok : result_okb version m = true) by congruence. assert (m' = norm_result version m) by congruence. subst m'.
  destruct (norm_result_ok _ _ Hok) as [H1 H2].
  assert (Er' : is_result (norm_result version m) = true) by (destruct m; try discriminate; reflexivity).
  rewrite Er', H1, H2. split; reflexivity.
Qed.

(* the dispatch functions agree on their domain *)
Lemma result_group_domain version m :
  (enc_result_group version m = None <-> is_result m = false) /\
  (len_result_group version m = None <-> is_result m = false) /\
  (result_group_okb version m = None <-> is_result m = false) /\
  (norm_result_group version m = None <-> is_result m = false).
Proof.
  unfold enc_result_group, len_result_group, result_group_okb, norm_result_group.
  destruct (is_result m); repeat split; intro; try reflexivity; discriminate.
Qed.

(* ---------------- non-vacuity ---------------- *)
Definition ex_col (ks tb name : bytes) (t : DataType) : option ColumnMetadata :=
  Some {| cm_Keyspace := ks; cm_Table := tb; cm_Name := name; cm_Index := 7; cm_Type := Some t |}.
Definition ex_rows_md : RowsMetadata :=
  {| rm_ColumnCount := 2; rm_PagingState := Some [1; 2; 3]; rm_NewResultMetadataId := Some [9; 9];
     rm_ContinuousPageNumber := 0; rm_LastContinuousPage := false;
     rm_Columns := [ex_col [107] [116] [97] (DT_Primitive DataTypeCodeInt);
                    ex_col [107] [116] [98] (DT_Map (Some (DT_Primitive DataTypeCodeVarchar)) (Some (DT_List (Some (DT_Primitive DataTypeCodeInt)))))] |}.
Definition ex_rows : RowsResult :=
  {| rr_Metadata := Some ex_rows_md; rr_Data := [[Some [0; 0; 0; 1]; None]; [Some []; Some [5]]] |}.
Definition ex_rows_nometa : RowsResult :=
  {| rr_Metadata := Some {| rm_ColumnCount := 0; rm_PagingState := None; rm_NewResultMetadataId := None;
                            rm_ContinuousPageNumber := 3; rm_LastContinuousPage := true; rm_Columns := [] |};
     rr_Data := [[]; []; []] |}.
Definition ex_prepared : PreparedResult :=
  {| pr_PreparedQueryId := Some [1; 2; 3; 4]; pr_ResultMetadataId := Some [5; 6];
     pr_VariablesMetadata := Some {| vm_PkIndices := [0; 1];
                                     vm_Columns := [ex_col [107] [116] [97] (DT_Primitive DataTypeCodeInt);
                                                    ex_col [107] [117] [98] (DT_Primitive DataTypeCodeBlob)] |};
     pr_ResultMetadata := None |}.

Example RowsResult_example : RowsResult_okb 5 ex_rows = true /\ RowsResult_okb 66 ex_rows_nometa = true.
Proof. vm_compute. split; reflexivity. Qed.
Example PreparedResult_example : PreparedResult_okb 5 ex_prepared = true /\ PreparedResult_okb 3 ex_prepared = false.
Proof. vm_compute. split; reflexivity. Qed.
(* the model itself, executed: encode, decode with a suffix, compare with the normal form *)
Example result_group_example :
  forallb (fun vm : Z * Message =>
             let (v, m) := vm in
             match enc_result v m, len_result v m with
             | Ok b, Ok l => result_okb v m && (l =? zlen b) &&
                 match dec_result (length (b ++ [42])) v (b ++ [42]) with
                 | DOk m' [42] => Message_beq m' (norm_result v m)
                 | _ => false
                 end
             | _, _ => false
             end)
          [(5, M_RowsResult ex_rows); (66, M_RowsResult ex_rows_nometa); (5, M_PreparedResult ex_prepared);
           (4, M_PreparedResult ex_prepared); (2, M_VoidResult); (3, M_SetKeyspaceResult {| sk_Keyspace := [107] |})] = true.
Proof. vm_compute. reflexivity. Qed.

(* ================= observations on the faithful model (replayed on the real code, see notes/msgres.md) ================= *)
(* O1. zero columns: the row loop consumes nothing, so the number of decoded rows (and the size of make(RowSet, n))
   is whatever the 4-byte count says, independently of the input length *)
Lemma dec_rows_zero_columns n bs : dec_rows n 0 bs = DOk (repeat [] (Z.to_nat n)) bs.
Proof. reflexivity. Qed.
Example rows_zero_columns_example :
  dec_result 16 4 [0;0;0;2; 0;0;0;4; 0;0;0;0; 0;0;3;232] =
  DOk (M_RowsResult {| rr_Metadata := Some {| rm_ColumnCount := 0; rm_PagingState := None; rm_NewResultMetadataId := None;
                                              rm_ContinuousPageNumber := 0; rm_LastContinuousPage := false; rm_Columns := [] |};
                       rr_Data := repeat [] 1000 |}) [].
Proof. vm_compute. reflexivity. Qed.

(* O2. rows whose width differs from ColumnCount are accepted by the encoder and silently re-cut by the decoder
   (hence the conjunct  zlen row = ColumnCount  of RowsResult_okb) *)
Example rows_ragged_reshaped :
  let md := {| rm_ColumnCount := 2; rm_PagingState := None; rm_NewResultMetadataId := None;
               rm_ContinuousPageNumber := 0; rm_LastContinuousPage := false; rm_Columns := [] |} in
  let m := {| rr_Metadata := Some md; rr_Data := [[Some [1]]; [Some [2]; Some [3]; Some [4]]] |} in
  match enc_result 4 (M_RowsResult m) with
  | Ok b => len_result 4 (M_RowsResult m) = Ok (zlen b) /\
            dec_result (length b) 4 b =
            DOk (M_RowsResult {| rr_Metadata := Some md; rr_Data := [[Some [1]; Some [2]]; [Some [3]; Some [4]]] |}) []
  | Err => False
  end.
Proof. vm_compute. split; reflexivity. Qed.

(* O3. Encode accepts a RowsResult with nil Metadata, EncodedLength refuses it *)
Example rows_nil_metadata_length :
  enc_result 4 (M_RowsResult {| rr_Metadata := None; rr_Data := [] |}) = Ok [0;0;0;2; 0;0;0;4; 0;0;0;0; 0;0;0;0] /\
  len_result 4 (M_RowsResult {| rr_Metadata := None; rr_Data := [] |}) = Err.
Proof. vm_compute. split; reflexivity. Qed.

(* O4. the decoder accepts bodies the encoder refuses to produce (empty keyspace, empty prepared id, unknown change type) *)
Example decoder_accepts_more :
  dec_result 6 3 [0;0;0;3; 0;0] = DOk (M_SetKeyspaceResult {| sk_Keyspace := [] |}) [] /\
  enc_result 3 (M_SetKeyspaceResult {| sk_Keyspace := [] |}) = Err /\
  match dec_result 13 2 [0;0;0;5; 0;1;88; 0;1;107; 0;0] with
  | DOk m [] => enc_result 2 m = Err
  | _ => False
  end.
Proof. vm_compute. repeat split. Qed.

(* O5. features of other protocol versions are encoded (and decoded) whatever the version: continuous-paging fields on
   OSS v4, NewResultMetadataId on v3 - excluded by the (version) conjuncts of RowsMetadata_okb *)
Example version_blind_flags :
  let md := {| rm_ColumnCount := 0; rm_PagingState := None; rm_NewResultMetadataId := Some [7];
               rm_ContinuousPageNumber := 2; rm_LastContinuousPage := true; rm_Columns := [] |} in
  let m := M_RowsResult {| rr_Metadata := Some md; rr_Data := [] |} in
  result_okb 3 m = false /\
  match enc_result 3 m with Ok b => dec_result (length b) 3 b = DOk m [] | Err => False end.
Proof. vm_compute. split; reflexivity. Qed.
