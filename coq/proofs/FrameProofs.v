(* Frame-level theorems, parametric in message codecs that satisfy the per-message laws
   (round trip with arbitrary suffix, declared length = emitted length) and in a lossless compressor. *)
From Coq Require Import ZArith List Bool Lia.
From Coq Require Import ZifyBool ZifyNat.
From GCNP Require Import base.GoInt base.Bytes base.Codec gen.Constants_gen spec.SpecTables
  model.Prim model.DataType model.MsgTypes model.Frame model.MsgRequests proofs.PrimProofs proofs.ConstantsProofs proofs.CapabilityProofs
  proofs.MsgRequestsLib.
Import ListNotations.
Open Scope Z_scope.
Ltac Zify.zify_post_hook ::= Z.div_mod_to_equations.

(* ---------- header ---------- *)
Definition supported (v : Z) : Prop := In v spec_versions.

Lemma supported_cases v : supported v -> v = 2 \/ v = 3 \/ v = 4 \/ v = 5 \/ v = 65 \/ v = 66.
Proof. unfold supported, spec_versions, V2, V3, V4, V5, DSE1, DSE2. cbn [In]. intuition. Qed.

Lemma supported_check v : supported v -> is_ok (CheckSupportedProtocolVersion v) = true.
Proof. intro H. destruct (supported_cases v H) as [->|[->|[->|[->|[->| ->]]]]]; reflexivity. Qed.

Lemma check_supported v : is_ok (CheckSupportedProtocolVersion v) = true -> supported v.
Proof.
  intro H. apply unsupported_versions_rejected. unfold CheckSupportedProtocolVersion in H.
  destruct (ProtocolVersion_IsSupported v); [reflexivity|discriminate].
Qed.

Definition header_ok (h : Header) : Prop :=
  supported (h_Version h) /\
  0 <= h_Flags h < 256 /\
  (if Z.geb (h_Version h) 3 then -32768 <= h_StreamId h < 32768 else -128 <= h_StreamId h < 128) /\
  OpCode_IsValid (h_OpCode h) = true /\
  (if h_IsResponse h then OpCode_IsResponse (h_OpCode h) else OpCode_IsRequest (h_OpCode h)) = true /\
  dse_opcode_ok (h_Version h) (h_OpCode h) = true /\
  in_i32 (h_BodyLength h).

Definition hdr_stream_bytes (h : Header) : bytes :=
  if Z.geb (h_Version h) 3 then be_bytes 2 (wrap_u 16 (h_StreamId h)) else be_bytes 1 (wrap_u 8 (h_StreamId h)).
Definition hdr_bytes (h : Header) : bytes :=
  be_bytes 1 (Z.lor (h_Version h) (if h_IsResponse h then 128 else 0)) ++
  be_bytes 1 (h_Flags h) ++ hdr_stream_bytes h ++ be_bytes 1 (h_OpCode h) ++ be_bytes 4 (h_BodyLength h).

Lemma opcode_valid_range op : OpCode_IsValid op = true -> 0 <= op < 256.
Proof.
  intro H. revert H. cbv -[Z.eqb Z.le Z.lt].
  repeat match goal with |- context [Z.eqb op ?k] => destruct (Z.eqb_spec op k) as [->|?]; [intros _; lia|] end.
  intro H; discriminate H.
Qed.

Lemma hdr_len h : zlen (hdr_bytes h) = (if Z.geb (h_Version h) 3 then 9 else 8).
Proof.
  unfold hdr_bytes, hdr_stream_bytes. rewrite !zlen_app. destruct (Z.geb (h_Version h) 3); rewrite !be_bytes_zlen; reflexivity.
Qed.

Lemma version_geb3 v : Z.geb v ProtocolVersion3 = Z.geb v 3.
Proof. reflexivity. Qed.

Lemma encode_header_ok h : header_ok h -> encode_header h = Ok (hdr_bytes h).
Proof.
  intros (Hv & Hf & Hs & Hop & Hdir & Hdse & Hl). unfold encode_header.
  rewrite (supported_check _ Hv). cbn [wguard]. rewrite wapp_nil_l.
  change (ProtocolVersion_IsBeta (h_Version h)) with false. cbn [andb negb wguard]. rewrite wapp_nil_l.
  pose proof (opcode_valid_range _ Hop) as Hopr.
  assert (Hvr : 0 <= h_Version h < 128) by (destruct (supported_cases _ Hv) as [->|[->|[->|[->|[->| ->]]]]]; lia).
  unfold write_byte, write_int, write_stream_id, write_short, hdr_bytes, hdr_stream_bytes. rewrite version_geb3.
  rewrite (wrap_u_id 8 (h_Version h)) by (try lia; change (2^8) with 256; lia).
  rewrite (wrap_u_id 8 (h_Flags h)) by (try lia; change (2^8) with 256; lia).
  rewrite (wrap_u_id 8 (h_OpCode h)) by (try lia; change (2^8) with 256; lia).
  destruct (Z.geb (h_Version h) 3).
  - cbn [wapp]. rewrite <- ?app_assoc. reflexivity.
  - destruct (Z.gtb_spec (h_StreamId h) 127); [lia|]. destruct (Z.ltb_spec (h_StreamId h) (-128)); [lia|].
    cbn [orb wapp]. rewrite <- ?app_assoc. reflexivity.
Qed.

Lemma version_byte v (r : bool) : v = 2 \/ v = 3 \/ v = 4 \/ v = 5 \/ v = 65 \/ v = 66 ->
  let vd := Z.lor v (if r then 128 else 0) in
  0 <= vd < 256 /\ Z.gtb (Z.land vd 128) 0 = r /\ Z.land vd 127 = v.
Proof. intros [->|[->|[->|[->|[->| ->]]]]]; destruct r; vm_compute; repeat split; intro; discriminate. Qed.

Lemma decode_header_app h rest : header_ok h -> decode_header (hdr_bytes h ++ rest) = DOk h rest.
Proof.
  destruct h as [r v fl sid op len]. unfold header_ok, decode_header, hdr_bytes, hdr_stream_bytes.
  cbn [h_IsResponse h_Version h_Flags h_StreamId h_OpCode h_BodyLength].
  intros (Hv & Hf & Hs & Hop & Hdir & Hdse & Hl). rewrite <- !app_assoc.
  destruct (version_byte v r (supported_cases _ Hv)) as (Hvd & Hr & Hver).
  unfold bind at 1. rewrite read_byte_app by (unfold in_u8; exact Hvd). rewrite Hr, Hver.
  unfold bind at 1. rewrite read_byte_app by (unfold in_u8; exact Hf).
  rewrite (supported_check _ Hv). cbn [rguard]. unfold bind at 1, ret at 1.
  change (ProtocolVersion_IsBeta v) with false. cbn [andb negb rguard]. unfold bind at 1, ret at 1.
  pose proof (opcode_valid_range _ Hop) as Hopr.
  assert (Hsid : forall tail, read_stream_id v ((if Z.geb v 3 then be_bytes 2 (wrap_u 16 sid) else be_bytes 1 (wrap_u 8 sid)) ++ tail)
                 = DOk sid tail).
  { intro tail. unfold read_stream_id. rewrite version_geb3. destruct (Z.geb v 3).
    - unfold rmap, bind. rewrite read_short_app by (unfold in_u16, wrap_u; change (2^16) with 65536; lia).
      unfold ret. f_equal. unfold wrap_i, wrap_u. change (2^(16-1)) with 32768. change (2^16) with 65536. lia.
    - unfold rmap, bind. rewrite read_byte_app by (unfold in_u8, wrap_u; change (2^8) with 256; lia).
      unfold ret. f_equal. unfold wrap_i, wrap_u. change (2^(16-1)) with 32768. change (2^16) with 65536.
      change (2^(8-1)) with 128. change (2^8) with 256. lia. }
  unfold bind at 1. rewrite Hsid.
  unfold bind at 1. rewrite read_byte_app by (unfold in_u8; exact Hopr).
  unfold bind at 1. rewrite read_int_app by exact Hl.
  unfold CheckValidOpCode. rewrite Hop. cbn [negb is_ok rguard]. unfold bind at 1, ret at 1.
  rewrite Hdse. cbn [rguard]. unfold bind at 1, ret at 1.
  unfold CheckResponseOpCode, CheckRequestOpCode.
  destruct r; rewrite Hdir; cbn [negb is_ok rguard]; unfold bind at 1, ret at 1; reflexivity.
Qed.

(* ---------- frames over message codecs that satisfy the per-message laws ---------- *)
Section WithCodec.
  Variable mc : msg_codec.
  Variable msg_ok : Z -> Message -> Prop.
  Variable msg_norm : Z -> Message -> Message.
  Hypothesis H_rt : forall v m, supported v -> msg_ok v m ->
    exists mb, mc_encode mc v m = Ok mb /\ forall rest, mc_decode mc v (msg_opcode m) (mb ++ rest) = DOk (msg_norm v m) rest.
  Hypothesis H_len : forall v m mb, supported v -> msg_ok v m -> mc_encode mc v m = Ok mb -> mc_length mc v m = Ok (zlen mb).

  Definition has_tracing_id (h : Header) (b : Body) : bool :=
    has (h_Flags h) HeaderFlagTracing && msg_is_response (bd_Message b).

  Definition has_warnings (h : Header) (b : Body) : bool :=
    has (h_Flags h) HeaderFlagWarning && msg_is_response (bd_Message b).

  (* flags and optional body parts agree (what the mutators of frame.go maintain), features fit the version *)
  Definition body_ok (h : Header) (b : Body) : Prop :=
    (if has_tracing_id h b then exists u, bd_TracingId b = Some u /\ zlen u = 16 else bd_TracingId b = None) /\
    (if has (h_Flags h) HeaderFlagCustomPayload
     then 4 <= h_Version h /\ zlen (bd_CustomPayload b) <= 65535 /\ bytes_map_small (bd_CustomPayload b) /\
          nodup_keysb (bd_CustomPayload b) = true
     else bd_CustomPayload b = []) /\
    (if has_warnings h b
     then 4 <= h_Version h /\ exists l, bd_Warnings b = Some l /\ string_list_ok l
     else olist (bd_Warnings b) = []) /\
    msg_ok (h_Version h) (bd_Message b).

  Definition frame_ok (f : Frame) : Prop :=
    let h := f_Header f in let b := f_Body f in
    supported (h_Version h) /\ 0 <= h_Flags h < 256 /\
    (if Z.geb (h_Version h) 3 then -32768 <= h_StreamId h < 32768 else -128 <= h_StreamId h < 128) /\
    h_IsResponse h = msg_is_response (bd_Message b) /\
    h_OpCode h = msg_opcode (bd_Message b) /\
    dse_opcode_ok (h_Version h) (h_OpCode h) = true /\
    body_ok h b.

  (* what the wire carries: the message in normal form; an empty, unflagged warning list is nil *)
  Definition norm_body (h : Header) (b : Body) : Body :=
    {| bd_TracingId := bd_TracingId b; bd_CustomPayload := bd_CustomPayload b;
       bd_Warnings := (if has_warnings h b then bd_Warnings b else None);
       bd_Message := msg_norm (h_Version h) (bd_Message b) |}.

  (* the bytes of an uncompressed body, given the bytes of the message *)
  Definition body_bytes (h : Header) (b : Body) (mb : bytes) : bytes :=
    (if has_tracing_id h b then olist (bd_TracingId b) else []) ++
    (if has_warnings h b then enc_string_list (olist (bd_Warnings b)) else []) ++
    (if has (h_Flags h) HeaderFlagCustomPayload then enc_bytes_map (bd_CustomPayload b) else []) ++
    mb.

  Lemma version_ltb4 v : Z.ltb v ProtocolVersion4 = Z.ltb v 4. Proof. reflexivity. Qed.

  Lemma encode_body_uncompressed_ok h b mb :
    body_ok h b -> mc_encode mc (h_Version h) (bd_Message b) = Ok mb ->
    encode_body_uncompressed mc h b = Ok (body_bytes h b mb).
  Proof.
    intros (Ht & Hp & Hw & Hm) Hmb. unfold encode_body_uncompressed, body_bytes. fold (has_tracing_id h b) (has_warnings h b). rewrite Hmb.
    rewrite !version_ltb4.
    destruct (has_tracing_id h b); [destruct Ht as (u & Hu1 & Hu2); rewrite Hu1; cbn [write_uuid olist]|];
    (destruct (has (h_Flags h) HeaderFlagCustomPayload);
       [destruct Hp as (Hv & Hn & Hs & Hnd); destruct (Z.ltb_spec (h_Version h) 4); [lia|]; rewrite write_bytes_map_ok by assumption|]);
    (destruct (has_warnings h b);
       [destruct Hw as (Hv' & l & Hl0 & Hl1 & Hl2); rewrite Hl0; destruct (Z.ltb_spec (h_Version h) 4); [lia|];
        cbn [andb olist]; rewrite write_string_list_ok by assumption|]);
    reflexivity.
  Qed.

  Lemma decode_body_parts_app h b mb rest :
    supported (h_Version h) -> h_IsResponse h = msg_is_response (bd_Message b) -> h_OpCode h = msg_opcode (bd_Message b) ->
    body_ok h b -> mc_encode mc (h_Version h) (bd_Message b) = Ok mb ->
    decode_body_parts mc h (body_bytes h b mb ++ rest) = DOk (norm_body h b) rest.
  Proof.
    intros Hsup Hresp Hop (Ht & Hp & Hw & Hm) Hmb. unfold decode_body_parts, body_bytes, norm_body. rewrite <- !app_assoc.
    destruct (H_rt _ _ Hsup Hm) as (mb' & Hmb' & Hdec). assert (mb' = mb) by congruence. subst mb'.
    rewrite Hresp. rewrite (andb_comm (msg_is_response (bd_Message b)) (has (h_Flags h) HeaderFlagTracing)).
    rewrite (andb_comm (msg_is_response (bd_Message b)) (has (h_Flags h) HeaderFlagWarning)). fold (has_tracing_id h b) (has_warnings h b).
    (* tracing id *)
    unfold bind at 1.
    destruct (has_tracing_id h b);
      [destruct Ht as (u & Hu1 & Hu2); rewrite Hu1; cbn [olist]; unfold rmap at 1, bind at 1; rewrite read_uuid_app by exact Hu2; unfold ret at 1
      | rewrite Ht; unfold ret at 1; rewrite app_nil_l].
    all: unfold bind at 1.
    (* warnings *)
    all: destruct (has_warnings h b);
      [destruct Hw as (Hv & l & Hl0 & Hl1 & Hl2); rewrite Hl0; cbn [olist]; unfold rmap at 1, bind at 1;
       rewrite read_string_list_app by assumption; unfold ret at 1
      | unfold ret at 1; rewrite app_nil_l].
    all: unfold bind at 1.
    (* custom payload *)
    all: destruct (has (h_Flags h) HeaderFlagCustomPayload);
      [destruct Hp as (Hv4 & Hn & Hs & Hnd); unfold rmap at 1, bind at 1; rewrite read_bytes_map_app by assumption;
       unfold ret at 1; rewrite dedup_last_nodup by exact Hnd
      | rewrite Hp; unfold ret at 1; rewrite app_nil_l].
    all: unfold bind at 1; rewrite Hop, Hdec; reflexivity.
  Qed.

  (* C03: the declared body length is the number of body bytes *)
  Lemma uncompressed_body_length_ok h b mb :
    supported (h_Version h) -> body_ok h b -> mc_encode mc (h_Version h) (bd_Message b) = Ok mb ->
    uncompressed_body_length mc h b = Ok (zlen (body_bytes h b mb)).
  Proof.
    intros Hsup (Ht & Hp & Hw & Hm) Hmb. unfold uncompressed_body_length, body_bytes. fold (has_tracing_id h b) (has_warnings h b).
    rewrite (H_len _ _ _ Hsup Hm Hmb). rewrite !zlen_app.
    destruct (has_tracing_id h b); [destruct Ht as (u & Hu1 & Hu2); rewrite Hu1; cbn [olist]; rewrite Hu2|];
    (destruct (has (h_Flags h) HeaderFlagCustomPayload); [rewrite enc_bytes_map_len|]);
    (destruct (has_warnings h b); [rewrite enc_string_list_len|]);
    cbn [ladd]; change (zlen (@nil Z)) with 0; unfold LengthOfUuid; f_equal; lia.
  Qed.

  (* ---------- whole frames ---------- *)
  Lemma msg_opcode_valid m :
    OpCode_IsValid (msg_opcode m) = true /\
    (if msg_is_response m then OpCode_IsResponse (msg_opcode m) else OpCode_IsRequest (msg_opcode m)) = true.
  Proof. destruct m; split; reflexivity. Qed.

  Lemma body_ok_wbl h b n : body_ok (with_body_length h n) b <-> body_ok h b.
  Proof. unfold body_ok, has_tracing_id, has_warnings, with_body_length. cbn [h_Flags h_Version]. tauto. Qed.
  Lemma body_bytes_wbl h b n mb : body_bytes (with_body_length h n) b mb = body_bytes h b mb.
  Proof. reflexivity. Qed.

  Lemma frame_header_ok f n : frame_ok f -> in_i32 n -> header_ok (with_body_length (f_Header f) n).
  Proof.
    intros (Hv & Hf & Hs & Hr & Hop & Hdse & Hb) Hn. unfold header_ok, with_body_length.
    cbn [h_Version h_Flags h_StreamId h_OpCode h_IsResponse h_BodyLength].
    destruct (msg_opcode_valid (bd_Message (f_Body f))) as [Hval Hdir].
    rewrite Hop in Hdse. rewrite Hr, Hop. repeat split; try assumption; try lia; apply Hn.
  Qed.

  Definition encoded_plain (f : Frame) (mb : bytes) : bytes :=
    let h := f_Header f in let b := f_Body f in
    hdr_bytes (with_body_length h (zlen (body_bytes h b mb))) ++ body_bytes h b mb.

  (* DecodeBody on an uncompressed body followed by anything: the reader limited to the declared length sees exactly the body *)
  Lemma decode_body_plain_app comp h b mb rest :
    supported (h_Version h) -> h_IsResponse h = msg_is_response (bd_Message b) -> h_OpCode h = msg_opcode (bd_Message b) ->
    body_ok h b -> mc_encode mc (h_Version h) (bd_Message b) = Ok mb ->
    has (h_Flags h) HeaderFlagCompressed = false ->
    let n := zlen (body_bytes h b mb) in
    decode_body mc comp (with_body_length h n) (body_bytes h b mb ++ rest) = DOk (norm_body h b) rest.
  Proof.
    intros Hv Hr Hop Hb Hmb Hnc n. unfold decode_body. cbn [with_body_length h_Flags h_BodyLength]. rewrite Hnc.
    pose proof (zlen_nonneg (body_bytes h b mb)) as Hn0. fold n in Hn0. destruct (Z.ltb_spec n 0); [lia|].
    rewrite zlen_app. fold n. pose proof (zlen_nonneg rest). rewrite Z.min_l by lia.
    destruct (Z.leb_spec n (n + zlen rest)); [|lia].
    assert (En : Z.to_nat n = length (body_bytes h b mb)) by (unfold n, zlen; apply Nat2Z.id).
    rewrite En, firstn_app_exact, skipn_app_exact.
    rewrite <- (app_nil_r (body_bytes h b mb)).
    rewrite <- (body_bytes_wbl h b n mb).
    rewrite (decode_body_parts_app (with_body_length h n) b mb []); [reflexivity|exact Hv|exact Hr|exact Hop| apply body_ok_wbl; exact Hb|exact Hmb].
  Qed.

  (* C01 / C03, uncompressed: the encoder emits header ++ body with the body length declared in the header,
     and the decoder returns the (normalised) frame and exactly the remaining input *)
  Theorem frame_roundtrip_plain comp f mb :
    frame_ok f -> has (h_Flags (f_Header f)) HeaderFlagCompressed = false ->
    mc_encode mc (h_Version (f_Header f)) (bd_Message (f_Body f)) = Ok mb ->
    zlen (body_bytes (f_Header f) (f_Body f) mb) < 2147483648 ->
    encode_frame mc comp f = Ok (encoded_plain f mb) /\
    forall rest, decode_frame mc comp (encoded_plain f mb ++ rest) =
      DOk {| f_Header := with_body_length (f_Header f) (zlen (body_bytes (f_Header f) (f_Body f) mb));
             f_Body := norm_body (f_Header f) (f_Body f) |} rest.
  Proof.
    intros Hok Hnc Hmb Hsmall. pose proof Hok as (Hv & Hf & Hs & Hr & Hop & Hdse & Hb).
    set (h := f_Header f) in *. set (b := f_Body f) in *. set (n := zlen (body_bytes h b mb)) in *.
    assert (Hn : in_i32 n) by (unfold in_i32, n; pose proof (zlen_nonneg (body_bytes h b mb)); lia).
    pose proof (frame_header_ok f n Hok Hn) as Hh. fold h in Hh.
    split.
    - unfold encode_frame. fold h b. rewrite Hnc.
      rewrite (uncompressed_body_length_ok h b mb Hv Hb Hmb). fold n.
      rewrite wrap_i32_small by (unfold in_i32 in Hn; lia).
      rewrite (encode_header_ok _ Hh). unfold encode_body.
      cbn [with_body_length h_OpCode h_Flags]. rewrite Hop, Z.eqb_refl. cbn [negb]. rewrite Hnc.
      rewrite (encode_body_uncompressed_ok (with_body_length h n) b mb); [reflexivity| apply body_ok_wbl; exact Hb | exact Hmb].
    - intro rest. unfold decode_frame, encoded_plain. fold h b n. rewrite <- app_assoc.
      unfold bind at 1. rewrite (decode_header_app _ _ Hh).
      unfold bind at 1. unfold n. rewrite (decode_body_plain_app comp h b mb rest Hv Hr Hop Hb Hmb Hnc). reflexivity.
  Qed.

  (* a lossless compressor (the contract proved/assumed for C08) *)
  Definition comp_lossless (c : compressor) : Prop :=
    forall x, exists y, cmp_compress c x = Ok y /\ cmp_decompress c y = Ok x.

  Theorem frame_roundtrip_compressed c f mb y :
    frame_ok f -> has (h_Flags (f_Header f)) HeaderFlagCompressed = true -> comp_lossless c ->
    mc_encode mc (h_Version (f_Header f)) (bd_Message (f_Body f)) = Ok mb ->
    cmp_compress c (body_bytes (f_Header f) (f_Body f) mb) = Ok y -> zlen y < 2147483648 ->
    encode_frame mc (Some c) f = Ok (hdr_bytes (with_body_length (f_Header f) (zlen y)) ++ y) /\
    forall rest, decode_frame mc (Some c) ((hdr_bytes (with_body_length (f_Header f) (zlen y)) ++ y) ++ rest) =
      DOk {| f_Header := with_body_length (f_Header f) (zlen y);
             f_Body := norm_body (f_Header f) (f_Body f) |} rest.
  Proof.
    intros Hok Hc Hloss Hmb Hy Hsmall. pose proof Hok as (Hv & Hf & Hs & Hr & Hop & Hdse & Hb).
    set (h := f_Header f) in *. set (b := f_Body f) in *.
    assert (Hn : in_i32 (zlen y)) by (unfold in_i32; pose proof (zlen_nonneg y); lia).
    pose proof (frame_header_ok f (zlen y) Hok Hn) as Hh. fold h in Hh.
    assert (Hdec : cmp_decompress c y = Ok (body_bytes h b mb)).
    { destruct (Hloss (body_bytes h b mb)) as (y' & Hy' & Hd). assert (y' = y) by congruence. subst y'. exact Hd. }
    assert (Hbody : encode_body mc (Some c) h b = Ok y).
    { unfold encode_body. rewrite Hop, Z.eqb_refl. cbn [negb]. rewrite Hc.
      rewrite (uncompressed_body_length_ok h b mb Hv Hb Hmb). rewrite (encode_body_uncompressed_ok h b mb Hb Hmb). exact Hy. }
    split.
    - unfold encode_frame. fold h b. rewrite Hc, Hbody. rewrite wrap_i32_small by (unfold in_i32 in Hn; lia).
      rewrite (encode_header_ok _ Hh). reflexivity.
    - intro rest. unfold decode_frame. rewrite <- app_assoc.
      unfold bind at 1. rewrite (decode_header_app _ _ Hh).
      unfold bind at 1. unfold decode_body. cbn [with_body_length h_Flags h_BodyLength]. rewrite Hc.
      pose proof (zlen_nonneg y). destruct (Z.ltb_spec (zlen y) 0); [lia|].
      rewrite zlen_app. pose proof (zlen_nonneg rest). rewrite Z.min_l by lia.
      unfold zlen at 1 3. rewrite Nat2Z.id. rewrite firstn_app_exact, skipn_app_exact, Hdec.
      rewrite <- (app_nil_r (body_bytes h b mb)).
      rewrite <- (body_bytes_wbl h b (zlen y) mb).
      rewrite (decode_body_parts_app (with_body_length h (zlen y)) b mb []); [reflexivity|exact Hv|exact Hr|exact Hop| apply body_ok_wbl; exact Hb|exact Hmb].
  Qed.

  (* ---------- C03: frames written back to back decode in sequence ---------- *)
  (* [codec_pair comp f bs nf]: f encodes to bs, and bs followed by anything decodes to nf and leaves the rest *)
  Definition codec_pair (comp : option compressor) (f : Frame) (bs : bytes) (nf : Frame) : Prop :=
    encode_frame mc comp f = Ok bs /\ forall rest, decode_frame mc comp (bs ++ rest) = DOk nf rest.

  Inductive stream_of (comp : option compressor) : list Frame -> list bytes -> list Frame -> Prop :=
  | stream_nil : stream_of comp [] [] []
  | stream_cons f bs nf fs bss nfs :
      codec_pair comp f bs nf -> stream_of comp fs bss nfs -> stream_of comp (f :: fs) (bs :: bss) (nf :: nfs).

  Theorem frames_stream comp fs bss nfs rest :
    stream_of comp fs bss nfs ->
    decode_frames mc comp (length fs) (concat bss ++ rest) = DOk nfs rest.
  Proof.
    induction 1 as [|f bs nf fs bss nfs [Henc Hdec] Hs IH]; cbn [length decode_frames concat]; [reflexivity|].
    rewrite <- app_assoc. unfold bind at 1. rewrite Hdec. unfold bind at 1. rewrite IH. reflexivity.
  Qed.

  (* ---------- C05: header-only and raw-body operations ---------- *)
  Lemma decode_raw_body_app h body rest :
    h_BodyLength h = zlen body -> decode_raw_body h (body ++ rest) = DOk (Some body) rest.
  Proof.
    intro Hl. unfold decode_raw_body. rewrite Hl. pose proof (zlen_nonneg body).
    destruct (Z.ltb_spec (zlen body) 0); [lia|]. destruct (Z.eqb_spec (zlen body) 0) as [E|E].
    - assert (body = []) as -> by (destruct body; [reflexivity|rewrite zlen_cons in *; pose proof (zlen_nonneg body); lia]). reflexivity.
    - unfold rmap, bind. rewrite read_raw_app. reflexivity.
  Qed.

  Lemma discard_body_app h body rest :
    h_BodyLength h = zlen body -> discard_body h (body ++ rest) = DOk tt rest /\ discard_body_seek h (body ++ rest) = DOk tt rest.
  Proof.
    intro Hl. unfold discard_body, discard_body_seek. rewrite Hl. pose proof (zlen_nonneg body).
    destruct (Z.ltb_spec (zlen body) 0); [lia|]. destruct (Z.eqb_spec (zlen body) 0) as [E|E].
    - assert (body = []) as -> by (destruct body; [reflexivity|rewrite zlen_cons in *; pose proof (zlen_nonneg body); lia]). split; reflexivity.
    - split.
      + unfold rmap, bind. rewrite read_raw_app. reflexivity.
      + rewrite zlen_app. pose proof (zlen_nonneg rest). rewrite Z.min_l by lia. unfold zlen. rewrite Nat2Z.id, skipn_app_exact. reflexivity.
  Qed.

  (* DecodeRawFrame on the bytes of a frame: header with the declared length, body bytes untouched, rest untouched *)
  Theorem raw_frame_of_bytes h body rest :
    header_ok h -> h_BodyLength h = zlen body ->
    decode_raw_frame ((hdr_bytes h ++ body) ++ rest) = DOk {| rf_Header := h; rf_Body := Some body |} rest.
  Proof.
    intros Hh Hl. unfold decode_raw_frame. rewrite <- app_assoc. unfold bind at 1. rewrite (decode_header_app _ _ Hh).
    unfold bind at 1. rewrite (decode_raw_body_app h body rest Hl). reflexivity.
  Qed.

  (* ... and DecodeHeader + DecodeBody is DecodeFrame by definition; DecodeRawFrame + ConvertFromRawFrame agrees with it *)
  Theorem convert_from_raw_agrees comp h body nb :
    (forall rest, decode_body mc comp h (body ++ rest) = DOk nb rest) ->
    convert_from_raw mc comp {| rf_Header := h; rf_Body := Some body |} = Ok {| f_Header := h; f_Body := nb |}.
  Proof. intro H. unfold convert_from_raw. cbn [rf_Header rf_Body olist]. specialize (H []). rewrite app_nil_r in H. rewrite H. reflexivity. Qed.

  (* ConvertToRawFrame + EncodeRawFrame emits the same bytes as EncodeFrame (uncompressed and compressed) *)
  Theorem convert_to_raw_plain comp f mb :
    frame_ok f -> has (h_Flags (f_Header f)) HeaderFlagCompressed = false ->
    mc_encode mc (h_Version (f_Header f)) (bd_Message (f_Body f)) = Ok mb ->
    zlen (body_bytes (f_Header f) (f_Body f) mb) < 2147483648 ->
    exists rf, convert_to_raw mc comp f = Ok rf /\ encode_raw_frame rf = Ok (encoded_plain f mb) /\
               rf_Body rf = Some (body_bytes (f_Header f) (f_Body f) mb).
  Proof.
    intros Hok Hnc Hmb Hsmall. pose proof Hok as (Hv & Hf & Hs & Hr & Hop & Hdse & Hb).
    set (h := f_Header f) in *. set (b := f_Body f) in *. set (n := zlen (body_bytes h b mb)) in *.
    assert (Hn : in_i32 n) by (unfold in_i32, n; pose proof (zlen_nonneg (body_bytes h b mb)); lia).
    pose proof (frame_header_ok f n Hok Hn) as Hh. fold h in Hh.
    assert (Hbody : encode_body mc comp h b = Ok (body_bytes h b mb)).
    { unfold encode_body. rewrite Hop, Z.eqb_refl. cbn [negb]. rewrite Hnc. apply encode_body_uncompressed_ok; assumption. }
    eexists. unfold convert_to_raw. fold h b. rewrite Hbody. split; [reflexivity|]. split; [|reflexivity].
    unfold encode_raw_frame. cbn [rf_Header rf_Body olist with_body_length h_Version].
    rewrite (supported_check _ Hv). cbn [wguard]. rewrite wapp_nil_l. fold n.
    rewrite wrap_i32_small by (unfold in_i32 in Hn; lia).
    change (encode_header {| h_IsResponse := h_IsResponse h; h_Version := h_Version h; h_Flags := h_Flags h; h_StreamId := h_StreamId h;
                             h_OpCode := h_OpCode h; h_BodyLength := n |}) with (encode_header (with_body_length (with_body_length h n) n)).
    assert (Hw : with_body_length (with_body_length h n) n = with_body_length h n) by reflexivity. rewrite Hw.
    rewrite (encode_header_ok _ Hh). reflexivity.
  Qed.
End WithCodec.
