(* C16 (logic part) - connections terminate cleanly: no channel is closed twice, Close completes every pending
   request with an error, later operations are refused, timeouts fire after `timeout` of silence and not earlier
   while pages keep arriving.  Goroutine / socket facts are exercised by the harness, not proved. *)
From Coq Require Import ZArith List Bool Lia Permutation.
From Coq Require Import ZifyBool ZifyNat.
From GCNP Require Import model.Inflight proofs.Inflight proofs.InflightInv proofs.InflightC09 proofs.InflightC10.
Import ListNotations.
Open Scope Z_scope.

(* ------------------------------------------------------------------ no double close *)
Theorem channel_closed_once n p t s :
  1 <= n -> Reachable n p t s ->
  (forall r, In r (all_reqs s) -> chan_closed r = (if done r then 1 else 0)%nat) /\ panicked s = false.
Proof.
  intros Hn HR. pose proof (reachable_inv n p t s Hn HR) as HI.
  assert (H : forall r, In r (all_reqs s) -> chan_closed r = (if done r then 1 else 0)%nat).
  { intros r Hin. now destruct (inv_wf s HI r Hin). }
  split; [assumption|]. unfold panicked. apply not_true_is_false. intros Hp.
  apply existsb_exists in Hp. destruct Hp as (r & Hin & Hlt). rewrite (H r Hin) in Hlt. destruct (done r); discriminate.
Qed.

(* a closed channel means done, and an error is only ever set on a done request *)
Theorem done_iff_channel_closed n p t s r :
  1 <= n -> Reachable n p t s -> In r (all_reqs s) ->
  (done r = true <-> chan_closed r = 1%nat) /\ (err r <> None -> done r = true).
Proof.
  intros Hn HR Hin. pose proof (reachable_inv n p t s Hn HR) as HI.
  destruct (inv_wf s HI r Hin) as (H1 & H2 & _). rewrite H1. split.
  - destruct (done r); split; auto; discriminate.
  - intros He. destruct (done r) eqn:E; [reflexivity|]. destruct (H2 eq_refl). contradiction.
Qed.

(* ------------------------------------------------------------------ Close *)
Theorem close_completes_pending s :
  Inv s -> closed s = false ->
  let s' := fst (step s Close) in
  closed s' = true /\ inflight s' = [] /\ pool s' = pool s /\
  (forall r, In r (all_reqs s') -> done r = true) /\
  (forall k r, In (k, r) (inflight s) ->
     exists r', In r' (finished s') /\ same_id r r' /\ queue r' = queue r /\ done r' = true /\ chan_closed r' = 1%nat /\
                err r' <> None /\ (done r = false -> err r' = Some EClosed)).
Proof.
  intros HI Hc. cbn [step]. unfold close_handler. rewrite Hc. cbn [fst closed inflight pool finished].
  split; [reflexivity|]. split; [reflexivity|]. split; [reflexivity|]. split.
  - intros r Hin. unfold all_reqs in Hin. cbn [inflight finished map app] in Hin. apply in_app_iff in Hin.
    destruct Hin as [Hin|Hin]; [now apply (inv_fin s HI)|].
    apply in_map_iff in Hin. destruct Hin as (kr & <- & _). apply req_close_done.
  - intros k r Hin. exists (req_close r (Some EClosed)).
    assert (Hwf : req_wf r). { apply (inv_wf s HI). apply all_reqs_In. left. now exists k. }
    split; [apply in_app_iff; right; apply in_map_iff; now exists (k, r)|].
    split; [apply req_close_same|]. split; [apply req_close_queue|]. split; [apply req_close_done|].
    destruct Hwf as (Hcc & Hlive & _).
    unfold req_close. destruct (done r) eqn:Hd.
    + rewrite Hcc; rewrite ?Hd. repeat split; auto; [|discriminate]. now apply (inv_err s HI k r).
    + cbn. rewrite Hcc; rewrite ?Hd. repeat split; auto. discriminate.
Qed.

Theorem after_close_everything_is_refused s :
  closed s = true ->
  (forall k, step s (Send k) = (s, ORefused EClosed)) /\
  (forall k, step s (CSend k) = (s, ORefused EClosed)) /\
  (forall k last tag, step s (Deliver k last tag) = (s, ODeliverErr EClosed)) /\
  step s Close = (s, OClosed).
Proof.
  intros Hc. cbn [step]. unfold csend, enqueue, deliver, close_handler; rewrite ?check2_eq. rewrite Hc. auto.
Qed.

Lemma step_closed_stays s o : closed s = true -> closed (fst (step s o)) = true.
Proof.
  intros Hc. destruct o; cbn [step].
  - unfold enqueue; rewrite ?check2_eq. now rewrite Hc.
  - unfold csend, enqueue; rewrite ?check2_eq. now rewrite Hc.
  - unfold ctake. destruct (outq s); assumption.
  - unfold deliver. now rewrite Hc.
  - assumption.
  - unfold recv. destruct (lookup _ _); [|assumption]. destruct (nth_error _ _); assumption.
  - assumption.
  - unfold close_handler. now rewrite Hc.
Qed.

Theorem closed_forever s ops : closed s = true -> closed (run s ops) = true.
Proof.
  revert s. induction ops as [|o ops IH]; intros s Hc; [assumption|]. rewrite run_cons. apply IH. now apply step_closed_stays.
Qed.

(* in every reachable closed state nothing is registered and every request ever accepted is completed *)
Theorem closed_state_is_clean n p t s :
  1 <= n -> Reachable n p t s -> closed s = true ->
  inflight s = [] /\ forall r, In r (all_reqs s) -> done r = true /\ chan_closed r = 1%nat.
Proof.
  intros Hn HR Hc. pose proof (reachable_inv n p t s Hn HR) as HI.
  pose proof (inv_closed s HI Hc) as He. split; [assumption|].
  intros r Hin. assert (Hd : done r = true).
  { unfold all_reqs in Hin. rewrite He in Hin. cbn in Hin. now apply (inv_fin s HI). }
  split; [assumption|]. destruct (inv_wf s HI r Hin) as (H1 & _). now rewrite H1, Hd.
Qed.

(* ------------------------------------------------------------------ timers *)
Definition tick_ok (o : op) : Prop := match o with Tick d => 0 <= d | _ => True end.

Record TInv (s : state) : Prop := mkTInv {
  tinv_T : 0 < cfgT s;
  tinv_dl : forall r, In r (all_reqs s) -> done r = false ->
            exists dl, deadline r = Some dl /\ now s < dl <= now s + cfgT s
}.

Lemma now_step s o : now (fst (step s o)) = now s + match o with Tick d => d | _ => 0 end.
Proof.
  destruct o; cbn [step]; try lia.
  - unfold enqueue; rewrite ?check2_eq. destruct (closed s); [cbn; lia|]. destruct (k =? 0).
    + destruct (pool s); [cbn; lia|]. rewrite ?check2_eq; destruct (check _ _); cbn [fst]; [|cbn; lia]. unfold release. destruct (_ <? _); cbn; lia.
    + rewrite ?check2_eq; destruct (check _ _); cbn; lia.
  - unfold csend, enqueue; rewrite ?check2_eq. destruct (closed s); [cbn; lia|]. destruct (k =? 0).
    + destruct (pool s); [cbn; lia|]. rewrite ?check2_eq; destruct (check _ _); cbn [fst].
      * unfold release. destruct (_ <? _); cbn; lia.
      * destruct (_ <? _); cbn; lia.
    + rewrite ?check2_eq; destruct (check _ _); [cbn; lia|]. destruct (_ <? _); cbn; lia.
  - unfold ctake. destruct (outq s); cbn; lia.
  - unfold deliver. destruct (closed s); [cbn; lia|]. destruct (lookup _ _); [|cbn; lia]. destruct last.
    + destruct (managed r).
      * unfold release. cbn [set_inflight pool cfgN]. destruct (_ <? _); destruct (on_frame _ _ _ _ _ _); cbn; lia.
      * destruct (on_frame _ _ _ _ _ _); cbn; lia.
    + destruct (on_frame _ _ _ _ _ _); cbn; lia.
  - cbn. lia.
  - unfold recv. destruct (lookup _ _); [|cbn; lia]. destruct (nth_error _ _); cbn; lia.
  - cbn. lia.
  - unfold close_handler. destruct (closed s); cbn; lia.
Qed.

Definition dl_ok (nowv t : Z) (r : req) : Prop :=
  done r = false -> exists dl, deadline r = Some dl /\ nowv < dl <= nowv + t.

Lemma on_frame_dl p n t r last tag : 0 < t -> dl_ok n t r -> dl_ok n t (fst (on_frame p n t r last tag)).
Proof.
  intros Ht H. unfold on_frame. destruct (done r) eqn:Hd; [exact H|].
  destruct (pending r <? p); cbn [fst]; unfold dl_ok.
  - destruct last.
    + cbn [fst]. intros Hnd. rewrite req_close_done in Hnd. discriminate.
    + cbn [fst]. intros _. exists (n + t). cbn. split; [reflexivity|lia].
  - intros Hnd. rewrite req_close_done in Hnd. discriminate.
Qed.

Lemma fire_dl n d t r : 0 <= d -> dl_ok n t r -> dl_ok (n + d) t (fire (n + d) r).
Proof.
  intros Hd H. unfold fire, dl_ok in *. destruct (deadline r) as [dl|] eqn:Hdl.
  - destruct (done r) eqn:Hdn.
    + rewrite andb_false_r. intros Hc. congruence.
    + rewrite andb_true_r. destruct (Z.leb_spec dl (n + d)).
      * intros Hc. rewrite req_close_done in Hc. discriminate.
      * intros _. destruct (H eq_refl) as (dl' & He & Hr). inversion He; subst. exists dl'. split; [assumption|lia].
  - intros Hdn. destruct (H Hdn) as (dl' & He & _). congruence.
Qed.

Lemma all_reqs_finish_state s k pl r' r0 :
  In r0 (all_reqs (finish_state s k pl r')) -> In r0 (all_reqs s) \/ r0 = r'.
Proof.
  unfold all_reqs, finish_state. cbn [inflight finished]. rewrite app_assoc, !in_app_iff. cbn [In].
  intros [[H|H]|[H|[]]]; auto. left. left. apply in_map_iff in H. destruct H as ([k0 r1] & <- & H).
  apply In_remove_key in H. apply in_map_iff. exists (k0, r1). tauto.
Qed.

Lemma all_reqs_register s id m r :
  ~ In id (keys (inflight s)) -> In r (all_reqs (register s id m)) -> In r (all_reqs s) \/ r = new_req s id m.
Proof.
  intros Hnot. unfold all_reqs, register. cbn [inflight finished]. rewrite (remove_key_notin _ _ Hnot), map_app.
  cbn [map snd]. rewrite <- app_assoc. intros Hin. apply in_app_iff in Hin. destruct Hin as [H|H].
  - left. apply in_app_iff. now left.
  - cbn [app In] in H. destruct H as [<-|H]; [now right|]. left. apply in_app_iff. now right.
Qed.

Lemma new_req_dl_ok s id m : 0 < cfgT s -> dl_ok (now s) (cfgT s) (new_req s id m).
Proof. intros HT _. exists (now s + cfgT s). cbn. split; [reflexivity|lia]. Qed.

Lemma step_tinv s o : Inv s -> TInv s -> tick_ok o -> TInv (fst (step s o)).
Proof.
  intros HI [HT Hdl] Hok.
  assert (Hgen : forall s', cfgT s' = cfgT s -> now s' = now s ->
            (forall r, In r (all_reqs s') -> In r (all_reqs s) \/ dl_ok (now s) (cfgT s) r) -> TInv s').
  { intros s' H1 H2 H3. constructor; [now rewrite H1|]. intros r Hin Hd. rewrite H1, H2.
    destruct (H3 r Hin) as [Hold|Hnew]; [now apply Hdl|now apply Hnew]. }
  destruct o; cbn [step].
  - (* Send *)
    unfold enqueue; rewrite ?check2_eq. destruct (closed s); [now constructor|]. destruct (k =? 0).
    + destruct (pool s) as [|i rest]; [now constructor|]. rewrite ?check2_eq, check_set_pool. destruct (check s i) eqn:Hck; cbn [fst].
      * unfold release. destruct (_ <? _); apply Hgen; auto.
      * apply check_None in Hck. destruct Hck as [_ Hnot]. apply Hgen; try reflexivity.
        intros r Hin. apply (all_reqs_register (set_pool s rest) i true r Hnot) in Hin. destruct Hin as [Hin | ->]; [now left|].
        right. now apply (new_req_dl_ok (set_pool s rest)).
    + destruct (check s k) eqn:Hck; cbn [fst]; [now constructor|].
      apply check_None in Hck. destruct Hck as [_ Hnot]. apply Hgen; try reflexivity.
      intros r Hin. apply (all_reqs_register s k false r Hnot) in Hin. destruct Hin as [Hin | ->]; [now left|].
      right. now apply new_req_dl_ok.
  - (* CSend *)
    unfold csend, enqueue; rewrite ?check2_eq. destruct (closed s); [now constructor|]. destruct (k =? 0).
    + destruct (pool s) as [|i rest]; [now constructor|]. rewrite ?check2_eq, check_set_pool. destruct (check s i) eqn:Hck; cbn [fst].
      * unfold release. destruct (_ <? _); apply Hgen; auto.
      * apply check_None in Hck. destruct Hck as [_ Hnot].
        assert (Hreg : TInv (register (set_pool s rest) i true)).
        { apply Hgen; try reflexivity.
          intros r Hin. apply (all_reqs_register (set_pool s rest) i true r Hnot) in Hin. destruct Hin as [Hin | ->]; [now left|].
          right. now apply (new_req_dl_ok (set_pool s rest)). }
        destruct (_ <? _); cbn [fst]; [|exact Hreg]. destruct Hreg as [H1 H2]. constructor; [exact H1|exact H2].
    + destruct (check s k) eqn:Hck; cbn [fst]; [now constructor|].
      apply check_None in Hck. destruct Hck as [_ Hnot].
      assert (Hreg : TInv (register s k false)).
      { apply Hgen; try reflexivity.
        intros r Hin. apply (all_reqs_register s k false r Hnot) in Hin. destruct Hin as [Hin | ->]; [now left|].
        right. now apply new_req_dl_ok. }
      destruct (_ <? _); cbn [fst]; [|exact Hreg]. destruct Hreg as [H1 H2]. constructor; [exact H1|exact H2].
  - (* CTake *) unfold ctake. destruct (outq s); [now constructor|]. apply Hgen; auto.
  - (* Deliver *)
    unfold deliver. destruct (closed s); [now constructor|].
    destruct (lookup k (inflight s)) as [r|] eqn:Hl; [|now constructor].
    assert (Hr : dl_ok (now s) (cfgT s) r).
    { intros Hd. apply Hdl; [|assumption]. apply all_reqs_In. left. exists k. now apply lookup_Some_In. }
    pose proof (on_frame_dl (cfgP s) (now s) (cfgT s) r last tag HT Hr) as Hr'.
    destruct last.
    + assert (Hfin : forall pl r', dl_ok (now s) (cfgT s) r' -> TInv (finish_state s k pl r')).
      { intros pl r' H. apply Hgen; try reflexivity. intros r0 Hin. apply all_reqs_finish_state in Hin. destruct Hin as [? | ->]; auto. }
      destruct (managed r).
      * unfold release. cbn [set_inflight pool cfgN]. destruct (_ <? _).
        -- destruct (on_frame _ _ _ _ _ _) as [r' o]. cbn [fst] in *. now apply (Hfin (pool s ++ [k]) r').
        -- destruct (on_frame _ _ _ _ _ _) as [r' o]. cbn [fst] in *. now apply (Hfin (pool s) r').
      * destruct (on_frame _ _ _ _ _ _) as [r' o]. cbn [fst] in *. now apply (Hfin (pool s) r').
    + destruct (on_frame _ _ _ _ _ _) as [r' o]. cbn [fst] in *. apply Hgen; try reflexivity.
      intros r0 Hin. unfold all_reqs in *. cbn [set_inflight inflight finished] in Hin. apply in_app_iff in Hin.
      destruct Hin as [Hin|Hin]; [|left; apply in_app_iff; now right].
      apply in_map_iff in Hin. destruct Hin as ([k0 r1] & <- & Hin). cbn [snd].
      apply In_update_key in Hin; [|apply (inv_nodup s HI)]. destruct Hin as [[-> ->]|[_ Hin]]; [now right|].
      left. apply in_app_iff. left. apply in_map_iff. now exists (k0, r1).
  - (* Event *) apply Hgen; auto.
  - (* Recv *)
    unfold recv. destruct (lookup k (inflight s)) as [r|] eqn:Hl; [|now constructor].
    destruct (nth_error _ _); [|now constructor]. cbn [fst]. apply Hgen; try reflexivity.
    intros r0 Hin. unfold all_reqs in *. cbn [set_inflight inflight finished] in Hin. apply in_app_iff in Hin.
    destruct Hin as [Hin|Hin]; [|left; apply in_app_iff; now right].
    apply in_map_iff in Hin. destruct Hin as ([k0 r1] & <- & Hin). cbn [snd].
    apply In_update_key in Hin; [|apply (inv_nodup s HI)]. destruct Hin as [[-> ->]|[_ Hin]].
    + right. unfold dl_ok, req_take. cbn. intros Hd. apply Hdl; [|assumption]. apply all_reqs_In. left. exists k. now apply lookup_Some_In.
    + left. apply in_app_iff. left. apply in_map_iff. now exists (k0, r1).
  - (* Tick *)
    cbn in Hok. unfold tick. cbn [fst]. constructor; cbn [cfgT now]; [assumption|].
    intros r Hin. unfold all_reqs in Hin. cbn [inflight finished] in Hin. apply in_app_iff in Hin.
    assert (Hsrc : exists r0, In r0 (all_reqs s) /\ r = fire (now s + d) r0).
    { destruct Hin as [Hin|Hin].
      - apply in_map_iff in Hin. destruct Hin as ([k0 r1] & <- & Hin). apply in_map_iff in Hin. destruct Hin as ([k1 r2] & Heq & Hin).
        cbn [fst snd] in Heq. inversion Heq; subst. exists r2. split; [|reflexivity]. apply all_reqs_In. left. now exists k0.
      - apply in_map_iff in Hin. destruct Hin as (r0 & <- & Hin). exists r0. split; [|reflexivity]. apply all_reqs_In. now right. }
    destruct Hsrc as (r0 & Hin0 & ->). apply fire_dl; [assumption|]. intros Hd. now apply Hdl.
  - (* Close *)
    unfold close_handler. destruct (closed s); [now constructor|]. cbn [fst]. apply Hgen; try reflexivity.
    intros r Hin. unfold all_reqs in *. cbn [inflight finished map app] in Hin. apply in_app_iff in Hin.
    destruct Hin as [Hin|Hin]; [left; apply in_app_iff; now right|].
    apply in_map_iff in Hin. destruct Hin as (kr & <- & _). right. intros Hd. rewrite req_close_done in Hd. discriminate.
Qed.

Lemma init_tinv n p t : 0 < t -> TInv (init n p t).
Proof. intros Ht. constructor; [exact Ht|]. intros r []. Qed.

Definition TReachable (n p t : Z) (s : state) : Prop := exists ops, Forall tick_ok ops /\ s = run (init n p t) ops.

Lemma run_tinv s ops : Inv s -> TInv s -> Forall tick_ok ops -> TInv (run s ops) /\ Inv (run s ops).
Proof.
  revert s. induction ops as [|o ops IH]; intros s HI HT Hok; [auto|].
  inversion Hok; subst. rewrite run_cons. apply IH; auto using step_inv, step_tinv.
Qed.

Lemma treachable_inv n p t s : 1 <= n -> 0 < t -> TReachable n p t s -> Inv s /\ TInv s /\ Reachable n p t s.
Proof.
  intros Hn Ht (ops & Hok & ->). destruct (run_tinv (init n p t) ops (init_inv n p t Hn) (init_tinv n p t Ht) Hok).
  split; [assumption|]. split; [assumption|]. now exists ops.
Qed.

(* every live request has an armed timer that lies in the future, at most `timeout` away *)
Theorem live_request_has_timer n p t s k r :
  1 <= n -> 0 < t -> TReachable n p t s -> In (k, r) (inflight s) -> done r = false ->
  exists dl, deadline r = Some dl /\ now s < dl <= now s + t.
Proof.
  intros Hn Ht HR Hin Hd. destruct (treachable_inv n p t s Hn Ht HR) as (HI & [_ Hdl] & HR').
  destruct (reachable_cfg n p t s HR') as (_ & _ & <-). apply Hdl; [|assumption]. apply all_reqs_In. left. now exists k.
Qed.

(* not earlier: as long as the deadline has not been reached a tick changes nothing on the request;
   the deadline itself is (time of acceptance or of the last accepted page) + timeout, see
   deliver_to_live_request / accepted_request_is_armed *)
Theorem no_timeout_before_deadline s k r dl d :
  NoDup (keys (inflight s)) -> In (k, r) (inflight s) -> deadline r = Some dl -> now s + d < dl ->
  lookup k (inflight (fst (step s (Tick d)))) = Some r.
Proof.
  intros Hnd Hin Hdl Hlt. cbn [step]. unfold tick. cbn [fst inflight].
  change (map (fun kr : Z * req => (fst kr, fire (now s + d) (snd kr))) (inflight s)) with (map_vals (fire (now s + d)) (inflight s)).
  rewrite lookup_map_vals, (In_lookup _ _ _ Hnd Hin). cbn [option_map]. f_equal.
  unfold fire. rewrite Hdl. assert (H : dl <=? now s + d = false) by lia. now rewrite H.
Qed.

Theorem accepted_request_is_armed s k s' id :
  step s (Send k) = (s', OAccepted id) ->
  exists r, lookup id (inflight s') = Some r /\ done r = false /\ deadline r = Some (now s + cfgT s) /\ queue r = [] /\ err r = None.
Proof.
  intros H. cbn [step] in H. pose proof H as H0. apply enqueue_accepted in H. destruct H as (_ & Hnot & _ & H).
  assert (Hreg : forall s0 m, ~ In id (keys (inflight s0)) -> now s0 = now s -> cfgT s0 = cfgT s ->
            exists r, lookup id (inflight (register s0 id m)) = Some r /\ done r = false /\ deadline r = Some (now s + cfgT s) /\ queue r = [] /\ err r = None).
  { intros s0 m Hn H1 H2. unfold register. cbn [inflight]. rewrite (remove_key_notin _ _ Hn).
    exists (new_req s0 id m). split; [|unfold new_req; cbn; rewrite H1, H2; auto].
    clear -Hn. induction (inflight s0) as [|[k' r'] l IH]; cbn [app lookup keys map fst In] in *.
    - now rewrite Z.eqb_refl.
    - destruct (Z.eqb_spec k' id); [tauto|]. apply IH. tauto. }
  destruct (k =? 0).
  - destruct H as (rest & _ & ->). apply Hreg; auto.
  - destruct H as (-> & ->). apply Hreg; auto.
Qed.

(* fires: after `timeout` of silence the request is failed with the timeout error *)
Definition quiet (k : Z) (o : op) : Prop :=
  match o with Deliver k' _ _ => k' <> k | Close => False | _ => True end.

Definition timing_out (dl k : Z) (s : state) : Prop :=
  exists r, lookup k (inflight s) = Some r /\
            ((done r = false /\ deadline r = Some dl) \/ (done r = true /\ err r = Some ETimeout)).

Lemma lookup_app_notin k (m : list (Z * req)) x : lookup k m <> None -> lookup k (m ++ x) = lookup k m.
Proof.
  induction m as [|[k' r] m IH]; cbn [app lookup]; [congruence|]. destruct (k' =? k); [reflexivity|exact IH].
Qed.

Lemma enqueue_lookup s k0 k r : lookup k (inflight s) = Some r -> lookup k (inflight (fst (enqueue s k0))) = Some r.
Proof.
  intros Hl. unfold enqueue; rewrite ?check2_eq. destruct (closed s); [assumption|]. destruct (k0 =? 0).
  - destruct (pool s) as [|i rest]; [assumption|]. rewrite ?check2_eq, check_set_pool. destruct (check s i) eqn:Hck; cbn [fst].
    + unfold release. destruct (_ <? _); assumption.
    + apply check_None in Hck. destruct Hck as [_ Hnot]. unfold register. cbn [inflight set_pool].
      rewrite (remove_key_notin _ _ Hnot), lookup_app_notin; [assumption|congruence].
  - destruct (check s k0) eqn:Hck; cbn [fst]; [assumption|].
    apply check_None in Hck. destruct Hck as [_ Hnot]. unfold register. cbn [inflight].
    rewrite (remove_key_notin _ _ Hnot), lookup_app_notin; [assumption|congruence].
Qed.

Lemma quiet_step_timing_out dl k s o :
  timing_out dl k s -> quiet k o -> timing_out dl k (fst (step s o)).
Proof.
  intros (r & Hl & Hst) Hq. unfold timing_out. destruct o; cbn [step]; cbn [quiet] in Hq.
  - exists r. split; [now apply enqueue_lookup|assumption].
  - exists r. split; [|assumption]. unfold csend. pose proof (enqueue_lookup s k0 k r Hl) as H.
    destruct (enqueue s k0) as [s1 o]. cbn [fst] in H. destruct o; try exact H. destruct (_ <? _); exact H.
  - exists r. split; [|assumption]. unfold ctake. destruct (outq s); exact Hl.
  - exists r. split; [|assumption]. unfold deliver. destruct (closed s); [assumption|].
    destruct (lookup k0 (inflight s)) as [r0|] eqn:Hl0; [|assumption]. destruct last.
    + assert (Hl' : lookup k (remove_key k0 (inflight s)) = Some r) by (rewrite lookup_remove_key_other; auto).
      destruct (managed r0).
      * unfold release. cbn [set_inflight pool cfgN]. destruct (_ <? _); destruct (on_frame _ _ _ _ _ _); exact Hl'.
      * destruct (on_frame _ _ _ _ _ _). exact Hl'.
    + destruct (on_frame _ _ _ _ _ _). cbn [fst set_inflight inflight]. rewrite lookup_update_key_other; auto.
  - exists r. split; assumption.
  - unfold recv. destruct (lookup k0 (inflight s)) as [r0|] eqn:Hl0; [|exists r; split; assumption].
    destruct (nth_error _ _); [|exists r; split; assumption]. cbn [fst set_inflight inflight].
    destruct (Z.eq_dec k0 k) as [-> | Hne].
    + rewrite Hl in Hl0. inversion Hl0; subst r0. exists (req_take r). split; [|exact Hst].
      apply lookup_update_key_same. eapply lookup_In_keys; eauto.
    + exists r. split; [|assumption]. rewrite lookup_update_key_other; auto.
  - unfold tick. cbn [fst inflight].
    change (map (fun kr : Z * req => (fst kr, fire (now s + d) (snd kr))) (inflight s)) with (map_vals (fire (now s + d)) (inflight s)).
    exists (fire (now s + d) r). rewrite lookup_map_vals, Hl. split; [reflexivity|].
    destruct Hst as [[Hd Hdl]|[Hd He]].
    + unfold fire. rewrite Hdl, Hd, andb_true_r. destruct (dl <=? now s + d); [|auto].
      right. unfold req_close. rewrite Hd. cbn. auto.
    + right. rewrite fire_done; auto.
  - contradiction.
Qed.

Fixpoint elapsed (ops : list op) : Z :=
  match ops with [] => 0 | Tick d :: t => d + elapsed t | _ :: t => elapsed t end.

Lemma now_run s ops : now (run s ops) = now s + elapsed ops.
Proof.
  revert s. induction ops as [|o ops IH]; intros s; [cbn; lia|]. rewrite run_cons, IH, now_step.
  destruct o; cbn [elapsed]; lia.
Qed.

Theorem timeout_fires_after_silence n p t s k r ops :
  1 <= n -> 0 < t -> TReachable n p t s -> In (k, r) (inflight s) -> done r = false ->
  Forall tick_ok ops -> Forall (quiet k) ops -> t <= elapsed ops ->
  exists r', lookup k (inflight (run s ops)) = Some r' /\ done r' = true /\ err r' = Some ETimeout.
Proof.
  intros Hn Ht HR Hin Hd Hok Hq Hel.
  destruct (treachable_inv n p t s Hn Ht HR) as (HI & HT & HR').
  destruct (reachable_cfg n p t s HR') as (_ & _ & HcT).
  destruct (tinv_dl s HT r) as (dl & Hdl & Hrange); [apply all_reqs_In; left; now exists k|assumption|].
  assert (Hto : timing_out dl k (run s ops)).
  { assert (H0 : timing_out dl k s). { exists r. split; [apply In_lookup; [apply (inv_nodup s HI)|assumption]|auto]. }
    clear -H0 Hq. revert s H0. induction ops as [|o ops IH]; intros s H0; [assumption|].
    inversion Hq; subst. rewrite run_cons. apply IH; [assumption|]. now apply quiet_step_timing_out. }
  destruct (run_tinv s ops HI HT Hok) as (HT' & HI').
  destruct Hto as (r' & Hl' & [[Hd' Hdl']|[Hd' He']]).
  - exfalso. destruct (tinv_dl _ HT' r') as (dl' & Hdl'' & Hr'); [apply all_reqs_In; left; exists k; now apply lookup_Some_In|assumption|].
    rewrite Hdl' in Hdl''. inversion Hdl''; subst dl'. rewrite now_run in Hr'. rewrite HcT in Hrange. lia.
  - exists r'. auto.
Qed.

(* not earlier while pages keep arriving: pages separated by less than `timeout` (each read by the caller) never time
   the request out, however long the whole response takes *)
Fixpoint paged (k : Z) (l : list (Z * Z)) : list op :=
  match l with [] => [] | (d, tag) :: t => Tick d :: Deliver k false tag :: Recv k :: paged k t end.

Theorem no_timeout_while_pages_arrive s k r l :
  Inv s -> closed s = false -> 0 < cfgP s -> lookup k (inflight s) = Some r -> done r = false -> pending r = 0 ->
  deadline r = Some (now s + cfgT s) -> Forall (fun dt => 0 <= fst dt < cfgT s) l ->
  exists r', lookup k (inflight (run s (paged k l))) = Some r' /\ done r' = false /\ err r' = err r /\
             queue r' = queue r ++ map snd l /\ pending r' = 0.
Proof.
  revert s r. induction l as [|[d tag] l IH]; intros s r HI Hc HP Hl Hd Hpend Hdl Hl0.
  - exists r. cbn [paged map]. unfold run. cbn [fold_left]. rewrite app_nil_r. auto.
  - inversion Hl0 as [|? ? Hd0 Hl1]; subst. cbn [fst] in Hd0. cbn [paged map snd]. rewrite !run_cons.
    (* tick *)
    pose proof (lookup_Some_In _ _ _ Hl) as Hin.
    assert (H1 : lookup k (inflight (fst (step s (Tick d)))) = Some r).
    { eapply no_timeout_before_deadline; eauto; [apply (inv_nodup s HI)|lia]. }
    pose proof (step_inv s (Tick d) HI) as HI1. pose proof (step_cfg s (Tick d)) as (_ & HP1 & HT1).
    pose proof (now_step s (Tick d)) as Hn1.
    assert (Hc1 : closed (fst (step s (Tick d))) = false) by exact Hc.
    set (s1 := fst (step s (Tick d))) in *.
    (* page *)
    assert (Hlive : live (cfgP s1) r) by (split; [assumption|rewrite HP1; lia]).
    destruct (deliver_to_live_request s1 k false tag r HI1 Hc1 H1 Hlive) as (_ & r2 & Hl2 & Hsame2 & Hq2 & Hcns2 & Hd2 & Hdl2).
    destruct (deliver_frame_condition s1 k false tag r HI1 Hc1 H1) as (_ & _ & _ & _ & _ & _ & _ & Hc2).
    pose proof (on_frame_live (cfgP s1) (now s1) (cfgT s1) r false tag Hlive) as Hof.
    assert (He2 : err r2 = err r).
    { destruct (deliver_frame_condition s1 k false tag r HI1 Hc1 H1) as (_ & _ & (Hlk & _) & _).
      destruct (on_frame _ _ _ _ _ _) as [rx ox]. cbn [fst] in Hlk. rewrite Hlk in Hl2. inversion Hl2; subst rx. tauto. }
    pose proof (step_inv s1 (Deliver k false tag) HI1) as HI2. pose proof (step_cfg s1 (Deliver k false tag)) as (_ & HP2 & HT2).
    pose proof (now_step s1 (Deliver k false tag)) as Hn2.
    set (s2 := fst (step s1 (Deliver k false tag))) in *.
    (* the caller reads it *)
    assert (Hnth : nth_error (queue r2) (consumed r2) = Some tag).
    { rewrite Hq2, Hcns2. unfold pending, zlen in Hpend. rewrite nth_error_app2 by lia.
      replace (consumed r - length (queue r))%nat with 0%nat by lia. reflexivity. }
    assert (H3 : lookup k (inflight (fst (step s2 (Recv k)))) = Some (req_take r2)).
    { cbn [step]. unfold recv. rewrite Hl2, Hnth. cbn [fst set_inflight inflight]. apply lookup_update_key_same. eapply lookup_In_keys; eauto. }
    assert (Hc3 : closed (fst (step s2 (Recv k))) = false).
    { cbn [step]. unfold recv. rewrite Hl2, Hnth. exact Hc2. }
    pose proof (step_inv s2 (Recv k) HI2) as HI3. pose proof (step_cfg s2 (Recv k)) as (_ & HP3 & HT3).
    pose proof (now_step s2 (Recv k)) as Hn3.
    set (s3 := fst (step s2 (Recv k))) in *.
    destruct (IH s3 (req_take r2)) as (r' & Hl' & Hd' & He' & Hq' & Hp'); auto.
    + rewrite HP3, HP2, HP1. assumption.
    + unfold pending, req_take in *. cbn. rewrite Hq2, Hcns2, zlen_app, zlen_cons, zlen_nil. lia.
    + unfold req_take. cbn. rewrite Hdl2, Hn3, Hn2, HT3, HT2. f_equal. lia.
    + rewrite HT3, HT2, HT1. assumption.
    + exists r'. repeat split; auto.
      * rewrite He'. unfold req_take. cbn. assumption.
      * rewrite Hq'. unfold req_take. cbn. rewrite Hq2, <- app_assoc. reflexivity.
Qed.
