(* C07: assembly of the checksum facts against decode_segment.  Header errors are rejected before any field is
   trusted; payload errors are rejected before decompression (the result is Err whatever the decompressor would do). *)
From Coq Require Import ZArith NArith List Bool Lia.
From Coq Require Import ZifyBool ZifyN ZifyNat.
From GCNP Require Import base.GoInt base.Bytes gen.Crc_gen model.Crc model.Segment
  proofs.Crc24Proofs proofs.Crc24Distance proofs.Crc24Enum proofs.Crc32Proofs proofs.Crc32Detect proofs.SegmentProofs.
Import ListNotations.
Open Scope Z_scope.

(* flipping bits of the little-endian bytes of a word = xor on the word *)
Lemma xor_bytes_put_le n : forall a b, xor_bytes (put_le n a) (put_le n b) = put_le n (N.lxor a b).
Proof.
  induction n as [|k IH]; intros a b; cbn [put_le xor_bytes]; [reflexivity|].
  rewrite IH, N.shiftr_lxor. f_equal. unfold xor_byte. rewrite !N2Z.id, <- land_lxor_distr. reflexivity.
Qed.

Lemma xor_bytes_app : forall a b c d, length a = length b -> xor_bytes (a ++ c) (b ++ d) = xor_bytes a b ++ xor_bytes c d.
Proof.
  induction a as [|x a IH]; intros [|y b] c d H; try discriminate; cbn [app xor_bytes]; [reflexivity|].
  rewrite IH; [reflexivity|]. cbn [length] in H. lia.
Qed.

(* the encoded header with the error (ed on the header word, ec on the checksum field) xor-ed onto its bytes *)
Lemma corrupted_header_bytes hd hlen ed ec :
  xor_bytes (write_header hd hlen) (put_le hlen ed ++ put_le crc24_len ec) =
  put_le hlen (N.lxor hd ed) ++ put_le crc24_len (N.lxor (checksum_koopman hd hlen) ec).
Proof. unfold write_header. rewrite xor_bytes_app by (rewrite !put_le_length; reflexivity). rewrite !xor_bytes_put_le. reflexivity. Qed.

Lemma hlen_of_cases c : hlen_of c = 3%nat \/ hlen_of c = 5%nat.
Proof. destruct c; [right|left]; reflexivity. Qed.

(* ---------------------------------------------------------------- header + CRC-24: 1..7 flipped bits *)
Theorem corrupted_header_rejected c hd ed ec tail :
  (hd < 2 ^ (8 * N.of_nat (hlen_of c)))%N -> (ed < 2 ^ (8 * N.of_nat (hlen_of c)))%N -> (ec < 2 ^ 24)%N ->
  (1 <= popcount ed + popcount ec <= 7)%nat ->
  decode_segment c (xor_bytes (write_header hd (hlen_of c)) (put_le (hlen_of c) ed ++ put_le crc24_len ec) ++ tail) = Err.
Proof.
  intros Hhd Hed Hec Hw. rewrite corrupted_header_bytes.
  unfold decode_segment, decode_segment_header. fold (hlen_of c). rewrite <- app_assoc.
  rewrite read_le_put_le by (apply lxor_lt; assumption).
  rewrite read_le_put_le by (rewrite crc24_len_eq; apply lxor_lt; [apply checksum_koopman_lt | exact Hec]).
  assert (Hne : checksum_koopman (N.lxor hd ed) (hlen_of c) <> N.lxor (checksum_koopman hd (hlen_of c)) ec).
  { destruct (hlen_of_cases c) as [E|E]; rewrite E in *.
    - apply header24_corruption_detected; assumption.
    - apply header40_corruption_detected; assumption. }
  apply N.eqb_neq in Hne. rewrite Hne. reflexivity.
Qed.

(* ---------------------------------------------------------------- payload + CRC-32 *)
Definition payload_len (c : option compressor) (h : header) : Z :=
  if match c with None => true | Some _ => compressed_len h =? 0 end then uncompressed_len h else compressed_len h.

(* any error on payload || checksum that the LFSR does not absorb is rejected - before decompression *)
Theorem corrupted_payload_rejected c hd enc e ec rest :
  (hd < 2 ^ (8 * N.of_nat (hlen_of c)))%N -> bytes_ok enc -> bytes_ok e -> length e = length enc -> (ec < 2 ^ 32)%N ->
  payload_len c (header_of_data (is_some c) hd (checksum_koopman hd (hlen_of c))) = Z.of_nat (length enc) ->
  crc32_run 0 (error_bits e ec) <> 0%N ->
  decode_segment c (write_header hd (hlen_of c) ++ xor_bytes enc e ++ write_crc32 (N.lxor (checksum_ieee enc) ec) ++ rest) = Err.
Proof.
  intros Hhd Henc He Hl Hec Hlen Hrun.
  unfold decode_segment. rewrite decode_written_header by exact Hhd.
  unfold decode_segment_payload. unfold payload_len in Hlen. rewrite Hlen, Nat2Z.id.
  rewrite <- (xor_bytes_length enc e) by lia. rewrite split_at_app.
  unfold write_crc32. rewrite read_le_put_le by (rewrite crc32_len_eq; apply lxor_lt; [apply checksum_ieee_lt; exact Henc | exact Hec]).
  assert (Hne : checksum_ieee (xor_bytes enc e) <> N.lxor (checksum_ieee enc) ec).
  { intro H. apply Hrun. apply (crc32_accepts_iff enc e ec Hl Henc He Hec). exact H. }
  apply N.eqb_neq in Hne. rewrite Hne. reflexivity.
Qed.

Theorem burst_rejected c hd enc e ec rest a B z :
  (hd < 2 ^ (8 * N.of_nat (hlen_of c)))%N -> bytes_ok enc -> bytes_ok e -> length e = length enc -> (ec < 2 ^ 32)%N ->
  payload_len c (header_of_data (is_some c) hd (checksum_koopman hd (hlen_of c))) = Z.of_nat (length enc) ->
  error_bits e ec = zeros a ++ true :: B ++ zeros z -> (length B <= 31)%nat ->
  decode_segment c (write_header hd (hlen_of c) ++ xor_bytes enc e ++ write_crc32 (N.lxor (checksum_ieee enc) ec) ++ rest) = Err.
Proof.
  intros Hhd Henc He Hl Hec Hlen Hshape HB. apply corrupted_payload_rejected; try assumption.
  rewrite Hshape. apply burst_detected. exact HB.
Qed.

Theorem single_flip_rejected c hd enc e ec rest a z :
  (hd < 2 ^ (8 * N.of_nat (hlen_of c)))%N -> bytes_ok enc -> bytes_ok e -> length e = length enc -> (ec < 2 ^ 32)%N ->
  payload_len c (header_of_data (is_some c) hd (checksum_koopman hd (hlen_of c))) = Z.of_nat (length enc) ->
  error_bits e ec = zeros a ++ true :: zeros z ->
  decode_segment c (write_header hd (hlen_of c) ++ xor_bytes enc e ++ write_crc32 (N.lxor (checksum_ieee enc) ec) ++ rest) = Err.
Proof.
  intros Hhd Henc He Hl Hec Hlen Hshape. apply (burst_rejected c hd enc e ec rest a [] z); try assumption. cbn. lia.
Qed.

Lemma zeros_length n : length (zeros n) = n.
Proof. apply repeat_length. Qed.

Theorem double_flip_rejected c hd enc e ec rest a m z :
  (hd < 2 ^ (8 * N.of_nat (hlen_of c)))%N -> bytes_ok enc -> bytes_ok e -> length e = length enc -> (ec < 2 ^ 32)%N ->
  payload_len c (header_of_data (is_some c) hd (checksum_koopman hd (hlen_of c))) = Z.of_nat (length enc) ->
  error_bits e ec = zeros a ++ true :: zeros m ++ true :: zeros z ->
  decode_segment c (write_header hd (hlen_of c) ++ xor_bytes enc e ++ write_crc32 (N.lxor (checksum_ieee enc) ec) ++ rest) = Err.
Proof.
  intros Hhd Henc He Hl Hec Hlen Hshape.
  assert (Hmax : Z.of_nat (length enc) <= 131071).
  { rewrite <- Hlen. unfold payload_len.
    pose proof (header_of_data_lengths (is_some c) hd (checksum_koopman hd (hlen_of c))) as [H1 H2].
    destruct (match c with None => true | Some _ => _ end); lia. }
  apply corrupted_payload_rejected; try assumption.
  rewrite Hshape. apply double_bit_detected.
  assert (HL : length (error_bits e ec) = (8 * length enc + 32)%nat).
  { unfold error_bits. rewrite app_length, bits_of_bytes_length, Crc32Detect.bits_lsb_length. lia. }
  rewrite Hshape in HL. rewrite app_length in HL. cbn [length] in HL. rewrite app_length in HL. cbn [length] in HL.
  rewrite !zeros_length in HL. pose proof max_gap_val. lia.
Qed.

(* ---------------------------------------------------------------- the hypotheses are met by every segment the encoder emits
   with the nil compressor (and, by roundtrip_comp's case analysis, with a compressor: the header word is < 2^40 and the
   length field read back is the length of the transmitted bytes) *)
Lemma plain_segment_shape sc (p : list Z) : Z.of_nat (length p) <= 131071 ->
  let hd := header_data_uncompressed sc (Z.of_nat (length p)) in
  (hd < 2 ^ (8 * N.of_nat (hlen_of None)))%N /\
  payload_len None (header_of_data false hd (checksum_koopman hd (hlen_of None))) = Z.of_nat (length p).
Proof.
  intros Hl hd. unfold hd. split.
  - rewrite header_data_uncompressed_arith by lia. change (2 ^ (8 * N.of_nat (hlen_of None)))%N with 16777216%N. destruct sc; cbn [b2n]; lia.
  - rewrite hod_u by lia. reflexivity.
Qed.

(* ... and by every segment emitted with a compressor: [transmitted] is the compressed payload when it is not longer
   than the payload (and the payload is not empty), else the payload itself with the header lengths swapped *)
Lemma compressed_segment_shape (k : compressor) sc (p cp : list Z) :
  Z.of_nat (length p) <= 131071 -> (p <> [] -> cp <> []) ->
  let fits := Z.of_nat (length cp) <=? Z.of_nat (length p) in
  let hd := if fits then header_data_compressed sc (Z.of_nat (length p)) (Z.of_nat (length cp))
            else header_data_compressed sc 0 (Z.of_nat (length p)) in
  let transmitted := if fits then cp else p in
  (hd < 2 ^ (8 * N.of_nat (hlen_of (Some k))))%N /\
  payload_len (Some k) (header_of_data true hd (checksum_koopman hd (hlen_of (Some k)))) = Z.of_nat (length transmitted).
Proof.
  intros Hl Hne fits hd transmitted. unfold hd, transmitted, fits.
  destruct (Z.leb_spec (Z.of_nat (length cp)) (Z.of_nat (length p))) as [Hle|Hgt].
  - split.
    + rewrite header_data_compressed_arith by lia. change (2 ^ (8 * N.of_nat (hlen_of (Some k))))%N with 1099511627776%N. destruct sc; cbn [b2n]; lia.
    + rewrite hod_c by lia. unfold payload_len.
      destruct (Z.eqb_spec (Z.of_nat (length p)) 0) as [E|E].
      * cbn [compressed_len uncompressed_len Z.eqb]. lia.
      * assert (Hcp : cp <> []) by (apply Hne; intro; subst p; apply E; reflexivity).
        assert (Z.of_nat (length cp) <> 0) by (destruct cp; [contradiction | cbn [length]; lia]).
        cbn [compressed_len uncompressed_len]. replace (Z.of_nat (length cp) =? 0) with false by lia. reflexivity.
  - split.
    + rewrite header_data_compressed_arith by lia. change (2 ^ (8 * N.of_nat (hlen_of (Some k))))%N with 1099511627776%N. destruct sc; cbn [b2n]; lia.
    + rewrite hod_c by lia. change (0 =? 0) with true. cbn iota. unfold payload_len. cbn [compressed_len uncompressed_len Z.eqb]. reflexivity.
Qed.
