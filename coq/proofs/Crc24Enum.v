(* The two kernel computations behind C07's header clause (the long one: about half a minute). *)
From Coq Require Import ZArith NArith List Bool.
From GCNP Require Import base.GoInt gen.Crc_gen model.Crc proofs.Crc24Proofs proofs.Crc24Distance.
Open Scope N_scope.

(* all error patterns of weight <= 7 over the 24 header bits (uncompressed format) *)
Lemma enumerated_24 : chk 7 (cols_from 3 0 (nbits 3)) 0 0 = true.
Proof. vm_cast_no_check (eq_refl true). Qed.

(* all error patterns of weight <= 7 over the 40 header bits (compressed format): 23 193 039 patterns *)
Lemma enumerated_40 : chk 7 (cols_from 5 0 (nbits 5)) 0 0 = true.
Proof. vm_cast_no_check (eq_refl true). Qed.

Theorem header24_corruption_detected hd ed ec :
  ed < 2 ^ 24 -> (1 <= popcount ed + popcount ec <= 7)%nat ->
  checksum_koopman (N.lxor hd ed) 3 <> N.lxor (checksum_koopman hd 3) ec.
Proof. apply (header_corruption_detected 3 enumerated_24). Qed.

Theorem header40_corruption_detected hd ed ec :
  ed < 2 ^ 40 -> (1 <= popcount ed + popcount ec <= 7)%nat ->
  checksum_koopman (N.lxor hd ed) 5 <> N.lxor (checksum_koopman hd 5) ec.
Proof. apply (header_corruption_detected 5 enumerated_40). Qed.
