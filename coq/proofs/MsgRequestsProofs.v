(* Group theorems for the requests and simple responses (model/MsgRequests.v), quantified over the group, for the
   frame-level proofs: they use only enc/len/dec_request_group, request_group_okb, norm_request_group and msg_opcode.
   The per-message theorems are in MsgRequestsSimple.v (STARTUP, OPTIONS, READY, AUTHENTICATE, SUPPORTED, AUTH_*,
   PREPARE, REGISTER, REVISE), MsgRequestsQuery.v (QueryOptions, ContinuousPagingOptions, QUERY, EXECUTE) and
   MsgRequestsBatch.v (BATCH). *)
From Coq Require Import ZArith List Bool Lia.
From GCNP Require Import base.GoInt base.Bytes base.Codec base.StrBytes gen.Constants_gen model.Prim model.DataType
  model.MsgTypes model.MsgRequests model.Frame proofs.PrimProofs proofs.PrimTotal proofs.MsgRequestsLib
  proofs.MsgRequestsSimple proofs.MsgRequestsQuery proofs.MsgRequestsBatch.
From Coq Require String.
Import String.StringSyntax.
Import ListNotations.
Open Scope Z_scope.
Local Notation B s := (bytes_of_string s) (only parsing).

(* membership in the group *)
Definition in_request_group (m : Message) : bool :=
  match m with
  | M_Startup _ | M_Options | M_Query _ | M_Prepare _ | M_Execute _ | M_Register _ | M_Batch _ | M_AuthResponse _
  | M_Revise _ | M_Ready | M_Authenticate _ | M_Supported _ | M_AuthChallenge _ | M_AuthSuccess _ => true
  | _ => false
  end.
Definition request_group_opcodes : list Z :=
  [OpCodeStartup; OpCodeOptions; OpCodeQuery; OpCodePrepare; OpCodeExecute; OpCodeRegister; OpCodeBatch; OpCodeAuthResponse;
   OpCodeDseRevise; OpCodeReady; OpCodeAuthenticate; OpCodeSupported; OpCodeAuthChallenge; OpCodeAuthSuccess].

(* the five dispatch functions are defined on exactly the group; the decoder on exactly its opcodes *)
Theorem request_group_domain v m :
  is_some (enc_request_group v m) = in_request_group m /\ is_some (len_request_group v m) = in_request_group m /\
  is_some (request_group_okb v m) = in_request_group m /\ is_some (norm_request_group v m) = in_request_group m /\
  (in_request_group m = true -> is_some (dec_request_group v (msg_opcode m)) = true).
Proof. destruct m; repeat split; try reflexivity; intro; discriminate. Qed.
Theorem request_group_dec_domain v op : is_some (dec_request_group v op) = existsb (Z.eqb op) request_group_opcodes.
Proof.
  unfold dec_request_group, request_group_opcodes. cbn [existsb].
  repeat match goal with |- context [Z.eqb op ?k] => destruct (Z.eqb op k); [reflexivity|] end. reflexivity.
Qed.
(* the normal form stays in the group, with the same opcode *)
Theorem request_group_norm_opcode v m m' : norm_request_group v m = Some m' ->
  msg_opcode m' = msg_opcode m /\ msg_is_response m' = msg_is_response m /\ in_request_group m' = true.
Proof. destruct m; cbn [norm_request_group]; intro E; try discriminate; assert (E' := E); injection E' as <-; repeat split. Qed.

Lemma lift_rt {T} (enc : W) (dec : R T) (m' : T) (C : T -> Message) :
  (exists b, enc = Ok b /\ forall rest, dec (b ++ rest) = DOk m' rest) ->
  exists b, enc = Ok b /\ forall rest, rmap C dec (b ++ rest) = DOk (C m') rest.
Proof. intros (b & E & D). exists b. split; [exact E|]. intro rest. unfold rmap, bind. rewrite D. reflexivity. Qed.

(* ---------- round trip ---------- *)
Theorem request_group_roundtrip v m w : enc_request_group v m = Some w -> request_group_okb v m = Some true ->
  exists b m' r, w = Ok b /\ norm_request_group v m = Some m' /\ dec_request_group v (msg_opcode m) = Some r /\
                 forall rest, r (b ++ rest) = DOk m' rest.
Proof.
  destruct m; cbn [enc_request_group request_group_okb norm_request_group]; intros Ew Hok; try discriminate;
    (assert (Ew' : _ = w) by (injection Ew as Ew; exact Ew)); subst w;
    try (assert (Hok' : _ = true) by (injection Hok as Hok; exact Hok)).
  - destruct (lift_rt _ _ _ M_Startup (Startup_roundtrip v m Hok')) as (b & E & D). exists b; eexists; eexists; (split; [exact E|]); (split; [reflexivity|]); (split; [reflexivity|exact D]).
  - destruct (lift_rt _ _ _ (fun _ => M_Options) (Options_roundtrip v)) as (b & E & D). exists b; eexists; eexists; (split; [exact E|]); (split; [reflexivity|]); (split; [reflexivity|exact D]).
  - destruct (lift_rt _ _ _ M_Query (Query_roundtrip v m Hok')) as (b & E & D). exists b; eexists; eexists; (split; [exact E|]); (split; [reflexivity|]); (split; [reflexivity|exact D]).
  - destruct (lift_rt _ _ _ M_Prepare (Prepare_roundtrip v m Hok')) as (b & E & D). exists b; eexists; eexists; (split; [exact E|]); (split; [reflexivity|]); (split; [reflexivity|exact D]).
  - destruct (lift_rt _ _ _ M_Execute (Execute_roundtrip v m Hok')) as (b & E & D). exists b; eexists; eexists; (split; [exact E|]); (split; [reflexivity|]); (split; [reflexivity|exact D]).
  - destruct (lift_rt _ _ _ M_Register (Register_roundtrip v m Hok')) as (b & E & D). exists b; eexists; eexists; (split; [exact E|]); (split; [reflexivity|]); (split; [reflexivity|exact D]).
  - destruct (lift_rt _ _ _ M_Batch (Batch_roundtrip v m Hok')) as (b & E & D). exists b; eexists; eexists; (split; [exact E|]); (split; [reflexivity|]); (split; [reflexivity|exact D]).
  - destruct (lift_rt _ _ _ M_AuthResponse (AuthResponse_roundtrip v m Hok')) as (b & E & D). exists b; eexists; eexists; (split; [exact E|]); (split; [reflexivity|]); (split; [reflexivity|exact D]).
  - destruct (lift_rt _ _ _ M_Revise (Revise_roundtrip v m Hok')) as (b & E & D). exists b; eexists; eexists; (split; [exact E|]); (split; [reflexivity|]); (split; [reflexivity|exact D]).
  - destruct (lift_rt _ _ _ (fun _ => M_Ready) (Ready_roundtrip v)) as (b & E & D). exists b; eexists; eexists; (split; [exact E|]); (split; [reflexivity|]); (split; [reflexivity|exact D]).
  - destruct (lift_rt _ _ _ M_Authenticate (Authenticate_roundtrip v m Hok')) as (b & E & D). exists b; eexists; eexists; (split; [exact E|]); (split; [reflexivity|]); (split; [reflexivity|exact D]).
  - destruct (lift_rt _ _ _ M_Supported (Supported_roundtrip v m Hok')) as (b & E & D). exists b; eexists; eexists; (split; [exact E|]); (split; [reflexivity|]); (split; [reflexivity|exact D]).
  - destruct (lift_rt _ _ _ M_AuthChallenge (AuthChallenge_roundtrip v m Hok')) as (b & E & D). exists b; eexists; eexists; (split; [exact E|]); (split; [reflexivity|]); (split; [reflexivity|exact D]).
  - destruct (lift_rt _ _ _ M_AuthSuccess (AuthSuccess_roundtrip v m Hok')) as (b & E & D). exists b; eexists; eexists; (split; [exact E|]); (split; [reflexivity|]); (split; [reflexivity|exact D]).
Qed.

(* the form of the task statement *)
Corollary request_group_roundtrip' v m w : enc_request_group v m = Some w -> request_group_okb v m = Some true ->
  exists b m', w = Ok b /\ norm_request_group v m = Some m' /\
    forall rest, exists r, dec_request_group v (msg_opcode m) = Some r /\ r (b ++ rest) = DOk m' rest.
Proof.
  intros E H. destruct (request_group_roundtrip v m w E H) as (b & m' & r & E1 & E2 & E3 & E4).
  exists b, m'. repeat split; [exact E1|exact E2|]. intro rest. exists r. split; [exact E3|apply E4].
Qed.

(* ---------- declared length ---------- *)
Theorem request_group_length v m w l b : enc_request_group v m = Some w -> len_request_group v m = Some l ->
  request_group_okb v m = Some true -> w = Ok b -> l = Ok (zlen b).
Proof.
  destruct m; cbn [enc_request_group len_request_group request_group_okb]; intros Ew El Hok Eb; try discriminate;
    (assert (Ew' : _ = w) by (injection Ew as Ew; exact Ew)); (assert (El' : _ = l) by (injection El as El; exact El)); rewrite <- El'; rewrite <- Ew' in Eb;
    try (assert (Hok' : _ = true) by (injection Hok as Hok; exact Hok)).
  - exact (Startup_length v m b Hok' Eb).
  - exact (Options_length v b Eb).
  - exact (Query_length v m b Hok' Eb).
  - exact (Prepare_length v m b Hok' Eb).
  - exact (Execute_length v m b Hok' Eb).
  - exact (Register_length v m b Hok' Eb).
  - exact (Batch_length v m b Hok' Eb).
  - exact (AuthResponse_length v m b Hok' Eb).
  - exact (Revise_length v m b Hok' Eb).
  - exact (Ready_length v b Eb).
  - exact (Authenticate_length v m b Hok' Eb).
  - exact (Supported_length v m b Hok' Eb).
  - exact (AuthChallenge_length v m b Hok' Eb).
  - exact (AuthSuccess_length v m b Hok' Eb).
Qed.

(* ---------- totality: no panic, no fuel exhaustion, on ALL byte strings, for every opcode of the group ---------- *)
Theorem request_group_total v op r : dec_request_group v op = Some r -> forall bs, r bs <> DPanic /\ r bs <> DFuel.
Proof.
  unfold dec_request_group.
  repeat match goal with
  | |- (if ?c then _ else _) = Some r -> _ =>
      destruct c; [intro E; assert (E' : _ = r) by (injection E as E; exact E); subst r; apply total_rmap; intro bs|]
  end.
  - apply Startup_total. - apply Options_total. - apply Query_total. - apply Prepare_total. - apply Execute_total.
  - apply Register_total. - apply Batch_total. - apply AuthResponse_total. - apply Revise_total. - apply Ready_total.
  - apply Authenticate_total. - apply Supported_total. - apply AuthChallenge_total. - apply AuthSuccess_total.
  - discriminate.
Qed.

(* ---------- the normal form is valid and stable ---------- *)
Theorem request_group_norm_ok v m : request_group_okb v m = Some true ->
  exists m', norm_request_group v m = Some m' /\ request_group_okb v m' = Some true /\ norm_request_group v m' = Some m'.
Proof.
  destruct m; cbn [request_group_okb norm_request_group]; intro Hok; try discriminate;
    try (assert (Hok' : _ = true) by (injection Hok as Hok; exact Hok)); eexists; (split; [reflexivity|]);
    cbn [request_group_okb norm_request_group].
  - destruct (norm_Startup_ok v m Hok') as [H1 H2]. rewrite H1, H2. split; reflexivity.
  - split; reflexivity.
  - destruct (norm_Query_ok v m Hok') as [H1 H2]. rewrite H1, H2. split; reflexivity.
  - destruct (norm_Prepare_ok v m Hok') as [H1 H2]. rewrite H1, H2. split; reflexivity.
  - destruct (norm_Execute_ok v m Hok') as [H1 H2]. rewrite H1, H2. split; reflexivity.
  - destruct (norm_Register_ok v m Hok') as [H1 H2]. rewrite H1, H2. split; reflexivity.
  - destruct (norm_Batch_ok v m Hok') as [H1 H2]. rewrite H1, H2. split; reflexivity.
  - destruct (norm_AuthResponse_ok v m Hok') as [H1 H2]. rewrite H1, H2. split; reflexivity.
  - destruct (norm_Revise_ok v m Hok') as [H1 H2]. rewrite H1, H2. split; reflexivity.
  - split; reflexivity.
  - destruct (norm_Authenticate_ok v m Hok') as [H1 H2]. rewrite H1, H2. split; reflexivity.
  - destruct (norm_Supported_ok v m Hok') as [H1 H2]. rewrite H1, H2. split; reflexivity.
  - destruct (norm_AuthChallenge_ok v m Hok') as [H1 H2]. rewrite H1, H2. split; reflexivity.
  - destruct (norm_AuthSuccess_ok v m Hok') as [H1 H2]. rewrite H1, H2. split; reflexivity.
Qed.

(* ---------- non-vacuity: every constructor of the group has a valid instance; concrete wire bytes ---------- *)
Definition request_group_examples : list (Z * Message) :=
  [(4, M_Startup {| st_Options := [(B "CQL_VERSION", B "3.0.0")] |}); (4, M_Options);
   (5, M_Query {| q_Query := B "SELECT * FROM t WHERE a = ? AND b = ? AND c = ?"; q_Options := Some ex_QueryOptions |});
   (66, M_Query {| q_Query := B "SELECT * FROM t WHERE a = :a AND b = :b"; q_Options := Some ex_QueryOptions_dse |});
   (3, M_Query {| q_Query := B "SELECT 1"; q_Options := None |});
   (5, M_Prepare {| p_Query := B "SELECT * FROM t"; p_Keyspace := B "ks" |});
   (5, M_Execute {| ex_QueryId := Some [1; 2; 3; 4]; ex_ResultMetadataId := Some [5; 6]; ex_Options := Some ex_QueryOptions |});
   (4, M_Register {| rg_EventTypes := [B "SCHEMA_CHANGE"; B "STATUS_CHANGE"] |});
   (5, M_Batch (ex_Batch (Some 99) (B "ks"))); (4, M_Batch (ex_Batch None []));
   (4, M_AuthResponse {| ar_Token := Some [0; 117; 0; 112] |});
   (66, M_Revise {| rv_RevisionType := 2; rv_TargetStreamId := 77; rv_NextPages := 5 |});
   (4, M_Ready); (4, M_Authenticate {| au_Authenticator := B "org.apache.cassandra.auth.PasswordAuthenticator" |});
   (4, M_Supported {| su_Options := [(B "COMPRESSION", [B "snappy"; B "lz4"])] |});
   (4, M_AuthChallenge {| ac_Token := Some [1; 2] |}); (4, M_AuthSuccess {| as_Token := None |})].
Example request_group_examples_ok :
  forallb (fun vm => match request_group_okb (fst vm) (snd vm) with Some true => true | _ => false end) request_group_examples = true.
Proof. vm_compute. reflexivity. Qed.
(* the model decodes what it encodes, on the examples, by evaluation (independent of the theorems) *)
Definition rt_check (vm : Z * Message) : bool :=
  match enc_request_group (fst vm) (snd vm), norm_request_group (fst vm) (snd vm), dec_request_group (fst vm) (msg_opcode (snd vm)) with
  | Some (Ok b), Some m', Some r =>
      match r (b ++ [1; 2; 3]) with
      | DOk m'' rest => Message_beq m' m'' && list_beq Z Z.eqb rest [1; 2; 3]
      | _ => false
      end
  | _, _, _ => false
  end.
Example request_group_examples_roundtrip : forallb rt_check request_group_examples = true.
Proof. vm_compute. reflexivity. Qed.
