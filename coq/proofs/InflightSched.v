(* Schedules (C09): a small-step semantics of onOutgoingFrameEnqueued / onIncomingFrameReceived / close split at the
   code's synchronisation points, for ANY number of sender threads (managed or explicit), the single receive loop and
   any number of closers, interleaved arbitrarily.

   Atomic actions (one LTS transition each):
     sender   S0 k      isClosed?; managed: borrowStreamId (isClosed?; non-blocking receive on the pool channel)
              S2 id m   RLock; len == max? / found? ; RUnlock
              S3 id m   addInFlight: Lock; isClosed? ; len == max? / found? AGAIN (fix e71cde5) ; inFlight[id] = request ; Unlock
              S5 id m   refusal path: managed -> releaseStreamId (isClosed?; non-blocking send on the pool channel)
     receiver R0        isClosed?; RLock; lookup; RUnlock              (final frames; a non-final frame leaves the map alone)
              R2 k m    removeInFlight: Lock; delete; Unlock           (m: the managed flag read at lookup time)
              R3 k      releaseStreamId
     closer             Lock; drain the map; Unlock
   Every "isClosed?" load is OVER-APPROXIMATED: the thread may take the closed branch at any time (so the closed flag
   itself need not be tracked and the order of the closer's CAS / drain / channel close does not matter for safety).
   A release may also fail at any time (closed, or pool channel full). The invariant below therefore holds for a
   superset of the interleavings of the real code.  That each Go statement sequence between two synchronisation
   points is one of these actions is tied by reading (and, for run-to-completion schedules, by the sequential
   correspondence run); it is not checked mechanically. *)
From Coq Require Import ZArith List Bool Lia Permutation Relations.
From Coq Require Import ZifyBool ZifyNat.
Import ListNotations.
Open Scope Z_scope.

(* slive is a ghost: the stream ids of the requests that were accepted and have neither been answered (final frame
   looked up and deleted by the receive loop) nor swept by a Close.  It is specified on its own, NOT read off the map:
   a map assignment that replaced an entry would leave two live requests with one id. *)
Record shared := mkSh { spool : list Z; smap : list (Z * bool); sN : Z; slive : list Z }.
Definition lremove (k : Z) (l : list Z) : list Z := filter (fun x => negb (x =? k)) l.

Inductive thread :=
| S0 (k : Z) | S2 (id : Z) (m : bool) | S3 (id : Z) (m : bool) | S5 (id : Z) (m : bool)
| SAccepted (id : Z) (m : bool) | SRefused
| R0 | R2 (k : Z) (m : bool) | R3 (k : Z)
| C0 | CDone.

Definition skeys (m : list (Z * bool)) : list Z := map fst m.
Definition mkeys (m : list (Z * bool)) : list Z := map fst (filter (fun kv => snd kv) m).
Definition sremove (k : Z) (m : list (Z * bool)) : list (Z * bool) := filter (fun kv => negb (fst kv =? k)) m.
Definition supsert (k : Z) (b : bool) (m : list (Z * bool)) : list (Z * bool) := sremove k m ++ [(k, b)].
Definition slen (m : list (Z * bool)) : Z := Z.of_nat (length m).
Definition plen (p : list Z) : Z := Z.of_nat (length p).

Inductive tstep : shared -> thread -> shared -> thread -> Prop :=
| t_borrow p m n l id rest : p = id :: rest -> tstep (mkSh p m n l) (S0 0) (mkSh rest m n l) (S2 id true)
| t_borrow_fail s : tstep s (S0 0) s SRefused                      (* closed, or no id available *)
| t_explicit s k : k <> 0 -> tstep s (S0 k) s (S2 k false)
| t_closed s k : tstep s (S0 k) s SRefused
| t_check_pass s id b : slen (smap s) <> sN s -> ~ In id (skeys (smap s)) -> tstep s (S2 id b) s (S3 id b)
| t_check_refuse s id b : slen (smap s) = sN s \/ In id (skeys (smap s)) -> tstep s (S2 id b) s (S5 id b)
| t_insert p m n l id b : slen m <> n -> ~ In id (skeys m) ->      (* the checks, now inside the critical section *)
    tstep (mkSh p m n l) (S3 id b) (mkSh p (supsert id b m) n (l ++ [id])) (SAccepted id b)
| t_insert_refuse s id b : slen (smap s) = sN s \/ In id (skeys (smap s)) -> tstep s (S3 id b) s (S5 id b)
| t_insert_closed s id b : tstep s (S3 id b) s (S5 id b)
| t_release p m n l id : plen p < n -> tstep (mkSh p m n l) (S5 id true) (mkSh (p ++ [id]) m n l) SRefused
| t_release_fail s id : tstep s (S5 id true) s SRefused
| t_refused_explicit s id : tstep s (S5 id false) s SRefused
| t_lookup s k b : In (k, b) (smap s) -> tstep s R0 s (R2 k b)
| t_lookup_none s : tstep s R0 s R0                                 (* closed, unknown id, or a non-final frame *)
| t_delete_managed p m n l k : tstep (mkSh p m n l) (R2 k true) (mkSh p (sremove k m) n (lremove k l)) (R3 k)
| t_delete_explicit p m n l k : tstep (mkSh p m n l) (R2 k false) (mkSh p (sremove k m) n (lremove k l)) R0
| t_recv_release p m n l k : plen p < n -> tstep (mkSh p m n l) (R3 k) (mkSh (p ++ [k]) m n l) R0
| t_recv_release_fail s k : tstep s (R3 k) s R0
| t_drain p m n l : tstep (mkSh p m n l) C0 (mkSh p [] n []) CDone.

Definition config := (shared * list thread)%type.

(* any thread may move; new senders and closers may appear at any time; the thread list is a multiset *)
Inductive cstep : config -> config -> Prop :=
| c_thread s t ts s' t' : tstep s t s' t' -> cstep (s, t :: ts) (s', t' :: ts)
| c_permute s ts ts' : Permutation ts ts' -> cstep (s, ts) (s, ts')
| c_spawn_sender s ts k : cstep (s, ts) (s, S0 k :: ts)
| c_spawn_closer s ts : cstep (s, ts) (s, C0 :: ts).

Fixpoint zseq' (start : Z) (len : nat) : list Z := match len with O => [] | S l => start :: zseq' (start + 1) l end.
Definition cinit (n : Z) : config := (mkSh (zseq' 1 (Z.to_nat n)) [] n [], [R0]).
Definition creachable (n : Z) (c : config) : Prop := clos_refl_trans _ cstep (cinit n) c.

(* ids a thread holds: borrowed and not yet registered / given back; removed from the map and not yet given back *)
Definition held_t (t : thread) : list Z :=
  match t with S2 id true | S3 id true | S5 id true => [id] | R3 k => [k] | _ => [] end.
Definition held (ts : list thread) : list Z := flat_map held_t ts.
Definition is_recv (t : thread) : bool := match t with R0 | R2 _ _ | R3 _ => true | _ => false end.

Record SInv (c : config) : Prop := mkSInv {
  si_nodup : NoDup (spool (fst c) ++ held (snd c));
  si_keys : NoDup (skeys (smap (fst c)));
  si_range : forall x, In x (spool (fst c) ++ held (snd c) ++ mkeys (smap (fst c))) -> 1 <= x <= sN (fst c);
  si_disj : forall x, In x (mkeys (smap (fst c))) -> ~ In x (spool (fst c) ++ held (snd c));
  si_r2 : forall k, In (R2 k true) (snd c) -> ~ In k (spool (fst c) ++ held (snd c)) /\ 1 <= k <= sN (fst c);
  si_one : (length (filter is_recv (snd c)) <= 1)%nat;
  si_len : slen (smap (fst c)) <= sN (fst c);
  si_live : slive (fst c) = skeys (smap (fst c))
}.

(* ------------------------------------------------------------------ list facts *)
Lemma In_zseq' len : forall start x, In x (zseq' start len) <-> start <= x < start + Z.of_nat len.
Proof. induction len as [|len IH]; intros start x; cbn [zseq' In]; [lia|]. rewrite IH. lia. Qed.

Lemma NoDup_zseq' len : forall start, NoDup (zseq' start len).
Proof. induction len as [|len IH]; intros start; cbn [zseq']; constructor; [|apply IH]. rewrite In_zseq'. lia. Qed.

Lemma held_perm ts ts' : Permutation ts ts' -> Permutation (held ts) (held ts').
Proof. intros H. unfold held. induction H; cbn [flat_map]; auto using Permutation_app_head.
  - rewrite !app_assoc. apply Permutation_app_tail, Permutation_app_comm.
  - eapply Permutation_trans; eauto.
Qed.

Lemma filter_perm_length {A} (f : A -> bool) l l' : Permutation l l' -> length (filter f l) = length (filter f l').
Proof.
  intros H. induction H; cbn [filter]; auto.
  - destruct (f x); cbn [length]; auto.
  - destruct (f x), (f y); cbn [length]; auto.
  - congruence.
Qed.

Lemma In_sremove k x b m : In (x, b) (sremove k m) <-> In (x, b) m /\ x <> k.
Proof. unfold sremove. rewrite filter_In. cbn [fst]. split; intros [H1 H2]; split; auto; lia. Qed.

Lemma skeys_sremove k x m : In x (skeys (sremove k m)) <-> In x (skeys m) /\ x <> k.
Proof.
  unfold skeys. rewrite !in_map_iff. split.
  - intros ([y b] & <- & H). apply In_sremove in H. cbn [fst]. split; [exists (y, b)|]; tauto.
  - intros (([y b] & <- & H) & Hne). exists (y, b). split; [reflexivity|]. apply In_sremove. auto.
Qed.

Lemma NoDup_map_filter {A B} (g : A -> B) (f : A -> bool) l : NoDup (map g l) -> NoDup (map g (filter f l)).
Proof.
  induction l as [|a l IH]; cbn [map filter]; [auto|]. intros H. inversion H as [|? ? Hn Hd]; subst.
  destruct (f a); cbn [map]; [|auto]. constructor; [|auto].
  intros Hin. apply in_map_iff in Hin. destruct Hin as (y & Hy & Hin). apply filter_In in Hin.
  apply Hn. rewrite <- Hy. apply in_map. tauto.
Qed.

Lemma NoDup_skeys_sremove k m : NoDup (skeys m) -> NoDup (skeys (sremove k m)).
Proof. apply NoDup_map_filter. Qed.

Lemma mkeys_In x m : In x (mkeys m) <-> In (x, true) m.
Proof.
  unfold mkeys. rewrite in_map_iff. split.
  - intros ([y b] & <- & H). apply filter_In in H. cbn [fst snd] in *. destruct H as [H ->]. exact H.
  - intros H. exists (x, true). split; [reflexivity|]. apply filter_In. auto.
Qed.

Lemma mkeys_sremove k x m : In x (mkeys (sremove k m)) <-> In x (mkeys m) /\ x <> k.
Proof. rewrite !mkeys_In. apply In_sremove. Qed.

Lemma mkeys_supsert k b x m :
  In x (mkeys (supsert k b m)) <-> (In x (mkeys m) /\ x <> k) \/ (x = k /\ b = true).
Proof.
  rewrite mkeys_In. unfold supsert. rewrite in_app_iff, In_sremove, <- mkeys_In. cbn [In]. split.
  - intros [H|[H|[]]]; [left; exact H|]. inversion H; subst. right. auto.
  - intros [H|[-> ->]]; [left; exact H|]. right. left. reflexivity.
Qed.

Lemma NoDup_skeys_supsert k b m : NoDup (skeys m) -> NoDup (skeys (supsert k b m)).
Proof.
  intros H. unfold supsert, skeys. rewrite map_app. cbn [map fst].
  eapply Permutation_NoDup; [apply Permutation_cons_append|]. constructor; [|now apply NoDup_skeys_sremove].
  fold (skeys (sremove k m)). rewrite skeys_sremove. tauto.
Qed.

Lemma NoDup_app_l {A} (a b : list A) : NoDup (a ++ b) -> NoDup a.
Proof.
  induction a as [|x a IH]; cbn [app]; [constructor|]. intros H. inversion H as [|? ? Hn Hd]; subst.
  constructor; [|auto]. intros Hin. apply Hn. apply in_app_iff. now left.
Qed.

Lemma sremove_notin k m : ~ In k (skeys m) -> sremove k m = m.
Proof.
  induction m as [|[y b] m IH]; [reflexivity|]. cbn [skeys map fst In sremove filter]. intros H.
  destruct (Z.eqb_spec y k); [tauto|]. cbn [negb]. f_equal. apply IH. unfold skeys. tauto.
Qed.

Lemma skeys_sremove_eq k m : skeys (sremove k m) = lremove k (skeys m).
Proof.
  induction m as [|[y b] m IH]; [reflexivity|]. cbn [skeys map fst sremove lremove filter].
  destruct (y =? k); cbn [negb map fst]; [exact IH|]. f_equal. exact IH.
Qed.

Lemma slen_sremove k m : slen (sremove k m) <= slen m.
Proof.
  unfold slen, sremove. induction m as [|x m IH]; cbn [filter length]; [lia|].
  destruct (negb (fst x =? k)); cbn [length]; lia.
Qed.

(* ------------------------------------------------------------------ preservation *)
(* moves that keep the map (and the live list) and only permute or shrink pool + held *)
Lemma inv_shrink p m n l t ts p' t' extra :
  SInv (mkSh p m n l, t :: ts) ->
  Permutation (p ++ held_t t ++ held ts) ((p' ++ held_t t' ++ held ts) ++ extra) ->
  (forall k, t' <> R2 k true) -> is_recv t' = is_recv t ->
  SInv (mkSh p' m n l, t' :: ts).
Proof.
  intros [Hnd Hk Hr Hd H2 H1 Hl Hlv] HP Hnr Hrecv. cbn [fst snd spool smap sN slive held flat_map] in *. fold (held ts) in *.
  assert (Hincl : forall x, In x (p' ++ held_t t' ++ held ts) -> In x (p ++ held_t t ++ held ts)).
  { intros x Hx. eapply Permutation_in; [apply Permutation_sym; exact HP|]. apply in_app_iff. now left. }
  constructor; cbn [fst snd spool smap sN slive held flat_map]; fold (held ts).
  - eapply Permutation_NoDup in Hnd; [|exact HP]. now apply NoDup_app_l in Hnd.
  - assumption.
  - intros x Hx. apply Hr. rewrite app_assoc in Hx. apply in_app_iff in Hx. rewrite app_assoc. apply in_app_iff.
    destruct Hx as [Hx|Hx]; [left|now right]. rewrite <- app_assoc in *. now apply Hincl.
  - intros x Hx Hin. apply (Hd x Hx). now apply Hincl.
  - intros k [Heq|Hin]; [exfalso; exact (Hnr k Heq)|]. destruct (H2 k) as [Hn Hrg]; [now right|]. split; [|exact Hrg].
    intros Hx. apply Hn. now apply Hincl.
  - cbn [filter] in *. rewrite Hrecv. destruct (is_recv t); cbn [length] in *; exact H1.
  - assumption.
  - assumption.
Qed.

Lemma tstep_inv s t ts s' t' : tstep s t s' t' -> SInv (s, t :: ts) -> SInv (s', t' :: ts).
Proof.
  intros Hst HI. inversion Hst; subst.
  - (* borrow *) eapply (inv_shrink _ _ _ _ _ _ _ _ []); eauto; [|discriminate].
    cbn [held_t app]. rewrite app_nil_r. cbn [app]. apply Permutation_middle.
  - destruct s'. eapply (inv_shrink _ _ _ _ _ _ _ _ []); eauto; [rewrite app_nil_r; reflexivity|discriminate].
  - destruct s'. eapply (inv_shrink _ _ _ _ _ _ _ _ []); eauto; [rewrite app_nil_r; reflexivity|discriminate].
  - destruct s'. eapply (inv_shrink _ _ _ _ _ _ _ _ []); eauto; [rewrite app_nil_r; reflexivity|discriminate].
  - destruct s'. eapply (inv_shrink _ _ _ _ _ _ _ _ []); eauto; [|discriminate]. rewrite app_nil_r. destruct b; reflexivity.
  - destruct s'. eapply (inv_shrink _ _ _ _ _ _ _ _ []); eauto; [|discriminate]. rewrite app_nil_r. destruct b; reflexivity.
  - (* insert, with the checks inside the critical section *)
    destruct HI as [Hnd Hk Hr Hd H2 H1 Hl Hlv]. cbn [fst snd spool smap sN slive held flat_map] in *. fold (held ts) in *.
    constructor; cbn [fst snd spool smap sN slive held flat_map held_t app]; fold (held ts).
    + destruct b; cbn [held_t app] in Hnd; [|exact Hnd]. apply NoDup_remove_1 in Hnd. exact Hnd.
    + now apply NoDup_skeys_supsert.
    + intros x Hx. rewrite !in_app_iff in Hx. rewrite mkeys_supsert in Hx. apply Hr. rewrite !in_app_iff.
      destruct Hx as [Hx|[Hx|[[Hx _]|[-> ->]]]]; auto. cbn [held_t In]. auto.
    + intros x Hx Hin. rewrite mkeys_supsert in Hx. destruct Hx as [[Hx _]|[-> ->]].
      * apply (Hd x Hx). rewrite !in_app_iff in *. tauto.
      * cbn [held_t app] in Hnd. apply NoDup_remove_2 in Hnd. exact (Hnd Hin).
    + intros k [Heq|Hin]; [discriminate|]. destruct (H2 k) as [Hn Hrg]; [now right|]. split; [|exact Hrg].
      intros Hx. apply Hn. rewrite !in_app_iff in *. tauto.
    + exact H1.
    + unfold supsert. rewrite (sremove_notin _ _ H0). unfold slen in *. rewrite app_length. cbn [length]. lia.
    + unfold supsert. rewrite (sremove_notin _ _ H0). unfold skeys. rewrite map_app. cbn [map fst]. f_equal. exact Hlv.
  - destruct s'. eapply (inv_shrink _ _ _ _ _ _ _ _ []); eauto; [|discriminate]. rewrite app_nil_r. destruct b; reflexivity.
  - destruct s'. eapply (inv_shrink _ _ _ _ _ _ _ _ []); eauto; [|discriminate]. rewrite app_nil_r. destruct b; reflexivity.
  - (* release *) eapply (inv_shrink _ _ _ _ _ _ _ _ []); eauto; [|discriminate].
    cbn [held_t app]. rewrite app_nil_r, <- app_assoc. reflexivity.
  - destruct s'. eapply (inv_shrink _ _ _ _ _ _ _ _ [id]); eauto; [|discriminate].
    cbn [held_t app]. rewrite <- app_assoc. apply Permutation_app_head. apply Permutation_cons_append.
  - destruct s'. eapply (inv_shrink _ _ _ _ _ _ _ _ []); eauto; [rewrite app_nil_r; reflexivity|discriminate].
  - (* lookup: establishes the R2 clause *)
    destruct HI as [Hnd Hk Hr Hd H2 H1 Hl Hlv]. cbn [fst snd held flat_map held_t app] in *. fold (held ts) in *.
    constructor; cbn [fst snd held flat_map held_t app]; fold (held ts); auto.
    intros k0 [Heq|Hin].
    + inversion Heq; subst. assert (Hm : In k0 (mkeys (smap s'))) by now apply mkeys_In. split; [now apply Hd|].
      apply Hr. rewrite !in_app_iff. auto.
    + apply H2. now right.
  - assumption.
  - (* delete, managed flag read earlier: the receiver now holds k *)
    destruct HI as [Hnd Hk Hr Hd H2 H1 Hl Hlv]. cbn [fst snd spool smap sN slive held flat_map held_t app] in *. fold (held ts) in *.
    destruct (H2 k) as [Hfresh Hrange]; [now left|].
    constructor; cbn [fst snd spool smap sN slive held flat_map held_t app]; fold (held ts).
    + eapply Permutation_NoDup; [apply Permutation_middle|]. now constructor.
    + now apply NoDup_skeys_sremove.
    + intros x Hx. rewrite in_app_iff in Hx. cbn [In] in Hx. rewrite in_app_iff, mkeys_sremove in Hx.
      destruct Hx as [Hx|[<-|[Hx|[Hx _]]]]; [| exact Hrange | |]; apply Hr; rewrite !in_app_iff; auto.
    + intros x Hx Hin. rewrite mkeys_sremove in Hx. destruct Hx as [Hx Hne].
      rewrite in_app_iff in Hin. cbn [In] in Hin. destruct Hin as [Hin|[Heq|Hin]]; [|congruence|];
        apply (Hd x Hx); rewrite in_app_iff; auto.
    + intros k0 [Heq|Hin]; [discriminate|]. exfalso.
      cbn [filter is_recv length] in H1. apply (in_split) in Hin. destruct Hin as (l1 & l2 & ->).
      rewrite filter_app in H1. cbn [filter is_recv] in H1. rewrite app_length in H1. cbn [length] in H1. lia.
    + exact H1.
    + pose proof (slen_sremove k m). lia.
    + rewrite skeys_sremove_eq. now f_equal.
  - (* delete, explicit *)
    destruct HI as [Hnd Hk Hr Hd H2 H1 Hl Hlv]. cbn [fst snd spool smap sN slive held flat_map held_t app] in *. fold (held ts) in *.
    constructor; cbn [fst snd spool smap sN slive held flat_map held_t app]; fold (held ts).
    + exact Hnd.
    + now apply NoDup_skeys_sremove.
    + intros x Hx. apply Hr. rewrite !in_app_iff in *. rewrite mkeys_sremove in Hx. tauto.
    + intros x Hx. rewrite mkeys_sremove in Hx. apply Hd. tauto.
    + intros k0 [Heq|Hin]; [discriminate|]. apply H2. now right.
    + exact H1.
    + pose proof (slen_sremove k m). lia.
    + rewrite skeys_sremove_eq. now f_equal.
  - (* receiver release *) eapply (inv_shrink _ _ _ _ _ _ _ _ []); eauto; [|discriminate].
    cbn [held_t app]. rewrite app_nil_r, <- app_assoc. reflexivity.
  - destruct s'. eapply (inv_shrink _ _ _ _ _ _ _ _ [k]); eauto; [|discriminate].
    cbn [held_t app]. rewrite <- app_assoc. apply Permutation_app_head. apply Permutation_cons_append.
  - (* drain *)
    destruct HI as [Hnd Hk Hr Hd H2 H1 Hl Hlv]. cbn [fst snd spool smap sN slive held flat_map held_t app] in *. fold (held ts) in *.
    constructor; cbn [fst snd spool smap sN slive held flat_map held_t app mkeys skeys filter map]; fold (held ts); auto.
    + constructor.
    + intros x Hx. apply Hr. rewrite !in_app_iff in *. cbn [In] in Hx. tauto.
    + intros k0 [Heq|Hin]; [discriminate|]. apply H2. now right.
    + unfold slen in *. cbn [length]. lia.
Qed.

Theorem cstep_inv c c' : cstep c c' -> SInv c -> SInv c'.
Proof.
  intros Hst HI. inversion Hst; subst.
  - eapply tstep_inv; eauto.
  - destruct HI as [Hnd Hk Hr Hd H2 H1 Hl Hlv]. cbn [fst snd] in *. pose proof (held_perm _ _ H) as HP.
    assert (Hiff : forall x, In x (spool s ++ held ts') <-> In x (spool s ++ held ts)).
    { intros x. rewrite !in_app_iff. split; intros [Hx|Hx]; auto; right.
      - eapply Permutation_in; [apply Permutation_sym; exact HP|exact Hx].
      - eapply Permutation_in; [exact HP|exact Hx]. }
    constructor; cbn [fst snd]; auto.
    + eapply Permutation_NoDup; [apply Permutation_app_head; exact HP|exact Hnd].
    + intros x Hx. apply Hr. rewrite app_assoc, in_app_iff in *. rewrite Hiff in Hx. exact Hx.
    + intros x Hx. rewrite Hiff. now apply Hd.
    + intros k Hin. rewrite Hiff. apply H2. eapply Permutation_in; [apply Permutation_sym; exact H|exact Hin].
    + rewrite <- (filter_perm_length is_recv _ _ H). exact H1.
  - destruct HI as [Hnd Hk Hr Hd H2 H1 Hl Hlv]. cbn [fst snd] in *.
    constructor; cbn [fst snd held flat_map held_t app filter is_recv]; fold (held ts); auto.
    intros k0 [Heq|Hin]; [discriminate|]. now apply H2.
  - destruct HI as [Hnd Hk Hr Hd H2 H1 Hl Hlv]. cbn [fst snd] in *.
    constructor; cbn [fst snd held flat_map held_t app filter is_recv]; fold (held ts); auto.
    intros k0 [Heq|Hin]; [discriminate|]. now apply H2.
Qed.

Lemma tstep_N s t s' t' : tstep s t s' t' -> sN s' = sN s.
Proof. intros H. inversion H; subst; reflexivity. Qed.

Lemma creachable_N n c : creachable n c -> sN (fst c) = n.
Proof.
  intros H. apply clos_rt_rtn1 in H. induction H as [|c1 c2 Hst _ IH]; [reflexivity|].
  inversion Hst; subst; cbn [fst] in *; auto. erewrite tstep_N; eauto.
Qed.

Lemma cinit_inv n : 0 <= n -> SInv (cinit n).
Proof.
  intros Hn. unfold cinit. constructor; cbn [fst snd spool smap sN slive held flat_map held_t app mkeys skeys filter map is_recv length].
  - rewrite app_nil_r. apply NoDup_zseq'.
  - constructor.
  - intros x Hx. rewrite !app_nil_r in Hx. apply In_zseq' in Hx. lia.
  - intros x [].
  - intros k [Heq|[]]. discriminate.
  - lia.
  - unfold slen. cbn [length]. lia.
  - reflexivity.
Qed.

(* in EVERY interleaving, with any number of sender threads (managed and explicit mixed) and closers:
   free ids, ids held by threads and ids of registered managed requests never overlap and lie in [1,N];
   the map never exceeds N entries; the live (accepted, unanswered) requests are exactly the map's keys *)
Theorem managed_ids_safe_in_every_schedule n c : 0 <= n -> creachable n c -> SInv c.
Proof.
  intros Hn H. apply clos_rt_rtn1 in H. induction H as [|c1 c2 Hst _ IH]; [now apply cinit_inv|]. eapply cstep_inv; eauto.
Qed.

(* the full statement of C09 on schedules (F10 repaired by e71cde5): whatever the interleaving of any number of senders
   (managed and explicit ids mixed), the receive loop and closers, no two accepted unanswered requests share a stream id,
   and there are never more than N of them; the map holds exactly them *)
Theorem unanswered_ids_distinct_in_every_schedule n c :
  0 <= n -> creachable n c ->
  NoDup (slive (fst c)) /\ plen (slive (fst c)) <= n /\ slen (smap (fst c)) <= n /\ slive (fst c) = skeys (smap (fst c)).
Proof.
  intros Hn HR. pose proof (creachable_N _ _ HR) as HN.
  destruct (managed_ids_safe_in_every_schedule n c Hn HR) as [_ Hk _ _ _ _ Hl Hlv].
  rewrite Hlv. repeat split; auto; try lia.
  unfold plen, skeys. rewrite map_length. unfold slen in Hl. lia.
Qed.

(* an accepted send never displaces a registered request: the insertion happens only when the id is not a key; the only
   transitions that take an id out of the live list are the receiver's delete for that id and a closer's drain *)
Theorem live_request_only_removed_by_receiver_or_closer s t s' t' k :
  tstep s t s' t' -> In k (slive s) -> ~ In k (slive s') -> (exists b, t = R2 k b) \/ t = C0.
Proof.
  intros Hst Hin Hnot. inversion Hst; subst; cbn [slive] in *; try contradiction.
  - exfalso. apply Hnot. apply in_app_iff. now left.
  - left. exists true. destruct (Z.eq_dec k k0) as [->|Hne]; [reflexivity|]. exfalso. apply Hnot.
    unfold lremove. apply filter_In. split; [assumption|]. destruct (Z.eqb_spec k k0); [contradiction|reflexivity].
  - left. exists false. destruct (Z.eq_dec k k0) as [->|Hne]; [reflexivity|]. exfalso. apply Hnot.
    unfold lremove. apply filter_In. split; [assumption|]. destruct (Z.eqb_spec k k0); [contradiction|reflexivity].
  - now right.
Qed.

(* a sender about to register a managed id: the id is in [1,N], no registered managed request carries it, no other
   thread holds it, and it is not in the pool - whatever the other threads did in between *)
Theorem managed_registration_is_exclusive n s ts1 ts2 id :
  0 <= n -> creachable n (s, ts1 ++ S3 id true :: ts2) ->
  1 <= id <= n /\ ~ In id (mkeys (smap s)) /\ ~ In id (held (ts1 ++ ts2)) /\ ~ In id (spool s).
Proof.
  intros Hn HR. pose proof (creachable_N _ _ HR) as HN. cbn [fst] in HN.
  assert (HR' : creachable n (s, S3 id true :: ts1 ++ ts2)).
  { eapply rt_trans; [exact HR|]. apply rt_step. apply c_permute. apply Permutation_sym, Permutation_middle. }
  destruct (managed_ids_safe_in_every_schedule _ _ Hn HR') as [Hnd _ Hr Hd _ _ _ _].
  cbn [fst snd held flat_map held_t app] in *. fold (held (ts1 ++ ts2)) in *.
  split; [rewrite <- HN; apply Hr; rewrite !in_app_iff; cbn [In]; auto|].
  split; [intros Hm; apply (Hd id Hm); rewrite in_app_iff; cbn [In]; auto|].
  apply NoDup_remove_2 in Hnd. rewrite in_app_iff in Hnd. tauto.
Qed.

(* every managed id a sender was told "accepted" lies in [1,N], in every schedule *)
Definition AInv (c : config) : Prop := forall id, In (SAccepted id true) (snd c) -> 1 <= id <= sN (fst c).

Theorem accepted_managed_ids_bounded_in_every_schedule n c id :
  0 <= n -> creachable n c -> In (SAccepted id true) (snd c) -> 1 <= id <= n.
Proof.
  intros Hn HR. rewrite <- (creachable_N _ _ HR). revert id.
  change (AInv c). apply clos_rt_rtn1 in HR. induction HR as [|c1 c2 Hst HR IH].
  - intros id [Heq|[]]. discriminate.
  - apply clos_rtn1_rt in HR. fold (creachable n c1) in HR. pose proof (managed_ids_safe_in_every_schedule _ _ Hn HR) as HI.
    unfold AInv in *. inversion Hst; subst; cbn [fst snd] in *.
    + intros id [Heq|Hin].
      * subst t'. inversion H; subst. destruct HI as [_ _ Hr _ _ _ _ _]. cbn [fst snd held flat_map held_t app sN spool] in *.
        apply Hr. rewrite !in_app_iff. cbn [In]. auto.
      * rewrite (tstep_N _ _ _ _ H). apply IH. now right.
    + intros id Hin. apply IH. eapply Permutation_in; [apply Permutation_sym; eassumption|exact Hin].
    + intros id [Heq|Hin]; [discriminate|auto].
    + intros id [Heq|Hin]; [discriminate|auto].
Qed.

(* the former F10 schedule is no longer a schedule: with 7 registered, a second sender at S3 7 can only be refused *)
Theorem former_F10_second_insert_is_refused p n l t' s' :
  tstep (mkSh p [(7, false)] n l) (S3 7 false) s' t' -> t' = S5 7 false /\ s' = mkSh p [(7, false)] n l.
Proof.
  intros H. inversion H; subst; auto. exfalso. match goal with Hn : ~ In 7 _ |- _ => apply Hn end. cbn. auto.
Qed.
