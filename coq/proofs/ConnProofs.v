(* C15: theorems about the connection framing machine of model/Conn.v.
   Part A is parametric in the frame codec and the segment codec (their laws are the predicates frame_law / seg_law of
   Conn.v, supplied per frame / per segment); Part B instantiates the laws with the raw-frame codec (closed), the
   frame codec of model/Frame.v (under the per-message laws of FrameProofs.WithCodec) and the segment codec of
   model/Segment.v (SegmentProofs). *)
From Coq Require Import ZArith List Bool Lia.
From Coq Require Import ZifyBool ZifyNat.
From GCNP Require Import base.GoInt base.Bytes base.Codec gen.Constants_gen gen.Crc_gen spec.SpecTables
  model.Prim model.DataType model.MsgTypes model.Frame model.Segment model.Mutators model.Conn
  proofs.PrimProofs proofs.ConstantsProofs proofs.CapabilityProofs proofs.FrameProofs proofs.SegmentProofs.
Import ListNotations.
Open Scope Z_scope.

(* ------------------------------------------------------------------------------------------------ list facts *)
Lemma app_prefix_split {A} (a b c d : list A) :
  a ++ b = c ++ d -> (length a <= length c)%nat -> exists x, c = a ++ x /\ b = x ++ d.
Proof.
  revert c. induction a as [|x a IH]; intros c E L.
  - exists c. split; [reflexivity|exact E].
  - destruct c as [|y c]; [cbn in L; lia|]. cbn in E. injection E as -> E. cbn in L.
    destruct (IH c E ltac:(lia)) as (z & -> & ->). exists z. split; reflexivity.
Qed.

Lemma zlen_zero_nil {A} (l : list A) : zlen l = 0 -> l = [].
Proof. destruct l; [reflexivity|]. rewrite zlen_cons. pose proof (zlen_nonneg l). lia. Qed.

Lemma zlen_pos_nonnil {A} (l : list A) : 0 < zlen l -> l <> [].
Proof. intros H E. subst l. unfold zlen in H. cbn in H. lia. Qed.

Lemma nonnil_length {A} (l : list A) : l <> [] -> (1 <= length l)%nat.
Proof. destruct l; [contradiction|cbn; lia]. Qed.

Lemma concat_nonnil_length {A} (ls : list (list A)) :
  Forall (fun l => l <> []) ls -> (length ls <= length (concat ls))%nat.
Proof.
  induction 1 as [|l ls Hl _ IH]; [cbn; lia|]. cbn [concat length]. rewrite app_length.
  pose proof (nonnil_length l Hl). lia.
Qed.

(* ================================================================================================ Part A *)
Section Abstract.
  Context {F H C : Type}.
  Variable fc : fcodec F H C.
  Variable sc : scodec C.

  Notation conn := (Conn.conn C).
  Notation read_frame := (Conn.read_frame fc).
  Notation read_sc := (Conn.read_sc fc).
  Notation add_multi := (Conn.add_multi fc).
  Notation read_segment := (Conn.read_segment fc sc).
  Notation rx_step := (Conn.rx_step fc sc).
  Notation rx_run := (Conn.rx_run fc sc).
  Notation rx_all := (Conn.rx_all fc sc).
  Notation tx_frame := (Conn.tx_frame fc sc).
  Notation tx_all := (Conn.tx_all fc sc).
  Notation frame_law := (Conn.frame_law fc).
  Notation enveloped := (Conn.enveloped fc).
  Notation seg_law := (Conn.seg_law sc).
  Notation calm := (Conn.calm fc).
  Notation calm_modern := (Conn.calm_modern fc).

  Definition prepend (fs : list F) (x : conn * list F * outcome) : conn * list F * outcome :=
    match x with (st, fs2, o) => (st, fs ++ fs2, o) end.

  Lemma prepend_nil x : prepend [] x = x.
  Proof. destruct x as [[st fs] o]. reflexivity. Qed.
  Lemma prepend_app a b x : prepend a (prepend b x) = prepend (a ++ b) x.
  Proof. destruct x as [[st fs] o]. cbn. rewrite app_assoc. reflexivity. Qed.

  (* ---------------------------------------------------------------------------------------------- readFrame *)
  Lemma enveloped_nonnil ce cd fs bss nfs : enveloped ce cd fs bss nfs -> Forall (fun b => b <> []) bss.
  Proof. induction 1 as [|f bs nf fs bss nfs (_ & Hne & _) _ IH]; constructor; assumption. Qed.

  Lemma enveloped_lengths ce cd fs bss nfs : enveloped ce cd fs bss nfs -> length fs = length bss /\ length nfs = length bss.
  Proof. induction 1 as [|f bs nf fs bss nfs _ _ [IH1 IH2]]; cbn; [split; reflexivity|]. split; congruence. Qed.

  Lemma enveloped_app_inv ce cd fs bss1 bss2 nfs :
    enveloped ce cd fs (bss1 ++ bss2) nfs ->
    exists fs1 fs2 nfs1 nfs2, fs = fs1 ++ fs2 /\ nfs = nfs1 ++ nfs2 /\
      enveloped ce cd fs1 bss1 nfs1 /\ enveloped ce cd fs2 bss2 nfs2.
  Proof.
    revert fs nfs. induction bss1 as [|b bss1 IH]; intros fs nfs E.
    - exists [], fs, [], nfs. repeat split; try reflexivity; [constructor|exact E].
    - cbn in E. inversion E as [|f bs nf fs' bss' nfs' Hl Hr]; subst.
      destruct (IH _ _ Hr) as (fs1 & fs2 & nfs1 & nfs2 & -> & -> & E1 & E2).
      exists (f :: fs1), fs2, (nf :: nfs1), nfs2. repeat split; try reflexivity; [constructor; assumption|assumption].
  Qed.

  (* a law-abiding frame that does not touch the framing state is decoded, delivered, and the state is unchanged *)
  Lemma read_frame_calm r (st : conn) ce f bs nf rest :
    frame_law ce (c_comp st) f bs nf -> calm r nf ->
    read_frame r st (bs ++ rest) = (st, [nf], RxOk, rest).
  Proof.
    intros (_ & _ & Hdec & _) Hc. unfold Conn.read_frame. rewrite Hdec.
    destruct r; cbn [Conn.calm] in Hc.
    - destruct Hc as [Hf Hs]. rewrite Hf. unfold maybe_switch. rewrite Hs, andb_false_r. reflexivity.
    - unfold adopt. rewrite Hc. reflexivity.
  Qed.

  (* frames that leave the state of an end in legacy layout alone leave that of an end in modern layout alone *)
  Lemma calm_calm_modern r nf : calm r nf -> calm_modern r nf.
  Proof. destruct r; cbn [Conn.calm Conn.calm_modern]; [intros [Hf _]; exact Hf|auto]. Qed.

  (* ... in modern layout a frame that would have switched the layout (READY, AUTHENTICATE) is an ordinary frame *)
  Lemma read_frame_calm_modern r (st : conn) ce f bs nf rest :
    c_modern st = true -> frame_law ce (c_comp st) f bs nf -> calm_modern r nf ->
    read_frame r st (bs ++ rest) = (st, [nf], RxOk, rest).
  Proof.
    intros Hm (_ & _ & Hdec & _) Hc. unfold Conn.read_frame. rewrite Hdec.
    destruct r; cbn [Conn.calm_modern] in Hc.
    - rewrite Hc. unfold maybe_switch. rewrite Hm. cbn [negb andb]. reflexivity.
    - unfold adopt. rewrite Hc. reflexivity.
  Qed.

  (* in general: what readFrame does with a law-abiding frame *)
  Lemma read_frame_law r (st : conn) ce f bs nf rest :
    frame_law ce (c_comp st) f bs nf ->
    read_frame r st (bs ++ rest) =
    match r with
    | Client => (maybe_switch fc st nf, [nf], if fc_fatal fc nf then RxAbort else RxOk, rest)
    | Server => (adopt fc st nf, [nf], RxOk, rest)
    end.
  Proof. intros (_ & _ & Hdec & _). unfold Conn.read_frame. rewrite Hdec. reflexivity. Qed.

  (* ---------------------------------------------------------------------------------------------- self-contained *)
  Lemma sc_more_nonnil (p : list Z) : p <> [] -> sc_more (zlen p) = true.
  Proof. intro Hne. unfold sc_more. apply Z.ltb_lt. destruct p; [contradiction|]. unfold zlen. cbn [length]. lia. Qed.

  Lemma read_sc_unfold k r (st : conn) p : p <> [] ->
    read_sc (S k) r st p =
    match read_frame r st p with
    | (st1, fs, RxOk, rest) => match read_sc k r st1 rest with (st2, fs2, o2) => (st2, fs ++ fs2, o2) end
    | (st1, fs, o, _) => (st1, fs, o)
    end.
  Proof. intro Hne. cbn [Conn.read_sc]. rewrite (sc_more_nonnil p Hne). reflexivity. Qed.

  Lemma read_sc_nil fuel r (st : conn) : read_sc fuel r st [] = (st, [], RxOk).
  Proof. destruct fuel; reflexivity. Qed.

  (* several whole envelopes in one payload: all delivered, in order *)
  Lemma read_sc_delivers r ce (st : conn) fs bss nfs : c_modern st = true ->
    enveloped ce (c_comp st) fs bss nfs -> Forall (calm_modern r) nfs ->
    forall fuel, (length bss <= fuel)%nat -> read_sc fuel r st (concat bss) = (st, nfs, RxOk).
  Proof.
    intro Hmod. induction 1 as [|f bs nf fs bss nfs Hl Hrest IH]; intros Hcalm fuel Hf.
    - cbn [concat]. apply read_sc_nil.
    - inversion Hcalm as [|? ? Hc1 Hc2]; subst. cbn [concat length] in *.
      destruct fuel as [|k]; [lia|].
      assert (Hne : bs ++ concat bss <> []).
      { destruct Hl as (_ & Hne & _). destruct bs; [contradiction|discriminate]. }
      rewrite read_sc_unfold by exact Hne.
      rewrite (read_frame_calm_modern r st ce f bs nf (concat bss) Hmod Hl Hc1).
      rewrite IH by (try assumption; lia). reflexivity.
  Qed.

  (* ---------------------------------------------------------------------------------------------- multi-segment *)
  Definition reset (st : conn) : conn := set_acc st 0 [].

  (* the target the code knows after having accumulated n bytes of an envelope of length len *)
  Definition known_target (n len : Z) : Z := if n <? fc_hlen fc then 0 else len.

  (* one more part of an envelope that is being accumulated: a ++ p is still a strict prefix of e *)
  Lemma add_multi_more r ce (st : conn) f e nf p tail :
    frame_law ce (c_comp st) f e nf ->
    c_target st = known_target (zlen (c_acc st)) (zlen e) -> c_acc st ++ p ++ tail = e -> zlen (c_acc st ++ p) < zlen e ->
    add_multi r st p = (set_acc st (known_target (zlen (c_acc st ++ p)) (zlen e)) (c_acc st ++ p), [], RxOk).
  Proof.
    intros (_ & Hne & _ & (hb & body & h & He & Hhl & Hhd & Ht & _) & _) Htg Hcat Hlt.
    assert (He0 : zlen e <> 0) by (intro Hz; apply Hne; apply zlen_zero_nil; exact Hz).
    unfold Conn.add_multi, Conn.add_multi_go. set (acc' := c_acc st ++ p) in *.
    assert (Hpre : zlen (c_acc st) <= zlen acc') by (unfold acc'; rewrite zlen_app; pose proof (zlen_nonneg p); lia).
    unfold known_target in *.
    destruct (Z.ltb_spec (zlen acc') (fc_hlen fc)) as [Hs|Hs].
    - (* the header is not complete yet *)
      destruct (Z.ltb_spec (zlen (c_acc st)) (fc_hlen fc)); [|lia].
      rewrite Htg. cbn [Z.eqb]. replace (fc_hlen fc <=? zlen acc') with false by lia. cbn [andb negb]. reflexivity.
    - replace (fc_hlen fc <=? zlen acc') with true by lia. rewrite andb_true_r.
      assert (Hp : exists x, acc' = hb ++ x).
      { assert (E : hb ++ body = acc' ++ tail) by (unfold acc'; rewrite <- app_assoc, Hcat; symmetry; exact He).
        destruct (app_prefix_split hb body acc' tail E) as (x & Hx & _); [unfold zlen in *; lia|]. exists x. exact Hx. }
      destruct Hp as (x & Hx). destruct (Hhd x) as (rest' & Hd).
      destruct (Z.ltb_spec (zlen (c_acc st)) (fc_hlen fc)).
      + rewrite Htg. cbn [Z.eqb]. rewrite Hx, Hd, Ht, <- Hx.
        replace (zlen e =? 0) with false by lia. replace (zlen e =? zlen acc') with false by lia. reflexivity.
      + rewrite Htg. replace (zlen e =? 0) with false by lia. replace (zlen e =? zlen acc') with false by lia. reflexivity.
  Qed.

  (* the part that completes the envelope: the accumulator is reset and the reassembled frame is delivered *)
  Lemma add_multi_last r ce (st : conn) f e nf p :
    c_modern st = true -> frame_law ce (c_comp st) f e nf -> calm_modern r nf ->
    c_target st = known_target (zlen (c_acc st)) (zlen e) -> c_acc st ++ p = e ->
    add_multi r st p = (reset st, [nf], RxOk).
  Proof.
    intros Hmod Hl Hc Htg Hcat. pose proof Hl as (_ & Hne & _ & (hb & body & h & He & Hhl & Hhd & Ht & _) & _).
    assert (He0 : zlen e <> 0) by (intro Hz; apply Hne; apply zlen_zero_nil; exact Hz).
    assert (Hlen : fc_hlen fc <= zlen e) by (rewrite He, zlen_app, Hhl; pose proof (zlen_nonneg body); lia).
    pose proof (read_frame_calm_modern r (reset st) ce f e nf [] Hmod Hl Hc) as Hr. rewrite app_nil_r in Hr. unfold reset in Hr.
    unfold Conn.add_multi, Conn.add_multi_go. rewrite Hcat.
    replace (fc_hlen fc <=? zlen e) with true by lia. rewrite andb_true_r.
    unfold known_target in Htg.
    destruct (Z.ltb_spec (zlen (c_acc st)) (fc_hlen fc)).
    - rewrite Htg. cbn [Z.eqb]. destruct (Hhd body) as (rest' & Hd). rewrite He at 1. rewrite Hd, Ht.
      replace (zlen e =? 0) with false by lia. rewrite Z.eqb_refl. cbn [negb andb]. rewrite Hr. reflexivity.
    - rewrite Htg. replace (zlen e =? 0) with false by lia. rewrite Z.eqb_refl. cbn [negb andb]. rewrite Hr. reflexivity.
  Qed.

  (* a zero-length part on an idle accumulator changes nothing *)
  Lemma add_multi_empty_idle r (st : conn) :
    c_target st = 0 -> c_acc st = [] -> 0 < fc_hlen fc -> add_multi r st [] = (st, [], RxOk).
  Proof.
    intros Ht Ha Hh. unfold Conn.add_multi, Conn.add_multi_go. rewrite Ht, Ha. cbn [app Z.eqb andb negb].
    replace (fc_hlen fc <=? zlen (@nil Z)) with false by (rewrite zlen_nil; lia). cbn [andb].
    destruct st as [m c t a]; cbn in *; subst; reflexivity.
  Qed.

  (* ---------------------------------------------------------------------------------------------- the read loop *)
  Lemma rx_run_nil fuel r (st : conn) : rx_run fuel r st [] = (st, [], RxOk).
  Proof. destruct fuel; reflexivity. Qed.

  Lemma rx_run_unfold k r (st : conn) src : src <> [] ->
    rx_run (S k) r st src =
    match rx_step r st src with
    | (st1, fs, RxOk, rest) => match rx_run k r st1 rest with (st2, fs2, o2) => (st2, fs ++ fs2, o2) end
    | (st1, fs, o, _) => (st1, fs, o)
    end.
  Proof. destruct src; [contradiction|reflexivity]. Qed.

  Lemma rx_run_step k r (st st1 : conn) bs rest fs : bs <> [] ->
    rx_step r st (bs ++ rest) = (st1, fs, RxOk, rest) ->
    rx_run (S k) r st (bs ++ rest) = prepend fs (rx_run k r st1 rest).
  Proof.
    intros Hne Hs. rewrite rx_run_unfold by (destruct bs; [contradiction|discriminate]).
    rewrite Hs. reflexivity.
  Qed.

  Lemma read_segment_law r (st : conn) s p bs rest :
    seg_law (c_comp st) s p bs ->
    read_segment r st (bs ++ rest) =
    match (if s then read_sc (S (length p)) r st p else add_multi r st p) with (st1, fs, o) => (st1, fs, o, rest) end.
  Proof. intros (_ & _ & Hd). unfold Conn.read_segment. rewrite Hd. reflexivity. Qed.

  (* ---------------------------------------------------------------------------------------------- (1) legacy *)
  Lemma legacy_run r ce (st : conn) fs bss nfs : enveloped ce (c_comp st) fs bss nfs -> Forall (calm r) nfs ->
    c_modern st = false ->
    forall k rest, rx_run (length bss + k) r st (concat bss ++ rest) = prepend nfs (rx_run k r st rest).
  Proof.
    induction 1 as [|f bs nf fs bss nfs Hl Hrest IH]; intros Hcalm Hm k rest.
    - cbn. rewrite prepend_nil. reflexivity.
    - inversion Hcalm as [|? ? Hc1 Hc2]; subst. cbn [concat length Nat.add]. rewrite <- app_assoc.
      pose proof Hl as (_ & Hne & _).
      rewrite (rx_run_step _ r st st bs (concat bss ++ rest) [nf] Hne).
      + rewrite IH by assumption. rewrite prepend_app. reflexivity.
      + unfold Conn.rx_step. rewrite Hm. apply (read_frame_calm r st ce f bs nf _ Hl Hc1).
  Qed.

  (* (1) legacy delivery: the receiver, fed the concatenation of the encodings of any list of law-abiding frames,
     delivers exactly the normalised frames in order and its framing state is unchanged.  No bound on the number or the
     size of the frames.  (How the stream is cut into TCP reads is below the model.) *)
  Theorem legacy_delivery r ce (st : conn) fs bss nfs :
    enveloped ce (c_comp st) fs bss nfs -> Forall (calm r) nfs -> c_modern st = false ->
    rx_all r st (concat bss) = (st, nfs, RxOk).
  Proof.
    intros He Hc Hm. unfold Conn.rx_all.
    pose proof (concat_nonnil_length bss (enveloped_nonnil _ _ _ _ _ He)) as Hlen.
    replace (S (length (concat bss))) with (length bss + (S (length (concat bss)) - length bss))%nat by lia.
    rewrite <- (app_nil_r (concat bss)) at 2.
    rewrite (legacy_run r ce st fs bss nfs He Hc Hm). rewrite rx_run_nil. cbn. rewrite app_nil_r. reflexivity.
  Qed.

  (* ---------------------------------------------------------------------------------------------- (2) modern *)
  Lemma seg_encoded_app_inv c ws1 ws2 bss :
    seg_encoded sc c (ws1 ++ ws2) bss -> exists b1 b2, bss = b1 ++ b2 /\ seg_encoded sc c ws1 b1 /\ seg_encoded sc c ws2 b2.
  Proof.
    revert bss. induction ws1 as [|w ws1 IH]; intros bss E.
    - exists [], bss. repeat split; [constructor|exact E].
    - cbn in E. inversion E as [|? bs ? bss' Hsl Hr]; subst. destruct (IH _ Hr) as (b1 & b2 & -> & E1 & E2).
      exists (bs :: b1), b2. repeat split; [constructor; assumption|assumption].
  Qed.

  Lemma seg_encoded_nonnil c ws bss : seg_encoded sc c ws bss -> Forall (fun b => b <> []) bss /\ length bss = length ws.
  Proof.
    induction 1 as [|w bs ws bss (_ & Hne & _) _ [IH1 IH2]]; [split; [constructor|reflexivity]|].
    split; [constructor; assumption|cbn; congruence].
  Qed.

  (* zero-length parts after an envelope has been delivered (or before the next one starts) *)
  Lemma empty_parts_run r c : forall ps (st : conn) bss,
    0 < fc_hlen fc -> c_modern st = true -> c_comp st = c -> c_target st = 0 -> c_acc st = [] ->
    concat ps = [] -> seg_encoded sc c (map WPart ps) bss ->
    forall k rest, rx_run (length ps + k) r st (concat bss ++ rest) = rx_run k r st rest.
  Proof.
    induction ps as [|p ps IH]; intros st bss Hh Hm Hcomp Htg Hacc Hcat Henc k rest.
    - inversion Henc; subst. reflexivity.
    - cbn [concat] in Hcat. apply app_eq_nil in Hcat. destruct Hcat as [-> Hcat].
      inversion Henc as [|w bs ws bss' Hsl Henc']; subst w ws bss. cbn [ws_self ws_payload] in Hsl.
      cbn [concat length Nat.add]. rewrite <- app_assoc. pose proof Hsl as (_ & Hbne & _).
      rewrite (rx_run_step _ r st st bs (concat bss' ++ rest) [] Hbne).
      + rewrite prepend_nil. apply IH; assumption.
      + unfold Conn.rx_step. rewrite Hm. rewrite (read_segment_law r st false [] bs _ ltac:(rewrite Hcomp; exact Hsl)).
        rewrite add_multi_empty_idle by assumption. reflexivity.
  Qed.

  (* the parts of ONE envelope, cut anywhere (inside the header as well), empty parts allowed anywhere:
     invariant = the accumulator holds a strict prefix a of e and the target is what a reveals *)
  Lemma parts_run r ce c (f : F) e nf : 0 < fc_hlen fc -> forall ps (st : conn) bss,
    frame_law ce c f e nf -> calm_modern r nf ->
    c_modern st = true -> c_comp st = c ->
    c_target st = known_target (zlen (c_acc st)) (zlen e) -> c_acc st ++ concat ps = e -> zlen (c_acc st) < zlen e ->
    seg_encoded sc c (map WPart ps) bss ->
    forall k rest, rx_run (length ps + k) r st (concat bss ++ rest) = prepend [nf] (rx_run k r (reset st) rest).
  Proof.
    intro Hh. induction ps as [|p ps IH]; intros st bss Hl Hc Hm Hcomp Htg Hcat Hlt Henc k rest.
    - cbn [concat] in Hcat. rewrite app_nil_r in Hcat. rewrite Hcat in Hlt. lia.
    - inversion Henc as [|w bs ws bss' Hsl Henc']; subst w ws bss. cbn [ws_self ws_payload] in Hsl.
      cbn [concat length Nat.add]. rewrite <- app_assoc. pose proof Hsl as (_ & Hbne & _).
      assert (Hl' : frame_law ce (c_comp st) f e nf) by (rewrite Hcomp; exact Hl).
      cbn [concat] in Hcat.
      assert (Hle : zlen (c_acc st ++ p) <= zlen e).
      { rewrite <- Hcat. rewrite !zlen_app. pose proof (zlen_nonneg (concat ps)). lia. }
      destruct (Z.eq_dec (zlen (c_acc st ++ p)) (zlen e)) as [Heq|Hneq].
      + (* this part completes the envelope; whatever follows is empty *)
        assert (Hrest : concat ps = []).
        { apply zlen_zero_nil. rewrite <- Hcat in Heq. rewrite !zlen_app in Heq. lia. }
        assert (Hfull : c_acc st ++ p = e) by (rewrite <- Hcat, Hrest, app_nil_r; reflexivity).
        rewrite (rx_run_step _ r st (reset st) bs (concat bss' ++ rest) [nf] Hbne).
        * f_equal. apply (empty_parts_run r c ps (reset st) bss'); try assumption; reflexivity.
        * unfold Conn.rx_step. rewrite Hm. rewrite (read_segment_law r st false p bs _ ltac:(rewrite Hcomp; exact Hsl)).
          rewrite (add_multi_last r ce st f e nf p Hm Hl' Hc Htg Hfull). reflexivity.
      + set (st1 := set_acc st (known_target (zlen (c_acc st ++ p)) (zlen e)) (c_acc st ++ p)).
        rewrite (rx_run_step _ r st st1 bs (concat bss' ++ rest) [] Hbne).
        * rewrite prepend_nil. rewrite (IH st1 bss' Hl Hc); try assumption; try reflexivity.
          -- cbn [c_acc st1 set_acc]. rewrite <- app_assoc. exact Hcat.
          -- cbn [c_acc st1 set_acc]. lia.
        * unfold Conn.rx_step. rewrite Hm. rewrite (read_segment_law r st false p bs _ ltac:(rewrite Hcomp; exact Hsl)).
          rewrite (add_multi_more r ce st f e nf p (concat ps) Hl' Htg Hcat ltac:(lia)). reflexivity.
  Qed.

  (* the receive machine folded over the segments of ANY segmentation *)
  Lemma modern_run r ce c envs ss :
    0 < fc_hlen fc -> segmentation envs ss ->
    forall fs nfs (st : conn) bss,
    enveloped ce c fs envs nfs -> Forall (calm_modern r) nfs ->
    c_modern st = true -> c_comp st = c -> c_target st = 0 -> c_acc st = [] ->
    seg_encoded sc c ss bss ->
    forall k rest, rx_run (length ss + k) r st (concat bss ++ rest) = prepend nfs (rx_run k r st rest).
  Proof.
    intro Hh. induction 1 as [|es1 es2 ss Hsz Hseg IH|e ps es ss Hcat Hparts Hseg IH];
      intros fs nfs st bss Henv Hcalm Hm Hcomp Htg Hacc Henc k rest.
    - inversion Henv; subst. inversion Henc; subst. cbn. rewrite prepend_nil. reflexivity.
    - destruct (enveloped_app_inv _ _ _ _ _ _ Henv) as (fs1 & fs2 & nfs1 & nfs2 & -> & -> & E1 & E2).
      apply Forall_app in Hcalm. destruct Hcalm as [Hc1 Hc2].
      inversion Henc as [|w bs ws bss' Hsl Henc']; subst. cbn [ws_self ws_payload] in Hsl.
      cbn [concat length Nat.add]. rewrite <- app_assoc.
      pose proof Hsl as (_ & Hbne & _).
      rewrite (rx_run_step _ r st st bs (concat bss' ++ rest) nfs1 Hbne).
      + rewrite (IH fs2 nfs2 st bss') by (try assumption; reflexivity). rewrite prepend_app. reflexivity.
      + unfold Conn.rx_step. rewrite Hm. rewrite (read_segment_law r st true (concat es1) bs _ Hsl).
        rewrite (read_sc_delivers r ce st fs1 es1 nfs1 Hm E1 Hc1); [reflexivity|].
        pose proof (concat_nonnil_length es1 (enveloped_nonnil _ _ _ _ _ E1)). lia.
    - inversion Henv as [|f e' nf fs' es' nfs' Hl Henv']; subst e' fs nfs es'.
      inversion Hcalm as [|x0 l0 Hc1 Hc2]; subst x0 l0.
      destruct (seg_encoded_app_inv _ _ _ _ Henc) as (b1 & b2 & -> & Eb1 & Eb2).
      rewrite concat_app, <- app_assoc, app_length, map_length.
      replace (length ps + length ss + k)%nat with (length ps + (length ss + k))%nat by lia.
      assert (Hst : reset st = st).
      { unfold reset, set_acc. destruct st as [m cc t a]. cbn in *. subst. reflexivity. }
      pose proof Hl as (_ & Hne & _).
      rewrite (parts_run r ce c f e nf Hh ps st b1 Hl Hc1 Hm Hcomp); try assumption.
      + rewrite Hst. rewrite (IH fs' nfs' st b2) by (try assumption; reflexivity). rewrite prepend_app. reflexivity.
      + rewrite Hacc, Htg. unfold known_target. change (zlen (@nil Z)) with 0.
        destruct (Z.ltb_spec 0 (fc_hlen fc)); [reflexivity|lia].
      + rewrite Hacc. exact Hcat.
      + rewrite Hacc. change (zlen (@nil Z)) with 0. pose proof (zlen_nonneg e).
        assert (zlen e <> 0) by (intro E; apply Hne; apply zlen_zero_nil; exact E). lia.
  Qed.

  (* (2) modern delivery for EVERY segmentation the specification allows: any grouping of whole envelopes into
     self-contained segments of at most 131071 bytes; any cut of one envelope (of any size) into any number of parts -
     inside its header as well, empty parts included - carried by non-self-contained segments; large and small
     interleaved: the receive machine delivers the same frames in the same order and ends with an empty accumulator, in
     the same state.  (0 < fc_hlen: a header has at least one byte; it is 9.) *)
  Theorem modern_delivery r ce c fs envs nfs ss bss (st : conn) :
    0 < fc_hlen fc ->
    enveloped ce c fs envs nfs -> Forall (calm_modern r) nfs ->
    segmentation envs ss -> seg_encoded sc c ss bss ->
    c_modern st = true -> c_comp st = c -> c_target st = 0 -> c_acc st = [] ->
    rx_all r st (concat bss) = (st, nfs, RxOk).
  Proof.
    intros Hh He Hc Hseg Henc Hm Hcomp Htg Hacc. unfold Conn.rx_all.
    destruct (seg_encoded_nonnil _ _ _ Henc) as [Hne Hlen].
    pose proof (concat_nonnil_length bss Hne) as Hl.
    replace (S (length (concat bss))) with (length ss + (S (length (concat bss)) - length ss))%nat by lia.
    rewrite <- (app_nil_r (concat bss)) at 2.
    rewrite (modern_run r ce c envs ss Hh Hseg fs nfs st bss He Hc Hm Hcomp Htg Hacc Henc).
    rewrite rx_run_nil. cbn. rewrite app_nil_r. reflexivity.
  Qed.

  (* a header that does not decode (from the first fc_hlen accumulated bytes) aborts the connection *)
  Lemma bad_header_aborts r (st : conn) p bs rest :
    c_modern st = true -> c_target st = 0 -> seg_law (c_comp st) false p bs ->
    fc_hlen fc <= zlen (c_acc st ++ p) -> fc_dec_hdr fc (c_acc st ++ p) = DErr ->
    rx_step r st (bs ++ rest) = (set_acc st 0 (c_acc st ++ p), [], RxAbort, rest).
  Proof.
    intros Hm Ht Hsl Hlen Hd. unfold Conn.rx_step. rewrite Hm, (read_segment_law r st false p bs rest Hsl).
    unfold Conn.add_multi. rewrite Ht. cbn [Z.eqb andb]. replace (fc_hlen fc <=? zlen (c_acc st ++ p)) with true by lia.
    rewrite Hd. reflexivity.
  Qed.

  (* ---------------------------------------------------------------------------------------------- (3) transmit *)
  (* legacy layout: the frame as handed over by outgoingLoop, encoded by the connection's frame codec, nothing else *)
  Theorem tx_legacy r (st : conn) f :
    c_modern st = false ->
    tx_frame r st f =
    (match r with Server => maybe_switch fc st (tx_pre fc r st f) | Client => st end,
     fc_enc fc (c_comp st) (tx_pre fc r st f)).
  Proof.
    intro Hm. unfold Conn.tx_frame, Conn.write_frame. rewrite Hm. destruct r; [reflexivity|].
    f_equal. unfold maybe_switch. destruct (negb (c_modern st) && fc_switch fc (tx_pre fc Server st f)); reflexivity.
  Qed.

  Lemma maybe_switch_modern (st : conn) f : c_modern st = true -> maybe_switch fc st f = st.
  Proof. intro Hm. unfold maybe_switch. rewrite Hm. reflexivity. Qed.

  (* modern layout: ONE self-contained segment whose payload is exactly ONE envelope, the envelope of the frame with
     its compression flag cleared, encoded without body compression being involved; the state does not change.
     Seen by any reader of the segment format: a self-contained segment; its payload starts with a header whose
     compression bit is clear and whose declared length is the whole payload. *)
  Theorem tx_modern_conformance r (st : conn) f env nf segb :
    c_modern st = true ->
    fc_compressed fc (fc_clear fc (tx_pre fc r st f)) = false ->
    frame_law (c_comp st) (c_comp st) (fc_clear fc (tx_pre fc r st f)) env nf ->
    seg_law (c_comp st) true env segb ->
    tx_frame r st f = (st, Ok segb) /\
    (forall rest, sc_dec sc (c_comp st) (segb ++ rest) = Ok ((true, env), rest)) /\
    (exists h rest', fc_dec_hdr fc env = DOk h rest' /\ fc_hcomp fc h = false /\ fc_target fc h = zlen env).
  Proof.
    intros Hm Hclr Hl Hsl. split; [|split].
    - unfold Conn.tx_frame, Conn.write_segment, Conn.write_frame. rewrite Hm.
      assert (Hst : match r with Server => maybe_switch fc st (fc_clear fc (tx_pre fc r st f)) | Client => st end = st)
        by (destruct r; [reflexivity|apply maybe_switch_modern; exact Hm]).
      rewrite Hst. destruct Hl as (-> & _). destruct Hsl as (-> & _). reflexivity.
    - destruct Hsl as (_ & _ & Hd). exact Hd.
    - destruct Hl as (_ & _ & _ & (hb & body & h & -> & Hhl & Hhd & Ht & Hc) & _).
      destruct (Hhd body) as (rest' & Hd). exists h, rest'. repeat split; [exact Hd| |exact Ht].
      rewrite Hc. exact Hclr.
  Qed.

  (* modern layout, an envelope the segment encoder refuses (more than 131071 bytes): nothing is written and the
     connection is aborted - the code has no path that splits an outgoing envelope *)
  Theorem tx_modern_refuses r (st : conn) f env :
    c_modern st = true ->
    fc_enc fc (c_comp st) (fc_clear fc (tx_pre fc r st f)) = Ok env ->
    sc_enc sc (c_comp st) true env = Err ->
    tx_frame r st f = (st, Err).
  Proof.
    intros Hm He Hs. unfold Conn.tx_frame, Conn.write_segment, Conn.write_frame. rewrite Hm.
    assert (Hst : match r with Server => maybe_switch fc st (fc_clear fc (tx_pre fc r st f)) | Client => st end = st)
      by (destruct r; [reflexivity|apply maybe_switch_modern; exact Hm]).
    rewrite Hst, He, Hs. reflexivity.
  Qed.

  (* what one end writes in modern layout is read back by the other end: frame by frame, any number of frames *)
  Inductive tx_script (r : role) (c : C) : list F -> list (list Z) -> list F -> list (list Z) -> Prop :=
  | txs_nil : tx_script r c [] [] [] []
  | txs_cons f env nf segb fs envs nfs segbs :
      (forall st : conn, c_comp st = c -> fc_clear fc (tx_pre fc r st f) = fc_clear fc (tx_pre fc r (mkConn true c 0 []) f)) ->
      frame_law c c (fc_clear fc (tx_pre fc r (mkConn true c 0 []) f)) env nf ->
      zlen env <= max_payload -> seg_law c true env segb ->
      tx_script r c fs envs nfs segbs -> tx_script r c (f :: fs) (env :: envs) (nf :: nfs) (segb :: segbs).

  Lemma tx_script_wire r c fs envs nfs segbs (st : conn) :
    tx_script r c fs envs nfs segbs -> c_modern st = true -> c_comp st = c ->
    tx_all r st fs = (st, Ok (concat segbs)).
  Proof.
    induction 1 as [|f env nf segb fs envs nfs segbs Hpre Hl Hsz Hsl Hrest IH]; intros Hm Hc; [reflexivity|].
    cbn [Conn.tx_all concat].
    assert (Ht : tx_frame r st f = (st, Ok segb)).
    { unfold Conn.tx_frame, Conn.write_segment, Conn.write_frame. rewrite Hm.
      assert (Hst : match r with Server => maybe_switch fc st (fc_clear fc (tx_pre fc r st f)) | Client => st end = st)
        by (destruct r; [reflexivity|apply maybe_switch_modern; exact Hm]).
      rewrite Hst, (Hpre st Hc), Hc. destruct Hl as (-> & _). destruct Hsl as (-> & _). reflexivity. }
    rewrite Ht, (IH Hm Hc). reflexivity.
  Qed.

  Lemma one_per_segment envs : Forall (fun e => zlen e <= max_payload) envs ->
    segmentation envs (map WSelf envs).
  Proof.
    induction 1 as [|e envs He _ IH]; [constructor|]. cbn [map].
    change (e :: envs) with ([e] ++ envs). replace (WSelf e) with (WSelf (concat [e])) by (cbn; rewrite app_nil_r; reflexivity).
    constructor; [cbn; rewrite app_nil_r; exact He|exact IH].
  Qed.

  Theorem tx_rx_modern rs rr c fs envs nfs segbs (snd rcv : conn) :
    0 < fc_hlen fc ->
    tx_script rs c fs envs nfs segbs -> Forall (calm rr) nfs ->
    c_modern snd = true -> c_comp snd = c ->
    c_modern rcv = true -> c_comp rcv = c -> c_target rcv = 0 -> c_acc rcv = [] ->
    exists wire, tx_all rs snd fs = (snd, Ok wire) /\ rx_all rr rcv wire = (rcv, nfs, RxOk).
  Proof.
    intros Hh Hs Hcalm Hm1 Hc1 Hm2 Hc2 Ht Ha. exists (concat segbs). split; [apply (tx_script_wire _ _ _ _ _ _ _ Hs Hm1 Hc1)|].
    apply (modern_delivery rr c c (map (fun f => fc_clear fc (tx_pre fc rs (mkConn true c 0 []) f)) fs) envs nfs (map WSelf envs) segbs rcv);
      try assumption.
    - clear -Hs. induction Hs; cbn [map]; constructor; assumption.
    - eapply Forall_impl; [|exact Hcalm]. intros a Ha'. apply calm_calm_modern. exact Ha'.
    - apply one_per_segment. clear -Hs. induction Hs; constructor; assumption.
    - clear -Hs. induction Hs; cbn [map]; constructor; [|assumption]. cbn [ws_self ws_payload]. assumption.
  Qed.

  (* ---------------------------------------------------------------------------------------------- (4) the switch *)
  (* the layout of an end is changed by nothing but these two events *)
  Lemma tx_modern_flag r (st : conn) f :
    c_modern (fst (tx_frame r st f)) =
    match r with Server => c_modern st || fc_switch fc (tx_pre fc r st f) | Client => c_modern st end.
  Proof.
    unfold Conn.tx_frame, Conn.write_segment, Conn.write_frame. destruct (c_modern st) eqn:Hm.
    - destruct r.
      + destruct (fc_enc fc (c_comp st) (fc_clear fc (tx_pre fc Client st f))); exact Hm.
      + rewrite maybe_switch_modern by exact Hm.
        destruct (fc_enc fc (c_comp st) (fc_clear fc (tx_pre fc Server st f))); exact Hm.
    - destruct r; [exact Hm|]. cbn [fst]. unfold maybe_switch. rewrite Hm. cbn [negb andb orb].
      destruct (fc_switch fc (tx_pre fc Server st f)); [reflexivity|exact Hm].
  Qed.

  Lemma tx_keeps r (st : conn) f :
    c_comp (fst (tx_frame r st f)) = c_comp st /\ c_target (fst (tx_frame r st f)) = c_target st /\
    c_acc (fst (tx_frame r st f)) = c_acc st.
  Proof.
    assert (Hms : forall g, c_comp (maybe_switch fc st g) = c_comp st /\ c_target (maybe_switch fc st g) = c_target st /\
                            c_acc (maybe_switch fc st g) = c_acc st).
    { intro g. unfold maybe_switch. destruct (negb (c_modern st) && fc_switch fc g); repeat split; reflexivity. }
    unfold Conn.tx_frame, Conn.write_segment, Conn.write_frame. destruct (c_modern st); destruct r; cbn [fst].
    - destruct (fc_enc fc (c_comp st) (fc_clear fc (tx_pre fc Client st f))); repeat split; reflexivity.
    - destruct (fc_enc fc (c_comp (maybe_switch fc st (fc_clear fc (tx_pre fc Server st f)))) (fc_clear fc (tx_pre fc Server st f)));
        apply Hms.
    - repeat split; reflexivity.
    - apply Hms.
  Qed.

  (* one frame travelling in legacy layout from an end whose codec compresses with ce to an end that decodes with cd *)
  Definition legacy_hop (ce cd : C) (r : role) (snd : conn) (f : F) (nf : F) : Prop :=
    exists bs, frame_law ce cd (tx_pre fc r snd f) bs nf.
  (* ... in modern layout (both ends use the same compression) *)
  Definition modern_hop (c : C) (r : role) (snd : conn) (f : F) (nf : F) : Prop :=
    exists env segb, frame_law c c (fc_clear fc (tx_pre fc r snd f)) env nf /\ seg_law c true env segb.

  Definition idle (st : conn) : Prop := c_target st = 0 /\ c_acc st = [].

  Lemma rx_all_one r (st st1 : conn) bs fs : bs <> [] ->
    rx_step r st (bs ++ []) = (st1, fs, RxOk, []) -> rx_all r st bs = (st1, fs, RxOk).
  Proof.
    intros Hne Hs. unfold Conn.rx_all. rewrite <- (app_nil_r bs) at 2.
    rewrite (rx_run_step _ r st st1 bs [] fs Hne Hs). rewrite rx_run_nil. cbn. rewrite app_nil_r. reflexivity.
  Qed.

  Lemma maybe_switch_keeps (st : conn) g :
    c_comp (maybe_switch fc st g) = c_comp st /\ c_target (maybe_switch fc st g) = c_target st /\
    c_acc (maybe_switch fc st g) = c_acc st /\ c_modern (maybe_switch fc st g) = (c_modern st || fc_switch fc g).
  Proof.
    unfold maybe_switch. destruct (c_modern st) eqn:Hm; cbn [negb andb orb]; [repeat split; exact Hm|].
    destruct (fc_switch fc g); repeat split; exact Hm.
  Qed.

  (* server -> client, both ends in the same layout: the frame arrives; the server switches (when it writes) iff the
     client switches (when it reads) *)
  Theorem s2c_step (cl sv : conn) f nf :
    c_modern cl = c_modern sv -> idle cl ->
    (if c_modern sv then c_comp cl = c_comp sv /\ modern_hop (c_comp sv) Server sv f nf
     else legacy_hop (c_comp sv) (c_comp cl) Server sv f nf) ->
    fc_fatal fc nf = false ->
    transmit fc sc Server Client sv cl f =
      (maybe_switch fc sv (tx_pre fc Server sv f), maybe_switch fc cl nf, [nf], RxOk) /\
    c_modern (maybe_switch fc cl nf) = c_modern (maybe_switch fc sv (tx_pre fc Server sv f)).
  Proof.
    intros Hsync [Hit Hia] Hhop Hnf.
    unfold Conn.transmit. destruct (c_modern sv) eqn:Hm.
    - destruct Hhop as (Hcc & env & segb & Hl & Hsl).
      assert (Htx : tx_frame Server sv f = (sv, Ok segb)).
      { unfold Conn.tx_frame, Conn.write_segment, Conn.write_frame. rewrite Hm.
        rewrite maybe_switch_modern by exact Hm. destruct Hl as (-> & _). destruct Hsl as (-> & _). reflexivity. }
      rewrite Htx.
      assert (Hrx : rx_all Client cl segb = (cl, [nf], RxOk)).
      { pose proof Hsl as (_ & Hbne & _). apply (rx_all_one Client cl cl segb [nf] Hbne).
        unfold Conn.rx_step. rewrite Hsync.
        rewrite (read_segment_law Client cl true env segb [] ltac:(rewrite Hcc; exact Hsl)).
        pose proof Hl as (_ & Hene & _).
        rewrite read_sc_unfold by exact Hene.
        rewrite <- (app_nil_r env) at 1.
        rewrite (read_frame_law Client cl (c_comp sv) _ env nf [] ltac:(rewrite Hcc; exact Hl)).
        rewrite Hnf, read_sc_nil. rewrite maybe_switch_modern by exact Hsync. reflexivity. }
      rewrite Hrx. rewrite !maybe_switch_modern by assumption. split; [reflexivity|]. rewrite Hsync, Hm. reflexivity.
    - destruct Hhop as (bs & Hl).
      set (sv1 := maybe_switch fc sv (tx_pre fc Server sv f)).
      assert (Htx : tx_frame Server sv f = (sv1, Ok bs)).
      { unfold Conn.tx_frame, Conn.write_frame. rewrite Hm. fold sv1.
        destruct (maybe_switch_keeps sv (tx_pre fc Server sv f)) as (Hk & _). fold sv1 in Hk. rewrite Hk.
        destruct Hl as (-> & _). reflexivity. }
      rewrite Htx.
      assert (Hrx : rx_all Client cl bs = (maybe_switch fc cl nf, [nf], RxOk)).
      { pose proof Hl as (_ & Hbne & _). apply (rx_all_one Client cl _ bs [nf] Hbne).
        unfold Conn.rx_step. rewrite Hsync.
        rewrite (read_frame_law Client cl (c_comp sv) _ bs nf [] Hl). rewrite Hnf. reflexivity. }
      rewrite Hrx. split; [reflexivity|].
      assert (Hsw : fc_switch fc nf = fc_switch fc (tx_pre fc Server sv f)) by (destruct Hl as (_ & _ & _ & _ & Hs & _); exact Hs).
      destruct (maybe_switch_keeps cl nf) as (_ & _ & _ & ->).
      unfold sv1. destruct (maybe_switch_keeps sv (tx_pre fc Server sv f)) as (_ & _ & _ & ->).
      rewrite Hsync, Hm, Hsw. reflexivity.
  Qed.

  (* client -> server, both ends in the same layout: the frame arrives, the server adopts the compression of a STARTUP,
     and no end changes its layout *)
  Theorem c2s_step (cl sv : conn) f nf :
    c_modern cl = c_modern sv -> idle sv ->
    (if c_modern cl then c_comp sv = c_comp cl /\ modern_hop (c_comp cl) Client cl f nf
     else legacy_hop (c_comp cl) (c_comp sv) Client cl f nf) ->
    transmit fc sc Client Server cl sv f = (cl, adopt fc sv nf, [nf], RxOk).
  Proof.
    intros Hsync [Hit Hia] Hhop. unfold Conn.transmit. destruct (c_modern cl) eqn:Hm.
    - destruct Hhop as (Hcc & env & segb & Hl & Hsl).
      assert (Htx : tx_frame Client cl f = (cl, Ok segb)).
      { unfold Conn.tx_frame, Conn.write_segment, Conn.write_frame. rewrite Hm.
        destruct Hl as (-> & _). destruct Hsl as (-> & _). reflexivity. }
      rewrite Htx.
      assert (Hrx : rx_all Server sv segb = (adopt fc sv nf, [nf], RxOk)).
      { pose proof Hsl as (_ & Hbne & _). apply (rx_all_one Server sv _ segb [nf] Hbne).
        unfold Conn.rx_step. rewrite <- Hsync.
        rewrite (read_segment_law Server sv true env segb [] ltac:(rewrite Hcc; exact Hsl)).
        pose proof Hl as (_ & Hene & _).
        rewrite read_sc_unfold by exact Hene.
        rewrite <- (app_nil_r env) at 1.
        rewrite (read_frame_law Server sv (c_comp cl) _ env nf [] ltac:(rewrite Hcc; exact Hl)).
        rewrite read_sc_nil. reflexivity. }
      rewrite Hrx. reflexivity.
    - destruct Hhop as (bs & Hl).
      assert (Htx : tx_frame Client cl f = (cl, Ok bs)).
      { unfold Conn.tx_frame, Conn.write_frame. rewrite Hm. destruct Hl as (-> & _). reflexivity. }
      rewrite Htx.
      assert (Hrx : rx_all Server sv bs = (adopt fc sv nf, [nf], RxOk)).
      { pose proof Hl as (_ & Hbne & _). apply (rx_all_one Server sv _ bs [nf] Hbne).
        unfold Conn.rx_step. rewrite <- Hsync.
        rewrite (read_frame_law Server sv (c_comp cl) _ bs nf [] Hl). reflexivity. }
      rewrite Hrx. reflexivity.
  Qed.

  Lemma adopt_keeps (st : conn) g :
    c_modern (adopt fc st g) = c_modern st /\ c_target (adopt fc st g) = c_target st /\ c_acc (adopt fc st g) = c_acc st.
  Proof. unfold adopt. destruct (fc_startup fc g); repeat split; reflexivity. Qed.

  (* a lock-step session: every event is one frame that travels under the laws, in the layout both ends are in when it
     is written (the handshake of handshake.go is such a session: each side waits for the other's frame) *)
  Inductive session : Conn.ends C -> list (Conn.ev F) -> list (bool * F) -> Conn.ends C -> Prop :=
  | ses_nil e : session e [] [] e
  | ses_c2s cl sv f nf xs d e' :
      (if c_modern cl then c_comp sv = c_comp cl /\ modern_hop (c_comp cl) Client cl f nf
       else legacy_hop (c_comp cl) (c_comp sv) Client cl f nf) ->
      session (mkEnds cl (adopt fc sv nf)) xs d e' ->
      session (mkEnds cl sv) (C2S f :: xs) ((true, nf) :: d) e'
  | ses_s2c cl sv f nf xs d e' :
      (if c_modern sv then c_comp cl = c_comp sv /\ modern_hop (c_comp sv) Server sv f nf
       else legacy_hop (c_comp sv) (c_comp cl) Server sv f nf) ->
      fc_fatal fc nf = false ->
      session (mkEnds (maybe_switch fc cl nf) (maybe_switch fc sv (tx_pre fc Server sv f))) xs d e' ->
      session (mkEnds cl sv) (S2C f :: xs) ((false, nf) :: d) e'.

  (* the frames delivered to the client that trigger the switch *)
  Definition switches (d : list (bool * F)) : bool :=
    existsb (fun x => negb (fst x) && fc_switch fc (snd x)) d.

  (* (4) in a lock-step session that starts with both ends in the same layout, every frame is delivered intact to the
     other end, both ends are in the same layout at every frame boundary, and they are in modern layout at the end
     iff they were at the start or a frame for which the switch applies (READY / AUTHENTICATE of a version with
     modern framing) went from the server to the client *)
  Theorem session_sync e xs d e' :
    session e xs d e' ->
    c_modern (e_cl e) = c_modern (e_sv e) -> idle (e_cl e) -> idle (e_sv e) ->
    joint_run fc sc e xs = (e', d, RxOk) /\
    c_modern (e_cl e') = c_modern (e_sv e') /\
    c_modern (e_sv e') = (c_modern (e_sv e) || switches d) /\
    idle (e_cl e') /\ idle (e_sv e').
  Proof.
    induction 1 as [e|cl sv f nf xs d e' Hhop Hs IH|cl sv f nf xs d e' Hhop Hnf Hs IH]; cbn [e_cl e_sv]; intros Hsync Hic His.
    - split; [reflexivity|]. split; [exact Hsync|]. split; [unfold switches; cbn [existsb]; rewrite orb_false_r; reflexivity|]. split; assumption.
    - cbn [Conn.joint_run Conn.joint_step e_cl e_sv].
      rewrite (c2s_step cl sv f nf Hsync His Hhop). cbn [map].
      destruct (adopt_keeps sv nf) as (Ha1 & Ha2 & Ha3).
      destruct IH as (IH1 & IH2 & IH3 & IH4 & IH5); cbn [e_cl e_sv].
      + rewrite Ha1. exact Hsync.
      + exact Hic.
      + destruct His as [H1 H2]. split; congruence.
      + rewrite IH1. cbn [app]. split; [reflexivity|]. split; [exact IH2|]. split; [|split; assumption].
        cbn [e_sv] in IH3. rewrite IH3, Ha1. unfold switches. cbn [existsb fst negb andb orb]. reflexivity.
    - cbn [Conn.joint_run Conn.joint_step e_cl e_sv].
      destruct (s2c_step cl sv f nf Hsync Hic Hhop Hnf) as [Ht Hm]. rewrite Ht. cbn [map].
      destruct (maybe_switch_keeps cl nf) as (Hc1 & Hc2 & Hc3 & Hc4).
      destruct (maybe_switch_keeps sv (tx_pre fc Server sv f)) as (Hs1 & Hs2 & Hs3 & Hs4).
      destruct IH as (IH1 & IH2 & IH3 & IH4 & IH5); cbn [e_cl e_sv].
      + exact Hm.
      + destruct Hic as [H1 H2]. split; congruence.
      + destruct His as [H1 H2]. split; congruence.
      + rewrite IH1. cbn [app]. split; [reflexivity|]. split; [exact IH2|]. split; [|split; assumption].
        cbn [e_sv] in IH3. rewrite IH3. unfold switches. cbn [existsb fst snd negb andb].
        rewrite <- Hm, Hc4, Hsync. rewrite orb_assoc. reflexivity.
  Qed.
End Abstract.

(* ================================================================================================ Part B *)
(* ------------------------------------------------------------------------------------------------ segments *)
Lemma segmentation_small envs ss :
  segmentation envs ss -> Forall (fun w => zlen (ws_payload w) <= max_payload) ss.
Proof.
  induction 1 as [|es1 es2 ss Hsz _ IH|e ps es ss _ Hparts _ IH]; [constructor|constructor; assumption|].
  apply Forall_app. split; [|exact IH]. apply Forall_map. cbn [ws_payload]. exact Hparts.
Qed.

Lemma seg_encoded_wire {C} (sc : scodec C) c ss bss : seg_encoded sc c ss bss -> encode_wire sc c ss = Ok (concat bss).
Proof.
  induction 1 as [|w bs ws bss (He & _) _ IH]; [reflexivity|]. cbn [encode_wire concat]. rewrite He, IH. reflexivity.
Qed.

Lemma seg_law_plain lz4p c s p : payload_comp lz4p c = None -> bytes_ok p -> zlen p <= max_payload ->
  exists bs, seg_law (seg_sc lz4p) c s p bs.
Proof.
  intros Hc Hb Hl. change max_payload with 131071 in Hl. unfold zlen in Hl.
  destruct (roundtrip_none s p [] Hb Hl) as (bs & He & Hd0). exists bs.
  unfold seg_law. cbn [sc_enc sc_dec seg_sc]. rewrite Hc. split; [exact He|]. split.
  - intros ->. cbn [app] in Hd0. assert (E : decode_segment None [] = Err) by reflexivity. rewrite E in Hd0. discriminate.
  - intro rest. destruct (roundtrip_none s p rest Hb Hl) as (bs' & He' & Hd). assert (bs' = bs) by congruence. subst bs'.
    rewrite Hd. reflexivity.
Qed.

Lemma seg_law_lz4 lz4p s p : bytes_ok p -> zlen p <= max_payload -> comp_contract lz4p p ->
  exists bs, seg_law (seg_sc lz4p) CLz4 s p bs.
Proof.
  intros Hb Hl Hk. change max_payload with 131071 in Hl. unfold zlen in Hl.
  destruct (roundtrip_comp lz4p s p [] Hb Hl Hk) as (bs & cp & Hc & He & hd & tr & Hd0). exists bs.
  unfold seg_law. cbn [sc_enc sc_dec seg_sc payload_comp]. split; [exact He|]. split.
  - intros ->. cbn [app] in Hd0. assert (E : decode_segment (Some lz4p) [] = Err) by reflexivity. rewrite E in Hd0. discriminate.
  - intro rest. destruct (roundtrip_comp lz4p s p rest Hb Hl Hk) as (bs' & cp' & Hc' & He' & hd' & tr' & Hd).
    assert (bs' = bs) by congruence. subst bs'. rewrite Hd. reflexivity.
Qed.

(* what is asked of the bytes of a segment: they are bytes, and if LZ4 was negotiated the payload compressor honours
   its contract (SegmentProofs.comp_contract, C08) on this payload *)
Definition payload_ok (lz4p : Segment.compressor) (c : compr) (p : list Z) : Prop :=
  bytes_ok p /\ (c = CLz4 -> comp_contract lz4p p).

Lemma seg_encoded_exists lz4p c ss :
  Forall (fun w => zlen (ws_payload w) <= max_payload) ss -> Forall (fun w => payload_ok lz4p c (ws_payload w)) ss ->
  exists bss, seg_encoded (seg_sc lz4p) c ss bss.
Proof.
  induction ss as [|w ss IH]; intros Hs Hp; [exists []; constructor|].
  inversion Hs as [|? ? Hs1 Hs2]; subst. inversion Hp as [|? ? [Hb Hk] Hp2]; subst.
  destruct (IH Hs2 Hp2) as (bss & Hbss).
  assert (Hl : exists bs, seg_law (seg_sc lz4p) c (ws_self w) (ws_payload w) bs).
  { destruct c; [apply seg_law_plain; [reflexivity|assumption|assumption]
                |apply seg_law_lz4; [assumption|assumption|apply Hk; reflexivity]
                |apply seg_law_plain; [reflexivity|assumption|assumption]
                |apply seg_law_plain; [reflexivity|assumption|assumption]]. }
  destruct Hl as (bs & Hbs). exists (bs :: bss). constructor; assumption.
Qed.

(* the segment encoder refuses what does not fit (SegmentProofs.encode_refuses_long) *)
Lemma seg_sc_refuses lz4p c s p : zlen p > max_payload -> sc_enc (seg_sc lz4p) c s p = Err.
Proof. intro H. cbn [sc_enc seg_sc]. apply encode_refuses_long. exact H. Qed.

(* ------------------------------------------------------------------------------------------------ raw frames *)
Definition dummy_mc : msg_codec :=
  {| mc_encode := fun _ _ => Err; mc_length := fun _ _ => Err; mc_decode := fun _ _ => rfail |}.

Lemma raw_decode h body rest : header_ok h -> h_BodyLength h = zlen body ->
  decode_raw_frame ((hdr_bytes h ++ body) ++ rest) = DOk {| rf_Header := h; rf_Body := Some body |} rest.
Proof. apply (raw_frame_of_bytes dummy_mc (fun _ _ => False) (fun _ m => m)); intros; contradiction. Qed.

(* a raw frame as the codecs produce it: valid header of a version with 9-byte headers, declared length = body length *)
Definition raw_ok (rf : RawFrame) : Prop :=
  header_ok (rf_Header rf) /\ 3 <= h_Version (rf_Header rf) /\
  exists body, rf_Body rf = Some body /\ h_BodyLength (rf_Header rf) = zlen body /\ zlen body < 2147483648 - 9.

Definition raw_env (rf : RawFrame) : list Z := hdr_bytes (rf_Header rf) ++ olist (rf_Body rf).

Lemma wrap_i32_id x : 0 <= x < 2147483648 -> wrap_i 32 x = x.
Proof. intro H. change (wrap_i 32 x) with (wrap_i32 x). apply wrap_i32_small. exact H. Qed.

Lemma raw_frame_law ce cd rf : raw_ok rf -> frame_law raw_fc ce cd rf (raw_env rf) rf.
Proof.
  destruct rf as [h b]. unfold raw_ok, raw_env. cbn [rf_Header rf_Body].
  intros (Hh & Hv & body & -> & Hl & Hsz). cbn [olist].
  pose proof (zlen_nonneg body) as Hb0.
  assert (Hgeb : Z.geb (h_Version h) 3 = true) by lia.
  assert (Hhl : zlen (hdr_bytes h) = 9) by (rewrite hdr_len, Hgeb; reflexivity).
  unfold frame_law. cbn [fc_enc fc_dec fc_dec_hdr fc_target fc_hlen fc_hcomp fc_compressed fc_switch fc_startup fc_fatal raw_fc].
  split; [|split; [|split; [|split]]].
  - unfold encode_raw_frame. cbn [rf_Header rf_Body olist with_body_length h_Version].
    destruct Hh as (Hsup & Hrest). rewrite (supported_check _ Hsup). cbn [wguard]. rewrite wapp_nil_l.
    rewrite wrap_i32_id by lia.
    assert (Hw : with_body_length h (zlen body) = h) by (destruct h; cbn in *; subst; reflexivity).
    fold (with_body_length h (zlen body)). rewrite Hw.
    rewrite (encode_header_ok h (conj Hsup Hrest)). reflexivity.
  - intro E. apply (f_equal (@zlen Z)) in E. rewrite zlen_app, Hhl, zlen_nil in E. lia.
  - intro rest. apply raw_decode; assumption.
  - exists (hdr_bytes h), body, h. split; [reflexivity|]. split; [exact Hhl|]. split; [|split].
    + intro rest. exists rest. apply decode_header_app. exact Hh.
    + unfold hdr_target. change FrameHeaderLengthV3AndHigher with 9. rewrite Hl, zlen_app, Hhl. apply wrap_i32_id. lia.
    + reflexivity.
  - repeat split; reflexivity.
Qed.

Lemma enveloped_raw ce cd rfs : Forall raw_ok rfs -> enveloped raw_fc ce cd rfs (map raw_env rfs) rfs.
Proof. induction 1 as [|rf rfs H _ IH]; cbn [map]; constructor; [apply raw_frame_law; exact H|exact IH]. Qed.

(* (2) for raw frames over the segment codec of model/Segment.v: closed - every law is discharged by FrameProofs /
   SegmentProofs; with LZ4 the payload compressor's contract (C08) is asked of every payload *)
Theorem modern_delivery_raw r c lz4p rfs ss (st : conn compr) :
  Forall raw_ok rfs -> Forall (calm_modern raw_fc r) rfs ->
  segmentation (map raw_env rfs) ss -> Forall (fun w => payload_ok lz4p c (ws_payload w)) ss ->
  c_modern st = true -> c_comp st = c -> c_target st = 0 -> c_acc st = [] ->
  exists wire, encode_wire (seg_sc lz4p) c ss = Ok wire /\
               rx_all raw_fc (seg_sc lz4p) r st wire = (st, rfs, RxOk).
Proof.
  intros Hok Hcalm Hseg Hp Hm Hc Ht Ha.
  destruct (seg_encoded_exists lz4p c ss (segmentation_small _ _ Hseg) Hp) as (bss & Henc).
  exists (concat bss). split; [apply seg_encoded_wire; exact Henc|].
  apply (modern_delivery raw_fc (seg_sc lz4p) r c c rfs (map raw_env rfs) rfs ss bss st); try assumption; [reflexivity|].
  apply enveloped_raw. exact Hok.
Qed.

(* (2') ONE self-contained segment: any number of whole envelopes, then an envelope that is a BARE HEADER (empty body:
   OPTIONS, READY - the payload ends with its 9 bytes, or consists of nothing else when rfs = []): every envelope is
   delivered, the bare header last.  The loop of readSelfContainedSegment runs while ANY byte is unread (sc_more); a loop
   that stopped at "no more than a header's worth unread" would lose exactly this envelope. *)
Theorem header_only_tail_delivered r c lz4p rfs rf (st : conn compr) :
  Forall raw_ok (rfs ++ [rf]) -> Forall (calm_modern raw_fc r) (rfs ++ [rf]) -> olist (rf_Body rf) = [] ->
  let p := concat (map raw_env rfs) ++ hdr_bytes (rf_Header rf) in
  zlen p <= max_payload -> payload_ok lz4p c p ->
  c_modern st = true -> c_comp st = c -> c_target st = 0 -> c_acc st = [] ->
  zlen (hdr_bytes (rf_Header rf)) = 9 /\
  exists wire, encode_wire (seg_sc lz4p) c [WSelf p] = Ok wire /\
               rx_all raw_fc (seg_sc lz4p) r st wire = (st, rfs ++ [rf], RxOk).
Proof.
  intros Hok Hcalm Hbody p Hsz Hp Hm Hc Ht Ha.
  assert (Hp' : p = concat (map raw_env (rfs ++ [rf]))).
  { unfold p. rewrite map_app, concat_app. cbn [map concat].
    change (raw_env rf) with (hdr_bytes (rf_Header rf) ++ olist (rf_Body rf)). rewrite Hbody, !app_nil_r. reflexivity. }
  split.
  - apply Forall_app in Hok. destruct Hok as [_ Hrf]. inversion Hrf as [|? ? (_ & Hv & _) _]; subst.
    rewrite hdr_len. replace (Z.geb (h_Version (rf_Header rf)) 3) with true by lia. reflexivity.
  - rewrite Hp' in *.
    apply (modern_delivery_raw r c lz4p (rfs ++ [rf]) [WSelf (concat (map raw_env (rfs ++ [rf])))] st); try assumption.
    + rewrite <- (app_nil_r (map raw_env (rfs ++ [rf]))) at 1. apply sg_self; [exact Hsz|constructor].
    + constructor; [exact Hp|constructor].
Qed.

(* (1) for raw frames *)
Theorem legacy_delivery_raw r lz4p rfs (st : conn compr) :
  Forall raw_ok rfs -> Forall (calm raw_fc r) rfs -> c_modern st = false ->
  rx_all raw_fc (seg_sc lz4p) r st (concat (map raw_env rfs)) = (st, rfs, RxOk).
Proof.
  intros Hok Hcalm Hm. apply (legacy_delivery raw_fc (seg_sc lz4p) r (c_comp st) st rfs (map raw_env rfs) rfs); try assumption.
  apply enveloped_raw. exact Hok.
Qed.

(* the layout switch applies to version 5 only *)
(* ---- the STARTUP compression option is not case-sensitive (server.go readFrame as of /repo 81d0138) *)
(* every way of writing an upper-case ASCII name with letters of either case *)
Fixpoint case_variants (u : list Z) : list (list Z) :=
  match u with
  | [] => [[]]
  | x :: r => let vs := case_variants r in
              map (cons x) vs ++ (if (65 <=? x) && (x <=? 90) then map (cons (x + 32)) vs else [])
  end.

Lemma compr_eqb_eq a b : compr_eqb a b = true -> a = b.
Proof. destruct a, b; cbn; intro H; try reflexivity; discriminate. Qed.

(* finite domains: the 8 spellings of LZ4, the 64 of SNAPPY, the 16 of NONE *)
Theorem startup_compression_any_case (b : list Z) :
  (In b (case_variants bytes_LZ4) -> compr_of_option b = CLz4) /\
  (In b (case_variants bytes_SNAPPY) -> compr_of_option b = CSnappy) /\
  (In b (case_variants bytes_NONE) -> compr_of_option b = CNone).
Proof.
  repeat split; intro H.
  - assert (A : forallb (fun x => compr_eqb (compr_of_option x) CLz4) (case_variants bytes_LZ4) = true) by (vm_compute; reflexivity).
    apply compr_eqb_eq. exact (proj1 (forallb_forall _ _) A b H).
  - assert (A : forallb (fun x => compr_eqb (compr_of_option x) CSnappy) (case_variants bytes_SNAPPY) = true) by (vm_compute; reflexivity).
    apply compr_eqb_eq. exact (proj1 (forallb_forall _ _) A b H).
  - assert (A : forallb (fun x => compr_eqb (compr_of_option x) CNone) (case_variants bytes_NONE) = true) by (vm_compute; reflexivity).
    apply compr_eqb_eq. exact (proj1 (forallb_forall _ _) A b H).
Qed.

(* "lz4", "snappy" (the spelling of the specifications) and mixed case are among them; another name is adopted as it is
   (no compressor: the flagged response cannot be encoded, the write fails, the connection ends) *)
Lemma ex_startup_spellings :
  In [108; 122; 52] (case_variants bytes_LZ4) /\ In [115; 110; 97; 112; 112; 121] (case_variants bytes_SNAPPY) /\
  In [115; 78; 97; 80; 112; 89] (case_variants bytes_SNAPPY) /\ length (case_variants bytes_SNAPPY) = 64%nat /\
  compr_of_option [122; 115; 116; 100] = COther.
Proof. vm_compute. repeat split; tauto. Qed.

Lemma switch_versions v : In v [2; 3; 4; 65; 66] -> ProtocolVersion_SupportsModernFramingLayout v = false.
Proof. cbn [In]. intros [<-|[<-|[<-|[<-|[<-|[]]]]]]; reflexivity. Qed.
Lemma switch_v5 : ProtocolVersion_SupportsModernFramingLayout 5 = true.
Proof. reflexivity. Qed.

(* ------------------------------------------------------------------------------------------------ frames of Frame.v *)
Section FrameInstance.
  Variable mc : msg_codec.
  Variable msg_ok : Z -> Message -> Prop.
  Variable msg_norm : Z -> Message -> Message.
  (* the per-message laws of FrameProofs.WithCodec (C01 / C03) *)
  Hypothesis H_rt : forall v m, supported v -> msg_ok v m ->
    exists mb, mc_encode mc v m = Ok mb /\ forall rest, mc_decode mc v (msg_opcode m) (mb ++ rest) = DOk (msg_norm v m) rest.
  Hypothesis H_len : forall v m mb, supported v -> msg_ok v m -> mc_encode mc v m = Ok mb -> mc_length mc v m = Ok (zlen mb).
  Variables lz4b snb : Frame.compressor.
  Variable fatal : Message -> bool.
  (* obligation on the message modules: the normal form of a message is a message of the same kind (READY stays READY,
     a STARTUP keeps its COMPRESSION option, an ERROR keeps its code) *)
  Hypothesis H_kind : forall v m, msg_ok v m ->
    msg_switch v (msg_norm v m) = msg_switch v m /\ msg_startup (msg_norm v m) = msg_startup m /\
    fatal (msg_norm v m) = fatal m.

  Definition ffc := frame_fc mc lz4b snb fatal.

  Definition cframe_normal (f : Frame) (n : Z) : Frame :=
    {| f_Header := with_body_length (f_Header f) n; f_Body := norm_body msg_norm (f_Header f) (f_Body f) |}.

  Lemma frame_kind f n : frame_ok msg_ok f ->
    fc_switch ffc (cframe_normal f n) = fc_switch ffc f /\ fc_startup ffc (cframe_normal f n) = fc_startup ffc f /\
    fc_fatal ffc (cframe_normal f n) = fc_fatal ffc f.
  Proof.
    intros (_ & _ & _ & _ & _ & _ & (_ & _ & _ & Hm)).
    cbn [fc_switch fc_startup fc_fatal ffc frame_fc cframe_normal f_Header f_Body with_body_length h_Version norm_body bd_Message].
    apply H_kind. exact Hm.
  Qed.

  (* an uncompressed frame (legacy layout without the flag, and every envelope inside a segment) *)
  Lemma frame_law_plain ce cd f mb :
    frame_ok msg_ok f -> 3 <= h_Version (f_Header f) ->
    has (h_Flags (f_Header f)) HeaderFlagCompressed = false ->
    mc_encode mc (h_Version (f_Header f)) (bd_Message (f_Body f)) = Ok mb ->
    zlen (body_bytes (f_Header f) (f_Body f) mb) < 2147483648 - 9 ->
    frame_law ffc ce cd f (encoded_plain f mb) (cframe_normal f (zlen (body_bytes (f_Header f) (f_Body f) mb))).
  Proof.
    intros Hok Hv Hnc Hmb Hsz.
    set (n := zlen (body_bytes (f_Header f) (f_Body f) mb)) in *.
    pose proof (zlen_nonneg (body_bytes (f_Header f) (f_Body f) mb)) as Hn0. fold n in Hn0.
    assert (Hn : in_i32 n) by (unfold in_i32; lia).
    pose proof (frame_header_ok mc msg_ok msg_norm H_rt H_len f n Hok Hn) as Hh.
    destruct (frame_roundtrip_plain mc msg_ok msg_norm H_rt H_len (body_comp lz4b snb ce) f mb Hok Hnc Hmb ltac:(fold n; lia)) as [He _].
    destruct (frame_roundtrip_plain mc msg_ok msg_norm H_rt H_len (body_comp lz4b snb cd) f mb Hok Hnc Hmb ltac:(fold n; lia)) as [_ Hd].
    assert (Hhl : zlen (hdr_bytes (with_body_length (f_Header f) n)) = 9).
    { rewrite hdr_len. cbn [with_body_length h_Version]. replace (Z.geb (h_Version (f_Header f)) 3) with true by lia. reflexivity. }
    unfold frame_law. cbn [fc_enc fc_dec fc_dec_hdr fc_target fc_hlen fc_hcomp fc_compressed ffc frame_fc].
    split; [exact He|]. split; [|split; [exact Hd|split]].
    - unfold encoded_plain. fold n. intro E. apply (f_equal (@zlen Z)) in E. rewrite zlen_app, Hhl, zlen_nil in E. lia.
    - exists (hdr_bytes (with_body_length (f_Header f) n)), (body_bytes (f_Header f) (f_Body f) mb), (with_body_length (f_Header f) n).
      split; [reflexivity|]. split; [exact Hhl|]. split; [|split].
      + intro rest. exists rest. apply decode_header_app. exact Hh.
      + unfold hdr_target, encoded_plain. cbn [with_body_length h_BodyLength]. change FrameHeaderLengthV3AndHigher with 9.
        fold n. rewrite zlen_app, Hhl. fold n. apply wrap_i32_id. lia.
      + reflexivity.
    - apply frame_kind. exact Hok.
  Qed.

  (* a compressed frame in legacy layout, both ends holding the same lossless body compressor k *)
  Lemma frame_law_compressed c k f mb y :
    body_comp lz4b snb c = Some k -> comp_lossless k ->
    frame_ok msg_ok f -> 3 <= h_Version (f_Header f) ->
    has (h_Flags (f_Header f)) HeaderFlagCompressed = true ->
    mc_encode mc (h_Version (f_Header f)) (bd_Message (f_Body f)) = Ok mb ->
    cmp_compress k (body_bytes (f_Header f) (f_Body f) mb) = Ok y -> zlen y < 2147483648 - 9 ->
    frame_law ffc c c f (hdr_bytes (with_body_length (f_Header f) (zlen y)) ++ y) (cframe_normal f (zlen y)).
  Proof.
    intros Hk Hloss Hok Hv Hc Hmb Hy Hsz.
    pose proof (zlen_nonneg y) as Hn0.
    assert (Hn : in_i32 (zlen y)) by (unfold in_i32; lia).
    pose proof (frame_header_ok mc msg_ok msg_norm H_rt H_len f (zlen y) Hok Hn) as Hh.
    destruct (frame_roundtrip_compressed mc msg_ok msg_norm H_rt H_len k f mb y Hok Hc Hloss Hmb Hy ltac:(lia)) as [He Hd].
    assert (Hhl : zlen (hdr_bytes (with_body_length (f_Header f) (zlen y))) = 9).
    { rewrite hdr_len. cbn [with_body_length h_Version]. replace (Z.geb (h_Version (f_Header f)) 3) with true by lia. reflexivity. }
    unfold frame_law. cbn [fc_enc fc_dec fc_dec_hdr fc_target fc_hlen fc_hcomp fc_compressed ffc frame_fc].
    rewrite Hk. split; [exact He|]. split; [|split; [exact Hd|split]].
    - intro E. apply (f_equal (@zlen Z)) in E. rewrite zlen_app, Hhl, zlen_nil in E. lia.
    - exists (hdr_bytes (with_body_length (f_Header f) (zlen y))), y, (with_body_length (f_Header f) (zlen y)).
      split; [reflexivity|]. split; [exact Hhl|]. split; [|split].
      + intro rest. exists rest. apply decode_header_app. exact Hh.
      + unfold hdr_target. cbn [with_body_length h_BodyLength]. change FrameHeaderLengthV3AndHigher with 9.
        rewrite zlen_app, Hhl. apply wrap_i32_id. lia.
      + reflexivity.
    - apply frame_kind. exact Hok.
  Qed.

  (* the frames that travel inside segments: version-valid (frame_ok), v3+ header, compression flag clear *)
  Definition envelope_ok (f : Frame) (mb : list Z) : Prop :=
    frame_ok msg_ok f /\ 3 <= h_Version (f_Header f) /\ has (h_Flags (f_Header f)) HeaderFlagCompressed = false /\
    mc_encode mc (h_Version (f_Header f)) (bd_Message (f_Body f)) = Ok mb /\
    zlen (body_bytes (f_Header f) (f_Body f) mb) < 2147483648 - 9.

  Inductive envelopes_ok : list Frame -> list (list Z) -> list Frame -> Prop :=
  | eo_nil : envelopes_ok [] [] []
  | eo_cons f mb fs envs nfs :
      envelope_ok f mb -> envelopes_ok fs envs nfs ->
      envelopes_ok (f :: fs) (encoded_plain f mb :: envs)
                   (cframe_normal f (zlen (body_bytes (f_Header f) (f_Body f) mb)) :: nfs).

  Lemma enveloped_frames ce cd fs envs nfs : envelopes_ok fs envs nfs -> enveloped ffc ce cd fs envs nfs.
  Proof.
    induction 1 as [|f mb fs envs nfs (H1 & H2 & H3 & H4 & H5) _ IH]; constructor; [|exact IH].
    apply frame_law_plain; assumption.
  Qed.

  (* (2) for the frames of model/Frame.v: every segmentation, under the per-message laws (H_rt, H_len: C01/C03), the
     kind obligation H_kind, and - with LZ4 - the payload compressor's contract on every payload *)
  Theorem modern_delivery_frames r c lz4p fs envs nfs ss (st : conn compr) :
    envelopes_ok fs envs nfs -> Forall (calm_modern ffc r) nfs ->
    segmentation envs ss -> Forall (fun w => payload_ok lz4p c (ws_payload w)) ss ->
    c_modern st = true -> c_comp st = c -> c_target st = 0 -> c_acc st = [] ->
    exists wire, encode_wire (seg_sc lz4p) c ss = Ok wire /\
                 rx_all ffc (seg_sc lz4p) r st wire = (st, nfs, RxOk).
  Proof.
    intros Hok Hcalm Hseg Hp Hm Hc Ht Ha.
    destruct (seg_encoded_exists lz4p c ss (segmentation_small _ _ Hseg) Hp) as (bss & Henc).
    exists (concat bss). split; [apply seg_encoded_wire; exact Henc|].
    apply (modern_delivery ffc (seg_sc lz4p) r c c fs envs nfs ss bss st); try assumption; [reflexivity|].
    apply enveloped_frames. exact Hok.
  Qed.

  (* (1) for the frames of model/Frame.v without the compression flag, any negotiated compression *)
  Theorem legacy_delivery_frames r lz4p fs envs nfs (st : conn compr) :
    envelopes_ok fs envs nfs -> Forall (calm ffc r) nfs -> c_modern st = false ->
    rx_all ffc (seg_sc lz4p) r st (concat envs) = (st, nfs, RxOk).
  Proof.
    intros Hok Hcalm Hm. apply (legacy_delivery ffc (seg_sc lz4p) r (c_comp st) st fs envs nfs); try assumption.
    apply enveloped_frames. exact Hok.
  Qed.

  (* (3) what either end writes in modern layout for a version-valid frame: one self-contained segment, one envelope,
     compression flag clear whatever the caller (or the server's outgoing loop) had set *)
  Lemma clear_not_compressed f : fc_compressed ffc (fc_clear ffc f) = false.
  Proof.
    cbn [fc_compressed fc_clear ffc frame_fc set_flags f_Header h_Flags]. unfold hdr_compressed. cbn [h_Flags].
    unfold has, HeaderFlag_Contains, HeaderFlag_Remove. change HeaderFlagCompressed with 1.
    rewrite Z.land_ldiff. reflexivity.
  Qed.
End FrameInstance.

Lemma raw_clear_not_compressed rf : fc_compressed raw_fc (fc_clear raw_fc rf) = false.
Proof.
  cbn [fc_compressed fc_clear raw_fc raw_set_flags rf_Header hdr_set_flags]. unfold hdr_compressed. cbn [h_Flags].
  unfold has, HeaderFlag_Contains, HeaderFlag_Remove. change HeaderFlagCompressed with 1.
  unfold hdr_set_flags. cbn [h_Flags]. rewrite Z.land_ldiff. reflexivity.
Qed.

(* ------------------------------------------------------------------------------------------------ corollaries *)
(* (3) an envelope of more than 131071 bytes cannot be sent in modern layout, by either end, with any frame codec:
   the segment encoder refuses it and the connection is aborted (nothing splits an outgoing envelope) *)
Theorem tx_modern_large_refused {F H} (fc : fcodec F H compr) lz4p r (st : conn compr) f env :
  c_modern st = true -> fc_enc fc (c_comp st) (fc_clear fc (tx_pre fc r st f)) = Ok env -> zlen env > max_payload ->
  tx_frame fc (seg_sc lz4p) r st f = (st, Err).
Proof. intros Hm He Hl. apply (tx_modern_refuses fc (seg_sc lz4p) r st f env Hm He). apply seg_sc_refuses. exact Hl. Qed.

(* (4) versions 2, 3, 4, DSE1, DSE2 never leave the legacy layout; version 5 enters the modern layout, at both ends, with
   the READY or AUTHENTICATE that the server sends (stated for raw frames: the class of a frame is its opcode) *)
Lemma switches_legacy_versions (d : list (bool * RawFrame)) :
  Forall (fun x => In (h_Version (rf_Header (snd x))) [2; 3; 4; 65; 66]) d -> switches raw_fc d = false.
Proof.
  induction 1 as [|x d Hx _ IH]; [reflexivity|]. unfold switches in *. cbn [existsb]. rewrite IH, orb_false_r.
  cbn [fc_switch raw_fc]. unfold hdr_switch. rewrite (switch_versions _ Hx). cbn [andb]. apply andb_false_r.
Qed.

Theorem session_legacy_versions_raw lz4p e xs d e' :
  session raw_fc (seg_sc lz4p) e xs d e' ->
  c_modern (e_cl e) = c_modern (e_sv e) -> idle (e_cl e) -> idle (e_sv e) ->
  Forall (fun x => In (h_Version (rf_Header (snd x))) [2; 3; 4; 65; 66]) d ->
  joint_run raw_fc (seg_sc lz4p) e xs = (e', d, RxOk) /\
  c_modern (e_sv e') = c_modern (e_sv e) /\ c_modern (e_cl e') = c_modern (e_sv e).
Proof.
  intros Hs Hsync Hic His Hv. destruct (session_sync raw_fc (seg_sc lz4p) e xs d e' Hs Hsync Hic His) as (H1 & H2 & H3 & _).
  rewrite (switches_legacy_versions d Hv), orb_false_r in H3. split; [exact H1|]. split; [exact H3|]. rewrite H2. exact H3.
Qed.

Theorem session_v5_switch_raw lz4p e xs d e' rf :
  session raw_fc (seg_sc lz4p) e xs d e' ->
  c_modern (e_cl e) = c_modern (e_sv e) -> idle (e_cl e) -> idle (e_sv e) ->
  In (false, rf) d -> h_Version (rf_Header rf) = 5 ->
  h_OpCode (rf_Header rf) = OpCodeReady \/ h_OpCode (rf_Header rf) = OpCodeAuthenticate ->
  joint_run raw_fc (seg_sc lz4p) e xs = (e', d, RxOk) /\ c_modern (e_sv e') = true /\ c_modern (e_cl e') = true.
Proof.
  intros Hs Hsync Hic His Hin Hv Hop.
  destruct (session_sync raw_fc (seg_sc lz4p) e xs d e' Hs Hsync Hic His) as (H1 & H2 & H3 & _).
  assert (Hsw : switches raw_fc d = true).
  { unfold switches. apply existsb_exists. exists (false, rf). split; [exact Hin|]. cbn [fst snd negb andb fc_switch raw_fc].
    unfold hdr_switch. rewrite Hv. cbn [andb]. change (ProtocolVersion_SupportsModernFramingLayout 5) with true. cbn [andb].
    destruct Hop as [-> | ->]; reflexivity. }
  rewrite Hsw, orb_true_r in H3. split; [exact H1|]. split; [exact H3|]. rewrite H2. exact H3.
Qed.

(* ------------------------------------------------------------------------------------------------ examples
   (non-vacuity: the hypotheses of the theorems above are met by concrete frames; used by props/C15.v) *)
Lemma raw_envelope_ok (v : Z) (resp : bool) (flags sid op : Z) (body : list Z) :
  In v [3; 4; 5; 65; 66] -> 0 <= flags < 256 -> -32768 <= sid < 32768 -> OpCode_IsValid op = true ->
  (if resp then OpCode_IsResponse op else OpCode_IsRequest op) = true -> dse_opcode_ok v op = true ->
  zlen body < 2147483648 - 9 ->
  raw_ok (raw_envelope v resp flags sid op body).
Proof.
  intros Hv Hf Hs Hop Hdir Hdse Hb. pose proof (zlen_nonneg body).
  assert (Hv3 : 3 <= v) by (cbn [In] in Hv; lia).
  unfold raw_ok, raw_envelope. cbn [rf_Header rf_Body h_Version h_BodyLength].
  split; [|split; [exact Hv3|]].
  - unfold header_ok. cbn [h_Version h_Flags h_StreamId h_OpCode h_IsResponse h_BodyLength].
    split; [unfold supported, spec_versions, V2, V3, V4, V5, DSE1, DSE2; cbn [In] in *; tauto|].
    split; [exact Hf|]. split; [replace (Z.geb v 3) with true by lia; exact Hs|]. split; [exact Hop|]. split; [exact Hdir|]. split; [exact Hdse|].
    unfold in_i32. lia.
  - exists body. repeat split; [exact Hb].
Qed.

Lemma raw_legacy_hop ce cd r (st : conn compr) rf :
  raw_ok (tx_pre raw_fc r st rf) -> legacy_hop raw_fc ce cd r st rf (tx_pre raw_fc r st rf).
Proof. intro H. exists (raw_env (tx_pre raw_fc r st rf)). apply raw_frame_law. exact H. Qed.

Lemma raw_modern_hop lz4p c r (st : conn compr) rf :
  payload_comp lz4p c = None ->
  raw_ok (fc_clear raw_fc (tx_pre raw_fc r st rf)) ->
  bytes_ok (raw_env (fc_clear raw_fc (tx_pre raw_fc r st rf))) ->
  zlen (raw_env (fc_clear raw_fc (tx_pre raw_fc r st rf))) <= max_payload ->
  modern_hop raw_fc (seg_sc lz4p) c r st rf (fc_clear raw_fc (tx_pre raw_fc r st rf)).
Proof.
  intros Hc Hok Hb Hl. destruct (seg_law_plain lz4p c true _ Hc Hb Hl) as (segb & Hs).
  exists (raw_env (fc_clear raw_fc (tx_pre raw_fc r st rf))), segb. split; [apply raw_frame_law; exact Hok|exact Hs].
Qed.

Ltac ex_raw_ok := apply raw_envelope_ok; [cbn [In]; tauto|lia|lia|reflexivity|reflexivity|reflexivity|vm_compute; reflexivity].
Ltac ex_bytes_ok := apply bytes_okb_ok; vm_compute; reflexivity.
Ltac ex_forall tac := repeat (first [apply Forall_nil | apply Forall_cons; [tac|]]).

Definition ex_sc := seg_sc never_worth.

(* (1) version 4, a server reading OPTIONS then QUERY written back to back *)
Definition ex4_options := raw_envelope 4 false 0 1 OpCodeOptions [].
Definition ex4_query := raw_envelope 4 false 0 2 OpCodeQuery (filler 3 20).
Lemma ex_legacy :
  rx_all raw_fc ex_sc Server (conn0 CNone) (raw_env ex4_options ++ raw_env ex4_query) =
  (conn0 CNone, [ex4_options; ex4_query], RxOk).
Proof.
  pose proof (legacy_delivery_raw Server never_worth [ex4_options; ex4_query] (conn0 CNone)) as H.
  cbn [map concat] in H. rewrite app_nil_r in H. apply H.
  - ex_forall ex_raw_ok.
  - ex_forall reflexivity.
  - reflexivity.
Qed.

(* (2) version 5: four envelopes; the second (69 bytes) is cut into three parts of 20, 25 and 24 bytes, the last two
   share one self-contained segment *)
Definition ex5_q1 := raw_envelope 5 false 0 1 OpCodeQuery (filler 1 20).
Definition ex5_q2 := raw_envelope 5 false 0 2 OpCodeQuery (filler 2 60).
Definition ex5_q3 := raw_envelope 5 false 0 3 OpCodeQuery (filler 3 5).
Definition ex5_q4 := raw_envelope 5 false 0 4 OpCodeOptions [].
Definition ex5_frames := [ex5_q1; ex5_q2; ex5_q3; ex5_q4].
Definition ex5_segments : list wire_seg :=
  WSelf (raw_env ex5_q1) :: map WPart (cut (raw_env ex5_q2) [20; 25]) ++ [WSelf (raw_env ex5_q3 ++ raw_env ex5_q4)].
Definition modern0 : conn compr := mkConn true CNone 0 [].

Lemma ex5_segmentation : segmentation (map raw_env ex5_frames) ex5_segments.
Proof.
  change (segmentation
            ([raw_env ex5_q1] ++ (raw_env ex5_q2 :: ([raw_env ex5_q3; raw_env ex5_q4] ++ [])))
            (WSelf (concat [raw_env ex5_q1]) ::
             (map WPart (cut (raw_env ex5_q2) [20; 25]) ++
              (WSelf (concat [raw_env ex5_q3; raw_env ex5_q4]) :: [])))).
  apply sg_self; [vm_compute; discriminate|].
  apply sg_multi; [vm_compute; reflexivity| |].
  - repeat constructor; vm_compute; discriminate.
  - apply sg_self; [vm_compute; discriminate|constructor].
Qed.

(* (2) a cut INSIDE the 9-byte header, and zero-length parts: the 29-byte envelope ex5_q1 carried by non-self-contained
   segments of 5, 0, 3, 21 and 0 bytes, followed by a self-contained segment *)
Definition ex5h_segments : list wire_seg :=
  map WPart [firstn 5 (raw_env ex5_q1); []; firstn 3 (skipn 5 (raw_env ex5_q1)); skipn 8 (raw_env ex5_q1); []] ++ [WSelf (raw_env ex5_q4)].
Lemma ex5h_segmentation : segmentation (map raw_env [ex5_q1; ex5_q4]) ex5h_segments.
Proof.
  unfold ex5h_segments. cbn [map].
  change (segmentation (raw_env ex5_q1 :: ([raw_env ex5_q4] ++ []))
            (map WPart [firstn 5 (raw_env ex5_q1); []; firstn 3 (skipn 5 (raw_env ex5_q1)); skipn 8 (raw_env ex5_q1); []] ++
             (WSelf (concat [raw_env ex5_q4]) :: []))).
  apply sg_multi; [vm_compute; reflexivity| |].
  - repeat constructor; vm_compute; discriminate.
  - apply sg_self; [vm_compute; discriminate|constructor].
Qed.
Lemma ex_header_cut :
  exists wire, encode_wire ex_sc CNone ex5h_segments = Ok wire /\
               rx_all raw_fc ex_sc Server modern0 wire = (modern0, [ex5_q1; ex5_q4], RxOk).
Proof.
  apply (modern_delivery_raw Server CNone never_worth [ex5_q1; ex5_q4] ex5h_segments modern0); try reflexivity.
  - ex_forall ex_raw_ok.
  - ex_forall reflexivity.
  - exact ex5h_segmentation.
  - unfold ex5h_segments. cbn [map app]. ex_forall ltac:(split; [ex_bytes_ok|intro; discriminate]).
Qed.

Lemma ex_modern_split :
  exists wire, encode_wire ex_sc CNone ex5_segments = Ok wire /\
               rx_all raw_fc ex_sc Server modern0 wire = (modern0, ex5_frames, RxOk).
Proof.
  apply (modern_delivery_raw Server CNone never_worth ex5_frames ex5_segments modern0); try reflexivity.
  - ex_forall ex_raw_ok.
  - ex_forall reflexivity.
  - exact ex5_segmentation.
  - unfold ex5_segments. cbn [map cut app]. ex_forall ltac:(split; [ex_bytes_ok|intro; discriminate]).
Qed.

(* (2') bare headers at the end of a self-contained segment, in every position, and alone.
   Towards the server: QUERY + OPTIONS in one segment, then OPTIONS alone, then OPTIONS + OPTIONS + QUERY + OPTIONS. *)
Definition ex5_o (sid : Z) := raw_envelope 5 false 0 sid OpCodeOptions [].
Definition ex5t_frames := [ex5_q1; ex5_o 2; ex5_o 3; ex5_o 4; ex5_o 5; ex5_q3; ex5_o 6].
Definition ex5t_segments : list wire_seg :=
  [WSelf (raw_env ex5_q1 ++ raw_env (ex5_o 2)); WSelf (raw_env (ex5_o 3));
   WSelf (raw_env (ex5_o 4) ++ raw_env (ex5_o 5) ++ raw_env ex5_q3 ++ raw_env (ex5_o 6))].
Lemma ex5t_segmentation : segmentation (map raw_env ex5t_frames) ex5t_segments.
Proof.
  change (segmentation
            ([raw_env ex5_q1; raw_env (ex5_o 2)] ++ ([raw_env (ex5_o 3)] ++
             ([raw_env (ex5_o 4); raw_env (ex5_o 5); raw_env ex5_q3; raw_env (ex5_o 6)] ++ [])))
            (WSelf (concat [raw_env ex5_q1; raw_env (ex5_o 2)]) :: WSelf (concat [raw_env (ex5_o 3)]) ::
             WSelf (concat [raw_env (ex5_o 4); raw_env (ex5_o 5); raw_env ex5_q3; raw_env (ex5_o 6)]) :: [])).
  repeat (apply sg_self; [vm_compute; discriminate|]). constructor.
Qed.
Lemma ex_header_only_server :
  exists wire, encode_wire ex_sc CNone ex5t_segments = Ok wire /\
               rx_all raw_fc ex_sc Server modern0 wire = (modern0, ex5t_frames, RxOk).
Proof.
  apply (modern_delivery_raw Server CNone never_worth ex5t_frames ex5t_segments modern0); try reflexivity.
  - ex_forall ex_raw_ok.
  - ex_forall reflexivity.
  - exact ex5t_segmentation.
  - unfold ex5t_segments. ex_forall ltac:(split; [ex_bytes_ok|intro; discriminate]).
Qed.
(* Towards a client in modern layout: RESULT + READY in one segment, then READY alone (READY answers REGISTER; for a client
   that has already switched it is an ordinary frame: calm_modern) *)
Definition ex5_ready (sid : Z) := raw_envelope 5 true 0 sid OpCodeReady [].
Definition ex5_res (sid : Z) := raw_envelope 5 true 0 sid OpCodeResult (filler 7 12).
Definition ex5c_frames := [ex5_res 1; ex5_ready 2; ex5_ready 3].
Definition ex5c_segments : list wire_seg := [WSelf (raw_env (ex5_res 1) ++ raw_env (ex5_ready 2)); WSelf (raw_env (ex5_ready 3))].
Lemma ex_header_only_client :
  (exists wire, encode_wire ex_sc CNone ex5c_segments = Ok wire /\
                rx_all raw_fc ex_sc Client modern0 wire = (modern0, ex5c_frames, RxOk)) /\
  ~ calm raw_fc Client (ex5_ready 2).
Proof.
  split.
  - apply (modern_delivery_raw Client CNone never_worth ex5c_frames ex5c_segments modern0); try reflexivity.
    + ex_forall ex_raw_ok.
    + ex_forall reflexivity.
    + change (segmentation ([raw_env (ex5_res 1); raw_env (ex5_ready 2)] ++ ([raw_env (ex5_ready 3)] ++ []))
                (WSelf (concat [raw_env (ex5_res 1); raw_env (ex5_ready 2)]) :: WSelf (concat [raw_env (ex5_ready 3)]) :: [])).
      repeat (apply sg_self; [vm_compute; discriminate|]). constructor.
    + unfold ex5c_segments. ex_forall ltac:(split; [ex_bytes_ok|intro; discriminate]).
  - intros [_ H]. vm_compute in H. discriminate.
Qed.
(* the theorem about the bare header at the end is not vacuous: QUERY, QUERY, OPTIONS in one segment; OPTIONS alone *)
Lemma ex_header_only_tail :
  (exists wire, encode_wire ex_sc CNone [WSelf (concat (map raw_env [ex5_q1; ex5_q3]) ++ hdr_bytes (rf_Header (ex5_o 9)))] = Ok wire /\
                rx_all raw_fc ex_sc Server modern0 wire = (modern0, [ex5_q1; ex5_q3; ex5_o 9], RxOk)) /\
  (exists wire, encode_wire ex_sc CNone [WSelf (hdr_bytes (rf_Header (ex5_o 9)))] = Ok wire /\
                rx_all raw_fc ex_sc Server modern0 wire = (modern0, [ex5_o 9], RxOk)).
Proof.
  split.
  - apply (header_only_tail_delivered Server CNone never_worth [ex5_q1; ex5_q3] (ex5_o 9) modern0); try reflexivity.
    + cbn [app]. ex_forall ex_raw_ok.
    + cbn [app]. ex_forall reflexivity.
    + vm_compute. discriminate.
    + split; [ex_bytes_ok|intro; discriminate].
  - apply (header_only_tail_delivered Server CNone never_worth [] (ex5_o 9) modern0); try reflexivity.
    + cbn [app]. ex_forall ex_raw_ok.
    + cbn [app]. ex_forall reflexivity.
    + vm_compute. discriminate.
    + split; [ex_bytes_ok|intro; discriminate].
Qed.

(* (3) version 5, modern layout: the server writes a RESULT whose caller had set the compression flag *)
Definition ex5_result := raw_envelope 5 true 1 2 OpCodeResult (filler 7 12).
Lemma ex_tx_modern :
  exists env segb,
    tx_frame raw_fc ex_sc Server modern0 ex5_result = (modern0, Ok segb) /\
    (forall rest, sc_dec ex_sc CNone (segb ++ rest) = Ok ((true, env), rest)) /\
    (exists h rest', decode_header env = DOk h rest' /\ hdr_compressed h = false /\ hdr_target h = zlen env).
Proof.
  set (f' := fc_clear raw_fc (tx_pre raw_fc Server modern0 ex5_result)).
  assert (Hok : raw_ok f').
  { change f' with (raw_envelope 5 true 0 2 OpCodeResult (filler 7 12)). ex_raw_ok. }
  destruct (seg_law_plain never_worth CNone true (raw_env f') eq_refl ltac:(ex_bytes_ok) ltac:(vm_compute; discriminate)) as (segb & Hs).
  exists (raw_env f'), segb.
  apply (tx_modern_conformance raw_fc ex_sc Server modern0 ex5_result (raw_env f') f' segb); try reflexivity.
  - apply raw_frame_law. exact Hok.
  - exact Hs.
Qed.

(* (4) version 5: STARTUP, READY, then a QUERY and its RESULT; version 4: the same exchange *)
Definition ex_startup v := raw_envelope v false 0 1 OpCodeStartup (filler 0 22).
Definition ex_ready v := raw_envelope v true 0 1 OpCodeReady [].
Definition ex_query v := raw_envelope v false 0 2 OpCodeQuery (filler 3 20).
Definition ex_result v := raw_envelope v true 0 2 OpCodeResult (filler 7 12).
Definition ex_events v : list (ev RawFrame) := [C2S (ex_startup v); S2C (ex_ready v); C2S (ex_query v); S2C (ex_result v)].
Definition ex_delivered v : list (bool * RawFrame) :=
  [(true, ex_startup v); (false, ex_ready v); (true, ex_query v); (false, ex_result v)].
Definition ends0 : ends compr := mkEnds (conn0 CNone) (conn0 CNone).

Lemma ex_session_v5 : session raw_fc ex_sc ends0 (ex_events 5) (ex_delivered 5) (mkEnds modern0 modern0).
Proof.
  unfold ends0, ex_events, ex_delivered.
  apply (ses_c2s raw_fc ex_sc (conn0 CNone) (conn0 CNone) (ex_startup 5) (ex_startup 5)).
  { cbn [c_modern conn0]. apply (raw_legacy_hop CNone CNone Client (conn0 CNone) (ex_startup 5)). cbn [tx_pre]. unfold ex_startup. ex_raw_ok. }
  change (adopt raw_fc (conn0 CNone) (ex_startup 5)) with (conn0 CNone).
  apply (ses_s2c raw_fc ex_sc (conn0 CNone) (conn0 CNone) (ex_ready 5) (ex_ready 5)).
  { cbn [c_modern conn0]. apply (raw_legacy_hop CNone CNone Server (conn0 CNone) (ex_ready 5)).
    change (tx_pre raw_fc Server (conn0 CNone) (ex_ready 5)) with (ex_ready 5). unfold ex_ready. ex_raw_ok. }
  { reflexivity. }
  change (maybe_switch raw_fc (conn0 CNone) (ex_ready 5)) with modern0.
  change (maybe_switch raw_fc (conn0 CNone) (tx_pre raw_fc Server (conn0 CNone) (ex_ready 5))) with modern0.
  apply (ses_c2s raw_fc ex_sc modern0 modern0 (ex_query 5) (ex_query 5)).
  { cbn [c_modern modern0]. split; [reflexivity|].
    change (ex_query 5) with (fc_clear raw_fc (tx_pre raw_fc Client modern0 (ex_query 5))) at 2.
    apply raw_modern_hop; [reflexivity| | |].
    - change (fc_clear raw_fc (tx_pre raw_fc Client modern0 (ex_query 5))) with (ex_query 5). unfold ex_query. ex_raw_ok.
    - ex_bytes_ok.
    - vm_compute. discriminate. }
  change (adopt raw_fc modern0 (ex_query 5)) with modern0.
  apply (ses_s2c raw_fc ex_sc modern0 modern0 (ex_result 5) (ex_result 5)).
  { cbn [c_modern modern0]. split; [reflexivity|].
    change (ex_result 5) with (fc_clear raw_fc (tx_pre raw_fc Server modern0 (ex_result 5))) at 2.
    apply raw_modern_hop; [reflexivity| | |].
    - change (fc_clear raw_fc (tx_pre raw_fc Server modern0 (ex_result 5))) with (ex_result 5). unfold ex_result. ex_raw_ok.
    - ex_bytes_ok.
    - vm_compute. discriminate. }
  { reflexivity. }
  change (maybe_switch raw_fc modern0 (ex_result 5)) with modern0.
  change (maybe_switch raw_fc modern0 (tx_pre raw_fc Server modern0 (ex_result 5))) with modern0.
  apply ses_nil.
Qed.

Lemma ex_session_v4 : session raw_fc ex_sc ends0 (ex_events 4) (ex_delivered 4) ends0.
Proof.
  unfold ends0, ex_events, ex_delivered.
  apply (ses_c2s raw_fc ex_sc (conn0 CNone) (conn0 CNone) (ex_startup 4) (ex_startup 4)).
  { cbn [c_modern conn0]. apply (raw_legacy_hop CNone CNone Client (conn0 CNone) (ex_startup 4)). cbn [tx_pre]. unfold ex_startup. ex_raw_ok. }
  change (adopt raw_fc (conn0 CNone) (ex_startup 4)) with (conn0 CNone).
  apply (ses_s2c raw_fc ex_sc (conn0 CNone) (conn0 CNone) (ex_ready 4) (ex_ready 4)).
  { cbn [c_modern conn0]. apply (raw_legacy_hop CNone CNone Server (conn0 CNone) (ex_ready 4)).
    change (tx_pre raw_fc Server (conn0 CNone) (ex_ready 4)) with (ex_ready 4). unfold ex_ready. ex_raw_ok. }
  { reflexivity. }
  change (maybe_switch raw_fc (conn0 CNone) (ex_ready 4)) with (conn0 CNone).
  change (maybe_switch raw_fc (conn0 CNone) (tx_pre raw_fc Server (conn0 CNone) (ex_ready 4))) with (conn0 CNone).
  apply (ses_c2s raw_fc ex_sc (conn0 CNone) (conn0 CNone) (ex_query 4) (ex_query 4)).
  { cbn [c_modern conn0]. apply (raw_legacy_hop CNone CNone Client (conn0 CNone) (ex_query 4)). cbn [tx_pre]. unfold ex_query. ex_raw_ok. }
  change (adopt raw_fc (conn0 CNone) (ex_query 4)) with (conn0 CNone).
  apply (ses_s2c raw_fc ex_sc (conn0 CNone) (conn0 CNone) (ex_result 4) (ex_result 4)).
  { cbn [c_modern conn0]. apply (raw_legacy_hop CNone CNone Server (conn0 CNone) (ex_result 4)).
    change (tx_pre raw_fc Server (conn0 CNone) (ex_result 4)) with (ex_result 4). unfold ex_result. ex_raw_ok. }
  { reflexivity. }
  change (maybe_switch raw_fc (conn0 CNone) (ex_result 4)) with (conn0 CNone).
  change (maybe_switch raw_fc (conn0 CNone) (tx_pre raw_fc Server (conn0 CNone) (ex_result 4))) with (conn0 CNone).
  apply ses_nil.
Qed.

Lemma ex_idle0 : idle (conn0 CNone). Proof. split; reflexivity. Qed.

Lemma ex_switch_v5 :
  joint_run raw_fc ex_sc ends0 (ex_events 5) = (mkEnds modern0 modern0, ex_delivered 5, RxOk) /\
  c_modern (e_sv (mkEnds modern0 modern0)) = true /\ c_modern (e_cl (mkEnds modern0 modern0)) = true.
Proof.
  apply (session_v5_switch_raw never_worth ends0 (ex_events 5) (ex_delivered 5) (mkEnds modern0 modern0) (ex_ready 5) ex_session_v5);
    try reflexivity; try exact ex_idle0.
  - cbn [ex_delivered In]. tauto.
  - left. reflexivity.
Qed.

Lemma ex_no_switch_v4 :
  joint_run raw_fc ex_sc ends0 (ex_events 4) = (ends0, ex_delivered 4, RxOk) /\
  c_modern (e_sv ends0) = false /\ c_modern (e_cl ends0) = false.
Proof.
  apply (session_legacy_versions_raw never_worth ends0 (ex_events 4) (ex_delivered 4) ends0 ex_session_v4);
    try reflexivity; try exact ex_idle0.
  repeat constructor; cbn; tauto.
Qed.

(* the frame instance is not vacuous: a message codec for the two messages without body satisfies H_rt, H_len, H_kind,
   and three OPTIONS envelopes (two grouped in one self-contained segment, one carried by a non-self-contained segment)
   are delivered through model/Frame.v's decode_frame *)
Definition mini_mc : msg_codec :=
  {| mc_encode := fun _ m => match m with M_Options | M_Ready => Ok [] | _ => Err end;
     mc_length := fun _ m => match m with M_Options | M_Ready => Ok 0 | _ => Err end;
     mc_decode := fun _ op => if op =? OpCodeOptions then ret M_Options else if op =? OpCodeReady then ret M_Ready else rfail |}.
Definition mini_ok (v : Z) (m : Message) : Prop := m = M_Options \/ m = M_Ready.
Definition mini_norm (v : Z) (m : Message) : Message := m.
Definition no_fatal (m : Message) : bool := false.

Lemma mini_rt : forall v m, supported v -> mini_ok v m ->
  exists mb, mc_encode mini_mc v m = Ok mb /\ forall rest, mc_decode mini_mc v (msg_opcode m) (mb ++ rest) = DOk (mini_norm v m) rest.
Proof. intros v m _ [-> | ->]; exists []; split; reflexivity. Qed.
Lemma mini_len : forall v m mb, supported v -> mini_ok v m -> mc_encode mini_mc v m = Ok mb -> mc_length mini_mc v m = Ok (zlen mb).
Proof. intros v m mb _ [-> | ->] E; cbn in E; injection E as <-; reflexivity. Qed.
Lemma mini_kind : forall v m, mini_ok v m ->
  msg_switch v (mini_norm v m) = msg_switch v m /\ msg_startup (mini_norm v m) = msg_startup m /\ no_fatal (mini_norm v m) = no_fatal m.
Proof. intros. repeat split. Qed.

Definition ex_opt (sid : Z) : Frame := NewFrame 5 sid M_Options.
Lemma ex_opt_ok sid : -32768 <= sid < 32768 -> envelope_ok mini_mc mini_ok (ex_opt sid) [].
Proof.
  intro Hs. unfold envelope_ok, ex_opt, NewFrame. cbn [f_Header f_Body h_Version h_Flags bd_Message msg_is_response msg_opcode].
  change (ProtocolVersion_IsBeta 5) with false. cbn iota.
  split; [|split; [lia|split; [reflexivity|split; [reflexivity|vm_compute; reflexivity]]]].
  unfold frame_ok. cbn [f_Header f_Body h_Version h_Flags h_StreamId h_IsResponse h_OpCode bd_Message msg_is_response msg_opcode].
  split; [unfold supported, spec_versions, V2, V3, V4, V5, DSE1, DSE2; cbn [In]; tauto|].
  split; [lia|]. split; [exact Hs|]. split; [reflexivity|]. split; [reflexivity|].
  unfold body_ok, has_tracing_id. cbn. repeat split; try reflexivity. left. reflexivity.
Qed.

Definition exf_frames : list Frame := [ex_opt 1; ex_opt 2; ex_opt 3].
Definition exf_env (f : Frame) : list Z := encoded_plain f [].
Definition exf_nf (f : Frame) : Frame := cframe_normal mini_norm f (zlen (body_bytes (f_Header f) (f_Body f) [])).
Definition exf_segments : list wire_seg := [WSelf (exf_env (ex_opt 1) ++ exf_env (ex_opt 2)); WPart (exf_env (ex_opt 3))].
Definition exf_fc := ffc mini_mc no_body_comp no_body_comp no_fatal.

Lemma ex_frames_instance :
  exists wire, encode_wire ex_sc CNone exf_segments = Ok wire /\
               rx_all exf_fc ex_sc Server modern0 wire = (modern0, map exf_nf exf_frames, RxOk).
Proof.
  apply (modern_delivery_frames mini_mc mini_ok mini_norm mini_rt mini_len no_body_comp no_body_comp no_fatal mini_kind
           Server CNone never_worth exf_frames (map exf_env exf_frames) (map exf_nf exf_frames) exf_segments modern0); try reflexivity.
  - unfold exf_frames. cbn [map]. repeat (constructor; [apply ex_opt_ok; lia|]). constructor.
  - ex_forall reflexivity.
  - unfold exf_segments, exf_frames. cbn [map].
    change (segmentation
              ([exf_env (ex_opt 1); exf_env (ex_opt 2)] ++ (exf_env (ex_opt 3) :: []))
              (WSelf (concat [exf_env (ex_opt 1); exf_env (ex_opt 2)]) :: (map WPart (exf_env (ex_opt 3) :: []) ++ []))).
    apply sg_self; [vm_compute; discriminate|].
    apply sg_multi; [vm_compute; reflexivity| |constructor].
    repeat constructor; vm_compute; discriminate.
  - unfold exf_segments. ex_forall ltac:(split; [ex_bytes_ok|intro; discriminate]).
Qed.

(* ================================================================================================ Part C
   the frame instance over the assembled message codecs (model/MsgCodec.v): H_rt and H_len are FrameFinal.H_rt_concrete /
   H_len_concrete (C01 / C03), H_kind is proved here; nothing is left to assume about messages *)
From GCNP Require Import model.MsgRequests model.MsgCodec model.MsgValid model.FrameValid proofs.MsgCodecProofs proofs.FrameFinal.

(* processIncomingFrame: OpCode == Error && ErrorCode.IsFatalError() (ServerError, ProtocolError, AuthenticationError) *)
Definition msg_fatal (m : Message) : bool :=
  match m with M_ServerError _ | M_ProtocolError _ | M_AuthenticationError _ => true | _ => false end.

Lemma msg_switch_opcode v m :
  msg_switch v m = ProtocolVersion_SupportsModernFramingLayout v && ((msg_opcode m =? OpCodeReady) || (msg_opcode m =? OpCodeAuthenticate)).
Proof. destruct m; reflexivity. Qed.
Lemma msg_startup_opcode m : msg_opcode m <> OpCodeStartup -> msg_startup m = None.
Proof. destruct m; try reflexivity. intro H; exfalso; apply H; reflexivity. Qed.
Lemma msg_fatal_opcode m : msg_opcode m <> OpCodeError -> msg_fatal m = false.
Proof. destruct m; try reflexivity; intro H; exfalso; apply H; reflexivity. Qed.

(* the normal form of a message is a message of the same kind *)
Lemma kind_concrete : forall v m, msg_ok v m ->
  msg_switch v (norm_message v m) = msg_switch v m /\ msg_startup (norm_message v m) = msg_startup m /\
  msg_fatal (norm_message v m) = msg_fatal m.
Proof.
  intros v m _. destruct (norm_message_opcode v m) as [Hop _].
  split; [rewrite !msg_switch_opcode, Hop; reflexivity|].
  destruct m; try (split; reflexivity);
    (split; [apply eq_trans with (y := @None compr); [apply msg_startup_opcode; rewrite Hop; cbv; discriminate|reflexivity]
            |rewrite msg_fatal_opcode by (rewrite Hop; cbv; discriminate); reflexivity]).
Qed.

Definition cfc (lz4b snb : Frame.compressor) : fcodec Frame Header compr := ffc the_msg_codec lz4b snb msg_fatal.

(* a frame accepted by the executable validity predicate of C01 travels as an envelope *)
Lemma envelope_of_valid f :
  frame_okb f = true -> 3 <= h_Version (f_Header f) -> has (h_Flags (f_Header f)) HeaderFlagCompressed = false ->
  exists mb, mc_encode the_msg_codec (h_Version (f_Header f)) (bd_Message (f_Body f)) = Ok mb /\
             (zlen (body_bytes (f_Header f) (f_Body f) mb) < 2147483648 - 9 -> envelope_ok the_msg_codec msg_ok f mb).
Proof.
  intros Hok Hv Hnc. pose proof (frame_okb_valid f Hok) as Hval.
  pose proof Hval as (Hs & _ & _ & _ & _ & _ & (_ & _ & _ & Hm)).
  destruct (H_rt_concrete _ _ Hs Hm) as (mb & Hmb & _). exists mb. split; [exact Hmb|].
  intro Hsz. unfold envelope_ok. split; [exact Hval|]. split; [exact Hv|]. split; [exact Hnc|]. split; [exact Hmb|exact Hsz].
Qed.

Theorem modern_delivery_concrete r c lz4p lz4b snb fs envs nfs ss (st : conn compr) :
  envelopes_ok the_msg_codec msg_ok norm_message fs envs nfs -> Forall (calm_modern (cfc lz4b snb) r) nfs ->
  segmentation envs ss -> Forall (fun w => payload_ok lz4p c (ws_payload w)) ss ->
  c_modern st = true -> c_comp st = c -> c_target st = 0 -> c_acc st = [] ->
  exists wire, encode_wire (seg_sc lz4p) c ss = Ok wire /\
               rx_all (cfc lz4b snb) (seg_sc lz4p) r st wire = (st, nfs, RxOk).
Proof.
  exact (modern_delivery_frames the_msg_codec msg_ok norm_message H_rt_concrete H_len_concrete lz4b snb msg_fatal kind_concrete
           r c lz4p fs envs nfs ss st).
Qed.

Theorem legacy_delivery_concrete r lz4p lz4b snb fs envs nfs (st : conn compr) :
  envelopes_ok the_msg_codec msg_ok norm_message fs envs nfs -> Forall (calm (cfc lz4b snb) r) nfs -> c_modern st = false ->
  rx_all (cfc lz4b snb) (seg_sc lz4p) r st (concat envs) = (st, nfs, RxOk).
Proof.
  exact (legacy_delivery_frames the_msg_codec msg_ok norm_message H_rt_concrete H_len_concrete lz4b snb msg_fatal kind_concrete
           r lz4p fs envs nfs st).
Qed.

Theorem compressed_frame_law_concrete lz4b snb c k f mb y :
  body_comp lz4b snb c = Some k -> comp_lossless k ->
  frame_valid f -> 3 <= h_Version (f_Header f) ->
  has (h_Flags (f_Header f)) HeaderFlagCompressed = true ->
  mc_encode the_msg_codec (h_Version (f_Header f)) (bd_Message (f_Body f)) = Ok mb ->
  cmp_compress k (body_bytes (f_Header f) (f_Body f) mb) = Ok y -> zlen y < 2147483648 - 9 ->
  frame_law (cfc lz4b snb) c c f (hdr_bytes (with_body_length (f_Header f) (zlen y)) ++ y) (frame_normal f (zlen y)).
Proof.
  exact (frame_law_compressed the_msg_codec msg_ok norm_message H_rt_concrete H_len_concrete lz4b snb msg_fatal kind_concrete c k f mb y).
Qed.

(* non-vacuity with the real message codecs: OPTIONS frames of version 5; the first envelope (9 bytes) is cut INSIDE its
   header into parts of 4, 0 and 5 bytes, the other two share a self-contained segment *)
Definition exc_fc := cfc no_body_comp no_body_comp.
Definition exc_nf (f : Frame) : Frame := frame_normal f (zlen (body_bytes (f_Header f) (f_Body f) [])).
Definition exc_segments : list wire_seg :=
  map WPart [firstn 4 (exf_env (ex_opt 1)); []; skipn 4 (exf_env (ex_opt 1))] ++ [WSelf (exf_env (ex_opt 2) ++ exf_env (ex_opt 3))].

Lemma exc_opt_ok sid : -32768 <= sid < 32768 -> envelope_ok the_msg_codec msg_ok (ex_opt sid) [].
Proof.
  intro Hs. destruct (envelope_of_valid (ex_opt sid)) as (mb & Hmb & Hok).
  - unfold frame_okb, ex_opt, NewFrame. cbn -[Z.leb Z.ltb]. repeat (apply andb_true_intro; split); try reflexivity; lia.
  - cbn. lia.
  - reflexivity.
  - assert (mb = []) by (vm_compute in Hmb; injection Hmb as <-; reflexivity). subst mb. apply Hok. vm_compute. reflexivity.
Qed.

Lemma ex_concrete_instance :
  exists wire, encode_wire ex_sc CNone exc_segments = Ok wire /\
               rx_all exc_fc ex_sc Server modern0 wire = (modern0, map exc_nf exf_frames, RxOk).
Proof.
  apply (modern_delivery_concrete Server CNone never_worth no_body_comp no_body_comp exf_frames (map exf_env exf_frames)
           (map exc_nf exf_frames) exc_segments modern0); try reflexivity.
  - unfold exf_frames. cbn [map]. repeat (constructor; [apply exc_opt_ok; lia|]). constructor.
  - ex_forall reflexivity.
  - unfold exc_segments, exf_frames. cbn [map].
    change (segmentation (exf_env (ex_opt 1) :: ([exf_env (ex_opt 2); exf_env (ex_opt 3)] ++ []))
              (map WPart [firstn 4 (exf_env (ex_opt 1)); []; skipn 4 (exf_env (ex_opt 1))] ++
               (WSelf (concat [exf_env (ex_opt 2); exf_env (ex_opt 3)]) :: []))).
    apply sg_multi; [vm_compute; reflexivity| |].
    + repeat constructor; vm_compute; discriminate.
    + apply sg_self; [vm_compute; discriminate|constructor].
  - unfold exc_segments. cbn [map app]. ex_forall ltac:(split; [ex_bytes_ok|intro; discriminate]).
Qed.
