(* C02, header clauses: the model of frame/encode.go EncodeHeader / frame/decode.go DecodeHeader against the
   independent transcription of section 2 of the specifications (spec/SpecFrame.v).
   (1) hdr_bytes (the bytes EncodeHeader emits for a valid header) = spec_header;
   (2) DecodeHeader accepts a 8/9-byte header exactly when spec_header_acceptable_strict (version byte, opcode) holds
       (the opcode must be known to THAT version: 0xFF only with a DSE version):
       the decision is a function of those two bytes only (shown for arbitrary remaining bytes), and the two decision
       functions - the go2coq-generated IsSupported/IsValid/IsRequest/IsResponse and the specification's table - agree on
       all 2^16 pairs (finite domain, vm_compute lifted by forallb_forall). *)
From Coq Require Import ZArith List Bool Lia.
From Coq Require Import ZifyBool ZifyNat.
From GCNP Require Import base.GoInt base.Bytes base.Codec gen.Constants_gen spec.SpecTables model.Prim model.DataType
  model.MsgTypes model.Frame proofs.PrimProofs proofs.CqlBytesLemmas proofs.FrameProofs
  spec.SpecNotation spec.SpecMsg spec.SpecFrame.
Import ListNotations.
Open Scope Z_scope.
Ltac Zify.zify_post_hook ::= Z.div_mod_to_equations.

(* ---------------- (1) header bytes ---------------- *)
Theorem header_bytes_spec h : header_ok h ->
  hdr_bytes h = spec_header (h_Version h) (h_IsResponse h) (h_Flags h) (h_StreamId h) (h_OpCode h) (h_BodyLength h).
Proof.
  intros (Hv & _). unfold hdr_bytes, hdr_stream_bytes, spec_header.
  assert (E1 : Z.lor (h_Version h) (if h_IsResponse h then 128 else 0) = h_Version h + (if h_IsResponse h then 128 else 0)).
  { destruct (supported_cases _ Hv) as [->|[->|[->|[->|[->| ->]]]]]; destruct (h_IsResponse h); reflexivity. }
  assert (E2 : (if Z.geb (h_Version h) 3 then be_bytes 2 (wrap_u 16 (h_StreamId h)) else be_bytes 1 (wrap_u 8 (h_StreamId h)))
               = (if h_Version h =? 2 then be_bytes 1 (h_StreamId h) else be_bytes 2 (h_StreamId h))).
  { unfold wrap_u.
    destruct (supported_cases _ Hv) as [->|[->|[->|[->|[->| ->]]]]];
      cbn [Z.geb Z.compare Z.eqb Pos.compare Pos.compare_cont Pos.eqb];
      first [exact (be_bytes_mod 2 (h_StreamId h)) | exact (be_bytes_mod 1 (h_StreamId h))]. }
  rewrite E1. do 2 apply f_equal. apply (f_equal (fun x => x ++ _)). exact E2.
Qed.

(* the spec-side header length is the model's *)
Lemma header_length_spec v : supported v -> spec_header_length v = (if Z.geb v 3 then 9 else 8).
Proof. intro H. destruct (supported_cases _ H) as [->|[->|[->|[->|[->| ->]]]]]; reflexivity. Qed.

(* ---------------- (2) acceptance ---------------- *)
(* what DecodeHeader checks, as a function of the version byte and the opcode byte *)
Definition model_accept (vb op : Z) : bool :=
  is_ok (CheckSupportedProtocolVersion (Z.land vb 127)) &&
  is_ok (CheckValidOpCode op) &&
  dse_opcode_ok (Z.land vb 127) op &&
  (if Z.gtb (Z.land vb 128) 0 then is_ok (CheckResponseOpCode op) else is_ok (CheckRequestOpCode op)).

Lemma read_byte_cons b l : read_byte (b :: l) = DOk b l.
Proof. reflexivity. Qed.

(* the header DecodeHeader returns for well-shaped bytes *)
Definition decoded_header (vb fl : Z) (sid : list Z) (op : Z) (len : list Z) : Header :=
  {| h_IsResponse := Z.gtb (Z.land vb 128) 0; h_Version := Z.land vb 127; h_Flags := fl;
     h_StreamId := (if Z.geb (Z.land vb 127) 3 then wrap_i 16 (be_val sid) else wrap_i 16 (wrap_i 8 (be_val sid)));
     h_OpCode := op; h_BodyLength := wrap_i 32 (be_val len) |}.

Definition sid_width (vb : Z) : nat := if Z.geb (Z.land vb 127) 3 then 2%nat else 1%nat.

(* DecodeHeader on version | flags | stream (1 or 2 bytes) | opcode | length (4 bytes) | anything:
   the outcome is decided by (version byte, opcode) alone, whatever the other bytes are *)
Lemma decode_header_shape vb fl sid op len rest :
  length sid = sid_width vb -> length len = 4%nat ->
  decode_header (vb :: fl :: sid ++ op :: len ++ rest) =
  if model_accept vb op then DOk (decoded_header vb fl sid op len) rest else DErr.
Proof.
  intros Hs Hl. unfold decode_header, model_accept, decoded_header, sid_width in *.
  unfold bind at 1. rewrite read_byte_cons.
  unfold bind at 1. rewrite read_byte_cons.
  destruct (is_ok (CheckSupportedProtocolVersion (Z.land vb 127))); cbn [rguard andb]; [|reflexivity].
  unfold bind at 1, ret at 1.
  change (ProtocolVersion_IsBeta (Z.land vb 127)) with false. cbn [andb negb rguard]. unfold bind at 1, ret at 1.
  destruct len as [|l1 [|l2 [|l3 [|l4 [|? ?]]]]]; try discriminate Hl.
  unfold read_stream_id. rewrite version_geb3.
  destruct (Z.geb (Z.land vb 127) 3).
  - destruct sid as [|s1 [|s2 [|? ?]]]; try discriminate Hs.
    unfold bind at 1. unfold rmap at 1, bind at 1.
    change (read_short ((s1 :: s2 :: nil) ++ op :: (l1 :: l2 :: l3 :: l4 :: nil) ++ rest))
      with (DOk (be_val [s1; s2]) (op :: l1 :: l2 :: l3 :: l4 :: rest)).
    unfold ret at 1. unfold bind at 1. rewrite read_byte_cons.
    unfold bind at 1.
    change (read_int (l1 :: l2 :: l3 :: l4 :: rest)) with (DOk (wrap_i 32 (be_val [l1; l2; l3; l4])) rest).
    destruct (is_ok (CheckValidOpCode op)); cbn [rguard andb]; [|reflexivity].
    unfold bind at 1, ret at 1.
    destruct (dse_opcode_ok (Z.land vb 127) op); cbn [rguard andb]; [|reflexivity].
    unfold bind at 1, ret at 1.
    destruct (Z.gtb (Z.land vb 128) 0);
      [destruct (is_ok (CheckResponseOpCode op))|destruct (is_ok (CheckRequestOpCode op))]; cbn [rguard]; reflexivity.
  - destruct sid as [|s1 [|? ?]]; try discriminate Hs.
    unfold bind at 1. unfold rmap at 1, bind at 1.
    change (read_byte ((s1 :: nil) ++ op :: (l1 :: l2 :: l3 :: l4 :: nil) ++ rest))
      with (DOk (be_val [s1]) (op :: l1 :: l2 :: l3 :: l4 :: rest)).
    unfold ret at 1. unfold bind at 1. rewrite read_byte_cons.
    unfold bind at 1.
    change (read_int (l1 :: l2 :: l3 :: l4 :: rest)) with (DOk (wrap_i 32 (be_val [l1; l2; l3; l4])) rest).
    destruct (is_ok (CheckValidOpCode op)); cbn [rguard andb]; [|reflexivity].
    unfold bind at 1, ret at 1.
    destruct (dse_opcode_ok (Z.land vb 127) op); cbn [rguard andb]; [|reflexivity].
    unfold bind at 1, ret at 1.
    destruct (Z.gtb (Z.land vb 128) 0);
      [destruct (is_ok (CheckResponseOpCode op))|destruct (is_ok (CheckRequestOpCode op))]; cbn [rguard]; reflexivity.
Qed.

(* an unsupported version number is refused as soon as the flags byte has been read, whatever follows *)
Lemma decode_header_unsupported vb fl rest :
  is_ok (CheckSupportedProtocolVersion (Z.land vb 127)) = false -> decode_header (vb :: fl :: rest) = DErr.
Proof.
  intro H. unfold decode_header. unfold bind at 1. rewrite read_byte_cons. unfold bind at 1. rewrite read_byte_cons.
  rewrite H. reflexivity.
Qed.

(* fewer bytes than a header: an error *)
Lemma decode_header_short bs : (length bs < 2)%nat -> decode_header bs = DErr.
Proof. intro H. destruct bs as [|a [|b ?]]; try reflexivity. cbn [length] in H. lia. Qed.

(* ---- the two decision functions agree on all 2^16 pairs ---- *)
Definition byte_values : list Z := map Z.of_nat (seq 0 256).
Lemma in_byte_values x : 0 <= x < 256 -> In x byte_values.
Proof. intro H. unfold byte_values. apply in_map_iff. exists (Z.to_nat x). split; [lia|]. apply in_seq. lia. Qed.

Definition accept_agree_all : bool :=
  forallb (fun vb => forallb (fun op => Bool.eqb (spec_header_acceptable_strict vb op) (model_accept vb op)) byte_values) byte_values.
Lemma accept_agree_all_true : accept_agree_all = true.
Proof. vm_compute. reflexivity. Qed.

Theorem accept_agree vb op : 0 <= vb < 256 -> 0 <= op < 256 -> model_accept vb op = spec_header_acceptable_strict vb op.
Proof.
  intros Hv Ho. pose proof accept_agree_all_true as H. unfold accept_agree_all in H.
  rewrite forallb_forall in H. specialize (H vb (in_byte_values vb Hv)).
  rewrite forallb_forall in H. specialize (H op (in_byte_values op Ho)).
  apply Bool.eqb_prop in H. symmetry. exact H.
Qed.

(* rejection clause of C02 *)
Theorem header_reject vb op : 0 <= vb < 256 -> 0 <= op < 256 -> spec_header_acceptable_strict vb op = false ->
  forall fl sid len rest, length sid = sid_width vb -> length len = 4%nat ->
  decode_header (vb :: fl :: sid ++ op :: len ++ rest) = DErr.
Proof.
  intros Hv Ho Hacc fl sid len rest Hs Hl. rewrite (decode_header_shape vb fl sid op len rest Hs Hl).
  rewrite (accept_agree vb op Hv Ho), Hacc. reflexivity.
Qed.

(* ... and the converse: an acceptable pair is decoded, for every flags / stream / length bytes *)
Theorem header_accept vb op : 0 <= vb < 256 -> 0 <= op < 256 -> spec_header_acceptable_strict vb op = true ->
  forall fl sid len rest, length sid = sid_width vb -> length len = 4%nat ->
  decode_header (vb :: fl :: sid ++ op :: len ++ rest) = DOk (decoded_header vb fl sid op len) rest.
Proof.
  intros Hv Ho Hacc fl sid len rest Hs Hl. rewrite (decode_header_shape vb fl sid op len rest Hs Hl).
  rewrite (accept_agree vb op Hv Ho), Hacc. reflexivity.
Qed.

(* the width of the stream id the decoder assumes is the specification's (v2: 1 byte, v3+: 2 bytes), for every version
   byte whose version number is supported *)
Lemma sid_width_spec vb : 0 <= vb < 256 -> spec_is_version (vb mod 128) = true ->
  sid_width vb = (if vb mod 128 =? 2 then 1%nat else 2%nat).
Proof.
  intros Hv H. unfold sid_width. replace (Z.land vb 127) with (vb mod 128) by (change 127 with (Z.ones 7); rewrite Z.land_ones by lia; reflexivity).
  unfold spec_is_version, spec_supported_versions in H. cbn [existsb] in H.
  repeat (apply orb_prop in H; destruct H as [H|H]); try discriminate H; apply Z.eqb_eq in H; rewrite H; reflexivity.
Qed.
