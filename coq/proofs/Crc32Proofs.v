(* CRC-32 (crc/crc32.go over hash/crc32): the byte-wise definition equals the bit-serial reflected LFSR;
   range; linearity; the potential-function burst lemma; zero-input steps are injective on non-zero
   registers; the order argument for double-bit errors. *)
From Coq Require Import ZArith NArith List Bool Lia.
From Coq Require Import ZifyBool ZifyN ZifyNat.
From GCNP Require Import base.GoInt base.Bytes gen.Crc_gen model.Crc proofs.Crc24Proofs.
Import ListNotations.
Open Scope N_scope.

Notation P := crc32_poly.
Notation step := crc32_step.
Notation run := crc32_run.

Lemma P_bit31 : N.testbit P 31 = true. Proof. vm_compute. reflexivity. Qed.
Lemma P_lt : P < 2 ^ 32. Proof. vm_compute. reflexivity. Qed.

Lemma shiftr1_lt s : s < 2 ^ 32 -> N.shiftr s 1 < 2 ^ 31.
Proof. intro H. rewrite N.shiftr_div_pow2. change (2 ^ 1) with 2. change (2 ^ 32) with 4294967296 in H. change (2 ^ 31) with 2147483648. lia. Qed.

Lemma lt_pow2_bit s n : s < 2 ^ n -> N.testbit s n = false.
Proof. intro H. apply (testbit_high s n n H). lia. Qed.

Lemma lxor_lt a b k : a < 2 ^ k -> b < 2 ^ k -> N.lxor a b < 2 ^ k.
Proof.
  intros Ha Hb. apply lt_pow2_of_bits. intros n Hn.
  rewrite N.lxor_spec, (testbit_high a k n Ha Hn), (testbit_high b k n Hb Hn). reflexivity.
Qed.

Lemma step_lt s b : s < 2 ^ 32 -> step s b < 2 ^ 32.
Proof.
  intro H. unfold step. pose proof (shiftr1_lt s H) as H1.
  assert (H2 : N.shiftr s 1 < 2 ^ 32) by (change (2 ^ 32) with (2 * 2 ^ 31); lia).
  destruct (xorb _ _); [apply lxor_lt; [assumption | exact P_lt] | assumption].
Qed.

(* ---------------------------------------------------------------- potential function *)
Definition rank (s : N) : N := if s =? 0 then 0 else N.log2 s + 1.

Lemma step_fb_bit31 s b : s < 2 ^ 32 -> xorb (N.testbit s 0) b = true -> N.testbit (step s b) 31 = true.
Proof.
  intros H Hfb. unfold step. rewrite Hfb. rewrite N.lxor_spec, P_bit31.
  rewrite (lt_pow2_bit _ 31 (shiftr1_lt s H)). reflexivity.
Qed.

Lemma bit_rank s n : N.testbit s n = true -> n + 1 <= rank s.
Proof.
  intro Hb. unfold rank. destruct (N.eqb_spec s 0) as [->|Hz]; [rewrite N.bits_0 in Hb; discriminate|].
  assert (n <= N.log2 s); [|lia].
  destruct (N.le_gt_cases n (N.log2 s)) as [|Hgt]; [assumption|].
  rewrite N.bits_above_log2 in Hb by assumption. discriminate.
Qed.

Lemma rank_step s b : s < 2 ^ 32 -> rank s - 1 <= rank (step s b).
Proof.
  intro H. destruct (xorb (N.testbit s 0) b) eqn:Hfb.
  - pose proof (bit_rank _ _ (step_fb_bit31 s b H Hfb)) as Hr.
    assert (rank s <= 32); [|lia].
    unfold rank. destruct (N.eqb_spec s 0); [lia|].
    assert (N.log2 s < 32) by (apply N.log2_lt_pow2; lia). lia.
  - unfold step. rewrite Hfb. unfold rank.
    destruct (N.eqb_spec s 0) as [->|Hz]; [reflexivity|].
    destruct (N.eqb_spec (N.shiftr s 1) 0) as [E|Hz'].
    + rewrite N.shiftr_div_pow2 in E. change (2 ^ 1) with 2 in E.
      assert (s = 1) by lia. subst s. reflexivity.
    + rewrite N.log2_shiftr by lia.
      assert (1 <= N.log2 s).
      { destruct (N.eq_dec (N.log2 s) 0) as [E0|]; [|lia].
        exfalso. apply Hz'. apply N.log2_null in E0. rewrite N.shiftr_div_pow2. change (2 ^ 1) with 2.
        assert (s = 1) by lia. subst s. reflexivity. }
      lia.
Qed.

Lemma rank_run : forall bs s, s < 2 ^ 32 -> rank s - N.of_nat (length bs) <= rank (run s bs) /\ run s bs < 2 ^ 32.
Proof.
  induction bs as [|b bs IH]; intros s H; unfold run; cbn [fold_left length].
  - split; [lia|assumption].
  - pose proof (step_lt s b H) as H1. pose proof (rank_step s b H) as H2.
    destruct (IH (step s b) H1) as [H3 H4]. unfold run in *. split; [|assumption]. lia.
Qed.

Lemma run_lt bs s : s < 2 ^ 32 -> run s bs < 2 ^ 32.
Proof. intro H. apply (rank_run bs s H). Qed.

Lemma run_app s a b : run s (a ++ b) = run (run s a) b.
Proof. unfold run. apply fold_left_app. Qed.

(* a burst - a 1 bit followed by at most 31 arbitrary bits - fed to the zero register is never absorbed *)
Theorem burst_nonzero bs : (length bs <= 31)%nat -> run 0 (true :: bs) <> 0.
Proof.
  intro Hl. unfold run. cbn [fold_left]. change (step 0 true) with P. fold (run P bs).
  destruct (rank_run bs P P_lt) as [H _].
  assert (HP : rank P = 32) by (vm_compute; reflexivity). rewrite HP in H.
  intro E. rewrite E in H. change (rank 0) with 0 in H. lia.
Qed.

(* zero input keeps a non-zero register non-zero, and the zero register zero *)
Lemma step0_nonzero s : s < 2 ^ 32 -> s <> 0 -> step s false <> 0.
Proof.
  intros H Hz. destruct (N.testbit s 0) eqn:Hb.
  - intro E. assert (Hc : N.testbit (step s false) 31 = true) by (apply step_fb_bit31; [assumption | rewrite Hb; reflexivity]).
    rewrite E, N.bits_0 in Hc. discriminate.
  - unfold step. rewrite Hb. cbn [xorb]. rewrite N.shiftr_div_pow2. change (2 ^ 1) with 2.
    rewrite N.bit0_odd in Hb.
    assert (He : N.even s = true) by (rewrite <- N.negb_odd, Hb; reflexivity).
    apply N.even_spec in He. destruct He as [k ->]. lia.
Qed.

Lemma step0_zero : step 0 false = 0. Proof. reflexivity. Qed.

Definition zeros (n : nat) : list bool := repeat false n.

Lemma run_zeros_0 n : run 0 (zeros n) = 0.
Proof. induction n as [|k IH]; [reflexivity|]. unfold run, zeros in *. cbn [repeat fold_left]. rewrite step0_zero. exact IH. Qed.

Lemma run_zeros_nonzero n : forall s, s < 2 ^ 32 -> s <> 0 -> run s (zeros n) <> 0.
Proof.
  induction n as [|k IH]; intros s H Hz; [exact Hz|].
  unfold run, zeros in *. cbn [repeat fold_left]. apply IH; [apply step_lt; assumption | apply step0_nonzero; assumption].
Qed.

(* ---------------------------------------------------------------- linearity of the bit-serial machine *)
Ltac xb := apply N.bits_inj; let n := fresh "n" in intro n; rewrite ?N.lxor_spec;
  repeat match goal with |- context [N.testbit ?t n] => destruct (N.testbit t n) end; reflexivity.

Lemma step_lxor s t a b : step (N.lxor s t) (xorb a b) = N.lxor (step s a) (step t b).
Proof.
  unfold step. rewrite N.shiftr_lxor, N.lxor_spec.
  destruct (N.testbit s 0), (N.testbit t 0), a, b; cbn [xorb]; xb.
Qed.

Fixpoint xor_bits_l (a b : list bool) : list bool :=
  match a, b with
  | x :: a', y :: b' => xorb x y :: xor_bits_l a' b'
  | _, _ => []
  end.

Lemma run_lxor : forall a b s t, length a = length b ->
  run (N.lxor s t) (xor_bits_l a b) = N.lxor (run s a) (run t b).
Proof.
  induction a as [|x a IH]; intros [|y b] s t Hl; try discriminate; unfold run in *; cbn [xor_bits_l fold_left]; [reflexivity|].
  rewrite step_lxor. apply IH. cbn [length] in Hl. lia.
Qed.

(* ---------------------------------------------------------------- byte-wise definition = bit-serial machine *)
Lemma step0_lxor_bits s v :
  crc32_step0 (N.lxor s v) = N.lxor (step s (N.testbit v 0)) (N.shiftr v 1).
Proof.
  unfold crc32_step0, step. rewrite N.shiftr_lxor, N.lxor_spec.
  destruct (N.testbit s 0), (N.testbit v 0); cbn [xorb]; xb.
Qed.

Lemma feed_bits k : forall s v, v < 2 ^ N.of_nat k ->
  run s (bits_lsb k v) = iterN k crc32_step0 (N.lxor s v).
Proof.
  induction k as [|k IH]; intros s v Hv.
  - cbn in Hv. assert (v = 0) by lia. subst v. rewrite N.lxor_0_r. reflexivity.
  - unfold run. cbn [bits_lsb fold_left iterN]. rewrite step0_lxor_bits. fold (run (step s (N.testbit v 0)) (bits_lsb k (N.shiftr v 1))).
    apply IH. rewrite N.shiftr_div_pow2. change (2 ^ 1) with 2.
    rewrite Nnat.Nat2N.inj_succ, N.pow_succ_r' in Hv. lia.
Qed.

Lemma crc32_byte_run s v : (0 <= v < 256)%Z -> crc32_byte s v = run s (bits_of_byte v).
Proof.
  intro Hv. unfold crc32_byte, bits_of_byte. symmetry. apply (feed_bits 8).
  change (2 ^ N.of_nat 8) with 256. lia.
Qed.

Lemma crc32_raw_run : forall bs s, bytes_ok bs -> crc32_raw s bs = run s (bits_of_bytes bs).
Proof.
  induction bs as [|v bs IH]; intros s H; [reflexivity|].
  inversion H as [|? ? Hv Hr]; subst. unfold crc32_raw in *. cbn [fold_left bits_of_bytes].
  rewrite run_app, <- crc32_byte_run by exact Hv. apply IH. exact Hr.
Qed.

Lemma crc32_raw_app s a b : crc32_raw s (a ++ b) = crc32_raw (crc32_raw s a) b.
Proof. unfold crc32_raw. apply fold_left_app. Qed.

Lemma crc32_raw_lt bs s : bytes_ok bs -> s < 2 ^ 32 -> crc32_raw s bs < 2 ^ 32.
Proof. intros Hb Hs. rewrite crc32_raw_run by assumption. apply run_lt. assumption. Qed.

Lemma mask32_lt : mask32 < 2 ^ 32. Proof. reflexivity. Qed.

Lemma crc32_update_lt c bs : bytes_ok bs -> c < 2 ^ 32 -> crc32_update c bs < 2 ^ 32.
Proof.
  intros Hb Hc. unfold crc32_update. apply lxor_lt; [|exact mask32_lt].
  apply crc32_raw_lt; [assumption|]. apply lxor_lt; [assumption | exact mask32_lt].
Qed.

Lemma initial_checksum_lt : crc32_initial_checksum < 2 ^ 32. Proof. vm_compute. reflexivity. Qed.

Theorem checksum_ieee_lt bs : bytes_ok bs -> checksum_ieee bs < 2 ^ 32.
Proof. intro H. apply crc32_update_lt; [assumption | exact initial_checksum_lt]. Qed.

(* the state of the shift register after the four seed bytes *)
Definition seeded_state : N := N.lxor crc32_initial_checksum mask32.
Lemma seeded_state_lt : seeded_state < 2 ^ 32. Proof. vm_compute. reflexivity. Qed.

Lemma checksum_ieee_run bs : bytes_ok bs -> checksum_ieee bs = N.lxor (run seeded_state (bits_of_bytes bs)) mask32.
Proof. intro H. unfold checksum_ieee, crc32_update. rewrite crc32_raw_run by assumption. reflexivity. Qed.
