(* The invariant [Inv] of proofs/Inflight.v is preserved by every operation, hence holds in every state
   reachable by any finite history from [init n p t] with 1 <= n. *)
From Coq Require Import ZArith List Bool Lia Permutation.
From Coq Require Import ZifyBool ZifyNat.
From GCNP Require Import model.Inflight proofs.Inflight.
Import ListNotations.
Open Scope Z_scope.

(* Inv looks only at these components *)
Lemma Inv_ext s s' :
  cfgN s' = cfgN s -> pool s' = pool s -> inflight s' = inflight s -> finished s' = finished s ->
  closed s' = closed s -> next_rid s' = next_rid s -> Inv s -> Inv s'.
Proof.
  intros H1 H2 H3 H4 H5 H6 HI. destruct HI as [iN ind ilen icons isid iwf ierr iclosed ifin inext irid iridnd].
  constructor; unfold all_reqs in *; rewrite ?H1, ?H2, ?H3, ?H4, ?H5, ?H6; auto.
Qed.

Lemma set_pool_inv s pl :
  Inv s -> (closed s = false -> Permutation pl (pool s)) -> Inv (set_pool s pl).
Proof.
  intros HI HP. destruct HI as [iN ind ilen icons isid iwf ierr iclosed ifin inext irid iridnd]. constructor; unfold all_reqs in *; cbn [set_pool cfgN pool inflight finished closed next_rid]; auto.
  intros Hc. rewrite (HP Hc). auto.
Qed.

(* ------------------------------------------------------------------ registering a new request *)
Lemma check_None s id : check s id = None -> zlen (inflight s) <> cfgN s /\ ~ In id (keys (inflight s)).
Proof.
  unfold check. destruct (Z.eqb_spec (zlen (inflight s)) (cfgN s)); [discriminate|].
  destruct (memZ id (keys (inflight s))) eqn:E; [discriminate|]. intros _. split; [assumption|].
  now apply memZ_false_iff.
Qed.

Lemma check_Some s id e :
  check s id = Some e ->
  (e = ETooMany /\ zlen (inflight s) = cfgN s) \/ (e = EInUse /\ In id (keys (inflight s))).
Proof.
  unfold check. destruct (Z.eqb_spec (zlen (inflight s)) (cfgN s)); [intros [= <-]; auto|].
  destruct (memZ id (keys (inflight s))) eqn:E; [|discriminate]. intros [= <-]. right. split; [reflexivity|].
  now apply memZ_true_iff.
Qed.

Lemma check_set_pool s pl id : check (set_pool s pl) id = check s id.
Proof. reflexivity. Qed.

Lemma NoDup_snoc {A} (l : list A) x : NoDup l -> ~ In x l -> NoDup (l ++ [x]).
Proof.
  intros H1 H2. eapply Permutation_NoDup; [apply Permutation_cons_append|]. now constructor.
Qed.

Lemma register_inv s pl id (mg : bool) :
  Inv s -> closed s = false -> ~ In id (keys (inflight s)) -> zlen (inflight s) < cfgN s ->
  Permutation (pl ++ managed_keys (inflight s) ++ (if mg then [id] else @nil Z)) (ids (cfgN s)) ->
  Inv (register (set_pool s pl) id mg).
Proof.
  intros HI Hc Hnot Hlen HP. destruct HI as [iN ind ilen icons isid iwf ierr iclosed ifin inext irid iridnd].
  unfold register. cbn [set_pool cfgN cfgP cfgT pool inflight finished closed now events handled outq next_rid].
  rewrite (remove_key_notin _ _ Hnot).
  assert (Hnrwf : req_wf (new_req (set_pool s pl) id mg)) by apply new_req_wf.
  remember (new_req (set_pool s pl) id mg) as nr eqn:Enr.
  assert (Hnr_rid : rid nr = next_rid s) by (subst nr; reflexivity).
  assert (Hnr_sid : sid nr = id) by (subst nr; reflexivity).
  assert (Hnr_done : done nr = false) by (subst nr; reflexivity).
  assert (Hnr_m : managed nr = mg) by (subst nr; reflexivity).
  clear Enr.
  constructor; unfold all_reqs in *; cbn [cfgN pool inflight finished closed next_rid].
  - assumption.
  - rewrite keys_app. cbn [keys map fst]. apply NoDup_snoc; assumption.
  - rewrite zlen_app, zlen_cons, zlen_nil. lia.
  - intros _. rewrite managed_keys_app. unfold managed_keys at 2. cbn [filter snd]. rewrite Hnr_m.
    destruct mg; cbn [keys map fst]; [exact HP|]. rewrite app_nil_r in *. exact HP.
  - intros k r Hin. apply in_app_iff in Hin. destruct Hin as [Hin|[Heq|[]]]; [eauto|]. inversion Heq; subst. reflexivity.
  - intros r Hin. rewrite map_app, <- app_assoc in Hin. apply in_app_iff in Hin. destruct Hin as [Hin|Hin].
    + apply iwf. apply in_app_iff. now left.
    + cbn [map snd app] in Hin. destruct Hin as [<-|Hin]; [exact Hnrwf|]. apply iwf. apply in_app_iff. now right.
  - intros k r Hin Hd. apply in_app_iff in Hin. destruct Hin as [Hin|[Heq|[]]]; [eauto|]. inversion Heq; subst. congruence.
  - congruence.
  - assumption.
  - lia.
  - intros r Hin. rewrite map_app, <- app_assoc in Hin. apply in_app_iff in Hin. destruct Hin as [Hin|Hin].
    + assert (0 <= rid r < next_rid s) by (apply irid; apply in_app_iff; now left). lia.
    + cbn [map snd app] in Hin. destruct Hin as [<-|Hin].
      * rewrite Hnr_rid. lia.
      * assert (0 <= rid r < next_rid s) by (apply irid; apply in_app_iff; now right). lia.
  - rewrite (map_app snd), <- app_assoc, map_app. cbn [map snd app].
    eapply Permutation_NoDup; [apply Permutation_middle|]. constructor.
    + rewrite Hnr_rid. rewrite <- map_app. intros Hin. apply in_map_iff in Hin. destruct Hin as (r & He & Hin).
      specialize (irid r Hin). lia.
    + rewrite <- map_app. assumption.
Qed.

(* ------------------------------------------------------------------ changing the request under a key *)
Lemma update_inv s k r r' :
  Inv s -> lookup k (inflight s) = Some r -> same_id r r' -> req_wf r' -> (done r' = true -> err r' <> None) ->
  Inv (set_inflight s (update_key k r' (inflight s))).
Proof.
  intros HI Hl (Hrid & Hsid & Hmg) Hwf Herr. destruct HI as [iN ind ilen icons isid iwf ierr iclosed ifin inext irid iridnd].
  pose proof (lookup_Some_In _ _ _ Hl) as Hin0.
  constructor; unfold all_reqs in *; cbn [set_inflight cfgN pool inflight finished closed next_rid].
  - assumption.
  - now rewrite keys_update_key.
  - unfold zlen. rewrite length_update_key. exact ilen.
  - intros Hc. rewrite (managed_keys_update k r' r _ Hl Hmg). auto.
  - intros k0 r0 Hin. apply In_update_key in Hin; [|assumption]. destruct Hin as [[-> ->]|[_ Hin]]; [|eauto].
    rewrite Hsid. eauto.
  - intros r0 Hin. apply in_app_iff in Hin. destruct Hin as [Hin|Hin].
    + apply in_map_iff in Hin. destruct Hin as ([k0 r1] & <- & Hin). cbn [snd].
      apply In_update_key in Hin; [|assumption]. destruct Hin as [[-> ->]|[_ Hin]]; [assumption|].
      apply iwf. apply in_app_iff. left. apply in_map_iff. now exists (k0, r1).
    + apply iwf. apply in_app_iff. now right.
  - intros k0 r0 Hin Hd. apply In_update_key in Hin; [|assumption]. destruct Hin as [[-> ->]|[_ Hin]]; eauto.
  - intros Hc. rewrite (iclosed Hc) in Hl. discriminate.
  - assumption.
  - assumption.
  - intros r0 Hin. apply in_app_iff in Hin. destruct Hin as [Hin|Hin].
    + apply in_map_iff in Hin. destruct Hin as ([k0 r1] & <- & Hin). cbn [snd].
      apply In_update_key in Hin; [|assumption]. destruct Hin as [[-> ->]|[_ Hin]].
      * rewrite Hrid. apply irid. apply in_app_iff. left. apply in_map_iff. now exists (k, r).
      * apply irid. apply in_app_iff. left. apply in_map_iff. now exists (k0, r1).
    + apply irid. apply in_app_iff. now right.
  - rewrite map_app in *. rewrite (map_rid_update_key k r' r _ Hl Hrid). assumption.
Qed.

(* ------------------------------------------------------------------ a request leaves the map *)
Definition finish_state (s : state) (k : Z) (pl : list Z) (r' : req) : state :=
  mkState (cfgN s) (cfgP s) (cfgT s) pl (remove_key k (inflight s)) (finished s ++ [r'])
          (closed s) (now s) (events s) (handled s) (outq s) (next_rid s).

Lemma finish_inv s k r r' pl :
  Inv s -> closed s = false -> lookup k (inflight s) = Some r -> same_id r r' -> req_wf r' -> done r' = true ->
  Permutation (pl ++ managed_keys (remove_key k (inflight s))) (ids (cfgN s)) ->
  Inv (finish_state s k pl r').
Proof.
  intros HI Hc Hl (Hrid & Hsid & Hmg) Hwf Hdone HP. destruct HI as [iN ind ilen icons isid iwf ierr iclosed ifin inext irid iridnd].
  pose proof (lookup_Some_In _ _ _ Hl) as Hin0.
  pose proof (In_keys _ _ _ Hin0) as Hk0.
  constructor; unfold all_reqs, finish_state in *; cbn [cfgN pool inflight finished closed next_rid].
  - assumption.
  - now apply NoDup_keys_remove_key.
  - pose proof (length_remove_key k _ ind Hk0). unfold zlen in *. lia.
  - intros _. exact HP.
  - intros k0 r0 Hin. apply In_remove_key in Hin. destruct Hin. eauto.
  - intros r0 Hin. rewrite app_assoc in Hin. apply in_app_iff in Hin. destruct Hin as [Hin|[<-|[]]]; [|assumption].
    apply iwf. apply in_app_iff in Hin. apply in_app_iff. destruct Hin as [Hin|Hin]; [left|now right].
    apply in_map_iff in Hin. destruct Hin as ([k0 r1] & <- & Hin). apply In_remove_key in Hin. apply in_map_iff. exists (k0, r1). tauto.
  - intros k0 r0 Hin Hd. apply In_remove_key in Hin. destruct Hin. eauto.
  - congruence.
  - intros r0 Hin. apply in_app_iff in Hin. destruct Hin as [Hin|[<-|[]]]; auto.
  - assumption.
  - intros r0 Hin. rewrite app_assoc in Hin. apply in_app_iff in Hin. destruct Hin as [Hin|[<-|[]]].
    + apply irid. apply in_app_iff in Hin. apply in_app_iff. destruct Hin as [Hin|Hin]; [left|now right].
      apply in_map_iff in Hin. destruct Hin as ([k0 r1] & <- & Hin). apply In_remove_key in Hin. apply in_map_iff. exists (k0, r1). tauto.
    + rewrite Hrid. apply irid. apply in_app_iff. left. apply in_map_iff. now exists (k, r).
  - rewrite !map_app in *. cbn [map].
    eapply Permutation_NoDup; [|exact iridnd].
    rewrite (map_rid_remove_key k r _ ind Hl). rewrite Hrid.
    rewrite app_assoc. rewrite <- Permutation_cons_append. reflexivity.
Qed.

(* ------------------------------------------------------------------ enqueue *)
Lemma enqueue_inv s k : Inv s -> Inv (fst (enqueue s k)).
Proof.
  intros HI. unfold enqueue; rewrite ?check2_eq. destruct (closed s) eqn:Hc; [exact HI|].
  pose proof (conservation_facts s HI Hc) as (Hnd & Hrange & Hsum).
  pose proof (inv_len s HI) as Hlen. pose proof (inv_cons s HI Hc) as HP.
  destruct (Z.eqb_spec k 0) as [->|Hk].
  - destruct (pool s) as [|id rest] eqn:Hp; [exact HI|].
    rewrite ?check2_eq, check_set_pool. destruct (check s id) as [e|] eqn:Hck; cbn [fst].
    + (* refused: the id goes back to the end of the queue *)
      unfold release. cbn [set_pool pool cfgN].
      assert (Hroom : zlen rest <? cfgN s = true).
      { rewrite zlen_cons in Hsum. pose proof (zlen_nonneg (managed_keys (inflight s))). lia. }
      rewrite Hroom.
      assert (Heq : set_pool (set_pool s rest) (rest ++ [id]) = set_pool s (rest ++ [id])) by reflexivity.
      rewrite Heq. apply set_pool_inv; [assumption|]. intros _. rewrite Hp. symmetry. apply Permutation_cons_append.
    + apply check_None in Hck. destruct Hck as [Hne Hnot].
      apply register_inv; auto; [lia|].
      rewrite app_assoc. rewrite <- Permutation_cons_append. exact HP.
  - destruct (check s k) as [e|] eqn:Hck; cbn [fst]; [exact HI|].
    apply check_None in Hck. destruct Hck as [Hne Hnot].
    assert (Heq : register s k false = register (set_pool s (pool s)) k false) by (destruct s; reflexivity).
    rewrite Heq. apply register_inv; auto; [lia|]. now rewrite app_nil_r.
Qed.

(* ------------------------------------------------------------------ deliver *)
Lemma on_frame_err p n t r tag :
  (done r = true -> err r <> None) ->
  done (fst (on_frame p n t r false tag)) = true -> err (fst (on_frame p n t r false tag)) <> None.
Proof.
  intros H. unfold on_frame. destruct (done r) eqn:Ed; [cbn [fst]; rewrite Ed; auto|].
  destruct (pending r <? p); cbn [fst].
  - unfold req_arm, req_push. cbn. congruence.
  - unfold req_close. rewrite Ed. cbn. discriminate.
Qed.

Lemma on_frame_last_done p n t r tag : done (fst (on_frame p n t r true tag)) = true.
Proof.
  unfold on_frame. destruct (done r) eqn:Ed; [exact Ed|].
  destruct (pending r <? p); cbn [fst]; apply req_close_done.
Qed.

Lemma release_success s k r :
  Inv s -> closed s = false -> lookup k (inflight s) = Some r -> managed r = true ->
  zlen (pool s) < cfgN s /\
  Permutation ((pool s ++ [k]) ++ managed_keys (remove_key k (inflight s))) (ids (cfgN s)).
Proof.
  intros HI Hc Hl Hm.
  pose proof (conservation_facts s HI Hc) as (Hnd & Hrange & Hsum).
  pose proof (managed_keys_remove k _ r (inv_nodup s HI) Hl Hm) as HPm.
  split.
  - apply Permutation_length in HPm. cbn [length] in HPm. unfold zlen in *. lia.
  - rewrite <- app_assoc. cbn [app]. rewrite <- HPm. apply (inv_cons s HI Hc).
Qed.

Lemma deliver_inv s k last tag : Inv s -> Inv (fst (deliver s k last tag)).
Proof.
  intros HI. unfold deliver. destruct (closed s) eqn:Hc; [exact HI|].
  destruct (lookup k (inflight s)) as [r|] eqn:Hl; [|exact HI].
  pose proof (lookup_Some_In _ _ _ Hl) as Hin.
  assert (Hwf : req_wf r). { apply (inv_wf s HI). apply all_reqs_In. left. now exists k. }
  destruct last.
  - pose proof (on_frame_same (cfgP s) (now s) (cfgT s) r true tag) as Hsame.
    pose proof (on_frame_wf (cfgP s) (now s) (cfgT s) r true tag Hwf) as Hwf'.
    pose proof (on_frame_last_done (cfgP s) (now s) (cfgT s) r tag) as Hd'.
    destruct (managed r) eqn:Hm.
    + destruct (release_success s k r HI Hc Hl Hm) as [Hroom HP].
      unfold release. cbn [set_inflight pool cfgN].
      assert (Hroom' : zlen (pool s) <? cfgN s = true) by lia. rewrite Hroom'.
      destruct (on_frame (cfgP s) (now s) (cfgT s) r true tag) as [r' o] eqn:Hof. cbn [fst] in *.
      change (Inv (finish_state s k (pool s ++ [k]) r')). eapply finish_inv; eauto.
    + destruct (on_frame (cfgP s) (now s) (cfgT s) r true tag) as [r' o] eqn:Hof. cbn [fst] in *.
      change (Inv (finish_state s k (pool s) r')). eapply finish_inv; eauto.
      rewrite (managed_keys_remove_unmanaged k _ r (inv_nodup s HI) Hl Hm). apply (inv_cons s HI Hc).
  - pose proof (on_frame_same (cfgP s) (now s) (cfgT s) r false tag) as Hsame.
    pose proof (on_frame_wf (cfgP s) (now s) (cfgT s) r false tag Hwf) as Hwf'.
    pose proof (on_frame_err (cfgP s) (now s) (cfgT s) r tag (inv_err s HI k r Hin)) as He'.
    destruct (on_frame (cfgP s) (now s) (cfgT s) r false tag) as [r' o] eqn:Hof. cbn [fst] in *.
    eapply update_inv; eauto.
Qed.

(* ------------------------------------------------------------------ close, tick, recv, event, outgoing queue *)
Lemma close_inv s : Inv s -> Inv (fst (close_handler s)).
Proof.
  intros HI. unfold close_handler. destruct (closed s) eqn:Hc; [exact HI|]. cbn [fst]. destruct HI as [iN ind ilen icons isid iwf ierr iclosed ifin inext irid iridnd].
  constructor; unfold all_reqs in *; cbn [cfgN pool inflight finished closed next_rid map app].
  - assumption.
  - constructor.
  - unfold zlen. cbn [length]. lia.
  - discriminate.
  - intros k r [].
  - intros r Hin. apply in_app_iff in Hin. destruct Hin as [Hin|Hin].
    + apply iwf. apply in_app_iff. now right.
    + apply in_map_iff in Hin. destruct Hin as (kr & <- & Hin). apply req_close_wf. apply iwf.
      apply in_app_iff. left. now apply in_map.
  - intros k r [].
  - reflexivity.
  - intros r Hin. apply in_app_iff in Hin. destruct Hin as [Hin|Hin]; [auto|].
    apply in_map_iff in Hin. destruct Hin as (kr & <- & Hin). apply req_close_done.
  - assumption.
  - intros r Hin. apply in_app_iff in Hin. destruct Hin as [Hin|Hin].
    + apply irid. apply in_app_iff. now right.
    + apply in_map_iff in Hin. destruct Hin as (kr & <- & Hin).
      destruct (req_close_same (snd kr) (Some EClosed)) as (-> & _). apply irid. apply in_app_iff. left. now apply in_map.
  - rewrite map_app in *. eapply Permutation_NoDup; [apply Permutation_app_comm|].
    rewrite map_map.
    replace (map (fun x => rid (req_close (snd x) (Some EClosed))) (inflight s)) with (map rid (map snd (inflight s))); [assumption|].
    rewrite map_map. apply map_ext. intros kr. now destruct (req_close_same (snd kr) (Some EClosed)) as (-> & _).
Qed.

Lemma fire_done n r : done r = true -> fire n r = r.
Proof. intros H. unfold fire. destruct (deadline r); [|reflexivity]. rewrite H, andb_false_r. reflexivity. Qed.

Lemma fire_err n r : (done r = true -> err r <> None) -> done (fire n r) = true -> err (fire n r) <> None.
Proof.
  intros H. unfold fire. destruct (deadline r); [|exact H].
  destruct (done r) eqn:Ed; [rewrite andb_false_r; rewrite Ed; exact H|].
  rewrite andb_true_r. destruct (z <=? n); [|congruence].
  unfold req_close. rewrite Ed. cbn. discriminate.
Qed.

Lemma tick_inv s d : Inv s -> Inv (fst (tick s d)).
Proof.
  intros HI. unfold tick. cbn [fst]. destruct HI as [iN ind ilen icons isid iwf ierr iclosed ifin inext irid iridnd].
  set (n := now s + d).
  change (map (fun kr : Z * req => (fst kr, fire n (snd kr))) (inflight s)) with (map_vals (fire n) (inflight s)).
  constructor; unfold all_reqs in *; cbn [cfgN pool inflight finished closed next_rid].
  - assumption.
  - now rewrite keys_map_vals.
  - unfold zlen, map_vals. now rewrite map_length.
  - intros Hc. rewrite managed_keys_map_vals; [auto|]. intros r. now destruct (fire_same n r) as (_ & _ & ->).
  - intros k r Hin. apply In_map_vals in Hin. destruct Hin as (r0 & Hin & ->).
    destruct (fire_same n r0) as (_ & -> & _). eauto.
  - intros r Hin. apply in_app_iff in Hin. destruct Hin as [Hin|Hin].
    + apply in_map_iff in Hin. destruct Hin as ([k r1] & <- & Hin). apply In_map_vals in Hin. destruct Hin as (r0 & Hin & ->).
      cbn [snd]. apply fire_wf. apply iwf. apply in_app_iff. left. apply in_map_iff. now exists (k, r0).
    + apply in_map_iff in Hin. destruct Hin as (r0 & <- & Hin). apply fire_wf. apply iwf. apply in_app_iff. now right.
  - intros k r Hin Hd. apply In_map_vals in Hin. destruct Hin as (r0 & Hin & ->). revert Hd. apply fire_err. eauto.
  - intros Hc. now rewrite (iclosed Hc).
  - intros r Hin. apply in_map_iff in Hin. destruct Hin as (r0 & <- & Hin). rewrite fire_done; auto.
  - assumption.
  - intros r Hin. apply in_app_iff in Hin. destruct Hin as [Hin|Hin].
    + apply in_map_iff in Hin. destruct Hin as ([k r1] & <- & Hin). apply In_map_vals in Hin. destruct Hin as (r0 & Hin & ->).
      cbn [snd]. destruct (fire_same n r0) as (-> & _). apply irid. apply in_app_iff. left. apply in_map_iff. now exists (k, r0).
    + apply in_map_iff in Hin. destruct Hin as (r0 & <- & Hin). destruct (fire_same n r0) as (-> & _).
      apply irid. apply in_app_iff. now right.
  - rewrite map_app in *. rewrite map_rid_map_vals; [|intros r; now destruct (fire_same n r) as (-> & _)].
    rewrite (map_map (fire n) rid). rewrite (map_ext (fun x => rid (fire n x)) rid); [assumption|].
    intros r; now destruct (fire_same n r) as (-> & _).
Qed.

Lemma recv_inv s k : Inv s -> Inv (fst (recv s k)).
Proof.
  intros HI. unfold recv. destruct (lookup k (inflight s)) as [r|] eqn:Hl; [|exact HI].
  destruct (nth_error (queue r) (consumed r)) as [tag|] eqn:Hn; [|exact HI]. cbn [fst].
  pose proof (lookup_Some_In _ _ _ Hl) as Hin.
  assert (Hwf : req_wf r). { apply (inv_wf s HI). apply all_reqs_In. left. now exists k. }
  assert (Hlt : (consumed r < length (queue r))%nat). { apply nth_error_Some. congruence. }
  eapply update_inv; eauto.
  - apply req_take_same.
  - now apply req_take_wf.
  - unfold req_take. cbn. apply (inv_err s HI k r Hin).
Qed.

Lemma event_inv s tag : Inv s -> Inv (fst (event s tag)).
Proof. intros HI. unfold event. cbn [fst]. eapply Inv_ext; [..|exact HI]; reflexivity. Qed.

Lemma ctake_inv s : Inv s -> Inv (fst (ctake s)).
Proof.
  intros HI. unfold ctake. destruct (outq s); [exact HI|]. cbn [fst]. eapply Inv_ext; [..|exact HI]; reflexivity.
Qed.

Lemma csend_inv s k : Inv s -> Inv (fst (csend s k)).
Proof.
  intros HI. unfold csend. pose proof (enqueue_inv s k HI) as H.
  destruct (enqueue s k) as [s1 o]. cbn [fst] in H. destruct o; try exact H.
  destruct (zlen (outq s1) <? cfgN s1); [|exact H]. cbn [fst]. eapply Inv_ext; [..|exact H]; reflexivity.
Qed.

Theorem step_inv s o : Inv s -> Inv (fst (step s o)).
Proof.
  intros HI. destruct o; cbn [step].
  - now apply enqueue_inv.
  - now apply csend_inv.
  - now apply ctake_inv.
  - now apply deliver_inv.
  - now apply event_inv.
  - now apply recv_inv.
  - now apply tick_inv.
  - now apply close_inv.
Qed.

Lemma run_inv s ops : Inv s -> Inv (run s ops).
Proof.
  revert s. induction ops as [|o ops IH]; intros s HI; [exact HI|].
  unfold run in *. cbn [fold_left]. apply IH. now apply step_inv.
Qed.

(* reachable states *)
Definition Reachable (n p t : Z) (s : state) : Prop := exists ops, s = run (init n p t) ops.

Theorem reachable_inv n p t s : 1 <= n -> Reachable n p t s -> Inv s.
Proof. intros Hn (ops & ->). apply run_inv. now apply init_inv. Qed.

Lemma run_app s a b : run s (a ++ b) = run (run s a) b.
Proof. unfold run. apply fold_left_app. Qed.

Lemma run_cons s o ops : run s (o :: ops) = run (fst (step s o)) ops.
Proof. reflexivity. Qed.

Lemma reachable_step n p t s o : Reachable n p t s -> Reachable n p t (fst (step s o)).
Proof. intros (ops & ->). exists (ops ++ [o]). rewrite run_app. reflexivity. Qed.

Lemma reachable_run n p t s ops : Reachable n p t s -> Reachable n p t (run s ops).
Proof. intros (ops0 & ->). exists (ops0 ++ ops). now rewrite run_app. Qed.

(* configuration never changes *)
Lemma step_cfg s o : let s' := fst (step s o) in cfgN s' = cfgN s /\ cfgP s' = cfgP s /\ cfgT s' = cfgT s.
Proof.
  destruct o; cbn [step].
  - unfold enqueue; rewrite ?check2_eq. destruct (closed s); [auto|]. destruct (k =? 0).
    + destruct (pool s); [auto|]. rewrite ?check2_eq; destruct (check _ _); cbn [fst]; [|auto]. unfold release. destruct (_ <? _); auto.
    + rewrite ?check2_eq; destruct (check _ _); auto.
  - unfold csend, enqueue; rewrite ?check2_eq. destruct (closed s); [auto|]. destruct (k =? 0).
    + destruct (pool s); [auto|]. rewrite ?check2_eq; destruct (check _ _); cbn [fst].
      * unfold release. destruct (_ <? _); auto.
      * destruct (_ <? _); auto.
    + rewrite ?check2_eq; destruct (check _ _); [auto|]. destruct (_ <? _); auto.
  - unfold ctake. destruct (outq s); auto.
  - unfold deliver. destruct (closed s); [auto|]. destruct (lookup _ _); [|auto]. destruct last.
    + destruct (managed r).
      * unfold release. cbn. destruct (_ <? _); destruct (on_frame _ _ _ _ _ _); auto.
      * destruct (on_frame _ _ _ _ _ _); auto.
    + destruct (on_frame _ _ _ _ _ _); auto.
  - auto.
  - unfold recv. destruct (lookup _ _); [|auto]. destruct (nth_error _ _); auto.
  - auto.
  - unfold close_handler. destruct (closed s); auto.
Qed.

Lemma run_cfg s ops : cfgN (run s ops) = cfgN s /\ cfgP (run s ops) = cfgP s /\ cfgT (run s ops) = cfgT s.
Proof.
  revert s. induction ops as [|o ops IH]; intros s; [auto|].
  rewrite run_cons. destruct (IH (fst (step s o))) as (-> & -> & ->). apply step_cfg.
Qed.

Lemma reachable_cfg n p t s : Reachable n p t s -> cfgN s = n /\ cfgP s = p /\ cfgT s = t.
Proof. intros (ops & ->). apply (run_cfg (init n p t) ops). Qed.
