(* The sequential semantics is the run-to-completion special case of the schedule semantics:
   every sequential [step] that touches the pool / the map (Send, CSend, Deliver, Close) is matched by a finite run of
   ONE thread of proofs/InflightSched.v from the projected state to the projected state, the other threads standing
   still; every other operation (non-final delivery, Recv, Tick, Event, CTake) leaves the projection unchanged.
   Hence the correspondence run on sequential histories also constrains the LTS, and every invariant of the LTS holds of
   the projection of every sequentially reachable state. *)
From Coq Require Import ZArith List Bool Lia Permutation Relations.
From Coq Require Import ZifyBool ZifyNat.
From GCNP Require Import model.Inflight proofs.Inflight proofs.InflightInv proofs.InflightSched.
Import ListNotations.
Open Scope Z_scope.

Definition pflag (kr : Z * req) : Z * bool := (fst kr, managed (snd kr)).
Definition proj (s : state) : shared :=
  mkSh (pool s) (map pflag (inflight s)) (cfgN s) (keys (inflight s)).

Lemma skeys_proj m : skeys (map pflag m) = keys m.
Proof. unfold skeys, keys. rewrite map_map. reflexivity. Qed.

Lemma slen_proj m : slen (map pflag m) = zlen m.
Proof. unfold slen, zlen. now rewrite map_length. Qed.

Lemma sremove_proj k m : sremove k (map pflag m) = map pflag (remove_key k m).
Proof.
  induction m as [|[k' r] m IH]; [reflexivity|]. cbn [map pflag fst snd sremove filter remove_key].
  destruct (k' =? k); cbn [negb]; [exact IH|]. cbn [map pflag fst snd]. f_equal. exact IH.
Qed.

Lemma lremove_keys k m : lremove k (keys m) = keys (remove_key k m).
Proof.
  induction m as [|[k' r] m IH]; [reflexivity|]. cbn [keys map fst lremove filter remove_key].
  destruct (k' =? k); cbn [negb]; [exact IH|]. cbn [keys map fst]. f_equal. exact IH.
Qed.

Lemma check_None_proj s id :
  check s id = None -> slen (map pflag (inflight s)) <> cfgN s /\ ~ In id (skeys (map pflag (inflight s))).
Proof. intros H. apply check_None in H. now rewrite slen_proj, skeys_proj. Qed.

Lemma check_Some_proj s id e :
  check s id = Some e -> slen (map pflag (inflight s)) = cfgN s \/ In id (skeys (map pflag (inflight s))).
Proof. intros H. apply check_Some in H. rewrite slen_proj, skeys_proj. tauto. Qed.

Lemma proj_register s pl id m :
  ~ In id (keys (inflight s)) ->
  proj (register (set_pool s pl) id m) =
  mkSh pl (supsert id m (map pflag (inflight s))) (cfgN s) (keys (inflight s) ++ [id]).
Proof.
  intros Hnot. unfold proj, register. cbn [pool inflight cfgN set_pool].
  rewrite (remove_key_notin _ _ Hnot). unfold supsert. rewrite sremove_notin by now rewrite skeys_proj.
  rewrite map_app, keys_app. reflexivity.
Qed.

Notation "c1 ==>* c2" := (clos_refl_trans _ cstep c1 c2) (at level 70).

Lemma one s t ts s' t' : tstep s t s' t' -> (s, t :: ts) ==>* (s', t' :: ts).
Proof. intros H. apply rt_step. now apply c_thread. Qed.

Lemma two c1 c2 c3 : c1 ==>* c2 -> c2 ==>* c3 -> c1 ==>* c3.
Proof. apply rt_trans. Qed.

(* ------------------------------------------------------------------ sends *)
Theorem send_is_a_schedule s k ts :
  exists t1, (proj s, S0 k :: ts) ==>* (proj (fst (enqueue s k)), t1 :: ts) /\
             match snd (enqueue s k) with
             | OAccepted id => t1 = SAccepted id (k =? 0)
             | _ => t1 = SRefused
             end.
Proof.
  unfold enqueue. destruct (closed s) eqn:Hc.
  - exists SRefused. split; [|reflexivity]. apply one. apply t_closed.
  - destruct (Z.eqb_spec k 0) as [->|Hk].
    + destruct (pool s) as [|id rest] eqn:Hp.
      * exists SRefused. split; [|reflexivity]. apply one. apply t_borrow_fail.
      * rewrite check2_eq, check_set_pool.
        assert (Hb : (proj s, S0 0 :: ts) ==>* (mkSh rest (map pflag (inflight s)) (cfgN s) (keys (inflight s)), S2 id true :: ts)).
        { apply one. unfold proj. rewrite Hp. now apply t_borrow. }
        destruct (check s id) as [e|] eqn:Hck; cbn [fst snd].
        -- (* refused by the check: the id goes back, if there is room *)
           exists SRefused. split; [|reflexivity].
           eapply two; [exact Hb|]. eapply two; [apply one; apply t_check_refuse; cbn [smap sN]; eapply check_Some_proj; eauto|].
           unfold release. cbn [set_pool pool cfgN]. destruct (Z.ltb_spec (zlen rest) (cfgN s)).
           ++ apply one. unfold proj. cbn [pool inflight cfgN set_pool]. apply t_release. unfold plen, zlen in *. lia.
           ++ apply one. unfold proj. cbn [pool inflight cfgN set_pool]. apply t_release_fail.
        -- exists (SAccepted id true). split; [|reflexivity].
           destruct (check_None_proj s id Hck) as [Hlen Hnot]. pose proof (proj1 (check_None s id Hck)) as _.
           assert (Hnk : ~ In id (keys (inflight s))) by (apply check_None in Hck; tauto).
           eapply two; [exact Hb|]. eapply two; [apply one; apply t_check_pass; cbn [smap sN]; assumption|].
           rewrite (proj_register s rest id true Hnk). apply one. now apply t_insert.
    + rewrite check2_eq.
      assert (He : (proj s, S0 k :: ts) ==>* (proj s, S2 k false :: ts)) by (apply one; now apply t_explicit).
      destruct (check s k) as [e|] eqn:Hck; cbn [fst snd].
      * exists SRefused. split; [|reflexivity]. eapply two; [exact He|].
        eapply two; [apply one; apply t_check_refuse; cbn [proj smap sN]; eapply check_Some_proj; eauto|].
        apply one. apply t_refused_explicit.
      * exists (SAccepted k false). split; [|reflexivity].
        destruct (check_None_proj s k Hck) as [Hlen Hnot].
        assert (Hnk : ~ In k (keys (inflight s))) by (apply check_None in Hck; tauto).
        eapply two; [exact He|]. eapply two; [apply one; apply t_check_pass; cbn [proj smap sN]; assumption|].
        assert (Heq : register s k false = register (set_pool s (pool s)) k false) by (destruct s; reflexivity).
        rewrite Heq, (proj_register s (pool s) k false Hnk). apply one. unfold proj. now apply t_insert.
Qed.

(* CqlClientConnection.Send adds only the outgoing queue, which the projection does not see *)
Lemma proj_csend s k : proj (fst (csend s k)) = proj (fst (enqueue s k)).
Proof.
  unfold csend. destruct (enqueue s k) as [s1 o]. destruct o; try reflexivity.
  destruct (_ <? _); reflexivity.
Qed.

(* ------------------------------------------------------------------ deliveries *)
Theorem deliver_is_a_schedule s k last tag ts :
  (proj s, R0 :: ts) ==>* (proj (fst (deliver s k last tag)), R0 :: ts).
Proof.
  unfold deliver. destruct (closed s); [apply rt_refl|].
  destruct (lookup k (inflight s)) as [r|] eqn:Hl; [|apply rt_refl].
  destruct last.
  - assert (Hin : In (k, managed r) (map pflag (inflight s))).
    { apply lookup_Some_In in Hl. apply in_map_iff. now exists (k, r). }
    assert (Hlk : (proj s, R0 :: ts) ==>* (proj s, R2 k (managed r) :: ts)) by (apply one; now apply t_lookup).
    eapply two; [exact Hlk|].
    destruct (managed r) eqn:Hm.
    + assert (Hd : (proj s, R2 k true :: ts) ==>*
                   (mkSh (pool s) (map pflag (remove_key k (inflight s))) (cfgN s) (keys (remove_key k (inflight s))), R3 k :: ts)).
      { apply one. unfold proj. rewrite <- sremove_proj, <- lremove_keys. apply t_delete_managed. }
      eapply two; [exact Hd|].
      unfold release. cbn [set_inflight pool cfgN]. destruct (Z.ltb_spec (zlen (pool s)) (cfgN s)).
      * destruct (on_frame _ _ _ _ _ _) as [r' o]. cbn [fst]. apply one. unfold proj. cbn. apply t_recv_release. unfold plen, zlen in *. lia.
      * destruct (on_frame _ _ _ _ _ _) as [r' o]. cbn [fst]. apply one. unfold proj. cbn. apply t_recv_release_fail.
    + destruct (on_frame _ _ _ _ _ _) as [r' o]. cbn [fst]. apply one. unfold proj. cbn [add_finished set_inflight pool inflight cfgN].
      rewrite <- sremove_proj, <- lremove_keys. apply t_delete_explicit.
  - (* a non-final frame does not touch the pool or the key set *)
    pose proof (on_frame_same (cfgP s) (now s) (cfgT s) r false tag) as (_ & _ & Hm).
    destruct (on_frame _ _ _ _ _ _) as [r' o]. cbn [fst] in *.
    replace (proj (set_inflight s (update_key k r' (inflight s)))) with (proj s); [apply rt_refl|].
    unfold proj. cbn [set_inflight pool inflight cfgN]. rewrite keys_update_key. f_equal.
    clear -Hl Hm. revert Hl. induction (inflight s) as [|[k' r0] m IH]; [reflexivity|].
    cbn [lookup update_key map]. destruct (Z.eqb_spec k' k).
    + intros [= ->]. cbn [map]. unfold pflag at 1 3. cbn [fst snd]. now rewrite Hm.
    + intros Hl. cbn [map]. f_equal. now apply IH.
Qed.

(* ------------------------------------------------------------------ close *)
Theorem close_is_a_schedule s ts :
  exists t1, (proj s, C0 :: ts) ==>* (proj (fst (close_handler s)), t1 :: ts).
Proof.
  unfold close_handler. destruct (closed s).
  - exists C0. apply rt_refl.
  - exists CDone. apply one. unfold proj. cbn [fst pool inflight cfgN map keys]. apply t_drain.
Qed.

(* ------------------------------------------------------------------ everything else stutters *)
Theorem other_ops_keep_projection s o :
  match o with Send _ | CSend _ | Deliver _ _ _ | Close => True | _ => proj (fst (step s o)) = proj s end.
Proof.
  destruct o; try exact I; cbn [step].
  - unfold ctake. destruct (outq s); reflexivity.
  - reflexivity.
  - unfold recv. destruct (lookup k (inflight s)) as [r|] eqn:Hl; [|reflexivity].
    destruct (nth_error _ _); [|reflexivity]. cbn [fst]. unfold proj. cbn [set_inflight pool inflight cfgN].
    rewrite keys_update_key. f_equal.
    clear -Hl. revert Hl. induction (inflight s) as [|[k' r0] m IH]; [reflexivity|].
    cbn [lookup update_key map]. destruct (Z.eqb_spec k' k).
    + intros [= ->]. reflexivity.
    + intros Hl. cbn [map]. f_equal. now apply IH.
  - unfold tick. cbn [fst]. unfold proj. cbn [pool inflight cfgN].
    change (map (fun kr : Z * req => (fst kr, fire (now s + d) (snd kr))) (inflight s)) with (map_vals (fire (now s + d)) (inflight s)).
    rewrite keys_map_vals. f_equal. unfold map_vals. rewrite map_map. apply map_ext. intros [k r]. unfold pflag. cbn [fst snd].
    now destruct (fire_same (now s + d) r) as (_ & _ & ->).
Qed.

(* ------------------------------------------------------------------ histories *)
Lemma zseq_eq len : forall st, zseq st len = zseq' st len.
Proof. induction len as [|l IH]; intros st; cbn [zseq zseq']; [reflexivity|now rewrite IH]. Qed.

(* the thread that plays an operation, and the threads it leaves behind (finished threads stay in the multiset) *)
Theorem sequential_history_is_a_schedule n p t ops :
  exists ts, (cinit n) ==>* (proj (run (init n p t) ops), R0 :: ts).
Proof.
  assert (Hinit : proj (init n p t) = fst (cinit n)).
  { unfold proj, init, cinit. cbn [pool inflight cfgN fst map keys]. now rewrite zseq_eq. }
  assert (Hgen : forall s ts0, exists ts, (proj s, R0 :: ts0) ==>* (proj (run s ops), R0 :: ts)).
  { induction ops as [|o ops IH]; intros s ts0; [exists ts0; apply rt_refl|]. rewrite run_cons.
    assert (Hstep : exists ts1, (proj s, R0 :: ts0) ==>* (proj (fst (step s o)), R0 :: ts1)).
    { destruct o; cbn [step];
        try (pose proof (other_ops_keep_projection s) as Hk;
             match goal with |- context [fst (?f s)] => idtac | _ => idtac end).
      - destruct (send_is_a_schedule s k (R0 :: ts0)) as (t1 & Hrun & _).
        exists (t1 :: ts0). eapply two; [apply rt_step; apply (c_spawn_sender _ _ k)|].
        eapply two; [exact Hrun|]. apply rt_step. apply c_permute. apply perm_swap.
      - rewrite proj_csend. destruct (send_is_a_schedule s k (R0 :: ts0)) as (t1 & Hrun & _).
        exists (t1 :: ts0). eapply two; [apply rt_step; apply (c_spawn_sender _ _ k)|].
        eapply two; [exact Hrun|]. apply rt_step. apply c_permute. apply perm_swap.
      - exists ts0. specialize (Hk CTake). cbn [step] in Hk. rewrite Hk. apply rt_refl.
      - exists ts0. apply deliver_is_a_schedule.
      - exists ts0. specialize (Hk (Event tag)). cbn [step] in Hk. rewrite Hk. apply rt_refl.
      - exists ts0. specialize (Hk (Recv k)). cbn [step] in Hk. rewrite Hk. apply rt_refl.
      - exists ts0. specialize (Hk (Tick d)). cbn [step] in Hk. rewrite Hk. apply rt_refl.
      - destruct (close_is_a_schedule s (R0 :: ts0)) as (t1 & Hrun).
        exists (t1 :: ts0). eapply two; [apply rt_step; apply c_spawn_closer|].
        eapply two; [exact Hrun|]. apply rt_step. apply c_permute. apply perm_swap. }
    destruct Hstep as (ts1 & H1). destruct (IH (fst (step s o)) ts1) as (ts & H2).
    exists ts. eapply two; eauto. }
  destruct (Hgen (init n p t) []) as (ts & H). exists ts.
  unfold cinit in *. cbn [fst] in Hinit. rewrite Hinit in H. exact H.
Qed.

(* so every sequentially reachable state, projected, is a reachable configuration of the schedule semantics *)
Corollary reachable_projects n p t s : Reachable n p t s -> exists ts, creachable n (proj s, R0 :: ts).
Proof. intros (ops & ->). apply sequential_history_is_a_schedule. Qed.
