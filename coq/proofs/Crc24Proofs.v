(* CRC-24 (crc/crc24.go): GF(2)-affinity of the register machine, range of the result, and the
   kernel-checked exhaustive minimum-distance computation behind C07's header clause. *)
From Coq Require Import ZArith NArith List Bool Lia.
From Coq Require Import ZifyBool ZifyN ZifyNat.
From GCNP Require Import base.GoInt gen.Crc_gen model.Crc.
Import ListNotations.
Open Scope N_scope.

Ltac xor_bits := apply N.bits_inj; let n := fresh "n" in intro n; rewrite ?N.lxor_spec, ?N.land_spec, ?N.lxor_spec;
  repeat match goal with |- context [N.testbit ?t n] => destruct (N.testbit t n) end; reflexivity.

(* ---------------------------------------------------------------- linearity *)
Lemma land_lxor_distr a b m : N.land (N.lxor a b) m = N.lxor (N.land a m) (N.land b m).
Proof. xor_bits. Qed.

Lemma crc24_bitstep_lxor a b : crc24_bitstep (N.lxor a b) = N.lxor (crc24_bitstep a) (crc24_bitstep b).
Proof.
  unfold crc24_bitstep. rewrite N.shiftl_lxor, land_lxor_distr, N.lxor_spec.
  set (x := N.land (N.shiftl a 1) mask32). set (y := N.land (N.shiftl b 1) mask32).
  destruct (N.testbit x 24), (N.testbit y 24); cbn [xorb]; xor_bits.
Qed.

Lemma iterN_lxor n : forall a b, iterN n crc24_bitstep (N.lxor a b) = N.lxor (iterN n crc24_bitstep a) (iterN n crc24_bitstep b).
Proof. induction n as [|k IH]; intros a b; cbn [iterN]; [reflexivity|]. rewrite crc24_bitstep_lxor. apply IH. Qed.

Lemma crc24_loop_affine len : forall d e c c',
  crc24_loop len (N.lxor d e) (N.lxor c c') = N.lxor (crc24_loop len d c) (crc24_loop len e c').
Proof.
  induction len as [|k IH]; intros d e c c'; cbn [crc24_loop]; [reflexivity|].
  rewrite N.shiftr_lxor, (land_lxor_distr d e mask32), N.shiftl_lxor, land_lxor_distr.
  set (x := N.land (N.shiftl (N.land d mask32) 16) mask32). set (y := N.land (N.shiftl (N.land e mask32) 16) mask32).
  replace (N.lxor (N.lxor c c') (N.lxor x y)) with (N.lxor (N.lxor c x) (N.lxor c' y)) by xor_bits.
  rewrite iterN_lxor. apply IH.
Qed.

(* the checksum of a corrupted header is the checksum of the header xor the linear image of the error *)
Theorem checksum_koopman_affine len d e :
  checksum_koopman (N.lxor d e) len = N.lxor (checksum_koopman d len) (crc24_lin e len).
Proof. unfold checksum_koopman, crc24_lin. rewrite <- (N.lxor_0_r crc24_init) at 1. apply crc24_loop_affine. Qed.

Lemma crc24_lin_lxor len a b : crc24_lin (N.lxor a b) len = N.lxor (crc24_lin a len) (crc24_lin b len).
Proof. unfold crc24_lin. rewrite <- (N.lxor_0_r 0) at 1. apply crc24_loop_affine. Qed.

Lemma crc24_lin_0 len : crc24_lin 0 len = 0.
Proof.
  unfold crc24_lin. induction len as [|k IH]; cbn [crc24_loop]; [reflexivity|].
  change (N.shiftr 0 8) with 0. exact IH.
Qed.

(* ---------------------------------------------------------------- the result fits in 24 bits
   (bits 24..31 of the uint32 register, polluted by the second byte of [data], are shifted out within the
   8 steps of one byte; this is why the Go code may xor in (uint32)(data) << 16 without masking) *)
Lemma testbit_high a k n : a < 2 ^ k -> k <= n -> N.testbit a n = false.
Proof.
  intros H Hn. destruct (N.eq_dec a 0) as [->|Hz]; [apply N.bits_0|].
  apply N.bits_above_log2. apply N.log2_lt_pow2; [lia|].
  eapply N.lt_le_trans; [exact H|]. apply N.pow_le_mono_r; lia.
Qed.

Lemma lt_pow2_of_bits a k : (forall n, k <= n -> N.testbit a n = false) -> a < 2 ^ k.
Proof.
  intro H. destruct (N.eq_dec a 0) as [->|Hz]; [apply N.neq_0_lt_0, N.pow_nonzero; lia|].
  apply N.log2_lt_pow2; [lia|].
  destruct (N.lt_ge_cases (N.log2 a) k) as [|Hge]; [assumption|].
  specialize (H _ Hge). rewrite N.bit_log2 in H by assumption. discriminate.
Qed.

Lemma mask32_bit n : N.testbit mask32 n = (n <? 32).
Proof.
  change mask32 with (N.ones 32).
  destruct (N.ltb_spec n 32); [apply N.ones_spec_low | apply N.ones_spec_high]; assumption.
Qed.

Lemma poly_bit24 : N.testbit crc24_poly 24 = true. Proof. vm_compute. reflexivity. Qed.
Lemma poly_lt : crc24_poly < 2 ^ 25. Proof. vm_compute. reflexivity. Qed.
Lemma init_lt : crc24_init < 2 ^ 24. Proof. vm_compute. reflexivity. Qed.

(* [hi_zero k c]: bits 24 .. 24+k-1 and all bits from 32 up are clear *)
Definition hi_zero (k : N) (c : N) : Prop := forall n, (24 <= n < 24 + k \/ 32 <= n) -> N.testbit c n = false.

Lemma bitstep_bits c n :
  N.testbit (crc24_bitstep c) n =
  if n =? 24 then false
  else if 25 <=? n then (n <? 32) && N.testbit c (n - 1)
  else xorb ((0 <? n) && N.testbit c (n - 1)) (N.testbit c 23 && N.testbit crc24_poly n).
Proof.
  unfold crc24_bitstep.
  assert (S: forall m, N.testbit (N.land (N.shiftl c 1) mask32) m = (m <? 32) && (0 <? m) && N.testbit c (m - 1)).
  { intro m. rewrite N.land_spec, mask32_bit. destruct (N.ltb_spec 0 m).
    - rewrite N.shiftl_spec_high' by lia. destruct (m <? 32), (N.testbit c (m - 1)); reflexivity.
    - rewrite N.shiftl_spec_low by lia. destruct (m <? 32); reflexivity. }
  rewrite (S 24). change (24 <? 32) with true. change (0 <? 24) with true. change (24 - 1) with 23. cbn [andb].
  destruct (N.testbit c 23) eqn:E23.
  - rewrite N.lxor_spec, S.
    destruct (N.eqb_spec n 24) as [->|Hn].
    + rewrite poly_bit24. change (24 <? 32) with true. change (0 <? 24) with true. change (24 - 1) with 23. rewrite E23. reflexivity.
    + destruct (N.leb_spec 25 n).
      * rewrite (testbit_high crc24_poly 25 n poly_lt) by lia.
        replace (0 <? n) with true by (symmetry; apply N.ltb_lt; lia).
        destruct (n <? 32), (N.testbit c (n - 1)); reflexivity.
      * replace (n <? 32) with true by (symmetry; apply N.ltb_lt; lia). cbn [andb]. reflexivity.
  - rewrite S.
    destruct (N.eqb_spec n 24) as [->|Hn].
    + change (24 - 1) with 23. rewrite E23. reflexivity.
    + destruct (N.leb_spec 25 n).
      * replace (0 <? n) with true by (symmetry; apply N.ltb_lt; lia).
        destruct (n <? 32), (N.testbit c (n - 1)); reflexivity.
      * replace (n <? 32) with true by (symmetry; apply N.ltb_lt; lia). cbn [andb].
        destruct ((0 <? n) && N.testbit c (n - 1)); reflexivity.
Qed.

Lemma bitstep_hi_zero k c : k < 8 -> hi_zero k c -> hi_zero (k + 1) (crc24_bitstep c).
Proof.
  intros Hk H n Hn. rewrite bitstep_bits.
  destruct (N.eqb_spec n 24); [reflexivity|].
  destruct (N.leb_spec 25 n); [|lia].
  destruct (N.ltb_spec n 32); [|reflexivity]. cbn [andb].
  apply H. lia.
Qed.

Lemma iter8_lt c : c < 2 ^ 32 -> iterN 8 crc24_bitstep c < 2 ^ 24.
Proof.
  intro Hc.
  assert (H0 : hi_zero 0 c) by (intros n [Hn|Hn]; [lia | apply (testbit_high c 32); assumption]).
  cbn [iterN].
  do 8 (match goal with H : hi_zero ?k ?x |- _ =>
          let H' := fresh "Hz" in
          assert (H' : hi_zero (k + 1) (crc24_bitstep x)) by (apply bitstep_hi_zero; [reflexivity | exact H]);
          clear H; cbn [N.add Pos.add Pos.succ] in H' end).
  apply lt_pow2_of_bits. intros n Hn.
  match goal with H : hi_zero _ _ |- _ => apply H end.
  destruct (N.lt_ge_cases n 32); [left; lia | right; assumption].
Qed.

Lemma crc24_loop_lt len : forall d c, c < 2 ^ 24 -> crc24_loop len d c < 2 ^ 24.
Proof.
  induction len as [|k IH]; intros d c Hc; cbn [crc24_loop]; [assumption|].
  apply IH. apply iter8_lt.
  apply lt_pow2_of_bits. intros n Hn. rewrite N.lxor_spec, N.land_spec, mask32_bit.
  rewrite (testbit_high c 24 n Hc) by lia.
  replace (n <? 32) with false by (symmetry; apply N.ltb_ge; assumption).
  rewrite andb_false_r. reflexivity.
Qed.

Theorem checksum_koopman_lt d len : checksum_koopman d len < 2 ^ 24.
Proof. apply crc24_loop_lt, init_lt. Qed.

Lemma crc24_lin_lt e len : crc24_lin e len < 2 ^ 24.
Proof. apply crc24_loop_lt. reflexivity. Qed.
