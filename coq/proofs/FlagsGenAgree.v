(* The Flags() methods regenerated from message/*.go (gen/Flags_gen.v, go2coq unit "flags") compute exactly what the
   hand-written definitions used by the frame model compute (model/MsgRequests.v, model/MsgResults.v) - for every
   value of the record, including the partial case (a nil column panics in haveSameTable: Err on both sides).
   Together with the round-trip theorems this makes the flag word that drives encoder and decoder a function of the
   CURRENT source: an edit of a Flags() method that the hand model does not follow breaks one of these lemmas. *)
From Coq Require Import ZArith List Bool.
From GCNP Require Import base.GoInt base.Bytes base.Codec gen.Constants_gen gen.Flags_gen model.Prim model.DataType
  model.MsgTypes model.MsgRequests model.MsgResults.
Import ListNotations.
Open Scope Z_scope.

(* one statement of the flag-builder shape: a total condition selects between two total continuations *)
Lemma fg_step : forall c a b k, fg_bind (fg_if (Ok c) (Ok a) (Ok b)) k = k (if c then a else b).
Proof. intros [|] a b k; reflexivity. Qed.

Lemma QueryOptions_Flags_gen_agree : forall o, QueryOptions_Flags_gen o = Ok (QueryOptions_Flags o).
Proof.
  intros o. unfold QueryOptions_Flags_gen. cbv zeta. repeat (rewrite fg_step; cbv beta).
  unfold QueryOptions_Flags, flag_if. cbv zeta.
  destruct (qo_PositionalValues o), (qo_NamedValues o); reflexivity.
Qed.

Lemma Batch_Flags_gen_agree : forall m, Batch_Flags_gen m = Ok (Batch_Flags m).
Proof.
  intros m. unfold Batch_Flags_gen, Batch_Flags, flag_if.
  destruct (b_SerialConsistency m), (b_DefaultTimestamp m), (b_Keyspace m), (b_NowInSeconds m); reflexivity.
Qed.

Lemma Prepare_Flags_gen_agree : forall m, Prepare_Flags_gen m = Ok (Prepare_Flags m).
Proof. intros m. unfold Prepare_Flags_gen, Prepare_Flags. destruct (p_Keyspace m); reflexivity. Qed.

Lemma VariablesMetadata_Flags_gen_agree : forall m, VariablesMetadata_Flags_gen m = VariablesMetadata_Flags m.
Proof.
  intros m. unfold VariablesMetadata_Flags_gen, VariablesMetadata_Flags.
  destruct (zlen (vm_Columns m) >? 0); [|reflexivity].
  destruct (haveSameTable (vm_Columns m)) as [[|]|]; reflexivity.
Qed.

Lemma RowsMetadata_Flags_gen_agree : forall m, RowsMetadata_Flags_gen m = RowsMetadata_Flags m.
Proof.
  intros m. unfold RowsMetadata_Flags_gen, RowsMetadata_Flags.
  destruct (zlen (rm_Columns m) =? 0);
    [| destruct (haveSameTable (rm_Columns m)) as [[|]|]; try reflexivity ];
    destruct (rm_PagingState m), (rm_NewResultMetadataId m), (rm_ContinuousPageNumber m >? 0), (rm_LastContinuousPage m);
    reflexivity.
Qed.

(* all five at once: the statement cited by props/C01.v *)
Theorem flags_regenerated_agree :
  (forall o, QueryOptions_Flags_gen o = Ok (QueryOptions_Flags o)) /\
  (forall m, Batch_Flags_gen m = Ok (Batch_Flags m)) /\
  (forall m, Prepare_Flags_gen m = Ok (Prepare_Flags m)) /\
  (forall m, VariablesMetadata_Flags_gen m = VariablesMetadata_Flags m) /\
  (forall m, RowsMetadata_Flags_gen m = RowsMetadata_Flags m).
Proof.
  repeat split; [apply QueryOptions_Flags_gen_agree | apply Batch_Flags_gen_agree | apply Prepare_Flags_gen_agree
                | apply VariablesMetadata_Flags_gen_agree | apply RowsMetadata_Flags_gen_agree].
Qed.
