(* C13, part 6: date / time / timestamp.  time.Time is the instant (unix seconds, nanoseconds) (base/GoNum.v); parsing and
   formatting with a layout are oracles and do not enter these statements.
   - ConvertTimeToEpochMillis / ConvertTimeToEpochDays return exactly floor(instant in ms) / floor(seconds / 86400), or fail
     exactly when that number is not representable (int64 / int32); the inverse functions invert them;
   - the three type switches treat time.Time / time.Duration through those functions and hand every other type to the plain
     integer switch (so the integer theorems of NumericSwitches.v apply unchanged).
   Subject: gen/Numeric_gen.v. *)
From Coq Require Import ZArith List String Bool Lia.
From Coq Require Import ZifyBool.
From GCNP Require Import base.GoInt base.GoNum gen.Numeric_gen proofs.NumericBase proofs.NumericMath.
Import ListNotations.
Open Scope Z_scope.
Ltac Zify.zify_post_hook ::= Z.to_euclidean_division_equations.

(* a well-formed instant: seconds in int64, 0 <= nanoseconds < 1e9 (what time.Time.Unix / Nanosecond return) *)
Definition time_wf (t : gotime) : Prop := in64 (time_sec t) /\ 0 <= time_nsec t < 1000000000.

(* ---------- timestamp: milliseconds since the epoch ---------- *)
Definition epoch_millis (t : gotime) : Z := time_sec t * 1000 + time_nsec t / 1000000.

Theorem ConvertTimeToEpochMillis_exact t : time_wf t ->
  (in64 (epoch_millis t) -> ConvertTimeToEpochMillis t = Ok (epoch_millis t)) /\
  (~ in64 (epoch_millis t) -> ConvertTimeToEpochMillis t = Err).
Proof.
  destruct t as [s n]. unfold time_wf, epoch_millis, time_sec, time_nsec. cbn [fst snd]. intros [Hs Hn].
  unfold ConvertTimeToEpochMillis, time_sec, time_nsec, millisecond, go_quot. cbn [fst snd].
  assert (Wn: wrap_i64 n = n) by (rewrite wrap_i64_eq; unfold in64 in *; lia). rewrite Wn.
  assert (Q: Z.quot n 1000000 = n / 1000000) by (apply Z.quot_div_nonneg; lia). rewrite Q.
  remember (n / 1000000) as q eqn:Hqdef. assert (Hq: 0 <= q <= 999) by lia.
  assert (Wq: wrap_i64 q = q) by (rewrite wrap_i64_eq; lia). rewrite Wq.
  unfold in64 in *.
  destruct (Z.ltb_spec s 0) as [Hneg|Hnn]; destruct (Z.gtb_spec n 0) as [Hpos|Hz]; cbn [andb].
  - (* before the epoch with a fraction: (s+1)*1000 + (q - 1000) *)
    assert (W1: wrap_i64 (s + 1) = s + 1) by (rewrite wrap_i64_eq; lia). rewrite W1.
    assert (W2: wrap_i64 (q - 1000) = q - 1000) by (rewrite wrap_i64_eq; lia). rewrite W2.
    destruct (multiplyExact_spec (s + 1) 1000 ltac:(unfold in64; lia) ltac:(unfold in64; lia)) as [M1 M2].
    destruct (Z_le_dec (-9223372036854775808) ((s + 1) * 1000)) as [Hlo|Hlo].
    + rewrite M1 by (unfold in64; lia). cbn [negb].
      destruct (addExact_spec ((s + 1) * 1000) (q - 1000) ltac:(unfold in64; lia) ltac:(unfold in64; lia)) as [A1 A2].
      split; intro HR.
      * rewrite A1 by (unfold in64; lia). f_equal. lia.
      * rewrite A2 by (unfold in64; lia). reflexivity.
    + rewrite M2 by (unfold in64; lia). cbn [negb]. split; intro HR; [exfalso; lia|reflexivity].
  - (* n = 0 *)
    assert (Hq0: q = 0) by lia.
    destruct (multiplyExact_spec s 1000 ltac:(unfold in64; lia) ltac:(unfold in64; lia)) as [M1 M2].
    destruct (Z_le_dec (-9223372036854775808) (s * 1000)) as [Hlo|Hlo].
    + rewrite M1 by (unfold in64; lia). cbn [negb].
      destruct (addExact_spec (s * 1000) q ltac:(unfold in64; lia) ltac:(unfold in64; lia)) as [A1 A2].
      split; intro HR; [rewrite A1 by (unfold in64; lia); reflexivity | exfalso; lia].
    + rewrite M2 by (unfold in64; lia). cbn [negb]. split; intro HR; [exfalso; lia|reflexivity].
  - (* at or after the epoch *)
    destruct (multiplyExact_spec s 1000 ltac:(unfold in64; lia) ltac:(unfold in64; lia)) as [M1 M2].
    destruct (Z_le_dec (s * 1000) 9223372036854775807) as [Hhi|Hhi].
    + rewrite M1 by (unfold in64; lia). cbn [negb].
      destruct (addExact_spec (s * 1000) q ltac:(unfold in64; lia) ltac:(unfold in64; lia)) as [A1 A2].
      split; intro HR; [rewrite A1 by (unfold in64; lia); reflexivity | rewrite A2 by (unfold in64; lia); reflexivity].
    + rewrite M2 by (unfold in64; lia). cbn [negb]. split; intro HR; [exfalso; lia|reflexivity].
  - destruct (multiplyExact_spec s 1000 ltac:(unfold in64; lia) ltac:(unfold in64; lia)) as [M1 M2].
    destruct (Z_le_dec (s * 1000) 9223372036854775807) as [Hhi|Hhi].
    + rewrite M1 by (unfold in64; lia). cbn [negb].
      destruct (addExact_spec (s * 1000) q ltac:(unfold in64; lia) ltac:(unfold in64; lia)) as [A1 A2].
      split; intro HR; [rewrite A1 by (unfold in64; lia); reflexivity | rewrite A2 by (unfold in64; lia); reflexivity].
    + rewrite M2 by (unfold in64; lia). cbn [negb]. split; intro HR; [exfalso; lia|reflexivity].
Qed.

(* the inverse: every int64 millisecond count becomes a well-formed instant that denotes it *)
Theorem ConvertEpochMillisToTime_exact m : in64 m ->
  time_wf (ConvertEpochMillisToTime m) /\ epoch_millis (ConvertEpochMillisToTime m) = m /\
  time_nsec (ConvertEpochMillisToTime m) mod 1000000 = 0.
Proof.
  intro Hm. unfold ConvertEpochMillisToTime, millisecond.
  rewrite floorDiv_spec by (unfold in64 in *; lia). rewrite floorMod_spec by (unfold in64 in *; lia).
  assert (W: wrap_i64 (m mod 1000 * 1000000) = m mod 1000 * 1000000) by (rewrite wrap_i64_eq; lia). rewrite W.
  unfold time_wf, epoch_millis, time_Unix, time_sec, time_nsec, in64 in *. cbn [fst snd]. lia.
Qed.

Corollary timestamp_instant_roundtrip m : in64 m -> ConvertTimeToEpochMillis (ConvertEpochMillisToTime m) = Ok m.
Proof.
  intro Hm. destruct (ConvertEpochMillisToTime_exact m Hm) as (Hwf & He & _).
  destruct (ConvertTimeToEpochMillis_exact _ Hwf) as [A _]. rewrite He in A. exact (A Hm).
Qed.

(* ---------- date: days since the epoch ---------- *)
Definition epoch_days (t : gotime) : Z := time_sec t / 86400.

Theorem ConvertTimeToEpochDays_exact t : in64 (time_sec t) ->
  (in_i 32 (epoch_days t) = true -> ConvertTimeToEpochDays t = Ok (epoch_days t)) /\
  (in_i 32 (epoch_days t) = false -> ConvertTimeToEpochDays t = Err).
Proof.
  intro Hs. unfold ConvertTimeToEpochDays, epoch_days.
  rewrite floorDiv_spec by (unfold in64 in *; lia).
  set (d := time_sec t / 86400). rewrite in_i32_eq, wrap_i32_eq.
  split; intro HR.
  - replace ((d <? -2147483648) || (d >? 2147483647)) with false by lia. f_equal. lia.
  - replace ((d <? -2147483648) || (d >? 2147483647)) with true by lia. reflexivity.
Qed.

Theorem ConvertEpochDaysToTime_exact d : in_i 32 d = true ->
  ConvertEpochDaysToTime d = (d * 86400, 0) /\ ConvertTimeToEpochDays (ConvertEpochDaysToTime d) = Ok d.
Proof.
  intro Hd. rewrite in_i32_eq in Hd.
  assert (E: ConvertEpochDaysToTime d = (d * 86400, 0)).
  { unfold ConvertEpochDaysToTime, time_Unix. rewrite !wrap_i64_eq.
    replace ((d + 9223372036854775808) mod 18446744073709551616 - 9223372036854775808) with d by lia.
    replace ((d * 86400 + 9223372036854775808) mod 18446744073709551616 - 9223372036854775808) with (d * 86400) by lia.
    change (0 / 1000000000) with 0. change (0 mod 1000000000) with 0. f_equal. lia. }
  split; [exact E|]. rewrite E.
  destruct (ConvertTimeToEpochDays_exact (d * 86400, 0)) as [A _].
  { unfold time_sec, in64. cbn [fst]. lia. }
  unfold epoch_days, time_sec in A. cbn [fst] in A. replace (d * 86400 / 86400) with d in A by lia.
  apply A. rewrite in_i32_eq. lia.
Qed.

(* ---------- time: nanoseconds since midnight ---------- *)
Theorem ConvertDurationToNanosOfDay_exact d v :
  ConvertDurationToNanosOfDay d = Ok v <-> v = d /\ 0 <= d <= 86399999999999.
Proof.
  unfold ConvertDurationToNanosOfDay, TimeMaxDuration.
  destruct ((d <? 0) || (d >? 86399999999999)) eqn:E; split; intro H; try discriminate.
  - exfalso. lia.
  - injection H as <-. lia.
  - destruct H as [-> _]. reflexivity.
Qed.

Theorem ConvertNanosOfDayToDuration_exact n v : in64 n ->
  (ConvertNanosOfDayToDuration n = Ok v <-> v = n /\ 0 <= n <= 86399999999999).
Proof.
  intro Hn. unfold ConvertNanosOfDayToDuration, TimeMaxDuration.
  assert (W: wrap_i64 n = n) by (rewrite wrap_i64_eq; unfold in64 in *; lia). rewrite W.
  destruct ((n <? 0) || (n >? 86399999999999)) eqn:E; split; intro H; try discriminate.
  - exfalso. lia.
  - injection H as <-. lia.
  - destruct H as [-> _]. reflexivity.
Qed.

(* ---------- the switches ---------- *)
Section Switches.
Variable O : oracles.

Definition lift (r : result Z) : result (Z * bool) := match r with Ok v => Ok (v, false) | Err => Err end.

(* sources: time.Time (and pointers to it) go through the Convert function, nil is NULL, everything that is not a
   time / string type is handed to the integer switch of the same width *)
Ltac to_cases g :=
  destruct g as [v|v|v|v|v|v|v|v|v|v|s|b|b|v|f|t|v|p|p|p|p|p|p|p|p|p|p|p|p|p|p|p|p|p| |];
  try (destruct p as [v|]); try exact I; try reflexivity.

Theorem convertToInt64Timestamp_cases layout g :
  match g with
  | G_time t | G_ptime (Some t) => convertToInt64Timestamp O g layout = lift (ConvertTimeToEpochMillis t)
  | G_ptime None | G_nil => convertToInt64Timestamp O g layout = Ok (0, true)
  | G_string _ | G_pstring _ => True
  | _ => convertToInt64Timestamp O g layout = convertToInt64 O g
  end.
Proof.
  to_cases g; unfold convertToInt64Timestamp, lift; cbv beta iota zeta delta [res_split ret_res unopt isNone is_ok fst snd]; cbn [negb];
  destruct (ConvertTimeToEpochMillis _); reflexivity.
Qed.

Theorem convertToInt32Date_cases layout g :
  match g with
  | G_time t | G_ptime (Some t) => convertToInt32Date O g layout = lift (ConvertTimeToEpochDays t)
  | G_ptime None | G_nil => convertToInt32Date O g layout = Ok (0, true)
  | G_string _ | G_pstring _ => True
  | _ => convertToInt32Date O g layout = convertToInt32 O g
  end.
Proof.
  to_cases g; unfold convertToInt32Date, lift; cbv beta iota zeta delta [res_split ret_res unopt isNone is_ok fst snd]; cbn [negb];
  destruct (ConvertTimeToEpochDays _); reflexivity.
Qed.

Theorem convertToInt64Time_cases layout g :
  match g with
  | G_duration d | G_pduration (Some d) => convertToInt64Time O g layout = lift (ConvertDurationToNanosOfDay d)
  | G_pduration None | G_ptime None | G_nil => convertToInt64Time O g layout = Ok (0, true)
  | G_time _ | G_ptime _ | G_string _ | G_pstring _ => True
  | _ => convertToInt64Time O g layout = convertToInt64 O g
  end.
Proof.
  to_cases g; unfold convertToInt64Time, lift; cbv beta iota zeta delta [res_split ret_res unopt isNone is_ok fst snd]; cbn [negb];
  destruct (ConvertDurationToNanosOfDay _); reflexivity.
Qed.

(* destinations *)
Ltac from_cases d :=
  destruct d as [n|n|n|n|n|n|n|n|n|n|n|n|n|n|n|n|n|n|]; try exact I; try reflexivity.

Theorem convertFromInt64Timestamp_cases layout val wasNull d :
  match d with
  | D_ptime false | D_piface false =>
      wasNull = false -> convertFromInt64Timestamp O val wasNull d layout = Ok (Some (G_time (ConvertEpochMillisToTime val)))
  | D_ptime true | D_piface true => convertFromInt64Timestamp O val wasNull d layout = Err
  | D_pstring _ => True
  | _ => convertFromInt64Timestamp O val wasNull d layout = convertFromInt64 O val wasNull d
  end.
Proof. from_cases d; destruct n; try reflexivity; intros ->; reflexivity. Qed.

Theorem convertFromInt32Date_cases layout val wasNull d :
  match d with
  | D_ptime false | D_piface false =>
      wasNull = false -> convertFromInt32Date O val wasNull layout d = Ok (Some (G_time (ConvertEpochDaysToTime val)))
  | D_ptime true | D_piface true => convertFromInt32Date O val wasNull layout d = Err
  | D_pstring _ => True
  | _ => convertFromInt32Date O val wasNull layout d = convertFromInt32 O val wasNull d
  end.
Proof. from_cases d; destruct n; try reflexivity; intros ->; reflexivity. Qed.

Theorem convertFromInt64Time_cases layout val wasNull d :
  match d with
  | D_pduration false | D_piface false =>
      wasNull = false -> convertFromInt64Time O val wasNull d layout =
                         match ConvertNanosOfDayToDuration val with Ok v => Ok (Some (G_duration v)) | Err => Err end
  | D_pduration true | D_piface true => convertFromInt64Time O val wasNull d layout = Err
  | D_ptime _ | D_pstring _ => True
  | _ => convertFromInt64Time O val wasNull d layout = convertFromInt64 O val wasNull d
  end.
Proof.
  from_cases d; destruct n; try reflexivity; intros ->; unfold convertFromInt64Time;
  cbv beta iota zeta delta [res_split ret_res is_ok fst snd]; cbn [negb];
  destruct (ConvertNanosOfDayToDuration val); reflexivity.
Qed.
End Switches.

Example time_examples :
  ConvertTimeToEpochMillis (-1, 999000000) = Ok (-1) /\ ConvertTimeToEpochMillis (-1, 1) = Ok (-1000) /\
  ConvertTimeToEpochMillis (9223372036854775, 807000000) = Ok 9223372036854775807 /\
  ConvertTimeToEpochMillis (9223372036854775, 808000000) = Err /\
  ConvertTimeToEpochMillis (-9223372036854776, 192000000) = Ok (-9223372036854775808) /\
  ConvertTimeToEpochMillis (-9223372036854776, 191000000) = Err /\
  ConvertTimeToEpochDays (-1, 0) = Ok (-1) /\ ConvertTimeToEpochDays (185542587187200, 0) = Err /\
  ConvertTimeToEpochDays (185542587187199, 0) = Ok 2147483647 /\
  ConvertEpochMillisToTime (-1) = (-1, 999000000) /\ time_wf (-1, 999000000).
Proof. repeat split; vm_compute; try reflexivity; intro H; discriminate H. Qed.
