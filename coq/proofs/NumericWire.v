(* C13, part 4: the fixed-width wire functions write*/read* (big-endian two's complement): round trip on the whole range,
   wrong lengths rejected, empty = NULL.  Subject: gen/Numeric_gen.v. *)
From Coq Require Import ZArith List String Bool Lia.
From Coq Require Import ZifyBool.
From GCNP Require Import base.GoInt base.GoNum gen.Numeric_gen proofs.NumericBase.
Import ListNotations.
Open Scope Z_scope.
Ltac Zify.zify_post_hook ::= Z.div_mod_to_equations.

Lemma rt_i64 v : (-9223372036854775808 <=? v) && (v <? 9223372036854775808) = true ->
  (v mod 18446744073709551616 + 9223372036854775808) mod 18446744073709551616 - 9223372036854775808 = v.
Proof. intro H. lia. Qed.
Lemma rt_i32 v : (-2147483648 <=? v) && (v <? 2147483648) = true ->
  (v mod 4294967296 + 2147483648) mod 4294967296 - 2147483648 = v.
Proof. intro H. lia. Qed.
Lemma rt_i16 v : (-32768 <=? v) && (v <? 32768) = true -> (v mod 65536 + 32768) mod 65536 - 32768 = v.
Proof. intro H. lia. Qed.
Lemma rt_u32 v : (0 <=? v) && (v <? 4294967296) = true -> v mod 4294967296 = v.
Proof. intro H. lia. Qed.
Lemma rt_u64 v : (0 <=? v) && (v <? 18446744073709551616) = true -> v mod 18446744073709551616 = v.
Proof. intro H. lia. Qed.

Lemma be_bytes_length n x : List.length (be_bytes n x) = n.
Proof. induction n; cbn [be_bytes List.length]; congruence. Qed.

Lemma be_value_bytes n x : be_value (be_bytes n x) = x mod 2 ^ (8 * Z.of_nat n).
Proof.
  induction n as [|k IH].
  - cbn. rewrite Z.mod_1_r. reflexivity.
  - cbn [be_bytes be_value]. rewrite be_bytes_length, IH.
    replace (8 * Z.of_nat (S k)) with (8 * Z.of_nat k + 8) by lia.
    rewrite Z.pow_add_r by lia. change (2 ^ 8) with 256.
    rewrite Z.rem_mul_r by lia. lia.
Qed.

Lemma be_bytes_range n x : Forall (fun b => 0 <= b < 256) (be_bytes n x).
Proof. induction n; cbn [be_bytes]; constructor; [apply Z.mod_pos_bound; lia|assumption]. Qed.

Lemma put_be_fresh (n : nat) x : put_be n (make_bytes (Z.of_nat n)) x = be_bytes n x.
Proof.
  unfold put_be, make_bytes. rewrite Nat2Z.id.
  rewrite skipn_all2 by (rewrite repeat_length; lia). apply app_nil_r.
Qed.

Lemma get_be_bytes (n : nat) x : get_be n (be_bytes n x) = x mod 2 ^ (8 * Z.of_nat n).
Proof.
  unfold get_be. rewrite firstn_all2 by (rewrite be_bytes_length; lia). apply be_value_bytes.
Qed.

Lemma len_be_bytes n x : len_Z (be_bytes n x) = Z.of_nat n.
Proof. unfold len_Z. rewrite be_bytes_length. reflexivity. Qed.

Ltac wire_rt :=
  autounfold with gonum; try unfold lengthOfFloat; try unfold lengthOfDouble;
  repeat match goal with
  | |- context [put_be ?n (make_bytes ?k) ?x] => change (put_be n (make_bytes k) x) with (put_be n (make_bytes (Z.of_nat n)) x); rewrite (put_be_fresh n x)
  end;
  rewrite ?len_be_bytes, ?get_be_bytes;
  cbv beta iota zeta delta [res_split ret_res is_ok fst snd Z.of_nat Pos.of_succ_nat Pos.succ Z.eqb Pos.eqb negb];
  cbn [Z.mul Pos.mul Z.pow Z.pow_pos Pos.iter];
  norm_int.

Theorem int64_wire_roundtrip v : in_i 64 v = true -> readInt64 (writeInt64 v) = Ok (v, false).
Proof. intro H. wire_rt. rewrite ?Z.mod_mod by lia. do 2 f_equal. first [ exact (rt_i64 v H) | exact (rt_i32 v H) | exact (rt_i16 v H) | exact (rt_u32 v H) | exact (rt_u64 v H) ]. Qed.
Theorem int32_wire_roundtrip v : in_i 32 v = true -> readInt32 (writeInt32 v) = Ok (v, false).
Proof. intro H. wire_rt. rewrite ?Z.mod_mod by lia. do 2 f_equal. first [ exact (rt_i64 v H) | exact (rt_i32 v H) | exact (rt_i16 v H) | exact (rt_u32 v H) | exact (rt_u64 v H) ]. Qed.
Theorem int16_wire_roundtrip v : in_i 16 v = true -> readInt16 (writeInt16 v) = Ok (v, false).
Proof. intro H. wire_rt. rewrite ?Z.mod_mod by lia. do 2 f_equal. first [ exact (rt_i64 v H) | exact (rt_i32 v H) | exact (rt_i16 v H) | exact (rt_u32 v H) | exact (rt_u64 v H) ]. Qed.
Theorem int8_wire_roundtrip v : in_i 8 v = true -> readInt8 (writeInt8 v) = Ok (v, false).
Proof.
  intro H. autounfold with gonum. cbv beta iota zeta delta [res_split ret_res is_ok fst snd len_Z List.length nth_Z nth Z.to_nat Z.of_nat Pos.of_succ_nat Z.eqb Pos.eqb negb].
  norm_int. do 2 f_equal. lia.
Qed.
(* floats travel as their IEEE bit patterns *)
Theorem float32_wire_roundtrip v : in_u 32 v = true -> readFloat32 (writeFloat32 v) = Ok (v, false).
Proof. intro H. wire_rt. rewrite ?Z.mod_mod by lia. do 2 f_equal. first [ exact (rt_i64 v H) | exact (rt_i32 v H) | exact (rt_i16 v H) | exact (rt_u32 v H) | exact (rt_u64 v H) ]. Qed.
Theorem float64_wire_roundtrip v : in_u 64 v = true -> readFloat64 (writeFloat64 v) = Ok (v, false).
Proof. intro H. wire_rt. rewrite ?Z.mod_mod by lia. do 2 f_equal. first [ exact (rt_i64 v H) | exact (rt_i32 v H) | exact (rt_i16 v H) | exact (rt_u32 v H) | exact (rt_u64 v H) ]. Qed.

(* what is written has the fixed width and consists of bytes *)
Theorem int64_wire_shape v : List.length (writeInt64 v) = 8%nat /\ Forall (fun b => 0 <= b < 256) (writeInt64 v).
Proof. autounfold with gonum. change (make_bytes 8) with (make_bytes (Z.of_nat 8)). rewrite put_be_fresh. split; [apply be_bytes_length|apply be_bytes_range]. Qed.
Theorem int32_wire_shape v : List.length (writeInt32 v) = 4%nat /\ Forall (fun b => 0 <= b < 256) (writeInt32 v).
Proof. autounfold with gonum. change (make_bytes 4) with (make_bytes (Z.of_nat 4)). rewrite put_be_fresh. split; [apply be_bytes_length|apply be_bytes_range]. Qed.
Theorem int16_wire_shape v : List.length (writeInt16 v) = 2%nat /\ Forall (fun b => 0 <= b < 256) (writeInt16 v).
Proof. autounfold with gonum. change (make_bytes 2) with (make_bytes (Z.of_nat 2)). rewrite put_be_fresh. split; [apply be_bytes_length|apply be_bytes_range]. Qed.

(* empty = NULL, any other wrong length = error *)
Definition fixed_read_ok (w : Z) (rd : list Z -> result (Z * bool)) : Prop :=
  rd [] = Ok (0, true) /\ forall l, len_Z l <> 0 -> len_Z l <> w -> rd l = Err.

Ltac wrong_len :=
  split; [reflexivity|]; intros l H0 Hw; autounfold with gonum; try unfold lengthOfFloat; try unfold lengthOfDouble;
  cbv beta iota zeta delta [res_split ret_res is_ok fst snd];
  destruct (Z.eqb_spec (len_Z l) 0) as [e|_]; [contradiction|];
  match goal with |- context [Z.eqb (len_Z l) ?w] => destruct (Z.eqb_spec (len_Z l) w) as [e|_]; [contradiction|] end;
  reflexivity.

Theorem fixed_reads_reject_wrong_length :
  fixed_read_ok 8 readInt64 /\ fixed_read_ok 4 readInt32 /\ fixed_read_ok 2 readInt16 /\ fixed_read_ok 1 readInt8 /\
  fixed_read_ok 4 readFloat32 /\ fixed_read_ok 8 readFloat64.
Proof. repeat match goal with |- fixed_read_ok _ _ /\ _ => split end; wrong_len. Qed.

Example wire_examples :
  writeInt32 (-2) = [255; 255; 255; 254] /\ readInt32 [255; 255; 255; 254] = Ok (-2, false) /\
  readInt32 [1; 2; 3] = Err /\ readInt64 [] = Ok (0, true) /\ writeInt8 (-128) = [128] /\ readInt8 [128] = Ok (-128, false).
Proof. repeat split; vm_compute; reflexivity. Qed.
