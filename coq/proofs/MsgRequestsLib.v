(* Shared lemmas for the proofs about model/MsgRequests.v: reflection of the boolean validity helpers,
   Go-map facts (distinct keys / dedup_last), flag words, and the derivation of the standard per-message
   theorems from the three facts  enc = Ok bytes / dec (bytes ++ rest) = DOk norm rest / len = Ok (zlen bytes). *)
From Coq Require Import ZArith List Bool Lia.
From Coq Require Import ZifyBool ZifyNat.
From GCNP Require Import base.GoInt base.Bytes base.Codec base.StrBytes gen.Constants_gen model.Prim model.DataType
  model.MsgTypes model.MsgRequests proofs.PrimProofs proofs.PrimTotal.
Import ListNotations.
Open Scope Z_scope.
Ltac Zify.zify_post_hook ::= Z.div_mod_to_equations.

(* ---------- splitting a conjunction of booleans ---------- *)
Ltac bsplit H :=
  repeat match type of H with
  | (_ && _) = true => let H1 := fresh H in apply andb_prop in H; destruct H as [H H1]; try bsplit H1
  end.

(* ---------- reflection ---------- *)
Lemma str_okb_le s : str_okb s = true -> zlen s <= 65535.
Proof. unfold str_okb. lia. Qed.
Lemma lstr_okb_le s : lstr_okb s = true -> zlen s <= 2147483647.
Proof. unfold lstr_okb. lia. Qed.
Lemma i32_okb_in x : i32_okb x = true -> in_i32 x.
Proof. unfold i32_okb, in_i32. lia. Qed.
Lemma i64_okb_in x : i64_okb x = true -> in_i64 x.
Proof. unfold i64_okb, in_i64. lia. Qed.
Lemma u16_okb_in x : u16_okb x = true -> in_u16 x.
Proof. unfold u16_okb, in_u16. lia. Qed.
Lemma nonempty_zlen {A} (s : list A) : nonempty s = negb (zlen s =? 0).
Proof. destruct s; [reflexivity|]. rewrite zlen_cons. pose proof (zlen_nonneg s). cbn [nonempty]. symmetry. apply negb_true_iff, Z.eqb_neq. lia. Qed.
Lemma nonempty_false {A} (s : list A) : nonempty s = false -> s = [].
Proof. destruct s; [reflexivity|discriminate]. Qed.
Lemma nonempty_pos {A} (s : list A) : nonempty s = true -> 0 < zlen s.
Proof. destruct s; [discriminate|]. rewrite zlen_cons. pose proof (zlen_nonneg s). lia. Qed.

Lemma forallb_Forall {A} (f : A -> bool) (P : A -> Prop) l :
  (forall x, f x = true -> P x) -> forallb f l = true -> Forall P l.
Proof. intros H Hf. rewrite forallb_forall in Hf. apply Forall_forall. intros x Hx. apply H, Hf, Hx. Qed.

(* the model's nvalue / novalue are PrimProofs' norm_value / norm_ovalue *)
Lemma nvalue_eq v : nvalue v = norm_value v. Proof. reflexivity. Qed.
Lemma novalue_eq v : novalue v = norm_ovalue v. Proof. reflexivity. Qed.
Lemma map_novalue_eq l : map novalue l = map norm_ovalue l. Proof. reflexivity. Qed.

Lemma value_okb_ok version v : value_okb version v = true -> value_ok version v.
Proof.
  destruct v as [[t c]|]; [|discriminate]. unfold value_okb, value_ok, lstr_okb, bytes_small. cbn [value_type value_contents].
  unfold ValueTypeNull, ValueTypeUnset, ValueTypeRegular. destruct c as [c|]; cbn [is_some negb olist]; intro H.
  - right. right. lia.
  - destruct (Z.eqb_spec t (-1)); [left; split; [assumption|reflexivity]|].
    destruct (Z.eqb_spec t (-2)); [right; left; repeat split; try assumption; lia|].
    right. right. cbn in *. lia.
Qed.
Lemma values_okb_ok version vs : values_okb version vs = true -> values_ok version vs.
Proof.
  unfold values_okb, values_ok. intro H. apply andb_prop in H. destruct H as [H1 H2]. split; [lia|].
  eapply forallb_Forall; [|exact H2]. apply value_okb_ok.
Qed.

(* ---------- Go maps: distinct keys ---------- *)
Lemma dedup_last_nodup {V} (m : list (bytes * V)) : nodup_keysb m = true -> dedup_last m = m.
Proof.
  induction m as [|kv m IH]; intro H; cbn [dedup_last nodup_keysb] in *; [reflexivity|].
  apply andb_prop in H. destruct H as [H1 H2]. apply negb_true_iff in H1. rewrite H1, IH by exact H2. reflexivity.
Qed.
Lemma nodup_keysb_map {V W} (f : V -> W) (m : list (bytes * V)) :
  nodup_keysb (map (fun kv => (fst kv, f (snd kv))) m) = nodup_keysb m.
Proof.
  induction m as [|kv m IH]; cbn [map nodup_keysb]; [reflexivity|]. rewrite IH. f_equal. f_equal.
  cbn [fst]. clear IH. induction m as [|kv' m IH]; cbn [map existsb]; [reflexivity|]. rewrite IH. reflexivity.
Qed.

(* ---------- W / L algebra ---------- *)
Lemma wapp_Ok a b : Ok a +++ Ok b = Ok (a ++ b). Proof. reflexivity. Qed.
Lemma ladd_Ok a b : Ok a +l+ Ok b = Ok (a + b). Proof. reflexivity. Qed.
Lemma wguard_true : wguard true = Ok []. Proof. reflexivity. Qed.

(* ---------- the standard theorems from the three facts ---------- *)
Section Standard.
  Context {T : Type} (enc : W) (len : L) (dec : R T) (bytes_m : bytes) (m' : T).
  Hypothesis Henc : enc = Ok bytes_m.
  Hypothesis Hdec : forall rest, dec (bytes_m ++ rest) = DOk m' rest.
  Hypothesis Hlen : len = Ok (zlen bytes_m).
  Lemma std_roundtrip : exists b, enc = Ok b /\ forall rest, dec (b ++ rest) = DOk m' rest.
  Proof. exists bytes_m. split; assumption. Qed.
  Lemma std_length b : enc = Ok b -> len = Ok (zlen b).
  Proof. intro E. rewrite Henc in E. assert (b = bytes_m) as -> by congruence. exact Hlen. Qed.
End Standard.

(* ---------- flag words ---------- *)
Lemma lor_range n a b : 0 <= n -> 0 <= a < 2 ^ n -> 0 <= b < 2 ^ n -> 0 <= Z.lor a b < 2 ^ n.
Proof.
  intros Hn Ha Hb. split; [apply Z.lor_nonneg; lia|].
  destruct (Z.eq_dec (Z.lor a b) 0) as [E|E]; [rewrite E; lia|].
  apply Z.log2_lt_pow2; [pose proof (Z.lor_nonneg a b); lia|].
  rewrite Z.log2_lor by lia.
  destruct (Z.eq_dec a 0) as [->|Ha0]; destruct (Z.eq_dec b 0) as [->|Hb0].
  - cbn in E. congruence.
  - cbn [Z.log2]. rewrite Z.max_r by apply Z.log2_nonneg. apply Z.log2_lt_pow2; lia.
  - cbn [Z.log2]. rewrite Z.max_l by apply Z.log2_nonneg. apply Z.log2_lt_pow2; lia.
  - apply Z.max_lub_lt; apply Z.log2_lt_pow2; lia.
Qed.

(* reading back the flags word *)
Lemma wrap_u32_wrap_i32 f : 0 <= f < 4294967296 -> wrap_u 32 (wrap_i 32 f) = f.
Proof. intro H. unfold wrap_u, wrap_i. change (2 ^ (32 - 1)) with 2147483648. change (2 ^ 32) with 4294967296. lia. Qed.
Lemma wrap_i32_range f : in_i32 (wrap_i 32 f).
Proof. unfold in_i32, wrap_i. change (2 ^ (32 - 1)) with 2147483648. change (2 ^ 32) with 4294967296. lia. Qed.
Lemma wrap_u8_small x : 0 <= x < 256 -> wrap_u 8 x = x.
Proof. intro H. unfold wrap_u. change (2 ^ 8) with 256. lia. Qed.

Definition bytes_query_flags (version flags : Z) : bytes :=
  if ProtocolVersion_Uses4BytesQueryFlags version then be_bytes 4 (wrap_i 32 flags) else be_bytes 1 flags.
Lemma enc_query_flags_ok version flags :
  (ProtocolVersion_Uses4BytesQueryFlags version = false -> 0 <= flags < 256) ->
  enc_query_flags version flags = Ok (bytes_query_flags version flags).
Proof.
  intro H. unfold enc_query_flags, bytes_query_flags. destruct (ProtocolVersion_Uses4BytesQueryFlags version); [reflexivity|].
  unfold write_byte. rewrite wrap_u8_small by (apply H; reflexivity). reflexivity.
Qed.
Lemma dec_query_flags_app version flags rest :
  0 <= flags < 4294967296 -> (ProtocolVersion_Uses4BytesQueryFlags version = false -> 0 <= flags < 256) ->
  dec_query_flags version (bytes_query_flags version flags ++ rest) = DOk flags rest.
Proof.
  intros Hr H. unfold dec_query_flags, bytes_query_flags. destruct (ProtocolVersion_Uses4BytesQueryFlags version).
  - unfold rmap, bind. rewrite read_int_app by apply wrap_i32_range. unfold ret. rewrite wrap_u32_wrap_i32 by exact Hr. reflexivity.
  - apply read_byte_app. unfold in_u8. apply H. reflexivity.
Qed.
Lemma len_query_flags_ok version flags : len_query_flags version = Ok (zlen (bytes_query_flags version flags)).
Proof. unfold len_query_flags, bytes_query_flags. destruct (ProtocolVersion_Uses4BytesQueryFlags version); rewrite be_bytes_zlen; reflexivity. Qed.
Lemma total_dec_query_flags version : total (dec_query_flags version).
Proof. unfold dec_query_flags. total_tac. Qed.
#[export] Hint Resolve total_dec_query_flags : total.

(* ---------- named values ---------- *)
Definition enc_named_entry (nv : bytes * option Value) : bytes := enc_string (fst nv) ++ enc_value (snd nv).
Definition enc_named_values (vs : list (bytes * option Value)) : bytes := be_bytes 2 (zlen vs) ++ concat (map enc_named_entry vs).
Definition named_ok (version : Z) (vs : list (bytes * option Value)) : Prop :=
  zlen vs <= 65535 /\ Forall (fun kv => zlen (fst kv) <= 65535 /\ value_ok version (snd kv)) vs.
Lemma write_named_values_ok version vs : named_ok version vs -> write_named_values version vs = Ok (enc_named_values vs).
Proof.
  intros [H Hs]. unfold write_named_values, write_short, enc_named_values. pose proof (zlen_nonneg vs).
  rewrite wrap_u16_small by lia. rewrite (wlist_ok _ enc_named_entry); [reflexivity|].
  intros [k v] Hx. rewrite Forall_forall in Hs. destruct (Hs _ Hx) as [Hk Hv]. cbn [fst snd] in *.
  rewrite write_string_ok by exact Hk. rewrite (write_value_ok version v Hv). reflexivity.
Qed.
Lemma read_named_values_app version vs rest : named_ok version vs ->
  read_named_values version (enc_named_values vs ++ rest) = DOk (map (fun kv => (fst kv, novalue (snd kv))) vs) rest.
Proof.
  intros [H Hs]. pose proof (zlen_nonneg vs). unfold read_named_values, enc_named_values. rewrite <- app_assoc.
  unfold bind at 1. rewrite read_short_app by (unfold in_u16; lia).
  rewrite Forall_forall in Hs.
  apply (read_count_app enc_named_entry _ (fun kv => (fst kv, novalue (snd kv)))).
  - intros [k v] r Hx. destruct (Hs _ Hx) as [Hk Hv]. cbn [fst snd] in *. unfold enc_named_entry. cbn [fst snd].
    rewrite <- app_assoc. unfold bind at 1. rewrite read_string_app by exact Hk.
    destruct v as [v|]; [|destruct Hv]. unfold bind at 1. rewrite read_value_app by exact Hv. reflexivity.
  - intros [k v] _. unfold enc_named_entry. rewrite app_length. pose proof (enc_string_nonempty k). cbn [fst]. lia.
Qed.
Lemma llist_ok {A} (f : A -> L) (g : A -> Z) l :
  (forall x, In x l -> f x = Ok (g x)) -> llist f l = Ok (fold_right (fun x acc => g x + acc) 0 l).
Proof.
  induction l as [|x l IH]; intro H; cbn [llist fold_right]; [reflexivity|].
  rewrite H by (left; reflexivity). rewrite IH by (intros; apply H; right; assumption). reflexivity.
Qed.
Lemma zlen_concat_map {A} (enc : A -> bytes) l :
  zlen (concat (map enc l)) = fold_right (fun x acc => zlen (enc x) + acc) 0 l.
Proof. induction l as [|x l IH]; cbn [map concat fold_right]; [reflexivity|]. rewrite zlen_app, IH. reflexivity. Qed.
Lemma len_value_ok version v : value_ok version v -> len_value v = Ok (zlen (enc_value v)).
Proof.
  intro H. destruct (len_value v) as [l|] eqn:E.
  - rewrite (enc_value_len version v l H E). reflexivity.
  - exfalso. destruct v as [[t c]|]; [|destruct H]. unfold value_ok, len_value in *. cbn [value_type value_contents] in *.
    unfold ValueTypeNull, ValueTypeUnset, ValueTypeRegular in *.
    destruct H as [[-> _]|[[-> _]|[-> _]]]; cbn in E; discriminate.
Qed.
Lemma len_positional_values_ok version vs : values_ok version vs ->
  len_positional_values vs = Ok (zlen (enc_positional_values vs)).
Proof.
  intros [_ Hs]. unfold len_positional_values, enc_positional_values. rewrite zlen_app, be_bytes_zlen, zlen_concat_map.
  rewrite (llist_ok _ (fun v => zlen (enc_value v))); [reflexivity|].
  intros x Hx. rewrite Forall_forall in Hs. apply (len_value_ok version). apply Hs, Hx.
Qed.
Lemma len_named_values_ok version vs : named_ok version vs ->
  len_named_values vs = Ok (zlen (enc_named_values vs)).
Proof.
  intros [_ Hs]. unfold len_named_values, enc_named_values. rewrite zlen_app, be_bytes_zlen, zlen_concat_map.
  rewrite (llist_ok _ (fun nv => zlen (enc_named_entry nv))); [reflexivity|].
  intros [k v] Hx. rewrite Forall_forall in Hs. destruct (Hs _ Hx) as [_ Hv]. cbn [fst snd] in *.
  rewrite (len_value_ok version v Hv). unfold enc_named_entry. cbn [fst snd]. rewrite zlen_app, enc_string_len. reflexivity.
Qed.
Lemma named_values_okb_ok version nv : named_values_okb version nv = true ->
  named_ok version nv /\ nodup_keysb nv = true.
Proof.
  unfold named_values_okb. intro H. bsplit H. split; [|assumption]. split; [lia|].
  eapply forallb_Forall; [|eassumption]. intros [k v] Hkv. cbn [fst snd] in *. apply andb_prop in Hkv. destruct Hkv as [Hk Hv].
  split; [apply str_okb_le; exact Hk|apply value_okb_ok; exact Hv].
Qed.

(* normal forms stay valid *)
Lemma value_okb_nvalue version v : value_okb version (Some v) = true ->
  value_okb version (Some (nvalue v)) = true /\ nvalue (nvalue v) = nvalue v.
Proof.
  destruct v as [t c]. unfold value_okb, nvalue, NewValue, lstr_okb. cbn [value_type value_contents].
  unfold ValueTypeNull, ValueTypeUnset, ValueTypeRegular.
  destruct (Z.eqb_spec t 0) as [->|Ht].
  - destruct c as [c|]; cbn [value_type value_contents is_some negb olist Z.eqb andb orb]; intro H; split; try reflexivity; assumption.
  - cbn [value_type value_contents]. destruct (Z.eqb_spec t 0); [contradiction|]. intro H. split; [exact H|reflexivity].
Qed.
Lemma values_okb_norm version vs : values_okb version vs = true ->
  values_okb version (map novalue vs) = true /\ map novalue (map novalue vs) = map novalue vs.
Proof.
  unfold values_okb. intro H. apply andb_prop in H. destruct H as [H1 H2].
  assert (Hl : zlen (map novalue vs) = zlen vs) by (unfold zlen; rewrite map_length; reflexivity). rewrite Hl.
  rewrite forallb_forall in H2.
  split.
  - apply andb_true_intro. split; [exact H1|]. apply forallb_forall. intros x Hx. apply in_map_iff in Hx.
    destruct Hx as (y & <- & Hy). specialize (H2 y Hy). destruct y as [y|]; [|discriminate].
    cbn [novalue option_map]. apply value_okb_nvalue. exact H2.
  - rewrite map_map. apply map_ext_in. intros y Hy. specialize (H2 y Hy). destruct y as [y|]; [|reflexivity].
    cbn [novalue option_map]. f_equal. apply value_okb_nvalue with (version := version). exact H2.
Qed.

(* ---------- flag words built by  if cond { flags = flags.Add(flag) }  ---------- *)
Lemma contains_testbit f c k : c = 2 ^ k -> 0 <= k -> QueryFlag_Contains f c = Z.testbit f k.
Proof.
  intros -> Hk. unfold QueryFlag_Contains. destruct (Z.testbit f k) eqn:E.
  - apply negb_true_iff, Z.eqb_neq. intro H0.
    assert (H : Z.testbit (Z.land f (2 ^ k)) k = true) by (rewrite Z.land_spec, E, Z.pow2_bits_true by exact Hk; reflexivity).
    rewrite H0, Z.bits_0 in H. discriminate.
  - apply negb_false_iff, Z.eqb_eq. apply Z.bits_inj'. intros n Hn. rewrite Z.land_spec, Z.bits_0.
    destruct (Z.eq_dec k n) as [<-|Hne]; [rewrite E; reflexivity|]. rewrite Z.pow2_bits_false by exact Hne. apply andb_false_r.
Qed.
Lemma tb_add f m k : Z.testbit (QueryFlag_Add f m) k = Z.testbit f k || Z.testbit m k.
Proof. unfold QueryFlag_Add. apply Z.lor_spec. Qed.
Lemma tb_flag_if c f m k : Z.testbit (flag_if c f m) k = Z.testbit f k || (c && Z.testbit m k).
Proof. destruct c; unfold flag_if; [rewrite tb_add; reflexivity|rewrite orb_false_r; reflexivity]. Qed.
Lemma add_range n f m : 0 <= n -> 0 <= f < 2 ^ n -> 0 <= m < 2 ^ n -> 0 <= QueryFlag_Add f m < 2 ^ n.
Proof. intros. unfold QueryFlag_Add. apply lor_range; assumption. Qed.
Lemma flag_if_range n c f m : 0 <= n -> 0 <= f < 2 ^ n -> 0 <= m < 2 ^ n -> 0 <= flag_if c f m < 2 ^ n.
Proof. intros. destruct c; unfold flag_if; [apply add_range; assumption|assumption]. Qed.

Ltac closed_testbits :=
  repeat match goal with
  | |- context [Z.testbit ?m ?k] =>
      let b := eval vm_compute in (Z.testbit m k) in
      match b with
      | true => change (Z.testbit m k) with true
      | false => change (Z.testbit m k) with false
      end
  end.
Ltac bool_simpl := repeat (progress (cbn [orb andb negb]; rewrite ?andb_false_r, ?andb_true_r, ?orb_false_r, ?orb_true_r)).
(* goal: QueryFlag_Contains <flags chain> <constant flag> = <condition> *)
Ltac contains_tb :=
  match goal with
  | |- QueryFlag_Contains _ ?c = _ =>
      let k := eval vm_compute in (Z.log2 c) in
      rewrite (contains_testbit _ c k eq_refl) by lia
  end;
  repeat (first [rewrite tb_flag_if | rewrite tb_add]); closed_testbits; bool_simpl.
(* goal: 0 <= <flags chain> < 2 ^ n *)
Ltac flags_range :=
  repeat first [apply flag_if_range | apply add_range]; try lia; try (vm_compute; split; [discriminate|reflexivity]).
