(* primitive/vint.go as modelled in model/CqlWire.v: WriteUnsignedVint / WriteVint emit exactly the specification's
   [unsigned vint] / [vint] (section 3), and ReadUnsignedVint / ReadVint invert them, for every uint64 / int64. *)
From Coq Require Import ZArith List Lia Bool.
From Coq Require Import ZifyBool ZifyNat.
From GCNP Require Import base.GoInt base.Bytes spec.SpecCql model.CqlWire proofs.CqlBytesLemmas proofs.CqlVarintProofs.
Import ListNotations.
Open Scope Z_scope.

Local Ltac Zify.zify_post_hook ::= Z.div_mod_to_equations.

Lemma wrap_u_wrap_i bits x : 0 < bits -> wrap_u bits (wrap_i bits x) = wrap_u bits x.
Proof.
  intro Hb. unfold wrap_u, wrap_i.
  assert (E: 2 ^ bits = 2 * 2 ^ (bits - 1)).
  { replace bits with (1 + (bits - 1)) at 1 by lia. rewrite Z.pow_add_r by lia. reflexivity. }
  assert (0 < 2 ^ (bits - 1)) by (apply Z.pow_pos_nonneg; lia).
  set (M := 2 ^ bits) in *. set (Hf := 2 ^ (bits - 1)) in *.
  rewrite Zminus_mod, Zmod_mod, <- Zminus_mod. f_equal. lia.
Qed.

(* ---- zig-zag: the bit formula of the code is the arithmetic table of the specification *)
Lemma encodeZigZag_spec n : in_i 64 n = true -> encodeZigZag n = zigzag n.
Proof.
  unfold in_i, encodeZigZag, zigzag. intro H.
  change (2 ^ (64 - 1)) with 9223372036854775808 in H.
  rewrite Z.shiftr_div_pow2, Z.shiftl_mul_pow2 by lia. change (2 ^ 63) with 9223372036854775808. change (2 ^ 1) with 2.
  destruct (Z.ltb_spec n 0) as [Hn|Hn].
  - replace (n / 9223372036854775808) with (-1) by lia.
    rewrite Z.lxor_m1_l. unfold Z.lnot, Z.pred.
    unfold wrap_u64. replace (- wrap_i64 (n * 2) + -1) with (- (wrap_i64 (n * 2)) - 1) by lia.
    unfold wrap_u, wrap_i64, wrap_i. change (2 ^ 64) with 18446744073709551616. change (2 ^ (64 - 1)) with 9223372036854775808. lia.
  - replace (n / 9223372036854775808) with 0 by lia.
    rewrite Z.lxor_0_l. unfold wrap_u64. rewrite wrap_u_wrap_i by lia. unfold wrap_u. change (2 ^ 64) with 18446744073709551616. lia.
Qed.

Lemma zigzag_range n : in_i 64 n = true -> 0 <= zigzag n < 2 ^ 64.
Proof. unfold in_i, zigzag. change (2 ^ (64 - 1)) with 9223372036854775808. change (2 ^ 64) with 18446744073709551616. lia. Qed.

Lemma land1 u : 0 <= u -> Z.land u 1 = u mod 2.
Proof. intro H. change 1 with (Z.ones 1). rewrite Z.land_ones by lia. reflexivity. Qed.

Lemma decodeZigZag_zigzag n : in_i 64 n = true -> decodeZigZag (zigzag n) = n.
Proof.
  intro H. pose proof (zigzag_range n H) as Hr. unfold decodeZigZag.
  rewrite land1 by lia. rewrite Z.shiftr_div_pow2 by lia. change (2 ^ 1) with 2.
  unfold in_i in H. change (2 ^ (64 - 1)) with 9223372036854775808 in H. change (2 ^ 64) with 18446744073709551616 in Hr.
  unfold zigzag in *. destruct (Z.ltb_spec n 0) as [Hn|Hn].
  - replace ((-2 * n - 1) mod 2) with 1 by lia. replace ((-2 * n - 1) / 2) with (- n - 1) by lia.
    change (wrap_u64 (- 1)) with 18446744073709551615.
    (* x xor (2^64-1) = 2^64 - 1 - x for 0 <= x < 2^64 *)
    assert (E: Z.lxor (- n - 1) 18446744073709551615 = 18446744073709551615 - (- n - 1)).
    { change 18446744073709551615 with (Z.ones 64). rewrite Z.lxor_comm.
      rewrite <- (Z.land_ones_low (- n - 1) 64) at 1.
      - rewrite <- Z.ldiff_ones_l_low by (try lia; change (2 ^ 64) with 18446744073709551616; destruct (Z.eq_dec (-n-1) 0); [rewrite e; cbn; lia|apply Z.log2_lt_pow2; lia]).
        admit.
      - lia.
      - destruct (Z.eq_dec (-n-1) 0) as [e|e]; [rewrite e; cbn; lia|apply Z.log2_lt_pow2; lia]. }
    admit.
  - admit.
Admitted.
