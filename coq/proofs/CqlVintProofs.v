(* primitive/vint.go as modelled in model/CqlWire.v: WriteUnsignedVint / WriteVint emit exactly the specification's
   [unsigned vint] / [vint] (section 3), and ReadUnsignedVint / ReadVint invert them, for every uint64 / int64. *)
From Coq Require Import ZArith List Lia Bool.
From Coq Require Import ZifyBool ZifyNat.
From GCNP Require Import base.GoInt base.Bytes spec.SpecCql model.CqlWire proofs.CqlBytesLemmas proofs.CqlVarintProofs.
Import ListNotations.
Open Scope Z_scope.

Local Ltac Zify.zify_post_hook ::= Z.div_mod_to_equations.

Lemma wrap_u_wrap_i bits x : 0 < bits -> wrap_u bits (wrap_i bits x) = wrap_u bits x.
Proof.
  intro Hb. unfold wrap_u, wrap_i.
  assert (0 < 2 ^ bits) by (apply Z.pow_pos_nonneg; lia).
  rewrite Zminus_mod, Zmod_mod, <- Zminus_mod. f_equal. lia.
Qed.

Lemma bits_above x n k : 0 <= x < 2 ^ n -> n <= k -> Z.testbit x k = false.
Proof.
  intros Hx Hk. destruct (Z.eq_dec x 0) as [->|Hz]; [apply Z.bits_0|].
  apply Z.bits_above_log2; [lia|]. assert (Z.log2 x < n); [|lia]. apply Z.log2_lt_pow2; lia.
Qed.

(* x xor (2^n - 1) = 2^n - 1 - x on n-bit numbers *)
Lemma lxor_ones_low x n : 0 <= n -> 0 <= x < 2 ^ n -> Z.lxor x (Z.ones n) = Z.ones n - x.
Proof.
  intros Hn Hx.
  assert (E: Z.lxor x (Z.ones n) = Z.land (Z.lnot x) (Z.ones n)).
  { apply Z.bits_inj'. intros k Hk. rewrite Z.lxor_spec, Z.land_spec, Z.lnot_spec by lia.
    destruct (Z.lt_ge_cases k n).
    - rewrite Z.ones_spec_low by lia. destruct (Z.testbit x k); reflexivity.
    - rewrite Z.ones_spec_high by lia. rewrite (bits_above x n k) by lia. reflexivity. }
  rewrite E, Z.land_ones by lia. unfold Z.lnot, Z.pred. rewrite Z.ones_equiv. unfold Z.pred.
  symmetry. apply (Z.mod_unique_pos _ _ (-1)); lia.
Qed.

(* ---- zig-zag: the bit formulas of the code are the arithmetic table of the specification *)
Lemma encodeZigZag_spec n : in_i 64 n = true -> encodeZigZag n = zigzag n.
Proof.
  unfold in_i, encodeZigZag, zigzag. intro H.
  change (2 ^ (64 - 1)) with 9223372036854775808 in H.
  rewrite Z.shiftr_div_pow2, Z.shiftl_mul_pow2 by lia. change (2 ^ 63) with 9223372036854775808. change (2 ^ 1) with 2.
  destruct (Z.ltb_spec n 0) as [Hn|Hn].
  - replace (n / 9223372036854775808) with (-1) by lia.
    rewrite Z.lxor_m1_l. unfold Z.lnot, Z.pred.
    unfold wrap_u64, wrap_u, wrap_i64, wrap_i. change (2 ^ 64) with 18446744073709551616. change (2 ^ (64 - 1)) with 9223372036854775808. lia.
  - replace (n / 9223372036854775808) with 0 by lia.
    rewrite Z.lxor_0_l. unfold wrap_u64. rewrite wrap_u_wrap_i by lia. unfold wrap_u. change (2 ^ 64) with 18446744073709551616. lia.
Qed.

Lemma zigzag_range n : in_i 64 n = true -> 0 <= zigzag n < 2 ^ 64.
Proof. unfold in_i, zigzag. change (2 ^ (64 - 1)) with 9223372036854775808. change (2 ^ 64) with 18446744073709551616. destruct (Z.ltb_spec n 0); lia. Qed.

Lemma decodeZigZag_zigzag n : in_i 64 n = true -> decodeZigZag (zigzag n) = n.
Proof.
  intro H. pose proof (zigzag_range n H) as Hr. unfold decodeZigZag.
  change 1 with (Z.ones 1) at 2. rewrite Z.land_ones by lia. rewrite Z.shiftr_div_pow2 by lia. change (2 ^ 1) with 2.
  unfold in_i in H. change (2 ^ (64 - 1)) with 9223372036854775808 in H. change (2 ^ 64) with 18446744073709551616 in Hr.
  unfold zigzag in *. destruct (Z.ltb_spec n 0) as [Hn|Hn].
  - replace ((-2 * n - 1) mod 2) with 1 by lia. replace ((-2 * n - 1) / 2) with (- n - 1) by lia.
    change (wrap_u64 (- (1))) with (Z.ones 64).
    rewrite lxor_ones_low by (change (2 ^ 64) with 18446744073709551616; lia).
    change (Z.ones 64) with 18446744073709551615.
    unfold wrap_i64, wrap_i. change (2 ^ 64) with 18446744073709551616. change (2 ^ (64 - 1)) with 9223372036854775808. lia.
  - replace ((2 * n) mod 2) with 0 by lia. replace ((2 * n) / 2) with n by lia.
    change (wrap_u64 (- 0)) with 0. rewrite Z.lxor_0_r.
    unfold wrap_i64, wrap_i. change (2 ^ 64) with 18446744073709551616. change (2 ^ (64 - 1)) with 9223372036854775808. lia.
Qed.

(* ---- the first byte: finite facts, by exhaustive computation over the 8 prefixes and the 256 bytes *)
Definition vmask (e : Z) : Z := 256 - 2 ^ (8 - e).
Definition vcap (e : Z) : Z := if e =? 8 then 1 else 2 ^ (7 - e).      (* the value bits of the first byte are < vcap e *)

Definition first_byte_facts (e fb : Z) : bool :=
  if (vmask e <=? fb) && (fb <? vmask e + vcap e) then
    (Z.lor (fb - vmask e) (wrap_u8 (255 - Z.shiftr 255 e)) =? fb)
    && negb (Z.land fb 128 =? 0)
    && (lz32 (wrap_u8 (255 - fb)) - 24 =? e)
    && (Z.land fb (Z.shiftr 255 e) =? fb - vmask e)
  else true.

(* evaluate the closed numeric subterms (after e has been replaced by a numeral) without touching the variables *)
Ltac conc_one f :=
  repeat match goal with
  | |- context [f ?c] => let v := eval vm_compute in (f c) in progress change (f c) with v
  | H : context [f ?c] |- _ => let v := eval vm_compute in (f c) in progress change (f c) with v in H
  end.
Definition vhi (e : Z) : Z := if e =? 8 then 64 else 7 * (e + 1).
Ltac conc := conc_one vmask; conc_one vcap; conc_one vhi; conc_one (Z.pow 2); conc_one (Z.pow 256); conc_one (Z.mul 7).

Lemma first_byte_table :
  forallb (fun e => forallb (first_byte_facts e) all_bytes_list) [1; 2; 3; 4; 5; 6; 7; 8] = true.
Proof. vm_compute. reflexivity. Qed.

Lemma first_byte e h : 1 <= e <= 8 -> 0 <= h < vcap e ->
  Z.lor h (wrap_u8 (255 - Z.shiftr 255 e)) = vmask e + h /\
  (Z.land (vmask e + h) 128 =? 0) = false /\
  lz32 (wrap_u8 (255 - (vmask e + h))) - 24 = e /\
  Z.land (vmask e + h) (Z.shiftr 255 e) = h.
Proof.
  intros He Hh. pose proof first_byte_table as T. rewrite forallb_forall in T.
  assert (Hin: In e [1; 2; 3; 4; 5; 6; 7; 8]) by (cbn; lia).
  specialize (T e Hin).
  assert (Hfb: 0 <= vmask e + h < 256).
  { clear T. destruct Hin as [<-|[<-|[<-|[<-|[<-|[<-|[<-|[<-|[]]]]]]]]]; conc; lia. }
  pose proof (byte_forall _ T (vmask e + h) Hfb) as F. unfold first_byte_facts in F.
  replace ((vmask e <=? vmask e + h) && (vmask e + h <? vmask e + vcap e)) with true in F by lia.
  replace (vmask e + h - vmask e) with h in F by lia.
  rewrite !andb_true_iff in F. destruct F as (((F1 & F2) & F3) & F4).
  repeat split; lia.
Qed.

(* ---- bit length from bounds *)
Lemma bitlen_range u a b : 0 <= a -> 2 ^ a <= u < 2 ^ b -> a + 1 <= bitlen u <= b.
Proof.
  intros Ha (Hlo & Hhi). assert (0 < u) by (pose proof (Z.pow_pos_nonneg 2 a); lia).
  destruct (bitlen_spec u H) as (HL & Hl & Hh).
  assert (a < bitlen u) by (apply (Z.pow_lt_mono_r_iff 2); lia).
  assert (bitlen u - 1 < b).
  { apply (Z.pow_lt_mono_r_iff 2); try lia. destruct (Z.le_gt_cases 0 b); [lia|]. rewrite (Z.pow_neg_r 2 b) in Hhi; lia. }
  lia.
Qed.

Lemma vint_extra_bounds u : 0 <= u < 2 ^ 64 ->
  let e := Z.of_nat (vint_extra u) in
  0 <= e <= 8 /\ (e = 0 -> u < 2 ^ 7) /\ (1 <= e -> 2 ^ (7 * e) <= u < 2 ^ vhi e).
Proof.
  intro H. unfold vint_extra.
  repeat match goal with |- context [?a <? ?b] => destruct (Z.ltb_spec a b) end; cbn; lia.
Qed.

(* ---- WriteUnsignedVint = the specification's [unsigned vint] *)
Lemma uvint_value_bits e u : 1 <= e <= 8 -> 0 <= u < 2 ^ vhi e -> 0 <= u / 256 ^ e < vcap e.
Proof.
  intros He Hu.
  assert (Hin: In e [1; 2; 3; 4; 5; 6; 7; 8]) by (cbn; lia).
  destruct Hin as [<-|[<-|[<-|[<-|[<-|[<-|[<-|[<-|[]]]]]]]]]; conc; lia.
Qed.

Theorem writeUnsignedVint_spec u : 0 <= u < 2 ^ 64 -> spec_uvint u = Some (writeUnsignedVint u).
Proof.
  intro Hu. unfold spec_uvint.
  replace (fits_unsigned 8 u) with true by (unfold fits_unsigned; change (256 ^ Z.of_nat 8) with (2 ^ 64); lia).
  destruct (vint_extra_bounds u Hu) as (He & H0 & H1). set (en := vint_extra u) in *. set (e := Z.of_nat en) in *.
  f_equal. unfold writeUnsignedVint, lz64.
  rewrite Z.shiftr_div_pow2 by lia. change (2 ^ 6) with 64.
  destruct (Z.eq_dec e 0) as [E0|E0].
  - (* one byte *)
    specialize (H0 E0). assert (en = 0%nat) by lia. rewrite H. cbn [Z.of_nat spec_uint seq map]. rewrite E0.
    assert (HL: bitlen u <= 7).
    { destruct (Z.eq_dec u 0) as [->|]; [cbn; lia|]. pose proof (bitlen_range u 0 7 ltac:(lia) ltac:(cbn; lia)). lia. }
    assert (0 <= bitlen u) by (unfold bitlen; destruct (u =? 0); pose proof (Z.log2_nonneg u); lia).
    replace ((639 - (64 - bitlen u) * 9) / 64 <=? 1) with true by lia.
    unfold wrap_u8, wrap_u. change (2 ^ 8) with 256. change (2 ^ (8 - 0)) with 256. change (256 ^ 0) with 1.
    rewrite Z.div_1_r. change (2 ^ 7) with 128 in H0. f_equal. lia.
  - specialize (H1 ltac:(lia)).
    pose proof (bitlen_range u (7 * e) (vhi e) ltac:(lia) H1) as HL.
    assert (Hnb: (639 - (64 - bitlen u) * 9) / 64 = e + 1).
    { unfold vhi in HL. destruct (Z.eqb_spec e 8); lia. }
    rewrite Hnb. replace (e + 1 <=? 1) with false by lia.
    replace (Z.to_nat (e + 1)) with (S en) by lia. rewrite be_bytes_cons. fold e.
    replace (e + 1 - 1) with e by lia.
    pose proof (uvint_value_bits e u ltac:(lia) ltac:(lia)) as Hh.
    assert (Hh256: 0 <= u / 256 ^ e < 256).
    { unfold vcap in Hh. destruct (Z.eqb_spec e 8); [lia|].
      assert (2 ^ (7 - e) <= 2 ^ 8) by (apply Z.pow_le_mono_r; lia). change (2 ^ 8) with 256 in *. lia. }
    rewrite (Z.mod_small _ 256) by lia.
    destruct (first_byte e (u / 256 ^ e) ltac:(lia) Hh) as (F1 & _).
    rewrite F1. unfold vmask. f_equal.
    rewrite <- be_bytes_spec_uint. unfold e. apply be_bytes_mod.
Qed.

Lemma some_inj {A} (a b : A) : Some a = Some b -> a = b.
Proof. intro H. congruence. Qed.

(* ---- ReadUnsignedVint inverts it *)
Lemma lor_shift_byte x d : 0 <= x -> 0 <= d < 256 -> Z.lor (x * 256) d = x * 256 + d.
Proof.
  intros Hx Hd.
  assert (L: Z.land (x * 256) d = 0).
  { apply Z.bits_inj'. intros k Hk. rewrite Z.land_spec, Z.bits_0.
    change 256 with (2 ^ 8). rewrite <- Z.shiftl_mul_pow2 by lia.
    destruct (Z.lt_ge_cases k 8).
    - rewrite Z.shiftl_spec_low by lia. reflexivity.
    - rewrite (bits_above d 8 k) by (change (2 ^ 8) with 256; lia). apply andb_false_r. }
  rewrite <- Z.lxor_lor by exact L. symmetry. apply Z.add_nocarry_lxor. exact L.
Qed.

Definition vstep (val b : Z) : Z := wrap_u64 (Z.lor (wrap_u64 (Z.shiftl val 8)) (Z.land b 255)).

Lemma vstep_small val d : 0 <= val -> val * 256 + 256 <= 2 ^ 64 -> 0 <= d < 256 -> vstep val d = val * 256 + d.
Proof.
  intros Hv Hb Hd. unfold vstep. rewrite Z.shiftl_mul_pow2 by lia. change (2 ^ 8) with 256.
  change 255 with (Z.ones 8). rewrite Z.land_ones by lia. change (2 ^ 8) with 256. rewrite (Z.mod_small d 256) by lia.
  unfold wrap_u64, wrap_u. rewrite (Z.mod_small (val * 256)) by lia.
  rewrite lor_shift_byte by lia. apply Z.mod_small. lia.
Qed.

Lemma fold_vstep k : forall w val, 0 <= val -> val * 256 ^ Z.of_nat k + 256 ^ Z.of_nat k <= 2 ^ 64 ->
  fold_left vstep (be_bytes k w) val = val * 256 ^ Z.of_nat k + w mod 256 ^ Z.of_nat k.
Proof.
  induction k as [|k IH]; intros w val Hv Hb.
  - cbn. rewrite Z.mod_1_r. lia.
  - rewrite be_bytes_cons. cbn [fold_left]. rewrite pow256_S in *.
    pose proof (pow256_pos k) as HP. set (P := 256 ^ Z.of_nat k) in *.
    assert (Hd: 0 <= (w / P) mod 256 < 256) by (apply Z.mod_pos_bound; lia).
    rewrite vstep_small by nia.
    rewrite IH by nia. fold P.
    rewrite (Z.mul_comm 256 P), Z.rem_mul_r by lia. lia.
Qed.

Theorem readUnsignedVint_spec u rest : 0 <= u < 2 ^ 64 ->
  readUnsignedVint (writeUnsignedVint u ++ rest) = OK (u, rest).
Proof.
  intro Hu. pose proof (writeUnsignedVint_spec u Hu) as S. unfold spec_uvint in S.
  replace (fits_unsigned 8 u) with true in S by (unfold fits_unsigned; change (256 ^ Z.of_nat 8) with (2 ^ 64); lia).
  apply some_inj in S. rewrite <- S. clear S.
  destruct (vint_extra_bounds u Hu) as (He & H0 & H1). set (en := vint_extra u) in *. set (e := Z.of_nat en) in *.
  rewrite <- app_comm_cons. unfold readUnsignedVint.
  destruct (Z.eq_dec e 0) as [E0|E0].
  - specialize (H0 E0). assert (Hen: en = 0%nat) by lia. rewrite Hen, E0. unfold spec_uint. change (seq 0 0) with (@nil nat).
    cbv [map app].
    change (2 ^ (8 - 0)) with 256. change (256 ^ 0) with 1. change (2 ^ 8) with 256. rewrite Z.div_1_r. replace (256 - 256 + u) with u by lia.
    change (2 ^ 7) with 128 in H0. rewrite land128_eq0 by lia. replace (u <? 128) with true by lia. reflexivity.
  - specialize (H1 ltac:(lia)).
    pose proof (uvint_value_bits e u ltac:(lia) ltac:(lia)) as Hh.
    destruct (first_byte e (u / 256 ^ e) ltac:(lia) Hh) as (_ & F2 & F3 & F4).
    unfold vmask in *. change (2 ^ 8) with 256. rewrite F2, F3, F4.
    rewrite <- be_bytes_spec_uint, be_bytes_mod.
    assert (Hlen: zlen (be_bytes en u ++ rest) <? e = false).
    { rewrite zlen_app, be_bytes_zlen. pose proof (zlen_nonneg rest). fold e. lia. }
    rewrite Hlen. replace (Z.to_nat e) with (List.length (be_bytes en u)) by (rewrite be_bytes_length; lia).
    rewrite firstn_app_exact, skipn_app_exact. f_equal. f_equal.
    change (fun val b : Z => wrap_u64 (Z.lor (wrap_u64 (Z.shiftl val 8)) (Z.land b 255))) with vstep.
    assert (Hcap: u / 256 ^ e * 256 ^ e + 256 ^ e <= 2 ^ 64).
    { clear F2 F3 F4 Hlen.
      assert (Hin: In e [1; 2; 3; 4; 5; 6; 7; 8]) by (cbn; lia).
      revert Hh H1. generalize (u / 256 ^ e). intros q Hh H1. clearbody e. clear He H0 E0.
      destruct Hin as [<-|[<-|[<-|[<-|[<-|[<-|[<-|[<-|[]]]]]]]]]; conc; lia. }
    rewrite fold_vstep by (fold e; lia). fold e.
    pose proof (Z.pow_pos_nonneg 256 e ltac:(lia) ltac:(lia)).
    pose proof (Z.div_mod u (256 ^ e) ltac:(lia)). lia.
Qed.

(* ---- [vint] *)
Theorem writeVint_spec n : in_i 64 n = true -> spec_vint n = Some (writeVint n).
Proof.
  intro H. unfold spec_vint, writeVint.
  replace (fits_twos 8 n) with true by (unfold fits_twos, in_i in *; change (8 * Z.of_nat 8 - 1) with (64 - 1); lia).
  rewrite encodeZigZag_spec by exact H. apply writeUnsignedVint_spec. apply zigzag_range. exact H.
Qed.

Theorem readVint_writeVint n rest : in_i 64 n = true -> readVint (writeVint n ++ rest) = OK (n, rest).
Proof.
  intro H. unfold readVint, writeVint. rewrite encodeZigZag_spec by exact H.
  rewrite readUnsignedVint_spec by (apply zigzag_range; exact H).
  cbn [bindo fst snd]. rewrite decodeZigZag_zigzag by exact H. reflexivity.
Qed.

Lemma writeUnsignedVint_ok u : 0 <= u < 2 ^ 64 -> bytes_ok (writeUnsignedVint u).
Proof.
  intro Hu. pose proof (writeUnsignedVint_spec u Hu) as S. unfold spec_uvint in S.
  destruct (fits_unsigned 8 u); [|discriminate]. apply some_inj in S. rewrite <- S.
  destruct (vint_extra_bounds u Hu) as (He & H0 & H1). set (en := vint_extra u) in *. set (e := Z.of_nat en) in *.
  constructor.
  - unfold byte_ok. destruct (Z.eq_dec e 0) as [E0|E0].
    + specialize (H0 E0). rewrite E0. change (2 ^ (8 - 0)) with 256. change (256 ^ 0) with 1. rewrite Z.div_1_r. cbn in *. lia.
    + specialize (H1 ltac:(lia)). pose proof (uvint_value_bits e u ltac:(lia) ltac:(lia)) as Hh.
      assert (Hin: In e [1; 2; 3; 4; 5; 6; 7; 8]) by (cbn; lia).
      revert Hh. generalize (u / 256 ^ e). intros q Hh. clearbody e. clear He H0 E0 H1.
      destruct Hin as [<-|[<-|[<-|[<-|[<-|[<-|[<-|[<-|[]]]]]]]]]; conc; lia.
  - rewrite <- be_bytes_spec_uint. apply be_bytes_ok.
Qed.

Lemma writeVint_ok n : in_i 64 n = true -> bytes_ok (writeVint n).
Proof.
  intro H. unfold writeVint. rewrite encodeZigZag_spec by exact H. apply writeUnsignedVint_ok. apply zigzag_range. exact H.
Qed.

Lemma writeVint_nonempty n : in_i 64 n = true -> 0 < zlen (writeVint n).
Proof.
  intro H. pose proof (writeVint_spec n H) as S. unfold spec_vint, spec_uvint in S.
  destruct (fits_twos 8 n); [|discriminate]. destruct (fits_unsigned 8 (zigzag n)); [|discriminate].
  apply some_inj in S. rewrite <- S. rewrite zlen_cons. pose proof (zlen_nonneg (spec_uint (vint_extra (zigzag n)) (zigzag n mod 256 ^ Z.of_nat (vint_extra (zigzag n))))). lia.
Qed.
