(* The body-prefix plans regenerated from frame/encode.go and frame/decode.go (gen/BodyPlan_gen.v, go2coq unit
   "bodyplan": which optional part, in which order, under which guard) against the hand model of the same three
   functions (model/Frame.v):
     - the model's writer, length computation and reader ARE the interpretation of the regenerated plans
       (so a reordering or a changed guard in the source that the model does not follow breaks a lemma here);
     - writer and reader visit the parts in the same order, and all three functions guard each part identically
       whenever the header's direction bit equals the message's direction (which frame validity demands). *)
From Coq Require Import ZArith List Bool.
From GCNP Require Import base.GoInt base.Bytes base.Codec gen.Constants_gen gen.BodyPlan_gen model.Prim model.DataType
  model.MsgTypes model.Frame.
Import ListNotations.
Open Scope Z_scope.

Lemma wapp_nil_r : forall a : W, a +++ Ok [] = a.
Proof. intros [x|]; cbn [wapp]; [rewrite app_nil_r|]; reflexivity. Qed.
Lemma ladd_0_r : forall a : L, a +l+ Ok 0 = a.
Proof. intros [x|]; cbn [ladd]; [rewrite Z.add_0_r|]; reflexivity. Qed.

Section Plan.
  Variable mc : msg_codec.

  (* ---- writer ---- *)
  Definition enc_part (h : Header) (b : Body) (p : body_part) : W :=
    match p with
    | PTracing => write_uuid (bd_TracingId b)
    | PWarnings => if Z.ltb (h_Version h) ProtocolVersion4 && (match bd_Warnings b with Some _ => true | None => false end) then Err
                   else write_string_list (olist (bd_Warnings b))
    | PPayload => if Z.ltb (h_Version h) ProtocolVersion4 then Err else write_bytes_map (bd_CustomPayload b)
    | PMessage => mc_encode mc (h_Version h) (bd_Message b)
    end.
  Fixpoint run_enc_plan (h : Header) (b : Body) (pl : body_plan) : W :=
    match pl with
    | [] => Ok []
    | (p, g) :: r => (if g (h_Flags h) (h_IsResponse h) (msg_is_response (bd_Message b)) then enc_part h b p else Ok [])
                     +++ run_enc_plan h b r
    end.
  Lemma encode_body_is_plan : forall h b, encode_body_uncompressed mc h b = run_enc_plan h b enc_body_plan.
  Proof.
    intros h b. unfold encode_body_uncompressed, enc_body_plan, has. cbn [run_enc_plan enc_part].
    rewrite wapp_nil_r. reflexivity.
  Qed.

  (* ---- length ---- *)
  Definition len_part (h : Header) (b : Body) (p : body_part) : L :=
    match p with
    | PTracing => Ok LengthOfUuid
    | PWarnings => Ok (len_string_list (olist (bd_Warnings b)))
    | PPayload => Ok (len_bytes_map (bd_CustomPayload b))
    | PMessage => mc_length mc (h_Version h) (bd_Message b)
    end.
  Fixpoint run_len_plan (h : Header) (b : Body) (pl : body_plan) : L :=
    match pl with
    | [] => Ok 0
    | (p, g) :: r => (if g (h_Flags h) (h_IsResponse h) (msg_is_response (bd_Message b)) then len_part h b p else Ok 0)
                     +l+ run_len_plan h b r
    end.
  Lemma body_length_is_plan : forall h b, uncompressed_body_length mc h b = run_len_plan h b len_body_plan.
  Proof.
    intros h b. unfold uncompressed_body_length, len_body_plan, has. cbn [run_len_plan len_part].
    rewrite ladd_0_r. reflexivity.
  Qed.

  (* ---- reader: the parts fill a partial body (the reader has no message yet: both direction arguments of a guard
          are the header's direction bit) ---- *)
  Definition pbody : Type := (option bytes * option (list bytes) * list (bytes * option bytes) * option Message)%type.
  Definition dec_part (h : Header) (p : body_part) (acc : pbody) : R pbody :=
    let '(tr, wa, cp, m) := acc in
    match p with
    | PTracing => rmap (fun x => (Some x, wa, cp, m)) read_uuid
    | PWarnings => rmap (fun x => (tr, Some x, cp, m)) read_string_list
    | PPayload => rmap (fun x => (tr, wa, dedup_last x, m)) read_bytes_map
    | PMessage => rmap (fun x => (tr, wa, cp, Some x)) (mc_decode mc (h_Version h) (h_OpCode h))
    end.
  Fixpoint run_dec_plan (h : Header) (pl : body_plan) (acc : pbody) : R pbody :=
    match pl with
    | [] => ret acc
    | (p, g) :: r => acc' <- (if g (h_Flags h) (h_IsResponse h) (h_IsResponse h) then dec_part h p acc else ret acc) ;;
                     run_dec_plan h r acc'
    end.
  Definition finish_body (r : dres pbody) : dres Body :=
    match r with
    | DOk (tr, wa, cp, Some m) rest => DOk {| bd_TracingId := tr; bd_CustomPayload := cp; bd_Warnings := wa; bd_Message := m |} rest
    | DOk (_, _, _, None) _ => DFuel
    | DErr => DErr | DPanic => DPanic | DFuel => DFuel
    end.
  Lemma decode_body_is_plan : forall h bs,
    decode_body_parts mc h bs = finish_body (run_dec_plan h dec_body_plan (None, None, [], None) bs).
  Proof.
    intros h bs. unfold decode_body_parts, dec_body_plan, has. cbn [run_dec_plan].
    destruct (h_IsResponse h); cbn [andb];
      destruct (HeaderFlag_Contains (h_Flags h) HeaderFlagTracing);
      destruct (HeaderFlag_Contains (h_Flags h) HeaderFlagWarning);
      destruct (HeaderFlag_Contains (h_Flags h) HeaderFlagCustomPayload);
      cbv beta iota delta [bind rmap ret dec_part finish_body];
      repeat (match goal with
              | |- context [match ?r ?x with DOk _ _ => _ | DErr => _ | DPanic => _ | DFuel => _ end] =>
                  lazymatch r with
                  | read_uuid => idtac | read_string_list => idtac | read_bytes_map => idtac | mc_decode _ _ _ => idtac
                  end; destruct (r x); cbv beta iota; try reflexivity
              end).
  Qed.
End Plan.

(* ---- the three plans against each other ---- *)
Definition guard_of (p : body_part) (pl : body_plan) : option (Z -> bool -> bool -> bool) :=
  match filter (fun e => match fst e, p with
                         | PTracing, PTracing | PWarnings, PWarnings | PPayload, PPayload | PMessage, PMessage => true
                         | _, _ => false end) pl with
  | [(_, g)] => Some g
  | _ => None                                   (* absent or handled twice *)
  end.
Definition guards_agree (flags : Z) (r : bool) (p : body_part) : bool :=
  match guard_of p enc_body_plan, guard_of p len_body_plan, guard_of p dec_body_plan with
  | Some ge, Some gl, Some gd => Bool.eqb (ge flags r r) (gl flags r r) && Bool.eqb (ge flags r r) (gd flags r r)
  | _, _, _ => false
  end.

(* writer and reader visit the same parts in the same order, ending with the message, each exactly once *)
Lemma plan_order_agrees :
  map fst enc_body_plan = map fst dec_body_plan /\ map fst enc_body_plan = [PTracing; PWarnings; PPayload; PMessage].
Proof. split; reflexivity. Qed.

(* every part is handled exactly once by each of the three functions and under the same condition, for every flag
   byte, whenever header direction = message direction *)
Lemma plan_guards_agree : forall flags r p, guards_agree flags r p = true.
Proof.
  intros flags r p. unfold guards_agree. destruct p; cbn;
    destruct r;
    repeat match goal with |- context [HeaderFlag_Contains flags ?c] => destruct (HeaderFlag_Contains flags c) end; reflexivity.
Qed.
