(* C02, body clause: shared lemmas for comparing the pure byte functions that characterise the model encoders
   (bytes_T / enc_X of the proofs/Msg*Proofs.v files) with the specification side (spec/SpecNotation.v, SpecMsg.v). *)
From Coq Require Import ZArith List Bool Lia.
From Coq Require Import ZifyBool ZifyNat.
From GCNP Require Import base.GoInt base.Bytes base.Codec gen.Constants_gen spec.SpecTables model.Prim model.DataType
  model.MsgTypes model.Frame model.MsgRequests proofs.PrimProofs proofs.CqlBytesLemmas proofs.FrameProofs proofs.MsgRequestsLib
  spec.SpecNotation spec.SpecMsg spec.SpecFrame.
Import ListNotations.
Open Scope Z_scope.
Ltac Zify.zify_post_hook ::= Z.div_mod_to_equations.

(* ---------- versions ---------- *)
Lemma supported_is_version v : supported v -> spec_is_version v = true.
Proof. intro H. destruct (supported_cases _ H) as [->|[->|[->|[->|[->| ->]]]]]; reflexivity. Qed.

(* ---------- ser_all ---------- *)
Lemma ser_all_nil : ser_all [] = []. Proof. reflexivity. Qed.
Lemma ser_all_cons n l : ser_all (n :: l) = ser n ++ ser_all l. Proof. reflexivity. Qed.
Lemma ser_all_app a b : ser_all (a ++ b) = ser_all a ++ ser_all b.
Proof. unfold ser_all. rewrite map_app, concat_app. reflexivity. Qed.
Lemma ser_all_one n : ser_all [n] = ser n. Proof. unfold ser_all. cbn [map concat]. apply app_nil_r. Qed.

(* how a body equation is established: the layout, its representability, its bytes *)
Lemma spec_bytes_intro v m l b :
  spec_body_raw v m = Some l -> forallb notation_ok l = true -> ser_all l = b -> spec_body_bytes v m = Some b.
Proof.
  intros Hr Hok Hb. unfold spec_body_bytes, spec_body. rewrite Hr. cbn [obind]. rewrite Hok. cbn [obind]. rewrite Hb. reflexivity.
Qed.

(* ---------- representability from the model's range conditions ---------- *)
Lemma fits_u16 z : 0 <= z <= 65535 -> fits_u 16 z = true.
Proof. intro H. unfold fits_u. change (2 ^ 16) with 65536. lia. Qed.
Lemma fits_u8 z : 0 <= z <= 255 -> fits_u 8 z = true.
Proof. intro H. unfold fits_u. change (2 ^ 8) with 256. lia. Qed.
Lemma fits_u31 z : 0 <= z <= 2147483647 -> fits_u 31 z = true.
Proof. intro H. unfold fits_u. change (2 ^ 31) with 2147483648. lia. Qed.
Lemma fits_any32 z : -2147483648 <= z < 4294967296 -> fits_any 32 z = true.
Proof. intro H. unfold fits_any. change (2 ^ (32 - 1)) with 2147483648. change (2 ^ 32) with 4294967296. lia. Qed.
Lemma fits_any64 z : -9223372036854775808 <= z < 18446744073709551616 -> fits_any 64 z = true.
Proof. intro H. unfold fits_any. change (2 ^ (64 - 1)) with 9223372036854775808. change (2 ^ 64) with 18446744073709551616. lia. Qed.

Lemma string_ok_le s : zlen s <= 65535 -> string_ok s = true.
Proof. intro H. unfold string_ok. apply fits_u16. pose proof (zlen_nonneg s). lia. Qed.
Lemma blob_ok_le s : zlen s <= 2147483647 -> blob_ok s = true.
Proof. intro H. unfold blob_ok. apply fits_u31. pose proof (zlen_nonneg s). lia. Qed.
Lemma strings_ok_le l : Forall (fun s => zlen s <= 65535) l -> forallb string_ok l = true.
Proof. intro H. apply forallb_forall. intros s Hs. rewrite Forall_forall in H. apply string_ok_le, H, Hs. Qed.
Lemma string_list_nok l : zlen l <= 65535 -> Forall (fun s => zlen s <= 65535) l -> notation_ok (NStringList l) = true.
Proof.
  intros Hn Hs. cbn [notation_ok]. rewrite strings_ok_le by exact Hs. clear Hs. rewrite fits_u16 by (split; [apply zlen_nonneg|exact Hn]). reflexivity.
Qed.
Lemma obytes_nok b : zlen (olist b) <= 2147483647 -> notation_ok (NBytes b) = true.
Proof. destruct b as [x|]; cbn [notation_ok olist]; [apply blob_ok_le|reflexivity]. Qed.

(* ---------- the model's pure encodings are the specification's serialisations ---------- *)
Lemma ser_string_enc s : ser_string s = enc_string s. Proof. reflexivity. Qed.
Lemma ser_long_string_enc s : ser_long_string s = enc_long_string s. Proof. reflexivity. Qed.
Lemma ser_bytes_enc b : ser_bytes b = enc_bytes b. Proof. destruct b; reflexivity. Qed.
Lemma ser_string_list_enc l : ser_string_list l = enc_string_list l. Proof. reflexivity. Qed.
Lemma ser_short_bytes_enc b : ser_short_bytes b = enc_short_bytes (Some b). Proof. reflexivity. Qed.
Lemma ser_string_map_enc m : ser_string_map m = enc_string_map m. Proof. reflexivity. Qed.
Lemma ser_string_multimap_enc m : ser_string_multimap m = enc_string_multimap m. Proof. reflexivity. Qed.
Lemma ser_bytes_map_enc m : ser_bytes_map m = enc_bytes_map m.
Proof. reflexivity. Qed.

(* net.IP: the specification side's reading (spec_ip) and the model's (ip_to4) *)
Lemma beq_bytes_eqb a b : beq a b = bytes_eqb a b.
Proof. revert b; induction a as [|x a IH]; intros [|y b]; cbn [beq bytes_eqb]; first [reflexivity | rewrite IH; reflexivity]. Qed.
Lemma spec_ip_inetaddr ip : ip_ok ip -> exists a, spec_ip ip = Some a /\ addr_ok a = true /\ ser_inetaddr a = enc_inet_addr ip.
Proof.
  destruct ip as [b|]; [|intros []]. cbn [ip_ok spec_ip enc_inet_addr]. unfold ip_to4, v4_in_v6_prefix. intros [H|H].
  - rewrite H. change (4 =? 4) with true. cbv iota. exists b. repeat split.
    + unfold addr_ok. rewrite H. reflexivity.
    + unfold ser_inetaddr, ser_byte. rewrite H. reflexivity.
  - rewrite H. change (16 =? 4) with false. change (16 =? 16) with true. cbv iota. cbn [andb]. rewrite beq_bytes_eqb.
    destruct (bytes_eqb (firstn 12 b) [0; 0; 0; 0; 0; 0; 0; 0; 0; 0; 255; 255]).
    + destruct (zlen_firstn12 b H) as [_ H4]. exists (skipn 12 b). repeat split.
      * unfold addr_ok. rewrite H4. reflexivity.
      * unfold ser_inetaddr, ser_byte. rewrite H4. reflexivity.
    + exists b. repeat split.
      * unfold addr_ok. rewrite H. reflexivity.
      * unfold ser_inetaddr, ser_byte. rewrite H. reflexivity.
Qed.
Lemma spec_inet_enc i : inet_ok i -> exists n, spec_inet i = Some n /\ notation_ok n = true /\ ser n = enc_inet i.
Proof.
  destruct i as [[a p]|]; [|intros []]. cbn [inet_ok inet_addr inet_port]. intros [Ha Hp].
  destruct (spec_ip_inetaddr a Ha) as (x & Hx & Hok & Hser).
  exists (NInet x p). unfold spec_inet. cbn [obind inet_addr inet_port]. rewrite Hx. cbn [obind]. repeat split.
  - cbn [notation_ok]. rewrite Hok. unfold in_i32 in Hp. rewrite fits_any32 by lia. reflexivity.
  - cbn [ser enc_inet inet_addr inet_port]. unfold ser_inet. rewrite <- Hser. unfold ser_inetaddr, ser_int.
    rewrite <- app_assoc. reflexivity.
Qed.

(* booleans *)
Lemma isSome_is_some {A} (o : option A) : isSome o = is_some o. Proof. destruct o; reflexivity. Qed.
Lemma nonempty_eq {A} (l : list A) : SpecMsg.nonempty l = MsgRequests.nonempty l. Proof. destruct l; reflexivity. Qed.
