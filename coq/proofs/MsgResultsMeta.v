(* RESULT metadata (result_metadata.go): columns, variables metadata, rows metadata.
   For each: encoder = pure encoding, decoder inverts it for every suffix [rest], length, norm/ok closure. *)
From Coq Require Import ZArith List Bool Lia.
From Coq Require Import ZifyBool ZifyNat.
From Coq Require String.
From GCNP Require Import base.GoInt base.Bytes base.Codec base.StrBytes gen.Constants_gen model.Prim model.DataType
  model.MsgTypes model.MsgResults proofs.PrimProofs proofs.PrimTotal proofs.DataTypeProofs
  proofs.MsgResultsDataType proofs.MsgResultsValid.
Import ListNotations.
Open Scope Z_scope.
Ltac Zify.zify_post_hook ::= Z.div_mod_to_equations.

Ltac split_andb :=
  repeat match goal with
  | H : (_ && _) = true |- _ => apply andb_prop in H; destruct H
  end.

(* ---------- small facts ---------- *)
Lemma wrap_i32_range x : in_i32 (wrap_i 32 x).
Proof. unfold in_i32, wrap_i. change (2 ^ (32 - 1)) with 2147483648. change (2 ^ 32) with 4294967296. lia. Qed.
Lemma wrap_u32_wrap_i32 x : 0 <= x < 4294967296 -> wrap_u 32 (wrap_i 32 x) = x.
Proof. intro H. unfold wrap_u, wrap_i. change (2 ^ (32 - 1)) with 2147483648. change (2 ^ 32) with 4294967296. lia. Qed.
Lemma wapp_Ok a b : Ok a +++ Ok b = Ok (a ++ b).
Proof. reflexivity. Qed.
Lemma ladd_Ok a b : Ok a +l+ Ok b = Ok (a + b).
Proof. reflexivity. Qed.
Lemma zlen_zero_nil {A} (l : list A) : zlen l = 0 -> l = [].
Proof. destruct l; [reflexivity|]. rewrite zlen_cons. pose proof (zlen_nonneg l). lia. Qed.
Lemma zlen_map {A B} (f : A -> B) l : zlen (map f l) = zlen l.
Proof. unfold zlen. rewrite map_length. reflexivity. Qed.
Lemma str_okb_iff s : str_okb s = true <-> zlen s <= 65535.
Proof. unfold str_okb. lia. Qed.
Lemma nonempty_str_okb_iff s : nonempty_str_okb s = true <-> 1 <= zlen s <= 65535.
Proof. unfold nonempty_str_okb. lia. Qed.
Lemma bytes_is_empty_false s : 1 <= zlen s -> bytes_is_empty s = false.
Proof. intro H. rewrite bytes_is_empty_zlen. lia. Qed.

(* ---------- haveSameTable ---------- *)
Lemma same_table_as_Some ks tb cols : forallb column_okb cols = true -> exists b, same_table_as ks tb cols = Ok b.
Proof.
  induction cols as [|[c|] r IH]; cbn [forallb same_table_as column_okb]; intro H.
  - eauto.
  - apply andb_prop in H. destruct H as [_ H].
    destruct (negb (bytes_eqb (cm_Keyspace c) ks) || negb (bytes_eqb (cm_Table c) tb)); [eauto|apply IH; exact H].
  - discriminate.
Qed.
Lemma haveSameTable_Some cols : forallb column_okb cols = true -> haveSameTable cols = Ok (same_table cols).
Proof.
  intro H. unfold same_table. destruct cols as [|[c|] r]; cbn [haveSameTable]; [reflexivity| |cbn in H; discriminate].
  cbn [forallb] in H. apply andb_prop in H. destruct H as [_ H].
  destruct (same_table_as_Some (cm_Keyspace c) (cm_Table c) r H) as [b ->]. destruct b; reflexivity.
Qed.
Lemma same_table_as_true ks tb cols : same_table_as ks tb cols = Ok true ->
  forall c, In (Some c) cols -> cm_Keyspace c = ks /\ cm_Table c = tb.
Proof.
  induction cols as [|[c'|] r IH]; cbn [same_table_as]; intros H c Hin; [destruct Hin| |discriminate].
  destruct (bytes_eqb (cm_Keyspace c') ks) eqn:Ek; cbn [negb orb] in H; [|discriminate].
  destruct (bytes_eqb (cm_Table c') tb) eqn:Et; cbn [negb] in H; [|discriminate].
  destruct Hin as [E|Hin].
  - assert (c' = c) by congruence. subst. split; apply bytes_eqb_eq; assumption.
  - apply IH; assumption.
Qed.
Lemma same_table_true cols : same_table cols = true ->
  exists c0 r, cols = Some c0 :: r /\ forall c, In (Some c) cols -> cm_Keyspace c = cm_Keyspace c0 /\ cm_Table c = cm_Table c0.
Proof.
  unfold same_table. destruct cols as [|[c0|] r]; cbn [haveSameTable]; try discriminate.
  destruct (same_table_as (cm_Keyspace c0) (cm_Table c0) r) as [[|]|] eqn:E; try discriminate. intros _.
  exists c0, r. split; [reflexivity|]. intros c [Hc|Hc].
  - assert (c0 = c) by congruence. subst. split; reflexivity.
  - eapply same_table_as_true; eassumption.
Qed.

(* ---------- Flags() ---------- *)
Lemma RowsMetadata_Flags_ok m : forallb column_okb (rm_Columns m) = true -> RowsMetadata_Flags m = Ok (rows_flags_of m).
Proof.
  intro H. unfold RowsMetadata_Flags, rows_flags_of, rows_flag_word. rewrite (haveSameTable_Some _ H).
  destruct (zlen (rm_Columns m) =? 0); [|destruct (same_table (rm_Columns m))];
    destruct (rm_PagingState m); destruct (rm_NewResultMetadataId m); reflexivity.
Qed.
Lemma VariablesMetadata_Flags_ok m : forallb column_okb (vm_Columns m) = true ->
  VariablesMetadata_Flags m = Ok (variables_flag_word m).
Proof.
  intro H. unfold VariablesMetadata_Flags, variables_flag_word. rewrite (haveSameTable_Some _ H).
  destruct (zlen (vm_Columns m) >? 0); [|reflexivity]. destruct (same_table (vm_Columns m)); reflexivity.
Qed.

Section FlagWord.
  Variables nometa global more changed cp last : bool.
  Let w := rows_flag_word nometa global more changed cp last.
  Lemma rows_flag_word_range : 0 <= w < 4294967296.
  Proof. subst w. destruct nometa, global, more, changed, cp, last; vm_compute; split; congruence. Qed.
  Lemma rows_flag_more : RowsFlag_Contains w RowsFlagHasMorePages = more.
  Proof. subst w. destruct nometa, global, more, changed, cp, last; reflexivity. Qed.
  Lemma rows_flag_changed : RowsFlag_Contains w RowsFlagMetadataChanged = changed.
  Proof. subst w. destruct nometa, global, more, changed, cp, last; reflexivity. Qed.
  Lemma rows_flag_cp : RowsFlag_Contains w RowsFlagDseContinuousPaging = cp.
  Proof. subst w. destruct nometa, global, more, changed, cp, last; reflexivity. Qed.
  Lemma rows_flag_last : RowsFlag_Contains w RowsFlagDseLastContinuousPage = cp && last.
  Proof. subst w. destruct nometa, global, more, changed, cp, last; reflexivity. Qed.
  Lemma rows_flag_global : RowsFlag_Contains w RowsFlagGlobalTablesSpec = negb nometa && global.
  Proof. subst w. destruct nometa, global, more, changed, cp, last; reflexivity. Qed.
  Lemma rows_flag_nometa : (Z.land w RowsFlagNoMetadata =? 0) = negb nometa.
  Proof. subst w. destruct nometa, global, more, changed, cp, last; reflexivity. Qed.
End FlagWord.

Lemma variables_flag_word_cases m : variables_flag_word m = 0 \/ variables_flag_word m = 1.
Proof. unfold variables_flag_word. destruct (_ && _); auto. Qed.
Lemma variables_flag_contains m :
  VariablesFlag_Contains (variables_flag_word m) VariablesFlagGlobalTablesSpec = (zlen (vm_Columns m) >? 0) && same_table (vm_Columns m).
Proof. unfold variables_flag_word. destruct (_ && _); reflexivity. Qed.
Lemma variables_flag_land m :
  (Z.land (variables_flag_word m) VariablesFlagGlobalTablesSpec >? 0) = (zlen (vm_Columns m) >? 0) && same_table (vm_Columns m).
Proof. unfold variables_flag_word. destruct (_ && _); reflexivity. Qed.

(* ---------- one column ---------- *)
Lemma column_okb_Some oc : column_okb oc = true ->
  exists c t, oc = Some c /\ cm_Type c = Some t /\ dt_okb t = true /\
              zlen (cm_Keyspace c) <= 65535 /\ zlen (cm_Table c) <= 65535 /\ zlen (cm_Name c) <= 65535.
Proof.
  destruct oc as [c|]; [|discriminate]. cbn [column_okb]. intro H. split_andb.
  destruct (cm_Type c) as [t|] eqn:Et; [|discriminate]. exists c, t. cbn [odt_okb] in *.
  rewrite str_okb_iff in *. repeat split; assumption.
Qed.

Lemma enc_column_ok global version oc : column_okb oc = true -> enc_column global version oc = Ok (bytes_column global oc).
Proof.
  intro H. destruct (column_okb_Some oc H) as (c & t & -> & Et & Ht & Hk & Htb & Hn).
  cbn [enc_column bytes_column]. rewrite Et. cbn [write_data_type enc_odt].
  rewrite (write_dt_ok version t Ht), !write_string_ok by assumption.
  destruct global; cbn [negb wapp]; rewrite <- ?app_assoc; reflexivity.
Qed.

Lemma len_column_ok global version oc : column_okb oc = true ->
  len_column global version oc = Ok (zlen (bytes_column global oc)).
Proof.
  intro H. destruct (column_okb_Some oc H) as (c & t & -> & Et & Ht & Hk & Htb & Hn).
  cbn [len_column bytes_column]. rewrite Et. cbn [len_data_type enc_odt].
  rewrite (len_dt_ok version t Ht).
  destruct global; cbn [negb ladd]; rewrite ?zlen_app, ?enc_string_len; f_equal; cbn [zlen length]; lia.
Qed.

Definition column_fuel (fuel : nat) (oc : option ColumnMetadata) : Prop :=
  match oc with Some c => (odt_depth (cm_Type c) <= fuel)%nat | None => True end.

Lemma dec_column_app fuel global gk gt version oc rest : column_okb oc = true -> column_fuel fuel oc ->
  (global = true -> match oc with Some c => cm_Keyspace c = gk /\ cm_Table c = gt | None => True end) ->
  dec_column fuel global gk gt version (bytes_column global oc ++ rest) = DOk (norm_column oc) rest.
Proof.
  intros H Hf Hg. destruct (column_okb_Some oc H) as (c & t & -> & Et & Ht & Hk & Htb & Hn).
  cbn [bytes_column norm_column option_map column_fuel] in *. rewrite Et in *. cbn [enc_odt odt_depth] in *.
  unfold dec_column. destruct global.
  - destruct (Hg eq_refl) as [<- <-]. cbn [app]. rewrite <- app_assoc.
    unfold bind at 1, ret at 1. unfold bind at 1, ret at 1.
    unfold bind at 1. rewrite read_string_app by exact Hn.
    unfold bind at 1. rewrite read_dt_app by assumption. reflexivity.
  - rewrite <- !app_assoc.
    unfold bind at 1. rewrite read_string_app by exact Hk.
    unfold bind at 1. rewrite read_string_app by exact Htb.
    unfold bind at 1. rewrite read_string_app by exact Hn.
    unfold bind at 1. rewrite read_dt_app by assumption. reflexivity.
Qed.

Lemma bytes_column_nonempty global oc : column_okb oc = true -> (1 <= length (bytes_column global oc))%nat.
Proof.
  intro H. destruct (column_okb_Some oc H) as (c & t & -> & _). cbn [bytes_column].
  rewrite !app_length. pose proof (enc_string_nonempty (cm_Name c)). lia.
Qed.

Lemma column_fuel_bytes global oc : column_okb oc = true -> column_fuel (length (bytes_column global oc)) oc.
Proof.
  intro H. destruct (column_okb_Some oc H) as (c & t & -> & Et & Ht & _). cbn [bytes_column column_fuel].
  rewrite Et. cbn [odt_depth enc_odt]. pose proof (dt_depth_bound t Ht). rewrite !app_length. lia.
Qed.
Lemma column_fuel_mono f f' oc : (f <= f')%nat -> column_fuel f oc -> column_fuel f' oc.
Proof. destruct oc; cbn [column_fuel]; lia. Qed.

Lemma norm_column_ok oc : column_okb oc = true -> column_okb (norm_column oc) = true /\ norm_column (norm_column oc) = norm_column oc.
Proof. destruct oc as [c|]; [|discriminate]. cbn [norm_column option_map column_okb]. intro H. split; [exact H|reflexivity]. Qed.

(* ---------- columns ---------- *)
Definition columns_fuel (fuel : nat) (cols : list (option ColumnMetadata)) : Prop := Forall (column_fuel fuel) cols.

Lemma length_concat_in {A} (f : A -> list Z) l x : In x l -> (length (f x) <= length (concat (map f l)))%nat.
Proof.
  induction l as [|y l IH]; intro H; [destruct H|]. cbn [map concat]. rewrite app_length.
  destruct H as [->|H]; [lia|]. specialize (IH H). lia.
Qed.

Lemma columns_fuel_bytes global cols : forallb column_okb cols = true -> columns_fuel (length (bytes_columns global cols)) cols.
Proof.
  intro H. unfold columns_fuel. rewrite Forall_forall. intros oc Hin. rewrite forallb_forall in H.
  eapply column_fuel_mono; [|apply (column_fuel_bytes global); apply H; exact Hin].
  unfold bytes_columns. rewrite app_length. eapply Nat.le_trans; [apply (length_concat_in (bytes_column global) cols oc Hin)|apply Nat.le_add_l].
Qed.
Lemma columns_fuel_mono f f' cols : (f <= f')%nat -> columns_fuel f cols -> columns_fuel f' cols.
Proof. unfold columns_fuel. rewrite !Forall_forall. intros Hle H x Hx. eapply column_fuel_mono; [exact Hle|apply H; exact Hx]. Qed.

Lemma enc_columns_ok global cols version : forallb column_okb cols = true -> (global = true -> same_table cols = true) ->
  enc_columns_metadata global cols version = Ok (bytes_columns global cols).
Proof.
  intros H Hg. unfold enc_columns_metadata, bytes_columns.
  rewrite (wlist_ok _ (bytes_column global)) by (intros x Hx; apply enc_column_ok; rewrite forallb_forall in H; apply H; exact Hx).
  destruct global; [|reflexivity].
  destruct (same_table_true cols (Hg eq_refl)) as (c0 & r & -> & _).
  rewrite forallb_forall in H. specialize (H (Some c0) (or_introl eq_refl)).
  destruct (column_okb_Some _ H) as (c & t & Ec & _ & _ & Hk & Htb & _). assert (c = c0) by congruence. subst c.
  rewrite !write_string_ok by assumption. cbn [wapp]. rewrite <- ?app_assoc. reflexivity.
Qed.

Lemma len_columns_ok global cols version : forallb column_okb cols = true -> (global = true -> same_table cols = true) ->
  len_columns_metadata global cols version = Ok (zlen (bytes_columns global cols)).
Proof.
  intros H Hg. unfold len_columns_metadata, bytes_columns.
  rewrite (llist_ok _ (bytes_column global)) by (intros x Hx; apply len_column_ok; rewrite forallb_forall in H; apply H; exact Hx).
  destruct global.
  - destruct (same_table_true cols (Hg eq_refl)) as (c0 & r & -> & _).
    cbn [ladd]. rewrite !zlen_app, !enc_string_len. reflexivity.
  - cbn [ladd app]. reflexivity.
Qed.

Lemma dec_columns_app fuel global cols version rest :
  forallb column_okb cols = true -> (global = true -> same_table cols = true) -> columns_fuel fuel cols ->
  dec_columns_metadata fuel global (zlen cols) version (bytes_columns global cols ++ rest) = DOk (map norm_column cols) rest.
Proof.
  intros H Hg Hf. unfold dec_columns_metadata, bytes_columns. pose proof (zlen_nonneg cols) as Hnn.
  rewrite forallb_forall in H. unfold columns_fuel in Hf. rewrite Forall_forall in Hf.
  destruct global.
  - destruct (same_table_true cols (Hg eq_refl)) as (c0 & r & E & Hsame).
    assert (H0 : column_okb (Some c0) = true) by (apply H; rewrite E; left; reflexivity).
    destruct (column_okb_Some _ H0) as (c & t & Ec & _ & _ & Hk & Htb & _). assert (c = c0) by congruence. subst c.
    rewrite E at 1. rewrite <- !app_assoc.
    unfold bind at 1. rewrite read_string_app by exact Hk.
    unfold bind at 1. rewrite read_string_app by exact Htb.
    unfold bind at 1. unfold rmake. destruct (Z.ltb_spec (zlen cols) 0); [lia|]. unfold ret at 1.
    apply (read_count_app (bytes_column true) _ norm_column).
    + intros x rest' Hx. apply dec_column_app; [apply H; exact Hx|apply Hf; exact Hx|].
      intros _. destruct x as [c|]; [|exact I]. apply Hsame. exact Hx.
    + intros x Hx. apply bytes_column_nonempty. apply H. exact Hx.
  - cbn [app]. unfold bind at 1, ret at 1. unfold bind at 1, ret at 1.
    unfold bind at 1. unfold rmake. destruct (Z.ltb_spec (zlen cols) 0); [lia|]. unfold ret at 1.
    apply (read_count_app (bytes_column false) _ norm_column).
    + intros x rest' Hx. apply dec_column_app; [apply H; exact Hx|apply Hf; exact Hx|discriminate].
    + intros x Hx. apply bytes_column_nonempty. apply H. exact Hx.
Qed.

Lemma norm_columns_ok cols : forallb column_okb cols = true ->
  forallb column_okb (map norm_column cols) = true /\ map norm_column (map norm_column cols) = map norm_column cols.
Proof.
  induction cols as [|oc r IH]; cbn [forallb map]; intro H; [split; reflexivity|].
  apply andb_prop in H. destruct H as [H1 H2]. destruct (norm_column_ok oc H1) as [Ha Hb]. destruct (IH H2) as [Hc Hd].
  rewrite Ha, Hb, Hc, Hd. split; reflexivity.
Qed.

(* ================= rows metadata ================= *)
Lemma RowsMetadata_okb_spec version m : RowsMetadata_okb version m = true ->
  0 <= rm_ColumnCount m < 2147483648 /\
  (zlen (rm_Columns m) = 0 \/ rm_ColumnCount m = zlen (rm_Columns m)) /\
  forallb column_okb (rm_Columns m) = true /\
  zlen (olist (rm_PagingState m)) <= 2147483647 /\
  (forall b, rm_NewResultMetadataId m = Some b -> ProtocolVersion_SupportsResultMetadataId version = true /\ zlen b <= 65535) /\
  -2147483648 <= rm_ContinuousPageNumber m < 2147483648 /\
  (rm_ContinuousPageNumber m <= 0 \/ ProtocolVersion_IsDse version = true).
Proof.
  unfold RowsMetadata_okb. intro H. split_andb. repeat split; try lia; try assumption.
  - match goal with E : rm_NewResultMetadataId m = Some _, Hm : match rm_NewResultMetadataId m with _ => _ end = true |- _ =>
      rewrite E in Hm; apply andb_prop in Hm; destruct Hm; assumption end.
  - match goal with E : rm_NewResultMetadataId m = Some _, Hm : match rm_NewResultMetadataId m with _ => _ end = true |- _ =>
      rewrite E in Hm; apply andb_prop in Hm; destruct Hm; lia end.
  - match goal with Hd : (_ <=? 0) || _ = true |- _ => apply orb_prop in Hd; destruct Hd; [left; lia|right; assumption] end.
Qed.

Lemma enc_rows_metadata_None version : enc_rows_metadata version None = enc_rows_metadata version (Some empty_RowsMetadata).
Proof. reflexivity. Qed.
Lemma len_rows_metadata_None version : len_rows_metadata version None = len_rows_metadata version (Some empty_RowsMetadata).
Proof. reflexivity. Qed.

Lemma enc_rows_metadata_ok version m : RowsMetadata_okb version m = true ->
  enc_rows_metadata version (Some m) = Ok (bytes_RowsMetadata version m).
Proof.
  intro H. destruct (RowsMetadata_okb_spec _ _ H) as (Hcc & Hcnt & Hcols & Hps & Hid & Hcpn & _).
  unfold enc_rows_metadata, bytes_RowsMetadata. rewrite (RowsMetadata_Flags_ok m Hcols).
  unfold rows_flags_of. rewrite rows_flag_more, rows_flag_changed, rows_flag_cp, rows_flag_global, rows_flag_nometa.
  set (w := rows_flag_word _ _ _ _ _ _). unfold write_int.
  pose proof (zlen_nonneg (rm_Columns m)) as Hnn.
  replace (negb ((zlen (rm_Columns m) >? 0) && negb (rm_ColumnCount m =? zlen (rm_Columns m)))) with true by lia.
  cbn [wguard].
  assert (E1 : (if is_some (rm_PagingState m) then write_bytes (rm_PagingState m) else Ok []) =
               Ok (match rm_PagingState m with Some _ => enc_bytes (rm_PagingState m) | None => [] end)).
  { destruct (rm_PagingState m) as [p|] eqn:Ep; cbn [is_some]; [|reflexivity]. apply write_bytes_ok. exact Hps. }
  assert (E2 : (if is_some (rm_NewResultMetadataId m) then write_short_bytes (rm_NewResultMetadataId m) else Ok []) =
               Ok (match rm_NewResultMetadataId m with Some _ => enc_short_bytes (rm_NewResultMetadataId m) | None => [] end)).
  { destruct (rm_NewResultMetadataId m) as [b|] eqn:Eb; cbn [is_some]; [|reflexivity].
    apply write_short_bytes_ok. cbn [olist]. apply (Hid b eq_refl). }
  assert (E3 : (if negb (zlen (rm_Columns m) =? 0) && (zlen (rm_Columns m) >? 0)
                then enc_columns_metadata (negb (zlen (rm_Columns m) =? 0) && same_table (rm_Columns m)) (rm_Columns m) version
                else Ok []) =
               Ok (if zlen (rm_Columns m) =? 0 then [] else bytes_columns (same_table (rm_Columns m)) (rm_Columns m))).
  { destruct (Z.eqb_spec (zlen (rm_Columns m)) 0) as [E|E]; cbn [negb andb]; [reflexivity|].
    replace (zlen (rm_Columns m) >? 0) with true by lia. apply enc_columns_ok; [exact Hcols|tauto]. }
  rewrite E1, E2, E3. destruct (rm_ContinuousPageNumber m >? 0); cbn [wapp app]; rewrite <- ?app_assoc; reflexivity.
Qed.

Lemma len_rows_metadata_ok version m : RowsMetadata_okb version m = true ->
  len_rows_metadata version (Some m) = Ok (zlen (bytes_RowsMetadata version m)).
Proof.
  intro H. destruct (RowsMetadata_okb_spec _ _ H) as (Hcc & Hcnt & Hcols & Hps & Hid & Hcpn & _).
  unfold len_rows_metadata, bytes_RowsMetadata. rewrite (RowsMetadata_Flags_ok m Hcols).
  unfold rows_flags_of. rewrite rows_flag_more, rows_flag_changed, rows_flag_cp, rows_flag_global, rows_flag_nometa.
  set (w := rows_flag_word _ _ _ _ _ _).
  pose proof (zlen_nonneg (rm_Columns m)) as Hnn.
  assert (E1 : (if is_some (rm_PagingState m) return L then Ok (len_bytes (rm_PagingState m)) else Ok 0) =
               Ok (zlen (match rm_PagingState m with Some _ => enc_bytes (rm_PagingState m) | None => [] end))).
  { destruct (rm_PagingState m) as [p|] eqn:Ep; cbn [is_some]; [|reflexivity]. rewrite enc_bytes_len. reflexivity. }
  assert (E2 : (if is_some (rm_NewResultMetadataId m) return L then Ok (len_short_bytes (rm_NewResultMetadataId m)) else Ok 0) =
               Ok (zlen (match rm_NewResultMetadataId m with Some _ => enc_short_bytes (rm_NewResultMetadataId m) | None => [] end))).
  { destruct (rm_NewResultMetadataId m) as [b|] eqn:Eb; cbn [is_some]; [|reflexivity]. rewrite enc_short_bytes_len. reflexivity. }
  assert (E3 : (if negb (zlen (rm_Columns m) =? 0) && (zlen (rm_Columns m) >? 0) return L
                then len_columns_metadata (negb (zlen (rm_Columns m) =? 0) && same_table (rm_Columns m)) (rm_Columns m) version
                else Ok 0) =
               Ok (zlen (if zlen (rm_Columns m) =? 0 then [] else bytes_columns (same_table (rm_Columns m)) (rm_Columns m)))).
  { destruct (Z.eqb_spec (zlen (rm_Columns m)) 0) as [E|E]; cbn [negb andb]; [reflexivity|].
    replace (zlen (rm_Columns m) >? 0) with true by lia. apply len_columns_ok; [exact Hcols|tauto]. }
  rewrite E1, E2, E3.
  assert (E4 : (if rm_ContinuousPageNumber m >? 0 return L then Ok LengthOfInt else Ok 0) =
               Ok (zlen (if rm_ContinuousPageNumber m >? 0 then be_bytes 4 (rm_ContinuousPageNumber m) else []))).
  { destruct (rm_ContinuousPageNumber m >? 0); [rewrite be_bytes_zlen|]; reflexivity. }
  rewrite E4. cbn [ladd]. rewrite !zlen_app, !be_bytes_zlen. first [reflexivity | f_equal; unfold LengthOfInt, LengthOfShort;
  repeat match goal with |- context [zlen ?x] => let X := fresh "X" in set (X := zlen x) end; lia].
Qed.

Lemma dec_rows_metadata_app fuel version m rest : RowsMetadata_okb version m = true -> columns_fuel fuel (rm_Columns m) ->
  dec_rows_metadata fuel version (bytes_RowsMetadata version m ++ rest) = DOk (norm_RowsMetadata version m) rest.
Proof.
  intros H Hf. destruct (RowsMetadata_okb_spec _ _ H) as (Hcc & Hcnt & Hcols & Hps & Hid & Hcpn & _).
  unfold dec_rows_metadata, bytes_RowsMetadata, norm_RowsMetadata, rows_flags_of.
  set (w := rows_flag_word _ _ _ _ _ _). rewrite <- !app_assoc.
  unfold bind at 1. rewrite read_int_app by apply wrap_i32_range. cbv beta zeta.
  rewrite wrap_u32_wrap_i32 by apply rows_flag_word_range. subst w.
  rewrite rows_flag_more, rows_flag_changed, rows_flag_cp, rows_flag_global, rows_flag_nometa, rows_flag_last.
  unfold bind at 1. rewrite read_int_app by (unfold in_i32; lia).
  replace (negb (rm_ColumnCount m <? 0)) with true by lia. cbn [rguard]. unfold bind at 1, ret at 1.
  (* paging state *)
  unfold bind at 1.
  assert (E1 : forall r, (if is_some (rm_PagingState m) then read_bytes else ret None)
                 (match rm_PagingState m with Some _ => enc_bytes (rm_PagingState m) | None => [] end ++ r) = DOk (rm_PagingState m) r).
  { intro r. destruct (rm_PagingState m) as [p|] eqn:Ep; cbn [is_some]; [|reflexivity]. apply read_bytes_app. exact Hps. }
  rewrite E1. clear E1.
  (* new result metadata id *)
  unfold bind at 1.
  assert (E2 : forall r, (if is_some (rm_NewResultMetadataId m) then read_short_bytes else ret None)
                 (match rm_NewResultMetadataId m with Some _ => enc_short_bytes (rm_NewResultMetadataId m) | None => [] end ++ r)
                 = DOk (rm_NewResultMetadataId m) r).
  { intro r. destruct (rm_NewResultMetadataId m) as [b|] eqn:Eb; cbn [is_some]; [|reflexivity].
    rewrite read_short_bytes_app by (cbn [olist]; apply (Hid b eq_refl)). reflexivity. }
  rewrite E2. clear E2.
  (* continuous paging *)
  unfold bind at 1.
  assert (E3 : forall r, (if rm_ContinuousPageNumber m >? 0
                          then n <- read_int;; ret (n, (rm_ContinuousPageNumber m >? 0) && rm_LastContinuousPage m)
                          else ret (0, false))
                 ((if rm_ContinuousPageNumber m >? 0 then be_bytes 4 (rm_ContinuousPageNumber m) else []) ++ r)
                 = DOk ((if rm_ContinuousPageNumber m >? 0 then rm_ContinuousPageNumber m else 0),
                        (rm_ContinuousPageNumber m >? 0) && rm_LastContinuousPage m) r).
  { intro r. destruct (rm_ContinuousPageNumber m >? 0); [|reflexivity].
    unfold bind. rewrite read_int_app by (unfold in_i32; lia). reflexivity. }
  rewrite E3. clear E3.
  (* columns *)
  unfold bind at 1. cbn [fst snd].
  destruct (Z.eqb_spec (zlen (rm_Columns m)) 0) as [E|E]; cbn [negb andb app].
  - rewrite (zlen_zero_nil _ E). reflexivity.
  - destruct Hcnt as [Hcnt|Hcnt]; [contradiction|]. rewrite Hcnt.
    rewrite dec_columns_app by (try assumption; tauto). reflexivity.
Qed.

Lemma norm_RowsMetadata_ok version m : RowsMetadata_okb version m = true ->
  RowsMetadata_okb version (norm_RowsMetadata version m) = true /\
  norm_RowsMetadata version (norm_RowsMetadata version m) = norm_RowsMetadata version m.
Proof.
  intro H. destruct (RowsMetadata_okb_spec _ _ H) as (Hcc & Hcnt & Hcols & Hps & Hid & Hcpn & Hdse).
  destruct (norm_columns_ok _ Hcols) as [Hc1 Hc2]. split.
  - unfold RowsMetadata_okb, norm_RowsMetadata in *.
    cbn [rm_ColumnCount rm_PagingState rm_NewResultMetadataId rm_ContinuousPageNumber rm_LastContinuousPage rm_Columns].
    rewrite zlen_map, Hc1. split_andb.
    destruct (Z.gtb_spec (rm_ContinuousPageNumber m) 0);
      repeat (apply andb_true_intro; split); try assumption; try lia.
  - unfold norm_RowsMetadata.
    cbn [rm_ColumnCount rm_PagingState rm_NewResultMetadataId rm_ContinuousPageNumber rm_LastContinuousPage rm_Columns].
    rewrite Hc2. destruct (Z.gtb_spec (rm_ContinuousPageNumber m) 0) as [Hg|Hg].
    + replace (rm_ContinuousPageNumber m >? 0) with true by lia. reflexivity.
    + reflexivity.
Qed.

(* nil metadata = empty metadata *)
Lemma empty_RowsMetadata_okb version : RowsMetadata_okb version empty_RowsMetadata = true.
Proof. reflexivity. Qed.

(* ================= variables metadata ================= *)
Lemma VariablesMetadata_okb_spec version m : VariablesMetadata_okb version m = true ->
  forallb column_okb (vm_Columns m) = true /\ zlen (vm_Columns m) < 2147483648 /\
  (Z.geb version ProtocolVersion4 = true -> zlen (vm_PkIndices m) < 2147483648 /\ Forall in_u16 (vm_PkIndices m)) /\
  (Z.geb version ProtocolVersion4 = false -> vm_PkIndices m = []).
Proof.
  unfold VariablesMetadata_okb. intro H. apply andb_prop in H. destruct H as [H Hpk]. apply andb_prop in H. destruct H as [Hc Hn].
  split; [exact Hc|]. split; [lia|]. split; intro E; rewrite E in Hpk.
  - apply andb_prop in Hpk. destruct Hpk as [Hl Hr]. split; [lia|]. rewrite Forall_forall. rewrite forallb_forall in Hr.
    intros x Hx. specialize (Hr x Hx). unfold in_u16. lia.
  - apply zlen_zero_nil. lia.
Qed.

Lemma enc_variables_metadata_None version : enc_variables_metadata version None = enc_variables_metadata version (Some empty_VariablesMetadata).
Proof. reflexivity. Qed.
Lemma len_variables_metadata_None version : len_variables_metadata version None = len_variables_metadata version (Some empty_VariablesMetadata).
Proof. reflexivity. Qed.

Lemma enc_variables_metadata_ok version m : VariablesMetadata_okb version m = true ->
  enc_variables_metadata version (Some m) = Ok (bytes_VariablesMetadata version m).
Proof.
  intro H. destruct (VariablesMetadata_okb_spec _ _ H) as (Hcols & Hn & Hpk & Hnopk).
  unfold enc_variables_metadata, bytes_VariablesMetadata. rewrite (VariablesMetadata_Flags_ok m Hcols).
  rewrite variables_flag_contains. unfold write_int.
  pose proof (zlen_nonneg (vm_Columns m)) as Hnn. rewrite (wrap_i32_small (zlen (vm_Columns m))) by lia.
  assert (E1 : (if Z.geb version ProtocolVersion4
                then Ok (be_bytes 4 (wrap_i 32 (zlen (vm_PkIndices m)))) +++ wlist write_short (vm_PkIndices m) else Ok []) =
               Ok (if Z.geb version ProtocolVersion4
                   then be_bytes 4 (zlen (vm_PkIndices m)) ++ concat (map (be_bytes 2) (vm_PkIndices m)) else [])).
  { destruct (Z.geb version ProtocolVersion4); [|reflexivity]. destruct (Hpk eq_refl) as [Hl _].
    pose proof (zlen_nonneg (vm_PkIndices m)). rewrite wrap_i32_small by lia.
    rewrite (wlist_ok write_short (be_bytes 2)) by (intros; reflexivity). reflexivity. }
  rewrite E1.
  assert (E2 : (if zlen (vm_Columns m) >? 0
                then enc_columns_metadata ((zlen (vm_Columns m) >? 0) && same_table (vm_Columns m)) (vm_Columns m) version else Ok []) =
               Ok (if zlen (vm_Columns m) >? 0 then bytes_columns (same_table (vm_Columns m)) (vm_Columns m) else [])).
  { destruct (zlen (vm_Columns m) >? 0); cbn [andb]; [|reflexivity]. apply enc_columns_ok; [exact Hcols|tauto]. }
  rewrite E2. cbn [wapp]. rewrite <- ?app_assoc. reflexivity.
Qed.

Lemma zlen_concat_be2 l : zlen (concat (map (be_bytes 2) l)) = 2 * zlen l.
Proof. induction l as [|x l IH]; cbn [map concat]; [reflexivity|]. rewrite zlen_app, be_bytes_zlen, zlen_cons, IH. lia. Qed.

Lemma len_variables_metadata_ok version m : VariablesMetadata_okb version m = true ->
  len_variables_metadata version (Some m) = Ok (zlen (bytes_VariablesMetadata version m)).
Proof.
  intro H. destruct (VariablesMetadata_okb_spec _ _ H) as (Hcols & Hn & Hpk & Hnopk).
  unfold len_variables_metadata, bytes_VariablesMetadata. rewrite (VariablesMetadata_Flags_ok m Hcols).
  rewrite variables_flag_land.
  assert (E2 : (if zlen (vm_Columns m) >? 0 return L
                then len_columns_metadata ((zlen (vm_Columns m) >? 0) && same_table (vm_Columns m)) (vm_Columns m) version else Ok 0) =
               Ok (zlen (if zlen (vm_Columns m) >? 0 then bytes_columns (same_table (vm_Columns m)) (vm_Columns m) else []))).
  { destruct (zlen (vm_Columns m) >? 0); cbn [andb]; [|reflexivity]. apply len_columns_ok; [exact Hcols|tauto]. }
  rewrite E2.
  assert (E1 : (if Z.geb version ProtocolVersion4 return L then Ok (LengthOfInt + LengthOfShort * zlen (vm_PkIndices m)) else Ok 0) =
               Ok (zlen (if Z.geb version ProtocolVersion4
                         then be_bytes 4 (zlen (vm_PkIndices m)) ++ concat (map (be_bytes 2) (vm_PkIndices m)) else []))).
  { destruct (Z.geb version ProtocolVersion4); [|reflexivity]. rewrite zlen_app, be_bytes_zlen, zlen_concat_be2. reflexivity. }
  rewrite E1. cbn [ladd]. rewrite !zlen_app, !be_bytes_zlen. first [reflexivity | f_equal; unfold LengthOfInt, LengthOfShort;
  repeat match goal with |- context [zlen ?x] => let X := fresh "X" in set (X := zlen x) end; lia].
Qed.

Lemma dec_variables_metadata_app fuel version m rest : VariablesMetadata_okb version m = true -> columns_fuel fuel (vm_Columns m) ->
  dec_variables_metadata fuel version (bytes_VariablesMetadata version m ++ rest) = DOk (norm_VariablesMetadata m) rest.
Proof.
  intros H Hf. destruct (VariablesMetadata_okb_spec _ _ H) as (Hcols & Hn & Hpk & Hnopk).
  unfold dec_variables_metadata, bytes_VariablesMetadata, norm_VariablesMetadata. rewrite <- !app_assoc.
  pose proof (zlen_nonneg (vm_Columns m)) as Hnn.
  unfold bind at 1. rewrite read_int_app by apply wrap_i32_range. cbv beta zeta.
  rewrite wrap_u32_wrap_i32 by (destruct (variables_flag_word_cases m) as [-> | ->]; lia).
  rewrite variables_flag_contains.
  unfold bind at 1. rewrite read_int_app by (unfold in_i32; lia).
  unfold bind at 1.
  assert (E1 : forall r, (if Z.geb version ProtocolVersion4
                          then pkCount <- read_int;; (if pkCount >? 0 then rmake pkCount;;; read_count pkCount read_short else ret [])
                          else ret [])
                 ((if Z.geb version ProtocolVersion4
                   then be_bytes 4 (zlen (vm_PkIndices m)) ++ concat (map (be_bytes 2) (vm_PkIndices m)) else []) ++ r)
                 = DOk (vm_PkIndices m) r).
  { intro r. destruct (Z.geb version ProtocolVersion4).
    - destruct (Hpk eq_refl) as [Hl Hr]. pose proof (zlen_nonneg (vm_PkIndices m)). rewrite <- app_assoc.
      unfold bind at 1. rewrite read_int_app by (unfold in_i32; lia).
      destruct (Z.gtb_spec (zlen (vm_PkIndices m)) 0) as [Hg|Hg].
      + unfold bind. unfold rmake. destruct (Z.ltb_spec (zlen (vm_PkIndices m)) 0); [lia|]. unfold ret.
        rewrite (read_count_app (be_bytes 2) read_short (fun x => x)).
        * rewrite map_id. reflexivity.
        * intros x r' Hx. apply read_short_app. rewrite Forall_forall in Hr. apply Hr. exact Hx.
        * intros x _. rewrite be_bytes_length. lia.
      + assert (E : vm_PkIndices m = []) by (apply zlen_zero_nil; lia). rewrite E. reflexivity.
    - rewrite (Hnopk eq_refl). reflexivity. }
  rewrite E1. clear E1.
  unfold bind at 1.
  destruct (Z.gtb_spec (zlen (vm_Columns m)) 0) as [Hg|Hg]; cbn [andb app].
  - rewrite dec_columns_app by (try assumption; tauto). reflexivity.
  - assert (E : vm_Columns m = []) by (apply zlen_zero_nil; lia). rewrite E. reflexivity.
Qed.

Lemma norm_VariablesMetadata_ok version m : VariablesMetadata_okb version m = true ->
  VariablesMetadata_okb version (norm_VariablesMetadata m) = true /\
  norm_VariablesMetadata (norm_VariablesMetadata m) = norm_VariablesMetadata m.
Proof.
  intro H. pose proof H as H'. unfold VariablesMetadata_okb in H'. split_andb.
  destruct (norm_columns_ok (vm_Columns m)) as [Hc1 Hc2]; [assumption|]. split.
  - unfold VariablesMetadata_okb, norm_VariablesMetadata. cbn [vm_PkIndices vm_Columns]. rewrite zlen_map, Hc1.
    repeat (apply andb_true_intro; split); try assumption; reflexivity.
  - unfold norm_VariablesMetadata. cbn [vm_PkIndices vm_Columns]. rewrite Hc2. reflexivity.
Qed.
Lemma empty_VariablesMetadata_okb version : VariablesMetadata_okb version empty_VariablesMetadata = true.
Proof. unfold VariablesMetadata_okb. cbn. destruct (Z.geb version ProtocolVersion4); reflexivity. Qed.

(* fuel: the bytes of the metadata bound the nesting depth of every column type *)
Lemma columns_fuel_RowsMetadata version m : RowsMetadata_okb version m = true ->
  columns_fuel (length (bytes_RowsMetadata version m)) (rm_Columns m).
Proof.
  intro H. destruct (RowsMetadata_okb_spec _ _ H) as (_ & _ & Hcols & _).
  unfold bytes_RowsMetadata. destruct (Z.eqb_spec (zlen (rm_Columns m)) 0) as [E|E].
  - rewrite (zlen_zero_nil _ E). constructor.
  - eapply columns_fuel_mono; [|apply (columns_fuel_bytes (same_table (rm_Columns m))); exact Hcols].
    rewrite !app_length. lia.
Qed.
Lemma columns_fuel_VariablesMetadata version m : VariablesMetadata_okb version m = true ->
  columns_fuel (length (bytes_VariablesMetadata version m)) (vm_Columns m).
Proof.
  intro H. destruct (VariablesMetadata_okb_spec _ _ H) as (Hcols & _).
  unfold bytes_VariablesMetadata. destruct (Z.gtb_spec (zlen (vm_Columns m)) 0) as [E|E].
  - eapply columns_fuel_mono; [|apply (columns_fuel_bytes (same_table (vm_Columns m))); exact Hcols].
    rewrite !app_length. lia.
  - pose proof (zlen_nonneg (vm_Columns m)). rewrite (zlen_zero_nil (vm_Columns m)) by lia. constructor.
Qed.
