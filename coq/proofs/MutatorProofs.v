(* C20: frame mutators keep flags and body in step; STARTUP option accessors are consistent. *)
From Coq Require Import ZArith List Bool Lia.
From Coq Require Import ZifyBool ZifyNat.
From GCNP Require Import base.GoInt base.Bytes base.Codec gen.Constants_gen model.Prim model.DataType model.MsgTypes
  model.Frame model.Mutators proofs.PrimProofs.
Import ListNotations.
Open Scope Z_scope.

(* ---------- single-bit flag algebra ---------- *)
Lemma land_pow2 f j : 0 <= j -> Z.land f (2 ^ j) = if Z.testbit f j then 2 ^ j else 0.
Proof.
  intro Hj. apply Z.bits_inj'. intros n Hn. rewrite Z.land_spec. rewrite Z.pow2_bits_eqb by exact Hj.
  destruct (Z.eqb_spec j n) as [->|Hne].
  - rewrite andb_true_r. destruct (Z.testbit f n); [rewrite Z.pow2_bits_eqb by exact Hn; rewrite Z.eqb_refl; reflexivity|rewrite Z.bits_0; reflexivity].
  - rewrite andb_false_r. destruct (Z.testbit f j); [rewrite Z.pow2_bits_eqb by exact Hj; destruct (Z.eqb_spec j n); [contradiction|reflexivity]|rewrite Z.bits_0; reflexivity].
Qed.

Lemma has_pow2 f j : 0 <= j -> has f (2 ^ j) = Z.testbit f j.
Proof.
  intro Hj. unfold has, HeaderFlag_Contains. rewrite land_pow2 by exact Hj.
  destruct (Z.testbit f j); [|reflexivity]. assert (0 < 2 ^ j) by (apply Z.pow_pos_nonneg; lia).
  destruct (Z.eqb_spec (2 ^ j) 0); [lia|reflexivity].
Qed.

Lemma has_add f i j : 0 <= i -> 0 <= j -> has (HeaderFlag_Add f (2 ^ i)) (2 ^ j) = has f (2 ^ j) || (i =? j).
Proof.
  intros Hi Hj. rewrite !has_pow2 by exact Hj. unfold HeaderFlag_Add. rewrite Z.lor_spec, Z.pow2_bits_eqb by exact Hi. reflexivity.
Qed.
Lemma has_remove f i j : 0 <= i -> 0 <= j -> has (HeaderFlag_Remove f (2 ^ i)) (2 ^ j) = has f (2 ^ j) && negb (i =? j).
Proof.
  intros Hi Hj. rewrite !has_pow2 by exact Hj. unfold HeaderFlag_Remove. rewrite Z.ldiff_spec, Z.pow2_bits_eqb by exact Hi. reflexivity.
Qed.
Lemma has_flag_set f i j on : 0 <= i -> 0 <= j ->
  has (flag_set f (2 ^ i) on) (2 ^ j) = if i =? j then on else has f (2 ^ j).
Proof.
  intros Hi Hj. unfold flag_set. destruct on; [rewrite has_add by assumption|rewrite has_remove by assumption];
    destruct (Z.eqb_spec i j); rewrite ?orb_true_r, ?orb_false_r, ?andb_true_r, ?andb_false_r; reflexivity.
Qed.

(* the five header flags are the bits 0..4 *)
Lemma flag_bits : HeaderFlagCompressed = 2 ^ 0 /\ HeaderFlagTracing = 2 ^ 1 /\ HeaderFlagCustomPayload = 2 ^ 2 /\
                  HeaderFlagWarning = 2 ^ 3 /\ HeaderFlagUseBeta = 2 ^ 4.
Proof. repeat split; reflexivity. Qed.

(* flag words stay in the byte range *)
Lemma lor_lt_256 a b : 0 <= a < 256 -> 0 <= b < 256 -> 0 <= Z.lor a b < 256.
Proof.
  intros Ha Hb. split; [apply Z.lor_nonneg; lia|].
  destruct (Z.eq_dec (Z.lor a b) 0) as [E|Hnz]; [rewrite E; lia|].
  assert (Hpos : 0 < Z.lor a b) by (assert (0 <= Z.lor a b) by (apply Z.lor_nonneg; lia); lia).
  change 256 with (2 ^ 8). apply (proj2 (Z.log2_lt_pow2 _ 8 Hpos)).
  rewrite Z.log2_lor by lia. apply Z.max_lub_lt.
  - destruct (Z.eq_dec a 0) as [->|]; [cbn; lia|]. apply Z.log2_lt_pow2; [lia|]. change (2 ^ 8) with 256. lia.
  - destruct (Z.eq_dec b 0) as [->|]; [cbn; lia|]. apply Z.log2_lt_pow2; [lia|]. change (2 ^ 8) with 256. lia.
Qed.

Lemma ldiff_lt_256 a b : 0 <= a < 256 -> 0 <= Z.ldiff a b < 256.
Proof.
  intros Ha. assert (Hnn : 0 <= Z.ldiff a b) by (apply Z.ldiff_nonneg; lia). split; [exact Hnn|].
  destruct (Z.eq_dec (Z.ldiff a b) 0) as [E|Hnz]; [rewrite E; lia|].
  assert (Hpos : 0 < Z.ldiff a b) by lia.
  change 256 with (2 ^ 8). apply (proj2 (Z.log2_lt_pow2 _ 8 Hpos)).
  destruct (Z.lt_ge_cases (Z.log2 (Z.ldiff a b)) 8) as [Hlt|Hge]; [exact Hlt|exfalso].
  pose proof (Z.bit_log2 _ Hpos) as Hbit. rewrite Z.ldiff_spec in Hbit.
  assert (Ha' : Z.testbit a (Z.log2 (Z.ldiff a b)) = false).
  { destruct (Z.eq_dec a 0) as [->|Hane]; [apply Z.bits_0|]. apply Z.bits_above_log2; [lia|].
    assert (Z.log2 a < 8) by (apply Z.log2_lt_pow2; [lia|change (2 ^ 8) with 256; lia]). lia. }
  rewrite Ha' in Hbit. discriminate Hbit.
Qed.

Lemma flag_set_range f i on : 0 <= i < 8 -> 0 <= f < 256 -> 0 <= flag_set f (2 ^ i) on < 256.
Proof.
  intros Hi Hf. unfold flag_set, HeaderFlag_Add, HeaderFlag_Remove.
  assert (H2 : 0 <= 2 ^ i < 256).
  { assert (i = 0 \/ i = 1 \/ i = 2 \/ i = 3 \/ i = 4 \/ i = 5 \/ i = 6 \/ i = 7) as [->|[->|[->|[->|[->|[->|[->| ->]]]]]]] by lia; cbn; lia. }
  destruct on.
  - apply lor_lt_256; assumption.
  - apply ldiff_lt_256. exact Hf.
Qed.

(* ---------- invariant of mutator sequences ---------- *)
Definition is_some {A} (o : option A) : bool := match o with Some _ => true | None => false end.

Record Inv (f : Frame) : Prop := {
  inv_payload  : has (h_Flags (f_Header f)) HeaderFlagCustomPayload = (0 <? zlen (bd_CustomPayload (f_Body f)));
  inv_warning  : has (h_Flags (f_Header f)) HeaderFlagWarning = (0 <? zlen (olist (bd_Warnings (f_Body f))));
  inv_tracing  : if msg_is_response (bd_Message (f_Body f))
                 then has (h_Flags (f_Header f)) HeaderFlagTracing = is_some (bd_TracingId (f_Body f))
                 else bd_TracingId (f_Body f) = None;
  inv_compress : has (h_Flags (f_Header f)) HeaderFlagCompressed = true -> isCompressible (msg_opcode (bd_Message (f_Body f))) = true;
  inv_range    : 0 <= h_Flags (f_Header f) < 256
}.

(* what no mutator may change *)
Definition same_identity (f g : Frame) : Prop :=
  h_IsResponse (f_Header f) = h_IsResponse (f_Header g) /\ h_Version (f_Header f) = h_Version (f_Header g) /\
  h_StreamId (f_Header f) = h_StreamId (f_Header g) /\ h_OpCode (f_Header f) = h_OpCode (f_Header g) /\
  bd_Message (f_Body f) = bd_Message (f_Body g) /\
  has (h_Flags (f_Header f)) HeaderFlagUseBeta = has (h_Flags (f_Header g)) HeaderFlagUseBeta.

Ltac flagsimp :=
  cbn [SetCustomPayload SetWarnings SetTracingId RequestTracingId SetCompress set_flags set_body apply_mop
       f_Header f_Body h_Flags h_IsResponse h_Version h_StreamId h_OpCode h_BodyLength
       bd_TracingId bd_CustomPayload bd_Warnings bd_Message] in *;
  destruct flag_bits as (Ec & Et & Ep & Ew & Eb); rewrite ?Ec, ?Et, ?Ep, ?Ew, ?Eb in *;
  rewrite ?has_flag_set by lia; cbn [Z.eqb Pos.eqb] in *.

Lemma Inv_new v sid m : Inv (NewFrame v sid m).
Proof.
  constructor; cbn [NewFrame f_Header f_Body h_Flags bd_CustomPayload bd_Warnings bd_TracingId bd_Message olist];
    change (ProtocolVersion_IsBeta v) with false; cbn beta iota.
  - reflexivity.
  - reflexivity.
  - destruct (msg_is_response m); reflexivity.
  - intro H. discriminate H.
  - lia.
Qed.

Lemma Inv_step f op : Inv f -> mop_ok f op = true -> Inv (apply_mop f op) /\ same_identity f (apply_mop f op).
Proof.
  intros [Hp Hw Ht Hc Hr] Hok. destruct op as [p|w|t|b|b]; unfold mop_ok in Hok.
  - split; [constructor|unfold same_identity]; flagsimp; try assumption; try reflexivity.
    + destruct (Z.gtb_spec (zlen p) 0), (Z.ltb_spec 0 (zlen p)); try reflexivity; lia.
    + apply flag_set_range; lia.
    + repeat split; reflexivity.
  - split; [constructor|unfold same_identity]; flagsimp; try assumption; try reflexivity.
    + destruct (Z.gtb_spec (zlen (olist w)) 0), (Z.ltb_spec 0 (zlen (olist w))); try reflexivity; lia.
    + apply flag_set_range; lia.
    + repeat split; reflexivity.
  - split; [constructor|unfold same_identity]; flagsimp; try assumption; try reflexivity.
    + rewrite Hok. destruct t; reflexivity.
    + apply flag_set_range; lia.
    + repeat split; reflexivity.
  - split; [constructor|unfold same_identity]; flagsimp; try assumption; try reflexivity.
    + destruct (msg_is_response (bd_Message (f_Body f))); [discriminate Hok|exact Ht].
    + apply flag_set_range; lia.
    + repeat split; reflexivity.
  - split; [constructor|unfold same_identity]; flagsimp; try assumption; try reflexivity.
    + intro H. apply andb_prop in H. apply H.
    + apply flag_set_range; lia.
    + repeat split; reflexivity.
Qed.

(* every operation of the sequence is direction-appropriate for the frame it is applied to *)
Fixpoint mops_ok (f : Frame) (ops : list mop) : bool :=
  match ops with
  | [] => true
  | op :: r => mop_ok f op && mops_ok (apply_mop f op) r
  end.

Theorem mutator_sequences f ops : Inv f -> mops_ok f ops = true ->
  Inv (run_mops f ops) /\ same_identity f (run_mops f ops).
Proof.
  revert f. induction ops as [|op ops IH]; intros f Hinv Hok; cbn [run_mops fold_left mops_ok] in *.
  - split; [exact Hinv|]. repeat split; reflexivity.
  - apply andb_prop in Hok. destruct Hok as [H1 H2]. destruct (Inv_step f op Hinv H1) as [Hi Hs].
    destruct (IH (apply_mop f op) Hi H2) as [Hi' Hs']. split; [exact Hi'|].
    unfold run_mops in Hs'. destruct Hs as (a1 & a2 & a3 & a4 & a5 & a6). destruct Hs' as (b1 & b2 & b3 & b4 & b5 & b6).
    repeat split; congruence.
Qed.

(* compression is never flagged for STARTUP, OPTIONS, READY *)
Corollary never_compressed_handshake f ops : Inv f -> mops_ok f ops = true ->
  In (msg_opcode (bd_Message (f_Body (run_mops f ops)))) [OpCodeStartup; OpCodeOptions; OpCodeReady] ->
  has (h_Flags (f_Header (run_mops f ops))) HeaderFlagCompressed = false.
Proof.
  intros Hinv Hok Hin. destruct (mutator_sequences f ops Hinv Hok) as [[_ _ _ Hc _] _].
  destruct (has (h_Flags (f_Header (run_mops f ops))) HeaderFlagCompressed) eqn:E; [|reflexivity].
  specialize (Hc eq_refl). unfold isCompressible in Hc. cbn [In] in Hin.
  destruct Hin as [Hin|[Hin|[Hin|[]]]]; rewrite <- Hin in Hc; vm_compute in Hc; discriminate Hc.
Qed.

(* ---------- STARTUP option accessors ---------- *)
Lemma bytes_eqb_refl a : bytes_eqb a a = true. Proof. apply bytes_eqb_eq. reflexivity. Qed.
Lemma bytes_eqb_sym a b : bytes_eqb a b = bytes_eqb b a.
Proof. destruct (bytes_eqb a b) eqn:E, (bytes_eqb b a) eqn:E'; try reflexivity.
  - apply bytes_eqb_eq in E. subst. rewrite bytes_eqb_refl in E'. discriminate.
  - apply bytes_eqb_eq in E'. subst. rewrite bytes_eqb_refl in E. discriminate. Qed.

Lemma opt_get_set m k v k' : opt_get (opt_set m k v) k' = if bytes_eqb k' k then Some v else opt_get m k'.
Proof.
  induction m as [|[k0 v0] m IH]; cbn [opt_set opt_get].
  - reflexivity.
  - destruct (bytes_eqb k k0) eqn:E; cbn [opt_get].
    + apply bytes_eqb_eq in E. subst k0. destruct (bytes_eqb k' k); reflexivity.
    + destruct (bytes_eqb k' k0) eqn:E0.
      * apply bytes_eqb_eq in E0. subst k0. rewrite bytes_eqb_sym, E. reflexivity.
      * exact IH.
Qed.
Lemma opt_get_del m k k' : opt_get (opt_del m k) k' = if bytes_eqb k' k then None else opt_get m k'.
Proof.
  unfold opt_del. induction m as [|[k0 v0] m IH]; cbn [filter opt_get fst].
  - destruct (bytes_eqb k' k); reflexivity.
  - destruct (bytes_eqb k k0) eqn:E; cbn [negb opt_get].
    + apply bytes_eqb_eq in E. subst k0. rewrite IH. destruct (bytes_eqb k' k); reflexivity.
    + destruct (bytes_eqb k' k0) eqn:E0.
      * apply bytes_eqb_eq in E0. subst k0. rewrite bytes_eqb_sym, E. reflexivity.
      * exact IH.
Qed.

Lemma key_eqb_spec a b : key_eqb a b = true <-> a = b.
Proof. split; [|intros ->; apply bytes_eqb_refl]. destruct a, b; vm_compute; intro H; try reflexivity; discriminate H. Qed.

Theorem startup_accessor_step m op k : sop_wf op = true ->
  observe (apply_sop m op) k = if key_eqb k (sop_key op) then stored op else observe m k.
Proof.
  intro Hwf. destruct (key_eqb k (sop_key op)) eqn:E.
  - apply key_eqb_spec in E. subst k. destruct op as [k0 v|c|b]; cbn [sop_key observe apply_sop stored].
    + destruct k0; try discriminate Hwf; cbn [observe]; unfold startup_get; rewrite opt_get_set, bytes_eqb_refl; reflexivity.
    + unfold startup_get_compression. destruct (bytes_eqb c compression_none) eqn:Ec.
      * rewrite opt_get_del, bytes_eqb_refl. apply bytes_eqb_eq in Ec. congruence.
      * rewrite opt_get_set, bytes_eqb_refl. reflexivity.
    + unfold startup_is_throw. destruct b.
      * rewrite opt_get_set, bytes_eqb_refl. reflexivity.
      * rewrite opt_get_del, bytes_eqb_refl. reflexivity.
  - assert (Hne : bytes_eqb (key_bytes k) (key_bytes (sop_key op)) = false) by exact E.
    assert (Hget : opt_get (apply_sop m op) (key_bytes k) = opt_get m (key_bytes k)).
    { destruct op as [k0 v|c|b]; cbn [apply_sop sop_key] in *.
      - rewrite opt_get_set, Hne. reflexivity.
      - destruct (bytes_eqb c compression_none); [rewrite opt_get_del|rewrite opt_get_set]; rewrite Hne; reflexivity.
      - destruct b; [rewrite opt_get_set|rewrite opt_get_del]; rewrite Hne; reflexivity. }
    destruct k; cbn [observe]; unfold startup_get, startup_get_compression, startup_is_throw; rewrite Hget; reflexivity.
Qed.

(* for every sequence of accessor calls: each getter returns what the LAST matching setter stored, or its initial value *)
Fixpoint last_stored (ops : list sop) (k : startup_key) : option bytes :=
  match ops with
  | [] => None
  | op :: r => match last_stored r k with
               | Some v => Some v
               | None => if key_eqb k (sop_key op) then Some (stored op) else None
               end
  end.
Theorem startup_accessor_sequences ops m k : forallb sop_wf ops = true ->
  observe (fold_left apply_sop ops m) k = match last_stored ops k with Some v => v | None => observe m k end.
Proof.
  revert m. induction ops as [|op ops IH]; intros m Hwf; cbn [fold_left last_stored forallb] in *; [reflexivity|].
  apply andb_prop in Hwf. destruct Hwf as [H1 H2]. rewrite IH by exact H2.
  destruct (last_stored ops k); [reflexivity|]. rewrite startup_accessor_step by exact H1.
  destruct (key_eqb k (sop_key op)); reflexivity.
Qed.
