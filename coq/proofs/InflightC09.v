(* C09 - stream ids: unique while in flight, bounded, recycled, refused when exhausted.
   History theorems: every statement is about an arbitrary state reachable by ANY finite history of operations
   (sends with managed or explicit ids, through the handler or through Send with its outgoing queue, deliveries of
   final / non-final / unknown frames, events, consumer reads, clock ticks, Close) from the initial state, any N >= 1. *)
From Coq Require Import ZArith List Bool Lia Permutation.
From Coq Require Import ZifyBool ZifyNat.
From GCNP Require Import model.Inflight proofs.Inflight proofs.InflightInv.
Import ListNotations.
Open Scope Z_scope.

(* ------------------------------------------------------------------ what a send does, exactly *)
Lemma enqueue_accepted s k s' id :
  enqueue s k = (s', OAccepted id) ->
  closed s = false /\ ~ In id (keys (inflight s)) /\ zlen (inflight s) <> cfgN s /\
  (if k =? 0 then exists rest, pool s = id :: rest /\ s' = register (set_pool s rest) id true
   else id = k /\ s' = register s k false).
Proof.
  unfold enqueue; rewrite ?check2_eq. destruct (closed s); [discriminate|].
  destruct (k =? 0).
  - destruct (pool s) as [|i rest] eqn:Hp; [discriminate|]. rewrite ?check2_eq, check_set_pool.
    destruct (check s i) eqn:Hck; [discriminate|]. intros [= <- <-].
    apply check_None in Hck. destruct Hck. repeat split; auto. now exists rest.
  - destruct (check s k) eqn:Hck; [discriminate|]. intros [= <- <-].
    apply check_None in Hck. destruct Hck. repeat split; auto.
Qed.

Lemma keys_register s id m : ~ In id (keys (inflight s)) -> keys (inflight (register s id m)) = keys (inflight s) ++ [id].
Proof. intros H. unfold register. cbn [inflight]. rewrite (remove_key_notin _ _ H), keys_app. reflexivity. Qed.

(* accepted ids are fresh: no registered (= unanswered) request carries the id; afterwards exactly one does *)
Theorem accepted_id_fresh s k s' id :
  enqueue s k = (s', OAccepted id) ->
  ~ In id (keys (inflight s)) /\ keys (inflight s') = keys (inflight s) ++ [id] /\ (k <> 0 -> id = k).
Proof.
  intros H. apply enqueue_accepted in H. destruct H as (Hc & Hnot & Hlen & H).
  split; [assumption|]. destruct (Z.eqb_spec k 0).
  - destruct H as (rest & Hp & ->). split; [|congruence]. now rewrite keys_register.
  - destruct H as (-> & ->). split; [|auto]. now rewrite keys_register.
Qed.

(* the same through CqlClientConnection.Send *)
Lemma csend_accepted s k s' id :
  csend s k = (s', OAccepted id) -> exists s1, enqueue s k = (s1, OAccepted id) /\ inflight s' = inflight s1 /\ pool s' = pool s1.
Proof.
  unfold csend. destruct (enqueue s k) as [s1 o] eqn:He. destruct o; try discriminate.
  destruct (zlen (outq s1) <? cfgN s1); [|discriminate]. intros [= <- <-]. exists s1. auto.
Qed.

(* ------------------------------------------------------------------ bounds *)
Theorem managed_id_bounds n p t s s' id :
  1 <= n -> Reachable n p t s -> step s SendManaged = (s', OAccepted id) -> 1 <= id <= n.
Proof.
  intros Hn HR H. pose proof (reachable_inv n p t s Hn HR) as HI.
  destruct (reachable_cfg n p t s HR) as (HN & _).
  cbn [step SendManaged] in H. apply enqueue_accepted in H. destruct H as (Hc & _ & _ & H).
  cbn in H. destruct H as (rest & Hp & _).
  destruct (conservation_facts s HI Hc) as (_ & Hrange & _). rewrite <- HN. apply Hrange.
  rewrite Hp. now left.
Qed.

Theorem managed_id_bounds_conn n p t s s' id :
  1 <= n -> Reachable n p t s -> step s (CSend 0) = (s', OAccepted id) -> 1 <= id <= n.
Proof.
  intros Hn HR H. cbn [step] in H. apply csend_accepted in H. destruct H as (s1 & H & _).
  eapply managed_id_bounds; eauto.
Qed.

(* ------------------------------------------------------------------ uniqueness *)
Theorem inflight_ids_unique n p t s : 1 <= n -> Reachable n p t s -> NoDup (keys (inflight s)).
Proof. intros Hn HR. apply (inv_nodup s). eapply reachable_inv; eauto. Qed.

(* a registered request stays registered, under the same id, until its final frame arrives or the handler is closed *)
Definition removes (o : op) (k : Z) : Prop := (exists tag, o = Deliver k true tag) \/ o = Close.

Lemma enqueue_keeps s k0 k r :
  In (k, r) (inflight s) -> In (k, r) (inflight (fst (enqueue s k0))).
Proof.
  intros Hin. unfold enqueue; rewrite ?check2_eq. destruct (closed s); [assumption|]. destruct (k0 =? 0).
  - destruct (pool s) as [|i rest]; [assumption|]. rewrite ?check2_eq, check_set_pool. destruct (check s i) eqn:Hck; cbn [fst].
    + unfold release. destruct (_ <? _); assumption.
    + apply check_None in Hck. destruct Hck as [_ Hnot]. unfold register. cbn [inflight set_pool].
      rewrite (remove_key_notin _ _ Hnot). apply in_app_iff. now left.
  - destruct (check s k0) eqn:Hck; cbn [fst]; [assumption|].
    apply check_None in Hck. destruct Hck as [_ Hnot]. unfold register. cbn [inflight].
    rewrite (remove_key_notin _ _ Hnot). apply in_app_iff. now left.
Qed.

Theorem stays_registered s o k r :
  NoDup (keys (inflight s)) -> In (k, r) (inflight s) -> ~ removes o k ->
  exists r', In (k, r') (inflight (fst (step s o))) /\ same_id r r'.
Proof.
  intros Hnd Hin Hnr. destruct o; cbn [step].
  - exists r. split; [now apply enqueue_keeps|apply same_id_refl].
  - exists r. split; [|apply same_id_refl]. unfold csend.
    pose proof (enqueue_keeps s k0 k r Hin) as H. destruct (enqueue s k0) as [s1 o]. cbn [fst] in H.
    destruct o; try exact H. destruct (_ <? _); exact H.
  - exists r. split; [|apply same_id_refl]. unfold ctake. destruct (outq s); exact Hin.
  - unfold deliver. destruct (closed s); [exists r; split; [assumption|apply same_id_refl]|].
    destruct (lookup k0 (inflight s)) as [r0|] eqn:Hl; [|exists r; split; [assumption|apply same_id_refl]].
    destruct (Z.eq_dec k0 k) as [->|Hne].
    + rewrite (In_lookup _ _ _ Hnd Hin) in Hl. inversion Hl; subst r0.
      destruct last; [exfalso; apply Hnr; left; now exists tag|].
      pose proof (on_frame_same (cfgP s) (now s) (cfgT s) r false tag) as Hs.
      destruct (on_frame _ _ _ _ _ _) as [r' o]. cbn [fst set_inflight inflight] in *.
      exists r'. split; [|assumption].
      apply lookup_Some_In. apply lookup_update_key_same. eapply In_keys; eauto.
    + exists r. split; [|apply same_id_refl]. destruct last.
      * assert (Hin' : In (k, r) (remove_key k0 (inflight s))) by (apply In_remove_key; auto).
        destruct (managed r0).
        -- unfold release. cbn [set_inflight pool cfgN]. destruct (_ <? _).
           ++ destruct (on_frame _ _ _ _ _ _). exact Hin'.
           ++ destruct (on_frame _ _ _ _ _ _). exact Hin'.
        -- destruct (on_frame _ _ _ _ _ _). exact Hin'.
      * destruct (on_frame _ _ _ _ _ _) as [r' o]. cbn [fst set_inflight inflight].
        apply In_update_key_other; auto.
  - exists r. split; [exact Hin|apply same_id_refl].
  - unfold recv. destruct (lookup k0 (inflight s)) as [r0|] eqn:Hl; [|exists r; split; [assumption|apply same_id_refl]].
    destruct (nth_error _ _); [|exists r; split; [assumption|apply same_id_refl]]. cbn [fst set_inflight inflight].
    destruct (Z.eq_dec k0 k) as [->|Hne].
    + rewrite (In_lookup _ _ _ Hnd Hin) in Hl. inversion Hl; subst r0.
      exists (req_take r). split; [|apply req_take_same].
      apply lookup_Some_In. apply lookup_update_key_same. eapply In_keys; eauto.
    + exists r. split; [|apply same_id_refl]. apply In_update_key_other; auto.
  - unfold tick. cbn [fst inflight]. exists (fire (now s + d) r). split; [|apply fire_same].
    apply (In_map_vals (fire (now s + d))). now exists r.
  - exfalso. apply Hnr. now right.
Qed.

(* ------------------------------------------------------------------ refusal *)
(* with N unanswered requests every further send (managed or explicit) is refused: nothing is registered,
   nothing is lost from the pool (a borrowed id goes back to the end of the queue) *)
Theorem refused_at_capacity n p t s k :
  1 <= n -> Reachable n p t s -> zlen (inflight s) = n ->
  exists e s', step s (Send k) = (s', ORefused e) /\ (e = ENoId \/ e = ETooMany) /\
               inflight s' = inflight s /\ Permutation (pool s') (pool s) /\ closed s' = closed s.
Proof.
  intros Hn HR Hfull. pose proof (reachable_inv n p t s Hn HR) as HI.
  destruct (reachable_cfg n p t s HR) as (HN & _).
  assert (Hc : closed s = false).
  { destruct (closed s) eqn:E; [|reflexivity]. rewrite (inv_closed s HI E) in Hfull. cbn in Hfull. lia. }
  destruct (conservation_facts s HI Hc) as (_ & _ & Hsum).
  cbn [step]. unfold enqueue; rewrite ?check2_eq. rewrite Hc.
  assert (Hck : forall pl i, check (set_pool s pl) i = Some ETooMany).
  { intros. unfold check. cbn [set_pool inflight cfgN]. rewrite HN, Hfull, Z.eqb_refl. reflexivity. }
  destruct (k =? 0).
  - destruct (pool s) as [|i rest] eqn:Hp.
    + exists ENoId, s. repeat split; auto. rewrite Hp. constructor.
    + rewrite ?check2_eq, Hck. unfold release. cbn [set_pool pool cfgN].
      assert (Hroom : zlen rest <? cfgN s = true).
      { rewrite zlen_cons in Hsum. pose proof (zlen_nonneg (managed_keys (inflight s))). lia. }
      rewrite Hroom. exists ETooMany, (set_pool (set_pool s rest) (rest ++ [i])).
      repeat split; auto. cbn [set_pool pool]. symmetry. apply Permutation_cons_append.
  - specialize (Hck (pool s) k). assert (Heq : set_pool s (pool s) = s) by (destruct s; reflexivity). rewrite Heq in Hck.
    rewrite ?check2_eq, Hck. exists ETooMany, s. repeat split; auto.
Qed.

(* a managed send never blocks and never hands out a duplicate: whatever the state, its outcome is one of these *)
Theorem managed_send_outcomes s :
  (exists s' id, step s SendManaged = (s', OAccepted id) /\ ~ In id (keys (inflight s))) \/
  (exists s' e, step s SendManaged = (s', ORefused e) /\ inflight s' = inflight s).
Proof.
  cbn [step SendManaged]. destruct (enqueue s 0) as [s' o] eqn:He.
  pose proof He as He'. unfold enqueue in He; rewrite ?check2_eq in He. destruct (closed s).
  - inversion He; subst. right. eauto.
  - cbn in He. destruct (pool s) as [|i rest]; [inversion He; subst; right; eauto|].
    rewrite ?check2_eq, check_set_pool in He. destruct (check s i) eqn:Hck.
    + inversion He; subst. right. do 2 eexists. split; [reflexivity|]. unfold release. destruct (_ <? _); reflexivity.
    + inversion He; subst. left. do 2 eexists. split; [reflexivity|]. apply check_None in Hck. tauto.
Qed.

(* explicit reuse of the id of an unanswered request is refused and changes nothing *)
Theorem explicit_reuse_refused s k :
  k <> 0 -> In k (keys (inflight s)) ->
  exists e, step s (SendExplicit k) = (s, ORefused e) /\ (e = EInUse \/ e = ETooMany \/ e = EClosed).
Proof.
  intros Hk Hin. cbn [step SendExplicit]. unfold enqueue; rewrite ?check2_eq. destruct (closed s); [exists EClosed; auto|].
  destruct (Z.eqb_spec k 0); [contradiction|].
  unfold check. destruct (_ =? _); [exists ETooMany; auto|].
  apply memZ_true_iff in Hin. rewrite Hin. exists EInUse. auto.
Qed.

(* ------------------------------------------------------------------ conservation *)
Theorem conservation n p t s :
  1 <= n -> Reachable n p t s -> closed s = false ->
  Permutation (pool s ++ managed_keys (inflight s)) (ids n).
Proof.
  intros Hn HR Hc. destruct (reachable_cfg n p t s HR) as (HN & _). rewrite <- HN.
  apply (inv_cons s); [|assumption]. eapply reachable_inv; eauto.
Qed.

(* hence: free ids and ids of managed unanswered requests are disjoint, without repetition, exactly 1..n *)
Corollary pool_and_managed_partition n p t s :
  1 <= n -> Reachable n p t s -> closed s = false ->
  NoDup (pool s ++ managed_keys (inflight s)) /\
  forall x, In x (pool s ++ managed_keys (inflight s)) <-> 1 <= x <= n.
Proof.
  intros Hn HR Hc. pose proof (conservation n p t s Hn HR Hc) as HP. split.
  - eapply Permutation_NoDup; [symmetry; exact HP|apply NoDup_ids].
  - intros x. rewrite <- In_ids. split; intros Hx; [eapply Permutation_in; eauto|].
    eapply Permutation_in; [apply Permutation_sym; exact HP|exact Hx].
Qed.

(* ------------------------------------------------------------------ recycling *)
Definition all_managed (s : state) : Prop := forall k r, In (k, r) (inflight s) -> managed r = true.

Lemma all_managed_keys s : all_managed s -> managed_keys (inflight s) = keys (inflight s).
Proof.
  unfold all_managed, managed_keys. intros H. induction (inflight s) as [|[k r] m IH]; [reflexivity|].
  cbn [filter snd]. rewrite (H k r) by now left. cbn [keys map fst]. f_equal. apply IH. intros. eapply H. right. eauto.
Qed.

Lemma managed_sends_drain_pool s :
  Inv s -> closed s = false -> all_managed s ->
  trace s (repeat SendManaged (length (pool s))) = map OAccepted (pool s) /\
  pool (run s (repeat SendManaged (length (pool s)))) = [] /\
  closed (run s (repeat SendManaged (length (pool s)))) = false.
Proof.
  remember (length (pool s)) as len eqn:Hlen. revert s Hlen.
  induction len as [|len IH]; intros s Hlen HI Hc Ham.
  - destruct (pool s) eqn:Hp; [|discriminate]. unfold run. cbn [repeat trace map fold_left]. auto.
  - destruct (pool s) as [|id rest] eqn:Hp; [discriminate|]. cbn [length] in Hlen. injection Hlen as Hlen.
    cbn [repeat trace]. rewrite run_cons. cbn [step SendManaged].
    destruct (conservation_facts s HI Hc) as (Hnd & _ & Hsum).
    rewrite (all_managed_keys s Ham) in *.
    assert (Hck : check s id = None).
    { unfold check. rewrite Hp, zlen_cons in Hsum. unfold keys in Hsum. unfold zlen in Hsum at 2. rewrite map_length in Hsum.
      fold (zlen (inflight s)) in Hsum. pose proof (zlen_nonneg rest).
      destruct (Z.eqb_spec (zlen (inflight s)) (cfgN s)); [lia|].
      destruct (memZ id (keys (inflight s))) eqn:E; [|reflexivity].
      apply memZ_true_iff in E. rewrite Hp in Hnd. cbn [app] in Hnd. inversion Hnd as [|? ? Hnot _]; subst.
      exfalso. apply Hnot. apply in_app_iff. now right. }
    pose proof (enqueue_inv s 0 HI) as HI'.
    unfold enqueue in *; rewrite ?check2_eq in *. rewrite Hc, Hp in *. cbn [Z.eqb] in *. rewrite ?check2_eq, check_set_pool, Hck in *. cbn [fst] in *.
    set (s1 := register (set_pool s rest) id true) in *.
    assert (Hp1 : pool s1 = rest) by reflexivity.
    assert (Hc1 : closed s1 = false) by exact Hc.
    assert (Ham1 : all_managed s1).
    { intros k r Hin. unfold s1, register in Hin. cbn [inflight set_pool] in Hin. apply in_app_iff in Hin.
      destruct Hin as [Hin|[Heq|[]]]; [|inversion Heq; reflexivity].
      apply In_remove_key in Hin. destruct Hin. eauto. }
    specialize (IH s1). rewrite Hp1 in IH. specialize (IH Hlen HI' Hc1 Ham1).
    destruct IH as (IH1 & IH2 & IH3). cbn [map]. rewrite IH1. auto.
Qed.

(* once every request has been answered, N managed sends succeed again, with N distinct ids covering 1..N *)
Theorem recycling n p t s :
  1 <= n -> Reachable n p t s -> closed s = false -> inflight s = [] ->
  trace s (repeat SendManaged (Z.to_nat n)) = map OAccepted (pool s) /\ Permutation (pool s) (ids n).
Proof.
  intros Hn HR Hc He. pose proof (reachable_inv n p t s Hn HR) as HI.
  pose proof (conservation n p t s Hn HR Hc) as HP. rewrite He in HP. unfold managed_keys in HP. cbn in HP. rewrite app_nil_r in HP.
  split; [|assumption].
  assert (Hl : length (pool s) = Z.to_nat n). { apply Permutation_length in HP. now rewrite length_ids in HP. }
  rewrite <- Hl. apply managed_sends_drain_pool; auto. intros k r Hin. rewrite He in Hin. destruct Hin.
Qed.

(* answering every unanswered request (final frame for each registered id, in any listed order) empties the map *)
Lemma deliver_last_removes s k tag :
  Inv s -> closed s = false -> In k (keys (inflight s)) ->
  inflight (fst (step s (Deliver k true tag))) = remove_key k (inflight s) /\
  closed (fst (step s (Deliver k true tag))) = false.
Proof.
  intros HI Hc Hin. cbn [step]. unfold deliver. rewrite Hc.
  destruct (lookup k (inflight s)) as [r|] eqn:Hl; [|apply lookup_None in Hl; contradiction].
  destruct (managed r) eqn:Hm.
  - destruct (release_success s k r HI Hc Hl Hm) as [Hroom _].
    unfold release. cbn [set_inflight pool cfgN]. assert (H : zlen (pool s) <? cfgN s = true) by lia. rewrite H.
    destruct (on_frame _ _ _ _ _ _). cbn. auto.
  - destruct (on_frame _ _ _ _ _ _). cbn. auto.
Qed.

Lemma answer_all s tagf :
  Inv s -> closed s = false ->
  let s' := run s (map (fun k => Deliver k true (tagf k)) (keys (inflight s))) in
  inflight s' = [] /\ closed s' = false.
Proof.
  remember (inflight s) as m eqn:Hm. revert s Hm. induction m as [|[k r] m IH]; intros s Hm HI Hc.
  - cbn. auto.
  - cbn [keys map fst]. rewrite run_cons.
    assert (Hin : In k (keys (inflight s))) by (rewrite <- Hm; now left).
    destruct (deliver_last_removes s k (tagf k) HI Hc Hin) as [Hr Hc'].
    pose proof (step_inv s (Deliver k true (tagf k)) HI) as HI'.
    assert (Hm' : m = inflight (fst (step s (Deliver k true (tagf k))))).
    { rewrite Hr, <- Hm. cbn [remove_key]. rewrite Z.eqb_refl. symmetry. apply remove_key_notin.
      pose proof (inv_nodup s HI) as Hnd. rewrite <- Hm in Hnd. cbn [keys map fst] in Hnd. now inversion Hnd. }
    fold (keys m). apply (IH _ Hm' HI' Hc').
Qed.

Theorem recycling_after_answers n p t s tagf :
  1 <= n -> Reachable n p t s -> closed s = false ->
  let s1 := run s (map (fun k => Deliver k true (tagf k)) (keys (inflight s))) in
  trace s1 (repeat SendManaged (Z.to_nat n)) = map OAccepted (pool s1) /\ Permutation (pool s1) (ids n).
Proof.
  intros Hn HR Hc s1. pose proof (reachable_inv n p t s Hn HR) as HI.
  destruct (answer_all s tagf HI Hc) as [He Hc1]. fold s1 in He, Hc1.
  apply (recycling n p t); auto. now apply reachable_run.
Qed.

(* ------------------------------------------------------------------ F12 on the sequential model: refuted *)
(* CqlClientConnection.Send registers the request and only then tries the outgoing queue; if that queue is full the
   caller gets an error but the request stays registered and keeps its stream id. *)
Definition send_refusal_leaves_no_trace : Prop :=
  forall n p t ops k s' e, 1 <= n ->
    step (run (init n p t) ops) (CSend k) = (s', ORefused e) ->
    keys (inflight s') = keys (inflight (run (init n p t) ops)).

Theorem send_refusal_leaves_no_trace_refuted : ~ send_refusal_leaves_no_trace.
Proof.
  intros H. specialize (H 1 1 1000 [CSend 0; Deliver 1 true 7] 0).
  vm_compute in H. specialize (H _ _ ltac:(discriminate) eq_refl). discriminate.
Qed.
