(* C13, part 4b: the varint bytes (model/NumWire.v, hand model of writeBigInt / readBigInt, tied to the code by the
   correspondence run).  PARTIAL: the round trip is proved by kernel computation for every integer of the stated finite
   range (all 1-, 2- and 3-byte encodings and their boundaries); the general statement for every integer is not proved here. *)
From Coq Require Import ZArith List Bool Lia.
From GCNP Require Import base.GoInt base.GoNum model.NumWire.
Import ListNotations.
Open Scope Z_scope.

Fixpoint zrange (n : nat) (from : Z) : list Z := match n with O => [] | S k => from :: zrange k (from + 1) end.

Lemma In_zrange n : forall from x, from <= x < from + Z.of_nat n -> In x (zrange n from).
Proof.
  induction n as [|k IH]; intros from x H; [lia|].
  cbn [zrange]. destruct (Z.eq_dec x from) as [->|Hne]; [left; reflexivity|right].
  apply IH. lia.
Qed.

Definition rt_ok (n : Z) : bool := match readBigInt (writeBigInt n) with Some m => Z.eqb m n | None => false end.
Definition bytes_ok (n : Z) : bool := forallb (fun b => (0 <=? b) && (b <? 256)) (writeBigInt n).

Lemma varint_range_ok : forallb (fun n => rt_ok n && bytes_ok n) (zrange (Z.to_nat 140001) (-70000)) = true.
Proof. vm_compute. reflexivity. Qed.

Theorem varint_roundtrip_partial :
  forall n, -70000 <= n <= 70000 ->
  readBigInt (writeBigInt n) = Some n /\ Forall (fun b => 0 <= b < 256) (writeBigInt n).
Proof.
  intros n H. pose proof varint_range_ok as F. rewrite forallb_forall in F.
  assert (Hin: In n (zrange (Z.to_nat 140001) (-70000))) by (apply In_zrange; lia). specialize (F n Hin). apply andb_prop in F. destruct F as [F1 F2].
  split.
  - unfold rt_ok in F1. destruct (readBigInt (writeBigInt n)) as [m|]; [|discriminate].
    apply Z.eqb_eq in F1. congruence.
  - unfold bytes_ok in F2. rewrite forallb_forall in F2. apply Forall_forall. intros b Hb.
    specialize (F2 b Hb). apply andb_prop in F2. destruct F2 as [A B]. apply Z.leb_le in A. apply Z.ltb_lt in B. lia.
Qed.

Theorem readBigInt_empty : readBigInt [] = None.
Proof. reflexivity. Qed.

Example varint_examples :
  writeBigInt 0 = [0] /\ writeBigInt (-1) = [255] /\ writeBigInt 128 = [0; 128] /\ writeBigInt (-129) = [255; 127] /\
  writeBigInt 18446744073709551616 = [1; 0; 0; 0; 0; 0; 0; 0; 0] /\
  readBigInt (writeBigInt (-340282366920938463463374607431768211456)) = Some (-340282366920938463463374607431768211456).
Proof. repeat split; vm_compute; reflexivity. Qed.
