(* C13, part 4b: the varint bytes.  model/NumWire.v (this area's hand model of datacodec/varint.go writeBigInt / readBigInt,
   compared with the compiled code by check C13) is proved extensionally equal to model/CqlWire.v's model of the same two Go
   functions (compared with the code by the cql area); the round trip for EVERY integer is then the theorem
   proofs/CqlVarintProofs.readBigInt_writeBigInt, transported along that equality. *)
From Coq Require Import ZArith List Bool Lia.
From Coq Require Import ZifyBool ZifyNat.
From GCNP Require Import base.GoInt base.GoNum base.Bytes model.NumWire model.CqlWire proofs.CqlBytesLemmas proofs.CqlVarintProofs.
Import ListNotations.
Open Scope Z_scope.

(* ---------- the two byte libraries agree ---------- *)
Lemma be_bytes_agree n : forall x, GoNum.be_bytes n x = Bytes.be_bytes n x.
Proof.
  induction n as [|k IH]; intro x; [reflexivity|].
  rewrite be_bytes_cons. cbn [GoNum.be_bytes]. rewrite pow2_8n, IH. reflexivity.
Qed.

Lemma fold_be acc l : fold_left (fun a b => a * 256 + b) l acc = acc * 2 ^ (8 * Z.of_nat (List.length l)) + be_value l.
Proof.
  revert acc. induction l as [|b r IH]; intro acc; cbn [fold_left be_value List.length].
  - cbn. lia.
  - rewrite IH. replace (8 * Z.of_nat (S (List.length r))) with (8 + 8 * Z.of_nat (List.length r)) by lia.
    rewrite Z.pow_add_r by lia. change (2 ^ 8) with 256. ring.
Qed.

Lemma be_value_agree l : be_value l = be_val l.
Proof. unfold be_val. rewrite fold_be. lia. Qed.

Lemma nth0_hd (l : list Z) : nth_Z l 0 = hd 0 l.
Proof. destruct l; reflexivity. Qed.

Lemma bitlen_agree x : NumWire.bitlen x = CqlWire.bitlen (Z.abs x).
Proof. reflexivity. Qed.

Lemma big_Bytes_agree x : 0 <= x -> big_Bytes x = big_bytes x.
Proof.
  intro H. unfold big_Bytes, big_bytes. rewrite bitlen_agree, be_bytes_agree. rewrite (Z.abs_eq x H). reflexivity.
Qed.

(* the value handed to Bytes() in the negative branch is positive: 2^length exceeds |n| *)
Lemma neg_shift_pos n : n < 0 -> 0 < n + Z.shiftl 1 ((CqlWire.bitlen (Z.abs n) / 8 + 1) * 8).
Proof.
  intro H. destruct (bitlen_spec (Z.abs n) ltac:(lia)) as (HL & _ & Hhi).
  set (L := CqlWire.bitlen (Z.abs n)) in *.
  rewrite Z.shiftl_1_l.
  assert (L <= (L / 8 + 1) * 8) by (pose proof (Z.div_mod L 8 ltac:(lia)); pose proof (Z.mod_pos_bound L 8 ltac:(lia)); lia).
  pose proof (pow2_le_mono L ((L / 8 + 1) * 8) ltac:(lia)). lia.
Qed.

Theorem writeBigInt_agree n : NumWire.writeBigInt n = CqlWire.writeBigInt n.
Proof.
  unfold NumWire.writeBigInt, CqlWire.writeBigInt.
  destruct (Z.ltb_spec 0 n) as [Hp|Hp].
  - rewrite (Z.sgn_pos n Hp). rewrite big_Bytes_agree by lia. rewrite nth0_hd, Z.gtb_ltb. reflexivity.
  - destruct (Z.ltb_spec n 0) as [Hn|Hn].
    + rewrite (Z.sgn_neg n Hn). rewrite bitlen_agree.
      pose proof (neg_shift_pos n Hn) as Hpos.
      rewrite big_Bytes_agree by lia.
      destruct (big_bytes _) as [|b0 [|b1 r]]; try reflexivity.
      unfold len_Z, nth_Z. cbn [List.length nth Z.to_nat Pos.to_nat Pos.iter_op Nat.add tl].
      replace (Z.of_nat (S (S (List.length r))) >=? 2) with true by lia. reflexivity.
    + assert (n = 0) by lia. subst n. reflexivity.
Qed.

Theorem readBigInt_agree l : NumWire.readBigInt l = CqlWire.readBigInt (Some l).
Proof.
  unfold NumWire.readBigInt, CqlWire.readBigInt, src_bytes, big_SetBytes.
  change (len_Z l) with (zlen l). rewrite !Z.gtb_ltb, nth0_hd, be_value_agree. reflexivity.
Qed.

(* ---------- full strength: every integer ---------- *)
Theorem varint_roundtrip :
  forall n : Z, NumWire.readBigInt (NumWire.writeBigInt n) = Some n /\ Forall (fun b => 0 <= b < 256) (NumWire.writeBigInt n).
Proof.
  intro n. rewrite readBigInt_agree, writeBigInt_agree. split.
  - apply readBigInt_writeBigInt.
  - exact (writeBigInt_bytes_ok n).
Qed.

(* the bytes are the specification's minimal two's complement (spec/SpecCql.v), hence never empty *)
Theorem writeBigInt_is_spec n : NumWire.writeBigInt n = SpecCql.spec_varint n.
Proof. rewrite writeBigInt_agree. apply writeBigInt_spec. Qed.

Theorem readBigInt_empty : NumWire.readBigInt [] = None.
Proof. reflexivity. Qed.

Example varint_examples :
  NumWire.writeBigInt 0 = [0] /\ NumWire.writeBigInt (-1) = [255] /\ NumWire.writeBigInt 128 = [0; 128] /\
  NumWire.writeBigInt (-129) = [255; 127] /\
  NumWire.writeBigInt 18446744073709551616 = [1; 0; 0; 0; 0; 0; 0; 0; 0] /\
  NumWire.readBigInt (NumWire.writeBigInt (-340282366920938463463374607431768211456)) = Some (-340282366920938463463374607431768211456).
Proof. repeat split; vm_compute; reflexivity. Qed.
