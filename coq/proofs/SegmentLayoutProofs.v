(* C06, layout clause: the bytes emitted by the encoder model are the v5 framing layout of spec/SpecSegment.v. *)
From Coq Require Import ZArith NArith List Bool Lia.
From Coq Require Import ZifyBool ZifyN ZifyNat.
From GCNP Require Import base.GoInt base.Bytes gen.Crc_gen model.Crc model.Segment spec.SpecSegment
  proofs.Crc24Proofs proofs.Crc24SpecProofs proofs.Crc32Proofs proofs.SegmentProofs.
Import ListNotations.
Ltac Zify.zify_post_hook ::= Z.div_mod_to_equations.
Open Scope Z_scope.

(* ---------------------------------------------------------------- parameters of the code = parameters of the specification *)
Lemma parameters_agree :
  crc24Init = spec_crc24_init /\ crc24Poly = spec_crc24_poly /\ crc32InitialBytes = spec_crc32_seed /\
  crc32_poly = spec_crc32_poly /\ crc32InitialStart = 0 /\ MaxPayloadLength = spec_max_payload /\ mask32 = all_ones32.
Proof. repeat split; reflexivity. Qed.

(* ---------------------------------------------------------------- CRC-32: model = textbook form of the specification *)
Lemma spec_bit_step r b : spec_crc32_bit r b = crc32_step r b.
Proof.
  unfold spec_crc32_bit, crc32_step. rewrite N.bit0_odd, N.shiftr_div_pow2. change (2 ^ 1)%N with 2%N.
  destruct parameters_agree as (_ & _ & _ & -> & _). reflexivity.
Qed.

Fixpoint bl_eqb (a b : list bool) : bool :=
  match a, b with [], [] => true | x :: a', y :: b' => Bool.eqb x y && bl_eqb a' b' | _, _ => false end.
Lemma bl_eqb_eq : forall a b, bl_eqb a b = true -> a = b.
Proof.
  induction a as [|x a IH]; intros [|y b] H; try discriminate; [reflexivity|].
  cbn [bl_eqb] in H. apply andb_true_iff in H. destruct H as [H1 H2]. apply eqb_prop in H1. subst. f_equal. apply IH. exact H2.
Qed.

Definition byte_bits_spec (b : Z) : list bool := map (fun i => Z.odd (b / 2 ^ i)) [0; 1; 2; 3; 4; 5; 6; 7].

Lemma byte_bits_all : forallb (fun n => bl_eqb (byte_bits_spec (Z.of_nat n)) (bits_of_byte (Z.of_nat n))) (seq 0 256) = true.
Proof. vm_compute. reflexivity. Qed.

Lemma byte_bits_agree b : byte_ok b -> byte_bits_spec b = bits_of_byte b.
Proof.
  intro H. pose proof byte_bits_all as A. rewrite forallb_forall in A.
  specialize (A (Z.to_nat b)). rewrite Z2Nat.id in A by (unfold byte_ok in H; lia).
  apply bl_eqb_eq, A. apply in_seq. unfold byte_ok in H. lia.
Qed.

Lemma fold_left_map {A B C} (f : A -> B -> A) (g : C -> B) l : forall a, fold_left (fun r i => f r (g i)) l a = fold_left f (map g l) a.
Proof. induction l as [|x l IH]; intro a; [reflexivity|]. cbn [map fold_left]. apply IH. Qed.

Lemma spec_byte_model r b : byte_ok b -> spec_crc32_byte r b = crc32_byte r b.
Proof.
  intro H. unfold spec_crc32_byte. rewrite (fold_left_map spec_crc32_bit (fun i => Z.odd (b / 2 ^ i))).
  fold (byte_bits_spec b). rewrite byte_bits_agree by exact H.
  rewrite crc32_byte_run by (unfold byte_ok in H; exact H). unfold crc32_run.
  revert r. induction (bits_of_byte b) as [|x l IH]; intro r; [reflexivity|]. cbn [fold_left]. rewrite spec_bit_step. apply IH.
Qed.

Lemma spec_fold_model : forall bs r, bytes_ok bs -> fold_left spec_crc32_byte bs r = crc32_raw r bs.
Proof.
  induction bs as [|b bs IH]; intros r H; [reflexivity|]. inversion H; subst.
  unfold crc32_raw in *. cbn [fold_left]. rewrite spec_byte_model by assumption. apply IH. assumption.
Qed.

Lemma seed_ok : bytes_ok spec_crc32_seed.
Proof. repeat constructor; unfold byte_ok; lia. Qed.

Theorem crc32_model_is_spec p : bytes_ok p -> Z.of_N (checksum_ieee p) = spec_crc32 p.
Proof.
  intro H. unfold spec_crc32. f_equal.
  rewrite spec_fold_model by (apply Forall_app; split; [exact seed_ok | exact H]).
  rewrite crc32_raw_app. unfold checksum_ieee, crc32_update at 1.
  f_equal; try (f_equal; vm_compute; reflexivity).
Qed.

(* ---------------------------------------------------------------- header words *)
Lemma header_word_uncompressed sc len : 0 <= len <= 131071 ->
  Z.of_N (header_data_uncompressed sc len) = spec_header_uncompressed len sc.
Proof.
  intro H. rewrite header_data_uncompressed_arith by lia. unfold spec_header_uncompressed.
  change (2 ^ 17) with 131072. destruct sc; cbn [b2n b2z]; lia.
Qed.

Lemma header_word_compressed sc ulen clen : 0 <= ulen <= 131071 -> 0 <= clen <= 131071 ->
  Z.of_N (header_data_compressed sc ulen clen) = spec_header_compressed clen ulen sc.
Proof.
  intros Hu Hc. rewrite header_data_compressed_arith by lia. unfold spec_header_compressed.
  change (2 ^ 17) with 131072. change (2 ^ 34) with 17179869184. destruct sc; cbn [b2n b2z]; lia.
Qed.

(* the written header: little-endian word, then the textbook CRC-24 of those bytes, little-endian *)
Lemma written_header_is_spec hd n :
  write_header hd n = le_bytes n (Z.of_N hd) ++ le_bytes 3 (spec_crc24 (le_bytes n (Z.of_N hd))).
Proof. unfold write_header. rewrite <- (put_le_le_bytes n hd), <- checksum_koopman_is_spec, !put_le_le_bytes. reflexivity. Qed.

(* ---------------------------------------------------------------- the layout *)
Theorem layout_none sc p : bytes_ok p -> Z.of_nat (length p) <= 131071 ->
  encode_segment None sc p = Ok (spec_uncompressed_segment sc p).
Proof.
  intros Hb Hl. unfold encode_segment, encode_segment_full. change MaxPayloadLength with 131071.
  replace (Z.of_nat (length p) >? 131071) with false by lia. rewrite wrap_i32_small by lia.
  unfold spec_uncompressed_segment, spec_segment, spec_segment_with, zlen. f_equal.
  rewrite written_header_is_spec.
  rewrite header_word_uncompressed by lia. change hlen_uncompressed with 3%nat.
  unfold write_crc32. rewrite put_le_le_bytes, crc32_model_is_spec by exact Hb. rewrite <- app_assoc. reflexivity.
Qed.

Theorem layout_comp k sc p cp : bytes_ok p -> Z.of_nat (length p) <= 131071 ->
  cmp k p = Ok cp -> bytes_ok cp -> Z.of_nat (length cp) < 2147483648 ->
  encode_segment (Some k) sc p =
  Ok (if Z.of_nat (length cp) <=? Z.of_nat (length p)
      then spec_compressed_segment sc p cp        (* section 2.2 *)
      else spec_fallback_segment sc p).           (* section 2.3.2, uncompressed-length field 0 *)
Proof.
  intros Hb Hl Hc Hcb Hcl. unfold encode_segment, encode_segment_full. change MaxPayloadLength with 131071.
  replace (Z.of_nat (length p) >? 131071) with false by lia. rewrite Hc, !wrap_i32_small by lia.
  unfold spec_compressed_segment, spec_fallback_segment, spec_segment, spec_segment_with, zlen.
  destruct (Z.leb_spec (Z.of_nat (length cp)) (Z.of_nat (length p))) as [Hle|Hgt]; f_equal.
  - rewrite written_header_is_spec.
    rewrite header_word_compressed by lia. change hlen_compressed with 5%nat.
    unfold write_crc32. rewrite put_le_le_bytes, crc32_model_is_spec by exact Hcb. rewrite <- app_assoc. reflexivity.
  - rewrite written_header_is_spec.
    rewrite header_word_compressed by lia. change hlen_compressed with 5%nat.
    unfold write_crc32. rewrite put_le_le_bytes, crc32_model_is_spec by exact Hb. rewrite <- app_assoc. reflexivity.
Qed.

(* the decoder accepts both readings of section 2.3.2 for an uncompressed payload on a compressing connection *)
Theorem decoder_accepts_both_fallbacks k sc p rest : bytes_ok p -> 1 <= Z.of_nat (length p) <= 131071 ->
  (exists s, decode_segment (Some k) (write_header (header_data_compressed sc 0 (Z.of_nat (length p))) 5 ++ p ++ write_crc32 (checksum_ieee p) ++ rest) = Ok (s, rest)
             /\ seg_data s = p /\ is_self_contained (seg_header s) = sc) /\
  (exists s, decode_segment (Some k) (write_header (header_data_compressed sc (Z.of_nat (length p)) 0) 5 ++ p ++ write_crc32 (checksum_ieee p) ++ rest) = Ok (s, rest)
             /\ seg_data s = p /\ is_self_contained (seg_header s) = sc).
Proof.
  intros Hb Hl. split.
  - unfold decode_segment.
    rewrite (decode_written_header (Some k)).
    2:{ rewrite header_data_compressed_arith by lia. change (2 ^ (8 * N.of_nat (hlen_of (Some k))))%N with 1099511627776%N. destruct sc; cbn [b2n]; lia. }
    cbn [is_some hlen_of]. rewrite hod_c by lia. change (0 =? 0) with true. cbn iota.
    rewrite (decode_written_payload (Some k)) by (try assumption; reflexivity).
    cbn [compressed_len Z.eqb]. eexists. split; [reflexivity|]. split; reflexivity.
  - unfold decode_segment.
    rewrite (decode_written_header (Some k)).
    2:{ rewrite header_data_compressed_arith by lia. change (2 ^ (8 * N.of_nat (hlen_of (Some k))))%N with 1099511627776%N. destruct sc; cbn [b2n]; lia. }
    cbn [is_some hlen_of]. rewrite hod_c by lia.
    replace (Z.of_nat (length p) =? 0) with false by lia.
    rewrite (decode_written_payload (Some k)) by (try assumption; reflexivity).
    cbn [compressed_len Z.eqb]. eexists. split; [reflexivity|]. split; reflexivity.
Qed.

Lemma nonvacuous_c06 :
  bytes_ok [1; 2; 255] /\
  encode_segment None true [1; 2; 255] = Ok [3; 0; 2; 66; 150; 124; 1; 2; 255; 224; 5; 165; 17] /\
  (exists s, decode_segment None ([3; 0; 2; 66; 150; 124; 1; 2; 255; 224; 5; 165; 17] ++ [9]) = Ok (s, [9]) /\ seg_data s = [1; 2; 255]) /\
  comp_contract (mkCompressor (fun x => Ok x) (fun x => Ok x)) [1; 2; 255] /\
  crc32_update 0 [49; 50; 51; 52; 53; 54; 55; 56; 57] = 3421780262%N.
Proof.
  split; [repeat constructor; unfold byte_ok; lia|].
  split; [vm_compute; reflexivity|].
  split; [eexists; split; vm_compute; reflexivity|].
  split; [|vm_compute; reflexivity].
  exists [1; 2; 255]. cbn [cmp dcmp]. split; [reflexivity|]. split; [repeat constructor; unfold byte_ok; lia|].
  split; [cbn; lia|]. split; [intros _; discriminate | reflexivity].
Qed.
