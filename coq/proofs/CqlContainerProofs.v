(* Collections, maps, tuples and UDTs composed over the element codecs: by induction on the TYPE TREE (any depth, any width),
   for every protocol version:
     enc_complete        (C12)  whatever the specification serializer expresses, the model encoder emits, byte for byte
     round_trip          (C11)  decode (encode x) = x
     decode_no_panic     (C04)  the model decoder never panics
     v2_refuses_nulls, nulls lemmas (C14). *)
From Coq Require Import ZArith List Lia Bool String.
From Coq Require Import ZifyBool ZifyNat.
From GCNP Require Import base.GoInt base.Bytes spec.SpecCql model.CqlWire model.CqlContainers model.CqlTyping
  proofs.CqlBytesLemmas proofs.CqlVarintProofs proofs.CqlVintProofs proofs.CqlScalarProofs.
Import ListNotations.
Open Scope Z_scope.

Local Ltac Zify.zify_post_hook ::= Z.div_mod_to_equations.

(* ---------------------------------------------------------------------------------------------- induction on type trees *)
Section TypeInd.
  Variable P : cqltype -> Prop.
  Hypothesis Hs : forall s, P (TScalar s).
  Hypothesis Hl : forall e, P e -> P (TList e).
  Hypothesis Hset : forall e, P e -> P (TSet e).
  Hypothesis Hm : forall k w, P k -> P w -> P (TMap k w).
  Hypothesis Ht : forall fs, Forall P fs -> P (TTuple fs).
  Hypothesis Hu : forall names fs, Forall P fs -> P (TUdt names fs).
  Fixpoint cqltype_ind2 (t : cqltype) : P t :=
    match t with
    | TScalar s => Hs s
    | TList e => Hl e (cqltype_ind2 e)
    | TSet e => Hset e (cqltype_ind2 e)
    | TMap k w => Hm k w (cqltype_ind2 k) (cqltype_ind2 w)
    | TTuple fs => Ht fs ((fix go (fs : list cqltype) : Forall P fs :=
                             match fs with [] => Forall_nil P | f :: r => Forall_cons f (cqltype_ind2 f) (go r) end) fs)
    | TUdt names fs => Hu names fs ((fix go (fs : list cqltype) : Forall P fs :=
                             match fs with [] => Forall_nil P | f :: r => Forall_cons f (cqltype_ind2 f) (go r) end) fs)
    end.
End TypeInd.

(* ---------------------------------------------------------------------------------------------- plumbing *)
Lemma bindo_ok {A B} (o : outcome A) (f : A -> outcome B) r : bindo o f = OK r -> exists a, o = OK a /\ f a = OK r.
Proof. destruct o; cbn; intro H; [eauto|discriminate|discriminate]. Qed.
Lemma obind_some {A B} (o : option A) (f : A -> option B) r : obind o f = Some r -> exists a, o = Some a /\ f a = Some r.
Proof. destruct o; cbn; intro H; [eauto|discriminate]. Qed.
Lemma ok_inj {A} (a b : A) : OK a = OK b -> a = b.
Proof. intro H. congruence. Qed.

Definition olen (o : option bytes) : Z := match o with None => 0 | Some b => zlen b end.

(* the nested fixpoints of the model / spec / typing, named *)
Definition enc_fields (enc : cqltype -> cval -> outcome (option bytes)) :=
  fix fields (fs : list cqltype) (xs : list cval) {struct fs} : outcome bytes :=
    match fs with
    | [] => OK []
    | f :: fs' => match xs with
                  | [] => ERR
                  | x :: xs' => e <-! enc f x; rest <-! fields fs' xs'; OK (write_bytes e ++ rest)
                  end
    end.
Definition dec_fields (dec : cqltype -> option bytes -> outcome cval) :=
  fix fields (fs : list cqltype) (src : bytes) {struct fs} : outcome (list cval * bytes) :=
    match fs with
    | [] => OK ([], src)
    | f :: fs' => e <-! read_bytes src; x <-! dec f (fst e); rest <-! fields fs' (snd e); OK (x :: fst rest, snd rest)
    end.
Definition dec_fields_udt (dec : cqltype -> option bytes -> outcome cval) :=
  fix fields (fs : list cqltype) (src : bytes) {struct fs} : outcome (list cval * bytes) :=
    match fs with
    | [] => OK ([], src)
    | f :: fs' => e <-! (match src with [] => OK (None, []) | _ => read_bytes src end);
                  x <-! dec f (fst e); rest <-! fields fs' (snd e); OK (x :: fst rest, snd rest)
    end.
Definition wt_fields := fix fields (fs : list cqltype) (xs : list cval) {struct fs} : bool :=
  match fs, xs with [], [] => true | f :: fs', x :: xs' => wt f x && fields fs' xs' | _, _ => false end.
Definition spec_fields (v : Z) := fix fields (fs : list cqltype) (xs : list cval) {struct fs} : option (list Z) :=
  match fs, xs with
  | [], [] => Some []
  | f :: fs', x :: xs' => a <-? (e <-? spec_val v f x; spec_bytes e); b <-? fields fs' xs'; Some (a ++ b)
  | _, _ => None
  end.

Lemma m_encode_tuple v fs xs : m_encode v (TTuple fs) (VTuple xs) =
  (b <-! enc_fields (m_encode v) fs xs; OK (match fs with [] => None | _ => Some b end)).
Proof. reflexivity. Qed.
Lemma m_encode_udt v ns fs xs : m_encode v (TUdt ns fs) (VUdt xs) =
  (b <-! enc_fields (m_encode v) fs xs; OK (match fs with [] => None | _ => Some b end)).
Proof. reflexivity. Qed.
Lemma m_decode_tuple v fs src : m_decode v (TTuple fs) src =
  if src_len src =? 0 then OK VNull else (r <-! dec_fields (m_decode v) fs (src_bytes src); xs <-! all_read r; OK (VTuple xs)).
Proof. reflexivity. Qed.
Lemma m_decode_udt v ns fs src : m_decode v (TUdt ns fs) src =
  if src_len src =? 0 then OK VNull else (r <-! dec_fields_udt (m_decode v) fs (src_bytes src); xs <-! all_read r; OK (VUdt xs)).
Proof. reflexivity. Qed.
Lemma wt_tuple fs xs : wt (TTuple fs) (VTuple xs) = wt_fields fs xs. Proof. reflexivity. Qed.
Lemma wt_udt ns fs xs : wt (TUdt ns fs) (VUdt xs) = wt_fields fs xs. Proof. reflexivity. Qed.
Lemma spec_ser_tuple v fs xs : spec_ser v (TTuple fs) (VTuple xs) = spec_fields v fs xs. Proof. reflexivity. Qed.
Lemma spec_ser_udt v ns fs xs : spec_ser v (TUdt ns fs) (VUdt xs) = spec_fields v fs xs. Proof. reflexivity. Qed.
Lemma spec_ser_list v e xs : spec_ser v (TList e) (VList xs) =
  (c <-? spec_count v (lenZ xs); b <-? oconcat (map (fun x => spec_elem v (spec_val v e x)) xs); Some (c ++ b)).
Proof. reflexivity. Qed.
Lemma spec_ser_set v e xs : spec_ser v (TSet e) (VList xs) =
  (c <-? spec_count v (lenZ xs); b <-? oconcat (map (fun x => spec_elem v (spec_val v e x)) xs); Some (c ++ b)).
Proof. reflexivity. Qed.
Lemma spec_ser_map v k w kvs : spec_ser v (TMap k w) (VMap kvs) =
  (c <-? spec_count v (lenZ kvs);
   b <-? oconcat (map (fun kv => a <-? spec_elem v (spec_val v k (fst kv)); b <-? spec_elem v (spec_val v w (snd kv)); Some (a ++ b)) kvs);
   Some (c ++ b)).
Proof. reflexivity. Qed.

Lemma m_encode_null v t : m_encode v t VNull = OK None.
Proof. destruct t; reflexivity. Qed.
Lemma m_decode_none v t : m_decode v t None = OK VNull.
Proof. destruct t; try reflexivity. cbn [m_decode]. apply dec_scalar_none. Qed.
Lemma m_encode_scalar v s x : m_encode v (TScalar s) x = enc_scalar s x.
Proof. destruct x; reflexivity. Qed.

(* ---------------------------------------------------------------------------------------------- [bytes] / [short bytes] / sizes *)
Lemma take_app (b r : bytes) : take (zlen b) (b ++ r) = OK (b, r).
Proof.
  unfold take. rewrite zlen_app. pose proof (zlen_nonneg r). replace (zlen b + zlen r <? zlen b) with false by lia.
  unfold zlen. rewrite Nat2Z.id, firstn_app_exact, skipn_app_exact. reflexivity.
Qed.
Lemma take_be n x r : take (Z.of_nat n) (be_bytes n x ++ r) = OK (be_bytes n x, r).
Proof. rewrite <- (be_bytes_zlen n x). apply take_app. Qed.

Lemma read_int_be x r : in_i 32 x = true -> read_int (be_bytes 4 (wrap_u32 x) ++ r) = OK (x, r).
Proof.
  intro H. unfold read_int. change 4 with (Z.of_nat 4). rewrite take_be. cbn [bindo fst snd].
  unfold wrap_u32. rewrite be_bytes_wrap_u by reflexivity. rewrite be_val_be_bytes.
  change (256 ^ Z.of_nat 4) with (2 ^ 32). unfold wrap_i32. rewrite wrap_i_mod by (lia || assumption). reflexivity.
Qed.
Lemma read_short_be x r : 0 <= x < 65536 -> read_short (be_bytes 2 (wrap_u16 x) ++ r) = OK (x, r).
Proof.
  intro H. unfold read_short. change 2 with (Z.of_nat 2). rewrite take_be. cbn [bindo fst snd].
  unfold wrap_u16. rewrite be_bytes_wrap_u by reflexivity. rewrite be_val_be_bytes.
  change (256 ^ Z.of_nat 2) with 65536. rewrite Z.mod_small by lia. reflexivity.
Qed.

Lemma zlen_0_nil {A} (l : list A) : zlen l = 0 -> l = [].
Proof. destruct l; [reflexivity|]. rewrite zlen_cons. pose proof (zlen_nonneg l). lia. Qed.

Lemma in_i32_of_len n : 0 <= n < 2 ^ 31 -> in_i 32 n = true.
Proof. unfold in_i. change (2 ^ (32 - 1)) with (2 ^ 31). lia. Qed.
Lemma wrap_i32_small n : 0 <= n < 2 ^ 31 -> wrap_i32 n = n.
Proof. intro H. unfold wrap_i32, wrap_i. change (2 ^ 32) with 4294967296. change (2 ^ (32 - 1)) with 2147483648. change (2 ^ 31) with 2147483648 in H. lia. Qed.

Lemma read_write_bytes o r : olen o < 2 ^ 31 -> read_bytes (write_bytes o ++ r) = OK (o, r).
Proof.
  intro H. unfold read_bytes, write_bytes. destruct o as [b|]; cbn [olen] in H.
  - pose proof (zlen_nonneg b). rewrite wrap_i32_small by lia. rewrite <- app_assoc.
    rewrite read_int_be by (apply in_i32_of_len; lia). cbn [bindo].
    replace (zlen b <? 0) with false by lia.
    destruct (Z.eqb_spec (zlen b) 0) as [E|E].
    + rewrite (zlen_0_nil b E). reflexivity.
    + rewrite take_app. reflexivity.
  - rewrite read_int_be by reflexivity. reflexivity.
Qed.

Lemma read_write_short_bytes b r : zlen b <= 65535 -> read_short_bytes (write_short_bytes b ++ r) = OK (Some b, r).
Proof.
  intro H. unfold read_short_bytes, write_short_bytes. pose proof (zlen_nonneg b). rewrite <- app_assoc.
  rewrite read_short_be by lia. cbn [bindo].
  destruct (Z.eqb_spec (zlen b) 0) as [E|E].
  - rewrite (zlen_0_nil b E). reflexivity.
  - rewrite take_app. reflexivity.
Qed.

Lemma write_elem_len v o b : write_elem v o = OK b -> 2 <= zlen b /\ olen o <= zlen b.
Proof.
  unfold write_elem. destruct (uses4 v).
  - intro H. apply ok_inj in H. subst b. unfold write_bytes. destruct o as [c|]; cbn [olen].
    + rewrite zlen_app, be_bytes_zlen. pose proof (zlen_nonneg c). lia.
    + rewrite be_bytes_zlen. lia.
  - destruct o as [c|]; [|discriminate]. destruct (65535 <? zlen c); [discriminate|]. intro H. apply ok_inj in H. subst b.
    unfold write_short_bytes. cbn [olen]. rewrite zlen_app, be_bytes_zlen. pose proof (zlen_nonneg c). lia.
Qed.

Lemma read_write_elem v o b r : write_elem v o = OK b -> olen o < 2 ^ 31 -> read_elem v (b ++ r) = OK (o, r).
Proof.
  unfold write_elem, read_elem. destruct (uses4 v).
  - intros H Hl. apply ok_inj in H. subst b. apply read_write_bytes. exact Hl.
  - destruct o as [c|]; [|discriminate]. destruct (Z.ltb_spec 65535 (zlen c)); [discriminate|]. intros H0 _. apply ok_inj in H0. subst b.
    apply read_write_short_bytes. lia.
Qed.

Lemma read_write_size v n c r : writeCollectionSize v n = OK c -> readCollectionSize v (c ++ r) = OK (n, r) /\ 0 <= n /\ 2 <= zlen c.
Proof.
  unfold writeCollectionSize, readCollectionSize. destruct (uses4 v).
  - destruct (Z.ltb_spec 2147483647 n); [discriminate|]. destruct (Z.ltb_spec n 0); [discriminate|].
    intro H1. apply ok_inj in H1. subst c. change (2 ^ 31) with 2147483648 in *.
    rewrite wrap_i32_small by (change (2 ^ 31) with 2147483648; lia).
    rewrite read_int_be by (apply in_i32_of_len; change (2 ^ 31) with 2147483648; lia). rewrite be_bytes_zlen. repeat split; lia.
  - destruct (Z.ltb_spec 65535 n); [discriminate|]. destruct (Z.ltb_spec n 0); [discriminate|].
    intro H1. apply ok_inj in H1. subst c. rewrite read_short_be by lia. rewrite be_bytes_zlen. repeat split; lia.
Qed.

(* ---------------------------------------------------------------------------------------------- C11: round trip *)
Definition RT (v : Z) (t : cqltype) : Prop :=
  forall x o, wt t x = true -> m_encode v t x = OK o -> olen o < 2 ^ 31 -> m_decode v t o = OK x.

Lemma enc_elems_len v enc xs body : enc_elems v enc xs = OK body -> 2 * zlen xs <= zlen body.
Proof.
  revert body. induction xs as [|x r IH]; intros body H; cbn [enc_elems] in H.
  - apply ok_inj in H. subst. cbn. lia.
  - apply bindo_ok in H. destruct H as (e & _ & H). apply bindo_ok in H. destruct H as (b & Hb & H).
    apply bindo_ok in H. destruct H as (rest & Hr & H). apply ok_inj in H. subst body.
    apply write_elem_len in Hb. specialize (IH rest Hr). rewrite zlen_app, zlen_cons. lia.
Qed.

Lemma dec_enc_elems v e : RT v e -> forall xs body, forallb (wt e) xs = true -> enc_elems v (m_encode v e) xs = OK body -> zlen body < 2 ^ 31 ->
  forall rest fuel, (List.length xs < fuel)%nat -> dec_elems v (m_decode v e) fuel (zlen xs) (body ++ rest) = OK (xs, rest).
Proof.
  intros IH xs. induction xs as [|x r IHr]; intros body Hwt H Hsz rest fuel Hf; cbn [enc_elems] in H.
  - apply ok_inj in H. subst body. destruct fuel; reflexivity.
  - cbn [forallb] in Hwt. apply andb_true_iff in Hwt. destruct Hwt as (Hx & Hr).
    apply bindo_ok in H. destruct H as (eo & He & H). apply bindo_ok in H. destruct H as (b & Hb & H).
    apply bindo_ok in H. destruct H as (rb & Hrb & H). apply ok_inj in H. subst body.
    rewrite zlen_app in Hsz. pose proof (write_elem_len v eo b Hb) as (Hb2 & Hol). pose proof (zlen_nonneg rb).
    destruct fuel as [|f]; [cbn in Hf; lia|]. cbn [dec_elems]. rewrite zlen_cons. pose proof (zlen_nonneg r).
    replace (1 + zlen r <=? 0) with false by lia. rewrite <- app_assoc.
    rewrite (read_write_elem v eo b _ Hb) by lia. cbn [bindo fst snd].
    rewrite (IH x eo Hx He) by lia. cbn [bindo]. replace (1 + zlen r - 1) with (zlen r) by lia.
    rewrite (IHr rb Hr Hrb) by (cbn in Hf; lia). reflexivity.
Qed.

Lemma enc_entries_len v ek ew kvs body : enc_entries v ek ew kvs = OK body -> 4 * zlen kvs <= zlen body.
Proof.
  revert body. induction kvs as [|[k w] r IH]; intros body H; cbn [enc_entries] in H.
  - apply ok_inj in H. subst. cbn. lia.
  - apply bindo_ok in H. destruct H as (e1 & _ & H). apply bindo_ok in H. destruct H as (e2 & _ & H).
    apply bindo_ok in H. destruct H as (b1 & Hb1 & H). apply bindo_ok in H. destruct H as (b2 & Hb2 & H).
    apply bindo_ok in H. destruct H as (rest & Hr & H). apply ok_inj in H. subst body.
    apply write_elem_len in Hb1. apply write_elem_len in Hb2. specialize (IH rest Hr). rewrite !zlen_app, zlen_cons. lia.
Qed.

Lemma dec_enc_entries v k w : RT v k -> RT v w -> forall kvs body,
  forallb (fun kv => wt k (fst kv) && wt w (snd kv)) kvs = true -> enc_entries v (m_encode v k) (m_encode v w) kvs = OK body -> zlen body < 2 ^ 31 ->
  forall rest fuel, (List.length kvs < fuel)%nat ->
  dec_entries v (m_decode v k) (m_decode v w) fuel (zlen kvs) (body ++ rest) = OK (kvs, rest).
Proof.
  intros IHk IHw kvs. induction kvs as [|[kk ww] r IHr]; intros body Hwt H Hsz rest fuel Hf; cbn [enc_entries] in H.
  - apply ok_inj in H. subst body. destruct fuel; reflexivity.
  - cbn [forallb fst snd] in Hwt. apply andb_true_iff in Hwt. destruct Hwt as (Hx & Hr). apply andb_true_iff in Hx. destruct Hx as (Hkk & Hww).
    apply bindo_ok in H. destruct H as (e1 & He1 & H). apply bindo_ok in H. destruct H as (e2 & He2 & H).
    apply bindo_ok in H. destruct H as (b1 & Hb1 & H). apply bindo_ok in H. destruct H as (b2 & Hb2 & H).
    apply bindo_ok in H. destruct H as (rb & Hrb & H). apply ok_inj in H. subst body.
    rewrite !zlen_app in Hsz. pose proof (write_elem_len v e1 b1 Hb1) as (? & ?). pose proof (write_elem_len v e2 b2 Hb2) as (? & ?). pose proof (zlen_nonneg rb).
    destruct fuel as [|f]; [cbn in Hf; lia|]. cbn [dec_entries]. rewrite zlen_cons. pose proof (zlen_nonneg r).
    replace (1 + zlen r <=? 0) with false by lia. rewrite <- !app_assoc.
    rewrite (read_write_elem v e1 b1 _ Hb1) by lia. cbn [bindo fst snd].
    rewrite (read_write_elem v e2 b2 _ Hb2) by lia. cbn [bindo fst snd].
    rewrite (IHk kk e1 Hkk He1) by lia. cbn [bindo]. rewrite (IHw ww e2 Hww He2) by lia. cbn [bindo].
    replace (1 + zlen r - 1) with (zlen r) by lia.
    rewrite (IHr rb Hr Hrb) by (cbn in Hf; lia). reflexivity.
Qed.

Lemma write_bytes_cons o r : exists h t, write_bytes o ++ r = h :: t.
Proof.
  unfold write_bytes. destruct o; [rewrite <- app_assoc|]; rewrite (be_bytes_cons 3); cbn [app]; eauto.
Qed.

Lemma dec_enc_fields v fs : Forall (RT v) fs -> forall xs body, wt_fields fs xs = true -> enc_fields (m_encode v) fs xs = OK body -> zlen body < 2 ^ 31 ->
  forall rest, dec_fields (m_decode v) fs (body ++ rest) = OK (xs, rest) /\ (rest = [] -> dec_fields_udt (m_decode v) fs body = OK (xs, [])) /\ 4 * Z.of_nat (List.length fs) <= zlen body.
Proof.
  intro IH. induction IH as [|f fs' Hf Hfs IHfs]; intros xs body Hwt H Hsz rest.
  - destruct xs; [|discriminate]. cbn in H. apply ok_inj in H. subst body. cbn. repeat split; auto. lia.
  - destruct xs as [|x xs']; [discriminate|]. cbn [wt_fields] in Hwt. apply andb_true_iff in Hwt. destruct Hwt as (Hx & Hr).
    cbn [enc_fields] in H. apply bindo_ok in H. destruct H as (eo & He & H). apply bindo_ok in H. destruct H as (rb & Hrb & H).
    apply ok_inj in H. subst body. rewrite zlen_app in Hsz. pose proof (zlen_nonneg rb).
    assert (Hol: olen eo <= zlen (write_bytes eo) /\ 4 <= zlen (write_bytes eo)).
    { unfold write_bytes. destruct eo as [c|]; cbn [olen]; [rewrite zlen_app|]; rewrite be_bytes_zlen; [pose proof (zlen_nonneg c)|]; lia. }
    destruct (IHfs xs' rb Hr Hrb ltac:(lia) rest) as (D1 & D2 & D3).
    split; [|split].
    + cbn [dec_fields]. rewrite <- app_assoc. rewrite read_write_bytes by lia. cbn [bindo fst snd].
      rewrite (Hf x eo Hx He) by lia. cbn [bindo]. rewrite D1. reflexivity.
    + intro Hnil. cbn [dec_fields_udt].
      destruct (write_bytes_cons eo rb) as (h & t & Eht). rewrite Eht. rewrite <- Eht.
      rewrite read_write_bytes by lia. cbn [bindo fst snd].
      rewrite (Hf x eo Hx He) by lia. cbn [bindo].
      destruct (IHfs xs' rb Hr Hrb ltac:(lia) []) as (_ & D2' & _). rewrite (D2' eq_refl). reflexivity.
    + rewrite zlen_app. cbn [List.length]. lia.
Qed.

Lemma wt_not_null_list e x : wt (TList e) x = true -> x = VNull \/ exists xs, x = VList xs /\ forallb (wt e) xs = true.
Proof. destruct x; cbn; intro H; try discriminate; eauto. Qed.
Lemma wt_not_null_set e x : wt (TSet e) x = true -> x = VNull \/ exists xs, x = VList xs /\ forallb (wt e) xs = true.
Proof. destruct x; cbn; intro H; try discriminate; eauto. Qed.
Lemma wt_not_null_map k w x : wt (TMap k w) x = true ->
  x = VNull \/ exists kvs, x = VMap kvs /\ forallb (fun kv => wt k (fst kv) && wt w (snd kv)) kvs = true.
Proof. destruct x; cbn; intro H; try discriminate; eauto. Qed.
Lemma wt_not_null_tuple fs x : wt (TTuple fs) x = true -> x = VNull \/ exists xs, x = VTuple xs /\ wt_fields fs xs = true.
Proof. destruct x; intro H; try discriminate; eauto. Qed.
Lemma wt_not_null_udt ns fs x : wt (TUdt ns fs) x = true -> x = VNull \/ exists xs, x = VUdt xs /\ wt_fields fs xs = true.
Proof. destruct x; intro H; try discriminate; eauto. Qed.

Lemma null_case v t o : m_encode v t VNull = OK o -> m_decode v t o = OK VNull.
Proof. rewrite m_encode_null. intro H. apply ok_inj in H. subst o. apply m_decode_none. Qed.

Lemma rt_collection v e (mk : cqltype -> cqltype) :
  (forall xs, m_encode v (mk e) (VList xs) = (c <-! writeCollectionSize v (zlen xs); b <-! enc_elems v (m_encode v e) xs; OK (Some (c ++ b)))) ->
  (forall b, m_decode v (mk e) (Some b) =
     if zlen b =? 0 then OK VNull else
       (r <-! readCollectionSize v b; let (size, rest) := r in
        if size <? 0 then ERR else (es <-! dec_elems v (m_decode v e) (S (List.length rest)) size rest; xs <-! all_read es; OK (VList xs)))) ->
  RT v e -> forall xs o, forallb (wt e) xs = true -> m_encode v (mk e) (VList xs) = OK o -> olen o < 2 ^ 31 -> m_decode v (mk e) o = OK (VList xs).
Proof.
  intros Henc Hdec IH xs o Hwt H Hsz. rewrite Henc in H.
  apply bindo_ok in H. destruct H as (c & Hc & H). apply bindo_ok in H. destruct H as (body & Hb & H). apply ok_inj in H. subst o.
  cbn [olen] in Hsz. rewrite zlen_app in Hsz.
  destruct (read_write_size v (zlen xs) c body Hc) as (Hr & Hn & Hc2). pose proof (zlen_nonneg body).
  rewrite Hdec. rewrite zlen_app. replace (zlen c + zlen body =? 0) with false by lia.
  rewrite Hr. cbn [bindo]. replace (zlen xs <? 0) with false by lia.
  pose proof (enc_elems_len v _ xs body Hb) as Hlen.
  rewrite <- (app_nil_r body) at 2.
  rewrite (dec_enc_elems v e IH xs body Hwt Hb) by (unfold zlen in *; lia). reflexivity.
Qed.

Lemma cval_null_dec (x : cval) : {x = VNull} + {x <> VNull}.
Proof. destruct x; (left; reflexivity) || (right; discriminate). Qed.

Theorem round_trip v t : wf_type t = true -> RT v t.
Proof.
  induction t using cqltype_ind2; intro Hwf; cbn [wf_type] in Hwf.
  - (* scalar *)
    intros x o Hwt H Hsz. destruct (cval_null_dec x) as [->|Hnn].
    + apply null_case. exact H.
    + rewrite m_encode_scalar in H. cbn [m_decode].
      assert (Hs: wt_scalar s x = true) by (destruct x; try contradiction; exact Hwt).
      destruct (enc_scalar_spec s x Hs) as (b & Eb & _). rewrite Eb in H. apply ok_inj in H. subst o.
      apply dec_enc_scalar; assumption.
  - (* list *)
    intros x o Hwt H Hsz. destruct (wt_not_null_list _ _ Hwt) as [->|(xs & -> & Hxs)]; [apply null_case; exact H|].
    apply (rt_collection v t TList); auto.
  - (* set *)
    intros x o Hwt H Hsz. destruct (wt_not_null_set _ _ Hwt) as [->|(xs & -> & Hxs)]; [apply null_case; exact H|].
    apply (rt_collection v t TSet); auto.
  - (* map *)
    apply andb_true_iff in Hwf. destruct Hwf as (Hwk & Hww). specialize (IHt1 Hwk). specialize (IHt2 Hww).
    intros x o Hwt H Hsz. destruct (wt_not_null_map _ _ _ Hwt) as [->|(kvs & -> & Hkvs)]; [apply null_case; exact H|].
    change (m_encode v (TMap t1 t2) (VMap kvs)) with
      (c <-! writeCollectionSize v (zlen kvs); b <-! enc_entries v (m_encode v t1) (m_encode v t2) kvs; OK (Some (c ++ b))) in H.
    apply bindo_ok in H. destruct H as (c & Hc & H). apply bindo_ok in H. destruct H as (body & Hb & H). apply ok_inj in H. subst o.
    cbn [olen] in Hsz. rewrite zlen_app in Hsz.
    destruct (read_write_size v (zlen kvs) c body Hc) as (Hr & Hn & Hc2). pose proof (zlen_nonneg body).
    cbn [m_decode src_len src_bytes]. rewrite zlen_app. replace (zlen c + zlen body =? 0) with false by lia.
    rewrite Hr. cbn [bindo]. replace (zlen kvs <? 0) with false by lia.
    pose proof (enc_entries_len v _ _ kvs body Hb) as Hlen.
    rewrite <- (app_nil_r body) at 2.
    rewrite (dec_enc_entries v t1 t2 IHt1 IHt2 kvs body Hkvs Hb) by (unfold zlen in *; lia). reflexivity.
  - (* tuple *)
    apply andb_true_iff in Hwf. destruct Hwf as (Hne & Hall).
    assert (HF: Forall (RT v) fs).
    { rewrite forallb_forall in Hall. rewrite Forall_forall in *. intros f Hin. apply H; [exact Hin|apply Hall; exact Hin]. }
    intros x o Hwt HE Hsz. destruct (wt_not_null_tuple _ _ Hwt) as [->|(xs & -> & Hxs)]; [apply null_case; exact HE|].
    rewrite m_encode_tuple in HE. apply bindo_ok in HE. destruct HE as (body & Hb & HE). apply ok_inj in HE.
    destruct fs as [|f0 fs0]; [discriminate|]. subst o. cbn [olen] in Hsz.
    destruct (dec_enc_fields v _ HF xs body Hxs Hb Hsz []) as (D1 & _ & D3).
    rewrite m_decode_tuple. cbn [src_len src_bytes]. cbn [List.length] in D3. replace (zlen body =? 0) with false by lia.
    rewrite app_nil_r in D1. rewrite D1. reflexivity.
  - (* udt *)
    apply andb_true_iff in Hwf. destruct Hwf as (Hne & Hall). apply andb_true_iff in Hne. destruct Hne as (Hne & _).
    assert (HF: Forall (RT v) fs).
    { rewrite forallb_forall in Hall. rewrite Forall_forall in *. intros f Hin. apply H; [exact Hin|apply Hall; exact Hin]. }
    intros x o Hwt HE Hsz. destruct (wt_not_null_udt _ _ _ Hwt) as [->|(xs & -> & Hxs)]; [apply null_case; exact HE|].
    rewrite m_encode_udt in HE. apply bindo_ok in HE. destruct HE as (body & Hb & HE). apply ok_inj in HE.
    destruct fs as [|f0 fs0]; [discriminate|]. subst o. cbn [olen] in Hsz.
    destruct (dec_enc_fields v _ HF xs body Hxs Hb Hsz []) as (_ & D2 & D3).
    rewrite m_decode_udt. cbn [src_len src_bytes]. cbn [List.length] in D3. replace (zlen body =? 0) with false by lia.
    rewrite (D2 eq_refl). reflexivity.
Qed.

(* ---------------------------------------------------------------------------------------------- C12: the encoder emits the specification's bytes *)
Definition EC (v : Z) (t : cqltype) : Prop :=
  forall x r, wt t x = true -> spec_val v t x = Some r -> m_encode v t x = OK r.

Lemma spec_int_be n : fits_twos 4 n = true -> spec_int n = Some (be_bytes 4 n).
Proof. intro H. unfold spec_int. apply spec_twos_be; [lia|exact H]. Qed.

Lemma spec_int_some n c : spec_int n = Some c -> fits_twos 4 n = true /\ c = be_bytes 4 n.
Proof.
  unfold spec_int, spec_twos. destruct (fits_twos 4 n) eqn:F; [|discriminate]. intro H. split; [reflexivity|].
  pose proof (spec_int_be n F) as E. unfold spec_int, spec_twos in E. rewrite F in E. congruence.
Qed.
Lemma spec_short_some n c : spec_short n = Some c -> 0 <= n < 65536 /\ c = be_bytes 2 n.
Proof.
  unfold spec_short, spec_unsigned. destruct (fits_unsigned 2 n) eqn:F; [|discriminate]. intro H. apply some_inj in H. subst c.
  unfold fits_unsigned in F. change (256 ^ Z.of_nat 2) with 65536 in F. split; [lia|]. symmetry. apply be_bytes_spec_uint.
Qed.

Lemma fits4_range n : fits_twos 4 n = true <-> - 2 ^ 31 <= n < 2 ^ 31.
Proof. unfold fits_twos. change (8 * Z.of_nat 4 - 1) with 31. lia. Qed.

Lemma count_agree v n c : 0 <= n -> spec_count v n = Some c -> writeCollectionSize v n = OK c.
Proof.
  intros Hn. unfold spec_count, writeCollectionSize, int_sized_collections, uses4. destruct (3 <=? v).
  - replace (0 <=? n) with true by lia. intro H. apply spec_int_some in H. destruct H as (F & ->). apply fits4_range in F.
    change (2 ^ 31) with 2147483648 in F.
    replace (2147483647 <? n) with false by lia. replace (n <? 0) with false by lia.
    rewrite wrap_i32_small by (change (2 ^ 31) with 2147483648; lia). unfold wrap_u32. rewrite be_bytes_wrap_u by reflexivity. reflexivity.
  - intro H. apply spec_short_some in H. destruct H as (F & ->).
    replace (65535 <? n) with false by lia. replace (n <? 0) with false by lia.
    unfold wrap_u16. rewrite be_bytes_wrap_u by reflexivity. reflexivity.
Qed.

Lemma elem_agree v ro a : spec_elem v (Some ro) = Some a -> write_elem v ro = OK a.
Proof.
  unfold spec_elem, write_elem, int_sized_collections, uses4. cbn [obind]. destruct (3 <=? v).
  - unfold spec_bytes, write_bytes. destruct ro as [b|].
    + intro H. apply obind_some in H. destruct H as (n & Hn & H). apply some_inj in H. subst a.
      apply spec_int_some in Hn. destruct Hn as (F & ->). apply fits4_range in F. pose proof (zlen_nonneg b). unfold lenZ in *. fold (zlen b) in *.
      rewrite wrap_i32_small by lia. unfold wrap_u32. rewrite be_bytes_wrap_u by reflexivity. reflexivity.
    + intro H. apply spec_int_some in H. destruct H as (_ & ->). unfold wrap_u32. rewrite be_bytes_wrap_u by reflexivity. reflexivity.
  - unfold spec_short_bytes. destruct ro as [b|]; [|discriminate].
    intro H. apply obind_some in H. destruct H as (n & Hn & H). apply some_inj in H. subst a.
    apply spec_short_some in Hn. destruct Hn as (F & ->). unfold lenZ in *. fold (zlen b) in *.
    replace (65535 <? zlen b) with false by lia. unfold write_short_bytes, wrap_u16. rewrite be_bytes_wrap_u by reflexivity. reflexivity.
Qed.

Lemma spec_elem_some v o a : spec_elem v o = Some a -> exists ro, o = Some ro.
Proof. destruct o; [eauto|discriminate]. Qed.

Lemma oconcat_cons o l r : oconcat (o :: l) = Some r -> exists a b, o = Some a /\ oconcat l = Some b /\ r = a ++ b.
Proof.
  cbn [oconcat]. intro H. apply obind_some in H. destruct H as (a & Ha & H). apply obind_some in H. destruct H as (b & Hb & H).
  apply some_inj in H. eauto.
Qed.

Lemma ec_elems v e : EC v e -> forall xs body, forallb (wt e) xs = true ->
  oconcat (map (fun x => spec_elem v (spec_val v e x)) xs) = Some body -> enc_elems v (m_encode v e) xs = OK body.
Proof.
  intros IH xs. induction xs as [|x r IHr]; intros body Hwt H.
  - cbn in H. apply some_inj in H. subst. reflexivity.
  - cbn [forallb] in Hwt. apply andb_true_iff in Hwt. destruct Hwt as (Hx & Hr).
    cbn [map] in H. apply oconcat_cons in H. destruct H as (a & b & Ha & Hb & ->).
    destruct (spec_elem_some _ _ _ Ha) as (ro & Ero). rewrite Ero in Ha.
    cbn [enc_elems]. rewrite (IH x ro Hx Ero). cbn [bindo]. rewrite (elem_agree v ro a Ha). cbn [bindo].
    rewrite (IHr b Hr Hb). reflexivity.
Qed.

Lemma ec_entries v k w : EC v k -> EC v w -> forall kvs body, forallb (fun kv => wt k (fst kv) && wt w (snd kv)) kvs = true ->
  oconcat (map (fun kv => a <-? spec_elem v (spec_val v k (fst kv)); b <-? spec_elem v (spec_val v w (snd kv)); Some (a ++ b)) kvs) = Some body ->
  enc_entries v (m_encode v k) (m_encode v w) kvs = OK body.
Proof.
  intros IHk IHw kvs. induction kvs as [|[kk ww] r IHr]; intros body Hwt H.
  - cbn in H. apply some_inj in H. subst. reflexivity.
  - cbn [forallb fst snd] in Hwt. apply andb_true_iff in Hwt. destruct Hwt as (Hx & Hr). apply andb_true_iff in Hx. destruct Hx as (Hkk & Hww).
    cbn [map fst snd] in H. apply oconcat_cons in H. destruct H as (a & b & Ha & Hb & ->).
    apply obind_some in Ha. destruct Ha as (a1 & Ha1 & Ha). apply obind_some in Ha. destruct Ha as (a2 & Ha2 & Ha). apply some_inj in Ha. subst a.
    destruct (spec_elem_some _ _ _ Ha1) as (r1 & E1). rewrite E1 in Ha1.
    destruct (spec_elem_some _ _ _ Ha2) as (r2 & E2). rewrite E2 in Ha2.
    cbn [enc_entries]. rewrite (IHk kk r1 Hkk E1), (IHw ww r2 Hww E2). cbn [bindo].
    rewrite (elem_agree v r1 a1 Ha1), (elem_agree v r2 a2 Ha2). cbn [bindo].
    rewrite (IHr b Hr Hb). cbn [bindo]. rewrite <- app_assoc. reflexivity.
Qed.

Lemma spec_bytes_agree ro a : spec_bytes ro = Some a -> a = write_bytes ro.
Proof.
  unfold spec_bytes, write_bytes. destruct ro as [b|].
  - intro H. apply obind_some in H. destruct H as (n & Hn & H). apply some_inj in H. subst a.
    apply spec_int_some in Hn. destruct Hn as (F & ->). apply fits4_range in F. pose proof (zlen_nonneg b). unfold lenZ in *. fold (zlen b) in *.
    rewrite wrap_i32_small by lia. unfold wrap_u32. rewrite be_bytes_wrap_u by reflexivity. reflexivity.
  - intro H. apply spec_int_some in H. destruct H as (_ & ->). unfold wrap_u32. rewrite be_bytes_wrap_u by reflexivity. reflexivity.
Qed.

Lemma ec_fields v fs : Forall (EC v) fs -> forall xs body, wt_fields fs xs = true -> spec_fields v fs xs = Some body ->
  enc_fields (m_encode v) fs xs = OK body.
Proof.
  intro IH. induction IH as [|f fs' Hf Hfs IHfs]; intros xs body Hwt H.
  - destruct xs; [|discriminate]. cbn in H. apply some_inj in H. subst. reflexivity.
  - destruct xs as [|x xs']; [discriminate|]. cbn [wt_fields] in Hwt. apply andb_true_iff in Hwt. destruct Hwt as (Hx & Hr).
    cbn [spec_fields] in H. apply obind_some in H. destruct H as (a & Ha & H). apply obind_some in H. destruct H as (b & Hb & H). apply some_inj in H. subst body.
    apply obind_some in Ha. destruct Ha as (ro & Ero & Ha). apply spec_bytes_agree in Ha. subst a.
    cbn [enc_fields]. rewrite (Hf x ro Hx Ero). cbn [bindo]. rewrite (IHfs xs' b Hr Hb). reflexivity.
Qed.

Lemma spec_val_nonnull v t x r : spec_val v t x = Some r -> x <> VNull -> exists b, spec_ser v t x = Some b /\ r = Some b.
Proof.
  intros H Hn. unfold spec_val in H. destruct x; try contradiction; apply obind_some in H; destruct H as (bb & Hb & H); apply some_inj in H; eauto.
Qed.
Lemma spec_val_null v t r : spec_val v t VNull = Some r -> r = None.
Proof. cbn. intro H. congruence. Qed.

Theorem enc_complete v t x r : wf_type t = true -> wt t x = true -> spec_val v t x = Some r -> m_encode v t x = OK r.
Proof.
  intro Hwf. revert x r. change (EC v t). induction t using cqltype_ind2; cbn [wf_type] in Hwf; intros x r Hwt Hs.
  - destruct (cval_null_dec x) as [->|Hnn].
    + apply spec_val_null in Hs. subst. reflexivity.
    + destruct (spec_val_nonnull _ _ _ _ Hs Hnn) as (b & Hb & ->). rewrite m_encode_scalar.
      assert (Hsc: wt_scalar s x = true) by (destruct x; try contradiction; exact Hwt).
      destruct (enc_scalar_spec s x Hsc) as (b' & Eb & Sb). cbn [spec_ser] in Hb. rewrite Sb in Hb. apply some_inj in Hb. subst b'. exact Eb.
  - destruct (wt_not_null_list _ _ Hwt) as [->|(xs & -> & Hxs)]; [apply spec_val_null in Hs; subst; reflexivity|].
    destruct (spec_val_nonnull _ _ _ _ Hs ltac:(discriminate)) as (b & Hb & ->). rewrite spec_ser_list in Hb.
    apply obind_some in Hb. destruct Hb as (c & Hc & Hb). apply obind_some in Hb. destruct Hb as (body & Hbody & Hb). apply some_inj in Hb. subst b.
    change (m_encode v (TList t) (VList xs)) with (c <-! writeCollectionSize v (zlen xs); b <-! enc_elems v (m_encode v t) xs; OK (Some (c ++ b))).
    rewrite (count_agree v _ c (zlen_nonneg xs) Hc). cbn [bindo]. rewrite (ec_elems v t (IHt Hwf) xs body Hxs Hbody). reflexivity.
  - destruct (wt_not_null_set _ _ Hwt) as [->|(xs & -> & Hxs)]; [apply spec_val_null in Hs; subst; reflexivity|].
    destruct (spec_val_nonnull _ _ _ _ Hs ltac:(discriminate)) as (b & Hb & ->). rewrite spec_ser_set in Hb.
    apply obind_some in Hb. destruct Hb as (c & Hc & Hb). apply obind_some in Hb. destruct Hb as (body & Hbody & Hb). apply some_inj in Hb. subst b.
    change (m_encode v (TSet t) (VList xs)) with (c <-! writeCollectionSize v (zlen xs); b <-! enc_elems v (m_encode v t) xs; OK (Some (c ++ b))).
    rewrite (count_agree v _ c (zlen_nonneg xs) Hc). cbn [bindo]. rewrite (ec_elems v t (IHt Hwf) xs body Hxs Hbody). reflexivity.
  - apply andb_true_iff in Hwf. destruct Hwf as (Hwk & Hww).
    destruct (wt_not_null_map _ _ _ Hwt) as [->|(kvs & -> & Hkvs)]; [apply spec_val_null in Hs; subst; reflexivity|].
    destruct (spec_val_nonnull _ _ _ _ Hs ltac:(discriminate)) as (b & Hb & ->). rewrite spec_ser_map in Hb.
    apply obind_some in Hb. destruct Hb as (c & Hc & Hb). apply obind_some in Hb. destruct Hb as (body & Hbody & Hb). apply some_inj in Hb. subst b.
    change (m_encode v (TMap t1 t2) (VMap kvs)) with
      (c <-! writeCollectionSize v (zlen kvs); b <-! enc_entries v (m_encode v t1) (m_encode v t2) kvs; OK (Some (c ++ b))).
    rewrite (count_agree v _ c (zlen_nonneg kvs) Hc). cbn [bindo].
    rewrite (ec_entries v t1 t2 (IHt1 Hwk) (IHt2 Hww) kvs body Hkvs Hbody). reflexivity.
  - apply andb_true_iff in Hwf. destruct Hwf as (Hne & Hall).
    assert (HF: Forall (EC v) fs).
    { rewrite forallb_forall in Hall. rewrite Forall_forall in *. intros f Hin. apply H; [exact Hin|apply Hall; exact Hin]. }
    destruct (wt_not_null_tuple _ _ Hwt) as [->|(xs & -> & Hxs)]; [apply spec_val_null in Hs; subst; reflexivity|].
    destruct (spec_val_nonnull _ _ _ _ Hs ltac:(discriminate)) as (b & Hb & ->). rewrite spec_ser_tuple in Hb.
    rewrite m_encode_tuple. rewrite (ec_fields v fs HF xs b Hxs Hb). cbn [bindo]. destruct fs; [discriminate|reflexivity].
  - apply andb_true_iff in Hwf. destruct Hwf as (Hne & Hall). apply andb_true_iff in Hne. destruct Hne as (Hne & _).
    assert (HF: Forall (EC v) fs).
    { rewrite forallb_forall in Hall. rewrite Forall_forall in *. intros f Hin. apply H; [exact Hin|apply Hall; exact Hin]. }
    destruct (wt_not_null_udt _ _ _ Hwt) as [->|(xs & -> & Hxs)]; [apply spec_val_null in Hs; subst; reflexivity|].
    destruct (spec_val_nonnull _ _ _ _ Hs ltac:(discriminate)) as (b & Hb & ->). rewrite spec_ser_udt in Hb.
    rewrite m_encode_udt. rewrite (ec_fields v fs HF xs b Hxs Hb). cbn [bindo]. destruct fs; [discriminate|reflexivity].
Qed.

Theorem enc_err_inexpressible v t x : wf_type t = true -> wt t x = true -> m_encode v t x = ERR -> spec_val v t x = None.
Proof.
  intros Hwf Hwt HE. destruct (spec_val v t x) as [r|] eqn:S; [|reflexivity].
  rewrite (enc_complete v t x r Hwf Hwt S) in HE. discriminate.
Qed.

Theorem spec_bytes_decode v t x b :
  wf_type t = true -> wt t x = true -> spec_val v t x = Some (Some b) -> zlen b < 2 ^ 31 -> m_decode v t (Some b) = OK x.
Proof.
  intros Hwf Hwt S Hsz. apply (round_trip v t Hwf x (Some b) Hwt); [apply enc_complete; assumption|exact Hsz].
Qed.

(* ---------------------------------------------------------------------------------------------- C04 (datacodec half): no panic *)
Lemma take_np n src : take n src <> PANIC.
Proof. unfold take. destruct (zlen src <? n); discriminate. Qed.
Lemma read_int_np src : read_int src <> PANIC.
Proof. unfold read_int. apply bindo_np; [apply take_np|discriminate]. Qed.
Lemma read_short_np src : read_short src <> PANIC.
Proof. unfold read_short. apply bindo_np; [apply take_np|discriminate]. Qed.
Lemma read_bytes_np src : read_bytes src <> PANIC.
Proof.
  unfold read_bytes. apply bindo_np; [apply read_int_np|]. intros [n rest].
  destruct (n <? 0); [discriminate|]. destruct (n =? 0); [discriminate|]. apply bindo_np; [apply take_np|discriminate].
Qed.
Lemma read_short_bytes_np src : read_short_bytes src <> PANIC.
Proof.
  unfold read_short_bytes. apply bindo_np; [apply read_short_np|]. intros [n rest].
  destruct (n =? 0); [discriminate|]. apply bindo_np; [apply take_np|discriminate].
Qed.
Lemma read_elem_np v src : read_elem v src <> PANIC.
Proof. unfold read_elem. destruct (uses4 v); [apply read_bytes_np|apply read_short_bytes_np]. Qed.
Lemma all_read_np {A} (r : A * bytes) : all_read r <> PANIC.
Proof. unfold all_read. destruct (zlen (snd r) =? 0); discriminate. Qed.

Lemma dec_elems_np v dec : (forall src, dec src <> PANIC) -> forall fuel n src, dec_elems v dec fuel n src <> PANIC.
Proof.
  intros Hd fuel. induction fuel as [|f IH]; intros n src; cbn [dec_elems]; destruct (n <=? 0); try discriminate.
  apply bindo_np; [apply read_elem_np|intro r]. apply bindo_np; [apply Hd|intro x]. apply bindo_np; [apply IH|discriminate].
Qed.
Lemma dec_entries_np v dk dw : (forall src, dk src <> PANIC) -> (forall src, dw src <> PANIC) -> forall fuel n src, dec_entries v dk dw fuel n src <> PANIC.
Proof.
  intros Hk Hw fuel. induction fuel as [|f IH]; intros n src; cbn [dec_entries]; destruct (n <=? 0); try discriminate.
  apply bindo_np; [apply read_elem_np|intro rk]. apply bindo_np; [apply read_elem_np|intro rv].
  apply bindo_np; [apply Hk|intro k]. apply bindo_np; [apply Hw|intro w]. apply bindo_np; [apply IH|discriminate].
Qed.
Lemma dec_fields_np v fs : Forall (fun t => forall src, m_decode v t src <> PANIC) fs ->
  forall src, dec_fields (m_decode v) fs src <> PANIC /\ dec_fields_udt (m_decode v) fs src <> PANIC.
Proof.
  intro H. induction H as [|f fs' Hf Hfs IH]; intro src; cbn [dec_fields dec_fields_udt]; split; try discriminate.
  - apply bindo_np; [apply read_bytes_np|intro e]. apply bindo_np; [apply Hf|intro x]. apply bindo_np; [apply IH|discriminate].
  - apply bindo_np; [destruct src; [discriminate|apply read_bytes_np]|intro e]. apply bindo_np; [apply Hf|intro x]. apply bindo_np; [apply IH|discriminate].
Qed.

Theorem decode_no_panic v t : forall src, m_decode v t src <> PANIC.
Proof.
  induction t using cqltype_ind2; intro src.
  - cbn [m_decode]. apply dec_scalar_no_panic.
  - cbn [m_decode]. destruct (src_len src =? 0); [discriminate|]. apply bindo_np.
    + unfold readCollectionSize. destruct (uses4 v); [apply read_int_np|apply read_short_np].
    + intros [size rest]. destruct (size <? 0); [discriminate|]. apply bindo_np; [apply dec_elems_np; exact IHt|intro es].
      apply bindo_np; [apply all_read_np|discriminate].
  - cbn [m_decode]. destruct (src_len src =? 0); [discriminate|]. apply bindo_np.
    + unfold readCollectionSize. destruct (uses4 v); [apply read_int_np|apply read_short_np].
    + intros [size rest]. destruct (size <? 0); [discriminate|]. apply bindo_np; [apply dec_elems_np; exact IHt|intro es].
      apply bindo_np; [apply all_read_np|discriminate].
  - cbn [m_decode]. destruct (src_len src =? 0); [discriminate|]. apply bindo_np.
    + unfold readCollectionSize. destruct (uses4 v); [apply read_int_np|apply read_short_np].
    + intros [size rest]. destruct (size <? 0); [discriminate|]. apply bindo_np; [apply dec_entries_np; [exact IHt1|exact IHt2]|intro es].
      apply bindo_np; [apply all_read_np|discriminate].
  - rewrite m_decode_tuple. destruct (src_len src =? 0); [discriminate|].
    apply bindo_np; [apply (dec_fields_np v fs H)|intro r]. apply bindo_np; [apply all_read_np|discriminate].
  - rewrite m_decode_udt. destruct (src_len src =? 0); [discriminate|].
    apply bindo_np; [apply (dec_fields_np v fs H)|intro r]. apply bindo_np; [apply all_read_np|discriminate].
Qed.

(* ---------------------------------------------------------------------------------------------- C14 *)
Definition string_type (t : cqltype) : bool := match t with TScalar s => string_like s | _ => false end.

Theorem decode_empty_is_null v t : m_decode v t (Some []) = OK (if string_type t then VBytes [] else VNull).
Proof. destruct t; try reflexivity. cbn [m_decode string_type]. apply dec_scalar_empty. Qed.

(* v2 cannot express a NULL inside a collection: no encoding is produced *)
Definition NR (v : Z) (t : cqltype) : Prop := forall x, null_in_coll t x = true -> forall o, m_encode v t x <> OK o.

Lemma write_elem_v2_none v : uses4 v = false -> write_elem v None = ERR.
Proof. intro H. unfold write_elem. rewrite H. reflexivity. Qed.

Lemma nr_elems v e : uses4 v = false -> NR v e -> forall xs,
  existsb (fun x => match x with VNull => true | _ => false end || null_in_coll e x) xs = true -> forall body, enc_elems v (m_encode v e) xs <> OK body.
Proof.
  intros Hv IH xs. induction xs as [|x r IHr]; intros Hex body HE; [discriminate|].
  cbn [existsb] in Hex. cbn [enc_elems] in HE.
  apply bindo_ok in HE. destruct HE as (eo & He & HE). apply bindo_ok in HE. destruct HE as (b & Hb & HE).
  apply bindo_ok in HE. destruct HE as (rb & Hrb & _).
  apply orb_true_iff in Hex. destruct Hex as [Hx|Hr]; [|exact (IHr Hr rb Hrb)].
  apply orb_true_iff in Hx. destruct Hx as [Hx|Hx].
  - destruct x; try discriminate. rewrite m_encode_null in He. apply ok_inj in He. subst eo.
    rewrite (write_elem_v2_none v Hv) in Hb. discriminate.
  - exact (IH x Hx eo He).
Qed.

Lemma nr_fields v fs : Forall (NR v) fs -> forall xs,
  (fix fields (fs : list cqltype) (xs : list cval) {struct fs} : bool :=
     match fs, xs with f :: fs', x :: xs' => null_in_coll f x || fields fs' xs' | _, _ => false end) fs xs = true ->
  forall body, enc_fields (m_encode v) fs xs <> OK body.
Proof.
  intro H. induction H as [|f fs' Hf Hfs IH]; intros xs Hex body HE; [discriminate|].
  destruct xs as [|x xs']; [discriminate|]. cbn [enc_fields] in HE.
  apply bindo_ok in HE. destruct HE as (eo & He & HE). apply bindo_ok in HE. destruct HE as (rb & Hrb & _).
  apply orb_true_iff in Hex. destruct Hex as [Hx|Hr]; [exact (Hf x Hx eo He)|exact (IH xs' Hr rb Hrb)].
Qed.

Theorem v2_refuses_nulls v t : uses4 v = false -> NR v t.
Proof.
  intro Hv. induction t using cqltype_ind2; intros x Hn o HE.
  - destruct x; discriminate.
  - destruct x; try discriminate. cbn [null_in_coll] in Hn.
    change (m_encode v (TList t) (VList es)) with (c <-! writeCollectionSize v (zlen es); b <-! enc_elems v (m_encode v t) es; OK (Some (c ++ b))) in HE.
    apply bindo_ok in HE. destruct HE as (c & _ & HE). apply bindo_ok in HE. destruct HE as (b & Hb & _).
    exact (nr_elems v t Hv IHt es Hn b Hb).
  - destruct x; try discriminate. cbn [null_in_coll] in Hn.
    change (m_encode v (TSet t) (VList es)) with (c <-! writeCollectionSize v (zlen es); b <-! enc_elems v (m_encode v t) es; OK (Some (c ++ b))) in HE.
    apply bindo_ok in HE. destruct HE as (c & _ & HE). apply bindo_ok in HE. destruct HE as (b & Hb & _).
    exact (nr_elems v t Hv IHt es Hn b Hb).
  - destruct x; try discriminate. cbn [null_in_coll] in Hn.
    change (m_encode v (TMap t1 t2) (VMap kvs)) with
      (c <-! writeCollectionSize v (zlen kvs); b <-! enc_entries v (m_encode v t1) (m_encode v t2) kvs; OK (Some (c ++ b))) in HE.
    apply bindo_ok in HE. destruct HE as (c & _ & HE). apply bindo_ok in HE. destruct HE as (b & Hb & _).
    clear c o. revert b Hb. induction kvs as [|[kk ww] r IHr]; intros b Hb; [discriminate|].
    cbn [existsb fst snd] in Hn. cbn [enc_entries] in Hb.
    apply bindo_ok in Hb. destruct Hb as (e1 & He1 & Hb). apply bindo_ok in Hb. destruct Hb as (e2 & He2 & Hb).
    apply bindo_ok in Hb. destruct Hb as (b1 & Hb1 & Hb). apply bindo_ok in Hb. destruct Hb as (b2 & Hb2 & Hb).
    apply bindo_ok in Hb. destruct Hb as (rb & Hrb & _).
    apply orb_true_iff in Hn. destruct Hn as [Hx|Hr]; [|exact (IHr Hr rb Hrb)].
    rewrite !orb_true_iff in Hx. destruct Hx as [[[Hx|Hx]|Hx]|Hx].
    + destruct kk; try discriminate. rewrite m_encode_null in He1. apply ok_inj in He1. subst e1. rewrite (write_elem_v2_none v Hv) in Hb1. discriminate.
    + destruct ww; try discriminate. rewrite m_encode_null in He2. apply ok_inj in He2. subst e2. rewrite (write_elem_v2_none v Hv) in Hb2. discriminate.
    + exact (IHt1 kk Hx e1 He1).
    + exact (IHt2 ww Hx e2 He2).
  - destruct x; try discriminate. cbn [null_in_coll] in Hn. rewrite m_encode_tuple in HE.
    apply bindo_ok in HE. destruct HE as (b & Hb & _). exact (nr_fields v fs H es Hn b Hb).
  - destruct x; try discriminate. cbn [null_in_coll] in Hn. rewrite m_encode_udt in HE.
    apply bindo_ok in HE. destruct HE as (b & Hb & _). exact (nr_fields v fs H es Hn b Hb).
Qed.
