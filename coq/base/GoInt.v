(* Semantics given to Go's fixed-width integer operations by the translator (tools/go2coq)
   and by the hand-written models.  Every Go integer is an unbounded Z together with an
   explicit wrap at each operation whose Go result type is fixed-width. *)
From Coq Require Import ZArith List String Ascii Bool.
Import ListNotations.
Open Scope Z_scope.

Definition wrap_u (bits : Z) (x : Z) : Z := x mod 2 ^ bits.
Definition wrap_i (bits : Z) (x : Z) : Z := (x + 2 ^ (bits - 1)) mod 2 ^ bits - 2 ^ (bits - 1).

Definition wrap_u8  := wrap_u 8.   Definition wrap_i8  := wrap_i 8.
Definition wrap_u16 := wrap_u 16.  Definition wrap_i16 := wrap_i 16.
Definition wrap_u32 := wrap_u 32.  Definition wrap_i32 := wrap_i 32.
Definition wrap_u64 := wrap_u 64.  Definition wrap_i64 := wrap_i 64.

Definition in_u (bits : Z) (x : Z) : bool := (0 <=? x) && (x <? 2 ^ bits).
Definition in_i (bits : Z) (x : Z) : bool := (- 2 ^ (bits - 1) <=? x) && (x <? 2 ^ (bits - 1)).

(* Go's / and % truncate toward zero. *)
Definition go_quot (x y : Z) : Z := Z.quot x y.
Definition go_rem  (x y : Z) : Z := Z.rem x y.

(* Results of fallible conversions: the error's identity is not modelled, only its presence. *)
Inductive result (A : Type) : Type := Ok (a : A) | Err.
Arguments Ok {A} a.
Arguments Err {A}.

Definition is_ok {A} (r : result A) : bool := match r with Ok _ => true | Err => false end.

(* math/big: *big.Int is an unbounded Z *)
Definition big_IsInt64  (v : Z) : bool := in_i 64 v.
Definition big_IsUint64 (v : Z) : bool := in_u 64 v.
Definition big_Int64    (v : Z) : Z := wrap_i 64 v.
Definition big_Uint64   (v : Z) : Z := wrap_u 64 (Z.abs v).   (* low 64 bits of |v|, as math/big does *)

(* fmt.Sprintf: only the format string is kept (used to tell specific names from fallbacks) *)
Definition sprintf (fmt : string) : string := fmt.

Fixpoint str_contains_q (s : string) : bool :=
  match s with
  | EmptyString => false
  | String c r => if Ascii.eqb c "?"%char then true else str_contains_q r
  end.
