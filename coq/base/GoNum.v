(* Shared definitions for the numeric codecs of package datacodec (C13).
   - goval / godst: the tagged universe of Go values that the convertTo* / convertFrom* type switches mention
     (one constructor per Go type; pointers carry an option, None = nil pointer).
   - oracles: behaviour of the standard library that the translated code calls (strconv, math/big text and float
     conversions, IEEE narrowing/widening, time formatting).  It enters generated files as a Section variable
     [O : oracles]; theorems state the documented contract they need as a hypothesis ([oracle_contract]).
   - zrange / in_range: ranges of Go integer types, used by the generated helper table.
   - big-endian fixed-width bytes for the write*/read* functions.
   DEFINITIONS ONLY (lemmas are in proofs/NumericBase.v). *)
From Coq Require Import ZArith List String Bool.
From GCNP Require Import base.GoInt.
Import ListNotations.
Open Scope Z_scope.

(* ---------- representation choices (part of the translation table, DESIGN 2.1) ----------
   float32 / float64  : their IEEE-754 bit pattern as a Z (uint32 / uint64); arithmetic on them is oracle only
   ptr big.Float       : an opaque carrier [bigfloat] for the VALUE it holds; the precision a destination big.Float was
                         configured with before the call (SetPrec; 0 = not set) is an input of its own, carried by
                         the destination constructor [D_pbigfloat isnil prec] and handed to the SetFloat64 oracle
   time.Time           : the instant, as (unix seconds, nanoseconds within the second)
   time.Duration       : int64 nanoseconds *)
Definition bigfloat := (Z * Z)%type.
Definition gotime := (Z * Z)%type.

Inductive goval : Type :=
| G_int (v : Z) | G_int64 (v : Z) | G_int32 (v : Z) | G_int16 (v : Z) | G_int8 (v : Z)
| G_uint (v : Z) | G_uint64 (v : Z) | G_uint32 (v : Z) | G_uint16 (v : Z) | G_uint8 (v : Z)
| G_string (s : string)
| G_float32 (b : Z) | G_float64 (b : Z)
| G_bigint (v : Z) | G_bigfloat (f : bigfloat)
| G_time (t : gotime) | G_duration (v : Z)
| G_pint (p : option Z) | G_pint64 (p : option Z) | G_pint32 (p : option Z) | G_pint16 (p : option Z) | G_pint8 (p : option Z)
| G_puint (p : option Z) | G_puint64 (p : option Z) | G_puint32 (p : option Z) | G_puint16 (p : option Z) | G_puint8 (p : option Z)
| G_pstring (p : option string)
| G_pfloat32 (p : option Z) | G_pfloat64 (p : option Z)
| G_pbigint (p : option Z) | G_pbigfloat (p : option bigfloat)
| G_ptime (p : option gotime) | G_pduration (p : option Z)
| G_nil                    (* untyped nil *)
| G_other.                 (* any Go type that no switch mentions *)

(* destinations: a pointer of each type ([true] = the pointer itself is nil).  A big.Float destination also carries the
   precision it has when the call starts (big.Float.Prec(): 0 for new(big.Float), 53 for big.NewFloat, or what SetPrec set):
   big.Float.SetFloat64 rounds to it. *)
Inductive godst : Type :=
| D_piface (isnil : bool)
| D_pint (isnil : bool) | D_pint64 (isnil : bool) | D_pint32 (isnil : bool) | D_pint16 (isnil : bool) | D_pint8 (isnil : bool)
| D_puint (isnil : bool) | D_puint64 (isnil : bool) | D_puint32 (isnil : bool) | D_puint16 (isnil : bool) | D_puint8 (isnil : bool)
| D_pstring (isnil : bool)
| D_pfloat32 (isnil : bool) | D_pfloat64 (isnil : bool)
| D_pbigint (isnil : bool) | D_pbigfloat (isnil : bool) (prec : Z)
| D_ptime (isnil : bool) | D_pduration (isnil : bool)
| D_other.

Record oracles : Type := {
  o_ParseInt      : string -> Z -> Z -> result Z;        (* strconv.ParseInt(s, base, bitSize) *)
  o_FormatInt     : Z -> Z -> string;                    (* strconv.FormatInt(v, base) *)
  o_BigSetString  : string -> Z -> (Z * bool);           (* new(big.Int).SetString(s, base) *)
  o_BigText       : Z -> Z -> string;                    (* big.Int Text(base) *)
  o_f64_to_f32    : Z -> Z;                              (* float32(x) for x float64: IEEE round to nearest even *)
  o_f32_to_f64    : Z -> Z;                              (* float64(x) for x float32: exact *)
  o_f64_eqb       : Z -> Z -> bool;                      (* == on float64 *)
  o_f64_isnan     : Z -> bool;                           (* math.IsNaN *)
  o_BigFloat_Float64    : bigfloat -> (Z * Z);           (* big.Float Float64() : value bits, accuracy *)
  o_BigFloat_SetFloat64 : Z -> Z -> (bigfloat * Z);      (* z.SetFloat64(x) on a z of precision prec (1st argument), x not NaN:
                                                            value z holds afterwards, z.Acc() afterwards (-1 Below, 0 Exact, +1 Above) *)
  o_TimeParse     : string -> string -> result gotime;   (* time.Parse / ParseInLocation (layout, value) *)
  o_TimeFormat    : gotime -> string -> string           (* time.Time.Format *)
}.

(* ---------- small combinators the translator emits ---------- *)
Definition unopt {A} (d : A) (o : option A) : A := match o with Some v => v | None => d end.
Definition isNone {A} (o : option A) : bool := match o with Some _ => false | None => true end.
Definition res_split {A} (d : A) (r : result A) : A * result unit :=
  match r with Ok v => (v, Ok tt) | Err => (d, Err) end.
Definition ret_res {A} (err : result unit) (a : A) : result A :=
  match err with Ok _ => Ok a | Err => Err end.

(* ---------- integer ranges of Go types ---------- *)
Inductive zrange : Type := RInt (signed : bool) (bits : Z) | RAny.
Definition in_range (r : zrange) (x : Z) : bool :=
  match r with
  | RInt true b => in_i b x
  | RInt false b => in_u b x
  | RAny => true
  end.

(* ---------- time.Time as an instant ---------- *)
Definition time_sec (t : gotime) : Z := fst t.
Definition time_nsec (t : gotime) : Z := snd t.
(* time.Unix(sec, nsec): nsec outside [0, 1e9) is normalised into the seconds *)
Definition time_Unix (s n : Z) : gotime := (s + n / 1000000000, n mod 1000000000).
(* time.Time{} : January 1, year 1, 00:00:00 UTC *)
Definition time_zero : gotime := (-62135596800, 0).
Definition time_Hour (t : gotime) : Z := (fst t mod 86400) / 3600.
Definition time_Minute (t : gotime) : Z := (fst t mod 3600) / 60.
Definition time_Second (t : gotime) : Z := fst t mod 60.
(* time.Date(0, January, 1, 0,0,0,0, UTC).Add(d) *)
Definition time_year0 : gotime := (-62167219200, 0).
Definition time_Add (t : gotime) (d : Z) : gotime := time_Unix (fst t) (snd t + d).

(* ---------- fixed-width big-endian bytes ---------- *)
Fixpoint be_bytes (n : nat) (x : Z) : list Z :=
  match n with
  | O => []
  | S k => (x / 2 ^ (8 * Z.of_nat k)) mod 256 :: be_bytes k x
  end.
Fixpoint be_value (l : list Z) : Z :=
  match l with
  | [] => 0
  | b :: r => b * 2 ^ (8 * Z.of_nat (List.length r)) + be_value r
  end.
Definition make_bytes (n : Z) : list Z := repeat 0 (Z.to_nat n).
(* binary.BigEndian.PutUintN(dest, x): overwrites the first N/8 bytes of dest *)
Definition put_be (n : nat) (dest : list Z) (x : Z) : list Z := be_bytes n x ++ skipn n dest.
(* binary.BigEndian.UintN(src): reads the first N/8 bytes *)
Definition get_be (n : nat) (src : list Z) : Z := be_value (firstn n src).
Definition nth_Z (l : list Z) (i : Z) : Z := nth (Z.to_nat i) l 0.
Definition len_Z {A} (l : list A) : Z := Z.of_nat (List.length l).

(* ---------- what a Go value denotes ---------- *)
(* payload within the range of its Go type *)
Definition opt_in (r : zrange) (p : option Z) : bool := match p with Some v => in_range r v | None => true end.
Definition gv_wf (g : goval) : bool :=
  match g with
  | G_int v | G_int64 v | G_duration v => in_i 64 v
  | G_int32 v => in_i 32 v | G_int16 v => in_i 16 v | G_int8 v => in_i 8 v
  | G_uint v | G_uint64 v | G_float64 v => in_u 64 v
  | G_uint32 v | G_float32 v => in_u 32 v | G_uint16 v => in_u 16 v | G_uint8 v => in_u 8 v
  | G_pint p | G_pint64 p | G_pduration p => opt_in (RInt true 64) p
  | G_pint32 p => opt_in (RInt true 32) p | G_pint16 p => opt_in (RInt true 16) p | G_pint8 p => opt_in (RInt true 8) p
  | G_puint p | G_puint64 p | G_pfloat64 p => opt_in (RInt false 64) p
  | G_puint32 p | G_pfloat32 p => opt_in (RInt false 32) p | G_puint16 p => opt_in (RInt false 16) p
  | G_puint8 p => opt_in (RInt false 8) p
  | _ => true
  end.

(* nil pointers and the untyped nil *)
Definition gv_isnil (g : goval) : bool :=
  match g with
  | G_pint p | G_pint64 p | G_pint32 p | G_pint16 p | G_pint8 p
  | G_puint p | G_puint64 p | G_puint32 p | G_puint16 p | G_puint8 p
  | G_pfloat32 p | G_pfloat64 p | G_pbigint p | G_pduration p => isNone p
  | G_pstring p => isNone p
  | G_pbigfloat p => isNone p
  | G_ptime p => isNone p
  | G_nil => true
  | _ => false
  end.

(* the mathematical integer held by a value of an integer Go type (sized ints, big.Int and non-nil pointers to them) *)
Definition gv_int (g : goval) : option Z :=
  match g with
  | G_int v | G_int64 v | G_int32 v | G_int16 v | G_int8 v
  | G_uint v | G_uint64 v | G_uint32 v | G_uint16 v | G_uint8 v | G_bigint v => Some v
  | G_pint p | G_pint64 p | G_pint32 p | G_pint16 p | G_pint8 p
  | G_puint p | G_puint64 p | G_puint32 p | G_puint16 p | G_puint8 p | G_pbigint p => p
  | _ => None
  end.

(* the string held by a string-typed value *)
Definition gv_str (g : goval) : option string :=
  match g with G_string s => Some s | G_pstring p => p | _ => None end.

(* range of the integer Go type a destination pointer points to (None: not a sized integer) *)
Definition dst_range (d : godst) : option zrange :=
  match d with
  | D_pint _ | D_pint64 _ => Some (RInt true 64)
  | D_pint32 _ => Some (RInt true 32) | D_pint16 _ => Some (RInt true 16) | D_pint8 _ => Some (RInt true 8)
  | D_puint _ | D_puint64 _ => Some (RInt false 64)
  | D_puint32 _ => Some (RInt false 32) | D_puint16 _ => Some (RInt false 16) | D_puint8 _ => Some (RInt false 8)
  | D_pbigint _ => Some RAny
  | _ => None
  end.
Definition dst_isnil (d : godst) : bool :=
  match d with
  | D_piface b | D_pint b | D_pint64 b | D_pint32 b | D_pint16 b | D_pint8 b
  | D_puint b | D_puint64 b | D_puint32 b | D_puint16 b | D_puint8 b
  | D_pstring b | D_pfloat32 b | D_pfloat64 b | D_pbigint b | D_pbigfloat b _ | D_ptime b | D_pduration b => b
  | D_other => false
  end.
