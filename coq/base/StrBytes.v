(* Conversion between Go strings as the codec models carry them ([list Z], one element per byte) and Coq
   [string], the type of the go2coq-generated string constants and predicates of gen/Constants_gen.v
   (WriteTypeCas, EventTypeSchemaChange, CheckValidSchemaChangeTarget ...).
     bytes_of_string s : the bytes of a string constant (what  WriteString(string(constant))  writes)
     string_of_bytes b : the argument handed to a generated predicate; for a Go  switch / ==  on a
                         string-typed code:  String.eqb (string_of_bytes b) Constant.
   On real byte strings (every element in [0,256)) the two are inverse to each other; an element outside
   that range is reduced modulo 256 by [string_of_bytes] (negative: 0). *)
From Coq Require Import ZArith NArith List String Ascii Bool Lia.
From GCNP Require Import base.Bytes.
Import ListNotations.
Open Scope Z_scope.

Definition byte_of_ascii (a : ascii) : Z := Z.of_N (N_of_ascii a).
Definition ascii_of_byte (z : Z) : ascii := ascii_of_N (Z.to_N z).

Fixpoint bytes_of_string (s : string) : list Z :=
  match s with
  | EmptyString => []
  | String a r => byte_of_ascii a :: bytes_of_string r
  end.

Fixpoint string_of_bytes (b : list Z) : string :=
  match b with
  | [] => EmptyString
  | z :: r => String (ascii_of_byte z) (string_of_bytes r)
  end.

(* Go's  s == ""  *)
Definition bytes_is_empty (b : list Z) : bool := match b with [] => true | _ :: _ => false end.

(* ---------------- lemmas ---------------- *)

Lemma ascii_of_byte_of_ascii a : ascii_of_byte (byte_of_ascii a) = a.
Proof. unfold ascii_of_byte, byte_of_ascii. rewrite N2Z.id. apply ascii_N_embedding. Qed.

Lemma byte_of_ascii_range a : 0 <= byte_of_ascii a < 256.
Proof. unfold byte_of_ascii. pose proof (N_ascii_bounded a). lia. Qed.

Lemma byte_of_ascii_of_byte z : 0 <= z < 256 -> byte_of_ascii (ascii_of_byte z) = z.
Proof.
  intro H. unfold ascii_of_byte, byte_of_ascii. rewrite N_ascii_embedding by lia. lia.
Qed.

Lemma string_of_bytes_of_string s : string_of_bytes (bytes_of_string s) = s.
Proof. induction s as [|a s IH]; cbn [bytes_of_string string_of_bytes]; [reflexivity|]. rewrite ascii_of_byte_of_ascii, IH. reflexivity. Qed.

Lemma bytes_of_string_ok s : bytes_ok (bytes_of_string s).
Proof. induction s as [|a s IH]; cbn [bytes_of_string]; constructor; [apply byte_of_ascii_range|exact IH]. Qed.

Lemma bytes_of_string_of_bytes b : bytes_ok b -> bytes_of_string (string_of_bytes b) = b.
Proof.
  induction b as [|z b IH]; intro H; cbn [bytes_of_string string_of_bytes]; [reflexivity|].
  inversion H as [|? ? Hz Hb]; subst. rewrite byte_of_ascii_of_byte by exact Hz. rewrite IH by exact Hb. reflexivity.
Qed.

(* on byte strings, equality of the converted strings is equality *)
Lemma string_of_bytes_inj a b : bytes_ok a -> bytes_ok b -> string_of_bytes a = string_of_bytes b -> a = b.
Proof. intros Ha Hb H. rewrite <- (bytes_of_string_of_bytes a Ha), <- (bytes_of_string_of_bytes b Hb), H. reflexivity. Qed.

Lemma string_of_bytes_eq_const b s : bytes_ok b -> string_of_bytes b = s -> b = bytes_of_string s.
Proof. intros Hb H. rewrite <- H. symmetry. apply bytes_of_string_of_bytes. exact Hb. Qed.

Lemma string_of_bytes_length b : String.length (string_of_bytes b) = List.length b.
Proof. induction b as [|z b IH]; cbn [string_of_bytes String.length List.length]; [reflexivity|]. rewrite IH. reflexivity. Qed.

Lemma bytes_of_string_length s : List.length (bytes_of_string s) = String.length s.
Proof. induction s as [|a s IH]; cbn [bytes_of_string String.length List.length]; [reflexivity|]. rewrite IH. reflexivity. Qed.

Lemma string_of_bytes_zlen b s : string_of_bytes b = s -> zlen b = Z.of_nat (String.length s).
Proof. intros <-. unfold zlen. rewrite string_of_bytes_length. reflexivity. Qed.

Lemma bytes_of_string_zlen s : zlen (bytes_of_string s) = Z.of_nat (String.length s).
Proof. unfold zlen. rewrite bytes_of_string_length. reflexivity. Qed.

Lemma string_of_bytes_app a b : string_of_bytes (a ++ b) = (string_of_bytes a ++ string_of_bytes b)%string.
Proof. induction a as [|z a IH]; cbn [app string_of_bytes String.append]; [reflexivity|]. rewrite IH. reflexivity. Qed.

Lemma string_of_bytes_nil_iff b : string_of_bytes b = EmptyString <-> b = [].
Proof. destruct b; cbn [string_of_bytes]; split; intro H; try reflexivity; discriminate. Qed.

Lemma bytes_is_empty_iff b : bytes_is_empty b = true <-> b = [].
Proof. destruct b; cbn; split; intro H; try reflexivity; discriminate. Qed.
Lemma bytes_is_empty_zlen b : bytes_is_empty b = (zlen b =? 0).
Proof. destruct b; [reflexivity|]. rewrite zlen_cons. pose proof (zlen_nonneg b). cbn [bytes_is_empty]. symmetry. apply Z.eqb_neq. lia. Qed.

(* Go's  a == Constant  on strings, both ways of writing it agree on byte strings *)
Lemma string_eqb_const_iff b s : bytes_ok b -> (String.eqb (string_of_bytes b) s = true <-> b = bytes_of_string s).
Proof.
  intro Hb. rewrite String.eqb_eq. split.
  - apply string_of_bytes_eq_const. exact Hb.
  - intros ->. apply string_of_bytes_of_string.
Qed.
