(* Bytes are [list Z] (each element in [0,256) wherever an encoder produced it).
   Big-endian fixed-width encoding and decoding, with the lemmas every codec proof uses. *)
From Coq Require Import ZArith List Lia Bool.
From Coq Require Import ZifyBool ZifyNat.
Import ListNotations.
Open Scope Z_scope.

Definition byte_ok (b : Z) : Prop := 0 <= b < 256.
Definition bytes_ok (bs : list Z) : Prop := Forall byte_ok bs.
Definition byte_okb (b : Z) : bool := (0 <=? b) && (b <? 256).
Definition bytes_okb (bs : list Z) : bool := forallb byte_okb bs.

Definition zlen {A} (l : list A) : Z := Z.of_nat (length l).

(* n-byte big-endian representation of x mod 256^n *)
Fixpoint be_bytes (n : nat) (x : Z) : list Z :=
  match n with
  | O => []
  | S k => be_bytes k (x / 256) ++ [x mod 256]
  end.

(* value of a big-endian byte string *)
Definition be_val (bs : list Z) : Z := fold_left (fun acc b => acc * 256 + b) bs 0.

(* little-endian, used by the segment layer *)
Fixpoint le_bytes (n : nat) (x : Z) : list Z :=
  match n with
  | O => []
  | S k => (x mod 256) :: le_bytes k (x / 256)
  end.
Fixpoint le_val (bs : list Z) : Z :=
  match bs with
  | [] => 0
  | b :: r => b + 256 * le_val r
  end.

Lemma zlen_app {A} (a b : list A) : zlen (a ++ b) = zlen a + zlen b.
Proof. unfold zlen. rewrite app_length. lia. Qed.
Lemma zlen_nil {A} : zlen (@nil A) = 0. Proof. reflexivity. Qed.
Lemma zlen_cons {A} (x : A) l : zlen (x :: l) = 1 + zlen l.
Proof. unfold zlen. cbn [length]. lia. Qed.
Lemma zlen_nonneg {A} (l : list A) : 0 <= zlen l. Proof. unfold zlen. lia. Qed.

Lemma be_bytes_length n x : length (be_bytes n x) = n.
Proof. revert x; induction n as [|k IH]; intro x; cbn [be_bytes]; [reflexivity|]. rewrite app_length, IH. cbn. lia. Qed.

Lemma be_bytes_zlen n x : zlen (be_bytes n x) = Z.of_nat n.
Proof. unfold zlen. rewrite be_bytes_length. reflexivity. Qed.

Lemma be_bytes_ok n x : bytes_ok (be_bytes n x).
Proof.
  revert x; induction n as [|k IH]; intro x; cbn [be_bytes]; [constructor|].
  apply Forall_app; split; [apply IH|]. constructor; [|constructor].
  unfold byte_ok. pose proof (Z.mod_pos_bound x 256). lia.
Qed.

Lemma fold_be_app bs cs acc :
  fold_left (fun a b => a * 256 + b) (bs ++ cs) acc =
  fold_left (fun a b => a * 256 + b) cs (fold_left (fun a b => a * 256 + b) bs acc).
Proof. apply fold_left_app. Qed.

Lemma be_val_snoc bs b : be_val (bs ++ [b]) = be_val bs * 256 + b.
Proof. unfold be_val. rewrite fold_left_app. reflexivity. Qed.

Lemma be_val_be_bytes n x : be_val (be_bytes n x) = x mod 256 ^ Z.of_nat n.
Proof.
  revert x; induction n as [|k IH]; intro x.
  - cbn. rewrite Z.mod_1_r. reflexivity.
  - cbn [be_bytes]. rewrite be_val_snoc, IH.
    replace (Z.of_nat (S k)) with (Z.of_nat k + 1) by lia.
    rewrite Z.pow_add_r by lia. change (256 ^ 1) with 256.
    rewrite (Z.mul_comm (256 ^ Z.of_nat k) 256).
    rewrite Z.rem_mul_r by (try apply Z.pow_nonzero; lia). lia.
Qed.

Lemma be_val_range bs : bytes_ok bs -> 0 <= be_val bs < 256 ^ zlen bs.
Proof.
  induction bs as [|b bs IH] using rev_ind; intro H.
  - cbn. lia.
  - apply Forall_app in H. destruct H as [H1 H2]. inversion H2 as [|? ? Hb _]; subst.
    rewrite be_val_snoc, zlen_app. specialize (IH H1).
    change (zlen [b]) with 1. rewrite Z.pow_add_r by (try apply zlen_nonneg; lia).
    unfold byte_ok in Hb. change (256 ^ 1) with 256. nia.
Qed.

Lemma le_bytes_length n x : length (le_bytes n x) = n.
Proof. revert x; induction n as [|k IH]; intro x; cbn [le_bytes length]; [reflexivity|]. rewrite IH. reflexivity. Qed.

Lemma le_bytes_ok n x : bytes_ok (le_bytes n x).
Proof.
  revert x; induction n as [|k IH]; intro x; cbn [le_bytes]; constructor; [|apply IH].
  unfold byte_ok. pose proof (Z.mod_pos_bound x 256). lia.
Qed.

Lemma le_val_le_bytes n x : le_val (le_bytes n x) = x mod 256 ^ Z.of_nat n.
Proof.
  revert x; induction n as [|k IH]; intro x.
  - cbn. rewrite Z.mod_1_r. reflexivity.
  - cbn [le_bytes le_val]. rewrite IH.
    replace (Z.of_nat (S k)) with (1 + Z.of_nat k) by lia.
    rewrite Z.pow_add_r by lia. change (256 ^ 1) with 256.
    rewrite Z.rem_mul_r by (try apply Z.pow_nonzero; lia). lia.
Qed.

Lemma firstn_app_exact {A} (a b : list A) : firstn (length a) (a ++ b) = a.
Proof. rewrite firstn_app, Nat.sub_diag, firstn_all. cbn. apply app_nil_r. Qed.
Lemma skipn_app_exact {A} (a b : list A) : skipn (length a) (a ++ b) = b.
Proof. rewrite skipn_app, Nat.sub_diag, skipn_all. reflexivity. Qed.

Lemma bytes_okb_ok bs : bytes_okb bs = true <-> bytes_ok bs.
Proof.
  unfold bytes_okb, bytes_ok. rewrite forallb_forall, Forall_forall.
  split; intros H x Hx; specialize (H x Hx); unfold byte_okb, byte_ok in *; lia.
Qed.
