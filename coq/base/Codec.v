(* Reader / writer combinators shared by the hand-written codec models.
   Decoders:  R A = bytes -> dres A  with outcomes DOk value rest | DErr | DPanic | DFuel.
     DPanic is produced exactly where the Go code would panic (make with a negative length, nil
     dereference, index out of range).  DFuel signals that a modelling assumption was violated
     (an element decoder consumed no input inside a counted loop; nesting fuel exhausted): theorems
     show it is never returned.
   Encoders:  W = result bytes  (Ok bytes | Err). *)
From Coq Require Import ZArith List Lia Bool.
From Coq Require Import ZifyBool ZifyNat.
From GCNP Require Import base.GoInt base.Bytes.
Import ListNotations.
Open Scope Z_scope.

Inductive dres (A : Type) : Type :=
| DOk (a : A) (rest : list Z)
| DErr
| DPanic
| DFuel.
Arguments DOk {A} a rest.
Arguments DErr {A}.
Arguments DPanic {A}.
Arguments DFuel {A}.

Definition R (A : Type) : Type := list Z -> dres A.

Definition ret {A} (a : A) : R A := fun bs => DOk a bs.
Definition bind {A B} (r : R A) (k : A -> R B) : R B :=
  fun bs => match r bs with
            | DOk a rest => k a rest
            | DErr => DErr | DPanic => DPanic | DFuel => DFuel
            end.
Definition rfail {A} : R A := fun _ => DErr.
Definition rpanic {A} : R A := fun _ => DPanic.
Definition rfuel {A} : R A := fun _ => DFuel.
Definition rmap {A B} (f : A -> B) (r : R A) : R B := bind r (fun a => ret (f a)).
(* a Go-side check that returns an error when false *)
Definition rguard (b : bool) : R unit := if b then ret tt else rfail.

Notation "x <- r ;; k" := (bind r (fun x => k)) (at level 61, r at next level, right associativity).
Notation "r ;;; k" := (bind r (fun _ => k)) (at level 61, right associativity).

(* exactly n raw bytes: Go's  make([]byte, n); io.ReadFull  (n < 0 reaches make: panic) *)
Definition read_raw (n : Z) : R (list Z) :=
  fun bs => if n <? 0 then DPanic
            else if zlen bs <? n then DErr
            else DOk (firstn (Z.to_nat n) bs) (skipn (Z.to_nat n) bs).

(* fixed-width big-endian unsigned *)
Definition read_be (n : nat) : R Z :=
  fun bs => if (length bs <? n)%nat then DErr
            else DOk (be_val (firstn n bs)) (skipn n bs).

(* (sections keep the element codec outside the fix, so that callers may recurse through it) *)
Section ReadRep.
  Context {A : Type} (r : R A).
  Fixpoint read_rep_ (n : nat) : R (list A) :=
    match n with
    | O => ret []
    | S k => x <- r ;; xs <- read_rep_ k ;; ret (x :: xs)
    end.
End ReadRep.
Definition read_rep {A} (n : nat) (r : R A) : R (list A) := read_rep_ r n.

(* Go's  for i := 0; i < count; i++ { read element }  for element decoders that consume at least one
   byte when they succeed: at most [zlen bs] iterations can succeed, so the loop is unrolled
   min(count, remaining bytes) times and, if count is larger, one more element read must fail. *)
Definition read_count {A} (count : Z) (r : R A) : R (list A) :=
  fun bs =>
    if count <=? 0 then DOk [] bs
    else if count <=? zlen bs then read_rep (Z.to_nat count) r bs
    else match read_rep (length bs) r bs with
         | DOk _ rest => match r rest with
                         | DOk _ _ => DFuel          (* assumption violated: element of width 0 *)
                         | DErr => DErr | DPanic => DPanic | DFuel => DFuel
                         end
         | DErr => DErr | DPanic => DPanic | DFuel => DFuel
         end.

(* ---- writers ---- *)
Definition W := result (list Z).
Definition wbytes (bs : list Z) : W := Ok bs.
Definition wfail : W := Err.
Definition wapp (a b : W) : W :=
  match a with
  | Ok x => match b with Ok y => Ok (x ++ y) | Err => Err end
  | Err => Err
  end.
Notation "a +++ b" := (wapp a b) (at level 60, right associativity).
Definition wguard (b : bool) : W := if b then Ok [] else Err.
Section WList.
  Context {A : Type} (f : A -> W).
  Fixpoint wlist (l : list A) : W :=
    match l with
    | [] => Ok []
    | x :: r => f x +++ wlist r
    end.
End WList.

(* lengths (Go's LengthOf*/EncodedLength functions): result Z *)
Definition L := result Z.
Definition ladd (a b : L) : L :=
  match a with
  | Ok x => match b with Ok y => Ok (x + y) | Err => Err end
  | Err => Err
  end.
Notation "a +l+ b" := (ladd a b) (at level 60, right associativity).
Section LList.
  Context {A : Type} (f : A -> L).
  Fixpoint llist (l : list A) : L :=
    match l with
    | [] => Ok 0
    | x :: r => f x +l+ llist r
    end.
End LList.

(* ---------------- lemmas ---------------- *)

Lemma bind_ok {A B} (r : R A) (k : A -> R B) bs a rest :
  r bs = DOk a rest -> bind r k bs = k a rest.
Proof. intro H. unfold bind. rewrite H. reflexivity. Qed.

Lemma wapp_ok a b x : a +++ b = Ok x -> exists xa xb, a = Ok xa /\ b = Ok xb /\ x = xa ++ xb.
Proof.
  destruct a as [xa|]; [|discriminate]. destruct b as [xb|]; [|discriminate].
  cbn. intro H. injection H as <-. eauto.
Qed.

Lemma wapp_nil_l b : Ok [] +++ b = b.
Proof. destruct b; reflexivity. Qed.

Lemma ladd_ok a b x : a +l+ b = Ok x -> exists xa xb, a = Ok xa /\ b = Ok xb /\ x = xa + xb.
Proof.
  destruct a as [xa|]; [|discriminate]. destruct b as [xb|]; [|discriminate].
  cbn. intro H. injection H as <-. eauto.
Qed.

Lemma read_be_app n x rest : read_be n (be_bytes n x ++ rest) = DOk (x mod 256 ^ Z.of_nat n) rest.
Proof.
  unfold read_be. rewrite app_length, be_bytes_length.
  destruct (Nat.ltb_spec (n + length rest) n) as [H|H]; [lia|].
  pose proof (be_bytes_length n x) as Hl.
  rewrite <- Hl at 1 3. rewrite firstn_app_exact, skipn_app_exact, be_val_be_bytes. reflexivity.
Qed.

Lemma read_raw_app bs rest : read_raw (zlen bs) (bs ++ rest) = DOk bs rest.
Proof.
  unfold read_raw. pose proof (zlen_nonneg bs).
  destruct (Z.ltb_spec (zlen bs) 0); [lia|].
  rewrite zlen_app. pose proof (zlen_nonneg rest).
  destruct (Z.ltb_spec (zlen bs + zlen rest) (zlen bs)); [lia|].
  unfold zlen. rewrite Nat2Z.id, firstn_app_exact, skipn_app_exact. reflexivity.
Qed.

Lemma read_raw_app' n bs rest : n = zlen bs -> read_raw n (bs ++ rest) = DOk bs rest.
Proof. intros ->. apply read_raw_app. Qed.

(* outcomes of read_raw / read_be never include DFuel, and DPanic only for a negative length *)
Lemma read_raw_nopanic n bs : 0 <= n -> read_raw n bs <> DPanic.
Proof. intro H. unfold read_raw. destruct (Z.ltb_spec n 0); [lia|]. destruct (zlen bs <? n); discriminate. Qed.

Lemma read_raw_consumes n bs v rest : read_raw n bs = DOk v rest -> zlen bs = n + zlen rest /\ zlen v = n /\ bs = v ++ rest.
Proof.
  unfold read_raw. destruct (Z.ltb_spec n 0); [discriminate|]. destruct (Z.ltb_spec (zlen bs) n); [discriminate|].
  intro E. injection E as <- <-.
  assert (Hl : (Z.to_nat n <= length bs)%nat) by (unfold zlen in *; lia).
  repeat split.
  - unfold zlen in *. rewrite skipn_length. lia.
  - unfold zlen in *. rewrite firstn_length. lia.
  - symmetry. apply firstn_skipn.
Qed.

Lemma read_be_consumes n bs v rest : read_be n bs = DOk v rest -> length bs = (n + length rest)%nat.
Proof.
  unfold read_be. destruct (Nat.ltb_spec (length bs) n); [discriminate|].
  intro E. injection E as _ <-. rewrite skipn_length. lia.
Qed.

(* counted loops *)
Section ReadCount.
  Context {A B : Type} (enc : A -> list Z) (r : R B) (g : A -> B).

  Lemma read_rep_app (l : list A) rest :
    (forall x rest', In x l -> r (enc x ++ rest') = DOk (g x) rest') ->
    read_rep (length l) r (concat (map enc l) ++ rest) = DOk (map g l) rest.
  Proof.
    revert rest. induction l as [|x l IH]; intros rest H; unfold read_rep in *; cbn [length read_rep_ map concat].
    - reflexivity.
    - rewrite <- app_assoc. unfold bind at 1. rewrite H by (left; reflexivity).
      unfold bind at 1. rewrite IH by (intros; apply H; right; assumption). reflexivity.
  Qed.

  Lemma read_count_app (l : list A) rest :
    (forall x rest', In x l -> r (enc x ++ rest') = DOk (g x) rest') ->
    (forall x, In x l -> (1 <= length (enc x))%nat) ->
    read_count (zlen l) r (concat (map enc l) ++ rest) = DOk (map g l) rest.
  Proof.
    intros H Hne. unfold read_count.
    destruct (Z.leb_spec (zlen l) 0) as [Hz|Hz].
    - assert (l = []) as -> by (destruct l; [reflexivity|unfold zlen in Hz; cbn in Hz; lia]). reflexivity.
    - assert (Hlen : (length l <= length (concat (map enc l)))%nat).
      { clear -Hne. induction l as [|x l IH]; cbn [map concat length]; [lia|].
        rewrite app_length. specialize (Hne x (or_introl eq_refl)) as H1.
        assert (length l <= length (concat (map enc l)))%nat by (apply IH; intros; apply Hne; right; assumption). lia. }
      destruct (Z.leb_spec (zlen l) (zlen (concat (map enc l) ++ rest))) as [Hle|Hgt].
      + unfold zlen at 1. rewrite Nat2Z.id. apply read_rep_app. exact H.
      + exfalso. unfold zlen in Hgt. rewrite app_length in Hgt. lia.
  Qed.
End ReadCount.

Lemma wlist_ok {A} (f : A -> W) (enc : A -> list Z) l :
  (forall x, In x l -> f x = Ok (enc x)) -> wlist f l = Ok (concat (map enc l)).
Proof.
  induction l as [|x l IH]; intro H; cbn [wlist map concat]; [reflexivity|].
  rewrite H by (left; reflexivity). rewrite IH by (intros; apply H; right; assumption). reflexivity.
Qed.

Lemma wlist_inv {A} (f : A -> W) l b :
  wlist f l = Ok b -> exists enc : A -> list Z, (forall x, In x l -> f x = Ok (enc x)) /\ b = concat (map enc l).
Proof.
  intro H. exists (fun x => match f x with Ok y => y | Err => [] end).
  revert b H. induction l as [|x l IH]; intros b H; cbn [wlist] in H.
  - injection H as <-. split; [intros ? []|reflexivity].
  - apply wapp_ok in H. destruct H as (xa & xb & Hx & Hl & ->).
    destruct (IH xb Hl) as [IH1 IH2]. split.
    + intros y [<-|Hy]; [rewrite Hx; reflexivity|apply IH1; assumption].
    + cbn [map concat]. rewrite Hx, IH2. reflexivity.
Qed.
