(* Shapes of the tables that tools/go2coq emits for primitive/constants.go. *)
From Coq Require Import ZArith List String.
Import ListNotations.

Record int_code_type := {
  ict_name     : string;
  ict_bits     : Z;
  ict_declared : list (string * Z);          (* declared constants of this Go type, in source order *)
  ict_valid    : option (Z -> bool);         (* IsValid (IsSupported for versions), when the type has one *)
  ict_string   : option (Z -> string)        (* String(), when the type has one *)
}.

Record str_code_type := {
  sct_name     : string;
  sct_declared : list (string * string);
  sct_valid    : option (string -> bool)
}.
