(* C18 - Codecs can be shared by concurrent goroutines (PARTIAL).
   Subject: gen/Footprint_gen.v, the shared-write sets of the codec entry points, regenerated from the SSA form of /repo on
   every run (go2coq unit footprint), and the abstract machine of model/Footprint.v.
   Statements only; proofs are in proofs/FootprintProofs.v.

   Partial, by nature: the theorems below are about the model's operations.  That a Go entry point with an empty extracted
   write set IS such an operation rests on (a) the soundness of the footprint extraction (tools/go2coq/unit_footprint.go: taint
   over go/ssa, module-own function bodies only, a table of read-only standard-library contracts), (b) third-party callees
   (pierrec/lz4 uses a sync.Pool internally; golang/snappy) and (c) the Go memory model.  None of the three is proved; they are
   searched by the race-detector stress of tools/harness/cmd/conc. *)
From Coq Require Import List String Bool Arith.
From GCNP Require Import model.Footprint gen.Footprint_gen proofs.FootprintProofs.
Import ListNotations.

(* every encode / decode / convert / compress entry point of the current source has an empty shared-write set *)
Theorem C18_all_entrypoints_readonly : all_readonly fp_entrypoints = true.
Proof. exact fp_all_entrypoints_readonly. Qed.
Print Assumptions C18_all_entrypoints_readonly.

Theorem C18_each_entrypoint_writes_nothing_shared : forall name ws, In (name, ws) fp_entrypoints -> ws = [].
Proof. exact fp_each_entry_has_no_shared_write. Qed.
Print Assumptions C18_each_entrypoint_writes_nothing_shared.

(* For every machine, every number of goroutines, every schedule: if every operation's shared-write set is empty, the shared
   store never changes and each goroutine is exactly where its sequential run is after the same number of its own steps. *)
Theorem C18_readonly_interleaving_partial :
  forall (Loc Val St Res : Type) (loc_eqb : Loc -> Loc -> bool) (step : St -> @act Loc Val St Res) sch m ts,
  Forall (writes_within Loc Val St Res step []) ts ->
  fst (exec Loc Val St Res loc_eqb step sch m ts) = m /\
  forall i, nth_error (snd (exec Loc Val St Res loc_eqb step sch m ts)) i =
            option_map (solo Loc Val St Res loc_eqb step (count i sch) m) (nth_error ts i).
Proof. exact readonly_interleaving. Qed.
Print Assumptions C18_readonly_interleaving_partial.

(* each call's result equals its sequential result: if goroutine i alone returns r within n steps, it has returned r in every
   interleaving that gave it n steps ... *)
Theorem C18_concurrent_result_is_sequential_partial :
  forall (Loc Val St Res : Type) (loc_eqb : Loc -> Loc -> bool) (step : St -> @act Loc Val St Res) sch m ts i s n r,
  Forall (writes_within Loc Val St Res step []) ts ->
  nth_error ts i = Some s ->
  result Loc Val St Res step (solo Loc Val St Res loc_eqb step n m s) = Some r -> n <= count i sch ->
  option_map (result Loc Val St Res step) (nth_error (snd (exec Loc Val St Res loc_eqb step sch m ts)) i) = Some (Some r).
Proof. exact concurrent_result_is_sequential. Qed.
Print Assumptions C18_concurrent_result_is_sequential_partial.

(* ... and whatever it has returned in an interleaving is what it returns alone *)
Theorem C18_concurrent_result_only_sequential_partial :
  forall (Loc Val St Res : Type) (loc_eqb : Loc -> Loc -> bool) (step : St -> @act Loc Val St Res) sch m ts i s r,
  Forall (writes_within Loc Val St Res step []) ts ->
  nth_error ts i = Some s ->
  option_map (result Loc Val St Res step) (nth_error (snd (exec Loc Val St Res loc_eqb step sch m ts)) i) = Some (Some r) ->
  result Loc Val St Res step (solo Loc Val St Res loc_eqb step (count i sch) m s) = Some r.
Proof. exact concurrent_result_only_sequential. Qed.
Print Assumptions C18_concurrent_result_only_sequential_partial.

(* data-race freedom in the model: no two accesses of any interleaving conflict *)
Theorem C18_race_free_partial :
  forall (Loc Val St Res : Type) (loc_eqb : Loc -> Loc -> bool) (step : St -> @act Loc Val St Res) sch m ts,
  Forall (writes_within Loc Val St Res step []) ts ->
  race_free Loc loc_eqb (trace Loc Val St Res loc_eqb step sch m ts).
Proof. exact readonly_race_free. Qed.
Print Assumptions C18_race_free_partial.

(* ---- non-vacuity *)
(* the regenerated table is not empty: more than 100 entry points are covered *)
Example C18_ex_table_nonempty : 100 <= List.length fp_entrypoints.
Proof. exact fp_entrypoints_nonempty. Qed.

(* the setter is seen as a writer by the same extraction (it is not an encode/decode call) *)
Example C18_ex_setter_is_seen : all_readonly fp_setters = false /\ exists ws, In ("frame.(*codec).SetBodyCompressor"%string, ws) fp_setters.
Proof. split; [vm_compute; reflexivity|]. eexists. vm_compute. left. reflexivity. Qed.

(* three goroutines running a read-only operation (two shared reads, result = argument + both) under an interleaved schedule *)
Example C18_ex_hypothesis : Forall (writes_within nat nat ex_state nat ex_step []) ex_threads.
Proof. exact ex_threads_readonly. Qed.

Example C18_ex_results :
  map (result nat nat ex_state nat ex_step) (snd (exec nat nat ex_state nat Nat.eqb ex_step ex_schedule ex_store ex_threads)) =
  [Some 121; Some 122; Some 123].
Proof. vm_compute. reflexivity. Qed.

(* the hypothesis is needed: with a scratch location written during the call (the optimisation the property is about), an
   interleaving changes a result (3 instead of 2) and two accesses conflict *)
Example C18_ex_scratch_write_breaks :
  let ts := [S0 1; S0 2] in
  option_map (result nat nat ex_state nat ex_step) (nth_error (snd (exec nat nat ex_state nat Nat.eqb ex_step [0; 1; 0; 1] ex_store ts)) 0) = Some (Some 3) /\
  option_map (result nat nat ex_state nat ex_step) (nth_error (snd (exec nat nat ex_state nat Nat.eqb ex_step [0; 0; 1; 1] ex_store ts)) 0) = Some (Some 2) /\
  ~ race_free nat Nat.eqb (trace nat nat ex_state nat Nat.eqb ex_step [0; 1; 0; 1] ex_store ts).
Proof. exact ex_scratch_breaks. Qed.
