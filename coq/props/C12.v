(* C12 - CQL values are serialized exactly as the specification's formats prescribe.
   Subject: model/CqlWire.v + model/CqlContainers.v (hand-written model of /repo/datacodec, tied to the code by the
   correspondence run of tools/props/C12.py) against spec/SpecCql.v (transcription of the specification text).
   Statements only; proofs in proofs/Cql*.v. *)
From Coq Require Import ZArith List String Bool.
From GCNP Require Import base.GoInt base.Bytes spec.SpecCql model.CqlWire model.CqlContainers model.CqlTyping model.CqlCases
  proofs.CqlBytesLemmas proofs.CqlVarintProofs proofs.CqlVintProofs proofs.CqlScalarProofs proofs.CqlContainerProofs.
Import ListNotations.
Open Scope Z_scope.

(* ---- varint: for EVERY integer writeBigInt emits the specification's bytes ... *)
Theorem C12_varint_all_integers : forall z : Z, writeBigInt z = spec_varint z.
Proof. exact writeBigInt_spec. Qed.
Print Assumptions C12_varint_all_integers.

(* ... and the specification's length is the arithmetic minimum: n smallest with -2^(8n-1) <= z < 2^(8n-1) *)
Theorem C12_varint_length_minimal : forall z : Z,
  fits_twos (varint_len z) z = true /\ (1 <= varint_len z)%nat /\
  forall m, (1 <= m < varint_len z)%nat -> fits_twos m z = false.
Proof. exact varint_len_minimal. Qed.
Print Assumptions C12_varint_length_minimal.

(* the specification's own example table (5.24), checked by computation on the model and on the spec serializer *)
Example C12_varint_spec_table :
  forallb (fun p => zl_eqb (writeBigInt (fst p)) (snd p) && zl_eqb (spec_varint (fst p)) (snd p)) spec_varint_examples = true.
Proof. vm_compute. reflexivity. Qed.

(* ---- vints (duration): WriteUnsignedVint / WriteVint emit the [unsigned vint] / [vint] of section 3, for every uint64 / int64 *)
Theorem C12_unsigned_vint : forall u : Z, 0 <= u < 2 ^ 64 -> spec_uvint u = Some (writeUnsignedVint u).
Proof. exact writeUnsignedVint_spec. Qed.
Print Assumptions C12_unsigned_vint.

Theorem C12_vint : forall n : Z, in_i 64 n = true -> spec_vint n = Some (writeVint n).
Proof. exact writeVint_spec. Qed.
Print Assumptions C12_vint.

(* the code's zig-zag bit formula is the specification's arithmetic table *)
Theorem C12_zigzag : forall n : Z, in_i 64 n = true -> encodeZigZag n = zigzag n.
Proof. exact encodeZigZag_spec. Qed.
Print Assumptions C12_zigzag.

Example C12_vint_spec_example : writeUnsignedVint (fst spec_uvint_example) = snd spec_uvint_example.
Proof. vm_compute. reflexivity. Qed.

(* ---- every scalar type, every value of its canonical intermediate type: the encoder's bytes are the specification's *)
Theorem C12_scalars : forall s x, wt_scalar s x = true ->
  exists b, enc_scalar s x = OK (Some b) /\ spec_scalar s x = Some b.
Proof. exact enc_scalar_spec. Qed.
Print Assumptions C12_scalars.

Example C12_scalars_nonvacuous :
  wt_scalar SBigint (VInt (- 2 ^ 63)) = true /\ wt_scalar SDate (VInt (- 2 ^ 31)) = true /\
  wt_scalar SDuration (VDuration (- 2 ^ 31) (2 ^ 31 - 1) (- 2 ^ 63)) = true /\ wt_scalar SVarint (VInt (- 2 ^ 200)) = true /\
  enc_scalar SDate (VInt 0) = OK (Some [128; 0; 0; 0]).
Proof. vm_compute. repeat split; reflexivity. Qed.

(* ---- every type tree of any depth and width, every version: whatever the specification can express, the encoder emits,
        byte for byte (by induction on the type tree); consequently the encoder refuses only what the specification cannot express *)
Theorem C12_all_types : forall v t x r,
  wf_type t = true -> wt t x = true -> spec_val v t x = Some r -> m_encode v t x = OK r.
Proof. exact enc_complete. Qed.
Print Assumptions C12_all_types.

Theorem C12_refusals_are_inexpressible : forall v t x,
  wf_type t = true -> wt t x = true -> m_encode v t x = ERR -> spec_val v t x = None.
Proof. exact enc_err_inexpressible. Qed.
Print Assumptions C12_refusals_are_inexpressible.

(* a deep and wide instance: depth 6, a map of tuples of UDTs of lists, with nulls *)
Definition c12_type : cqltype :=
  TMap (TScalar SVarchar) (TTuple [TScalar SInt; TUdt ["a"%string; "b"%string] [TList (TSet (TScalar SVarint)); TScalar SDuration]; TScalar SDate]).
Definition c12_value : cval :=
  VMap [(VBytes [97], VTuple [VInt (-1); VUdt [VList [VList [VInt 128; VInt (-129)]; VNull]; VDuration 1 (-1) 256000]; VNull])].
Example C12_all_types_nonvacuous :
  wf_type c12_type = true /\ wt c12_type c12_value = true /\ tdepth c12_type = 6%nat /\
  (exists r, spec_val 4 c12_type c12_value = Some (Some r)) /\ (exists r, spec_val 2 (TList (TScalar SInt)) (VList [VInt 7]) = Some (Some r)).
Proof. vm_compute. repeat split; eexists; reflexivity. Qed.

(* ---- specification-formatted bytes decode to the value they denote *)
Theorem C12_spec_bytes_decode : forall v t x b,
  wf_type t = true -> wt t x = true -> spec_val v t x = Some (Some b) -> zlen b < 2 ^ 31 -> m_decode v t (Some b) = OK x.
Proof. exact spec_bytes_decode. Qed.
Print Assumptions C12_spec_bytes_decode.

(* forms a reader must accept although the encoder never emits them: any non-zero boolean byte (5.4), any negative [bytes]
   length (section 3), a UDT value with fewer fields than its type (section 6; rejected before fix e4e619c) *)
Example C12_spec_noncanonical_forms :
  m_decode 4 (TScalar SBoolean) (Some [2]) = OK (VBool true) /\
  m_decode 4 (TTuple [TScalar SInt; TScalar SInt]) (Some (hx "0000000400000001fffffffe")) = OK (VTuple [VInt 1; VNull]) /\
  m_decode 4 (TUdt ["a"; "b"; "c"]%string [TScalar SInt; TScalar SVarchar; TScalar SInt]) (Some (hx "00000004000000010000000161"))
    = OK (VUdt [VInt 1; VBytes [97]; VNull]) /\
  spec_udt_prefix 4 [TScalar SInt; TScalar SVarchar; TScalar SInt] [VInt 1; VBytes [97]; VNull] 2 = Some (hx "00000004000000010000000161").
Proof. vm_compute. repeat split; reflexivity. Qed.
