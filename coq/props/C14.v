(* C14 - NULL is preserved and distinguishable in CQL value codecs.
   Subject: model/CqlWire.v + model/CqlContainers.v (tied to /repo/datacodec by tools/props/C14.py).
   The per-Go-type part of the property (every accepted nil-able source type, every accepted destination type pre-filled with a
   non-zero value) is evaluated on the implementation by the check (harness `cql null`); the Gallina statements are at the level
   of abstract values.  Statements only; proofs in proofs/Cql*.v. *)
From Coq Require Import ZArith List String Bool.
From GCNP Require Import base.GoInt base.Bytes spec.SpecCql model.CqlWire model.CqlContainers model.CqlTyping model.CqlCases
  proofs.CqlBytesLemmas proofs.CqlScalarProofs proofs.CqlContainerProofs model.CqlGoVal model.CqlGoCases proofs.CqlGoValProofs.
Import ListNotations.
Open Scope Z_scope.

(* a nil source encodes to NULL without error: every type, every version *)
Theorem C14_nil_encodes_to_null : forall v t, m_encode v t VNull = OK None.
Proof. exact m_encode_null. Qed.
Print Assumptions C14_nil_encodes_to_null.

(* decoding NULL reports NULL without error: every type, every version *)
Theorem C14_null_decodes_to_null : forall v t, m_decode v t None = OK VNull.
Proof. exact m_decode_none. Qed.
Print Assumptions C14_null_decodes_to_null.

(* an empty (zero-length, non-nil) value is NULL for every type except the byte-string types, where it is the empty string / blob *)
Theorem C14_empty_decodes_to_null : forall v t, m_decode v t (Some []) = OK (if string_type t then VBytes [] else VNull).
Proof. exact decode_empty_is_null. Qed.
Print Assumptions C14_empty_decodes_to_null.

(* NULL elements at every position of collections / tuples / UDT fields survive the round trip (v3+: every such value has an encoding
   only in v3+, see C14_v2_refuses) and stay distinguishable from every non-null value *)
Theorem C14_nested_nulls_survive : forall v t x o,
  wf_type t = true -> wt t x = true -> m_encode v t x = OK o -> olen o < 2 ^ 31 -> m_decode v t o = OK x.
Proof. intros v t x o Hwf. exact (round_trip v t Hwf x o). Qed.
Print Assumptions C14_nested_nulls_survive.

(* protocol v2 cannot express a NULL at a collection element / map key / map value position, at any nesting depth: nothing is encoded *)
Theorem C14_v2_refuses : forall v t x, uses4 v = false -> null_in_coll t x = true -> forall o, m_encode v t x <> OK o.
Proof. intros v t x Hv. exact (v2_refuses_nulls v t Hv x). Qed.
Print Assumptions C14_v2_refuses.

(* ---- at the level of Go representations (model/CqlGoVal.v) *)
(* every nil a modelled source type has - untyped nil, nil pointer, nil slice, nil map, pointer to a nil slice / map, nil []byte-like
   leaf - encodes to NULL without error, for every codec that accepts the type *)
Theorem C14_rep_nil_sources : forall v t gt, accepts t gt = true -> Forall (fun src => g_encode v t src = OK None) (nil_forms gt).
Proof. exact nil_sources_encode_null. Qed.
Print Assumptions C14_rep_nil_sources.

(* decoding NULL into a destination of every modelled type, whatever it holds: wasNull, the zero value, no error *)
Theorem C14_rep_null_into_prefilled : forall v t gt d, accepts_dest t gt = true -> g_decode v t gt d None = OK (true, gzero gt).
Proof. exact null_into_prefilled. Qed.
Print Assumptions C14_rep_null_into_prefilled.

Theorem C14_rep_empty_into_prefilled : forall v t gt d,
  accepts_dest t gt = true -> string_type t = false -> g_decode v t gt d (Some []) = OK (true, gzero gt).
Proof. exact empty_into_prefilled. Qed.
Print Assumptions C14_rep_empty_into_prefilled.

(* whatever representation a NULL was encoded from, every accepted destination reports it *)
Theorem C14_rep_null_round_trip : forall v t gt g o gt' d,
  gabs t (Some (gt, g)) = Some VNull -> g_encode v t (Some (gt, g)) = OK o -> accepts_dest t gt' = true ->
  g_decode v t gt' d o = OK (true, gzero gt').
Proof. exact representations_null. Qed.
Print Assumptions C14_rep_null_round_trip.

Example C14_rep_nonvacuous :
  accepts (TList (TScalar SInt)) (GSlice (GPtr (GLeaf SInt LVal))) = true /\
  List.length (nil_forms (GSlice (GPtr (GLeaf SInt LVal)))) = 4%nat /\
  g_decode 4 (TMap (TScalar SVarchar) (TScalar SInt)) (GMap (GLeaf SVarchar LVal) (GLeaf SInt LVal)) (GVMap [(GVLeaf (VBytes [107]), GVLeaf (VInt 1))]) None = OK (true, GVNilMap) /\
  g_decode 4 (TTuple [TScalar SInt]) (GStruct [("A", "", GLeaf SInt LVal)]%string) (GVStruct [GVLeaf (VInt 9)]) None = OK (true, GVStruct [GVLeaf (VInt 0)]).
Proof. vm_compute. repeat split; reflexivity. Qed.

Definition c14_type : cqltype := TList (TTuple [TScalar SInt; TMap (TScalar SVarchar) (TUdt ["a"%string] [TSet (TScalar SBigint)])]).
Definition c14_value : cval :=
  VList [VNull; VTuple [VNull; VNull]; VTuple [VInt 0; VMap [(VNull, VNull); (VBytes [], VUdt [VNull]); (VBytes [107], VUdt [VList [VNull; VInt 0]])]]].
Example C14_nonvacuous :
  wf_type c14_type = true /\ wt c14_type c14_value = true /\ null_in_coll c14_type c14_value = true /\
  match m_encode 4 c14_type c14_value with OK (Some b) => match m_decode 4 c14_type (Some b) with OK y => cval_eq false y c14_value | _ => false end | _ => false end = true /\
  m_encode 2 c14_type c14_value = ERR /\ uses4 2 = false /\
  (* NULL and the zero value are different observations *)
  m_decode 4 (TScalar SInt) (Some [0; 0; 0; 0]) = OK (VInt 0) /\ m_decode 4 (TScalar SInt) None = OK VNull /\
  (* tuple / UDT fields may be NULL in every version (they are [bytes]) *)
  m_encode 2 (TTuple [TScalar SInt; TScalar SInt]) (VTuple [VNull; VInt 1]) = OK (Some (hx "ffffffff0000000400000001")).
Proof. vm_compute. repeat split; reflexivity. Qed.
