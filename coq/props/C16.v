(* C16 (logic part) - connections terminate cleanly on close and timeout.
   Subject: coq/model/Inflight.v.  Statements only; proofs in proofs/InflightC16.v.
   PARTIAL: "no goroutine survives", "blocked receivers return", "Close returns" are runtime facts of the Go scheduler
   and of TCP; they are exercised by the harness (scripted socket sessions, goroutine accounting), not proved. *)
From Coq Require Import ZArith List Bool.
From GCNP Require Import model.Inflight proofs.Inflight proofs.InflightInv proofs.InflightC09 proofs.InflightC10 proofs.InflightC16.
Import ListNotations.
Open Scope Z_scope.

(* one page, then silence, then Close: the former F11 history (double close of the request channel) *)
Definition ex16_ops : list op := [SendManaged; Deliver 1 false 7; Tick 100; Close].
Example ex16_reachable : Reachable 3 2 100 (run (init 3 2 100) ex16_ops).
Proof. now exists ex16_ops. Qed.

(* ---- no channel is ever closed twice: in every reachable state every request's channel was closed exactly
        once if it is done and never otherwise (a second close would be a Go panic) *)
Theorem C16_channel_closed_at_most_once_partial :
  forall n p t s, 1 <= n -> Reachable n p t s ->
  (forall r, In r (all_reqs s) -> chan_closed r = (if done r then 1 else 0)%nat) /\ panicked s = false.
Proof. exact channel_closed_once. Qed.
Print Assumptions C16_channel_closed_at_most_once_partial.
Example C16_former_F11_history_does_not_panic :
  panicked (run (init 3 2 100) ex16_ops) = false /\
  map (fun r => (done r, err r, chan_closed r)) (finished (run (init 3 2 100) ex16_ops)) = [(true, Some ETimeout, 1%nat)].
Proof. vm_compute. auto. Qed.

Theorem C16_done_iff_channel_closed :
  forall n p t s r, 1 <= n -> Reachable n p t s -> In r (all_reqs s) ->
  (done r = true <-> chan_closed r = 1%nat) /\ (err r <> None -> done r = true).
Proof. exact done_iff_channel_closed. Qed.
Print Assumptions C16_done_iff_channel_closed.

(* ---- Close completes every pending request: done, channel closed, non-nil error (handler-closed for the live
        ones), pages already delivered are kept; nothing stays registered *)
Theorem C16_close_completes_pending :
  forall s, Inv s -> closed s = false ->
  let s' := fst (step s Close) in
  closed s' = true /\ inflight s' = [] /\ pool s' = pool s /\
  (forall r, In r (all_reqs s') -> done r = true) /\
  (forall k r, In (k, r) (inflight s) ->
     exists r', In r' (finished s') /\ same_id r r' /\ queue r' = queue r /\ done r' = true /\ chan_closed r' = 1%nat /\
                err r' <> None /\ (done r = false -> err r' = Some EClosed)).
Proof. exact close_completes_pending. Qed.
Print Assumptions C16_close_completes_pending.
Example C16_close_completes_pending_ex :
  let s := run (init 3 2 100) [SendManaged; SendExplicit 9; Deliver 1 false 7] in
  closed s = false /\ keys (inflight s) = [1; 9] /\
  map (fun r => (sid r, done r, err r, queue r)) (finished (fst (step s Close))) =
    [(1, true, Some EClosed, [7]); (9, true, Some EClosed, [])].
Proof. vm_compute. auto. Qed.

(* ---- after Close: sends and deliveries are refused, Close is idempotent, and the handler stays closed *)
Theorem C16_after_close_refused :
  forall s, closed s = true ->
  (forall k, step s (Send k) = (s, ORefused EClosed)) /\
  (forall k, step s (CSend k) = (s, ORefused EClosed)) /\
  (forall k last tag, step s (Deliver k last tag) = (s, ODeliverErr EClosed)) /\
  step s Close = (s, OClosed).
Proof. exact after_close_everything_is_refused. Qed.
Print Assumptions C16_after_close_refused.

Theorem C16_closed_forever : forall s ops, closed s = true -> closed (run s ops) = true.
Proof. exact closed_forever. Qed.
Print Assumptions C16_closed_forever.

Theorem C16_closed_state_is_clean :
  forall n p t s, 1 <= n -> Reachable n p t s -> closed s = true ->
  inflight s = [] /\ forall r, In r (all_reqs s) -> done r = true /\ chan_closed r = 1%nat.
Proof. exact closed_state_is_clean. Qed.
Print Assumptions C16_closed_state_is_clean.
Example C16_closed_state_is_clean_ex : closed (run (init 3 2 100) ex16_ops) = true.
Proof. vm_compute. reflexivity. Qed.

(* ---- timeouts.  [TReachable]: reachable by a history whose ticks are non negative (time does not run backwards) *)
Theorem C16_live_request_has_timer :
  forall n p t s k r, 1 <= n -> 0 < t -> TReachable n p t s -> In (k, r) (inflight s) -> done r = false ->
  exists dl, deadline r = Some dl /\ now s < dl <= now s + t.
Proof. exact live_request_has_timer. Qed.
Print Assumptions C16_live_request_has_timer.

(* a request that sees no frame (and no Close) while `timeout` elapses fails with the timeout error, whatever else
   happens on the connection meanwhile *)
Theorem C16_timeout_fires_after_silence :
  forall n p t s k r ops, 1 <= n -> 0 < t -> TReachable n p t s -> In (k, r) (inflight s) -> done r = false ->
  Forall tick_ok ops -> Forall (quiet k) ops -> t <= elapsed ops ->
  exists r', lookup k (inflight (run s ops)) = Some r' /\ done r' = true /\ err r' = Some ETimeout.
Proof. exact timeout_fires_after_silence. Qed.
Print Assumptions C16_timeout_fires_after_silence.
Example C16_timeout_fires_after_silence_ex :
  let s := run (init 3 2 100) [SendManaged; Tick 30] in
  let ops := [Tick 40; SendManaged; Deliver 2 true 5; Tick 60] in
  TReachable 3 2 100 s /\ Forall tick_ok ops /\ Forall (quiet 1) ops /\ 100 <= elapsed ops /\
  exists r, In (1, r) (inflight s) /\ done r = false.
Proof.
  cbn zeta. split; [exists [SendManaged; Tick 30]; split; [repeat constructor; discriminate|reflexivity]|].
  split; [repeat constructor; discriminate|]. split; [repeat constructor; discriminate|].
  split; [vm_compute; discriminate|]. eexists. split; [vm_compute; left; reflexivity|reflexivity].
Qed.

(* not earlier: before its deadline a tick leaves the request untouched; the deadline is the time of acceptance
   (C16_accepted_request_is_armed) or of the last accepted page (C10_deliver_to_live_request) plus `timeout` *)
Theorem C16_no_timeout_before_deadline :
  forall s k r dl d, NoDup (keys (inflight s)) -> In (k, r) (inflight s) -> deadline r = Some dl -> now s + d < dl ->
  lookup k (inflight (fst (step s (Tick d)))) = Some r.
Proof. exact no_timeout_before_deadline. Qed.
Print Assumptions C16_no_timeout_before_deadline.

Theorem C16_accepted_request_is_armed :
  forall s k s' id, step s (Send k) = (s', OAccepted id) ->
  exists r, lookup id (inflight s') = Some r /\ done r = false /\ deadline r = Some (now s + cfgT s) /\ queue r = [] /\ err r = None.
Proof. exact accepted_request_is_armed. Qed.
Print Assumptions C16_accepted_request_is_armed.

(* while pages keep arriving less than `timeout` apart (and are read) the request never times out, however long the
   whole response takes *)
Theorem C16_no_timeout_while_pages_arrive :
  forall s k r l, Inv s -> closed s = false -> 0 < cfgP s -> lookup k (inflight s) = Some r -> done r = false -> pending r = 0 ->
  deadline r = Some (now s + cfgT s) -> Forall (fun dt => 0 <= fst dt < cfgT s) l ->
  exists r', lookup k (inflight (run s (paged k l))) = Some r' /\ done r' = false /\ err r' = err r /\
             queue r' = queue r ++ map snd l /\ pending r' = 0.
Proof. exact no_timeout_while_pages_arrive. Qed.
Print Assumptions C16_no_timeout_while_pages_arrive.
Example C16_no_timeout_while_pages_arrive_ex :
  let s := run (init 3 2 100) [SendManaged] in
  exists r, lookup 1 (inflight (run s (paged 1 [(99, 1); (99, 2); (99, 3); (99, 4)]))) = Some r /\
            done r = false /\ queue r = [1; 2; 3; 4] /\ now (run s (paged 1 [(99, 1); (99, 2); (99, 3); (99, 4)])) = 396.
Proof. eexists. vm_compute. repeat split; reflexivity. Qed.
