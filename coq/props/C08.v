(* C08 - Compression is lossless for every input (PARTIAL in an essential, named way).
   Subject: model/Lz4Wrap.v, the wrapper logic of compression/lz4/lz4.go and compression/snappy/snappy.go.
   The third-party block functions (pierrec/lz4 CompressBlock / UncompressBlock / CompressBlockBound, golang/snappy
   Encode / Decode) are NOT modelled: they are universally quantified below and constrained only by
   [lz4_block_contract] / [snappy_contract].  That the real libraries meet the contract is assumed and validated - not
   proved - by the check on every run (and is FALSE for the pinned pierrec/lz4 v4.0.3 on some inputs longer than 64 KiB:
   see known_findings.jsonl and [C08_lossless_refuted_when_block_codec_lossy]).
   Statements only; proofs in proofs/CompressionProofs.v. *)
From Coq Require Import ZArith NArith List Bool.
From GCNP Require Import base.GoInt base.Bytes gen.Crc_gen model.Crc model.Segment model.Lz4Wrap
  proofs.SegmentProofs proofs.CompressionProofs.
Import ListNotations.
Open Scope Z_scope.

(* raw segment-payload format: Decompress (Compress x) = x for EVERY byte string x, whatever the ratio; in particular the
   doubling loop over destination sizes 2n .. 256n always reaches a sufficient size *)
Theorem C08_lz4_raw_lossless_partial :
  forall compress_block uncompress_block bound, lz4_block_contract compress_block uncompress_block bound ->
  forall x, bytes_ok x ->
  exists c, lz4_compress compress_block bound x = Ok c /\ bytes_ok c /\ lz4_decompress uncompress_block c = Ok x.
Proof. exact lz4_roundtrip. Qed.
Print Assumptions C08_lz4_raw_lossless_partial.

(* length-prefixed frame-body format, including the empty-message convention (length 0, one byte, discarded);
   4 GiB and more cannot be represented in the 32-bit length and are excluded *)
Theorem C08_lz4_with_length_lossless_partial :
  forall compress_block uncompress_block bound, lz4_block_contract compress_block uncompress_block bound ->
  forall x, bytes_ok x -> zlen x < 4294967296 ->
  exists c, lz4_compress_with_length compress_block bound x = Ok c /\ bytes_ok c /\
            lz4_decompress_with_length uncompress_block c = Ok x.
Proof. exact lz4_with_length_roundtrip. Qed.
Print Assumptions C08_lz4_with_length_lossless_partial.

Theorem C08_snappy_lossless_partial :
  forall snappy_encode snappy_decode, snappy_contract snappy_encode snappy_decode ->
  forall x, bytes_ok x ->
  exists c, snappy_compress_with_length snappy_encode x = Ok c /\ snappy_decompress_with_length snappy_decode c = Ok x.
Proof. exact snappy_roundtrip. Qed.
Print Assumptions C08_snappy_lossless_partial.

(* a segment encoded with the LZ4 compressor decodes to the same payload, flag and lengths as one encoded without *)
Theorem C08_segment_with_lz4_partial :
  forall compress_block uncompress_block bound, lz4_block_contract compress_block uncompress_block bound ->
  (forall x, bytes_ok x -> zlen x <= 131071 -> forall c, compress_block x (bound (zlen x)) = Ok c -> zlen c < 2147483648) ->
  forall sc p rest, bytes_ok p -> Z.of_nat (length p) <= 131071 ->
  let k := lz4_payload_compressor compress_block uncompress_block bound in
  exists bs cp, cmp k p = Ok cp /\ encode_segment (Some k) sc p = Ok bs /\
    exists hd transmitted,
    decode_segment (Some k) (bs ++ rest) =
    Ok (mkSegment (mkHeader sc (Z.of_nat (length p)) (compressed_len_of p cp) (checksum_koopman hd 5)) p (checksum_ieee transmitted), rest).
Proof. exact segment_with_lz4_roundtrip. Qed.
Print Assumptions C08_segment_with_lz4_partial.

(* The contract is necessary, not a convenience: the wrapper hands on whatever the block decoder returns for the first
   destination size it accepts.  A block codec that is lossy on some input makes Decompress (Compress x) differ from x
   without any error.  (Witness on the implementation: harness class text, seed 33, 70000 bytes.) *)
Theorem C08_lossless_refuted_when_block_codec_lossy :
  forall uncompress_block c y, 2 <= zlen c -> uncompress_block c (2 * zlen c) = Ok y ->
  lz4_decompress uncompress_block c = Ok y.
Proof. exact lz4_wrapper_forwards_block_result. Qed.
Print Assumptions C08_lossless_refuted_when_block_codec_lossy.

(* THE CONTRACT IS REFUTED FOR THE REAL, PINNED LIBRARY - at the level of the harness, not as a Coq theorem (Coq knows
   nothing about pierrec/lz4).  Observation replayed on every run (known finding class=lz4-offset-65536 algorithm=lz4):
   for x = 'a'*65520 ++ 00 00 00 10 ++ 'a'*16 ++ 00 00 f2 11 00 00 00 00 03 'k' 's' '1' 00*6 (and e.g. harness class text,
   seed 33, 70000 bytes) pierrec/lz4 v4.0.3 CompressBlock stores a match distance of 65536 as offset 0 and UncompressBlock
   returns y <> x without error, for every destination size.  The theorem below states what such an observation means:
   any pair of block functions exhibiting it violates [lz4_block_contract], so the C08 theorems above do not apply to
   that library on that input class - the evidence says "contract validated empirically except for the known finding". *)
Theorem C08_contract_refuted_by_lossy_witness :
  forall (cb ub : list Z -> Z -> result (list Z)) (bound : Z -> Z) (x c y : list Z),
  bytes_ok x -> x <> [] -> cb x (bound (zlen x)) = Ok c -> ub c (zlen x) = Ok y -> y <> x ->
  ~ lz4_block_contract cb ub bound.
Proof. exact contract_refuted_by_lossy_witness. Qed.
Print Assumptions C08_contract_refuted_by_lossy_witness.

(* non-vacuity: a (trivial, storing) block codec satisfies the contract, so the theorems are not about nothing *)
Example C08_contract_satisfiable : lz4_block_contract store_compress store_uncompress (fun n => n + 1).
Proof. exact store_contract. Qed.
