(* C02 - Emitted bytes conform to the native-protocol specification of the version.
   Subject: the model of frame/{encode,decode}.go and message/*.go (model/Frame.v, model/Msg*.v, tied to /repo by the
   correspondence check) against the INDEPENDENT transcription of specs/native_protocol_v2..v5.spec and
   specs/dse_protocol_v1..v2.spec (spec/SpecNotation.v, spec/SpecMsg.v, spec/SpecFrame.v, written without looking at the Go
   code).  This file holds statements only; proofs are in proofs/SpecAgree*.v. *)
From Coq Require Import ZArith List Bool.
From GCNP Require Import spec.SpecClean base.GoInt base.Bytes base.Codec gen.Constants_gen spec.SpecTables model.Prim model.DataType
  model.MsgTypes model.Frame model.MsgRequests model.MsgCodec model.MsgValid model.FrameValid
  proofs.FrameProofs proofs.FrameFinal spec.SpecNotation spec.SpecMsg spec.SpecFrame
  proofs.SpecAgreeHeader proofs.SpecAgreeQuery proofs.SpecAgree.
Import ListNotations.
Open Scope Z_scope.

(* (1) header layout: version byte with direction bit, flags byte, stream id on 1 (v2) or 2 bytes, opcode, 4-byte length *)
Theorem C02_header_bytes :
  forall h, header_ok h ->
  hdr_bytes h = spec_header (h_Version h) (h_IsResponse h) (h_Flags h) (h_StreamId h) (h_OpCode h) (h_BodyLength h).
Proof. exact header_bytes_spec. Qed.
Print Assumptions C02_header_bytes.

(* (2) rejection: for ALL 2^16 (version byte, opcode) pairs and ANY flags / stream / length / following bytes: a header the
   specification does not allow (unsupported version number, unknown opcode, direction bit against the opcode's direction) is
   refused by DecodeHeader ... *)
Theorem C02_header_reject :
  forall vb op, 0 <= vb < 256 -> 0 <= op < 256 -> spec_header_acceptable_strict vb op = false ->
  forall fl sid len rest, length sid = sid_width vb -> length len = 4%nat ->
  decode_header (vb :: fl :: sid ++ op :: len ++ rest) = DErr.
Proof. exact header_reject. Qed.
Print Assumptions C02_header_reject.

(* ... and one it allows is decoded, with the version, direction, flags, stream id, opcode and length it carries *)
Theorem C02_header_accept :
  forall vb op, 0 <= vb < 256 -> 0 <= op < 256 -> spec_header_acceptable_strict vb op = true ->
  forall fl sid len rest, length sid = sid_width vb -> length len = 4%nat ->
  decode_header (vb :: fl :: sid ++ op :: len ++ rest) = DOk (decoded_header vb fl sid op len) rest.
Proof. exact header_accept. Qed.
Print Assumptions C02_header_accept.

(* an unsupported version number is refused whatever follows; the stream id width the decoder uses is the specification's *)
Theorem C02_header_unsupported :
  forall vb fl rest, is_ok (CheckSupportedProtocolVersion (Z.land vb 127)) = false -> decode_header (vb :: fl :: rest) = DErr.
Proof. exact decode_header_unsupported. Qed.
Print Assumptions C02_header_unsupported.
Theorem C02_stream_width :
  forall vb, 0 <= vb < 256 -> spec_is_version (vb mod 128) = true -> sid_width vb = (if vb mod 128 =? 2 then 1%nat else 2%nat).
Proof. exact sid_width_spec. Qed.
Print Assumptions C02_stream_width.

(* (3) message bodies, all 40 message kinds, versions 2, 3, 4, 5, DSE v1, DSE v2: the bytes the encoder emits for a
   version-valid message are exactly the bytes the specification of that version prescribes.
   [msg_clean] (proofs/SpecAgree.v) lists, per kind, the inputs that [message_okb] accepts and to which the specification of
   the version gives no layout (nothing is compared there): see notes/spec.md, Phase 2. *)
Theorem C02_body_bytes :
  forall v m b, supported v -> message_okb v m = true -> msg_clean v m = true ->
  enc_message v m = Ok b -> spec_body_bytes v m = Some b.
Proof. exact body_bytes_spec. Qed.
Print Assumptions C02_body_bytes.

(* (4) whole uncompressed frames: header, tracing id, warnings, custom payload, message *)
Theorem C02_frame_bytes :
  forall comp f bs, frame_okb f = true -> has (h_Flags (f_Header f)) HeaderFlagCompressed = false ->
  frame_clean f = true -> body_fits f ->
  encode_frame the_msg_codec comp f = Ok bs -> spec_frame_of f = Some bs.
Proof. exact frame_bytes_spec. Qed.
Print Assumptions C02_frame_bytes.

(* (5) specification-formatted bytes decode to the frame they denote, leaving the rest of the input *)
Theorem C02_decode_spec :
  forall comp f, frame_okb f = true -> has (h_Flags (f_Header f)) HeaderFlagCompressed = false ->
  frame_clean f = true -> body_fits f ->
  exists bs, spec_frame_of f = Some bs /\
    forall rest, decode_frame the_msg_codec comp (bs ++ rest)
                 = DOk (frame_normal f (zlen bs - header_length (h_Version (f_Header f)))) rest.
Proof. exact decode_spec. Qed.
Print Assumptions C02_decode_spec.

(* ---------------- non-vacuity: the hand-derived examples of spec/SpecMsg.v and spec/SpecFrame.v satisfy the hypotheses,
   and the MODEL ENCODER produces the same hand-derived bytes on them ---------------- *)
Definition mkframe (v : Z) (flags sid : Z) (tr : option bytes) (cp : list (bytes * option bytes)) (w : option (list bytes)) (m : Message) : Frame :=
  {| f_Header := {| h_IsResponse := msg_is_response m; h_Version := v; h_Flags := flags; h_StreamId := sid; h_OpCode := msg_opcode m;
                    h_BodyLength := 0 |};
     f_Body := {| bd_TracingId := tr; bd_CustomPayload := cp; bd_Warnings := w; bd_Message := m |} |}.
Definition both (f : Frame) (bs : bytes) : bool :=
  frame_okb f && frame_clean f &&
  match encode_frame the_msg_codec None f, spec_frame_of f with
  | Ok a, Some b => bytes_eqb a bs && bytes_eqb b bs
  | _, _ => false
  end.

(* OPTIONS v4 = 04 00 00 00 05 00 00 00 00; v2 = 02 00 01 05 00 00 00 00 *)
Example C02_ex_options : both (mkframe 4 0 0 None [] None M_Options) [4;0;0;0;5;0;0;0;0]
                         && both (mkframe 2 0 1 None [] None M_Options) [2;0;1;5;0;0;0;0] = true.
Proof. vm_compute. reflexivity. Qed.
(* QUERY "SELECT" ONE: v4 (flags byte) and v5 (flags int) *)
Example C02_ex_query : both (mkframe 4 0 1 None [] None xquery) [4;0;0;1;7;0;0;0;13; 0;0;0;6;83;69;76;69;67;84; 0;1; 0]
                       && both (mkframe 5 0 1 None [] None xquery) [5;0;0;1;7;0;0;0;16; 0;0;0;6;83;69;76;69;67;84; 0;1; 0;0;0;0] = true.
Proof. vm_compute. reflexivity. Qed.
(* QUERY v4 with values (01 02, null, not set), page size, paging state, serial consistency, timestamp: flags 0x3D *)
Example C02_ex_query_rich : both (mkframe 4 0 1 None [] None xq_rich)
  ([4;0;0;1;7;0;0;0;48] ++ [0;0;0;6;83;69;76;69;67;84; 0;1; 61; 0;3; 0;0;0;2;1;2; 255;255;255;255; 255;255;255;254; 0;0;0;100; 0;0;0;1;9; 0;8;
                            0;0;0;0;0;0;3;232]) = true.
Proof. vm_compute. reflexivity. Qed.
(* DSE v2 QUERY with keyspace and continuous paging: flags C0 00 00 84 *)
Example C02_ex_query_dse2 : both (mkframe 66 0 1 None [] None (xq_cp xks 3))
  ([66;0;0;1;7;0;0;0;36] ++ [0;0;0;6;83;69;76;69;67;84; 0;1; 192;0;0;132; 0;0;19;136; 0;2;107;115; 0;0;0;10; 0;0;0;2; 0;0;0;3]) = true.
Proof. vm_compute. reflexivity. Qed.
(* BATCH v3 with serial consistency and timestamp *)
Example C02_ex_batch : both (mkframe 3 0 2 None [] None (xbatch (Some 9) (Some 1000) [] None))
  ([3;0;0;2;13;0;0;0;41] ++ xbatch_common ++ [48; 0;9; 0;0;0;0;0;0;3;232]) = true.
Proof. vm_compute. reflexivity. Qed.
(* ERROR Unavailable v4 *)
Example C02_ex_unavailable : both (mkframe 4 0 1 None [] None (M_Unavailable {| un_ErrorMessage := xerr; un_Consistency := 4; un_Required := 3; un_Alive := 2 |}))
  [132;0;0;1;0;0;0;0;19; 0;0;16;0; 0;3;101;114;114; 0;4; 0;0;0;3; 0;0;0;2] = true.
Proof. vm_compute. reflexivity. Qed.
(* RESULT Rows, one int column, global tables spec, v4 *)
Example C02_ex_rows : both (mkframe 4 0 2 None [] None
    (M_RowsResult {| rr_Metadata := Some (xmd [xcol xks xtbl [99] (DT_Primitive 9)] 1 None None 0 false); rr_Data := [[Some [0;0;0;42]]] |}))
  [132;0;0;2;8;0;0;0;38; 0;0;0;2; 0;0;0;1; 0;0;0;1; 0;2;107;115; 0;3;116;98;108; 0;1;99; 0;9; 0;0;0;1; 0;0;0;4;0;0;0;42] = true.
Proof. vm_compute. reflexivity. Qed.
(* RESULT Prepared v5 with result metadata id and a partition key index *)
Example C02_ex_prepared : both (mkframe 5 0 2 None [] None (xprep (Some [7]) [0]))
  ([133;0;0;2;8;0;0;0;47] ++ [0;0;0;4; 0;2;202;254; 0;1;7; 0;0;0;1; 0;0;0;1; 0;0;0;1; 0;0; 0;2;107;115; 0;3;116;98;108; 0;1;99; 0;9; 0;0;0;4; 0;0;0;0]) = true.
Proof. vm_compute. reflexivity. Qed.
(* EVENT STATUS_CHANGE on stream -1: v2 (FF) and v3 (FF FF) *)
Example C02_ex_event : both (mkframe 2 0 (-1) None [] None (xstatus [127;0;0;1])) ([130;0;255;12;0;0;0;28] ++ xevent_body)
                       && both (mkframe 3 0 (-1) None [] None (xstatus [127;0;0;1])) ([131;0;255;255;12;0;0;0;28] ++ xevent_body) = true.
Proof. vm_compute. reflexivity. Qed.
(* response with tracing id, warnings AND custom payload (flags 0x0E): tracing id, warnings, custom payload, message *)
Example C02_ex_all_flags : both (mkframe 4 14 0 (Some xuuid) [([107], Some [1])] (Some [[119]]) M_VoidResult)
  ([132;14;0;0;8;0;0;0;35] ++ xuuid ++ [0;1; 0;1;119] ++ [0;1; 0;1;107; 0;0;0;1;1] ++ [0;0;0;1]) = true.
Proof. vm_compute. reflexivity. Qed.
(* DSE v2 REVISE_REQUEST *)
Example C02_ex_revise : both (mkframe 66 0 3 None [] None (M_Revise {| rv_RevisionType := 2; rv_TargetStreamId := 5; rv_NextPages := 10 |}))
  [66;0;0;3;255;0;0;0;12; 0;0;0;2; 0;0;0;5; 0;0;0;10] = true.
Proof. vm_compute. reflexivity. Qed.

(* the rejection clause is not vacuous: 65434 of the 65536 pairs are unacceptable, e.g. a READY marked as a request *)
Example C02_ex_reject : spec_header_acceptable_strict 4 2 = false /\ decode_header ([4; 0] ++ [0; 0] ++ 2 :: [0; 0; 0; 0] ++ []) = DErr.
Proof. split; vm_compute; reflexivity. Qed.
Example C02_ex_accept : spec_header_acceptable_strict 132 2 = true /\
  decode_header ([132; 0] ++ [0; 0] ++ 2 :: [0; 0; 0; 0] ++ [9]) =
  DOk {| h_IsResponse := true; h_Version := 4; h_Flags := 0; h_StreamId := 0; h_OpCode := 2; h_BodyLength := 0 |} [9].
Proof. split; vm_compute; reflexivity. Qed.
