(* C04 - Decoders never panic, fault or hang on arbitrary input bytes.
   Every modelled decoding entry point returns a value or an error for EVERY byte string: never DPanic (the model's
   image of a Go panic: make with a negative length, nil dereference, index out of range) and never DFuel (the model's
   image of unbounded recursion / a loop that makes no progress).  Termination itself is Gallina's totality.
   The bodies of the third-party decompressors are outside the model (partial; exercised by the malformed streams). *)
From Coq Require Import ZArith List Bool.
From GCNP Require Import model.Segment proofs.SegmentProofs model.CqlWire model.CqlContainers proofs.CqlContainerProofs.
From GCNP Require model.CqlGoVal proofs.CqlGoValProofs.
From GCNP Require Import base.GoInt base.Bytes base.Codec gen.Constants_gen model.Prim model.DataType model.MsgTypes
  model.Frame model.MsgCodec proofs.PrimTotal proofs.MsgCodecProofs proofs.FrameFinal proofs.MsgResultsDataType.
Import ListNotations.
Open Scope Z_scope.

(* frames, for every input, every version byte in it, and ANY decompressor function *)
Theorem C04_decode_frame_total : forall comp bs,
  decode_frame the_msg_codec comp bs <> DPanic /\ decode_frame the_msg_codec comp bs <> DFuel.
Proof. intros comp bs. exact (decode_frame_total comp bs). Qed.
Print Assumptions C04_decode_frame_total.

Theorem C04_decode_raw_frame_total : forall bs, decode_raw_frame bs <> DPanic /\ decode_raw_frame bs <> DFuel.
Proof. exact decode_raw_frame_total. Qed.
Print Assumptions C04_decode_raw_frame_total.

Theorem C04_decode_header_total : forall bs, decode_header bs <> DPanic /\ decode_header bs <> DFuel.
Proof. exact total_decode_header. Qed.
Print Assumptions C04_decode_header_total.

(* every message body decoder (all 17 opcodes, any other opcode is an error), every version *)
Theorem C04_message_decoders_total : forall v op bs, dec_message v op bs <> DPanic /\ dec_message v op bs <> DFuel.
Proof. exact message_decode_total. Qed.
Print Assumptions C04_message_decoders_total.

(* type descriptors: nesting consumes at least 2 bytes per level, so fuel = number of input bytes + 1 never runs out *)
Theorem C04_data_type_total : forall bs version,
  read_data_type (S (length bs)) version bs <> DPanic /\ read_data_type (S (length bs)) version bs <> DFuel.
Proof. exact read_data_type_total_S. Qed.
Print Assumptions C04_data_type_total.

(* primitive notations *)
Theorem C04_notations_total :
  total read_string /\ total read_long_string /\ total read_bytes /\ total read_short_bytes /\ total read_string_list /\
  total read_string_map /\ total read_string_multimap /\ total read_bytes_map /\ total read_inet /\ total read_uuid /\
  total read_reason_map.
Proof.
  exact (conj total_read_string (conj total_read_long_string (conj total_read_bytes (conj total_read_short_bytes
        (conj total_read_string_list (conj total_read_string_map (conj total_read_string_multimap (conj total_read_bytes_map
        (conj total_read_inet (conj total_read_uuid total_read_reason_map)))))))))).
Qed.
Print Assumptions C04_notations_total.

(* segments: the length handed to make() is within 0..131071 for every input, with and without compressor *)
Theorem C04_segment_lengths_in_range : forall (c : option Segment.compressor) bs h r, decode_segment_header c bs = Ok (h, r) ->
  0 <= uncompressed_len h <= 131071 /\ 0 <= compressed_len h <= 131071.
Proof. exact decoded_lengths_in_range. Qed.
Print Assumptions C04_segment_lengths_in_range.

(* CQL value decoders: every type tree, every version, every input (incl. NULL) *)
Theorem C04_cql_decode_no_panic : forall v t src, m_decode v t src <> PANIC.
Proof. exact decode_no_panic. Qed.
Print Assumptions C04_cql_decode_no_panic.

(* ... and into every TYPED Go destination of the modelled universe (slices, arrays, maps keyed by anything incl. interface{},
   structs, pointers, named and non-empty interface types), whatever the destination already holds *)
Theorem C04_cql_typed_decode_no_panic : forall v t gt d src, CqlGoVal.g_decode v t gt d src <> PANIC.
Proof. exact CqlGoValProofs.g_decode_no_panic. Qed.
Print Assumptions C04_cql_typed_decode_no_panic.

(* non-vacuity: inputs on which the real code used to panic are errors in the model of the fixed code *)
Example C04_nonvacuous :
  (* RESULT Rows with row count -1 *)
  (match decode_frame the_msg_codec None [132;0;0;1;8;0;0;0;16; 0;0;0;2; 0;0;0;4; 0;0;0;1; 255;255;255;255] with
   | DErr => true | _ => false end) = true.
Proof. vm_compute. reflexivity. Qed.
