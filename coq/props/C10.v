(* C10 - Responses reach exactly the request with the same stream id.
   Subject: coq/model/Inflight.v.  Statements only; proofs in proofs/InflightC10.v.
   [abs] maps a handler state to the abstract specification state "stream id -> (request number, ordered pages)"
   + completed entries; [astep] is the specification, driven only by the operation and its reported outcome. *)
From Coq Require Import ZArith List Bool.
From GCNP Require Import model.Inflight proofs.Inflight proofs.InflightInv proofs.InflightC09 proofs.InflightC10 proofs.InflightReuse.
Import ListNotations.
Open Scope Z_scope.

(* two managed requests outstanding, one page already delivered to request 2 *)
Definition ex10 : state := run (init 3 2 100) [SendManaged; SendManaged; Deliver 2 false 40].
Example ex10_inv : Inv ex10.
Proof. apply run_inv, init_inv. discriminate. Qed.

(* ---- refinement: over every history of handler operations, the queues of all requests evolve exactly as the
        specification "map id -> ordered list of pages" says: a page is appended exactly once, to the entry registered
        under its stream id at that moment, in arrival order; a final frame closes that entry; nothing else ever
        changes a page list (sends, other ids, events, reads, ticks, Close included) *)
Theorem C10_history_refines_page_map :
  forall s ops, Inv s -> Forall handler_op ops -> abs (run s ops) = arun (abs s) ops (trace s ops).
Proof. exact history_refines. Qed.
Print Assumptions C10_history_refines_page_map.
Example C10_history_refines_page_map_ex :
  abs (run ex10 [Deliver 1 true 41; Deliver 2 true 42; Deliver 7 true 43]) =
  mkA [] [(0, [41]); (1, [40; 42])] 2 false.
Proof. vm_compute. reflexivity. Qed.

Theorem C10_step_refines_page_map :
  forall s o, Inv s -> handler_op o -> abs (fst (step s o)) = astep (abs s) o (snd (step s o)).
Proof. exact step_refines. Qed.
Print Assumptions C10_step_refines_page_map.

(* ---- the delivery step: where the target goes, and that NOTHING else moves (frame condition) *)
Theorem C10_deliver_frame_condition :
  forall s k last tag r, Inv s -> closed s = false -> lookup k (inflight s) = Some r ->
  let s' := fst (step s (Deliver k last tag)) in
  let r' := fst (on_frame (cfgP s) (now s) (cfgT s) r last tag) in
  snd (step s (Deliver k last tag)) = snd (on_frame (cfgP s) (now s) (cfgT s) r last tag) /\
  (forall k', k' <> k -> lookup k' (inflight s') = lookup k' (inflight s)) /\
  (if last then lookup k (inflight s') = None /\ finished s' = finished s ++ [r'] /\
                (managed r = true -> pool s' = pool s ++ [k]) /\ (managed r = false -> pool s' = pool s)
   else lookup k (inflight s') = Some r' /\ finished s' = finished s /\ pool s' = pool s) /\
  keys (inflight s') = (if last then keys (remove_key k (inflight s)) else keys (inflight s)) /\
  events s' = events s /\ handled s' = handled s /\ outq s' = outq s /\ closed s' = false.
Proof. exact deliver_frame_condition. Qed.
Print Assumptions C10_deliver_frame_condition.
Example C10_deliver_frame_condition_ex : exists r, lookup 2 (inflight ex10) = Some r /\ closed ex10 = false.
Proof. eexists. vm_compute. split; reflexivity. Qed.

(* ---- a frame for a live request with room is appended exactly once, at the end; the last one completes it *)
Theorem C10_deliver_to_live_request :
  forall s k last tag r, Inv s -> closed s = false -> lookup k (inflight s) = Some r -> live (cfgP s) r ->
  snd (step s (Deliver k last tag)) = ODelivered /\
  exists r', (if last then In r' (finished (fst (step s (Deliver k last tag))))
              else lookup k (inflight (fst (step s (Deliver k last tag)))) = Some r') /\
    same_id r r' /\ queue r' = queue r ++ [tag] /\ consumed r' = consumed r /\
    (if last then done r' = true /\ err r' = None else done r' = false /\ deadline r' = Some (now s + cfgT s)).
Proof. exact deliver_to_live_request. Qed.
Print Assumptions C10_deliver_to_live_request.
Example C10_deliver_to_live_request_ex : exists r, lookup 2 (inflight ex10) = Some r /\ live (cfgP ex10) r.
Proof. eexists. split; [vm_compute; reflexivity|]. split; vm_compute; reflexivity. Qed.

(* ---- a frame for a request that already failed is refused without touching any queue *)
Theorem C10_deliver_to_failed_request :
  forall s k last tag r, Inv s -> closed s = false -> lookup k (inflight s) = Some r -> done r = true ->
  snd (step s (Deliver k last tag)) = ODeliverErr ERequestClosed /\
  (if last then In r (finished (fst (step s (Deliver k last tag))))
   else lookup k (inflight (fst (step s (Deliver k last tag)))) = Some r).
Proof. exact deliver_to_failed_request. Qed.
Print Assumptions C10_deliver_to_failed_request.
Example C10_deliver_to_failed_request_ex :
  exists r, lookup 1 (inflight (run ex10 [Tick 100])) = Some r /\ done r = true.
Proof. eexists. split; vm_compute; reflexivity. Qed.

(* ---- id reuse racing with a late page. Request A, registered under a caller-chosen id k, has failed WITHOUT its final
        frame (read timeout, too many pending pages). Over every continuation [ops] without A's final frame and without
        Close: the entry under k is still A (same creation number), done, with exactly the pages, the error and the one
        channel close it had ([frozen]) - so no frame sent for k meanwhile reached anybody; a new request with id k is
        refused and changes nothing; and the next frame for k (final or not) is refused with "request closed", leaves every
        other entry of the map alone, and the final one unregisters A, nobody else.
        (That a delivery only ever touches the entry under its id is C10_deliver_frame_condition; that a managed send never
        yields a registered id is C09_managed_send_never_duplicates.) *)
Theorem C10_late_frames_reach_no_later_request :
  forall s ops k r last tag,
  Inv s -> k <> 0 -> In (k, r) (inflight s) -> done r = true -> Forall (fun o => ~ removes o k) ops ->
  let s1 := run s ops in
  exists r1, lookup k (inflight s1) = Some r1 /\ frozen r r1 /\
    (exists e, step s1 (SendExplicit k) = (s1, ORefused e) /\ (e = EInUse \/ e = ETooMany)) /\
    snd (step s1 (Deliver k last tag)) = ODeliverErr ERequestClosed /\
    (forall k', k' <> k -> lookup k' (inflight (fst (step s1 (Deliver k last tag)))) = lookup k' (inflight s1)) /\
    (if last then lookup k (inflight (fst (step s1 (Deliver k last tag)))) = None /\
                  finished (fst (step s1 (Deliver k last tag))) = finished s1 ++ [r1]
     else lookup k (inflight (fst (step s1 (Deliver k last tag)))) = Some r1 /\
          finished (fst (step s1 (Deliver k last tag))) = finished s1).
Proof. exact late_frames_reach_no_later_request. Qed.
Print Assumptions C10_late_frames_reach_no_later_request.
(* non-vacuity with the history of the seeded change C10-a (maxPending = 1): A = explicit 1 gets two pages nobody reads
   and is closed for too many pending pages; then a second send of 1 (refused), a managed send that borrows id 1 (refused,
   the id goes back to the end of the pool), one that gets id 2, a late page (refused), a read, a tick *)
Example C10_late_frames_reach_no_later_request_ex :
  let s := run (init 2 1 100) [SendExplicit 1; Deliver 1 false 0; Deliver 1 false 1] in
  let ops := [SendExplicit 1; SendManaged; SendManaged; Deliver 1 false 3; Recv 1; Tick 500] in
  Inv s /\ Forall (fun o => ~ removes o 1) ops /\
  (exists r, In (1, r) (inflight s) /\ done r = true /\ err r = Some ETooManyPending /\ queue r = [0]) /\
  trace s ops = [ORefused EInUse; ORefused EInUse; OAccepted 2; ODeliverErr ERequestClosed; ORecvFrame 0; OTick].
Proof.
  cbn zeta. split; [apply run_inv, init_inv; discriminate|].
  split; [repeat constructor; intros [[tag H]|H]; discriminate|].
  split; [eexists; split; [vm_compute; left; reflexivity|vm_compute; repeat split; reflexivity]|].
  vm_compute. reflexivity.
Qed.

(* ---- a response for an unknown stream id changes nothing but the returned error *)
Theorem C10_unknown_id_dropped :
  forall s k last tag, ~ In k (keys (inflight s)) ->
  step s (Deliver k last tag) = (s, ODeliverErr (if closed s then EClosed else EUnknownId)).
Proof. exact deliver_unknown_id. Qed.
Print Assumptions C10_unknown_id_dropped.
Example C10_unknown_id_dropped_ex : ~ In 7 (keys (inflight ex10)).
Proof. vm_compute. intuition discriminate. Qed.

(* ---- events go to the handlers and the event queue, never to a request (processIncomingFrame routes by opcode) *)
Theorem C10_events_never_reach_requests :
  forall s tag, let s' := fst (step s (Event tag)) in
  inflight s' = inflight s /\ finished s' = finished s /\ pool s' = pool s /\ closed s' = closed s /\
  handled s' = handled s ++ [tag] /\
  events s' = (if negb (closed s) && (zlen (events s) <? cfgN s) then events s ++ [tag] else events s).
Proof. exact event_reaches_no_request. Qed.
Print Assumptions C10_events_never_reach_requests.

(* ---- a multi-page response (at most maxPending pages waiting) is delivered completely, in order, to that one
        request, which the last page completes *)
Theorem C10_multi_page_response :
  forall s k r pages lasttag, Inv s -> closed s = false -> lookup k (inflight s) = Some r -> done r = false ->
  pending r + zlen pages + 1 <= cfgP s ->
  let s' := run s (map (fun t => Deliver k false t) pages ++ [Deliver k true lasttag]) in
  trace s (map (fun t => Deliver k false t) pages ++ [Deliver k true lasttag]) = repeat ODelivered (S (length pages)) /\
  ~ In k (keys (inflight s')) /\
  exists r', In r' (finished s') /\ same_id r r' /\ queue r' = queue r ++ pages ++ [lasttag] /\ done r' = true /\ err r' = None.
Proof. exact multi_page_response. Qed.
Print Assumptions C10_multi_page_response.
Example C10_multi_page_response_ex :
  exists r, lookup 1 (inflight ex10) = Some r /\ done r = false /\ pending r + zlen [50] + 1 <= cfgP ex10.
Proof. eexists. split; [vm_compute; reflexivity|]. split; vm_compute; [reflexivity|discriminate]. Qed.
