(* C05 - Header-only and raw-body operations agree with the full codec.  Statements only. *)
From Coq Require Import ZArith List Bool.
From GCNP Require Import base.GoInt base.Bytes base.Codec gen.Constants_gen model.Prim model.DataType model.MsgTypes
  model.Frame model.MsgCodec model.MsgValid model.FrameValid proofs.FrameProofs proofs.MsgCodecProofs proofs.FrameFinal.
Import ListNotations.
Open Scope Z_scope.

(* for every valid uncompressed frame: DecodeRawFrame + ConvertFromRawFrame = DecodeFrame; ConvertToRawFrame + EncodeRawFrame
   = EncodeFrame; EncodeHeader ++ EncodeBody = EncodeFrame; DecodeRawBody and DiscardBody (plain and seekable source)
   consume exactly the declared body length *)
Theorem C05_raw_paths_agree : forall comp f mb,
  plain_valid f mb ->
  let body := body_bytes (f_Header f) (f_Body f) mb in
  let h' := with_body_length (f_Header f) (zlen body) in
  (forall rest, decode_raw_frame (encoded_plain f mb ++ rest) = DOk {| rf_Header := h'; rf_Body := Some body |} rest) /\
  convert_from_raw the_msg_codec comp {| rf_Header := h'; rf_Body := Some body |} = Ok (frame_normal f (zlen body)) /\
  (exists rf, convert_to_raw the_msg_codec comp f = Ok rf /\ encode_raw_frame rf = Ok (encoded_plain f mb) /\ rf_Body rf = Some body) /\
  (encode_header h' = Ok (hdr_bytes h') /\ encode_body the_msg_codec comp h' (f_Body f) = Ok body) /\
  (forall rest, decode_raw_body h' (body ++ rest) = DOk (Some body) rest /\
                discard_body h' (body ++ rest) = DOk tt rest /\ discard_body_seek h' (body ++ rest) = DOk tt rest).
Proof. exact raw_paths_agree. Qed.
Print Assumptions C05_raw_paths_agree.

(* DecodeHeader + DecodeBody is DecodeFrame (by definition of the model, as in the Go code) *)
Theorem C05_header_then_body : forall comp bs,
  decode_frame the_msg_codec comp bs =
  (h <- decode_header ;; b <- decode_body the_msg_codec comp h ;; ret {| f_Header := h; f_Body := b |}) bs.
Proof. reflexivity. Qed.
Print Assumptions C05_header_then_body.

(* the re-encode clause on the encoder's range: the normal form a valid frame decodes to is valid again when its
   message is (normal forms of valid messages are valid: request_group_norm_ok / norm_error_group_ok / result_group_norm),
   so decode . encode is idempotent there.  For arbitrary decodable wire input the clause is NOT a theorem of the
   model: the decoders accept inputs the encoders refuse (known findings of C05, matched by class in the check). *)
Theorem C05_reencode_partial : forall comp f,
  frame_valid f -> has (h_Flags (f_Header f)) HeaderFlagCompressed = false ->
  exists mb, enc_message (h_Version (f_Header f)) (bd_Message (f_Body f)) = Ok mb /\
    let body := body_bytes (f_Header f) (f_Body f) mb in
    (zlen body < 2147483648 ->
     encode_frame the_msg_codec comp f = Ok (encoded_plain f mb) /\
     zlen (encoded_plain f mb) = header_length (h_Version (f_Header f)) + zlen body /\
     uncompressed_body_length the_msg_codec (f_Header f) (f_Body f) = Ok (zlen body) /\
     forall rest, decode_frame the_msg_codec comp (encoded_plain f mb ++ rest) = DOk (frame_normal f (zlen body)) rest).
Proof. exact frame_codec_plain. Qed.
Print Assumptions C05_reencode_partial.

(* the full re-encode clause is refuted on the faithful model: a PREPARE body with an empty query decodes, and the
   decoded frame does not encode *)
Definition prepare_empty_query : bytes := [4;0;0;1;9;0;0;0;4;0;0;0;0].
Theorem C05_reencode_refuted :
  (match decode_frame the_msg_codec None prepare_empty_query with
   | DOk f rest => match encode_frame the_msg_codec None f with Err => true | Ok _ => false end
   | _ => false
   end) = true.
Proof. vm_compute. reflexivity. Qed.
Print Assumptions C05_reencode_refuted.
