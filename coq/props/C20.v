(* C20 - Frame mutators keep flags and body in step; option accessors consistent.
   Subject: model/Frame.v (mutators of frame/frame.go), model/Mutators.v (sequences; STARTUP accessors),
   tied to the code by the correspondence run of tools/props/C20.py.  Statements only. *)
From Coq Require Import ZArith List Bool.
From GCNP Require Import base.GoInt base.Bytes gen.Constants_gen model.Prim model.MsgTypes model.Frame model.Mutators
  proofs.MutatorProofs.
Import ListNotations.
Open Scope Z_scope.

(* a frame built by NewFrame satisfies the invariant *)
Theorem C20_new_frame : forall v sid m, Inv (NewFrame v sid m).
Proof. exact Inv_new. Qed.
Print Assumptions C20_new_frame.

(* EVERY finite sequence of direction-appropriate mutator calls, with arbitrary arguments (nil, empty, non-empty),
   keeps: payload flag <-> payload non-empty; warning flag <-> warnings non-empty; tracing flag <-> tracing id present
   (responses) and no tracing id on requests; compression flag only on compressible opcodes; flags within a byte;
   and changes nothing else (direction, version, stream id, opcode, message, USE_BETA bit) *)
Theorem C20_mutator_sequences : forall f ops, Inv f -> mops_ok f ops = true ->
  Inv (run_mops f ops) /\ same_identity f (run_mops f ops).
Proof. exact mutator_sequences. Qed.
Print Assumptions C20_mutator_sequences.

Theorem C20_never_compressed_handshake : forall f ops, Inv f -> mops_ok f ops = true ->
  In (msg_opcode (bd_Message (f_Body (run_mops f ops)))) [OpCodeStartup; OpCodeOptions; OpCodeReady] ->
  has (h_Flags (f_Header (run_mops f ops))) HeaderFlagCompressed = false.
Proof. exact never_compressed_handshake. Qed.
Print Assumptions C20_never_compressed_handshake.

(* STARTUP accessors: after any setter call, the matching getter returns what was stored and every other
   getter returns what it returned before - for all strings and booleans *)
Theorem C20_startup_accessor_step : forall m op k, sop_wf op = true ->
  observe (apply_sop m op) k = if key_eqb k (sop_key op) then stored op else observe m k.
Proof. exact startup_accessor_step. Qed.
Print Assumptions C20_startup_accessor_step.

(* ... hence for every sequence of accessor calls each getter returns what the last matching setter stored *)
Theorem C20_startup_accessor_sequences : forall ops m k, forallb sop_wf ops = true ->
  observe (fold_left apply_sop ops m) k = match last_stored ops k with Some v => v | None => observe m k end.
Proof. exact startup_accessor_sequences. Qed.
Print Assumptions C20_startup_accessor_sequences.

(* non-vacuity: a concrete sequence on a concrete response frame satisfies the premises, and the flags move *)
Example C20_nonvacuous :
  let f := NewFrame 4 1 M_Ready in
  let ops := [OpSetCustomPayload [([107], Some [1])]; OpSetTracingId (Some [1;2;3;4;5;6;7;8;9;10;11;12;13;14;15;16]);
              OpSetCompress true; OpSetWarnings (Some [[119]]); OpSetCustomPayload []] in
  mops_ok f ops = true /\ h_Flags (f_Header (run_mops f ops)) = 10 /\
  observe (fold_left apply_sop [SSet KClientId [97]; SSetThrow true; SSetCompression [76;90;52]] []) KClientId = [97].
Proof. vm_compute. repeat split; reflexivity. Qed.
