(* C13 - Numeric conversions never lose information silently.
   Subject: gen/Numeric_gen.v, regenerated from datacodec/{conversions,math,bigint,int,smallint,tinyint,varint,float,double,
   date,time,timestamp}.go on every run.  Statements only; proofs are in proofs/Numeric*.v. *)
From Coq Require Import ZArith List String Bool.
From GCNP Require Import base.GoInt base.GoNum gen.Numeric_gen proofs.NumericHelpers proofs.NumericMath.
Import ListNotations.
Open Scope Z_scope.

(* every integer-to-integer helper of conversions.go (the table is generated: a new helper is covered automatically):
   for EVERY value x of the source type, an Ok result is x itself and lies in the destination type, and every x that
   the destination type can hold is accepted *)
Theorem C13_helpers_exact :
  forall name rs rd f, In (name, rs, rd, f) helpers ->
  forall x, in_range rs x = true ->
    (forall v, f x = Ok v -> v = x /\ in_range rd v = true) /\
    (in_range rd x = true -> f x = Ok x).
Proof. exact helpers_exact. Qed.
Print Assumptions C13_helpers_exact.

(* math.go: exact or flagged, on all of int64 x int64 *)
Theorem C13_addExact :
  forall x y, in64 x -> in64 y ->
  (in64 (x + y) -> addExact x y = (x + y, false)) /\ (~ in64 (x + y) -> addExact x y = (0, true)).
Proof. exact addExact_spec. Qed.
Print Assumptions C13_addExact.

Theorem C13_multiplyExact :
  forall x y, in64 x -> in64 y ->
  (in64 (x * y) -> multiplyExact x y = (x * y, false)) /\ (~ in64 (x * y) -> multiplyExact x y = (0, true)).
Proof. exact multiplyExact_spec. Qed.
Print Assumptions C13_multiplyExact.

(* floor semantics (Coq's / and mod round toward minus infinity), except the one overflowing pair *)
Theorem C13_floorDiv :
  forall x y, in64 x -> in64 y -> y <> 0 -> ~ (x = -9223372036854775808 /\ y = -1) -> floorDiv x y = x / y.
Proof. exact floorDiv_spec. Qed.
Print Assumptions C13_floorDiv.

Theorem C13_floorDiv_overflow : floorDiv (-9223372036854775808) (-1) = -9223372036854775808.
Proof. exact floorDiv_overflow. Qed.
Print Assumptions C13_floorDiv_overflow.

Theorem C13_floorMod :
  forall x y, in64 x -> in64 y -> y <> 0 -> floorMod x y = x mod y.
Proof. exact floorMod_spec. Qed.
Print Assumptions C13_floorMod.

(* non-vacuity *)
Example C13_helpers_nonvacuous :
  (List.length helpers >= 50)%nat /\
  In ("int64ToInt16"%string, RInt true 64, RInt true 16, int64ToInt16) helpers /\
  int64ToInt16 32767 = Ok 32767 /\ int64ToInt16 32768 = Err /\ bigIntToUint8 256 = Err /\ bigIntToUint8 255 = Ok 255 /\
  uint64ToInt64 9223372036854775808 = Err.
Proof. exact helpers_nonvacuous. Qed.
