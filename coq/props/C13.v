(* C13 - Numeric conversions never lose information silently.
   Subject: gen/Numeric_gen.v, regenerated from datacodec/{conversions,math,bigint,int,smallint,tinyint,varint,float,double,
   date,time,timestamp}.go on every run.  Statements only; proofs are in proofs/Numeric*.v. *)
From Coq Require Import ZArith List String Bool.
From GCNP Require Import base.GoInt base.GoNum gen.Numeric_gen model.NumWire proofs.NumericHelpers proofs.NumericMath
  proofs.NumericSwitches proofs.NumericWire proofs.NumericVarint proofs.NumericFloats proofs.NumericTime.
Import ListNotations.
Open Scope Z_scope.

(* every integer-to-integer helper of conversions.go (the table is generated: a new helper is covered automatically):
   for EVERY value x of the source type, an Ok result is x itself and lies in the destination type, and every x that
   the destination type can hold is accepted *)
Theorem C13_helpers_exact :
  forall name rs rd f, In (name, rs, rd, f) helpers ->
  forall x, in_range rs x = true ->
    (forall v, f x = Ok v -> v = x /\ in_range rd v = true) /\
    (in_range rd x = true -> f x = Ok x).
Proof. exact helpers_exact. Qed.
Print Assumptions C13_helpers_exact.

(* math.go: exact or flagged, on all of int64 x int64 *)
Theorem C13_addExact :
  forall x y, in64 x -> in64 y ->
  (in64 (x + y) -> addExact x y = (x + y, false)) /\ (~ in64 (x + y) -> addExact x y = (0, true)).
Proof. exact addExact_spec. Qed.
Print Assumptions C13_addExact.

Theorem C13_multiplyExact :
  forall x y, in64 x -> in64 y ->
  (in64 (x * y) -> multiplyExact x y = (x * y, false)) /\ (~ in64 (x * y) -> multiplyExact x y = (0, true)).
Proof. exact multiplyExact_spec. Qed.
Print Assumptions C13_multiplyExact.

(* floor semantics (Coq's / and mod round toward minus infinity), except the one overflowing pair *)
Theorem C13_floorDiv :
  forall x y, in64 x -> in64 y -> y <> 0 -> ~ (x = -9223372036854775808 /\ y = -1) -> floorDiv x y = x / y.
Proof. exact floorDiv_spec. Qed.
Print Assumptions C13_floorDiv.

Theorem C13_floorDiv_overflow : floorDiv (-9223372036854775808) (-1) = -9223372036854775808.
Proof. exact floorDiv_overflow. Qed.
Print Assumptions C13_floorDiv_overflow.

Theorem C13_floorMod :
  forall x y, in64 x -> in64 y -> y <> 0 -> floorMod x y = x mod y.
Proof. exact floorMod_spec. Qed.
Print Assumptions C13_floorMod.

(* ---- type switches.  [oracle_contract O dec]: strconv.ParseInt / FormatInt and big.Int SetString / Text agree with the
   denotation [dec] of decimal strings (stated in proofs/NumericSwitches.v).  For every switch of the generated table
   (convertToInt64/32/16/8), every source constructor and every value of that Go type:
     Ok (v, wasNil): wasNil exactly for nil pointers / untyped nil, v fits the CQL type, and v is the integer the source denotes;
     every sized integer that fits is accepted unchanged; unsupported types fail; nil pointers of accepted types are NULL. *)
Theorem C13_to_switches_exact :
  forall O dec, oracle_contract O dec ->
  forall name r f, In (name, r, f) (to_switches O) ->
    (forall g, gv_wf g = true ->
       match f g with
       | Ok (v, wasNil) => wasNil = gv_isnil g /\ in_range r v = true /\ (wasNil = false -> gv_math dec g = Some v)
       | Err => True
       end) /\
    (forall g x, gv_wf g = true -> gv_sized g = Some x -> in_range r x = true -> f g = Ok (x, false)) /\
    f G_other = Err /\
    Forall (fun g => f g = Ok (0, true)) accepted_nils.
Proof. exact to_switches_exact. Qed.
Print Assumptions C13_to_switches_exact.

(* convertFromInt64/32/16/8: for every destination constructor: Ok only for a non-nil supported pointer, and then (when the
   column is not NULL) what was stored is a value of the destination's Go type that denotes exactly val; nil pointer -> error *)
Theorem C13_from_switches_exact :
  forall O dec, oracle_contract O dec ->
  forall name r f, In (name, r, f) (from_switches O) ->
    (forall val wasNull d, in_range r val = true ->
       match f val wasNull d with
       | Ok st => dst_isnil d = false /\ d <> D_other /\
                  (wasNull = false -> exists g, st = Some g /\ gv_wf g = true /\ gv_math dec g = Some val)
       | Err => True
       end /\ (dst_isnil d = true -> f val wasNull d = Err)) /\
    (forall v w, f v w D_other = Err).
Proof. exact from_switches_exact. Qed.
Print Assumptions C13_from_switches_exact.

(* varint: the *big.Int switches *)
Theorem C13_convertToBigInt_exact :
  forall O dec, oracle_contract O dec ->
  (forall g, gv_wf g = true ->
     match convertToBigInt O g with
     | Ok (Some v) => gv_isnil g = false /\ gv_math dec g = Some v
     | Ok None => gv_isnil g = true
     | Err => True
     end) /\ convertToBigInt O G_other = Err.
Proof. exact convertToBigInt_exact. Qed.
Print Assumptions C13_convertToBigInt_exact.

Theorem C13_convertToBigInt_nils :
  forall O, Forall (fun g => convertToBigInt O g = Ok None) (G_pbigint None :: accepted_nils).
Proof. exact convertToBigInt_nils. Qed.
Print Assumptions C13_convertToBigInt_nils.

Theorem C13_convertFromBigInt_exact :
  forall O dec, oracle_contract O dec ->
  from_switch_exact O dec RAny (convertFromBigInt O) /\ (forall v w, convertFromBigInt O v w D_other = Err).
Proof. exact convertFromBigInt_exact. Qed.
Print Assumptions C13_convertFromBigInt_exact.

(* ---- wire layer: fixed-width big-endian two's complement round trips on the whole range; wrong lengths are rejected *)
Theorem C13_fixed_width_roundtrip :
  (forall v, in_i 64 v = true -> readInt64 (writeInt64 v) = Ok (v, false)) /\
  (forall v, in_i 32 v = true -> readInt32 (writeInt32 v) = Ok (v, false)) /\
  (forall v, in_i 16 v = true -> readInt16 (writeInt16 v) = Ok (v, false)) /\
  (forall v, in_i 8 v = true -> readInt8 (writeInt8 v) = Ok (v, false)) /\
  (forall b, in_u 32 b = true -> readFloat32 (writeFloat32 b) = Ok (b, false)) /\
  (forall b, in_u 64 b = true -> readFloat64 (writeFloat64 b) = Ok (b, false)).
Proof.
  exact (conj int64_wire_roundtrip (conj int32_wire_roundtrip (conj int16_wire_roundtrip (conj int8_wire_roundtrip
        (conj float32_wire_roundtrip float64_wire_roundtrip))))).
Qed.
Print Assumptions C13_fixed_width_roundtrip.

Theorem C13_fixed_width_lengths :
  fixed_read_ok 8 readInt64 /\ fixed_read_ok 4 readInt32 /\ fixed_read_ok 2 readInt16 /\ fixed_read_ok 1 readInt8 /\
  fixed_read_ok 4 readFloat32 /\ fixed_read_ok 8 readFloat64.
Proof. exact fixed_reads_reject_wrong_length. Qed.
Print Assumptions C13_fixed_width_lengths.

(* varint bytes (hand model model/NumWire.v, compared with the compiled writeBigInt/readBigInt on every run): round trip for
   EVERY integer, and the bytes are bytes.  Proved by showing the model extensionally equal to model/CqlWire.v's and
   transporting proofs/CqlVarintProofs.v (minimal two's complement, induction on the byte length). *)
Theorem C13_varint_roundtrip :
  forall n : Z, NumWire.readBigInt (NumWire.writeBigInt n) = Some n /\ Forall (fun b => 0 <= b < 256) (NumWire.writeBigInt n).
Proof. exact varint_roundtrip. Qed.
Print Assumptions C13_varint_roundtrip.

(* ---- date / time / timestamp.  time.Time is the instant (unix seconds, nanoseconds); layouts (Parse/Format) are oracles and
   do not occur.  The Convert functions return exactly the floor of the instant in the CQL unit, or fail exactly when that
   number is not representable; the inverses invert them. *)
Theorem C13_ConvertTimeToEpochMillis_exact :
  forall t, time_wf t ->
  (in64 (epoch_millis t) -> ConvertTimeToEpochMillis t = Ok (epoch_millis t)) /\
  (~ in64 (epoch_millis t) -> ConvertTimeToEpochMillis t = Err).
Proof. exact ConvertTimeToEpochMillis_exact. Qed.
Print Assumptions C13_ConvertTimeToEpochMillis_exact.

Theorem C13_ConvertEpochMillisToTime_exact :
  forall m, in64 m ->
  time_wf (ConvertEpochMillisToTime m) /\ epoch_millis (ConvertEpochMillisToTime m) = m /\
  time_nsec (ConvertEpochMillisToTime m) mod 1000000 = 0.
Proof. exact ConvertEpochMillisToTime_exact. Qed.
Print Assumptions C13_ConvertEpochMillisToTime_exact.

Theorem C13_ConvertTimeToEpochDays_exact :
  forall t, in64 (time_sec t) ->
  (in_i 32 (epoch_days t) = true -> ConvertTimeToEpochDays t = Ok (epoch_days t)) /\
  (in_i 32 (epoch_days t) = false -> ConvertTimeToEpochDays t = Err).
Proof. exact ConvertTimeToEpochDays_exact. Qed.
Print Assumptions C13_ConvertTimeToEpochDays_exact.

Theorem C13_ConvertEpochDaysToTime_exact :
  forall d, in_i 32 d = true ->
  ConvertEpochDaysToTime d = (d * 86400, 0) /\ ConvertTimeToEpochDays (ConvertEpochDaysToTime d) = Ok d.
Proof. exact ConvertEpochDaysToTime_exact. Qed.
Print Assumptions C13_ConvertEpochDaysToTime_exact.

Theorem C13_time_of_day_range :
  (forall d v, ConvertDurationToNanosOfDay d = Ok v <-> v = d /\ 0 <= d <= 86399999999999) /\
  (forall n v, in64 n -> (ConvertNanosOfDayToDuration n = Ok v <-> v = n /\ 0 <= n <= 86399999999999)).
Proof. exact (conj ConvertDurationToNanosOfDay_exact ConvertNanosOfDayToDuration_exact). Qed.
Print Assumptions C13_time_of_day_range.

(* the switches of the three codecs: time-typed values go through the functions above, nil is NULL, and every value that is
   not of a time / string type is handed unchanged to the integer switch of the same width (C13_to/from_switches_exact apply) *)
Theorem C13_time_to_switches :
  forall O layout g,
  match g with
  | G_time t | G_ptime (Some t) => convertToInt64Timestamp O g layout = lift (ConvertTimeToEpochMillis t)
  | G_ptime None | G_nil => convertToInt64Timestamp O g layout = Ok (0, true)
  | G_string _ | G_pstring _ => True
  | _ => convertToInt64Timestamp O g layout = convertToInt64 O g
  end /\
  match g with
  | G_time t | G_ptime (Some t) => convertToInt32Date O g layout = lift (ConvertTimeToEpochDays t)
  | G_ptime None | G_nil => convertToInt32Date O g layout = Ok (0, true)
  | G_string _ | G_pstring _ => True
  | _ => convertToInt32Date O g layout = convertToInt32 O g
  end /\
  match g with
  | G_duration d | G_pduration (Some d) => convertToInt64Time O g layout = lift (ConvertDurationToNanosOfDay d)
  | G_pduration None | G_ptime None | G_nil => convertToInt64Time O g layout = Ok (0, true)
  | G_time _ | G_ptime _ | G_string _ | G_pstring _ => True
  | _ => convertToInt64Time O g layout = convertToInt64 O g
  end.
Proof.
  intros O layout g.
  exact (conj (convertToInt64Timestamp_cases O layout g) (conj (convertToInt32Date_cases O layout g) (convertToInt64Time_cases O layout g))).
Qed.
Print Assumptions C13_time_to_switches.

Theorem C13_time_from_switches :
  forall O layout val wasNull d,
  match d with
  | D_ptime false | D_piface false =>
      wasNull = false -> convertFromInt64Timestamp O val wasNull d layout = Ok (Some (G_time (ConvertEpochMillisToTime val)))
  | D_ptime true | D_piface true => convertFromInt64Timestamp O val wasNull d layout = Err
  | D_pstring _ => True
  | _ => convertFromInt64Timestamp O val wasNull d layout = convertFromInt64 O val wasNull d
  end /\
  match d with
  | D_ptime false | D_piface false =>
      wasNull = false -> convertFromInt32Date O val wasNull layout d = Ok (Some (G_time (ConvertEpochDaysToTime val)))
  | D_ptime true | D_piface true => convertFromInt32Date O val wasNull layout d = Err
  | D_pstring _ => True
  | _ => convertFromInt32Date O val wasNull layout d = convertFromInt32 O val wasNull d
  end /\
  match d with
  | D_pduration false | D_piface false =>
      wasNull = false -> convertFromInt64Time O val wasNull d layout =
                         match ConvertNanosOfDayToDuration val with Ok v => Ok (Some (G_duration v)) | Err => Err end
  | D_pduration true | D_piface true => convertFromInt64Time O val wasNull d layout = Err
  | D_ptime _ | D_pstring _ => True
  | _ => convertFromInt64Time O val wasNull d layout = convertFromInt64 O val wasNull d
  end.
Proof.
  intros O layout val wasNull d.
  exact (conj (convertFromInt64Timestamp_cases O layout val wasNull d)
        (conj (convertFromInt32Date_cases O layout val wasNull d) (convertFromInt64Time_cases O layout val wasNull d))).
Qed.
Print Assumptions C13_time_from_switches.

(* ---- floats: IEEE conversions and math/big.Float are oracles; the documented behaviour each theorem relies on is its premise.
   V: the values (extended reals and one NaN, vnan) that bit patterns / big.Floats denote.  A narrowing, a big.Float source and a
   big.Float destination are accepted only when the value delivered is the value given; nothing assumes a conversion exact. *)

(* float64 -> float32 (CQL double into *float32, Go float64 into CQL float): the same value - NaN to NaN - or an error.
   Premises: widening is exact; == holds only between equal values; IsNaN is true only for NaN; a NaN narrows to a NaN. *)
Theorem C13_float64ToFloat32_exact :
  forall (O : oracles) (V : Type) (val64 val32 : Z -> V) (vnan : V),
  (forall w, val64 (o_f32_to_f64 O w) = val32 w) ->
  (forall a b, o_f64_eqb O a b = true -> val64 a = val64 b) ->
  (forall b, o_f64_isnan O b = true -> val64 b = vnan) ->
  (forall b, o_f64_isnan O b = true -> val32 (o_f64_to_f32 O b) = vnan) ->
  forall v w, float64ToFloat32 O v = Ok w -> val32 w = val64 v.
Proof. exact float64ToFloat32_exact. Qed.
Print Assumptions C13_float64ToFloat32_exact.

(* the NaN clause on its own: a float64 NaN that is delivered is delivered as a NaN (never as a number or an infinity) *)
Theorem C13_float64ToFloat32_nan :
  forall (O : oracles) (V : Type) (val64 val32 : Z -> V) (vnan : V),
  (forall w, val64 (o_f32_to_f64 O w) = val32 w) ->
  (forall a b, o_f64_eqb O a b = true -> val64 a = val64 b) ->
  (forall b, o_f64_isnan O b = true -> val64 b = vnan) ->
  (forall b, o_f64_isnan O b = true -> val32 (o_f64_to_f32 O b) = vnan) ->
  forall v w, o_f64_isnan O v = true -> float64ToFloat32 O v = Ok w -> val32 w = vnan /\ val64 v = vnan.
Proof. exact float64ToFloat32_nan. Qed.
Print Assumptions C13_float64ToFloat32_nan.

(* what is accepted: a value that survives float32 and back always; a value that does not, and is not NaN, never *)
Theorem C13_float64ToFloat32_accepts :
  forall (O : oracles) v,
  (o_f64_eqb O (o_f32_to_f64 O (o_f64_to_f32 O v)) v = true -> float64ToFloat32 O v = Ok (o_f64_to_f32 O v)) /\
  (o_f64_eqb O (o_f32_to_f64 O (o_f64_to_f32 O v)) v = false -> o_f64_isnan O v = false -> float64ToFloat32 O v = Err).
Proof. exact float64ToFloat32_accepts. Qed.
Print Assumptions C13_float64ToFloat32_accepts.

Theorem C13_bigFloatToFloat64_exact :
  forall (O : oracles) (V : Type) (val64 : Z -> V) (valbig : bigfloat -> V),
  (forall f b, o_BigFloat_Float64 O f = (b, 0) -> val64 b = valbig f) ->
  forall f b, bigFloatToFloat64 O f = Ok b -> val64 b = valbig f.
Proof. exact bigFloatToFloat64_exact. Qed.
Print Assumptions C13_bigFloatToFloat64_exact.

(* double -> *big.Float whose precision the caller has preset to ANY p (0 = unset, 10, 24, 53, 200 ...): the value stored is exactly
   the double, or an error is returned.  Premise: the documented behaviour of math/big - z.SetFloat64(x) rounds x to z's precision and
   z.Acc() is Exact (0) precisely when z then holds x.  That SetFloat64 is exact is NOT assumed (it is false below 53 bits): the
   conclusion follows from the dest.Acc() test of float64ToBigFloat. *)
Theorem C13_float64ToBigFloat_exact :
  forall (O : oracles) (V : Type) (val64 : Z -> V) (valbig : bigfloat -> V),
  (forall p b f a, o_f64_isnan O b = false -> o_BigFloat_SetFloat64 O p b = (f, a) -> (a = 0 <-> valbig f = val64 b)) ->
  forall b p st, float64ToBigFloat O b p = Ok st -> exists f, st = Some (G_bigfloat f) /\ valbig f = val64 b.
Proof. exact float64ToBigFloat_exact. Qed.
Print Assumptions C13_float64ToBigFloat_exact.

(* and it decides: NaN is refused; otherwise the value is accepted if the destination holds it unrounded and refused if not *)
Theorem C13_float64ToBigFloat_decides :
  forall (O : oracles) (V : Type) (val64 : Z -> V) (valbig : bigfloat -> V),
  (forall p b f a, o_f64_isnan O b = false -> o_BigFloat_SetFloat64 O p b = (f, a) -> (a = 0 <-> valbig f = val64 b)) ->
  forall b p,
  (o_f64_isnan O b = true -> float64ToBigFloat O b p = Err) /\
  (o_f64_isnan O b = false -> forall f a, o_BigFloat_SetFloat64 O p b = (f, a) ->
     (valbig f = val64 b -> float64ToBigFloat O b p = Ok (Some (G_bigfloat f))) /\
     (valbig f <> val64 b -> float64ToBigFloat O b p = Err)).
Proof. exact float64ToBigFloat_decides. Qed.
Print Assumptions C13_float64ToBigFloat_decides.

(* the whole CQL double switch (Double.Decode of a non-NULL value), per destination: *float64 / *interface{} receive the bits,
   *float32 and *big.Float (every preset precision) the same value or an error; every other destination is an error *)
Theorem C13_convertFromFloat64_exact :
  forall (O : oracles) (V : Type) (val64 val32 : Z -> V) (valbig : bigfloat -> V) (vnan : V),
  (forall w, val64 (o_f32_to_f64 O w) = val32 w) ->
  (forall a b, o_f64_eqb O a b = true -> val64 a = val64 b) ->
  (forall b, o_f64_isnan O b = true -> val64 b = vnan) ->
  (forall b, o_f64_isnan O b = true -> val32 (o_f64_to_f32 O b) = vnan) ->
  (forall p b f a, o_f64_isnan O b = false -> o_BigFloat_SetFloat64 O p b = (f, a) -> (a = 0 <-> valbig f = val64 b)) ->
  forall b d st, convertFromFloat64 O b false d = Ok st ->
  match d with
  | D_pfloat64 false | D_piface false => st = Some (G_float64 b)
  | D_pfloat32 false => exists w, st = Some (G_float32 w) /\ val32 w = val64 b
  | D_pbigfloat false _ => exists f, st = Some (G_bigfloat f) /\ valbig f = val64 b
  | _ => False
  end.
Proof. exact convertFromFloat64_exact. Qed.
Print Assumptions C13_convertFromFloat64_exact.

(* the CQL float switch on the encode side (Float.Encode): float32 sources pass unchanged, float64 sources the same value or error *)
Theorem C13_convertToFloat32_exact :
  forall (O : oracles) (V : Type) (val64 val32 : Z -> V) (vnan : V),
  (forall w, val64 (o_f32_to_f64 O w) = val32 w) ->
  (forall a b, o_f64_eqb O a b = true -> val64 a = val64 b) ->
  (forall b, o_f64_isnan O b = true -> val64 b = vnan) ->
  (forall b, o_f64_isnan O b = true -> val32 (o_f64_to_f32 O b) = vnan) ->
  forall g w, convertToFloat32 O g = Ok (w, false) ->
  match g with
  | G_float32 b | G_pfloat32 (Some b) => w = b
  | G_float64 b | G_pfloat64 (Some b) => val32 w = val64 b
  | _ => False
  end.
Proof. exact convertToFloat32_exact. Qed.
Print Assumptions C13_convertToFloat32_exact.

(* non-vacuity *)
Example C13_helpers_nonvacuous :
  (List.length helpers >= 50)%nat /\
  In ("int64ToInt16"%string, RInt true 64, RInt true 16, int64ToInt16) helpers /\
  int64ToInt16 32767 = Ok 32767 /\ int64ToInt16 32768 = Err /\ bigIntToUint8 256 = Err /\ bigIntToUint8 255 = Ok 255 /\
  uint64ToInt64 9223372036854775808 = Err.
Proof. exact helpers_nonvacuous. Qed.

Example C13_contract_satisfiable : oracle_contract O10 dec10.
Proof. exact contract_satisfiable. Qed.

Example C13_switches_nonvacuous :
  convertToInt16 O10 (G_int64 32767) = Ok (32767, false) /\ convertToInt16 O10 (G_int64 32768) = Err /\
  convertToInt16 O10 (G_string "-32768") = Ok (-32768, false) /\ convertToInt16 O10 (G_string "32768") = Err /\
  convertFromInt64 O10 4294967301 false (D_pint32 false) = Err /\
  convertFromInt64 O10 300 false (D_pint16 false) = Ok (Some (G_int16 300)) /\
  (List.length (to_switches O10) = 4)%nat /\ (List.length (from_switches O10) = 4)%nat.
Proof. repeat split; vm_compute; reflexivity. Qed.

Example C13_wire_nonvacuous :
  writeInt32 (-2) = [255; 255; 255; 254] /\ readInt32 [1; 2; 3] = Err /\ NumWire.writeBigInt (-129) = [255; 127].
Proof. repeat split; vm_compute; reflexivity. Qed.

Example C13_time_nonvacuous :
  ConvertTimeToEpochMillis (-1, 999000000) = Ok (-1) /\ ConvertTimeToEpochMillis (-1, 1) = Ok (-1000) /\
  ConvertTimeToEpochMillis (9223372036854775, 807000000) = Ok 9223372036854775807 /\
  ConvertTimeToEpochMillis (9223372036854775, 808000000) = Err /\
  ConvertTimeToEpochMillis (-9223372036854776, 192000000) = Ok (-9223372036854775808) /\
  ConvertTimeToEpochMillis (-9223372036854776, 191000000) = Err /\
  ConvertTimeToEpochDays (-1, 0) = Ok (-1) /\ ConvertTimeToEpochDays (185542587187200, 0) = Err /\
  ConvertTimeToEpochDays (185542587187199, 0) = Ok 2147483647 /\
  ConvertEpochMillisToTime (-1) = (-1, 999000000) /\ time_wf (-1, 999000000).
Proof. exact time_examples. Qed.

(* the float premises are satisfiable together (toy instance Otoy of proofs/NumericFloats.v: 7 is the NaN, float32 saturates at 99,
   a destination of precision p > 0 holds multiples of 2^p), and on it every outcome occurs *)
Example C13_float_contracts_satisfiable :
  (forall w, toy_val (o_f32_to_f64 Otoy w) = toy_val w) /\
  (forall a b, o_f64_eqb Otoy a b = true -> toy_val a = toy_val b) /\
  (forall b, o_f64_isnan Otoy b = true -> toy_val b = None) /\
  (forall b, o_f64_isnan Otoy b = true -> toy_val (o_f64_to_f32 Otoy b) = None) /\
  (forall f b, o_BigFloat_Float64 Otoy f = (b, 0) -> toy_val b = toy_valbig f) /\
  (forall p b f a, o_f64_isnan Otoy b = false -> o_BigFloat_SetFloat64 Otoy p b = (f, a) ->
     (a = 0 <-> toy_valbig f = toy_val b)).
Proof. exact float_contracts_satisfiable. Qed.

Example C13_floats_nonvacuous :
  float64ToFloat32 Otoy 7 = Ok 7 /\ float64ToFloat32 Otoy 50 = Ok 50 /\ float64ToFloat32 Otoy 150 = Err /\
  float64ToBigFloat Otoy 5 0 = Ok (Some (G_bigfloat (5, 0))) /\ float64ToBigFloat Otoy 4 1 = Ok (Some (G_bigfloat (4, 0))) /\
  float64ToBigFloat Otoy 5 1 = Err /\ float64ToBigFloat Otoy 7 0 = Err /\
  convertFromFloat64 Otoy 5 false (D_pbigfloat false 1) = Err /\
  convertFromFloat64 Otoy 6 false (D_pbigfloat false 1) = Ok (Some (G_bigfloat (6, 0))) /\
  convertFromFloat64 Otoy 7 false (D_pfloat32 false) = Ok (Some (G_float32 7)).
Proof. exact float_examples. Qed.
