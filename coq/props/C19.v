(* C19 - Declared constants and validity checks agree; capability tables match specs.
   Subject: gen/Constants_gen.v, regenerated from primitive/constants.go and primitive/util.go on every run.
   This file holds statements only; proofs are in proofs/ConstantsProofs.v and proofs/CapabilityProofs.v. *)
From Coq Require Import ZArith List String Bool.
From GCNP Require Import base.GoInt base.CodeTypes gen.Constants_gen spec.SpecTables model.Capability
  proofs.ConstantsProofs proofs.CapabilityProofs.
Import ListNotations.
Open Scope Z_scope.

(* every declared constant of every integer code type is accepted by the type's validity check *)
Theorem C19_int_declared_accepted :
  forall t, In t int_code_types -> forall f, ict_valid t = Some f ->
  forall n c, In (n, c) (ict_declared t) -> f c = true.
Proof. exact int_declared_accepted. Qed.
Print Assumptions C19_int_declared_accepted.

(* ... and of every string code type (write types, event / schema / topology / status change types, compression names) *)
Theorem C19_str_declared_accepted :
  forall t, In t str_code_types -> forall f, sct_valid t = Some f ->
  forall n c, In (n, c) (sct_declared t) -> f c = true.
Proof. exact str_declared_accepted. Qed.
Print Assumptions C19_str_declared_accepted.

(* the checks accept no undeclared value: for EVERY integer c (not only the 8/16/32-bit domain) *)
Theorem C19_int_accepted_only_declared :
  forall t, In t int_code_types -> forall f, ict_valid t = Some f ->
  forall c : Z, f c = true -> In c (map snd (ict_declared t)).
Proof. exact int_accepted_only_declared. Qed.
Print Assumptions C19_int_accepted_only_declared.

(* ... and for every string *)
Theorem C19_str_accepted_only_declared :
  forall t, In t str_code_types -> forall f, sct_valid t = Some f ->
  forall c : string, f c = true -> In c (map snd (sct_declared t)).
Proof. exact str_accepted_only_declared. Qed.
Print Assumptions C19_str_accepted_only_declared.

(* every declared constant prints a specific name (never the "<Type> ? [..]" fallback) *)
Theorem C19_declared_specific_name :
  forall t, In t int_code_types -> forall s, ict_string t = Some s ->
  forall n c, In (n, c) (ict_declared t) -> str_contains_q (s c) = false.
Proof. exact int_declared_specific_name. Qed.
Print Assumptions C19_declared_specific_name.

(* each valid opcode is exactly one of request / response; an invalid one is neither *)
Theorem C19_opcode_request_xor_response :
  forall op : Z, OpCode_IsValid op = true -> xorb (OpCode_IsRequest op) (OpCode_IsResponse op) = true.
Proof. exact opcode_request_xor_response. Qed.
Print Assumptions C19_opcode_request_xor_response.

Theorem C19_opcode_invalid_neither :
  forall op : Z, OpCode_IsValid op = false -> OpCode_IsRequest op = false /\ OpCode_IsResponse op = false.
Proof. exact opcode_invalid_neither. Qed.
Print Assumptions C19_opcode_invalid_neither.

(* the Check* helpers return an error exactly when the predicate is false *)
Theorem C19_check_helpers_follow :
  chk_follows CheckSupportedProtocolVersion ProtocolVersion_IsSupported /\
  chk_follows CheckDseProtocolVersion ProtocolVersion_IsDse /\
  chk_follows CheckValidOpCode OpCode_IsValid /\
  chk_follows CheckRequestOpCode OpCode_IsRequest /\
  chk_follows CheckResponseOpCode OpCode_IsResponse /\
  chk_follows CheckValidConsistencyLevel ConsistencyLevel_IsValid /\
  chk_follows CheckSerialConsistencyLevel ConsistencyLevel_IsSerial /\
  chk_follows CheckValidEventType EventType_IsValid /\
  chk_follows CheckValidWriteType WriteType_IsValid /\
  chk_follows CheckValidBatchType BatchType_IsValid /\
  chk_follows CheckValidSchemaChangeType SchemaChangeType_IsValid /\
  chk_follows CheckValidStatusChangeType StatusChangeType_IsValid /\
  chk_follows CheckValidResultType ResultType_IsValid /\
  chk_follows CheckValidFailureCode FailureCode_IsValid.
Proof. exact check_helpers_follow. Qed.
Print Assumptions C19_check_helpers_follow.

Theorem C19_check_helpers_versioned_follow :
  (forall c v, CheckValidDataTypeCode c v = if DataTypeCode_IsValid c then Ok tt else Err) /\
  (forall t v, CheckValidSchemaChangeTarget t v =
     if SchemaChangeTarget_IsValid t && ProtocolVersion_SupportsSchemaChangeTarget v t then Ok tt else Err) /\
  (forall t v, CheckValidTopologyChangeType t v =
     if TopologyChangeType_IsValid t && ProtocolVersion_SupportsTopologyChangeType v t then Ok tt else Err) /\
  (forall t v, CheckValidDseRevisionType t v =
     if DseRevisionType_IsValid t && ProtocolVersion_SupportsDseRevisionType v t then Ok tt else Err).
Proof. exact check_helpers_versioned_follow. Qed.
Print Assumptions C19_check_helpers_versioned_follow.

(* per-version capability predicates equal the specification tables on the six supported versions *)
Theorem C19_capability_tables_agree : forallb snd capability_checks = true.
Proof. exact capability_tables_agree. Qed.
Print Assumptions C19_capability_tables_agree.

(* the supported-version check accepts exactly the specification's six version numbers, for every Z *)
Theorem C19_unsupported_versions_rejected :
  forall v : Z, ProtocolVersion_IsSupported v = true -> In v spec_versions.
Proof. exact unsupported_versions_rejected. Qed.
Print Assumptions C19_unsupported_versions_rejected.

(* the version classes, for EVERY integer: OSS versions are exactly 2..5, DSE versions exactly 0x41 and 0x42, and together they
   are the supported versions (an unsupported number - 0x43, 0x7F, 6 - is neither OSS nor DSE) *)
Theorem C19_version_classes :
  (forall v : Z, ProtocolVersion_IsOss v = true <-> v = 2 \/ v = 3 \/ v = 4 \/ v = 5) /\
  (forall v : Z, ProtocolVersion_IsDse v = true <-> v = 65 \/ v = 66) /\
  (forall v : Z, ProtocolVersion_IsSupported v = orb (ProtocolVersion_IsOss v) (ProtocolVersion_IsDse v)) /\
  (forall v : Z, andb (ProtocolVersion_IsOss v) (ProtocolVersion_IsDse v) = false).
Proof. exact version_classes. Qed.
Print Assumptions C19_version_classes.

(* non-vacuity: the tables are populated, and a concrete instance of each premise exists *)
Example C19_nonvacuous :
  (List.length int_code_types >= 10)%nat /\ (List.length str_code_types >= 5)%nat /\
  In ("OpCodeQuery"%string, 7) OpCode_declared /\ OpCode_IsValid 7 = true /\
  OpCode_IsValid 4 = false /\ WriteType_IsValid "CAS"%string = true /\
  (List.length capability_checks >= 15)%nat.
Proof. repeat split; try (vm_compute; intro H; discriminate H); try (vm_compute; reflexivity); try (cbn; auto 20). Qed.
