(* C09 - Stream ids: unique while in flight, bounded, recycled, refused when exhausted.
   Subject: coq/model/Inflight.v (hand-written model of /repo/client/inflight.go, tied to the compiled code by the
   correspondence run of tools/props/C09.py).  Statements only; proofs in proofs/Inflight*.v.
   [Reachable n p t s] : s = run (init n p t) ops for some finite list ops of operations, ANY length, any mix of
   Send (managed / explicit) | CSend | CTake | Deliver (final / non final / unknown id) | Event | Recv | Tick | Close. *)
From Coq Require Import ZArith List Bool Permutation.
From Coq Require Import Relations.
From GCNP Require Import model.Inflight proofs.Inflight proofs.InflightInv proofs.InflightC09 proofs.InflightC10 proofs.InflightReuse proofs.InflightSched proofs.InflightRefine.
Import ListNotations.
Open Scope Z_scope.

(* a concrete reachable state used by the non-vacuity examples: N = 2, one managed and one explicit request unanswered *)
Definition ex_ops : list op := [SendManaged; SendExplicit 5; Deliver 1 false 7].
Definition ex_s : state := run (init 2 2 100) ex_ops.
Example ex_s_reachable : Reachable 2 2 100 ex_s.
Proof. now exists ex_ops. Qed.

(* ---- every accepted managed id lies in [1,N] *)
Theorem C09_managed_ids_bounded :
  forall n p t s s' id, 1 <= n -> Reachable n p t s -> step s SendManaged = (s', OAccepted id) -> 1 <= id <= n.
Proof. exact managed_id_bounds. Qed.
Print Assumptions C09_managed_ids_bounded.
Example C09_managed_ids_bounded_ex :
  exists s' id, step (run (init 2 2 100) [SendExplicit 5]) SendManaged = (s', OAccepted id).
Proof. do 2 eexists. vm_compute. reflexivity. Qed.

(* ... also through CqlClientConnection.Send (with its outgoing queue) *)
Theorem C09_managed_ids_bounded_conn :
  forall n p t s s' id, 1 <= n -> Reachable n p t s -> step s (CSend 0) = (s', OAccepted id) -> 1 <= id <= n.
Proof. exact managed_id_bounds_conn. Qed.
Print Assumptions C09_managed_ids_bounded_conn.
Example C09_managed_ids_bounded_conn_ex :
  exists s' id, step (run (init 2 2 100) [CSend 0; CTake]) (CSend 0) = (s', OAccepted id).
Proof. do 2 eexists. vm_compute. reflexivity. Qed.

(* ---- an accepted id (managed or explicit) is carried by no unanswered request, and is registered afterwards *)
Theorem C09_accepted_id_not_in_use :
  forall s k s' id, step s (Send k) = (s', OAccepted id) ->
    ~ In id (keys (inflight s)) /\ keys (inflight s') = keys (inflight s) ++ [id] /\ (k <> 0 -> id = k).
Proof. exact accepted_id_fresh. Qed.
Print Assumptions C09_accepted_id_not_in_use.
Example C09_accepted_id_not_in_use_ex : exists s', step (run (init 3 2 100) ex_ops) (Send 0) = (s', OAccepted 2).
Proof. eexists. vm_compute. reflexivity. Qed.

(* ---- no two unanswered requests share an id, in every reachable state *)
Theorem C09_unanswered_ids_distinct :
  forall n p t s, 1 <= n -> Reachable n p t s -> NoDup (keys (inflight s)).
Proof. exact inflight_ids_unique. Qed.
Print Assumptions C09_unanswered_ids_distinct.
Example C09_unanswered_ids_distinct_ex : keys (inflight ex_s) = [1; 5].
Proof. vm_compute. reflexivity. Qed.

(* ---- "unanswered" is the right word: a registered request stays registered under its id until its final frame
        arrives or the handler is closed, whatever else happens (timeouts and overflow included) *)
Theorem C09_registered_until_answered :
  forall s o k r, NoDup (keys (inflight s)) -> In (k, r) (inflight s) -> ~ removes o k ->
    exists r', In (k, r') (inflight (fst (step s o))) /\ same_id r r'.
Proof. exact stays_registered. Qed.
Print Assumptions C09_registered_until_answered.
Example C09_registered_until_answered_ex : exists r, In (1, r) (inflight ex_s) /\ ~ removes (Tick 1000) 1.
Proof. eexists. split; [vm_compute; left; reflexivity|]. intros [[tag H]|H]; discriminate. Qed.

(* ---- with N unanswered requests a further send is refused (not blocked, no duplicate), nothing is registered
        and no free id is lost *)
Theorem C09_refused_at_capacity :
  forall n p t s k, 1 <= n -> Reachable n p t s -> zlen (inflight s) = n ->
    exists e s', step s (Send k) = (s', ORefused e) /\ (e = ENoId \/ e = ETooMany) /\
                 inflight s' = inflight s /\ Permutation (pool s') (pool s) /\ closed s' = closed s.
Proof. exact refused_at_capacity. Qed.
Print Assumptions C09_refused_at_capacity.
Example C09_refused_at_capacity_ex : zlen (inflight ex_s) = 2 /\ Reachable 2 2 100 ex_s.
Proof. split; [vm_compute; reflexivity|exact ex_s_reachable]. Qed.

(* ---- a managed send never hands out the id of an unanswered request, in ANY state (reachable or not) *)
Theorem C09_managed_send_never_duplicates :
  forall s, (exists s' id, step s SendManaged = (s', OAccepted id) /\ ~ In id (keys (inflight s))) \/
            (exists s' e, step s SendManaged = (s', ORefused e) /\ inflight s' = inflight s).
Proof. exact managed_send_outcomes. Qed.
Print Assumptions C09_managed_send_never_duplicates.

(* ---- explicit reuse of the id of an unanswered request is refused; the state does not change *)
Theorem C09_explicit_reuse_refused :
  forall s k, k <> 0 -> In k (keys (inflight s)) ->
    exists e, step s (SendExplicit k) = (s, ORefused e) /\ (e = EInUse \/ e = ETooMany \/ e = EClosed).
Proof. exact explicit_reuse_refused. Qed.
Print Assumptions C09_explicit_reuse_refused.
Example C09_explicit_reuse_refused_ex : In 5 (keys (inflight (run (init 3 2 100) [SendExplicit 5]))) /\ 5 <> 0.
Proof. split; [vm_compute; auto|discriminate]. Qed.

(* ---- the same over a whole history: from the moment a request is registered under k until its final frame arrives (or
        the handler is closed), WHATEVER happens in between - its read timeout fires (Tick), it is closed for too many
        pending pages, pages are read, other requests come and go - that request stays registered under k and an explicit
        send with id k is refused without changing anything. "Unanswered" includes "done but unanswered". *)
Theorem C09_reuse_refused_until_answered :
  forall s ops k r, Inv s -> k <> 0 -> In (k, r) (inflight s) -> Forall (fun o => ~ removes o k) ops ->
    (exists r', In (k, r') (inflight (run s ops)) /\ same_id r r') /\
    exists e, step (run s ops) (SendExplicit k) = (run s ops, ORefused e) /\ (e = EInUse \/ e = ETooMany).
Proof. exact reuse_refused_until_answered. Qed.
Print Assumptions C09_reuse_refused_until_answered.
(* non-vacuity, and the history of the seeded change C10-a: request 7 times out (Tick), then overflows nothing, is never
   answered; the second explicit send of 7 is refused with "in use" and the timed-out request is still the entry *)
Example C09_reuse_refused_until_answered_ex :
  let s := run (init 3 2 100) [SendExplicit 7] in
  let ops := [Tick 1000; SendManaged; Deliver 7 false 1; Recv 7] in
  Inv s /\ Forall (fun o => ~ removes o 7) ops /\
  (exists r, In (7, r) (inflight s) /\ exists r', lookup 7 (inflight (run s ops)) = Some r' /\ done r' = true /\ err r' = Some ETimeout) /\
  snd (step (run s ops) (SendExplicit 7)) = ORefused EInUse.
Proof.
  cbn zeta. split; [apply run_inv, init_inv; discriminate|].
  split; [repeat constructor; intros [[tag H]|H]; discriminate|].
  split; [eexists; split; [vm_compute; left; reflexivity|eexists; vm_compute; repeat split; reflexivity]|].
  vm_compute. reflexivity.
Qed.

(* ---- conservation, for mixed managed / explicit histories (full strength; F9 was repaired by a04ca4e) *)
Theorem C09_conservation :
  forall n p t s, 1 <= n -> Reachable n p t s -> closed s = false ->
    Permutation (pool s ++ managed_keys (inflight s)) (ids n).
Proof. exact conservation. Qed.
Print Assumptions C09_conservation.
Example C09_conservation_ex : pool ex_s ++ managed_keys (inflight ex_s) = [2; 1] /\ closed ex_s = false.
Proof. vm_compute. auto. Qed.
(* the former F9 history: two explicit requests fill N = 2, the managed send is refused, and id 1 is NOT lost *)
Example C09_conservation_former_F9 :
  pool (run (init 2 2 100) [SendExplicit 5; SendExplicit 6; SendManaged]) = [2; 1].
Proof. vm_compute. reflexivity. Qed.

Theorem C09_pool_and_managed_partition :
  forall n p t s, 1 <= n -> Reachable n p t s -> closed s = false ->
    NoDup (pool s ++ managed_keys (inflight s)) /\ forall x, In x (pool s ++ managed_keys (inflight s)) <-> 1 <= x <= n.
Proof. exact pool_and_managed_partition. Qed.
Print Assumptions C09_pool_and_managed_partition.

(* ---- recycling: once all requests are answered, N managed sends succeed again, with N distinct ids = 1..N *)
Theorem C09_recycling :
  forall n p t s, 1 <= n -> Reachable n p t s -> closed s = false -> inflight s = [] ->
    trace s (repeat SendManaged (Z.to_nat n)) = map OAccepted (pool s) /\ Permutation (pool s) (ids n).
Proof. exact recycling. Qed.
Print Assumptions C09_recycling.
Example C09_recycling_ex :
  let s := run (init 2 2 100) [SendManaged; SendManaged; Deliver 2 true 1; Deliver 1 true 2] in
  inflight s = [] /\ closed s = false /\ trace s (repeat SendManaged 2) = [OAccepted 2; OAccepted 1].
Proof. vm_compute. auto. Qed.

(* ... and from ANY reachable open state: answer every unanswered request (final frame), then N sends succeed *)
Theorem C09_recycling_after_answers :
  forall n p t s tagf, 1 <= n -> Reachable n p t s -> closed s = false ->
    let s1 := run s (map (fun k => Deliver k true (tagf k)) (keys (inflight s))) in
    trace s1 (repeat SendManaged (Z.to_nat n)) = map OAccepted (pool s1) /\ Permutation (pool s1) (ids n).
Proof. exact recycling_after_answers. Qed.
Print Assumptions C09_recycling_after_answers.

(* ---- refuted (F12): a Send refused because the outgoing queue is full leaves its request registered *)
Theorem C09_send_refusal_leaves_no_trace_refuted : ~ send_refusal_leaves_no_trace.
Proof. exact send_refusal_leaves_no_trace_refuted. Qed.
Print Assumptions C09_send_refusal_leaves_no_trace_refuted.

(* ================================================================== schedules (proofs/InflightSched.v)
   [creachable n c]: configuration c = (shared state, multiset of threads) is reachable from the initial one by ANY
   interleaving of the atomic actions of any number of sender threads (managed or explicit ids), the receive loop and
   closers; closed-flag loads and releases are over-approximated (may fail at any time).  [slive]: ghost list of the
   stream ids of the accepted, unanswered requests (added on acceptance, removed only by the receiver's delete for that
   id or by a closer's drain) - specified independently of the map. *)

(* ---- full statement (F10 repaired by e71cde5): in every interleaving no two accepted unanswered requests share a
        stream id - explicit ids included -, there are never more than N of them, the map never holds more than N
        entries, and the map's keys are exactly the live requests *)
Theorem C09_unanswered_ids_distinct_in_every_schedule :
  forall n c, 0 <= n -> creachable n c ->
  NoDup (slive (fst c)) /\ plen (slive (fst c)) <= n /\ slen (smap (fst c)) <= n /\ slive (fst c) = skeys (smap (fst c)).
Proof. exact unanswered_ids_distinct_in_every_schedule. Qed.
Print Assumptions C09_unanswered_ids_distinct_in_every_schedule.
(* non-vacuity: two senders with the SAME explicit id 7 both past the RLock-ed check; one gets registered *)
Example C09_unanswered_ids_distinct_in_every_schedule_ex :
  creachable 4 (mkSh [1; 2; 3; 4] [(7, false)] 4 [7], [SAccepted 7 false; S3 7 false; R0]).
Proof.
  unfold creachable, cinit. change (zseq' 1 (Z.to_nat 4)) with [1; 2; 3; 4].
  set (s0 := mkSh [1; 2; 3; 4] [] 4 []).
  eapply rt_trans; [apply rt_step; apply (c_spawn_sender s0 [R0] 7)|].
  eapply rt_trans; [apply rt_step; apply (c_spawn_sender s0 [S0 7; R0] 7)|].
  eapply rt_trans; [apply rt_step; apply c_thread; apply (t_explicit s0 7); discriminate|].
  eapply rt_trans; [apply rt_step; apply (c_permute s0 _ [S0 7; S2 7 false; R0]); apply perm_swap|].
  eapply rt_trans; [apply rt_step; apply c_thread; apply (t_explicit s0 7); discriminate|].
  eapply rt_trans; [apply rt_step; apply c_thread; apply (t_check_pass s0 7 false); [cbn; discriminate|cbn; tauto]|].
  eapply rt_trans; [apply rt_step; apply (c_permute s0 _ [S2 7 false; S3 7 false; R0]); apply perm_swap|].
  eapply rt_trans; [apply rt_step; apply c_thread; apply (t_check_pass s0 7 false); [cbn; discriminate|cbn; tauto]|].
  apply rt_step. apply (c_thread _ _ _ _ _ (t_insert [1; 2; 3; 4] [] 4 [] 7 false ltac:(cbn; discriminate) ltac:(cbn; tauto))).
Qed.
(* ... and from there the second sender can only be refused (the former F10 schedule no longer exists) *)
Theorem C09_former_F10_second_insert_is_refused :
  forall p n l t' s', tstep (mkSh p [(7, false)] n l) (S3 7 false) s' t' -> t' = S5 7 false /\ s' = mkSh p [(7, false)] n l.
Proof. exact former_F10_second_insert_is_refused. Qed.
Print Assumptions C09_former_F10_second_insert_is_refused.

(* ---- an accepted send never displaces a live request: a live id leaves the list only through the receiver's delete
        for that id or a closer's drain *)
Theorem C09_live_request_only_removed_by_receiver_or_closer :
  forall s t s' t' k, tstep s t s' t' -> In k (slive s) -> ~ In k (slive s') -> (exists b, t = R2 k b) \/ t = C0.
Proof. exact live_request_only_removed_by_receiver_or_closer. Qed.
Print Assumptions C09_live_request_only_removed_by_receiver_or_closer.

(* ---- the whole schedule invariant: free ids, ids in the hands of threads (borrowed, or removed and not yet given
        back) and ids of registered managed requests are pairwise disjoint, without repetition, inside [1,N] *)
Theorem C09_managed_ids_safe_in_every_schedule :
  forall n c, 0 <= n -> creachable n c -> SInv c.
Proof. exact managed_ids_safe_in_every_schedule. Qed.
Print Assumptions C09_managed_ids_safe_in_every_schedule.

(* ---- a sender about to insert its managed request: id in [1,N], carried by no registered managed request, held by no
        other thread, not in the pool *)
Theorem C09_managed_registration_exclusive_in_every_schedule :
  forall n s ts1 ts2 id, 0 <= n -> creachable n (s, ts1 ++ S3 id true :: ts2) ->
  1 <= id <= n /\ ~ In id (mkeys (smap s)) /\ ~ In id (held (ts1 ++ ts2)) /\ ~ In id (spool s).
Proof. exact managed_registration_is_exclusive. Qed.
Print Assumptions C09_managed_registration_exclusive_in_every_schedule.
Example C09_managed_registration_exclusive_ex : creachable 2 (mkSh [2] [] 2 [], [] ++ S3 1 true :: [R0]).
Proof.
  unfold creachable, cinit. change (zseq' 1 (Z.to_nat 2)) with [1; 2].
  eapply rt_trans; [apply rt_step; apply (c_spawn_sender _ [R0] 0)|].
  eapply rt_trans; [apply rt_step; apply c_thread; apply (t_borrow [1; 2] [] 2 [] 1 [2]); reflexivity|].
  apply rt_step. apply c_thread. apply (t_check_pass (mkSh [2] [] 2 []) 1 true); cbn; [discriminate|tauto].
Qed.

Theorem C09_accepted_managed_ids_bounded_in_every_schedule :
  forall n c id, 0 <= n -> creachable n c -> In (SAccepted id true) (snd c) -> 1 <= id <= n.
Proof. exact accepted_managed_ids_bounded_in_every_schedule. Qed.
Print Assumptions C09_accepted_managed_ids_bounded_in_every_schedule.

(* ================================================================== the two semantics (proofs/InflightRefine.v)
   [proj] forgets everything but (pool, id -> managed flag, N, key list).  The sequential semantics is the
   run-to-completion special case of the schedule semantics. *)
Theorem C09_send_is_a_schedule :
  forall s k ts, exists t1,
    clos_refl_trans _ cstep (proj s, S0 k :: ts) (proj (fst (step s (Send k))), t1 :: ts) /\
    match snd (step s (Send k)) with OAccepted id => t1 = SAccepted id (k =? 0) | _ => t1 = SRefused end.
Proof. exact send_is_a_schedule. Qed.
Print Assumptions C09_send_is_a_schedule.

Theorem C09_deliver_is_a_schedule :
  forall s k last tag ts,
    clos_refl_trans _ cstep (proj s, R0 :: ts) (proj (fst (step s (Deliver k last tag))), R0 :: ts).
Proof. exact deliver_is_a_schedule. Qed.
Print Assumptions C09_deliver_is_a_schedule.

Theorem C09_sequential_history_is_a_schedule :
  forall n p t ops, exists ts, clos_refl_trans _ cstep (cinit n) (proj (run (init n p t) ops), R0 :: ts).
Proof. exact sequential_history_is_a_schedule. Qed.
Print Assumptions C09_sequential_history_is_a_schedule.
Example C09_sequential_history_is_a_schedule_ex :
  proj (run (init 2 2 100) [SendManaged; SendExplicit 5; Deliver 1 true 3]) = mkSh [2; 1] [(5, false)] 2 [5].
Proof. vm_compute. reflexivity. Qed.
