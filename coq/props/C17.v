(* C17 - Deep copies are equal to and independent of their originals.
   Subject: gen/DeepCopy_gen.v (shapes of the 64 types with a deep-copy operation and the copy plans of their 174
   DeepCopy* methods), regenerated from {primitive,datatype,message,frame,segment}/*.go on every run.
   Statements only; proofs are in proofs/DeepCopyProofs.v.

   Naming: the `_partial` theorems quantify over the values typed by has_kind, which excludes one shape of Go value:
   a typed nil pointer stored in an interface field.  For that shape equality does NOT hold on the code as it is
   (C17_typed_nil_interface_refuted, replayed on the implementation by the check); independence holds trivially. *)
From Coq Require Import ZArith List String Bool Arith.
From GCNP Require Import model.DeepCopy gen.DeepCopy_gen proofs.DeepCopyProofs.
Import ListNotations.
Open Scope string_scope.

(* Every copy plan of the regenerated table is adequate for the declared shape of its type: shallow assignment only
   for kinds without mutable reach, make+copy only for slices of such kinds, every pointer / slice / map / interface
   field nil-guarded and re-allocated, every field of the declaration covered by the copy function. *)
Theorem C17_all_plans_adequate : table_adequate dc_env dc_ifaces dc_funcs dc_roots = true.
Proof. exact dc_table_adequate. Qed.
Print Assumptions C17_all_plans_adequate.

(* Soundness of the judgement, for ANY table (not only the generated one): if every function of a table is adequate,
   a run of an adequate plan on a well-typed value yields an equal value (after label erasure) all of whose mutable
   locations were allocated by the run, hence none is reachable from the original. *)
Theorem C17_plan_sound_partial : forall (E : tyenv) (I : ifenv) (F : ftable),
  forallb (fn_ok E I F) F = true ->
  forall fuel p k next v next' v',
  adequate E I F false k p = true -> has_kind E I v k ->
  Forall (fun l => l < next) (locs v) ->
  run F fuel p next v = Some (next', v') ->
  erase v' = erase v /\ Forall (fun l => next <= l < next') (locs v') /\
  (forall l, In l (locs v') -> ~ In l (locs v)).
Proof. exact plan_sound. Qed.
Print Assumptions C17_plan_sound_partial.

(* The property for every type with a deep-copy operation of /repo: x.DeepCopy() is equal to x, every mutable location
   reachable from it is fresh, and a write through a location of either is not observable through the other. *)
Theorem C17_copy_equal_and_independent_partial : forall r, In r dc_roots -> forall fuel next v next' v',
  has_kind dc_env dc_ifaces v (TPtr (TNamed r)) ->
  Forall (fun l => l < next) (locs v) ->
  run dc_funcs fuel (PCall (method_name r "DeepCopy")) next v = Some (next', v') ->
  erase v' = erase v /\ Forall (fun l => next <= l < next') (locs v') /\
  (forall l, In l (locs v') -> ~ In l (locs v)) /\
  (forall l w, In l (locs v') -> poke l w v = v) /\
  (forall l w, In l (locs v) -> poke l w v' = v').
Proof. exact dc_root_copy. Qed.
Print Assumptions C17_copy_equal_and_independent_partial.

(* x.DeepCopyInto(out) for every struct type *)
Theorem C17_copy_into_partial : forall f n fps, assoc f dc_funcs = Some (FStruct n fps) -> forall fuel next v next' v',
  has_kind dc_env dc_ifaces v (TNamed n) ->
  Forall (fun l => l < next) (locs v) ->
  run dc_funcs fuel (PCall f) next v = Some (next', v') ->
  erase v' = erase v /\ Forall (fun l => next <= l < next') (locs v') /\
  (forall l, In l (locs v') -> ~ In l (locs v)).
Proof. exact dc_into_copy. Qed.
Print Assumptions C17_copy_into_partial.

(* m.DeepCopyMessage() for all 40 message kinds and t.DeepCopyDataType() for all 7 data type kinds, by dynamic dispatch *)
Theorem C17_interface_copy_partial : forall i m,
  In (i, m) [("message.Message", "DeepCopyMessage"); ("datatype.DataType", "DeepCopyDataType")] ->
  forall fuel next v next' v',
  has_kind dc_env dc_ifaces v (TIface i) ->
  Forall (fun l => l < next) (locs v) ->
  run dc_funcs fuel (PNilOr (PCallIface m)) next v = Some (next', v') ->
  erase v' = erase v /\ Forall (fun l => next <= l < next') (locs v') /\
  (forall l, In l (locs v') -> ~ In l (locs v)).
Proof. exact dc_iface_copy. Qed.
Print Assumptions C17_interface_copy_partial.

(* a write through a location that a value does not reach does not change what is seen through that value *)
Theorem C17_unreached_write_unobservable : forall l w v, ~ In l (locs v) -> poke l w v = v.
Proof. exact poke_unreached. Qed.
Print Assumptions C17_unreached_write_unobservable.

(* the executable typing used by the correspondence check implies the typing the theorems are stated with *)
Theorem C17_typing_checker_sound : forall E I fuel v k, has_kind_b E I fuel v k = true -> has_kind E I v k.
Proof. exact has_kind_b_sound. Qed.
Print Assumptions C17_typing_checker_sound.

(* The code as it is: a typed nil pointer inside an interface is copied to the untyped nil interface. *)
Theorem C17_typed_nil_interface_refuted :
  exists v res, run dc_funcs 8 (PNilOr (PCallIface "DeepCopyMessage")) 0 v = Some res /\
                v = VIface "message.Ready" VNil /\ erase (snd res) <> erase v.
Proof. exact dc_typed_nil_interface_refuted. Qed.
Print Assumptions C17_typed_nil_interface_refuted.

(* ---- non-vacuity: a frame with nested pointers, a map of slices, a slice of pointers to structs holding slices, and an
   interface; its copy is computed by the model from the regenerated plans.  Labels are in allocation (pre-)order, so the
   copy of the frame labelled from 0 is the frame labelled from 19. *)
Open Scope Z_scope.
Definition ex_value (l : loc) (b : Z) : val := VPtr l (VStruct [VS 0; VSlice (S l) [VS b; VS (b + 1)]]).
Definition ex_options (o : nat) : val :=
  VPtr (o + 8)%nat (VStruct [VS 1; VSlice (o + 9)%nat [ex_value (o + 10)%nat 1; VNil];
                       VMap (o + 12)%nat [(VStr "a", ex_value (o + 13)%nat 7); (VStr "b", VNil)];
                       VS 0; VS 100; VS 0; VSlice (o + 15)%nat [VS 202]; VPtr (o + 16)%nat (VS 8); VNil; VStr "ks";
                       VPtr (o + 17)%nat (VS 5); VPtr (o + 18)%nat (VStruct [VS 1; VS 2; VS 3])]).
Definition ex_frame (o : nat) : val :=
  VPtr o (VStruct [
    VPtr (o + 1)%nat (VStruct [VS 0; VS 4; VS 2; VS 1; VS 7; VS 0]);
    VPtr (o + 2)%nat (VStruct [
      VPtr (o + 3)%nat (VArr (repeat (VS 171) 16));
      VMap (o + 4)%nat [(VStr "k", VSlice (o + 5)%nat [VS 1; VS 2]); (VStr "n", VNil)];
      VSlice (o + 6)%nat [VStr "w1"; VStr "w2"];
      VIface "message.Query" (VPtr (o + 7)%nat (VStruct [VStr "SELECT 1"; ex_options o]))])]).

Example C17_ex_root : In "frame.Frame" dc_roots.
Proof. vm_compute. tauto. Qed.

Example C17_ex_typed : has_kind dc_env dc_ifaces (ex_frame 0) (TPtr (TNamed "frame.Frame")).
Proof. apply (has_kind_b_sound _ _ 40). vm_compute. reflexivity. Qed.

Example C17_ex_old : Forall (fun l => l < 19)%nat (locs (ex_frame 0)).
Proof. apply Forall_lt_of_forallb. vm_compute. reflexivity. Qed.

Example C17_ex_run : run dc_funcs 40 (PCall (method_name "frame.Frame" "DeepCopy")) 19%nat (ex_frame 0) = Some (38%nat, ex_frame 19).
Proof. vm_compute. reflexivity. Qed.

(* the theorem applied to the example *)
Example C17_ex_conclusion :
  erase (ex_frame 19) = erase (ex_frame 0) /\
  (forall l w, In l (locs (ex_frame 19)) -> poke l w (ex_frame 0) = ex_frame 0) /\
  (forall l w, In l (locs (ex_frame 0)) -> poke l w (ex_frame 19) = ex_frame 19).
Proof.
  destruct (C17_copy_equal_and_independent_partial _ C17_ex_root _ _ _ _ _ C17_ex_typed C17_ex_old C17_ex_run) as (He & _ & _ & H1 & H2).
  auto.
Qed.

(* ... and the conclusion is not trivially true: the same write IS observable through a value that shares the location,
   which is what a shallow plan produces (and why PShallow is not adequate for this kind) *)
Example C17_ex_shared_write_observable :
  run dc_funcs 40 PShallow 19%nat (ex_frame 0) = Some (19%nat, ex_frame 0) /\
  poke 5%nat (fun _ => VNil) (ex_frame 0) <> ex_frame 0 /\
  adequate dc_env dc_ifaces dc_funcs false (TPtr (TNamed "frame.Frame")) PShallow = false.
Proof. repeat split; vm_compute; congruence. Qed.
