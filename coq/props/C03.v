(* C03 - Declared lengths equal emitted bytes; back-to-back frames decode in sequence.  Statements only. *)
From Coq Require Import ZArith List Bool.
From GCNP Require Import base.GoInt base.Bytes base.Codec gen.Constants_gen model.Prim model.DataType model.MsgTypes
  model.Frame model.MsgCodec model.MsgValid model.FrameValid proofs.PrimProofs proofs.DataTypeProofs
  proofs.FrameProofs proofs.MsgCodecProofs proofs.FrameFinal proofs.MsgResultsDataType
  gen.BodyPlan_gen proofs.BodyPlanAgree.
Import ListNotations.
Open Scope Z_scope.

(* the length every message reports for itself (EncodedLength) is the number of bytes its encoder writes *)
Theorem C03_message_length : forall v m mb, message_okb v m = true -> enc_message v m = Ok mb ->
  len_message v m = Ok (zlen mb).
Proof. exact message_length. Qed.
Print Assumptions C03_message_length.

(* the body length written in the header is the number of body bytes emitted, and the encoding is header ++ body;
   the decoder consumes exactly header + declared body length (it returns everything after as the rest) *)
Theorem C03_body_length : forall comp f,
  frame_valid f -> has (h_Flags (f_Header f)) HeaderFlagCompressed = false ->
  exists mb, enc_message (h_Version (f_Header f)) (bd_Message (f_Body f)) = Ok mb /\
    let body := body_bytes (f_Header f) (f_Body f) mb in
    (zlen body < 2147483648 ->
     encode_frame the_msg_codec comp f = Ok (encoded_plain f mb) /\
     zlen (encoded_plain f mb) = header_length (h_Version (f_Header f)) + zlen body /\
     uncompressed_body_length the_msg_codec (f_Header f) (f_Body f) = Ok (zlen body) /\
     forall rest, decode_frame the_msg_codec comp (encoded_plain f mb ++ rest) = DOk (frame_normal f (zlen body)) rest).
Proof. exact frame_codec_plain. Qed.
Print Assumptions C03_body_length.

(* ANY finite sequence of valid frames written back to back decodes to the same sequence, nothing left over or short *)
Theorem C03_stream : forall comp (fms : list (Frame * bytes)) rest,
  Forall (fun fm => plain_valid (fst fm) (snd fm)) fms ->
  decode_frames the_msg_codec comp (length fms)
    (concat (map (fun fm => encoded_plain (fst fm) (snd fm)) fms) ++ rest)
  = DOk (map (fun fm => frame_normal (fst fm) (zlen (body_bytes (f_Header (fst fm)) (f_Body (fst fm)) (snd fm)))) fms) rest.
Proof. exact frames_back_to_back. Qed.
Print Assumptions C03_stream.

(* primitive notations: LengthOf* = bytes written, over their whole domain (strings, maps, lists, [bytes], [value], inet) *)
Theorem C03_notation_lengths :
  (forall s, zlen (enc_string s) = len_string s) /\
  (forall s, zlen (enc_long_string s) = len_long_string s) /\
  (forall b, zlen (enc_bytes b) = len_bytes b) /\
  (forall b, zlen (enc_short_bytes b) = len_short_bytes b) /\
  (forall l, zlen (enc_string_list l) = len_string_list l) /\
  (forall m, zlen (enc_string_map m) = len_string_map m) /\
  (forall m, zlen (enc_string_multimap m) = len_string_multimap m) /\
  (forall m, zlen (enc_bytes_map m) = len_bytes_map m).
Proof.
  repeat split; [exact enc_string_len|exact enc_long_string_len|exact enc_bytes_len|exact enc_short_bytes_len|
                 exact enc_string_list_len|exact enc_string_map_len|exact enc_string_multimap_len|exact enc_bytes_map_len].
Qed.
Print Assumptions C03_notation_lengths.

(* data type descriptors of any nesting depth *)
Theorem C03_data_type_length : forall version t, dt_okb t = true -> len_dt version t = Ok (zlen (enc_dt t)).
Proof. exact len_dt_ok. Qed.
Print Assumptions C03_data_type_length.

Example C03_nonvacuous :
  plain_valid (NewFrame 4 1 M_Options) [] /\ plain_valid (NewFrame 3 2 M_Ready) [].
Proof.
  split; (split; [apply frame_okb_valid; vm_compute; reflexivity|]); (split; [vm_compute; reflexivity|]);
    (split; [vm_compute; reflexivity|vm_compute; reflexivity]).
Qed.

(* the length computation and the writer of a frame body are the interpretations of plans REGENERATED from
   frame/encode.go on every run (gen/BodyPlan_gen.v, go2coq unit "bodyplan"), and for every flag byte every optional
   part is counted by the length computation under exactly the condition under which the writer (and the reader) handle
   it - each part exactly once - whenever the header's direction equals the message's direction *)
Theorem C03_body_plans_regenerated : forall mc,
  (forall h b, uncompressed_body_length mc h b = run_len_plan mc h b len_body_plan) /\
  (forall h b, encode_body_uncompressed mc h b = run_enc_plan mc h b enc_body_plan) /\
  (forall flags r p, guards_agree flags r p = true).
Proof.
  exact (fun mc => conj (body_length_is_plan mc) (conj (encode_body_is_plan mc) plan_guards_agree)).
Qed.
Print Assumptions C03_body_plans_regenerated.
