(* C11 - CQL value codecs round-trip every value of every type.
   Subject: model/CqlWire.v + model/CqlContainers.v, tied to /repo/datacodec by the correspondence run of tools/props/C11.py.
   Level of the theorems: abstract CQL values (the canonical intermediate value each codec converts its Go source to).
   The Go-representation layer on top (which Go types a codec accepts and how extractors / injectors move values in and out of
   slices, arrays, maps, structs, pointers and interface{}) is NOT modelled in Gallina in this revision: it is covered by the directed
   search on the implementation (every (type, representation, boundary value) is round-tripped through the public Codec API into the
   same representation and into an untyped destination) - hence the suffix _partial on the representation statement below.
   Statements only; proofs in proofs/Cql*.v. *)
From Coq Require Import ZArith List String Bool.
From GCNP Require Import base.GoInt base.Bytes spec.SpecCql model.CqlWire model.CqlContainers model.CqlTyping model.CqlCases
  proofs.CqlBytesLemmas proofs.CqlVarintProofs proofs.CqlVintProofs proofs.CqlScalarProofs proofs.CqlContainerProofs
  model.CqlGoVal model.CqlGoCases proofs.CqlGoValProofs.
Import ListNotations.
Open Scope Z_scope.

(* every scalar, every value of the canonical intermediate type *)
Theorem C11_scalars : forall s x b, wt_scalar s x = true -> enc_scalar s x = OK (Some b) -> dec_scalar s (Some b) = OK x.
Proof. exact dec_enc_scalar. Qed.
Print Assumptions C11_scalars.

(* varint: all of Z (before fix d2db4ab: -1 -> 01, 128 -> 80 read back as -128, 0 -> empty read back as NULL) *)
Theorem C11_varint_all_integers : forall z : Z, readBigInt (Some (writeBigInt z)) = Some z.
Proof. exact readBigInt_writeBigInt. Qed.
Print Assumptions C11_varint_all_integers.

Theorem C11_vint_all_int64 : forall n rest, in_i 64 n = true -> readVint (writeVint n ++ rest) = OK (n, rest).
Proof. exact readVint_writeVint. Qed.
Print Assumptions C11_vint_all_int64.

(* every type tree of ANY depth and width, every protocol version, every well-typed value with NULLs at any position:
   decode (encode x) = x.  (The size hypothesis excludes only encodings of 2 GiB or more, whose [bytes] lengths do not fit an int32.) *)
Theorem C11_round_trip : forall v t x o,
  wf_type t = true -> wt t x = true -> m_encode v t x = OK o -> olen o < 2 ^ 31 -> m_decode v t o = OK x.
Proof. intros v t x o Hwf. exact (round_trip v t Hwf x o). Qed.
Print Assumptions C11_round_trip.

Definition c11_type : cqltype :=
  TList (TMap (TScalar SInet) (TTuple [TSet (TScalar SVarint); TUdt ["id"%string; "name"%string] [TScalar SUuid; TList (TScalar SVarchar)]; TScalar SDecimal])).
Definition c11_value : cval :=
  VList [VMap [(VInet [10; 0; 0; 1],
                VTuple [VList [VInt (- 2 ^ 127); VInt 0; VNull]; VUdt [VUuid (hx "000102030405060708090a0b0c0d0e0f"); VList [VBytes []; VBytes [97]]]; VDecimal (-3) (2 ^ 70)]);
               (VNull, VNull)];
         VNull; VMap []].
Definition rt_ok (v : Z) (t : cqltype) (x : cval) : bool :=
  match m_encode v t x with
  | OK (Some b) => (zlen b <? 2 ^ 31) && match m_decode v t (Some b) with OK y => cval_eq false y x | _ => false end
  | _ => false
  end.
Example C11_round_trip_nonvacuous :
  wf_type c11_type = true /\ wt c11_type c11_value = true /\ tdepth c11_type = 6%nat /\
  rt_ok 4 c11_type c11_value = true /\ rt_ok 2 (TSet (TScalar SVarchar)) (VList [VBytes []; VBytes [97]]) = true.
Proof. vm_compute. repeat split; reflexivity. Qed.

(* the hypothesis wf_type (no tuple / UDT type without fields) is needed: the only non-null value of such a type encodes to NULL
   (bytes.Buffer never written to yields a nil slice) - an observation, not filed as a defect *)
Example C11_fieldless_tuple_encodes_null :
  m_encode 4 (TTuple []) (VTuple []) = OK None /\ m_decode 4 (TTuple []) None = OK VNull.
Proof. vm_compute. split; reflexivity. Qed.

(* ---- Go-representation layer (model/CqlGoVal.v: Go types gty and values gval for slices, arrays, []interface{}, maps, map[string]interface{},
   structs with `cassandra` tags and case folding, pointers, nil-able values, interface{}; extractors, injectors, reflection helpers,
   PreferredGoType with the D1 pointer-wrapped keys; tied to the code by the correspondence run incl. destination reuse).

   Encode, full for the modelled universe: from EVERY modelled source representation, Encode is the abstract encoder applied to the CQL
   value the representation denotes (gabs) - so C12 and the round trip above apply to every accepted representation of a value. *)
Theorem C11_representations_encode : forall v t src x, gabs t src = Some x -> g_encode v t src = m_encode v t x.
Proof. exact g_encode_abs. Qed.
Print Assumptions C11_representations_encode.

(* Round trip at the representation level, by induction on the type tree: encode from ANY modelled representation, decode into a
   fresh destination of any Go type that can hold the value ([fits]: leaves, slices, arrays, interface{} / []interface{} with preferred
   types, structs / slices / arrays for tuples, slices / arrays for UDTs - in particular the same representation whenever it is of
   these kinds) returns a Go value denoting the same CQL value.  NOT covered by [fits] (correspondence run only): map destinations,
   UDT into struct-by-name / map[string]V.  Known exception on the encode side, visible in gabs: a NaN map key loses its value. *)
Theorem C11_representations_decode_fitting : forall v t gt g x o gt',
  wf_type t = true -> gabs t (Some (gt, g)) = Some x -> wt t x = true -> isnull x = false ->
  g_encode v t (Some (gt, g)) = OK o -> olen o < 2 ^ 31 -> fits t gt' x ->
  exists g', g_decode v t gt' (gzero gt') o = OK (false, g') /\ gabs t (elem_src gt' g') = Some x.
Proof. exact representations_round_trip. Qed.
Print Assumptions C11_representations_decode_fitting.

Definition c11_rep_type : cqltype := TList (TTuple [TScalar SInt; TList (TScalar SVarchar)]).
Definition c11_rep_gty : gty := GSlice (GStruct [("A", "", GPtr (GLeaf SInt LVal)); ("B", "", GSlice (GLeaf SVarchar LVal))]%string).
Definition c11_rep_val : gval :=
  GVSlice [GVStruct [GVPtr (GVLeaf (VInt 5)); GVSlice [GVLeaf (VBytes [97]); GVLeaf (VBytes [])]]; GVStruct [GVNilPtr; GVNilSlice]].
Definition c11_rep_abs : cval := VList [VTuple [VInt 5; VList [VBytes [97]; VBytes []]]; VTuple [VNull; VNull]].
Example C11_representations_nonvacuous :
  gabs c11_rep_type (Some (c11_rep_gty, c11_rep_val)) = Some c11_rep_abs /\ fits c11_rep_type c11_rep_gty c11_rep_abs /\
  match g_encode 4 c11_rep_type (Some (c11_rep_gty, c11_rep_val)) with
  | OK o => match g_decode 4 c11_rep_type c11_rep_gty (gzero c11_rep_gty) o with OK (false, g') => gval_eq g' c11_rep_val | _ => false end
  | _ => false
  end = true /\
  (* destination reuse: a shorter list decoded into a slice variable holding a longer value shrinks it; an array keeps its tail *)
  g_decode 4 (TList (TScalar SInt)) (GSlice (GLeaf SInt LVal)) (GVSlice [GVLeaf (VInt 7); GVLeaf (VInt 8); GVLeaf (VInt 9)]) (Some (hx "000000010000000400000001"))
    = OK (false, GVSlice [GVLeaf (VInt 1)]) /\
  g_decode 4 (TList (TScalar SInt)) (GArray 3 (GLeaf SInt LVal)) (GVArray [GVLeaf (VInt 7); GVLeaf (VInt 8); GVLeaf (VInt 9)]) (Some (hx "000000010000000400000001"))
    = OK (false, GVArray [GVLeaf (VInt 1); GVLeaf (VInt 8); GVLeaf (VInt 9)]).
Proof.
  split; [vm_compute; reflexivity|]. split; [|vm_compute; repeat split; reflexivity].
  cbn. repeat (constructor || split); reflexivity.
Qed.

(* No panic for ANY destination type of the modelled universe (typed maps keyed by interface{}, by arrays or structs holding interfaces, ...),
   any pre-filled content and ANY bytes: Decode yields a value or an error.  This is the typed-destination complement of
   C04_cql_decode_no_panic (untyped destination); it holds because mapInjector.setElem refuses keys that are not hashable (fix 280217e;
   before it, map<list<int>,int> into *map[interface{}]int reached reflect.Value.SetMapIndex and panicked). *)
Theorem C11_typed_decode_no_panic : forall v t gt d src, g_decode v t gt d src <> PANIC.
Proof. exact g_decode_no_panic. Qed.
Print Assumptions C11_typed_decode_no_panic.

Example C11_unhashable_key_refused :
  g_decode 4 (TMap (TList (TScalar SInt)) (TScalar SInt)) (GMap GIface (GLeaf SInt LVal)) GVNilMap
           (Some (hx "000000010000000c0000000100000004000000010000000400000007")) = ERR /\
  g_decode 4 (TMap (TList (TScalar SInt)) (TScalar SInt)) (GMap (GArray 1 (GLeaf SInt LVal)) (GLeaf SInt LVal)) GVNilMap
           (Some (hx "000000010000000c0000000100000004000000010000000400000007"))
    = OK (false, GVMap [(GVArray [GVLeaf (VInt 1)], GVLeaf (VInt 7))]).
Proof. split; vm_compute; reflexivity. Qed.

(* struct <-> UDT field lookup (fix 86b2b2c): a `cassandra` tag takes precedence over the Go field name, wherever the fields are declared:
   struct{Name string `cassandra:"full_name"`; Nick string `cassandra:"name"`} denotes the UDT value <name: Nick, full_name: Name> and is
   restored by Decode (before the fix Name was written to both CQL fields and Nick was lost). *)
Definition c11_person : cqltype := TUdt ["name"; "full_name"]%string [TScalar SVarchar; TScalar SVarchar].
Definition c11_person_gty : gty := GStruct [("Name", "full_name", GLeaf SVarchar LVal); ("Nick", "name", GLeaf SVarchar LVal)]%string.
Example C11_tag_precedence :
  gabs c11_person (Some (c11_person_gty, GVStruct [GVLeaf (VBytes [74]); GVLeaf (VBytes [106])])) = Some (VUdt [VBytes [106]; VBytes [74]]) /\
  match g_encode 4 c11_person (Some (c11_person_gty, GVStruct [GVLeaf (VBytes [74]); GVLeaf (VBytes [106])])) with
  | OK o => g_decode 4 c11_person c11_person_gty (gzero c11_person_gty) o
  | _ => ERR
  end = OK (false, GVStruct [GVLeaf (VBytes [74]); GVLeaf (VBytes [106])]).
Proof. split; vm_compute; reflexivity. Qed.

(* destinations that are pointers to an interface type other than interface{} (fix e96a38f): a defined empty interface (type V interface{},
   driver.Value) receives the preferred Go value, an interface with methods (fmt.Stringer) is refused - both covered by
   C11_typed_decode_no_panic; NULL zeroes either. *)
Example C11_named_interface_destinations :
  g_decode 4 (TTuple [TScalar SInt]) (GIfaceN true) GVNilIface (Some (hx "0000000400000001")) = ERR /\
  g_decode 4 (TTuple [TScalar SInt]) (GIfaceN false) GVNilIface (Some (hx "0000000400000001"))
    = OK (false, GVIface (GSlice GIface) (GVSlice [GVIface (GLeaf SInt LVal) (GVLeaf (VInt 1))])) /\
  g_decode 4 (TList (TScalar SInt)) (GIfaceN true) (GVIface (GLeaf SInt LVal) (GVLeaf (VInt 5))) None = OK (true, GVNilIface).
Proof. repeat split; vm_compute; reflexivity. Qed.

(* the known finding, in the model: a NaN key is not found again by the map extractor, its value is encoded as NULL *)
Example C11_nan_key_loses_value :
  gabs (TMap (TScalar SDouble) (TScalar SInt)) (Some (GMap (GLeaf SDouble LVal) (GLeaf SInt LVal), GVMap [(GVLeaf (VFloat 9221120237041090560), GVLeaf (VInt 5))]))
  = Some (VMap [(VFloat 9221120237041090560, VNull)]).
Proof. vm_compute. reflexivity. Qed.
