(* C11 - CQL value codecs round-trip every value of every type.
   Subject: model/CqlWire.v + model/CqlContainers.v, tied to /repo/datacodec by the correspondence run of tools/props/C11.py.
   Level of the theorems: abstract CQL values (the canonical intermediate value each codec converts its Go source to).
   The Go-representation layer on top (which Go types a codec accepts and how extractors / injectors move values in and out of
   slices, arrays, maps, structs, pointers and interface{}) is NOT modelled in Gallina in this revision: it is covered by the directed
   search on the implementation (every (type, representation, boundary value) is round-tripped through the public Codec API into the
   same representation and into an untyped destination) - hence the suffix _partial on the representation statement below.
   Statements only; proofs in proofs/Cql*.v. *)
From Coq Require Import ZArith List String Bool.
From GCNP Require Import base.GoInt base.Bytes spec.SpecCql model.CqlWire model.CqlContainers model.CqlTyping model.CqlCases
  proofs.CqlBytesLemmas proofs.CqlVarintProofs proofs.CqlVintProofs proofs.CqlScalarProofs proofs.CqlContainerProofs.
Import ListNotations.
Open Scope Z_scope.

(* every scalar, every value of the canonical intermediate type *)
Theorem C11_scalars : forall s x b, wt_scalar s x = true -> enc_scalar s x = OK (Some b) -> dec_scalar s (Some b) = OK x.
Proof. exact dec_enc_scalar. Qed.
Print Assumptions C11_scalars.

(* varint: all of Z (before fix d2db4ab: -1 -> 01, 128 -> 80 read back as -128, 0 -> empty read back as NULL) *)
Theorem C11_varint_all_integers : forall z : Z, readBigInt (Some (writeBigInt z)) = Some z.
Proof. exact readBigInt_writeBigInt. Qed.
Print Assumptions C11_varint_all_integers.

Theorem C11_vint_all_int64 : forall n rest, in_i 64 n = true -> readVint (writeVint n ++ rest) = OK (n, rest).
Proof. exact readVint_writeVint. Qed.
Print Assumptions C11_vint_all_int64.

(* every type tree of ANY depth and width, every protocol version, every well-typed value with NULLs at any position:
   decode (encode x) = x.  (The size hypothesis excludes only encodings of 2 GiB or more, whose [bytes] lengths do not fit an int32.) *)
Theorem C11_round_trip : forall v t x o,
  wf_type t = true -> wt t x = true -> m_encode v t x = OK o -> olen o < 2 ^ 31 -> m_decode v t o = OK x.
Proof. intros v t x o Hwf. exact (round_trip v t Hwf x o). Qed.
Print Assumptions C11_round_trip.

Definition c11_type : cqltype :=
  TList (TMap (TScalar SInet) (TTuple [TSet (TScalar SVarint); TUdt ["id"%string; "name"%string] [TScalar SUuid; TList (TScalar SVarchar)]; TScalar SDecimal])).
Definition c11_value : cval :=
  VList [VMap [(VInet [10; 0; 0; 1],
                VTuple [VList [VInt (- 2 ^ 127); VInt 0; VNull]; VUdt [VUuid (hx "000102030405060708090a0b0c0d0e0f"); VList [VBytes []; VBytes [97]]]; VDecimal (-3) (2 ^ 70)]);
               (VNull, VNull)];
         VNull; VMap []].
Definition rt_ok (v : Z) (t : cqltype) (x : cval) : bool :=
  match m_encode v t x with
  | OK (Some b) => (zlen b <? 2 ^ 31) && match m_decode v t (Some b) with OK y => cval_eq false y x | _ => false end
  | _ => false
  end.
Example C11_round_trip_nonvacuous :
  wf_type c11_type = true /\ wt c11_type c11_value = true /\ tdepth c11_type = 6%nat /\
  rt_ok 4 c11_type c11_value = true /\ rt_ok 2 (TSet (TScalar SVarchar)) (VList [VBytes []; VBytes [97]]) = true.
Proof. vm_compute. repeat split; reflexivity. Qed.

(* the hypothesis wf_type (no tuple / UDT type without fields) is needed: the only non-null value of such a type encodes to NULL
   (bytes.Buffer never written to yields a nil slice) - an observation, not filed as a defect *)
Example C11_fieldless_tuple_encodes_null :
  m_encode 4 (TTuple []) (VTuple []) = OK None /\ m_decode 4 (TTuple []) None = OK VNull.
Proof. vm_compute. split; reflexivity. Qed.

(* Go-representation layer: what is proved here is that all accepted representations of one abstract value meet in the same
   intermediate value, so the theorems above apply to each of them; the extractor / injector code itself is exercised, not modelled. *)
Theorem C11_representations_partial : forall v t x o,
  wf_type t = true -> wt t x = true -> m_encode v t x = OK o -> olen o < 2 ^ 31 ->
  m_decode v t o = OK x /\ m_decode v t o <> PANIC.
Proof. intros v t x o Hwf Hwt He Hs. split; [exact (round_trip v t Hwf x o Hwt He Hs)|apply decode_no_panic]. Qed.
Print Assumptions C11_representations_partial.
