(* C15 - Client and server exchange frames intact under every version and compression  (PARTIAL by nature).
   Subject: model/Conn.v, the framing state machine of /repo/client/client.go and /repo/client/server.go
   (readFrame / writeFrame, readSegment / writeSegment, readSelfContainedSegment, addMultiSegmentPayload,
   maybeSwitchToModernLayout, adoption of the STARTUP compression), parametric in a frame codec and a segment codec.
   Proved here: the framing / reassembly / layout-switch logic, for every list of frames and every segmentation.
   NOT proved (exercised by the harness `conn` on real sockets): TCP, partial reads, deadlines, the goroutine hand-off
   between the read / write loops and the user.
   This file holds statements only; proofs are in proofs/ConnProofs.v. *)
From Coq Require Import ZArith List Bool.
From GCNP Require Import base.GoInt base.Bytes base.Codec gen.Constants_gen model.Prim model.MsgTypes model.Frame model.Segment
  model.Conn model.MsgCodec model.MsgValid model.FrameValid proofs.FrameProofs proofs.SegmentProofs proofs.FrameFinal proofs.ConnProofs.
Import ListNotations.
Open Scope Z_scope.

(* ---- (1) legacy framing (v2-v4, DSE, and v5 before the switch): any list of frames that satisfy the frame codec law
   (written with compression ce, read with the receiver's compression), written back to back, is delivered in order,
   normalised, and the receiver's framing state does not change.  [calm]: no frame of the list is itself a layout
   switch / STARTUP / fatal error (those are the subject of (4)). *)
Theorem C15_legacy_delivery :
  forall (F H C : Type) (fc : fcodec F H C) (sc : scodec C) (r : role) (ce : C) (st : conn C)
         (fs : list F) (bss : list (list Z)) (nfs : list F),
  enveloped fc ce (c_comp st) fs bss nfs -> Forall (calm fc r) nfs -> c_modern st = false ->
  rx_all fc sc r st (concat bss) = (st, nfs, RxOk).
Proof. exact @legacy_delivery. Qed.
Print Assumptions C15_legacy_delivery.

(* ---- (2) modern framing, EVERY segmentation the specification allows: whole envelopes grouped into self-contained
   segments (payload <= 131071); one envelope of any size cut at ANY points - inside its 9-byte header as well - into any
   number of parts carried by non-self-contained segments, zero-length parts included (the code appends them and nothing
   else happens); any mixture, any number: the same frames are delivered in the same order, the accumulator is empty at the
   end and the state is unchanged.  By induction over the segmentation derivation; no bound on counts or sizes.
   (0 < fc_hlen: the header decoder needs at least one byte; it is 9 in both instances.)
   [calm_modern]: no frame of the list is a STARTUP (towards the server) / a fatal ERROR (towards the client).  READY and
   AUTHENTICATE are ordinary frames for a client that has already switched, so envelopes that are a bare 9-byte header with
   an empty body (OPTIONS towards the server, READY towards the client) are covered in every position of a segment. *)
Theorem C15_modern_delivery :
  forall (F H C : Type) (fc : fcodec F H C) (sc : scodec C) (r : role) (ce c : C)
         (fs : list F) (envs : list (list Z)) (nfs : list F) (ss : list wire_seg) (bss : list (list Z)) (st : conn C),
  0 < fc_hlen fc ->
  enveloped fc ce c fs envs nfs -> Forall (calm_modern fc r) nfs ->
  segmentation envs ss -> seg_encoded sc c ss bss ->
  c_modern st = true -> c_comp st = c -> c_target st = 0 -> c_acc st = [] ->
  rx_all fc sc r st (concat bss) = (st, nfs, RxOk).
Proof. exact @modern_delivery. Qed.
Print Assumptions C15_modern_delivery.

(* the same, with every law discharged: frames = header + opaque body (frame.RawCodec), segments of model/Segment.v;
   with LZ4 the payload compressor's contract (C08) is asked of each payload *)
Theorem C15_modern_delivery_raw :
  forall (r : role) (c : compr) (lz4p : Segment.compressor) (rfs : list RawFrame) (ss : list wire_seg) (st : conn compr),
  Forall raw_ok rfs -> Forall (calm_modern raw_fc r) rfs ->
  segmentation (map raw_env rfs) ss -> Forall (fun w => payload_ok lz4p c (ws_payload w)) ss ->
  c_modern st = true -> c_comp st = c -> c_target st = 0 -> c_acc st = [] ->
  exists wire, encode_wire (seg_sc lz4p) c ss = Ok wire /\
               rx_all raw_fc (seg_sc lz4p) r st wire = (st, rfs, RxOk).
Proof. exact modern_delivery_raw. Qed.
Print Assumptions C15_modern_delivery_raw.

(* ... and for the frames of model/Frame.v over the assembled message codecs (model/MsgCodec.v): version-valid frames
   (frame_ok over message_okb, as in C01) with a 9-byte header and the compression flag clear; the per-message laws are
   FrameFinal.H_rt_concrete / H_len_concrete, the kind of a message is kept by its normal form (ConnProofs.kind_concrete) *)
Theorem C15_modern_delivery_frames :
  forall (r : role) (c : compr) (lz4p : Segment.compressor) (lz4b snb : Frame.compressor)
         (fs : list Frame) (envs : list (list Z)) (nfs : list Frame) (ss : list wire_seg) (st : conn compr),
  envelopes_ok the_msg_codec msg_ok norm_message fs envs nfs -> Forall (calm_modern (cfc lz4b snb) r) nfs ->
  segmentation envs ss -> Forall (fun w => payload_ok lz4p c (ws_payload w)) ss ->
  c_modern st = true -> c_comp st = c -> c_target st = 0 -> c_acc st = [] ->
  exists wire, encode_wire (seg_sc lz4p) c ss = Ok wire /\
               rx_all (cfc lz4b snb) (seg_sc lz4p) r st wire = (st, nfs, RxOk).
Proof. exact modern_delivery_concrete. Qed.
Print Assumptions C15_modern_delivery_frames.

(* ONE self-contained segment whose payload ENDS with an envelope that is a bare header (empty body: OPTIONS, READY), after
   any number of whole envelopes - none at all included (rfs = []: the segment holds nothing but the 9 header bytes):
   every envelope is delivered, in order, the bare header last.  readSelfContainedSegment loops while ANY byte of the
   payload is unread (Conn.sc_more: remaining > 0), not while more than a header's worth is unread. *)
Theorem C15_header_only_tail_delivered :
  forall (r : role) (c : compr) (lz4p : Segment.compressor) (rfs : list RawFrame) (rf : RawFrame) (st : conn compr),
  Forall raw_ok (rfs ++ [rf]) -> Forall (calm_modern raw_fc r) (rfs ++ [rf]) -> olist (rf_Body rf) = [] ->
  let p := concat (map raw_env rfs) ++ hdr_bytes (rf_Header rf) in
  zlen p <= max_payload -> payload_ok lz4p c p ->
  c_modern st = true -> c_comp st = c -> c_target st = 0 -> c_acc st = [] ->
  zlen (hdr_bytes (rf_Header rf)) = 9 /\
  exists wire, encode_wire (seg_sc lz4p) c [WSelf p] = Ok wire /\
               rx_all raw_fc (seg_sc lz4p) r st wire = (st, rfs ++ [rf], RxOk).
Proof. exact header_only_tail_delivered. Qed.
Print Assumptions C15_header_only_tail_delivered.

(* a header that does not decode (from the first 9 accumulated bytes) aborts the connection: what the code does *)
Theorem C15_bad_header_aborts :
  forall (F H C : Type) (fc : fcodec F H C) (sc : scodec C) (r : role) (st : conn C) (p bs rest : list Z),
  c_modern st = true -> c_target st = 0 -> seg_law sc (c_comp st) false p bs ->
  fc_hlen fc <= zlen (c_acc st ++ p) -> fc_dec_hdr fc (c_acc st ++ p) = DErr ->
  rx_step fc sc r st (bs ++ rest) = (set_acc st 0 (c_acc st ++ p), [], RxAbort, rest).
Proof. exact @bad_header_aborts. Qed.
Print Assumptions C15_bad_header_aborts.

(* ---- (1) instantiated: legacy delivery of version-valid frames (compression flag clear) over the assembled message
   codecs, and the law of a compressed legacy frame when both ends hold the same lossless body compressor *)
Theorem C15_legacy_delivery_frames :
  forall (r : role) (lz4p : Segment.compressor) (lz4b snb : Frame.compressor)
         (fs : list Frame) (envs : list (list Z)) (nfs : list Frame) (st : conn compr),
  envelopes_ok the_msg_codec msg_ok norm_message fs envs nfs -> Forall (calm (cfc lz4b snb) r) nfs -> c_modern st = false ->
  rx_all (cfc lz4b snb) (seg_sc lz4p) r st (concat envs) = (st, nfs, RxOk).
Proof. exact legacy_delivery_concrete. Qed.
Print Assumptions C15_legacy_delivery_frames.

Theorem C15_legacy_compressed_frame_law :
  forall (lz4b snb : Frame.compressor) (c : compr) (k : Frame.compressor) (f : Frame) (mb y : list Z),
  body_comp lz4b snb c = Some k -> comp_lossless k ->
  frame_valid f -> 3 <= h_Version (f_Header f) ->
  has (h_Flags (f_Header f)) HeaderFlagCompressed = true ->
  mc_encode the_msg_codec (h_Version (f_Header f)) (bd_Message (f_Body f)) = Ok mb ->
  cmp_compress k (body_bytes (f_Header f) (f_Body f) mb) = Ok y -> zlen y < 2147483648 - 9 ->
  frame_law (cfc lz4b snb) c c f (hdr_bytes (with_body_length (f_Header f) (zlen y)) ++ y) (frame_normal f (zlen y)).
Proof. exact compressed_frame_law_concrete. Qed.
Print Assumptions C15_legacy_compressed_frame_law.

(* ---- (3) transmit conformance ("v5 wire bytes follow the specification").
   Legacy layout (all of v2-v4 / DSE, and the v5 handshake up to and including READY / AUTHENTICATE): the frame as the
   outgoing loop hands it over, encoded by the frame codec - no segment. *)
Theorem C15_tx_legacy :
  forall (F H C : Type) (fc : fcodec F H C) (sc : scodec C) (r : role) (st : conn C) (f : F),
  c_modern st = false ->
  tx_frame fc sc r st f =
  (match r with Server => maybe_switch fc st (tx_pre fc r st f) | Client => st end,
   fc_enc fc (c_comp st) (tx_pre fc r st f)).
Proof. exact @tx_legacy. Qed.
Print Assumptions C15_tx_legacy.

(* Modern layout: ONE self-contained segment whose payload is exactly ONE envelope whose compression flag is clear
   (whatever the caller or the server's outgoing loop had set) *)
Theorem C15_tx_modern_conformance :
  forall (F H C : Type) (fc : fcodec F H C) (sc : scodec C) (r : role) (st : conn C) (f : F)
         (env : list Z) (nf : F) (segb : list Z),
  c_modern st = true ->
  fc_compressed fc (fc_clear fc (tx_pre fc r st f)) = false ->
  frame_law fc (c_comp st) (c_comp st) (fc_clear fc (tx_pre fc r st f)) env nf ->
  seg_law sc (c_comp st) true env segb ->
  tx_frame fc sc r st f = (st, Ok segb) /\
  (forall rest, sc_dec sc (c_comp st) (segb ++ rest) = Ok ((true, env), rest)) /\
  (exists h rest', fc_dec_hdr fc env = DOk h rest' /\ fc_hcomp fc h = false /\ fc_target fc h = zlen env).
Proof. exact @tx_modern_conformance. Qed.
Print Assumptions C15_tx_modern_conformance.

(* the side condition of the previous theorem holds for both instances *)
Theorem C15_clear_flag :
  (forall rf, fc_compressed raw_fc (fc_clear raw_fc rf) = false) /\
  (forall mc lz4b snb fatal f, fc_compressed (ffc mc lz4b snb fatal) (fc_clear (ffc mc lz4b snb fatal) f) = false).
Proof. exact (conj raw_clear_not_compressed clear_not_compressed). Qed.
Print Assumptions C15_clear_flag.

(* ... and what one end writes, the other end delivers, frame by frame, any number of frames *)
Theorem C15_tx_rx_modern :
  forall (F H C : Type) (fc : fcodec F H C) (sc : scodec C) (rs rr : role) (c : C)
         (fs : list F) (envs : list (list Z)) (nfs : list F) (segbs : list (list Z)) (snd rcv : conn C),
  0 < fc_hlen fc ->
  tx_script fc sc rs c fs envs nfs segbs -> Forall (calm fc rr) nfs ->
  c_modern snd = true -> c_comp snd = c ->
  c_modern rcv = true -> c_comp rcv = c -> c_target rcv = 0 -> c_acc rcv = [] ->
  exists wire, tx_all fc sc rs snd fs = (snd, Ok wire) /\ rx_all fc sc rr rcv wire = (rcv, nfs, RxOk).
Proof. exact @tx_rx_modern. Qed.
Print Assumptions C15_tx_rx_modern.

(* the code as it is: an envelope of more than 131071 bytes cannot be SENT in modern layout (no outgoing envelope is
   ever split); the segment encoder refuses and the connection is aborted *)
Theorem C15_tx_modern_large_refused :
  forall (F H : Type) (fc : fcodec F H compr) (lz4p : Segment.compressor) (r : role) (st : conn compr) (f : F) (env : list Z),
  c_modern st = true -> fc_enc fc (c_comp st) (fc_clear fc (tx_pre fc r st f)) = Ok env -> zlen env > max_payload ->
  tx_frame fc (seg_sc lz4p) r st f = (st, Err).
Proof. exact @tx_modern_large_refused. Qed.
Print Assumptions C15_tx_modern_large_refused.

(* ---- (4) the layout switch.  In a lock-step session (each event: one frame written by one end and read by the other,
   travelling under the laws in the layout both ends are in; the handshake of handshake.go is one) every frame is
   delivered, both ends are in the same layout at every frame boundary, and the layout at the end is modern iff it was at
   the start or a switch frame went from the server to the client. *)
Theorem C15_session_sync :
  forall (F H C : Type) (fc : fcodec F H C) (sc : scodec C) (e : ends C) (xs : list (ev F)) (d : list (bool * F)) (e' : ends C),
  session fc sc e xs d e' ->
  c_modern (e_cl e) = c_modern (e_sv e) -> idle (e_cl e) -> idle (e_sv e) ->
  joint_run fc sc e xs = (e', d, RxOk) /\
  c_modern (e_cl e') = c_modern (e_sv e') /\
  c_modern (e_sv e') = (c_modern (e_sv e) || switches fc d) /\
  idle (e_cl e') /\ idle (e_sv e').
Proof. exact @session_sync. Qed.
Print Assumptions C15_session_sync.

(* the server adopts the COMPRESSION option of STARTUP whatever the case of its letters (strings.ToUpper, /repo 81d0138): every
   spelling of LZ4 (8), SNAPPY (64) and NONE (16) with letters of either case selects that algorithm - "lz4" and "snappy", as the
   specifications write them, included.  Finite domains, enumerated. *)
Theorem C15_startup_compression_any_case :
  forall b : list Z,
  (In b (case_variants bytes_LZ4) -> compr_of_option b = CLz4) /\
  (In b (case_variants bytes_SNAPPY) -> compr_of_option b = CSnappy) /\
  (In b (case_variants bytes_NONE) -> compr_of_option b = CNone).
Proof. exact startup_compression_any_case. Qed.
Print Assumptions C15_startup_compression_any_case.
Example C15_ex_startup_spellings :
  In [108; 122; 52] (case_variants bytes_LZ4) /\ In [115; 110; 97; 112; 112; 121] (case_variants bytes_SNAPPY) /\
  In [115; 78; 97; 80; 112; 89] (case_variants bytes_SNAPPY) /\ length (case_variants bytes_SNAPPY) = 64%nat /\
  compr_of_option [122; 115; 116; 100] = COther.
Proof. exact ex_startup_spellings. Qed.

(* never for v2-v4 / DSE *)
Theorem C15_session_legacy_versions :
  forall (lz4p : Segment.compressor) (e : ends compr) (xs : list (ev RawFrame)) (d : list (bool * RawFrame)) (e' : ends compr),
  session raw_fc (seg_sc lz4p) e xs d e' ->
  c_modern (e_cl e) = c_modern (e_sv e) -> idle (e_cl e) -> idle (e_sv e) ->
  Forall (fun x => In (h_Version (rf_Header (snd x))) [2; 3; 4; 65; 66]) d ->
  joint_run raw_fc (seg_sc lz4p) e xs = (e', d, RxOk) /\
  c_modern (e_sv e') = c_modern (e_sv e) /\ c_modern (e_cl e') = c_modern (e_sv e).
Proof. exact session_legacy_versions_raw. Qed.
Print Assumptions C15_session_legacy_versions.

(* for v5: with the READY or AUTHENTICATE that the server sends, at both ends *)
Theorem C15_session_v5_switch :
  forall (lz4p : Segment.compressor) (e : ends compr) (xs : list (ev RawFrame)) (d : list (bool * RawFrame)) (e' : ends compr)
         (rf : RawFrame),
  session raw_fc (seg_sc lz4p) e xs d e' ->
  c_modern (e_cl e) = c_modern (e_sv e) -> idle (e_cl e) -> idle (e_sv e) ->
  In (false, rf) d -> h_Version (rf_Header rf) = 5 ->
  h_OpCode (rf_Header rf) = OpCodeReady \/ h_OpCode (rf_Header rf) = OpCodeAuthenticate ->
  joint_run raw_fc (seg_sc lz4p) e xs = (e', d, RxOk) /\ c_modern (e_sv e') = true /\ c_modern (e_cl e') = true.
Proof. exact session_v5_switch_raw. Qed.
Print Assumptions C15_session_v5_switch.

(* ---- non-vacuity: concrete frames meet the hypotheses (proofs in ConnProofs.v apply the theorems above) *)
(* (1) v4: OPTIONS and QUERY written back to back *)
Example C15_ex_legacy :
  rx_all raw_fc ex_sc Server (conn0 CNone) (raw_env ex4_options ++ raw_env ex4_query) =
  (conn0 CNone, [ex4_options; ex4_query], RxOk).
Proof. exact ex_legacy. Qed.

(* (2) v5: four envelopes, the second cut into THREE non-self-contained segments (20 + 25 + 24 bytes), the last two
   together in one self-contained segment *)
Example C15_ex_modern_split :
  segmentation (map raw_env ex5_frames) ex5_segments /\
  exists wire, encode_wire ex_sc CNone ex5_segments = Ok wire /\
               rx_all raw_fc ex_sc Server modern0 wire = (modern0, ex5_frames, RxOk).
Proof. exact (conj ex5_segmentation ex_modern_split). Qed.
Example C15_ex_modern_split_shape :
  map (fun w => (ws_self w, zlen (ws_payload w))) ex5_segments = [(true, 29); (false, 20); (false, 25); (false, 24); (true, 23)].
Proof. vm_compute. reflexivity. Qed.

(* (2) v5: a cut INSIDE the 9-byte header and zero-length parts: a 29-byte envelope carried by non-self-contained segments of
   5, 0, 3, 21 and 0 bytes, then a self-contained segment *)
Example C15_ex_header_cut :
  segmentation (map raw_env [ex5_q1; ex5_q4]) ex5h_segments /\
  exists wire, encode_wire ex_sc CNone ex5h_segments = Ok wire /\
               rx_all raw_fc ex_sc Server modern0 wire = (modern0, [ex5_q1; ex5_q4], RxOk).
Proof. exact (conj ex5h_segmentation ex_header_cut). Qed.
Example C15_ex_header_cut_shape :
  map (fun w => (ws_self w, zlen (ws_payload w))) ex5h_segments = [(false, 5); (false, 0); (false, 3); (false, 21); (false, 0); (true, 9)].
Proof. vm_compute. reflexivity. Qed.

(* (2) v5: bare headers (empty bodies) at the end of self-contained segments, in every position, and alone.
   Towards the server: [QUERY OPTIONS] [OPTIONS] [OPTIONS OPTIONS QUERY OPTIONS] *)
Example C15_ex_header_only_server :
  segmentation (map raw_env ex5t_frames) ex5t_segments /\
  exists wire, encode_wire ex_sc CNone ex5t_segments = Ok wire /\
               rx_all raw_fc ex_sc Server modern0 wire = (modern0, ex5t_frames, RxOk).
Proof. exact (conj ex5t_segmentation ex_header_only_server). Qed.
Example C15_ex_header_only_server_shape :
  map (fun w => (ws_self w, zlen (ws_payload w))) ex5t_segments = [(true, 38); (true, 9); (true, 41)] /\
  map (fun rf => zlen (raw_env rf)) ex5t_frames = [29; 9; 9; 9; 9; 14; 9].
Proof. vm_compute. split; reflexivity. Qed.
(* Towards a client already in modern layout: [RESULT READY] [READY]; READY is not [calm] (it switches a legacy client) but
   it is [calm_modern] *)
Example C15_ex_header_only_client :
  (exists wire, encode_wire ex_sc CNone ex5c_segments = Ok wire /\
                rx_all raw_fc ex_sc Client modern0 wire = (modern0, ex5c_frames, RxOk)) /\
  ~ calm raw_fc Client (ex5_ready 2).
Proof. exact ex_header_only_client. Qed.
(* C15_header_only_tail_delivered is not vacuous: QUERY QUERY OPTIONS in one segment; OPTIONS alone in a segment *)
Example C15_ex_header_only_tail :
  (exists wire, encode_wire ex_sc CNone [WSelf (concat (map raw_env [ex5_q1; ex5_q3]) ++ hdr_bytes (rf_Header (ex5_o 9)))] = Ok wire /\
                rx_all raw_fc ex_sc Server modern0 wire = (modern0, [ex5_q1; ex5_q3; ex5_o 9], RxOk)) /\
  (exists wire, encode_wire ex_sc CNone [WSelf (hdr_bytes (rf_Header (ex5_o 9)))] = Ok wire /\
                rx_all raw_fc ex_sc Server modern0 wire = (modern0, [ex5_o 9], RxOk)).
Proof. exact ex_header_only_tail. Qed.

(* (3) v5: the server writes a RESULT on which the compression flag had been set *)
Example C15_ex_tx_modern :
  exists env segb,
    tx_frame raw_fc ex_sc Server modern0 ex5_result = (modern0, Ok segb) /\
    (forall rest, sc_dec ex_sc CNone (segb ++ rest) = Ok ((true, env), rest)) /\
    (exists h rest', decode_header env = DOk h rest' /\ hdr_compressed h = false /\ hdr_target h = zlen env).
Proof. exact ex_tx_modern. Qed.

(* (4) STARTUP, READY, QUERY, RESULT: v5 ends in modern layout at both ends, v4 stays in legacy layout *)
Example C15_ex_switch_v5 :
  session raw_fc ex_sc ends0 (ex_events 5) (ex_delivered 5) (mkEnds modern0 modern0) /\
  joint_run raw_fc ex_sc ends0 (ex_events 5) = (mkEnds modern0 modern0, ex_delivered 5, RxOk).
Proof. exact (conj ex_session_v5 (proj1 ex_switch_v5)). Qed.
Example C15_ex_no_switch_v4 :
  session raw_fc ex_sc ends0 (ex_events 4) (ex_delivered 4) ends0 /\
  joint_run raw_fc ex_sc ends0 (ex_events 4) = (ends0, ex_delivered 4, RxOk).
Proof. exact (conj ex_session_v4 (proj1 ex_no_switch_v4)). Qed.

(* C15_modern_delivery_frames is not vacuous: three OPTIONS frames of version 5 through the real message codecs; the first
   envelope (9 bytes) is cut inside its header into parts of 4, 0 and 5 bytes, the other two share a self-contained segment *)
Example C15_ex_frames_instance :
  exists wire, encode_wire ex_sc CNone exc_segments = Ok wire /\
               rx_all exc_fc ex_sc Server modern0 wire = (modern0, map exc_nf exf_frames, RxOk).
Proof. exact ex_concrete_instance. Qed.
