(* C06 - Segment round trip and v5 framing layout.
   Subject: model/Segment.v + model/Crc.v (hand models of segment/*.go, crc/*.go) over gen/Crc_gen.v, which is
   regenerated from the Go source on every run.  Statements only; proofs are in proofs/SegmentProofs.v,
   proofs/SegmentLayoutProofs.v, proofs/Crc24Proofs.v, proofs/Crc32Proofs.v. *)
From Coq Require Import ZArith NArith List Bool.
From GCNP Require Import base.GoInt base.Bytes gen.Crc_gen model.Crc model.Segment spec.SpecSegment
  proofs.Crc24Proofs proofs.Crc24SpecProofs proofs.Crc32Proofs proofs.SegmentProofs proofs.SegmentLayoutProofs.
Import ListNotations.
Open Scope Z_scope.

(* Every payload of at most 131071 bytes, any content, either flag, nil compressor, followed by any bytes:
   encoding succeeds and decoding returns flag, payload, lengths (uncompressed = payload length, compressed = 0),
   both checksums, and leaves exactly the following bytes unread. *)
Theorem C06_roundtrip_no_compressor :
  forall (sc : bool) (p rest : list Z), bytes_ok p -> Z.of_nat (length p) <= 131071 ->
  exists bs, encode_segment None sc p = Ok bs /\
    decode_segment None (bs ++ rest) =
    Ok (mkSegment (mkHeader sc (Z.of_nat (length p)) 0
                     (checksum_koopman (header_data_uncompressed sc (Z.of_nat (length p))) 3))
                  p (checksum_ieee p), rest).
Proof. exact roundtrip_none. Qed.
Print Assumptions C06_roundtrip_no_compressor.

(* The same with ANY compressor that meets [comp_contract] on this payload (it answers bytes, fewer than 2^31 of them,
   a non-empty answer for a non-empty payload, and Decompress inverts it): whichever branch the encoder takes
   (compressed payload, or the fallback that swaps the header lengths), decoding returns the payload, the flag,
   uncompressed length = payload length and compressed length = length transmitted compressed (0 in the fallback). *)
Theorem C06_roundtrip_with_compressor :
  forall (k : compressor) (sc : bool) (p rest : list Z),
  bytes_ok p -> Z.of_nat (length p) <= 131071 -> comp_contract k p ->
  exists bs cp, cmp k p = Ok cp /\ encode_segment (Some k) sc p = Ok bs /\
    exists hd transmitted,
    decode_segment (Some k) (bs ++ rest) =
    Ok (mkSegment (mkHeader sc (Z.of_nat (length p)) (compressed_len_of p cp) (checksum_koopman hd 5))
                  p (checksum_ieee transmitted), rest).
Proof. exact roundtrip_comp. Qed.
Print Assumptions C06_roundtrip_with_compressor.

(* Payloads of more than 131071 bytes are refused, with or without compressor, whatever the compressor does. *)
Theorem C06_refuse :
  forall (c : option compressor) (sc : bool) (p : list Z), Z.of_nat (length p) > 131071 -> encode_segment c sc p = Err.
Proof. exact encode_refuses_long. Qed.
Print Assumptions C06_refuse.

(* ---- layout against spec/SpecSegment.v (native_protocol_v5.spec section 2.1, 2.2, 2.3.2) ---- *)

(* the numeric parameters the Go source declares are the specification's (a changed constant breaks this) *)
Theorem C06_parameters_agree :
  crc24Init = spec_crc24_init /\ crc24Poly = spec_crc24_poly /\ crc32InitialBytes = spec_crc32_seed /\
  crc32_poly = spec_crc32_poly /\ crc32InitialStart = 0 /\ MaxPayloadLength = spec_max_payload /\ mask32 = all_ones32.
Proof. exact parameters_agree. Qed.
Print Assumptions C06_parameters_agree.

(* the checksum the code computes over the payload is the specification's seeded CRC-32 (textbook bit-at-a-time form) *)
Theorem C06_crc32_is_spec : forall p, bytes_ok p -> Z.of_N (checksum_ieee p) = spec_crc32 p.
Proof. exact crc32_model_is_spec. Qed.
Print Assumptions C06_crc32_is_spec.

(* the checksum the code computes over a header word (xor a byte into bits 16..23 of a uint32, 8 shift steps per byte) is the
   specification's textbook bit-at-a-time CRC-24 of the little-endian header bytes, for every word and every length *)
Theorem C06_crc24_is_spec : forall hd n, Z.of_N (checksum_koopman hd n) = spec_crc24 (put_le n hd).
Proof. exact checksum_koopman_is_spec. Qed.
Print Assumptions C06_crc24_is_spec.

(* LAYOUT, nil compressor (section 2.1): the emitted bytes are exactly: the little-endian 3-byte word  len + 2^17*flag,
   the textbook CRC-24 of those 3 bytes little-endian, the payload, the seeded CRC-32 of the payload little-endian *)
Theorem C06_layout :
  forall sc p, bytes_ok p -> Z.of_nat (length p) <= 131071 ->
  encode_segment None sc p = Ok (spec_uncompressed_segment sc p).
Proof. exact layout_none. Qed.
Print Assumptions C06_layout.

(* LAYOUT with a compressor: section 2.2 (5-byte word  clen + 2^17*ulen + 2^34*flag, CRC-24, the compressed bytes, CRC-32 of
   the compressed bytes) when compression pays, else the fallback of section 2.3.2 in Cassandra's reading: uncompressed-length
   field 0, compressed-length field = payload length, the payload itself and its CRC-32 *)
Theorem C06_layout_with_compressor :
  forall k sc p cp, bytes_ok p -> Z.of_nat (length p) <= 131071 ->
  cmp k p = Ok cp -> bytes_ok cp -> Z.of_nat (length cp) < 2147483648 ->
  encode_segment (Some k) sc p =
  Ok (if Z.of_nat (length cp) <=? Z.of_nat (length p)
      then spec_compressed_segment sc p cp
      else spec_fallback_segment sc p).
Proof. exact layout_comp. Qed.
Print Assumptions C06_layout_with_compressor.

(* the decoder accepts both readings of section 2.3.2 (uncompressed-length field 0, as emitted; compressed-length field 0,
   as the prose says) *)
Theorem C06_decoder_accepts_both_fallbacks :
  forall k sc p rest, bytes_ok p -> 1 <= Z.of_nat (length p) <= 131071 ->
  (exists s, decode_segment (Some k) (write_header (header_data_compressed sc 0 (Z.of_nat (length p))) 5 ++ p ++ write_crc32 (checksum_ieee p) ++ rest) = Ok (s, rest)
             /\ seg_data s = p /\ is_self_contained (seg_header s) = sc) /\
  (exists s, decode_segment (Some k) (write_header (header_data_compressed sc (Z.of_nat (length p)) 0) 5 ++ p ++ write_crc32 (checksum_ieee p) ++ rest) = Ok (s, rest)
             /\ seg_data s = p /\ is_self_contained (seg_header s) = sc).
Proof. exact decoder_accepts_both_fallbacks. Qed.
Print Assumptions C06_decoder_accepts_both_fallbacks.

(* the integer literals of the hand-modelled Go functions (shifts, masks, loop bounds) are the ones the model was written for *)
Theorem C06_literals_pinned :
  ChecksumKoopman_literals = [0; 16; 8; 0; 8; 1; 16777216; 0] /\
  encodeHeaderUncompressed_literals = [17; 1] /\
  encodeHeaderCompressed_literals = [34; 17; 1] /\
  writeHeaderDataAndCrc_literals = [0; 8; 0; 8] /\
  decodeSegmentHeader_literals = [0; 8; 0; 8; 0; 17; 0; 0; 17; 1; 1] /\
  encodeHeaderUncompressed_flagOffset = 17 /\ encodeHeaderCompressed_flagOffset = 34 /\
  encodeHeaderUncompressed_headerLength = UncompressedHeaderLength /\ encodeHeaderCompressed_headerLength = CompressedHeaderLength.
Proof. exact literals_pinned. Qed.
Print Assumptions C06_literals_pinned.

(* non-vacuity: concrete instances (a 3-byte payload, both flags; an identity "compressor" meets comp_contract;
   the standard check value of CRC-32 through the model's definition, un-seeded) *)
Example C06_nonvacuous :
  bytes_ok [1; 2; 255] /\
  encode_segment None true [1; 2; 255] = Ok [3; 0; 2; 66; 150; 124; 1; 2; 255; 224; 5; 165; 17] /\
  (exists s, decode_segment None ([3; 0; 2; 66; 150; 124; 1; 2; 255; 224; 5; 165; 17] ++ [9]) = Ok (s, [9]) /\ seg_data s = [1; 2; 255]) /\
  comp_contract (mkCompressor (fun x => Ok x) (fun x => Ok x)) [1; 2; 255] /\
  crc32_update 0 [49; 50; 51; 52; 53; 54; 55; 56; 57] = 3421780262%N.
Proof. exact nonvacuous_c06. Qed.
