(* C06 - Segment round trip and v5 framing layout.
   Subject: model/Segment.v + model/Crc.v (hand models of segment/*.go, crc/*.go) over gen/Crc_gen.v, which is
   regenerated from the Go source on every run.  Statements only; proofs are in proofs/SegmentProofs.v,
   proofs/SegmentLayoutProofs.v, proofs/Crc24Proofs.v, proofs/Crc32Proofs.v. *)
From Coq Require Import ZArith NArith List Bool.
From GCNP Require Import base.GoInt base.Bytes gen.Crc_gen model.Crc model.Segment spec.SpecSegment
  proofs.Crc24Proofs proofs.Crc32Proofs proofs.SegmentProofs.
Import ListNotations.
Open Scope Z_scope.

(* Every payload of at most 131071 bytes, any content, either flag, nil compressor, followed by any bytes:
   encoding succeeds and decoding returns flag, payload, lengths (uncompressed = payload length, compressed = 0),
   both checksums, and leaves exactly the following bytes unread. *)
Theorem C06_roundtrip_no_compressor :
  forall (sc : bool) (p rest : list Z), bytes_ok p -> Z.of_nat (length p) <= 131071 ->
  exists bs, encode_segment None sc p = Ok bs /\
    decode_segment None (bs ++ rest) =
    Ok (mkSegment (mkHeader sc (Z.of_nat (length p)) 0
                     (checksum_koopman (header_data_uncompressed sc (Z.of_nat (length p))) 3))
                  p (checksum_ieee p), rest).
Proof. exact roundtrip_none. Qed.
Print Assumptions C06_roundtrip_no_compressor.

(* The same with ANY compressor that meets [comp_contract] on this payload (it answers bytes, fewer than 2^31 of them,
   a non-empty answer for a non-empty payload, and Decompress inverts it): whichever branch the encoder takes
   (compressed payload, or the fallback that swaps the header lengths), decoding returns the payload, the flag,
   uncompressed length = payload length and compressed length = length transmitted compressed (0 in the fallback). *)
Theorem C06_roundtrip_with_compressor :
  forall (k : compressor) (sc : bool) (p rest : list Z),
  bytes_ok p -> Z.of_nat (length p) <= 131071 -> comp_contract k p ->
  exists bs cp, cmp k p = Ok cp /\ encode_segment (Some k) sc p = Ok bs /\
    exists hd transmitted,
    decode_segment (Some k) (bs ++ rest) =
    Ok (mkSegment (mkHeader sc (Z.of_nat (length p)) (compressed_len_of p cp) (checksum_koopman hd 5))
                  p (checksum_ieee transmitted), rest).
Proof. exact roundtrip_comp. Qed.
Print Assumptions C06_roundtrip_with_compressor.

(* Payloads of more than 131071 bytes are refused, with or without compressor, whatever the compressor does. *)
Theorem C06_refuse :
  forall (c : option compressor) (sc : bool) (p : list Z), Z.of_nat (length p) > 131071 -> encode_segment c sc p = Err.
Proof. exact encode_refuses_long. Qed.
Print Assumptions C06_refuse.
