(* C01 - Frame round-trip fidelity for every message, version and compression.
   Subject: model/Frame.v + model/Msg*.v (hand-written mirror of frame/*.go, message/*.go, primitive/*.go,
   datatype/*.go), tied to the code by the correspondence run of tools/props/C01.py.  Statements only. *)
From Coq Require Import ZArith List Bool.
From GCNP Require Import base.GoInt base.Bytes base.Codec gen.Constants_gen model.Prim model.DataType model.MsgTypes
  model.Frame model.MsgCodec model.MsgValid model.FrameValid proofs.FrameProofs proofs.MsgCodecProofs proofs.FrameFinal
  gen.Flags_gen model.MsgRequests model.MsgResults proofs.FlagsGenAgree gen.BodyPlan_gen proofs.BodyPlanAgree.
Import ListNotations.
Open Scope Z_scope.

(* the computable validity predicate (frame_okb: only features of the frame's version, strings <= 65535 bytes,
   counts in range, flags consistent with the optional body parts, mandatory fields present) implies the premise *)
Theorem C01_valid_is_decidable : forall f, frame_okb f = true -> frame_valid f.
Proof. exact frame_okb_valid. Qed.
Print Assumptions C01_valid_is_decidable.

(* every valid message of every version: the message decoder inverts the message encoder, whatever follows *)
Theorem C01_message_roundtrip : forall v m, message_okb v m = true ->
  exists mb, enc_message v m = Ok mb /\
             forall rest, dec_message v (msg_opcode m) (mb ++ rest) = DOk (norm_message v m) rest.
Proof. exact message_roundtrip. Qed.
Print Assumptions C01_message_roundtrip.

(* uncompressed frames, with or without a compressor configured: EncodeFrame succeeds and DecodeFrame of the bytes,
   followed by ANY further bytes, returns the frame (message in normal form, body length filled in) and exactly the rest *)
Theorem C01_roundtrip_plain : forall comp f,
  frame_valid f -> has (h_Flags (f_Header f)) HeaderFlagCompressed = false ->
  exists mb, enc_message (h_Version (f_Header f)) (bd_Message (f_Body f)) = Ok mb /\
    let body := body_bytes (f_Header f) (f_Body f) mb in
    (zlen body < 2147483648 ->
     encode_frame the_msg_codec comp f = Ok (encoded_plain f mb) /\
     zlen (encoded_plain f mb) = header_length (h_Version (f_Header f)) + zlen body /\
     uncompressed_body_length the_msg_codec (f_Header f) (f_Body f) = Ok (zlen body) /\
     forall rest, decode_frame the_msg_codec comp (encoded_plain f mb ++ rest) = DOk (frame_normal f (zlen body)) rest).
Proof. exact frame_codec_plain. Qed.
Print Assumptions C01_roundtrip_plain.

(* frames with the compression flag, for ANY lossless body compressor (the contract of C08) *)
Theorem C01_roundtrip_compressed : forall c f,
  frame_valid f -> has (h_Flags (f_Header f)) HeaderFlagCompressed = true -> comp_lossless c ->
  exists mb y, enc_message (h_Version (f_Header f)) (bd_Message (f_Body f)) = Ok mb /\
    cmp_compress c (body_bytes (f_Header f) (f_Body f) mb) = Ok y /\
    (zlen y < 2147483648 ->
     encode_frame the_msg_codec (Some c) f = Ok (hdr_bytes (with_body_length (f_Header f) (zlen y)) ++ y) /\
     forall rest, decode_frame the_msg_codec (Some c) ((hdr_bytes (with_body_length (f_Header f) (zlen y)) ++ y) ++ rest)
                  = DOk (frame_normal f (zlen y)) rest).
Proof. exact frame_codec_compressed. Qed.
Print Assumptions C01_roundtrip_compressed.

(* the normal form is what the wire can carry: same opcode and direction; normalising twice changes nothing further
   (per group: request_group_norm_ok, norm_error_group_ok, result_group_norm) *)
Theorem C01_normal_form_keeps_identity : forall v m,
  msg_opcode (norm_message v m) = msg_opcode m /\ msg_is_response (norm_message v m) = msg_is_response m.
Proof. exact norm_message_opcode. Qed.
Print Assumptions C01_normal_form_keeps_identity.

(* non-vacuity: concrete valid frames of several kinds and versions *)
Definition ex_query_v4 : Frame :=
  {| f_Header := {| h_IsResponse := false; h_Version := 4; h_Flags := 2; h_StreamId := 7; h_OpCode := 7; h_BodyLength := 0 |};
     f_Body := {| bd_TracingId := None; bd_CustomPayload := []; bd_Warnings := None;
                  bd_Message := M_Query {| q_Query := [83;69;76;69;67;84]; q_Options := None |} |} |}.
Definition ex_error_v5 : Frame :=
  {| f_Header := {| h_IsResponse := true; h_Version := 5; h_Flags := 8; h_StreamId := -1; h_OpCode := 0; h_BodyLength := 0 |};
     f_Body := {| bd_TracingId := None; bd_CustomPayload := []; bd_Warnings := Some [[119]];
                  bd_Message := M_WriteTimeout {| wt_ErrorMessage := [120]; wt_Consistency := 1; wt_Received := 1; wt_BlockFor := 2;
                                                  wt_WriteType := [67;65;83]; wt_Contentions := 3 |} |} |}.
Example C01_nonvacuous :
  frame_okb ex_query_v4 = true /\ frame_okb ex_error_v5 = true /\
  (match encode_frame the_msg_codec None ex_error_v5 with
   | Ok bs => match decode_frame the_msg_codec None (bs ++ [1;2;3]) with
              | DOk f rest => match rest with [1;2;3] => true | _ => false end
              | _ => false end
   | Err => false end) = true.
Proof. vm_compute. repeat split; reflexivity. Qed.

(* the flag words that drive both writer and reader (QueryOptions/Batch/Prepare/VariablesMetadata/RowsMetadata .Flags())
   are REGENERATED from message/*.go on every run (gen/Flags_gen.v, go2coq unit "flags"); for every record value the
   regenerated function returns what the definition used by the round-trip theorems above returns (Err = the nil-column
   panic of haveSameTable, on both sides) *)
Theorem C01_flags_regenerated_agree :
  (forall o, QueryOptions_Flags_gen o = Ok (QueryOptions_Flags o)) /\
  (forall m, Batch_Flags_gen m = Ok (Batch_Flags m)) /\
  (forall m, Prepare_Flags_gen m = Ok (Prepare_Flags m)) /\
  (forall m, VariablesMetadata_Flags_gen m = VariablesMetadata_Flags m) /\
  (forall m, RowsMetadata_Flags_gen m = RowsMetadata_Flags m).
Proof. exact flags_regenerated_agree. Qed.
Print Assumptions C01_flags_regenerated_agree.

(* the body prefix (tracing id, warnings, custom payload, then the message): which part, in which order, under which
   guard is REGENERATED from frame/encode.go and frame/decode.go on every run (gen/BodyPlan_gen.v, go2coq unit
   "bodyplan"); the writer and the reader of the model are the interpretation of the regenerated plans, which visit
   the same parts in the same order *)
Theorem C01_body_plan_regenerated : forall mc,
  (forall h b, encode_body_uncompressed mc h b = run_enc_plan mc h b enc_body_plan) /\
  (forall h bs, decode_body_parts mc h bs = finish_body (run_dec_plan mc h dec_body_plan (None, None, [], None) bs)) /\
  map fst enc_body_plan = map fst dec_body_plan /\
  map fst enc_body_plan = [PTracing; PWarnings; PPayload; PMessage].
Proof.
  exact (fun mc => conj (encode_body_is_plan mc) (conj (decode_body_is_plan mc) plan_order_agrees)).
Qed.
Print Assumptions C01_body_plan_regenerated.
