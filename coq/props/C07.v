(* C07 - Corrupted segments are rejected, never delivered.
   Subject: model/Segment.v + model/Crc.v over gen/Crc_gen.v (CRC parameters regenerated from crc/*.go on every run; a
   changed polynomial, initial value or seed re-runs the kernel computations below).
   Statements only; proofs in proofs/Crc24Proofs.v (affinity), Crc24Distance.v (enumerator + soundness), Crc24Enum.v
   (the exhaustive kernel computation), Crc32Proofs.v (LFSR, potential function), Crc32Detect.v, SegmentCorruptProofs.v.

   Error patterns.  Header: [ed] is xor-ed onto the little-endian header word, [ec] onto the 24-bit checksum field; every
   bit-flip pattern over the 3+3 / 5+3 header bytes is such a pair, and its weight is popcount ed + popcount ec.
   Payload: [e] is xor-ed bytewise onto the payload as transmitted, [ec] onto the 32-bit checksum field; [error_bits e ec] is
   the pattern as a bit list in the order the reflected CRC consumes the bits (byte order, least significant bit first). *)
From Coq Require Import ZArith NArith List Bool.
From GCNP Require Import base.GoInt base.Bytes gen.Crc_gen model.Crc model.Segment
  proofs.Crc24Proofs proofs.Crc24Distance proofs.Crc24Enum proofs.Crc32Proofs proofs.Crc32Detect proofs.SegmentProofs proofs.SegmentCorruptProofs.
Import ListNotations.
Open Scope Z_scope.

(* CRC-24 is affine over GF(2): the checksum of a corrupted header is the checksum of the header xor a function of the
   error alone (so detection does not depend on the header value) *)
Theorem C07_crc24_affine :
  forall len d e, checksum_koopman (N.lxor d e) len = N.lxor (checksum_koopman d len) (crc24_lin e len).
Proof. exact checksum_koopman_affine. Qed.
Print Assumptions C07_crc24_affine.

(* minimum distance 8 of the code, 24- and 40-bit headers: no data error of weight 1..7 has a syndrome light enough
   (exhaustive over all 2 325 + 23 193 039 patterns of weight <= 7, inside the kernel) *)
Theorem C07_crc24_min_distance :
  (forall ed, (ed < 2 ^ 24)%N -> ed <> 0%N -> (popcount ed <= 7)%nat -> (8 <= popcount ed + popcount (crc24_lin ed 3))%nat) /\
  (forall ed, (ed < 2 ^ 40)%N -> ed <> 0%N -> (popcount ed <= 7)%nat -> (8 <= popcount ed + popcount (crc24_lin ed 5))%nat).
Proof. exact (conj (min_distance 3 enumerated_24) (min_distance 5 enumerated_40)). Qed.
Print Assumptions C07_crc24_min_distance.

(* HEADER: any 1..7 flipped bits anywhere in header + CRC-24, any header word, both header sizes, whatever follows:
   DecodeSegment reports an error *)
Theorem C07_header :
  forall (c : option compressor) (hd ed ec : N) (tail : list Z),
  (hd < 2 ^ (8 * N.of_nat (hlen_of c)))%N -> (ed < 2 ^ (8 * N.of_nat (hlen_of c)))%N -> (ec < 2 ^ 24)%N ->
  (1 <= popcount ed + popcount ec <= 7)%nat ->
  decode_segment c (xor_bytes (write_header hd (hlen_of c)) (put_le (hlen_of c) ed ++ put_le crc24_len ec) ++ tail) = Err.
Proof. exact corrupted_header_rejected. Qed.
Print Assumptions C07_header.

(* the byte-wise CRC-32 of the code is the bit-serial reflected LFSR over the payload bits *)
Theorem C07_crc32_is_lfsr :
  forall bs, bytes_ok bs -> checksum_ieee bs = N.lxor (crc32_run seeded_state (bits_of_bytes bs)) mask32.
Proof. exact checksum_ieee_run. Qed.
Print Assumptions C07_crc32_is_lfsr.

(* a corrupted payload || checksum is accepted iff the LFSR started at zero absorbs the error pattern *)
Theorem C07_crc32_accepts_iff :
  forall enc e ec, length e = length enc -> bytes_ok enc -> bytes_ok e -> (ec < 2 ^ 32)%N ->
  (checksum_ieee (xor_bytes enc e) = N.lxor (checksum_ieee enc) ec <-> crc32_run 0 (error_bits e ec) = 0%N).
Proof. exact crc32_accepts_iff. Qed.
Print Assumptions C07_crc32_accepts_iff.

(* PAYLOAD, one burst of at most 32 consecutive bits (first bit flipped, up to 31 arbitrary following bits) anywhere in
   payload || CRC-32, for payloads of ANY length, compressed or not: rejected - and before decompression, since the
   result is Err whatever [dcmp] would answer.  A single flipped bit is the case B = []. *)
Theorem C07_payload_burst :
  forall c hd enc e ec rest a B z,
  (hd < 2 ^ (8 * N.of_nat (hlen_of c)))%N -> bytes_ok enc -> bytes_ok e -> length e = length enc -> (ec < 2 ^ 32)%N ->
  payload_len c (header_of_data (is_some c) hd (checksum_koopman hd (hlen_of c))) = Z.of_nat (length enc) ->
  error_bits e ec = zeros a ++ true :: B ++ zeros z -> (length B <= 31)%nat ->
  decode_segment c (write_header hd (hlen_of c) ++ xor_bytes enc e ++ write_crc32 (N.lxor (checksum_ieee enc) ec) ++ rest) = Err.
Proof. exact burst_rejected. Qed.
Print Assumptions C07_payload_burst.

(* PAYLOAD, a single flipped bit anywhere in payload || CRC-32 (named corollary of the burst theorem) *)
Theorem C07_payload_single_flip :
  forall c hd enc e ec rest a z,
  (hd < 2 ^ (8 * N.of_nat (hlen_of c)))%N -> bytes_ok enc -> bytes_ok e -> length e = length enc -> (ec < 2 ^ 32)%N ->
  payload_len c (header_of_data (is_some c) hd (checksum_koopman hd (hlen_of c))) = Z.of_nat (length enc) ->
  error_bits e ec = zeros a ++ true :: zeros z ->
  decode_segment c (write_header hd (hlen_of c) ++ xor_bytes enc e ++ write_crc32 (N.lxor (checksum_ieee enc) ec) ++ rest) = Err.
Proof. exact single_flip_rejected. Qed.
Print Assumptions C07_payload_single_flip.

(* PAYLOAD, two flipped bits at any distance, for EVERY segment the decoder can be handed, uncompressed or compressed
   ([enc] is the payload as transmitted: the compressed bytes when the segment is compressed): the length the decoder reads
   comes from a 17-bit header field, so payload || CRC-32 never exceeds 131071*8+32 bits, and the register started at the
   polynomial does not return to 1 within 1 048 600 zero-input steps (kernel computation).  No bound is assumed. *)
Theorem C07_payload_double_flip :
  forall c hd enc e ec rest a m z,
  (hd < 2 ^ (8 * N.of_nat (hlen_of c)))%N -> bytes_ok enc -> bytes_ok e -> length e = length enc -> (ec < 2 ^ 32)%N ->
  payload_len c (header_of_data (is_some c) hd (checksum_koopman hd (hlen_of c))) = Z.of_nat (length enc) ->
  error_bits e ec = zeros a ++ true :: zeros m ++ true :: zeros z ->
  decode_segment c (write_header hd (hlen_of c) ++ xor_bytes enc e ++ write_crc32 (N.lxor (checksum_ieee enc) ec) ++ rest) = Err.
Proof. exact double_flip_rejected. Qed.
Print Assumptions C07_payload_double_flip.

(* the premises about the header are those of every segment the encoder emits (nil compressor shown; with a compressor the
   same two facts are the first steps of C06_roundtrip_with_compressor) *)
Theorem C07_premises_met_by_encoder :
  forall sc (p : list Z), Z.of_nat (length p) <= 131071 ->
  let hd := header_data_uncompressed sc (Z.of_nat (length p)) in
  (hd < 2 ^ (8 * N.of_nat (hlen_of None)))%N /\
  payload_len None (header_of_data false hd (checksum_koopman hd (hlen_of None))) = Z.of_nat (length p).
Proof. exact plain_segment_shape. Qed.
Print Assumptions C07_premises_met_by_encoder.

(* ... and of every segment emitted with a compressor, in both encoder branches (compressed bytes transmitted / fallback) *)
Theorem C07_premises_met_by_encoder_compressed :
  forall (k : compressor) sc (p cp : list Z),
  Z.of_nat (length p) <= 131071 -> (p <> [] -> cp <> []) ->
  let fits := Z.of_nat (length cp) <=? Z.of_nat (length p) in
  let hd := if fits then header_data_compressed sc (Z.of_nat (length p)) (Z.of_nat (length cp))
            else header_data_compressed sc 0 (Z.of_nat (length p)) in
  let transmitted := if fits then cp else p in
  (hd < 2 ^ (8 * N.of_nat (hlen_of (Some k))))%N /\
  payload_len (Some k) (header_of_data true hd (checksum_koopman hd (hlen_of (Some k)))) = Z.of_nat (length transmitted).
Proof. exact compressed_segment_shape. Qed.
Print Assumptions C07_premises_met_by_encoder_compressed.

(* non-vacuity: concrete error patterns of each shape, and the corrupted encodings really differ from the intact ones *)
Example C07_nonvacuous :
  (1 <= popcount 5 + popcount 64 <= 7)%nat /\
  error_bits [4] 0 = zeros 2 ++ true :: [] ++ zeros 37 /\
  error_bits [129; 0] 0 = zeros 0 ++ true :: zeros 6 ++ true :: zeros 40 /\
  error_bits [0; 128] 1073741825 = zeros 15 ++ true :: (true :: repeat false 29 ++ [true]) ++ zeros 1 /\
  xor_bytes [10; 20] [129; 0] = [139; 20] /\
  decode_segment None (xor_bytes (write_header 65 3) (put_le 3 5 ++ put_le 3 64) ++ [7; 1; 2; 3; 4]) = Err.
Proof. repeat split; try (vm_compute; reflexivity); vm_compute; repeat constructor. Qed.
