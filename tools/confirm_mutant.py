#!/usr/bin/env python3
"""Confirm a candidate seeded change before it is kept under /verif/seeded/<id>/.

usage: tools/confirm_mutant.py <candidate-dir> <id> [--keep]
  <candidate-dir> holds patch.diff, demo_test.go, meta.json (as written by a mutant-producing agent).
In a scratch worktree of /repo's HEAD (under /tmp, removed afterwards) it checks that
  * the patch applies and `go build ./...` succeeds,
  * the unchanged test suite passes with the patch (private network namespace: the client tests use fixed ports),
  * the demonstration test FAILS with the patch and PASSES without it.
With --keep and all of that true, the candidate is copied to /verif/seeded/<id>/ with the confirmation recorded in meta.json.
"""
import json
import os
import shutil
import subprocess
import sys

ROOT = os.path.dirname(os.path.dirname(os.path.abspath(__file__)))
ENV = "export GOFLAGS=-mod=mod GOPROXY=off GOSUMDB=off GOTOOLCHAIN=local; "


def sh(cmd, timeout=2400):
    r = subprocess.run(cmd, shell=True, stdout=subprocess.PIPE, stderr=subprocess.STDOUT, text=True, timeout=timeout)
    return r.returncode, r.stdout


def main():
    cand, mid = sys.argv[1], sys.argv[2]
    keep = "--keep" in sys.argv
    meta = json.load(open(os.path.join(cand, "meta.json")))
    wt = "/tmp/cm-%s/repo" % mid
    sh("git -C /repo worktree remove --force %s; rm -rf /tmp/cm-%s" % (wt, mid))
    os.makedirs("/tmp/cm-%s" % mid)
    res = {"builds": False, "suite_passes": False, "demo_fails_with_mutant": False, "demo_passes_without": False}
    log = []
    try:
        rc, out = sh("git -C /repo worktree add --detach %s HEAD" % wt)
        if rc != 0:
            print(out)
            return 2
        rc, out = sh("git -C %s apply %s" % (wt, os.path.abspath(os.path.join(cand, "patch.diff"))))
        if rc != 0:
            log.append("patch does not apply: " + out[-500:])
        else:
            rc, out = sh(ENV + "cd %s && go build ./... && go vet ./... >/dev/null 2>&1; go build ./..." % wt)
            res["builds"] = rc == 0
            if rc != 0:
                log.append("build: " + out[-800:])
            else:
                rc, out = sh(ENV + "unshare -n sh -c 'ip link set lo up; cd %s && go test -vet=off -count=1 -timeout 25m ./...'" % wt)
                res["suite_passes"] = rc == 0
                if rc != 0:
                    log.append("suite: " + "\n".join(l for l in out.split("\n") if "FAIL" in l or "panic" in l)[-1500:])
                loc = os.path.join(wt, meta["demo_location"], meta["demo_file_name"])
                shutil.copy(os.path.join(cand, "demo_test.go"), loc)
                demo = ENV + "unshare -n sh -c 'ip link set lo up; cd %s && %s'" % (wt, meta["demo_command"])
                fails = 0
                for _ in range(3 if meta.get("probabilistic") else 1):
                    rc, out = sh(demo, timeout=900)
                    fails += rc != 0
                res["demo_fails_with_mutant"] = fails > 0 and "[build failed]" not in out and "[setup failed]" not in out
                res["demo_fail_runs"] = fails
                log.append("demo with mutant: rc=%s %s" % (rc, out[-600:]))
                sh("git -C %s checkout -- ." % wt)
                rc, out = sh(demo, timeout=900)
                res["demo_passes_without"] = rc == 0
                log.append("demo without: rc=%s %s" % (rc, out[-300:]))
    finally:
        sh("git -C /repo worktree remove --force %s; rm -rf /tmp/cm-%s; git -C /repo worktree prune" % (wt, mid))
    ok = all(res[k] for k in ("builds", "suite_passes", "demo_fails_with_mutant", "demo_passes_without"))
    print(mid, "CONFIRMED" if ok else "REJECTED", json.dumps(res))
    if not ok:
        print("\n".join(log)[-3000:])
    if ok and keep:
        dst = os.path.join(ROOT, "seeded", mid)
        os.makedirs(dst, exist_ok=True)
        for f in ("patch.diff", "demo_test.go"):
            shutil.copy(os.path.join(cand, f), os.path.join(dst, f))
        meta["confirmed"] = res
        meta["base_commit"] = sh("git -C /repo rev-parse HEAD")[1].strip()
        json.dump(meta, open(os.path.join(dst, "meta.json"), "w"), indent=1)
    return 0 if ok else 1


if __name__ == "__main__":
    sys.exit(main())
