#!/bin/sh
# Regenerates coq/_CoqProject (file list) and coq/Makefile; full .vo builds only.
set -e
cd "$(dirname "$0")/../coq"
{
  echo "-Q . GCNP"
  echo "-arg -w -arg -notation-overridden,-deprecated-hint-without-locality,-deprecated-instance-without-locality,-deprecated-syntactic-definition"
  find base gen model spec proofs props -name '*.v' | LC_ALL=C sort
} > _CoqProject.new
if ! cmp -s _CoqProject.new _CoqProject || [ ! -f Makefile ]; then
  mv _CoqProject.new _CoqProject
  coq_makefile -f _CoqProject -o Makefile >/dev/null
else
  rm -f _CoqProject.new
fi
