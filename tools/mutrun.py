#!/usr/bin/env python3
"""Run registered checks against a seeded mutant WITHOUT touching /repo or /verif's build state.

usage: tools/mutrun.py <lane> <seeded-id> <Cxx> [<Cyy> ...]
  lane: any short name; the scratch trees are /tmp/mr-<lane>/{repo,verif} (removed with `tools/mutrun.py <lane> --clean`)
The mutant's patch (seeded/<id>/patch.diff) is applied to a scratch worktree of /repo's HEAD, /verif is mirrored into the
lane (with its built .vo files, so only what the patch invalidates is rebuilt) and each check runs there with
VERIF_REPO pointing at the scratch repository. The outcome is written to seeded/<id>/detection.json.
"""
import json
import os
import subprocess
import sys
import time

ROOT = os.path.dirname(os.path.dirname(os.path.abspath(__file__)))


def sh(cmd, **kw):
    return subprocess.run(cmd, shell=True, stdout=subprocess.PIPE, stderr=subprocess.STDOUT, text=True, **kw)


def main():
    lane = sys.argv[1]
    base = "/tmp/mr-%s" % lane
    repo, verif = base + "/repo", base + "/verif"
    if sys.argv[2] == "--clean":
        sh("git -C /repo worktree remove --force %s; rm -rf %s; git -C /repo worktree prune" % (repo, base))
        return 0
    mid, props = sys.argv[2], sys.argv[3:]
    os.makedirs(base, exist_ok=True)
    if not os.path.isdir(repo):
        r = sh("git -C /repo worktree add --detach %s HEAD" % repo)
        if r.returncode != 0:
            print(r.stdout)
            return 2
    sh("git -C %s checkout -q --detach $(git -C /repo rev-parse HEAD) && git -C %s checkout -- . && git -C %s clean -fdq" % (repo, repo, repo))
    patch = os.path.join(ROOT, "seeded", mid, "patch.diff")
    r = sh("git -C %s apply %s" % (repo, patch))
    if r.returncode != 0:
        print("patch does not apply:", r.stdout)
        return 2
    sh("rsync -a --delete --exclude .git --exclude evidence/replay --exclude coq/run %s/ %s/" % (ROOT, verif))
    res = {"mutant": mid, "base": sh("git -C /repo rev-parse --short HEAD").stdout.strip(), "checks": {}}
    for p in props:
        t = time.time()
        env = dict(os.environ, VERIF_REPO=repo)
        r = subprocess.run(["./check", p, "quick"], cwd=verif, env=env, stdout=subprocess.PIPE, stderr=subprocess.STDOUT, text=True)
        vio = [l for l in r.stdout.split("\n") if l.startswith("VIOLATION")]
        replay = None
        if vio:
            path = vio[0].split("replay=")[1].split()[0]
            try:
                replay = json.load(open(path))
            except Exception:
                replay = None
        res["checks"][p] = {"exit": r.returncode, "violations": vio[:5], "wall_s": round(time.time() - t, 1),
                            "caught": r.returncode == 1 and bool(vio),
                            "with_failing_input": bool(vio) and not vio[0].endswith("no-failing-input-found"),
                            "replay_excerpt": json.dumps(replay)[:1500] if replay else None,
                            "tail": r.stdout.strip().split("\n")[-3:]}
        print(mid, p, "exit", r.returncode, vio[:1], "%.0fs" % (time.time() - t), flush=True)
    out = os.path.join(ROOT, "seeded", mid, "detection.json")
    old = {}
    if os.path.exists(out):
        try:
            old = json.load(open(out))
        except Exception:
            old = {}
    old.setdefault("checks", {}).update(res["checks"])
    old.update({k: v for k, v in res.items() if k != "checks"})
    json.dump(old, open(out, "w"), indent=1)
    sh("git -C %s checkout -- . && git -C %s clean -fdq" % (repo, repo))
    return 0


if __name__ == "__main__":
    sys.exit(main())
