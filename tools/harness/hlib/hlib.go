// Package hlib holds what every harness command shares: line-oriented JSON output and the seed.
package hlib

import (
	"bufio"
	"encoding/json"
	"os"
	"strconv"
)

var Out = bufio.NewWriterSize(os.Stdout, 1<<20)

// Emit prints one JSON object on one line.
func Emit(v interface{}) {
	b, err := json.Marshal(v)
	if err != nil {
		panic(err)
	}
	Out.Write(b)
	Out.WriteByte('\n')
}

func Flush() { Out.Flush() }

// Seed returns VERIF_SEED (default 1); every random choice of a command derives from it.
func Seed() int64 {
	if s := os.Getenv("VERIF_SEED"); s != "" {
		if v, err := strconv.ParseInt(s, 10, 64); err == nil {
			return v
		}
	}
	return 1
}
