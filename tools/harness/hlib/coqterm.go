package hlib

// Reflective printer of Go values of /repo (frames, messages, primitives, data types) as Coq terms that type-check
// against coq/model/{Prim,DataType,MsgTypes,Frame}.v.  The syntax is fixed by notes/frame-harness.md:
//
//	string (and named string types)      (hx "<hex of the bytes>")   [more than 4096 bytes: (app (hx "..") (app (hx "..") ...)),
//	                                     because Coq overflows its stack on string literals of ~30 000 characters]
//	[]byte, net.IP                       None | (Some (hx "..."))
//	*primitive.UUID                      None | (Some (hx "<32 hex>"))
//	*T                                   None | (Some <T>)
//	bool                                 true | false
//	integers, code types                 5 | (-5)
//	other slices                         [a; b; c]            (nil and empty: [])
//	maps                                 [((hx "6b"), v); ...] sorted by key bytes
//	struct T                             (Build_T f1 f2 ...)   positional, Go field order
//	message.Message                      M_Options | (M_ServerError (hx "..")) | (M_Query (Build_Query ...))
//	datatype.DataType                    (DT_Primitive 9) | (DT_List (Some ...)) | ...; an interface-typed field is an option
//
// nil-significant exceptions (option of list): QueryOptions.PositionalValues, QueryOptions.NamedValues, Body.Warnings.
// Frame.Header, Frame.Body and RawFrame.Header are printed bare (the Coq records hold them by value).
// At top level a non-nil pointer to a plain struct (Frame, Header, Body, RawFrame, QueryOptions ...) is printed bare.

import (
	"encoding/hex"
	"reflect"
	"sort"
	"strconv"
	"strings"

	"github.com/datastax/go-cassandra-native-protocol/datatype"
	"github.com/datastax/go-cassandra-native-protocol/message"
	"github.com/datastax/go-cassandra-native-protocol/primitive"
)

var (
	coqMsgIface = reflect.TypeOf((*message.Message)(nil)).Elem()
	coqDtIface  = reflect.TypeOf((*datatype.DataType)(nil)).Elem()
	coqUuidType = reflect.TypeOf(primitive.UUID{})
)

// fields printed as option (list ...) because nil and empty differ in the code
var coqNilSignificant = map[string]bool{
	"QueryOptions.PositionalValues": true,
	"QueryOptions.NamedValues":      true,
	"Body.Warnings":                 true,
}

// pointer fields printed without the option wrapper
var coqBareFields = map[string]bool{
	"Frame.Header":    true,
	"Frame.Body":      true,
	"RawFrame.Header": true,
}

// message structs with no field
var coqEmptyMessages = map[string]bool{"Options": true, "Ready": true, "VoidResult": true}

// ERROR structs that carry only the message
var coqMessageOnlyErrors = map[string]bool{
	"ServerError": true, "ProtocolError": true, "AuthenticationError": true, "Overloaded": true, "IsBootstrapping": true,
	"TruncateError": true, "SyntaxError": true, "Unauthorized": true, "Invalid": true, "ConfigError": true,
}

// CoqTerm prints v as a Coq term (see the package comment of this file).
func CoqTerm(v interface{}) string {
	var sb strings.Builder
	rv := reflect.ValueOf(v)
	if rv.IsValid() && rv.Kind() == reflect.Ptr && !rv.IsNil() && rv.Type().Elem().Kind() == reflect.Struct &&
		!rv.Type().Implements(coqMsgIface) && !rv.Type().Implements(coqDtIface) {
		coqValue(&sb, rv.Elem())
	} else {
		coqValue(&sb, rv)
	}
	return sb.String()
}

// CoqOpt prints v with the option wrapper even at top level: None for a nil pointer / interface / slice / map,
// (Some <term>) otherwise.  For slices and maps the payload is the list (nil-significant form).
func CoqOpt(v interface{}) string {
	var sb strings.Builder
	rv := reflect.ValueOf(v)
	if !rv.IsValid() {
		return "None"
	}
	switch rv.Kind() {
	case reflect.Ptr, reflect.Interface:
		if rv.IsNil() {
			return "None"
		}
		if rv.Type().Implements(coqMsgIface) || rv.Type().Implements(coqDtIface) {
			sb.WriteString("(Some ")
			coqValue(&sb, rv)
			sb.WriteString(")")
			return sb.String()
		}
		coqValue(&sb, rv) // pointers already print as options
		return sb.String()
	case reflect.Slice, reflect.Map:
		coqOptList(&sb, rv)
		return sb.String()
	}
	sb.WriteString("(Some ")
	coqValue(&sb, rv)
	sb.WriteString(")")
	return sb.String()
}

// CoqHex prints a byte string as (hx "...").
func CoqHex(b []byte) string {
	var sb strings.Builder
	coqHexTo(&sb, b)
	return sb.String()
}

// CoqZ prints an integer so that Coq reads it in Z scope.
func CoqZ(i int64) string {
	if i < 0 {
		return "(" + strconv.FormatInt(i, 10) + ")"
	}
	return strconv.FormatInt(i, 10)
}

// CoqDeterministic reports whether the encoding of v is deterministic: false when some map reachable from v has two
// or more entries (Go iterates maps in random order).
func CoqDeterministic(v interface{}) bool {
	return coqDet(reflect.ValueOf(v), 0)
}

func coqDet(v reflect.Value, depth int) bool {
	if !v.IsValid() || depth > 200 {
		return true
	}
	switch v.Kind() {
	case reflect.Ptr, reflect.Interface:
		if v.IsNil() {
			return true
		}
		return coqDet(v.Elem(), depth+1)
	case reflect.Map:
		if v.Len() >= 2 {
			return false
		}
		it := v.MapRange()
		for it.Next() {
			if !coqDet(it.Value(), depth+1) {
				return false
			}
		}
		return true
	case reflect.Slice, reflect.Array:
		if v.Type().Elem().Kind() == reflect.Uint8 {
			return true
		}
		for i := 0; i < v.Len(); i++ {
			if !coqDet(v.Index(i), depth+1) {
				return false
			}
		}
		return true
	case reflect.Struct:
		for i := 0; i < v.NumField(); i++ {
			if !coqDet(v.Field(i), depth+1) {
				return false
			}
		}
		return true
	}
	return true
}

// coqHexChunk is the largest number of bytes printed as one string literal: Coq 8.16 overflows its stack on string
// literals of some 30 000 characters.  Longer byte strings are printed (app (hx "...") (app (hx "...") (hx "..."))).
const coqHexChunk = 4096

func coqHexTo(sb *strings.Builder, b []byte) {
	if len(b) <= coqHexChunk {
		sb.WriteString(`(hx "`)
		sb.WriteString(hex.EncodeToString(b))
		sb.WriteString(`")`)
		return
	}
	n := 0
	for len(b) > coqHexChunk {
		sb.WriteString(`(app (hx "`)
		sb.WriteString(hex.EncodeToString(b[:coqHexChunk]))
		sb.WriteString(`") `)
		b = b[coqHexChunk:]
		n++
	}
	sb.WriteString(`(hx "`)
	sb.WriteString(hex.EncodeToString(b))
	sb.WriteString(`")`)
	for ; n > 0; n-- {
		sb.WriteString(")")
	}
}

func coqBytesOf(v reflect.Value) []byte {
	// v: slice or array of uint8 (possibly of a named type, possibly unaddressable)
	n := v.Len()
	b := make([]byte, n)
	for i := 0; i < n; i++ {
		b[i] = byte(v.Index(i).Uint())
	}
	return b
}

func coqValue(sb *strings.Builder, v reflect.Value) {
	if !v.IsValid() {
		sb.WriteString("None")
		return
	}
	t := v.Type()
	switch v.Kind() {
	case reflect.Bool:
		if v.Bool() {
			sb.WriteString("true")
		} else {
			sb.WriteString("false")
		}
	case reflect.Int, reflect.Int8, reflect.Int16, reflect.Int32, reflect.Int64:
		sb.WriteString(CoqZ(v.Int()))
	case reflect.Uint, reflect.Uint8, reflect.Uint16, reflect.Uint32, reflect.Uint64, reflect.Uintptr:
		sb.WriteString(strconv.FormatUint(v.Uint(), 10))
	case reflect.String:
		coqHexTo(sb, []byte(v.String()))
	case reflect.Array:
		if t.Elem().Kind() == reflect.Uint8 {
			coqHexTo(sb, coqBytesOf(v))
		} else {
			coqList(sb, v)
		}
	case reflect.Slice:
		if t.Elem().Kind() == reflect.Uint8 {
			if v.IsNil() {
				sb.WriteString("None")
			} else {
				sb.WriteString("(Some ")
				coqHexTo(sb, coqBytesOf(v))
				sb.WriteString(")")
			}
		} else {
			coqList(sb, v)
		}
	case reflect.Map:
		coqMap(sb, v)
	case reflect.Interface:
		if v.IsNil() {
			if t == coqMsgIface {
				sb.WriteString("NIL_MESSAGE") // not a Coq term on purpose: a frame without a message has no model value
			} else {
				sb.WriteString("None")
			}
			return
		}
		switch {
		case t == coqMsgIface:
			coqValue(sb, v.Elem())
		case t == coqDtIface:
			sb.WriteString("(Some ")
			coqValue(sb, v.Elem())
			sb.WriteString(")")
		default:
			coqValue(sb, v.Elem())
		}
	case reflect.Ptr:
		switch {
		case t.Implements(coqMsgIface):
			coqMessage(sb, v)
		case t.Implements(coqDtIface):
			coqDataType(sb, v)
		case v.IsNil():
			sb.WriteString("None")
		case t.Elem() == coqUuidType:
			sb.WriteString("(Some ")
			coqHexTo(sb, coqBytesOf(v.Elem()))
			sb.WriteString(")")
		default:
			sb.WriteString("(Some ")
			coqValue(sb, v.Elem())
			sb.WriteString(")")
		}
	case reflect.Struct:
		coqStruct(sb, v)
	default:
		sb.WriteString("UNSUPPORTED_" + t.String())
	}
}

func coqList(sb *strings.Builder, v reflect.Value) {
	sb.WriteString("[")
	for i := 0; i < v.Len(); i++ {
		if i > 0 {
			sb.WriteString("; ")
		}
		coqValue(sb, v.Index(i))
	}
	sb.WriteString("]")
}

func coqMap(sb *strings.Builder, v reflect.Value) {
	keys := v.MapKeys()
	if len(keys) > 1 {
		if keys[0].Kind() == reflect.String {
			sort.Slice(keys, func(i, j int) bool { return keys[i].String() < keys[j].String() })
		} else {
			strs := make(map[interface{}]string, len(keys))
			for _, k := range keys {
				var kb strings.Builder
				coqValue(&kb, k)
				strs[k.Interface()] = kb.String()
			}
			sort.Slice(keys, func(i, j int) bool { return strs[keys[i].Interface()] < strs[keys[j].Interface()] })
		}
	}
	sb.WriteString("[")
	for i, k := range keys {
		if i > 0 {
			sb.WriteString("; ")
		}
		sb.WriteString("(")
		coqValue(sb, k)
		sb.WriteString(", ")
		coqValue(sb, v.MapIndex(k))
		sb.WriteString(")")
	}
	sb.WriteString("]")
}

// option (list ...): None when nil
func coqOptList(sb *strings.Builder, v reflect.Value) {
	if v.IsNil() {
		sb.WriteString("None")
		return
	}
	sb.WriteString("(Some ")
	if v.Kind() == reflect.Map {
		coqMap(sb, v)
	} else if v.Type().Elem().Kind() == reflect.Uint8 {
		coqHexTo(sb, coqBytesOf(v))
	} else {
		coqList(sb, v)
	}
	sb.WriteString(")")
}

func coqStruct(sb *strings.Builder, v reflect.Value) {
	t := v.Type()
	name := t.Name()
	if t.NumField() == 0 {
		sb.WriteString("Build_" + name)
		return
	}
	sb.WriteString("(Build_" + name)
	for i := 0; i < t.NumField(); i++ {
		sb.WriteString(" ")
		f := v.Field(i)
		key := name + "." + t.Field(i).Name
		switch {
		case coqNilSignificant[key] && (f.Kind() == reflect.Slice || f.Kind() == reflect.Map):
			coqOptList(sb, f)
		case coqBareFields[key] && f.Kind() == reflect.Ptr:
			if f.IsNil() {
				sb.WriteString("NIL_" + strings.ToUpper(t.Field(i).Name))
			} else {
				coqValue(sb, f.Elem())
			}
		default:
			coqValue(sb, f)
		}
	}
	sb.WriteString(")")
}

// v: pointer to a message struct
func coqMessage(sb *strings.Builder, v reflect.Value) {
	if v.IsNil() {
		sb.WriteString("NIL_MESSAGE")
		return
	}
	e := v.Elem()
	if e.Kind() != reflect.Struct {
		sb.WriteString("UNSUPPORTED_MESSAGE_" + v.Type().String())
		return
	}
	name := e.Type().Name()
	switch {
	case coqEmptyMessages[name]:
		sb.WriteString("M_" + name)
	case coqMessageOnlyErrors[name]:
		sb.WriteString("(M_" + name + " ")
		coqValue(sb, e.Field(0))
		sb.WriteString(")")
	default:
		sb.WriteString("(M_" + name + " ")
		coqStruct(sb, e)
		sb.WriteString(")")
	}
}

// v: pointer implementing datatype.DataType; prints the bare DataType term (callers add the option)
func coqDataType(sb *strings.Builder, v reflect.Value) {
	if v.IsNil() {
		// a typed nil pointer inside an interface: t.Code() would dereference nil; there is no model value
		sb.WriteString("NIL_DATATYPE")
		return
	}
	switch dt := v.Interface().(type) {
	case *datatype.PrimitiveType:
		sb.WriteString("(DT_Primitive " + strconv.FormatUint(uint64(dt.Code()), 10) + ")")
	case *datatype.Custom:
		sb.WriteString("(DT_Custom ")
		coqHexTo(sb, []byte(dt.ClassName))
		sb.WriteString(")")
	case *datatype.List:
		sb.WriteString("(DT_List ")
		coqValue(sb, v.Elem().FieldByName("ElementType"))
		sb.WriteString(")")
	case *datatype.Set:
		sb.WriteString("(DT_Set ")
		coqValue(sb, v.Elem().FieldByName("ElementType"))
		sb.WriteString(")")
	case *datatype.Map:
		sb.WriteString("(DT_Map ")
		coqValue(sb, v.Elem().FieldByName("KeyType"))
		sb.WriteString(" ")
		coqValue(sb, v.Elem().FieldByName("ValueType"))
		sb.WriteString(")")
	case *datatype.Tuple:
		sb.WriteString("(DT_Tuple ")
		coqValue(sb, v.Elem().FieldByName("FieldTypes"))
		sb.WriteString(")")
	case *datatype.UserDefined:
		sb.WriteString("(DT_Udt ")
		coqHexTo(sb, []byte(dt.Keyspace))
		sb.WriteString(" ")
		coqHexTo(sb, []byte(dt.Name))
		sb.WriteString(" ")
		coqValue(sb, v.Elem().FieldByName("FieldNames"))
		sb.WriteString(" ")
		coqValue(sb, v.Elem().FieldByName("FieldTypes"))
		sb.WriteString(")")
	default:
		sb.WriteString("UNSUPPORTED_DATATYPE_" + v.Type().String())
	}
}
