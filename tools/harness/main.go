// Command harness runs the implementation (/repo, built from its current working tree with
// -tags verif) on generated inputs and prints canonical observables, one JSON object per line.
package main

import (
	"bufio"
	"encoding/json"
	"fmt"
	"os"
	"strconv"
)

var out = bufio.NewWriterSize(os.Stdout, 1<<20)

func emit(v interface{}) {
	b, err := json.Marshal(v)
	if err != nil {
		panic(err)
	}
	out.Write(b)
	out.WriteByte('\n')
}

type command func(args []string, seed int64)

var commands = map[string]command{}

func main() {
	defer out.Flush()
	if len(os.Args) < 2 {
		fmt.Fprintln(os.Stderr, "usage: harness <command> [args]   (seed from VERIF_SEED)")
		os.Exit(2)
	}
	seed := int64(1)
	if s := os.Getenv("VERIF_SEED"); s != "" {
		if v, err := strconv.ParseInt(s, 10, 64); err == nil {
			seed = v
		}
	}
	c, ok := commands[os.Args[1]]
	if !ok {
		fmt.Fprintln(os.Stderr, "unknown command", os.Args[1])
		os.Exit(2)
	}
	c(os.Args[2:], seed)
}
