module verifharness

go 1.17

require (
	github.com/datastax/go-cassandra-native-protocol v0.0.0
	github.com/golang/snappy v0.0.3
	github.com/pierrec/lz4/v4 v4.0.3
	github.com/rs/zerolog v1.20.0
)

replace github.com/datastax/go-cassandra-native-protocol => /repo
