module verifharness

go 1.17

require github.com/datastax/go-cassandra-native-protocol v0.0.0

replace github.com/datastax/go-cassandra-native-protocol => /repo
